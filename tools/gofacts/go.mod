module gofacts

go 1.26
