// gofacts: a fact extractor (NOT a Go-to-Lean compiler).  It parses /repo with go/parser and
// emits Lean *data* for one property: integer constants, string literals, the ordered call
// sequence of named functions (lock/unlock calls and `defer`s included), the case types of
// type switches, and struct-free summaries.  Theorems in Props/ are stated over these generated
// definitions, so they are re-checked against what the source says now.
//
//	gofacts -repo /repo -spec checks/C03.json -out lean/GateModel/Gen/C03.lean
//
// The spec's "facts" array:  {"kind":"const","pkg":DIR,"name":N,"as":LEANNAME}
//	{"kind":"string","pkg":DIR,"name":N,"as":L}         string const/var initialised by a literal (or regexp.MustCompile(lit))
//	{"kind":"calls","pkg":DIR,"func":F,"as":L}          F is "Func" or "Recv.Method"; → List String
//	{"kind":"callsdeep","pkg":DIR,"func":F,"as":L,"depth":N}  like calls, same-receiver helper methods inlined (robust to extract/rename)
//	{"kind":"cases","pkg":DIR,"func":F,"as":L}          case types/values of every switch in F → List String
//	{"kind":"funcs","pkg":DIR,"prefix":P,"as":L}        names of top-level funcs with prefix P → List String
//	{"kind":"versions","pkg":DIR,"name":SLICE,"as":L}   slice literal of `v(protocol, names…)` variables (version.Versions) →
//	                                                    L : List (String × Int) in slice order, plus `LV.<GoVar> : Int` for every v(…) variable
//	{"kind":"registry","pkg":DIR,"versions":VDIR,"as":L} the packet-id mapping table written in the package's `init`
//	                                                    (`<Reg>.<Dir>.Register(&pkg.T{}, m(id, version.X), ml(id, version.X, version.Y) …)` and
//	                                                    `<Reg>.<Dir>.Fallback = b`), see registry.go in this directory
//	{"kind":"lits","pkg":DIR,"func":F,"as":L}           composite-literal type names inside F → List String
//	{"kind":"strlits","pkg":DIR,"func":F|"name":V,"as":L} string literals inside func F / var V initialiser, source order → List String
// It fails loudly (exit 2) if something asked for no longer exists.
package main

import (
	"encoding/json"
	"flag"
	"fmt"
	"go/ast"
	"go/parser"
	"go/token"
	"math"
	"os"
	"path/filepath"
	"sort"
	"strconv"
	"strings"
)

type fact struct {
	Kind, Pkg, Name, Func, Prefix, As string
	Versions                          string // "registry": directory of the version package
	Depth                             int    // "callsdeep": how many levels of same-receiver helpers to inline (default 1)
}
type spec struct {
	ID    string `json:"id"`
	Facts []fact `json:"facts"`
}

var knownConsts = map[string]int64{
	"bufio.MaxScanTokenSize": 64 * 1024,
	"math.MaxInt8":           math.MaxInt8, "math.MaxInt16": math.MaxInt16, "math.MaxInt32": math.MaxInt32,
	"math.MaxInt64": math.MaxInt64, "math.MaxUint8": math.MaxUint8, "math.MaxUint16": math.MaxUint16,
	"math.MaxUint32": math.MaxUint32, "math.MinInt32": math.MinInt32,
	"time.Nanosecond": 1, "time.Microsecond": 1e3, "time.Millisecond": 1e6, "time.Second": 1e9, "time.Minute": 60e9, "time.Hour": 3600e9,
}

type pkgInfo struct {
	files  []*ast.File
	consts map[string]ast.Expr
	vars   map[string]ast.Expr
	funcs  map[string]*ast.FuncDecl
}

var fset = token.NewFileSet()
var pkgs = map[string]*pkgInfo{}

func die(f string, a ...any) { fmt.Fprintf(os.Stderr, "gofacts: "+f+"\n", a...); os.Exit(2) }

func load(repo, dir string) *pkgInfo {
	if p, ok := pkgs[dir]; ok {
		return p
	}
	p := &pkgInfo{consts: map[string]ast.Expr{}, vars: map[string]ast.Expr{}, funcs: map[string]*ast.FuncDecl{}}
	ents, err := os.ReadDir(filepath.Join(repo, dir))
	if err != nil {
		die("cannot read %s: %v", dir, err)
	}
	for _, e := range ents {
		n := e.Name()
		if !strings.HasSuffix(n, ".go") || strings.HasSuffix(n, "_test.go") || strings.HasSuffix(n, "_verif.go") || strings.Contains(n, "_verif_") {
			continue
		}
		f, err := parser.ParseFile(fset, filepath.Join(repo, dir, n), nil, parser.SkipObjectResolution)
		if err != nil {
			die("parse %s: %v", n, err)
		}
		p.files = append(p.files, f)
		for _, d := range f.Decls {
			switch d := d.(type) {
			case *ast.GenDecl:
				var lastVals []ast.Expr
				for i, s := range d.Specs {
					vs, ok := s.(*ast.ValueSpec)
					if !ok {
						continue
					}
					vals := vs.Values
					if d.Tok == token.CONST {
						if len(vals) == 0 {
							vals = lastVals
						} else {
							lastVals = vals
						}
					}
					for j, nm := range vs.Names {
						if j < len(vals) {
							ex := vals[j]
							if d.Tok == token.CONST {
								ex = &iotaExpr{ex, int64(i)}
								p.consts[nm.Name] = ex
							} else {
								p.vars[nm.Name] = ex
							}
						}
					}
				}
			case *ast.FuncDecl:
				name := d.Name.Name
				if d.Recv != nil && len(d.Recv.List) == 1 {
					name = recvName(d.Recv.List[0].Type) + "." + name
				}
				p.funcs[name] = d
			}
		}
	}
	pkgs[dir] = p
	return p
}

// iotaExpr wraps a const initialiser together with its iota value.
type iotaExpr struct {
	ast.Expr
	iota int64
}

func recvName(e ast.Expr) string {
	switch t := e.(type) {
	case *ast.StarExpr:
		return recvName(t.X)
	case *ast.Ident:
		return t.Name
	case *ast.IndexExpr:
		return recvName(t.X)
	case *ast.IndexListExpr:
		return recvName(t.X)
	}
	return "?"
}

func evalInt(p *pkgInfo, e ast.Expr, iota int64, depth int) (int64, bool) {
	if depth > 50 {
		return 0, false
	}
	switch x := e.(type) {
	case *iotaExpr:
		return evalInt(p, x.Expr, x.iota, depth+1)
	case *ast.BasicLit:
		if x.Kind == token.INT {
			v, err := strconv.ParseInt(strings.ReplaceAll(x.Value, "_", ""), 0, 64)
			return v, err == nil
		}
		if x.Kind == token.CHAR {
			r, _, _, err := strconv.UnquoteChar(x.Value[1:len(x.Value)-1], '\'')
			return int64(r), err == nil
		}
		if x.Kind == token.FLOAT {
			f, err := strconv.ParseFloat(x.Value, 64)
			if err == nil && f == math.Trunc(f) {
				return int64(f), true
			}
		}
	case *ast.ParenExpr:
		return evalInt(p, x.X, iota, depth+1)
	case *ast.Ident:
		if x.Name == "iota" {
			return iota, true
		}
		if c, ok := p.consts[x.Name]; ok {
			return evalInt(p, c, iota, depth+1)
		}
	case *ast.SelectorExpr:
		if id, ok := x.X.(*ast.Ident); ok {
			if v, ok := knownConsts[id.Name+"."+x.Sel.Name]; ok {
				return v, true
			}
		}
	case *ast.CallExpr: // conversions like int64(x), time.Duration(x)
		if len(x.Args) == 1 {
			return evalInt(p, x.Args[0], iota, depth+1)
		}
	case *ast.UnaryExpr:
		v, ok := evalInt(p, x.X, iota, depth+1)
		if !ok {
			return 0, false
		}
		switch x.Op {
		case token.SUB:
			return -v, true
		case token.ADD:
			return v, true
		case token.XOR:
			return ^v, true
		}
	case *ast.BinaryExpr:
		a, ok1 := evalInt(p, x.X, iota, depth+1)
		b, ok2 := evalInt(p, x.Y, iota, depth+1)
		if !ok1 || !ok2 {
			return 0, false
		}
		switch x.Op {
		case token.ADD:
			return a + b, true
		case token.SUB:
			return a - b, true
		case token.MUL:
			return a * b, true
		case token.QUO:
			if b != 0 {
				return a / b, true
			}
		case token.REM:
			if b != 0 {
				return a % b, true
			}
		case token.SHL:
			return a << uint(b), true
		case token.SHR:
			return a >> uint(b), true
		case token.AND:
			return a & b, true
		case token.OR:
			return a | b, true
		case token.XOR:
			return a ^ b, true
		case token.AND_NOT:
			return a &^ b, true
		}
	}
	return 0, false
}

func evalString(p *pkgInfo, e ast.Expr, depth int) (string, bool) {
	if depth > 20 {
		return "", false
	}
	switch x := e.(type) {
	case *iotaExpr:
		return evalString(p, x.Expr, depth+1)
	case *ast.BasicLit:
		if x.Kind == token.STRING {
			s, err := strconv.Unquote(x.Value)
			return s, err == nil
		}
	case *ast.ParenExpr:
		return evalString(p, x.X, depth+1)
	case *ast.Ident:
		if c, ok := p.consts[x.Name]; ok {
			return evalString(p, c, depth+1)
		}
		if c, ok := p.vars[x.Name]; ok {
			return evalString(p, c, depth+1)
		}
	case *ast.BinaryExpr:
		if x.Op == token.ADD {
			a, ok1 := evalString(p, x.X, depth+1)
			b, ok2 := evalString(p, x.Y, depth+1)
			return a + b, ok1 && ok2
		}
	case *ast.CallExpr: // regexp.MustCompile("…") and friends: first argument
		if len(x.Args) >= 1 {
			return evalString(p, x.Args[0], depth+1)
		}
	}
	return "", false
}

func exprName(e ast.Expr) string {
	switch x := e.(type) {
	case *ast.Ident:
		return x.Name
	case *ast.SelectorExpr:
		return exprName(x.X) + "." + x.Sel.Name
	case *ast.CallExpr:
		return exprName(x.Fun) + "()"
	case *ast.StarExpr:
		return "*" + exprName(x.X)
	case *ast.ParenExpr:
		return exprName(x.X)
	case *ast.IndexExpr:
		return exprName(x.X) + "[]"
	case *ast.IndexListExpr:
		return exprName(x.X) + "[]"
	case *ast.FuncLit:
		return "func"
	case *ast.ArrayType:
		return "[]" + exprName(x.Elt)
	case *ast.MapType:
		return "map"
	case *ast.BasicLit:
		return x.Value
	case *ast.UnaryExpr:
		return x.Op.String() + exprName(x.X)
	case *ast.CompositeLit:
		return exprName(x.Type) + "{}"
	case *ast.TypeAssertExpr:
		return exprName(x.X) + ".()"
	case *ast.InterfaceType:
		return "interface"
	case *ast.ChanType:
		return "chan"
	case *ast.FuncType:
		return "functype"
	case *ast.StructType:
		return "struct"
	case *ast.BinaryExpr:
		return exprName(x.X) + x.Op.String() + exprName(x.Y)
	case *ast.Ellipsis:
		return "..."
	case nil:
		return ""
	}
	return fmt.Sprintf("%T", e)
}

// callSeq lists calls in source order; "defer:" / "go:" prefixes mark deferred / spawned calls,
// "{" and "}" bracket function literals so that lock regions stay readable.
func callSeq(fn *ast.FuncDecl) []string {
	var out []string
	var visit func(n ast.Node)
	visit = func(n ast.Node) {
		ast.Inspect(n, func(m ast.Node) bool {
			switch x := m.(type) {
			case *ast.DeferStmt:
				for _, a := range x.Call.Args {
					visit(a)
				}
				if fl, ok := x.Call.Fun.(*ast.FuncLit); ok {
					out = append(out, "defer:{")
					visit(fl.Body)
					out = append(out, "}")
				} else {
					out = append(out, "defer:"+exprName(x.Call.Fun))
				}
				return false
			case *ast.GoStmt:
				for _, a := range x.Call.Args {
					visit(a)
				}
				if fl, ok := x.Call.Fun.(*ast.FuncLit); ok {
					out = append(out, "go:{")
					visit(fl.Body)
					out = append(out, "}")
				} else {
					out = append(out, "go:"+exprName(x.Call.Fun))
				}
				return false
			case *ast.CallExpr:
				// arguments first (evaluation order), then the call itself
				if _, isLit := x.Fun.(*ast.FuncLit); !isLit {
					visit(x.Fun)
				}
				for _, a := range x.Args {
					visit(a)
				}
				if fl, ok := x.Fun.(*ast.FuncLit); ok {
					out = append(out, "{")
					visit(fl.Body)
					out = append(out, "}")
				} else {
					out = append(out, exprName(x.Fun))
				}
				return false
			case *ast.FuncLit:
				out = append(out, "func:{")
				visit(x.Body)
				out = append(out, "}")
				return false
			case *ast.ReturnStmt:
				for _, r := range x.Results {
					visit(r)
				}
				out = append(out, "return")
				return false
			}
			return true
		})
	}
	if fn.Body != nil {
		visit(fn.Body)
	}
	return out
}

// callSeqDeep: callSeq with same-receiver method calls inlined (see the "callsdeep" fact kind).
func callSeqDeep(p *pkgInfo, fn *ast.FuncDecl, levels int, seen map[string]bool) []string {
	cs := callSeq(fn)
	if fn.Recv == nil || len(fn.Recv.List) != 1 || len(fn.Recv.List[0].Names) != 1 || levels <= 0 {
		return cs
	}
	rv := fn.Recv.List[0].Names[0].Name + "."
	rt := recvName(fn.Recv.List[0].Type) + "."
	var out []string
	for _, c := range cs {
		if strings.HasPrefix(c, rv) && !strings.Contains(c[len(rv):], ".") {
			key := rt + c[len(rv):]
			if callee, ok := p.funcs[key]; ok && !seen[key] {
				seen[key] = true
				out = append(out, callSeqDeep(p, callee, levels-1, seen)...)
				delete(seen, key)
				continue
			}
		}
		out = append(out, c)
	}
	return out
}

func caseList(fn *ast.FuncDecl) []string {
	var out []string
	ast.Inspect(fn, func(m ast.Node) bool {
		if cc, ok := m.(*ast.CaseClause); ok {
			if cc.List == nil {
				out = append(out, "default")
			}
			for _, e := range cc.List {
				out = append(out, exprName(e))
			}
		}
		return true
	})
	return out
}

func leanStr(s string) string {
	var sb strings.Builder
	sb.WriteByte('"')
	for _, r := range s {
		switch {
		case r == '"':
			sb.WriteString("\\\"")
		case r == '\\':
			sb.WriteString("\\\\")
		case r == '\n':
			sb.WriteString("\\n")
		case r == '\t':
			sb.WriteString("\\t")
		case r < 0x20 || r == 0x7f:
			fmt.Fprintf(&sb, "\\x%02x", r)
		default:
			sb.WriteRune(r)
		}
	}
	sb.WriteByte('"')
	return sb.String()
}

func leanList(xs []string) string {
	if len(xs) == 0 {
		return "[]"
	}
	q := make([]string, len(xs))
	for i, x := range xs {
		q[i] = leanStr(x)
	}
	// one element per line keeps Lean's elaborator fast on long lists
	return "[\n  " + strings.Join(q, ",\n  ") + "]"
}

func main() {
	repo := flag.String("repo", "/repo", "repository root")
	specPath := flag.String("spec", "", "checks/Cxx.json")
	out := flag.String("out", "", "output .lean file")
	flag.Parse()
	raw, err := os.ReadFile(*specPath)
	if err != nil {
		die("%v", err)
	}
	var sp spec
	if err := json.Unmarshal(raw, &sp); err != nil {
		die("spec: %v", err)
	}
	var sb strings.Builder
	fmt.Fprintf(&sb, "/- GENERATED by tools/gofacts from %s's working tree for %s. Do not edit. -/\nnamespace Gate.Gen.%s\n\n", *repo, sp.ID, sp.ID)
	summary := map[string]any{}
	for _, f := range sp.Facts {
		p := load(*repo, f.Pkg)
		switch f.Kind {
		case "const":
			ex, ok := p.consts[f.Name]
			if !ok {
				ex, ok = p.vars[f.Name]
			}
			if !ok {
				die("%s: constant %s not found in %s", sp.ID, f.Name, f.Pkg)
			}
			v, ok := evalInt(p, ex, 0, 0)
			if !ok {
				die("%s: cannot evaluate %s.%s", sp.ID, f.Pkg, f.Name)
			}
			fmt.Fprintf(&sb, "/-- %s: %s -/\ndef %s : Int := %d\n\n", f.Pkg, f.Name, f.As, v)
			summary[f.As] = v
		case "string":
			ex, ok := p.consts[f.Name]
			if !ok {
				ex, ok = p.vars[f.Name]
			}
			if !ok {
				die("%s: string %s not found in %s", sp.ID, f.Name, f.Pkg)
			}
			v, ok := evalString(p, ex, 0)
			if !ok {
				die("%s: cannot evaluate string %s.%s", sp.ID, f.Pkg, f.Name)
			}
			fmt.Fprintf(&sb, "/-- %s: %s -/\ndef %s : String := %s\n\n", f.Pkg, f.Name, f.As, leanStr(v))
			summary[f.As] = v
		case "calls":
			fn, ok := p.funcs[f.Func]
			if !ok {
				die("%s: func %s not found in %s", sp.ID, f.Func, f.Pkg)
			}
			cs := callSeq(fn)
			fmt.Fprintf(&sb, "/-- %s: call sequence of %s -/\ndef %s : List String := %s\n\n", f.Pkg, f.Func, f.As, leanList(cs))
			summary[f.As] = cs
		case "callsdeep":
			// like "calls", but calls to methods of the same receiver (`c.helper(...)` inside `(c *T) F`) that exist in
			// the package are replaced by the callee's own call sequence (transitively, bounded depth): the fact then
			// describes what F does, however the body is split into helpers — robust to extract/rename refactors.
			fn, ok := p.funcs[f.Func]
			if !ok {
				die("%s: func %s not found in %s", sp.ID, f.Func, f.Pkg)
			}
			lv := f.Depth
			if lv <= 0 {
				lv = 1
			}
			cs := callSeqDeep(p, fn, lv, map[string]bool{f.Func: true})
			fmt.Fprintf(&sb, "/-- %s: call sequence of %s with same-receiver helpers inlined -/\ndef %s : List String := %s\n\n", f.Pkg, f.Func, f.As, leanList(cs))
			summary[f.As] = cs
		case "cases":
			fn, ok := p.funcs[f.Func]
			if !ok {
				die("%s: func %s not found in %s", sp.ID, f.Func, f.Pkg)
			}
			cs := caseList(fn)
			fmt.Fprintf(&sb, "/-- %s: switch cases of %s -/\ndef %s : List String := %s\n\n", f.Pkg, f.Func, f.As, leanList(cs))
			summary[f.As] = cs
		case "lits":
			// composite literal type names in a function body, in source order (e.g. "&fullReader{…}" → "fullReader")
			fn, ok := p.funcs[f.Func]
			if !ok {
				die("%s: func %s not found in %s", sp.ID, f.Func, f.Pkg)
			}
			var ls []string
			ast.Inspect(fn, func(m ast.Node) bool {
				if cl, ok := m.(*ast.CompositeLit); ok && cl.Type != nil {
					ls = append(ls, exprName(cl.Type))
				}
				return true
			})
			fmt.Fprintf(&sb, "/-- %s: composite literals in %s -/\ndef %s : List String := %s\n\n", f.Pkg, f.Func, f.As, leanList(ls))
			summary[f.As] = ls
		case "funcs":
			var names []string
			for n := range p.funcs {
				if strings.HasPrefix(n, f.Prefix) {
					names = append(names, n)
				}
			}
			sort.Strings(names)
			fmt.Fprintf(&sb, "/-- %s: funcs with prefix %s -/\ndef %s : List String := %s\n\n", f.Pkg, f.Prefix, f.As, leanList(names))
			summary[f.As] = names
		case "versions":
			emitVersions(&sb, summary, sp.ID, p, f)
		case "registry":
			emitRegistry(&sb, summary, sp.ID, p, load(*repo, f.Versions), f)
		case "strlits":
			emitStrLits(&sb, summary, sp.ID, p, f)
		default:
			die("unknown fact kind %q", f.Kind)
		}
	}
	fmt.Fprintf(&sb, "end Gate.Gen.%s\n", sp.ID)
	content := sb.String()
	if old, err := os.ReadFile(*out); err != nil || string(old) != content {
		os.MkdirAll(filepath.Dir(*out), 0o755)
		if err := os.WriteFile(*out, []byte(content), 0o644); err != nil {
			die("%v", err)
		}
	}
	js, _ := json.Marshal(summary)
	os.WriteFile(strings.TrimSuffix(*out, ".lean")+".facts.json", js, 0o644)
}
