// Fact kinds "versions" and "registry" (C06): the supported-version table of
// pkg/edition/java/proto/version/version.go and the packet-id mapping table of
// pkg/edition/java/proto/state/register.go as Lean data.  Pure syntax: nothing is executed.
package main

import (
	"fmt"
	"go/ast"
	"go/token"
	"path"
	"strconv"
	"strings"
)

// versionVars returns protocol numbers of all package-level `X = v(<int>, names…)` variables.
func versionVars(p *pkgInfo) map[string]int64 {
	out := map[string]int64{}
	for name, ex := range p.vars {
		call, ok := ex.(*ast.CallExpr)
		if !ok || len(call.Args) < 1 {
			continue
		}
		if id, ok := call.Fun.(*ast.Ident); !ok || id.Name != "v" {
			continue
		}
		if n, ok := evalInt(p, call.Args[0], 0, 0); ok {
			out[name] = n
		}
	}
	return out
}

func emitVersions(sb *strings.Builder, summary map[string]any, id string, p *pkgInfo, f fact) {
	ex, ok := p.vars[f.Name]
	if !ok {
		die("%s: versions slice %s not found in %s", id, f.Name, f.Pkg)
	}
	lit, ok := ex.(*ast.CompositeLit)
	if !ok {
		die("%s: %s.%s is not a slice literal", id, f.Pkg, f.Name)
	}
	vars := versionVars(p)
	var rows, names []string
	seen := map[string]bool{}
	for _, e := range lit.Elts {
		idn, ok := e.(*ast.Ident)
		if !ok {
			die("%s: element %s of %s is not a plain identifier", id, exprName(e), f.Name)
		}
		n, ok := vars[idn.Name]
		if !ok {
			die("%s: %s is not a v(protocol, …) variable", id, idn.Name)
		}
		rows = append(rows, fmt.Sprintf("(%s, %d)", leanStr(idn.Name), n))
		names = append(names, idn.Name)
		seen[idn.Name] = true
	}
	fmt.Fprintf(sb, "/-- %s: %s in slice order (Go variable, protocol number) -/\ndef %s : List (String × Int) := [\n  %s]\n\n",
		f.Pkg, f.Name, f.As, strings.Join(rows, ",\n  "))
	// every v(…) variable, also those not in the slice, by name
	all := make([]string, 0, len(vars))
	for n := range vars {
		all = append(all, n)
	}
	sortStrings(all)
	fmt.Fprintf(sb, "namespace %sV\n", f.As)
	for _, n := range all {
		fmt.Fprintf(sb, "def %s : Int := %d\n", n, vars[n])
	}
	fmt.Fprintf(sb, "end %sV\n\n", f.As)
	summary[f.As] = rows
}

func sortStrings(xs []string) {
	for i := 1; i < len(xs); i++ {
		for j := i; j > 0 && xs[j] < xs[j-1]; j-- {
			xs[j], xs[j-1] = xs[j-1], xs[j]
		}
	}
}

func importAliases(file *ast.File) map[string]string {
	m := map[string]string{}
	for _, im := range file.Imports {
		pth, _ := strconv.Unquote(im.Path.Value)
		name := path.Base(pth)
		if im.Name != nil {
			name = im.Name.Name
		}
		m[name] = pth
	}
	return m
}

func leanIdent(s string) string {
	var sb strings.Builder
	for _, r := range s {
		if r == '_' || r >= '0' && r <= '9' || r >= 'a' && r <= 'z' || r >= 'A' && r <= 'Z' {
			sb.WriteRune(r)
		} else {
			sb.WriteByte('_')
		}
	}
	return sb.String()
}

// emitRegistry summarises the one function that fills the packet registries.  Accepted shape (anything
// else is a loud failure): package-level `X = NewRegistry(…)` variables; exactly one function (`init`)
// whose body is a flat list of `X.ServerBound|ClientBound.Register(&pkg.T{}, m(id, version.V) | ml(id,
// version.V, version.W|nil) …)` expression statements and `X.Dir.Fallback = true|false` assignments; no
// other `.Register(` call on such a variable anywhere else in the package.
func emitRegistry(sb *strings.Builder, summary map[string]any, id string, p, vp *pkgInfo, f fact) {
	if f.Versions == "" {
		die("%s: registry fact needs \"versions\": <dir of the version package>", id)
	}
	vars := versionVars(vp)
	// registry variables in declaration order
	var states []string
	stateIdx := map[string]int{}
	for _, file := range p.files {
		for _, d := range file.Decls {
			gd, ok := d.(*ast.GenDecl)
			if !ok || gd.Tok != token.VAR {
				continue
			}
			for _, s := range gd.Specs {
				vs := s.(*ast.ValueSpec)
				for j, nm := range vs.Names {
					if j < len(vs.Values) {
						if c, ok := vs.Values[j].(*ast.CallExpr); ok && exprName(c.Fun) == "NewRegistry" {
							stateIdx[nm.Name] = len(states)
							states = append(states, nm.Name)
						}
					}
				}
			}
		}
	}
	if len(states) == 0 {
		die("%s: no `X = NewRegistry(…)` variables in %s", id, f.Pkg)
	}
	isRegCall := func(c *ast.CallExpr) (st, dir int, ok bool) {
		sel, ok1 := c.Fun.(*ast.SelectorExpr)
		if !ok1 || sel.Sel.Name != "Register" {
			return 0, 0, false
		}
		return regTarget(sel.X, stateIdx)
	}
	var typeNames []string
	typeIdx := map[string]int{}
	var rows, fb []string
	found := false
	for _, file := range p.files {
		aliases := importAliases(file)
		for _, d := range file.Decls {
			fn, ok := d.(*ast.FuncDecl)
			if !ok || fn.Body == nil {
				continue
			}
			has := false
			ast.Inspect(fn.Body, func(n ast.Node) bool {
				if c, ok := n.(*ast.CallExpr); ok {
					if _, _, ok := isRegCall(c); ok {
						has = true
					}
				}
				return true
			})
			if !has {
				continue
			}
			if found || fn.Name.Name != "init" || fn.Recv != nil {
				die("%s: packet registrations outside a single init() (%s)", id, fn.Name.Name)
			}
			found = true
			for _, stmt := range fn.Body.List {
				switch s := stmt.(type) {
				case *ast.ExprStmt:
					c, ok := s.X.(*ast.CallExpr)
					if !ok {
						die("%s: unsupported statement in init at %s", id, fset.Position(s.Pos()))
					}
					st, dir, ok := isRegCall(c)
					if !ok || len(c.Args) < 1 {
						die("%s: unsupported call in init at %s", id, fset.Position(s.Pos()))
					}
					tn := packetTypeName(c.Args[0], aliases, f.Pkg)
					if tn == "" {
						die("%s: cannot name packet type at %s", id, fset.Position(c.Args[0].Pos()))
					}
					ti, ok := typeIdx[tn]
					if !ok {
						ti = len(typeNames)
						typeIdx[tn] = ti
						typeNames = append(typeNames, tn)
					}
					var ms []string
					for _, a := range c.Args[1:] {
						mid, from, last, ok := mappingCall(p, a, aliases, f.Versions, vars)
						if !ok {
							die("%s: unsupported mapping expression at %s", id, fset.Position(a.Pos()))
						}
						ms = append(ms, fmt.Sprintf("(%d, %d, %d)", mid, from, last))
					}
					rows = append(rows, fmt.Sprintf("(%d, %d, %d, [%s])", st, dir, ti, strings.Join(ms, ", ")))
				case *ast.AssignStmt:
					okShape := len(s.Lhs) == 1 && len(s.Rhs) == 1 && s.Tok == token.ASSIGN
					var st, dir int
					var val string
					if okShape {
						sel, ok := s.Lhs[0].(*ast.SelectorExpr)
						okShape = ok && sel.Sel.Name == "Fallback"
						if okShape {
							st, dir, okShape = regTarget(sel.X, stateIdx)
						}
						val = exprName(s.Rhs[0])
						okShape = okShape && (val == "true" || val == "false")
					}
					if !okShape {
						die("%s: unsupported assignment in init at %s", id, fset.Position(s.Pos()))
					}
					fb = append(fb, fmt.Sprintf("(%d, %d, %s)", st, dir, val))
				default:
					die("%s: unsupported statement in init at %s", id, fset.Position(stmt.Pos()))
				}
			}
		}
	}
	if !found {
		die("%s: no packet registrations found in %s", id, f.Pkg)
	}
	fmt.Fprintf(sb, "/-- %s: `X = NewRegistry(…)` variables in declaration order -/\ndef %sStates : List String := %s\n\n", f.Pkg, f.As, leanList(states))
	fmt.Fprintf(sb, "namespace %sS\n", f.As)
	for i, s := range states {
		fmt.Fprintf(sb, "def %s : Nat := %d\n", leanIdent(s), i)
	}
	fmt.Fprintf(sb, "end %sS\n\n", f.As)
	fmt.Fprintf(sb, "/-- packet types in order of first registration, named like reflect.Type.String() -/\ndef %sTypes : List String := %s\n\n", f.As, leanList(typeNames))
	fmt.Fprintf(sb, "namespace %sT\n", f.As)
	for i, s := range typeNames {
		fmt.Fprintf(sb, "def %s : Nat := %d\n", leanIdent(s), i)
	}
	fmt.Fprintf(sb, "end %sT\n\n", f.As)
	fmt.Fprintf(sb, "/-- %s init(): Register calls in source order: (registry index, direction 0=ServerBound 1=ClientBound,\n    type index, [(packet id, first protocol, LastValidProtocol or 0)]) -/\n", f.Pkg)
	fmt.Fprintf(sb, "def %s : List (Nat × Nat × Nat × List (Nat × Int × Int)) := [\n  %s]\n\n", f.As, strings.Join(rows, ",\n  "))
	fmt.Fprintf(sb, "/-- `X.Dir.Fallback = b` assignments of init() in source order -/\ndef %sFallback : List (Nat × Nat × Bool) := [%s]\n\n", f.As, strings.Join(fb, ", "))
	summary[f.As] = rows
	summary[f.As+"Types"] = typeNames
	summary[f.As+"Fallback"] = fb
}

// regTarget recognises `X.ServerBound` / `X.ClientBound` for a registry variable X.
func regTarget(e ast.Expr, stateIdx map[string]int) (st, dir int, ok bool) {
	sel, ok1 := e.(*ast.SelectorExpr)
	if !ok1 {
		return 0, 0, false
	}
	x, ok1 := sel.X.(*ast.Ident)
	if !ok1 {
		return 0, 0, false
	}
	st, ok1 = stateIdx[x.Name]
	if !ok1 {
		return 0, 0, false
	}
	switch sel.Sel.Name {
	case "ServerBound":
		return st, 0, true
	case "ClientBound":
		return st, 1, true
	}
	return 0, 0, false
}

// packetTypeName names `&alias.T{}` / `&T{}` as "<package>.<T>" (what reflect.Type.String() prints).
func packetTypeName(e ast.Expr, aliases map[string]string, ownDir string) string {
	u, ok := e.(*ast.UnaryExpr)
	if !ok || u.Op != token.AND {
		return ""
	}
	cl, ok := u.X.(*ast.CompositeLit)
	if !ok || len(cl.Elts) != 0 {
		return ""
	}
	switch t := cl.Type.(type) {
	case *ast.SelectorExpr:
		x, ok := t.X.(*ast.Ident)
		if !ok {
			return ""
		}
		pth, ok := aliases[x.Name]
		if !ok {
			return ""
		}
		return path.Base(pth) + "." + t.Sel.Name
	case *ast.Ident:
		return path.Base(ownDir) + "." + t.Name
	}
	return ""
}

// mappingCall evaluates m(id, version.V) / ml(id, version.V, version.W | nil).
func mappingCall(p *pkgInfo, e ast.Expr, aliases map[string]string, versionsDir string, vars map[string]int64) (id, from, last int64, ok bool) {
	c, ok1 := e.(*ast.CallExpr)
	if !ok1 {
		return
	}
	fn, ok1 := c.Fun.(*ast.Ident)
	if !ok1 {
		return
	}
	ver := func(a ast.Expr) (int64, bool) {
		sel, ok := a.(*ast.SelectorExpr)
		if !ok {
			return 0, false
		}
		x, ok := sel.X.(*ast.Ident)
		if !ok || !strings.HasSuffix(aliases[x.Name], "/"+versionsDir) {
			return 0, false
		}
		n, ok := vars[sel.Sel.Name]
		return n, ok
	}
	switch {
	case fn.Name == "m" && len(c.Args) == 2:
	case fn.Name == "ml" && len(c.Args) == 3:
		if idn, isId := c.Args[2].(*ast.Ident); isId && idn.Name == "nil" {
			last = 0
		} else if last, ok1 = ver(c.Args[2]); !ok1 {
			return
		}
	default:
		return
	}
	if id, ok1 = evalInt(p, c.Args[0], 0, 0); !ok1 {
		return
	}
	if from, ok1 = ver(c.Args[1]); !ok1 {
		return
	}
	return id, from, last, true
}
