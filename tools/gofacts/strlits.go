package main

// kind "strlits": the string literals (unquoted) occurring in a function body ("func": F or Recv.Method)
// or in a package-level variable initialiser ("name": V), in source order → List String.
// Used to tie string-building code (regex construction, separators) to the model's constants.

import (
	"fmt"
	"go/ast"
	"go/token"
	"strconv"
	"strings"
)

func emitStrLits(sb *strings.Builder, summary map[string]any, id string, p *pkgInfo, f fact) {
	var root ast.Node
	what := f.Func
	if f.Func != "" {
		fn, ok := p.funcs[f.Func]
		if !ok {
			die("%s: func %s not found in %s", id, f.Func, f.Pkg)
		}
		root = fn
	} else {
		what = f.Name
		ex, ok := p.vars[f.Name]
		if !ok {
			die("%s: var %s not found in %s", id, f.Name, f.Pkg)
		}
		root = ex
	}
	ls := []string{}
	ast.Inspect(root, func(m ast.Node) bool {
		if bl, ok := m.(*ast.BasicLit); ok && bl.Kind == token.STRING {
			if s, err := strconv.Unquote(bl.Value); err == nil {
				ls = append(ls, s)
			}
		}
		return true
	})
	fmt.Fprintf(sb, "/-- %s: string literals in %s -/\ndef %s : List String := %s\n\n", f.Pkg, what, f.As, leanList(ls))
	summary[f.As] = ls
}
