#!/bin/sh
# Commit NEW files (hooks) that exist in /repo's working tree, without touching the rest of it:
#   tools/repo_commit_files.sh "verif-hook: …" path1 path2 …   (paths relative to /repo)
set -e
MSG="$1"; shift; WT=/tmp/gate-commit-wt
rm -rf $WT; git -C /repo worktree prune
git -C /repo worktree add -q --detach $WT HEAD
for f in "$@"; do mkdir -p "$WT/$(dirname "$f")"; cp "/repo/$f" "$WT/$f"; done
git -C $WT add -A
git -C $WT commit -q -m "$MSG"
sha=$(git -C $WT rev-parse HEAD)
git -C /repo worktree remove --force $WT
git -C /repo update-ref refs/heads/main $sha
git -C /repo reset -q
echo "committed $sha $MSG"
