#!/usr/bin/env python3
"""
tools/seed_eval.py <Cxx> [--src /tmp/rt-out/Cxx] [--inplace] [--checks C01,C02] [--tier quick]

Evaluate one seeded change (a red-team sub-agent's patch):
  1. copy it to seeded/<id>/ (patch.diff, demo/, meta.json)
  2. confirm in a scratch worktree of /repo's HEAD: builds, demo fails WITH the patch and passes WITHOUT
  3. run our checks against the patched tree: --inplace → `git -C /repo apply`, run, `git -C /repo apply -R`
     (the brief's procedure; only when nobody else is using /repo); default → a scratch copy via VERIF_REPO
  4. record the outcome in seeded/<id>/meta.json
"""
import argparse, json, os, shutil, subprocess, sys, time
ROOT = os.path.dirname(os.path.dirname(os.path.abspath(__file__)))
ENV = dict(os.environ, GOFLAGS="-mod=mod", GOPROXY="off", GOSUMDB="off", GOTOOLCHAIN="local")

def sh(cmd, cwd=None, env=None, timeout=1800):
    p = subprocess.run(cmd, cwd=cwd, env=env or ENV, shell=isinstance(cmd, str), stdout=subprocess.PIPE,
                       stderr=subprocess.STDOUT, text=True, timeout=timeout)
    return p.returncode, p.stdout

def main():
    ap = argparse.ArgumentParser()
    ap.add_argument("pid"); ap.add_argument("--src"); ap.add_argument("--inplace", action="store_true")
    ap.add_argument("--checks"); ap.add_argument("--tier", default="quick"); ap.add_argument("--name")
    ap.add_argument("--skip-confirm", action="store_true")
    ap.add_argument("--confirm-only", action="store_true")
    a = ap.parse_args()
    name = a.name or a.pid
    dst = os.path.join(ROOT, "seeded", name)
    if a.src:
        if os.path.exists(dst): shutil.rmtree(dst)
        shutil.copytree(a.src, dst)
    meta_p = os.path.join(dst, "meta.json")
    meta = json.load(open(meta_p)) if os.path.exists(meta_p) else {"property": a.pid}
    patch = os.path.join(dst, "patch.diff")
    res = {"evaluated_at": time.strftime("%Y-%m-%d %H:%M:%S"), "repo_head": sh("git -C /repo rev-parse --short HEAD")[1].strip()}
    # ---- 2. confirm
    if not a.skip_confirm:
        wt = f"/tmp/seed-confirm-{name}"
        sh(f"rm -rf {wt}; git -C /repo worktree prune; git -C /repo worktree add -q --detach {wt} HEAD")
        try:
            demo = os.path.join(dst, "demo")
            if os.path.isdir(demo):
                sh(f"cp -r {demo}/. {wt}/")
            demo_cmd = meta.get("demo_cmd", "")
            # sanitise: drop trailing parenthetical remarks and a leading `cp demo/… &&` (the demo files are
            # already copied to their place in the worktree)
            import re
            demo_cmd = re.sub(r"\s+\((?:after|add|run|from|copy|with|the|needs|note)[^)]*\)\s*$", "", demo_cmd)
            demo_cmd = re.sub(r"^\s*cp\s+demo/\S+\s+\S+\s*&&\s*", "", demo_cmd)
            rc0, out0 = sh(demo_cmd, cwd=wt, timeout=900) if demo_cmd else (None, "")
            rca, outa = sh(f"git apply {patch}", cwd=wt)
            rcb, outb = sh("go1.26.8 build ./... && go1.26.8 vet -tags verif ./pkg/edition/java/proxy/ >/dev/null 2>&1; go1.26.8 build -tags verif ./...", cwd=wt, timeout=900)
            rc1, out1 = sh(demo_cmd, cwd=wt, timeout=900) if demo_cmd else (None, "")
            res["confirm"] = {"patch_applies": rca == 0, "builds_with_and_without_verif_tag": rcb == 0,
                              "demo_passes_without_patch": rc0 == 0, "demo_fails_with_patch": (rc1 not in (0, None)),
                              "demo_tail_with_patch": out1[-600:] if out1 else "", "build_tail": outb[-300:] if rcb else ""}
        finally:
            sh(f"git -C /repo worktree remove --force {wt}")
    if a.confirm_only:
        # merge the confirmation into the latest evaluation record
        if meta.get("evaluations"):
            meta["evaluations"][-1]["confirm"] = res["confirm"]
        else:
            meta.setdefault("evaluations", []).append(res)
        json.dump(meta, open(meta_p, "w"), indent=1)
        print(json.dumps(res["confirm"], indent=1)[:1500]); return
    # ---- 3. our checks
    checks = a.checks.split(",") if a.checks else [a.pid]
    outcomes = {}
    if a.inplace:
        rc, out = sh(f"git -C /repo apply {patch}")
        if rc != 0:
            print("patch does not apply in place:", out); sys.exit(2)
        try:
            for c in checks:
                rc, out = sh([os.path.join(ROOT, "check"), c, "--tier", a.tier], cwd=ROOT, env=dict(os.environ), timeout=3600)
                outcomes[c] = {"exit": rc, "tail": out.strip().splitlines()[-6:]}
        finally:
            sh(f"git -C /repo apply -R {patch}")
    else:
        cp = f"/tmp/seed-repo-{name}"
        sh(f"rm -rf {cp}; rsync -a --exclude .git /repo/ {cp}/")
        rc, out = sh(f"cd {cp} && git apply {patch}", timeout=120)
        if rc != 0:
            print("patch does not apply to the scratch copy:", out); sys.exit(2)
        for c in checks:
            rc, out = sh([os.path.join(ROOT, "check"), c, "--tier", a.tier], cwd=ROOT, env=dict(os.environ, VERIF_REPO=cp), timeout=3600)
            outcomes[c] = {"exit": rc, "tail": out.strip().splitlines()[-6:]}
        sh(f"rm -rf {cp}")
        # restore Gen/ and evidence for the real tree
        for c in checks:
            sh([os.path.join(ROOT, "check"), c, "--tier", "quick"], cwd=ROOT, env=dict(os.environ), timeout=3600)
    res["checks"] = outcomes
    res["mode"] = "inplace (/repo apply + apply -R)" if a.inplace else "scratch copy (VERIF_REPO)"
    res["detected_by"] = [c for c, o in outcomes.items() if o["exit"] == 1 and any("VIOLATION" in l for l in o["tail"])]
    meta.setdefault("evaluations", []).append(res)
    json.dump(meta, open(meta_p, "w"), indent=1)
    print(json.dumps(res, indent=1)[:3000])

if __name__ == "__main__":
    main()
