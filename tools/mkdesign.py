#!/usr/bin/env python3
"""Rewrite the generated tables of DESIGN.md (between the BEGIN/END GENERATED markers) from
checks/*.json, evidence/*.json, findings/*.json and seeded/*/meta.json."""
import json, glob, os, re
ROOT = os.path.dirname(os.path.dirname(os.path.abspath(__file__)))
props = [json.loads(l) for l in open(os.path.join(ROOT, "properties.jsonl"))]
out = []
out.append("### 14.1 Status per property (generated)\n")
out.append("| id | title | claimed | theorems | axioms | quick cases (spec-evaluated) | hooks |")
out.append("|---|---|---|---|---|---|---|")
for p in props:
    pid = p["id"]
    cp = os.path.join(ROOT, "checks", pid + ".json")
    ep = os.path.join(ROOT, "evidence", pid + ".json")
    if not os.path.exists(cp):
        out.append(f"| {pid} | {p['title']} | no (see MANIFEST not_applicable) | | | | |"); continue
    c = json.load(open(cp))
    th = ax = cases = ""
    if os.path.exists(ep):
        e = json.load(open(ep))["coverage"]
        th = f"{e.get('discharged')}/{e.get('obligations')}"
        ax = next((t.replace("axioms used: ", "") for t in e.get("trusted_base", []) if t.startswith("axioms used")), "")
        cases = f"{e.get('evaluations')} ({e.get('spec_evaluated_cases')})"
    hooks = ", ".join(os.path.basename(h) for h in c.get("hooks", [])) or "–"
    out.append(f"| {pid} | {p['title']} | yes | {th} | {ax} | {cases} | {hooks} |")
out.append("\n### 14.2 Genuine defects found (generated from findings/*.json)\n")
out.append("| property | status | commit | signature | what |")
out.append("|---|---|---|---|---|")
for fp in sorted(glob.glob(os.path.join(ROOT, "findings", "C*.json"))):
    for f in json.load(open(fp)).get("findings", []):
        what = f["what"].replace("|", "\\|").replace("\n", " ")
        out.append(f"| {f['property']} | {f['status']} | {f.get('commit','')} | `{f['signature']}` | {what} |")
out.append("\n### 14.3 Seeded changes and which checks catch them (generated from seeded/*/meta.json)\n")
out.append("| seeded change | breaks | what it needs to manifest | confirmed (demo fails with / passes without) | detected by | how reported |")
out.append("|---|---|---|---|---|---|")
for mp in sorted(glob.glob(os.path.join(ROOT, "seeded", "*", "meta.json"))):
    m = json.load(open(mp)); name = os.path.basename(os.path.dirname(mp))
    evs = m.get("evaluations") or [{}]
    ev = evs[-1]
    conf = next((e["confirm"] for e in reversed(evs) if e.get("confirm")), {})
    first_miss = any(not e.get("detected_by") for e in evs[:-1] if e.get("checks"))
    cf = "yes" if conf.get("demo_fails_with_patch") and conf.get("demo_passes_without_patch") else ("n/a" if not conf else "NO")
    det = ", ".join(ev.get("detected_by", [])) or "**missed**"
    if first_miss and ev.get("detected_by"):
        det += " (missed at first; check strengthened)"
    how = ""
    for c, o in (ev.get("checks") or {}).items():
        for l in o.get("tail", []):
            if "VIOLATION" in l:
                how = "no-failing-input-found" if "no-failing-input-found" in l else "concrete failing input"
    summ = (m.get("summary", "") or "").replace("|", "\\|")
    needs = (m.get("needs", "") or "").replace("|", "\\|")
    out.append(f"| {name}: {summ} | {m.get('property')} | {needs} | {cf} | {det} | {how} |")
text = "\n".join(out) + "\n"
dp = os.path.join(ROOT, "DESIGN.md")
s = open(dp).read()
b, e = "<!-- BEGIN GENERATED -->", "<!-- END GENERATED -->"
if b in s:
    s = s[:s.index(b) + len(b)] + "\n" + text + s[s.index(e):]
else:
    s += f"\n{b}\n{text}{e}\n"
open(dp, "w").write(s)
print("DESIGN.md tables regenerated")
