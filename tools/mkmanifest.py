#!/usr/bin/env python3
"""Assemble MANIFEST.json from checks/*.json (one file per claimed property) and
not_applicable.json (reasons for every property not claimed)."""
import json, os, glob, subprocess
ROOT = os.path.dirname(os.path.dirname(os.path.abspath(__file__)))
props = [json.loads(l)["id"] for l in open(os.path.join(ROOT, "properties.jsonl"))]
checks, claimed = [], set()
for p in sorted(glob.glob(os.path.join(ROOT, "checks", "C*.json"))):
    s = json.load(open(p))
    if s.get("disabled"):
        continue
    pid = s["id"]; claimed.add(pid)
    checks.append({
        "property_id": pid,
        "quick_cmd": f"./check {pid} --tier quick",
        "thorough_cmd": f"./check {pid} --tier thorough",
        "evidence_file": f"/verif/evidence/{pid}.json",
        "replay_cmd_template": f"./check {pid} --replay {{path}}",
        "engine": "lean4-proof+correspondence",
        "level_claimed": {"category": "proof", "text": s["level_text"], "design_ref": s.get("design_ref", "DESIGN.md §9")},
        "level_note": s["level_note"],
        "technique": s["technique"],
    })
na_file = os.path.join(ROOT, "not_applicable.json")
na = json.load(open(na_file)) if os.path.exists(na_file) else {}
not_app = []
for pid in props:
    if pid not in claimed:
        not_app.append({"property_id": pid, "reason": na.get(pid, "not yet decided by the Lean machinery in this revision: model/theorems/correspondence for this property are not built; no other technique is substituted (see DESIGN.md §9 for the planned design)")})
try:
    hooks = subprocess.run(["git", "-C", "/repo", "log", "--format=%H %s"], capture_output=True, text=True).stdout.splitlines()
    hook_commits = [l.split()[0] for l in hooks if " verif-hook:" in l or l.split(" ", 1)[1].startswith("verif:")]
except Exception:
    hook_commits = []
man = {
    "version": 1,
    "setup_cmd": "./setup.sh",
    "hooks": {
        "guard": "verif",
        "enable": "go build -tags verif (files named *_verif.go / export_verif_*.go with //go:build verif, add-only)",
        "baseline_off_cmd": "cd /repo && GOFLAGS=-mod=mod GOPROXY=off GOTOOLCHAIN=local go1.26.8 test -vet=off -count=1 ./...",
        "source_commits": hook_commits,
        "add_only": True,
    },
    "engines": [{"name": "lean4-proof+correspondence", "path": "/verif/check",
                 "serves_properties": sorted(claimed),
                 "kind_free_text": "Lean 4 theorems over a model of the code; model tied to /repo by facts regenerated from source (tools/gofacts) and a Go differential harness driving the real code against the Lean model's executable definitions"}],
    "checks": checks,
    "not_applicable": not_app,
    "notes": "Every claimed check is decided by Lean 4 theorems (lean/GateModel/<id>/Props.lean) plus a checked tie to /repo; see DESIGN.md. known_findings.json lists genuine defects (fixed or recorded).",
}
json.dump(man, open(os.path.join(ROOT, "MANIFEST.json"), "w"), indent=1)
print("claimed", len(claimed), "not_applicable", len(not_app))
