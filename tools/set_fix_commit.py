#!/usr/bin/env python3
"""tools/set_fix_commit.py Cxx <sha> [signature…]  — replace PENDING by the commit id in findings/Cxx.json
(all fixed entries, or only those with the given signatures)."""
import json, sys
pid, sha, sigs = sys.argv[1], sys.argv[2][:7], sys.argv[3:]
p = f"/verif/findings/{pid}.json"
d = json.load(open(p))
for f in d["findings"]:
    if f.get("status") == "fixed" and f.get("commit") == "PENDING" and (not sigs or f["signature"] in sigs):
        f["commit"] = sha
        f["what"] = f["what"].replace("PENDING", sha)
json.dump(d, open(p, "w"), indent=1)
