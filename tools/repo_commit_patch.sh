#!/bin/sh
# Commit a patch to /repo WITHOUT touching /repo's working tree (other builders have uncommitted files there):
#   tools/repo_commit_patch.sh fixes/X.diff fixes/X.msg
set -e
P=$(realpath "$1"); M=$(realpath "$2"); WT=/tmp/gate-commit-wt
rm -rf $WT; git -C /repo worktree prune
git -C /repo worktree add -q --detach $WT HEAD
git -C $WT apply "$P"
git -C $WT add -A
git -C $WT commit -q -F "$M"
sha=$(git -C $WT rev-parse HEAD)
git -C /repo worktree remove --force $WT
git -C /repo update-ref refs/heads/main $sha
git -C /repo reset -q
echo "committed $sha $(head -1 "$M")"
