#!/usr/bin/env python3
"""print the last evaluation of every seeded change (or those given)"""
import json, os, sys
root = os.path.join(os.path.dirname(os.path.abspath(__file__)), "..", "seeded")
names = sys.argv[1:] or sorted(os.listdir(root))
for n in names:
    try:
        d = json.load(open(os.path.join(root, n, "meta.json")))
    except Exception as e:
        print(n, "no meta", e); continue
    ev = d.get("evaluations") or []
    if not ev:
        print(n, "not evaluated"); continue
    e = ev[-1]
    c = e.get("confirm", {})
    kinds = []
    for k, v in e.get("checks", {}).items():
        last = v["tail"][-1] if v["tail"] else ""
        kinds.append(f"{k}:exit{v['exit']}" + (":nofail" if "no-failing-input-found" in last else (":concrete" if "VIOLATION" in last else "")))
    print(n, "detected_by=", e.get("detected_by"), "demo(with/without)=", c.get("demo_fails_with_patch"), c.get("demo_passes_without_patch"), " ".join(kinds), e.get("mode", "")[:8], "obsolete" if d.get("obsolete") else "")
