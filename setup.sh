#!/bin/sh
# Build the framework from files on disk only (offline).  Idempotent.
set -e
cd "$(dirname "$0")"
export GOFLAGS=-mod=mod GOPROXY=off GOSUMDB=off GOTOOLCHAIN=local
mkdir -p .work/bin evidence replays
(cd tools/gofacts && go1.26.8 build -o ../../.work/bin/gofacts .)
# regenerate every Gen/ file before the first lake build
for s in checks/C*.json; do
  id=$(basename "$s" .json)
  if grep -q '"facts"' "$s"; then
    .work/bin/gofacts -repo "${VERIF_REPO:-/repo}" -spec "$s" -out "lean/GateModel/Gen/$id.lean" || echo "WARNING: gofacts failed for $id"
  fi
done
# Lean: all property modules and drivers
mods=$(python3 - <<'PY'
import json,glob
t=[]
for p in sorted(glob.glob('checks/C*.json')):
    s=json.load(open(p))
    if s.get('disabled'): continue
    t.append(s['props_module'])
    if s.get('driver'): t.append(s['driver'])
print(' '.join(t))
PY
)
(cd lean && lake build $mods) || echo "WARNING: some Lean targets failed to build (the affected checks will report it)"
# Go harnesses (warm the build cache)
cp /repo/go.sum harness/go.sum 2>/dev/null || true
for s in checks/C*.json; do
  h=$(python3 -c "import json,sys; print(json.load(open('$s')).get('harness',''))")
  if [ -n "$h" ]; then (cd harness && go1.26.8 build -tags verif -o ../.work/bin/$h ./$h) || echo "WARNING: harness $h failed to build"; fi
done
echo setup done
