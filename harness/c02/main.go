// C02 correspondence harness: hostile byte streams into the real codec.Decoder frame reader
// (readPayload via the verif hook), both directions, many thresholds; Go's zlib is the oracle the
// Lean model is given for every compressed body a stream contains.
package main

import (
	"bytes"
	"fmt"
	"io"
	"strings"
	"time"

	"github.com/go-logr/logr"
	"go.minekube.com/gate/pkg/edition/java/proto/codec"
	"go.minekube.com/gate/pkg/edition/java/proto/util"
	"go.minekube.com/gate/pkg/gate/proto"

	"verifharness/codecx"
	"verifharness/hx"
)

func varint(v int) []byte {
	var b bytes.Buffer
	util.WriteVarInt(&b, v)
	return b.Bytes()
}

// nonMinimal pads a VarInt with continuation bytes (same value, longer encoding).
func nonMinimal(v int, extra int) []byte {
	b := varint(v)
	if len(b)+extra > 5 {
		return b
	}
	b[len(b)-1] |= 0x80
	for i := 0; i < extra-1; i++ {
		b = append(b, 0x80)
	}
	return append(b, 0x00)
}

// walk enumerates the bodies a decoder following gate's framing would hand to zlib (an independent,
// deliberately simple re-implementation used ONLY to decide which oracle entries to put on the op line).
func walk(stream []byte, thr int) [][]byte {
	var bodies [][]byte
	rd := func(b []byte) (int, []byte, bool) { // 5-byte varint
		var val uint32
		for i := 0; i < len(b); i++ {
			if i >= 5 {
				return 0, nil, false
			}
			val |= uint32(b[i]&0x7f) << (7 * uint(i))
			if b[i]&0x80 == 0 {
				return int(int32(val)), b[i+1:], true
			}
		}
		return 0, nil, false
	}
	s := stream
	for len(s) > 0 && len(bodies) < 64 {
		l, r, ok := rd(s)
		if !ok || l < 0 || l > codec.MaximumFrameLength || l > len(r) {
			break
		}
		frame := r[:l]
		s = r[l:]
		if l == 0 || thr < 0 {
			continue
		}
		c, body, ok := rd(frame)
		if !ok {
			break
		}
		if c != 0 {
			bodies = append(bodies, body)
		}
	}
	return bodies
}

// chunkReader hands out the stream in pieces whose sizes cycle through sizes (like a socket would).
type chunkReader struct {
	data  []byte
	sizes []int
	i     int
}

func (c *chunkReader) Read(b []byte) (int, error) {
	if len(c.data) == 0 {
		return 0, io.EOF
	}
	n := max(1, c.sizes[c.i%len(c.sizes)])
	c.i++
	n = min(n, len(b), len(c.data))
	copy(b, c.data[:n])
	c.data = c.data[n:]
	return n, nil
}

// decodeStream: chunks == nil → the decoder reads a bytes.Reader given to NewDecoder; otherwise the reader is
// installed with SetReader (what EnableEncryption does) and delivers the stream in chunks. The frame decoder's
// answer must not depend on either (every read of the decoder is a full read).
func decodeStream(dir proto.Direction, thr int, stream []byte, chunks []int) string {
	return hx.Guard(20*time.Second, func() string {
		var d *codec.Decoder
		if chunks == nil {
			d = codec.NewDecoder(bytes.NewReader(stream), dir, logr.Discard())
		} else {
			d = codec.NewDecoder(bytes.NewReader(nil), dir, logr.Discard())
			d.SetReader(&chunkReader{data: append([]byte(nil), stream...), sizes: chunks})
		}
		if thr >= 0 {
			d.SetCompressionThreshold(thr)
		}
		var got [][]byte
		retries := 0
		for i := 0; i < len(stream)+2; i++ {
			p, _, err := d.C02ReadPayload()
			if err != nil {
				return fmt.Sprintf("read=%s end=%s", codecx.ShowList(got), codecx.ErrClass(err))
			}
			// mirror readPacket's skip-empty rule so that the output is what Decode would deliver
			if len(p) == 0 {
				if retries > 10 {
					return fmt.Sprintf("read=%s end=too-many-empty", codecx.ShowList(got))
				}
				retries++
				continue
			}
			retries = 0
			got = append(got, append([]byte(nil), p...))
		}
		return fmt.Sprintf("read=%s end=no-end", codecx.ShowList(got))
	})
}

func emit(run *hx.Run, class string, dirS string, thr int, stream []byte) {
	dir := proto.ServerBound
	capSz := codec.ServerboundUncompressedCap
	if dirS == "c" {
		dir = proto.ClientBound
		capSz = codec.UncompressedCap
	}
	var chunks []int
	if len(stream) > 0 && (len(stream)*7+thr)%3 != 0 { // two thirds of the cases: chunked delivery through SetReader
		chunks = [][]int{{1}, {2, 1}, {3}, {7, 1, 100}, {5}, {1460}, {4096}, {1, 4096}}[(len(stream)+thr+8)%8]
	}
	impl := decodeStream(dir, thr, stream, chunks)
	var or []string
	seen := map[string]bool{}
	for _, b := range walk(stream, thr) {
		k := hx.Hex(b)
		if seen[k] {
			continue
		}
		seen[k] = true
		if out, ok := codecx.Inflate(b, capSz); ok {
			or = append(or, k+"=ok:"+hx.Hex(out))
		} else {
			or = append(or, k+"=err")
		}
	}
	o := "_"
	if len(or) > 0 {
		o = strings.Join(or, ";")
	}
	run.Case(class, fmt.Sprintf("dec %s %d %s %s", dirS, thr, hx.Hex(stream), o), impl)
}

// frame builds one frame: kind selects how valid it is.
func frame(r *hx.Rng, thr int, level int) ([]byte, string) {
	payload := r.Bytes(1 + r.Intn(40))
	if r.Chance(1, 5) {
		payload = bytes.Repeat([]byte{byte(r.Intn(256))}, 1+r.Intn(400))
	}
	if thr < 0 {
		switch r.Intn(8) {
		case 0:
			return []byte{0}, "empty"
		case 1:
			return append(nonMinimal(len(payload), 1+r.Intn(3)), payload...), "nonminimal-prefix"
		default:
			return append(varint(len(payload)), payload...), "plain"
		}
	}
	k := r.Intn(14)
	var body []byte
	kind := ""
	switch k {
	case 0:
		return []byte{0}, "empty"
	case 1: // uncompressed, any size relative to the threshold (incl. exactly the threshold)
		n := thr + r.Intn(5) - 2
		if n < 0 {
			n = 0
		}
		body = append([]byte{0}, r.Bytes(min(n, 4000))...)
		kind = "uncompressed-near-threshold"
	case 2:
		body = append([]byte{0}, payload...)
		kind = "uncompressed"
	case 3: // negative claimed sizes
		body = append(varint(-1-r.Intn(100000)), codecx.Deflate(level, payload)...)
		kind = "claimed-negative"
	case 4: // claimed below threshold
		body = append(varint(max(1, thr-1-r.Intn(3))), codecx.Deflate(level, payload)...)
		kind = "claimed-below-threshold"
	case 5: // claimed above caps
		body = append(varint(hx.Pick(r, []int{2*1024*1024 + 1, 2 * 1024 * 1024, 8*1024*1024 + 1, 8 * 1024 * 1024, 1<<31 - 1})), codecx.Deflate(level, payload)...)
		kind = "claimed-vs-cap"
	case 6: // claimed ≠ actual by a little (surplus / shortfall)
		big := bytes.Repeat([]byte{7}, max(thr, 1)+r.Intn(50))
		body = append(varint(len(big)+r.Intn(5)-2), codecx.Deflate(level, big)...)
		kind = "claimed-off-by-few"
	case 7: // truncated zlib body
		big := bytes.Repeat([]byte{9}, max(thr, 1)+r.Intn(50))
		z := codecx.Deflate(level, big)
		body = append(varint(len(big)), z[:r.Intn(len(z))]...)
		kind = "zlib-truncated"
	case 8: // corrupted zlib body
		big := append(bytes.Repeat([]byte{3}, max(thr, 1)), r.Bytes(10)...)
		z := codecx.Deflate(level, big)
		z[r.Intn(len(z))] ^= byte(1 << uint(r.Intn(8)))
		body = append(varint(len(big)), z...)
		kind = "zlib-corrupt"
	case 9: // zlib body followed by garbage
		big := append(bytes.Repeat([]byte{5}, max(thr, 1)), r.Bytes(5)...)
		body = append(append(varint(len(big)), codecx.Deflate(level, big)...), r.Bytes(1+r.Intn(4))...)
		kind = "zlib-trailing-garbage"
	case 10: // bad claimed varint
		body = []byte{0x80, 0x80, 0x80, 0x80, 0x80, 0x01, 1, 2}
		kind = "claimed-varint-too-long"
	default: // valid compressed
		big := append(bytes.Repeat([]byte{byte(r.Intn(256))}, max(thr, 1)+r.Intn(300)), r.Bytes(r.Intn(20))...)
		body = append(varint(len(big)), codecx.Deflate(level, big)...)
		kind = "valid-compressed"
	}
	if r.Chance(1, 25) {
		return append(nonMinimal(len(body), 1+r.Intn(3)), body...), kind + "+nonminimal-prefix"
	}
	return append(varint(len(body)), body...), kind
}

func main() {
	run := hx.Start()
	r := run.Rng
	thresholds := []int{-1, 0, 1, 64, 256, 1 << 20}

	// fixed regression cases first: the repaired defects and the recorded finding
	emit(run, "fixed/negative-claimed", "s", 0, []byte{6, 0xfb, 0xff, 0xff, 0xff, 0x0f, 0x41})
	{
		big := bytes.Repeat([]byte{1}, 401)
		body := append(varint(300), codecx.Deflate(6, big)...)
		emit(run, "fixed/surplus-inflate", "s", 256, append(varint(len(body)), body...))
	}
	emit(run, "fixed/12-empty", "s", -1, append(bytes.Repeat([]byte{0}, 12), 1, 7))
	emit(run, "fixed/11-empty", "c", -1, append(bytes.Repeat([]byte{0}, 11), 1, 7))
	emit(run, "fixed/len-2^21", "c", -1, append(varint(1<<21), 1, 2, 3))
	emit(run, "fixed/len-negative", "c", -1, append(varint(-1), 1, 2, 3))
	emit(run, "fixed/len-max", "c", -1, append(varint(1<<21-1), bytes.Repeat([]byte{0x7f}, 1<<21-1)...))
	emit(run, "fixed/prefix-6-bytes", "s", -1, []byte{0x80, 0x80, 0x80, 0x80, 0x80, 0x01, 0x01})

	n := run.Scale(2500, 12000)
	for i := 0; i < n; i++ {
		thr := hx.Pick(r, thresholds)
		if thr == 1<<20 && !r.Chance(1, 12) {
			thr = 4096 // megabyte bodies are expensive for the Lean side: keep a few
		}
		if r.Chance(1, 8) {
			thr = r.Intn(2000)
		}
		dir := hx.Pick(r, []string{"s", "c"})
		var stream []byte
		class := ""
		switch r.Intn(10) {
		case 0: // random bytes
			stream = r.Bytes(r.Intn(40))
			class = "random"
		case 1: // adversarial length prefixes
			stream = append(hx.Pick(r, [][]byte{varint(-1), varint(1 << 21), varint(1<<21 - 1), varint(1 << 30), {0xff, 0xff, 0xff, 0xff, 0xff, 0x01},
				{0x80, 0x80, 0x80}, {0xff, 0xff, 0x7f}, {0xff, 0xff, 0xff, 0x00}, varint(5)}), r.Bytes(r.Intn(12))...)
			class = "adversarial-prefix"
		default:
			cnt := 1 + r.Intn(4)
			kinds := []string{}
			for j := 0; j < cnt; j++ {
				f, k := frame(r, thr, r.Intn(10))
				stream = append(stream, f...)
				kinds = append(kinds, k)
			}
			class = kinds[len(kinds)-1]
			if r.Chance(1, 6) && len(stream) > 0 { // truncate anywhere
				stream = stream[:r.Intn(len(stream))]
				class = "truncated"
			} else if r.Chance(1, 10) && len(stream) > 0 { // flip a byte
				stream[r.Intn(len(stream))] ^= byte(1 << uint(r.Intn(8)))
				class = "bitflip"
			}
		}
		emit(run, class, dir, thr, stream)
	}
	run.Finish()
}
