// C32 correspondence harness.
//
// Part A replays generated schedules step by step on a REAL lite.pingStatusCache built (through the verif hook)
// with a fake clock and a deterministic flight group: every DoChan call, flight function and status loader is
// parked until the schedule releases it, so each trace line is exactly one critical section of the code
// (one Label of lean/GateModel/C32/Model.lean).  Which steps are possible next is derived from what the real
// code did (returned / reached DoChan / called the loader), never from a model.
//
// Part B drives the public path (lite.ResolveStatusResponseWithGeneration, lite.ResetPingCache: real
// singleflight, real clock) sequentially against loopback TCP status backends that can be switched up/down.
package main

import (
	"context"
	"encoding/json"
	"errors"
	"fmt"
	"net"
	"runtime"
	"sort"
	"strconv"
	"strings"
	"sync"
	"sync/atomic"
	"syscall"
	"time"

	"github.com/go-logr/logr"
	"go.minekube.com/common/minecraft/component"
	"go.minekube.com/gate/pkg/edition/java/lite"
	"go.minekube.com/gate/pkg/edition/java/lite/config"
	"go.minekube.com/gate/pkg/edition/java/netmc"
	"go.minekube.com/gate/pkg/edition/java/proto/packet"
	"go.minekube.com/gate/pkg/edition/java/proto/util"
	"go.minekube.com/gate/pkg/gate/proto"
	"go.minekube.com/gate/pkg/util/configutil"
	"golang.org/x/sync/singleflight"

	"verifharness/hx"
)

const stepTimeout = 10 * time.Second

// ---------------------------------------------------------------------------------------------
// Part A
// ---------------------------------------------------------------------------------------------

type keySpec struct {
	backend string
	proto   int
	rg      uint64
}
type reqSpec struct {
	key  int
	ttl  int // ticks (hours) when > 0; passed as raw nanoseconds when <= 0
	fast bool
}

type event struct {
	kind    string // arrive, joined, loader, fndone, returned
	req     int
	key     string
	proceed chan struct{}
	created bool
	lc      *loaderCall
	val     any
	res     *packet.StatusResponse
	err     error
}

type loaderResult struct {
	res *packet.StatusResponse
	err error
}
type loaderCall struct {
	req     int
	release chan loaderResult
}

type flight struct {
	key    string
	fn     func() (any, error)
	chans  []chan singleflight.Result
	leader int
	state  string // created, loading, done
	val    any
	lid    int
}

// group is a deterministic stand-in for singleflight.Group with DoChan's semantics: one call per key; later
// callers join; everybody gets the function's result when the call is removed.  Every transition is triggered
// by the schedule.
type group struct {
	mu      sync.Mutex
	m       map[string]*flight
	events  chan event
	lastNew *flight
}

func (g *group) DoChan(key string, fn func() (any, error)) <-chan singleflight.Result {
	proceed := make(chan struct{})
	g.events <- event{kind: "arrive", key: key, proceed: proceed}
	<-proceed
	ch := make(chan singleflight.Result, 1)
	g.mu.Lock()
	created := false
	if f, ok := g.m[key]; ok {
		f.chans = append(f.chans, ch)
	} else {
		f := &flight{key: key, fn: fn, chans: []chan singleflight.Result{ch}, state: "created"}
		g.m[key] = f
		g.lastNew = f
		created = true
	}
	g.mu.Unlock()
	g.events <- event{kind: "joined", key: key, created: created}
	return ch
}

type scen struct {
	run    *hx.Run
	cache  *lite.C32Cache
	mu     sync.Mutex
	now    time.Time
	grp    *group
	events chan event
	keys   []keySpec
	reqs   []reqSpec

	rstate  []string // idle, missed, parked, waiting, done
	parked  map[int]event
	leaders map[int]*flight // leader request -> flight
	loaders map[int]*loaderCall
	nextLid int
	broken  bool
}

func (s *scen) clock() time.Time { s.mu.Lock(); defer s.mu.Unlock(); return s.now }

func ttlDur(t int) time.Duration {
	if t > 0 {
		return time.Duration(t) * time.Hour
	}
	return time.Duration(t)
}
func ttlShow(d time.Duration) string {
	if d > 0 {
		return strconv.Itoa(int(d / time.Hour))
	}
	return strconv.Itoa(int(d))
}

func newScen(run *hx.Run, keys []keySpec, reqs []reqSpec) *scen {
	s := &scen{run: run, keys: keys, reqs: reqs, events: make(chan event, 64),
		parked: map[int]event{}, leaders: map[int]*flight{}, loaders: map[int]*loaderCall{}}
	// the injected clock runs half a tick ahead of ttlcache's (real) clock: stamps are base+ε, reads base+n·tick+tick/2,
	// so comparisons at whole ticks are decided like in the model (stamp 0, clock n)
	s.now = time.Now().Add(30 * time.Minute)
	s.grp = &group{m: map[string]*flight{}, events: s.events}
	s.cache = lite.C32NewCache(s.clock, s.grp)
	s.rstate = make([]string, len(reqs))
	for i := range s.rstate {
		s.rstate[i] = "idle"
	}
	var ks, rs []string
	for _, k := range keys {
		ks = append(ks, fmt.Sprintf("%s,%d,%d", hx.HexS(k.backend), k.proto, k.rg))
	}
	for _, r := range reqs {
		f := 0
		if r.fast {
			f = 1
		}
		rs = append(rs, fmt.Sprintf("%d,%d,%d", r.key, r.ttl, f))
	}
	run.Case("A:new", "new "+strings.Join(ks, ";")+" "+strings.Join(rs, ";"), "ok")
	return s
}

func showRes(res *packet.StatusResponse, err error) string {
	if err != nil {
		return err.Error() + ":0"
	}
	if res == nil {
		return "nil"
	}
	return res.Status + ":1"
}

func (s *scen) keyIndex(b string, p int, rg uint64) int {
	for i, k := range s.keys {
		if k.backend == b && k.proto == p && k.rg == rg {
			return i
		}
	}
	return -1
}

func (s *scen) digest() string {
	type ent struct {
		k int
		s string
	}
	var es []ent
	for _, e := range s.cache.Dump() {
		h := 0
		if e.HasExpiry {
			h = 1
		}
		ki := s.keyIndex(e.Backend, e.Protocol, e.RouteGeneration)
		es = append(es, ent{ki, fmt.Sprintf("%d=%s:%s:%d", ki, showRes(e.Res, e.Err), ttlShow(e.TTL), h)})
	}
	sort.Slice(es, func(i, j int) bool { return es[i].k < es[j].k })
	c := "-"
	if len(es) > 0 {
		q := make([]string, len(es))
		for i, e := range es {
			q[i] = e.s
		}
		c = strings.Join(q, ",")
	}
	return fmt.Sprintf("g=%d c=%s", s.cache.Generation(), c)
}

func (s *scen) wait() (event, bool) {
	select {
	case e := <-s.events:
		return e, true
	case <-time.After(stepTimeout):
		s.broken = true
		return event{}, false
	}
}

func (s *scen) emit(class, op, what string) {
	s.run.Case(class, op, what+" | "+s.digest())
}

func (s *scen) opGet(r int) {
	q := s.reqs[r]
	k := s.keys[q.key]
	res, err, found := s.cache.Get(k.backend, k.proto, k.rg)
	if found {
		s.rstate[r] = "done"
		s.emit("A:get-hit", fmt.Sprintf("get %d", r), "hit "+showRes(res, err))
	} else {
		s.rstate[r] = "missed"
		s.emit("A:get-miss", fmt.Sprintf("get %d", r), "miss")
	}
}

func (s *scen) opCheck(r int) {
	q := s.reqs[r]
	k := s.keys[q.key]
	go func() {
		res, err := s.cache.Load(k.backend, k.proto, k.rg, ttlDur(q.ttl), func() (*packet.StatusResponse, error) {
			lc := &loaderCall{req: r, release: make(chan loaderResult)}
			s.events <- event{kind: "loader", req: r, lc: lc}
			lr := <-lc.release
			return lr.res, lr.err
		})
		s.events <- event{kind: "returned", req: r, res: res, err: err}
	}()
	e, ok := s.wait()
	op := fmt.Sprintf("check %d", r)
	switch {
	case !ok:
		s.emit("A:hang", op, "hang")
	case e.kind == "returned":
		s.rstate[r] = "done"
		s.emit("A:check-hit", op, "hit "+showRes(e.res, e.err))
	case e.kind == "arrive":
		s.rstate[r] = "parked"
		s.parked[r] = e
		s.emit("A:check-miss", op, "park "+hx.HexS(e.key))
	default:
		s.broken = true
		s.emit("A:odd", op, "unexpected-"+e.kind)
	}
}

func (s *scen) opJoin(r int) {
	a := s.parked[r]
	delete(s.parked, r)
	close(a.proceed)
	e, ok := s.wait()
	op := fmt.Sprintf("join %d", r)
	if !ok || e.kind != "joined" {
		s.broken = true
		s.emit("A:hang", op, "hang")
		return
	}
	s.rstate[r] = "waiting"
	if e.created {
		f := s.grp.lastNew
		f.leader = r
		s.leaders[r] = f
		s.emit("A:join-created", op, "created")
	} else {
		s.emit("A:join-joined", op, "joined")
	}
}

func (s *scen) opRecheck(l int) {
	f := s.leaders[l]
	go func() {
		v, _ := f.fn()
		s.events <- event{kind: "fndone", req: l, val: v}
	}()
	e, ok := s.wait()
	op := fmt.Sprintf("recheck %d", l)
	switch {
	case !ok:
		s.emit("A:hang", op, "hang")
	case e.kind == "loader":
		f.state = "loading"
		f.lid = s.nextLid
		s.nextLid++
		s.loaders[l] = e.lc
		s.emit("A:recheck-load", op, fmt.Sprintf("load L%d", f.lid))
	case e.kind == "fndone":
		f.state = "done"
		f.val = e.val
		res, err, _ := lite.C32ResultOf(e.val)
		s.emit("A:recheck-hit", op, "hit "+showRes(res, err))
	default:
		s.broken = true
		s.emit("A:odd", op, "unexpected-"+e.kind)
	}
}

func (s *scen) opStore(l int, okRes bool) {
	f := s.leaders[l]
	lc := s.loaders[l]
	delete(s.loaders, l)
	name := fmt.Sprintf("L%d", f.lid)
	if okRes {
		lc.release <- loaderResult{res: &packet.StatusResponse{Status: name}}
	} else {
		lc.release <- loaderResult{err: errors.New(name)}
	}
	e, ok := s.wait()
	b := 0
	if okRes {
		b = 1
	}
	op := fmt.Sprintf("store %d %d", l, b)
	if !ok || e.kind != "fndone" {
		s.broken = true
		s.emit("A:hang", op, "hang")
		return
	}
	f.state = "done"
	f.val = e.val
	res, err, _ := lite.C32ResultOf(e.val)
	s.emit("A:store", op, "ret "+showRes(res, err))
}

func (s *scen) opFinish(l int) {
	f := s.leaders[l]
	delete(s.leaders, l)
	s.grp.mu.Lock()
	delete(s.grp.m, f.key)
	chans := f.chans
	s.grp.mu.Unlock()
	for _, ch := range chans {
		ch <- singleflight.Result{Val: f.val, Shared: len(chans) > 1}
	}
	type ans struct {
		r int
		s string
	}
	var as []ans
	op := fmt.Sprintf("finish %d", l)
	for range chans {
		e, ok := s.wait()
		if !ok || e.kind != "returned" {
			s.broken = true
			s.emit("A:hang", op, "hang")
			return
		}
		s.rstate[e.req] = "done"
		as = append(as, ans{e.req, fmt.Sprintf("%d=%s", e.req, showRes(e.res, e.err))})
	}
	sort.Slice(as, func(i, j int) bool { return as[i].r < as[j].r })
	q := make([]string, len(as))
	for i, a := range as {
		q[i] = a.s
	}
	out := "-"
	if len(q) > 0 {
		out = strings.Join(q, ",")
	}
	s.emit("A:finish", op, "ans "+out)
}

func (s *scen) opReset() {
	s.cache.Reset()
	s.emit("A:reset", "reset", "ok")
}

func (s *scen) opTick(d int) {
	s.mu.Lock()
	s.now = s.now.Add(time.Duration(d) * time.Hour)
	s.mu.Unlock()
	s.emit("A:tick", fmt.Sprintf("tick %d", d), "ok")
}

// opTexp puts the injected clock at (expiry of key k's entry) + d nanoseconds.
func (s *scen) opTexp(k int, d int) {
	op := fmt.Sprintf("texp %d %d", k, d)
	for _, e := range s.cache.Dump() {
		if s.keyIndex(e.Backend, e.Protocol, e.RouteGeneration) == k && e.HasExpiry {
			s.mu.Lock()
			s.now = e.ExpiresAt.Add(time.Duration(d))
			s.mu.Unlock()
			s.emit("A:texp", op, "ok")
			return
		}
	}
	s.run.Case("A:texp", op, "disabled")
}

type action struct {
	kind string
	a, b int
}

func (s *scen) enabled(withEnv bool) []action {
	var as []action
	for r, st := range s.rstate {
		switch st {
		case "idle":
			if s.reqs[r].fast {
				as = append(as, action{"get", r, 0})
			} else {
				as = append(as, action{"check", r, 0})
			}
		case "missed":
			as = append(as, action{"check", r, 0})
		case "parked":
			as = append(as, action{"join", r, 0})
		}
	}
	var ls []int
	for l := range s.leaders {
		ls = append(ls, l)
	}
	sort.Ints(ls)
	for _, l := range ls {
		switch s.leaders[l].state {
		case "created":
			as = append(as, action{"recheck", l, 0})
		case "loading":
			as = append(as, action{"store", l, 1}, action{"store", l, 0})
		case "done":
			as = append(as, action{"finish", l, 0})
		}
	}
	if withEnv {
		as = append(as, action{"reset", 0, 0}, action{"tick", 1, 0})
	}
	return as
}

// possible reports whether the real code's observed state allows the action (scripted scenarios assume a
// behaviour; a changed implementation may not get there: that is an output, not a crash).
func (s *scen) possible(a action) bool {
	switch a.kind {
	case "get":
		return s.rstate[a.a] == "idle"
	case "check":
		return s.rstate[a.a] == "idle" || s.rstate[a.a] == "missed"
	case "join":
		_, ok := s.parked[a.a]
		return ok
	case "recheck":
		f := s.leaders[a.a]
		return f != nil && f.state == "created"
	case "store":
		f := s.leaders[a.a]
		return f != nil && f.state == "loading" && s.loaders[a.a] != nil
	case "finish":
		f := s.leaders[a.a]
		return f != nil && f.state == "done"
	}
	return true
}

func (s *scen) do(a action) {
	if !s.possible(a) {
		op := fmt.Sprintf("%s %d", a.kind, a.a)
		if a.kind == "store" {
			op = fmt.Sprintf("store %d %d", a.a, a.b)
		}
		s.emit("A:not-enabled", op, "not-enabled")
		return
	}
	switch a.kind {
	case "get":
		s.opGet(a.a)
	case "check":
		s.opCheck(a.a)
	case "join":
		s.opJoin(a.a)
	case "recheck":
		s.opRecheck(a.a)
	case "store":
		s.opStore(a.a, a.b == 1)
	case "finish":
		s.opFinish(a.a)
	case "reset":
		s.opReset()
	case "tick":
		s.opTick(a.a)
	case "texp":
		s.opTexp(a.a, a.b)
	}
}

// drain completes every started request so that no goroutine stays parked.
func (s *scen) drain() {
	for !s.broken {
		as := s.enabled(false)
		// also start nothing new: only finish what is in progress
		var prog []action
		for _, a := range as {
			if (a.kind == "get" || a.kind == "check") && s.rstate[a.a] == "idle" {
				continue
			}
			if a.kind == "store" && a.b == 0 {
				continue
			}
			prog = append(prog, a)
		}
		if len(prog) == 0 {
			return
		}
		s.do(prog[0])
	}
}

// scripted scenario: actions given explicitly
func scripted(run *hx.Run, keys []keySpec, reqs []reqSpec, acts []action) {
	s := newScen(run, keys, reqs)
	for _, a := range acts {
		if s.broken {
			break
		}
		s.do(a)
	}
	s.drain()
}

func randomScenario(run *hx.Run) {
	r := run.Rng
	backends := []string{"10.0.0.1:25565", "b:1", "srv.example.test:25566", "1:2:3", "[::1]:25565", "x"}
	nk := 1 + r.Intn(3)
	var keys []keySpec
	for len(keys) < nk {
		k := keySpec{hx.Pick(r, backends), hx.Pick(r, []int{765, 47, 0, -1}), uint64(r.Intn(3))}
		dup := false
		for _, o := range keys {
			if o == k {
				dup = true
			}
		}
		if !dup {
			keys = append(keys, k)
		}
	}
	nr := 2 + r.Intn(7)
	ttls := []int{1, 2, 3, 5, 0, -1}
	var reqs []reqSpec
	baseTTL := hx.Pick(r, ttls)
	for i := 0; i < nr; i++ {
		t := baseTTL
		if r.Chance(1, 4) {
			t = hx.Pick(r, ttls)
		}
		reqs = append(reqs, reqSpec{r.Intn(nk), t, r.Chance(2, 3)})
	}
	s := newScen(run, keys, reqs)
	resetW := hx.Pick(r, []int{0, 1, 3})
	tickW := hx.Pick(r, []int{0, 1, 2})
	steps := run.Scale(40, 90)
	for i := 0; i < steps && !s.broken; i++ {
		as := s.enabled(false)
		// weights: progress actions 4 each, reset/tick as drawn
		total := 4*len(as) + resetW + tickW
		if total == 0 {
			break
		}
		x := r.Intn(total)
		switch {
		case x < 4*len(as):
			s.do(as[x/4])
		case x < 4*len(as)+resetW:
			s.do(action{"reset", 0, 0})
		default:
			s.do(action{"tick", 1 + r.Intn(3), 0})
		}
	}
	s.drain()
}

func partA(run *hx.Run) {
	k0 := keySpec{"10.0.0.1:25565", 765, 0}
	k1 := keySpec{"10.0.0.1:25565", 765, 1}
	k2 := keySpec{"1:2", 47, 0}
	A := func(kind string, a ...int) action {
		x := action{kind: kind}
		if len(a) > 0 {
			x.a = a[0]
		}
		if len(a) > 1 {
			x.b = a[1]
		}
		return x
	}
	// fixed regression scenarios (always run first)
	// 1. fetch in flight across a reset: the late request must fetch again, the old result is not stored
	scripted(run, []keySpec{k0}, []reqSpec{{0, 2, true}, {0, 2, true}, {0, 2, true}, {0, 2, true}}, []action{
		A("get", 0), A("check", 0), A("join", 0), A("recheck", 0), A("reset"), A("get", 1), A("check", 1), A("join", 1),
		A("recheck", 1), A("store", 0, 1), A("finish", 0), A("get", 2), A("store", 1, 1), A("finish", 1), A("get", 3), A("check", 2)})
	// 2. a request that checked before the reset joins after it: its flight is of the old generation
	scripted(run, []keySpec{k0}, []reqSpec{{0, 2, false}, {0, 2, false}, {0, 2, true}}, []action{
		A("check", 0), A("reset"), A("check", 1), A("join", 1), A("join", 0), A("recheck", 0), A("recheck", 1),
		A("store", 0, 1), A("store", 1, 0), A("finish", 0), A("finish", 1), A("get", 2)})
	// 3. coalescing: three requests, one fetch; a fourth after the fetch hits the cache; expiry on the injected clock
	scripted(run, []keySpec{k0, k1}, []reqSpec{{0, 2, true}, {0, 2, true}, {0, 2, false}, {0, 2, true}, {0, 2, true}, {1, 2, true}}, []action{
		A("get", 0), A("get", 1), A("check", 0), A("check", 1), A("check", 2), A("join", 1), A("join", 0), A("join", 2),
		A("recheck", 1), A("store", 1, 1), A("finish", 1), A("get", 3), A("tick", 1), A("get", 5), A("tick", 1), A("get", 4), A("check", 4)})
	// 4. a flight created after the entry was stored re-checks the cache and does not fetch
	scripted(run, []keySpec{k2}, []reqSpec{{0, 3, false}, {0, 3, false}}, []action{
		A("check", 0), A("check", 1), A("join", 0), A("recheck", 0), A("store", 0, 1), A("finish", 0), A("join", 1), A("recheck", 1), A("finish", 1)})
	// 5. failures are cached too; ttl 0 and -1 never expire
	scripted(run, []keySpec{k0, k2}, []reqSpec{{0, 0, true}, {1, -1, true}, {0, 0, true}, {1, -1, true}}, []action{
		A("get", 0), A("check", 0), A("join", 0), A("recheck", 0), A("store", 0, 0), A("finish", 0),
		A("get", 1), A("check", 1), A("join", 1), A("recheck", 1), A("store", 1, 1), A("finish", 1),
		A("tick", 50), A("get", 2), A("get", 3)})
	// 6. exact expiry boundary on the injected clock
	for _, d := range []int{-1, 0, 1} {
		scripted(run, []keySpec{k0}, []reqSpec{{0, 1, false}, {0, 1, true}, {0, 1, false}}, []action{
			A("check", 0), A("join", 0), A("recheck", 0), A("store", 0, 1), A("finish", 0), A("texp", 0, d), A("get", 1), A("check", 2)})
	}
	n := run.Scale(120, 900)
	for i := 0; i < n; i++ {
		randomScenario(run)
	}
}

// ---------------------------------------------------------------------------------------------
// Part B
// ---------------------------------------------------------------------------------------------

type backend struct {
	idx  int
	ln   net.Listener
	addr string
}

type farm struct {
	mu          sync.Mutex
	modes       []bool
	fetches     int
	base        int // fetches at the start of the current scenario
	bs          []*backend
	dialTimeout time.Duration
}

func readFrame(c net.Conn) ([]byte, error) {
	n, err := util.ReadVarInt(c)
	if err != nil {
		return nil, err
	}
	if n < 0 || n > 1<<20 {
		return nil, errors.New("bad frame")
	}
	b := make([]byte, n)
	_, err = readFull(c, b)
	return b, err
}

func readFull(c net.Conn, b []byte) (int, error) {
	got := 0
	for got < len(b) {
		n, err := c.Read(b[got:])
		got += n
		if err != nil {
			return got, err
		}
	}
	return got, nil
}

func (f *farm) serve(b *backend) {
	for {
		c, err := b.ln.Accept()
		if err != nil {
			return
		}
		f.mu.Lock()
		f.fetches++
		n := f.fetches - f.base
		up := f.modes[b.idx]
		f.mu.Unlock()
		go func() {
			defer c.Close()
			_ = c.SetDeadline(time.Now().Add(5 * time.Second))
			if !up {
				return
			}
			hsFrame, err := readFrame(c) // handshake
			if err != nil {
				return
			}
			// the answer depends on the protocol number the backend is pinged with: echo it
			hr := strings.NewReader(string(hsFrame))
			_, _ = util.ReadVarInt(hr) // packet id
			pinged, _ := util.ReadVarInt(hr)
			if _, err := readFrame(c); err != nil { // status request
				return
			}
			js := fmt.Sprintf(`{"version":{"name":"x","protocol":765},"players":{"max":1,"online":0},"description":{"text":"B%d#%d@%d"}}`, b.idx, n, pinged)
			var body strings.Builder
			_ = util.WriteVarInt(&body, 0)
			_ = util.WriteString(&body, js)
			var frame strings.Builder
			_ = util.WriteVarInt(&frame, body.Len())
			frame.WriteString(body.String())
			_, _ = c.Write([]byte(frame.String()))
			// wait for the peer to close
			buf := make([]byte, 16)
			_, _ = c.Read(buf)
		}()
	}
}

func newFarm(n int) *farm {
	f := &farm{modes: make([]bool, n)}
	for i := 0; i < n; i++ {
		ln, err := net.Listen("tcp", "127.0.0.1:0")
		if err != nil {
			panic(err)
		}
		b := &backend{idx: i, ln: ln, addr: ln.Addr().String()}
		f.bs = append(f.bs, b)
		f.modes[i] = true
		go f.serve(b)
	}
	return f
}

func tcpPair() (a, b net.Conn) {
	ln, err := net.Listen("tcp", "127.0.0.1:0")
	if err != nil {
		panic(err)
	}
	defer ln.Close()
	ch := make(chan net.Conn, 1)
	go func() {
		c, _ := ln.Accept()
		ch <- c
	}()
	a, err = net.DialTimeout("tcp", ln.Addr().String(), 5*time.Second)
	if err != nil {
		panic(err)
	}
	b = <-ch
	return a, b
}

func (f *farm) ping(sm *lite.StrategyManager, rg uint64, protocol int, ttl time.Duration, fallback bool, cands []int) string {
	var addrs []string
	for _, i := range cands {
		addrs = append(addrs, f.bs[i].addr)
	}
	route := config.Route{
		Host:         configutil.SingleOrMulti[string]{"h.example.test"},
		Backend:      configutil.SingleOrMulti[string](addrs),
		CachePingTTL: configutil.Duration(ttl),
		Strategy:     config.StrategySequential,
	}
	if fallback {
		route.Fallback = &config.Status{MOTD: &configutil.Component{Value: &component.Text{Content: "FALLBACK"}}}
	}
	peer, base := tcpPair()
	defer peer.Close()
	defer base.Close()
	client, _ := netmc.NewMinecraftConn(context.Background(), base, proto.ServerBound, 5*time.Second, 5*time.Second, 1, nil)
	hs := &packet.Handshake{ProtocolVersion: protocol, ServerAddress: "h.example.test", Port: 25565, NextStatus: 1}
	hctx := &proto.PacketContext{Direction: proto.ServerBound, Protocol: proto.Protocol(protocol), PacketID: 0, Packet: hs}
	var pl strings.Builder
	_ = util.WriteVarInt(&pl, 0)
	_ = hs.Encode(hctx, &pl)
	hctx.Payload = []byte(pl.String())
	sctx := &proto.PacketContext{Direction: proto.ServerBound, Protocol: proto.Protocol(protocol), PacketID: 0,
		Packet: &packet.StatusRequest{}, Payload: []byte{0}}
	_, res, err := lite.ResolveStatusResponseWithGeneration(f.dialTimeout, rg, []config.Route{route}, logr.Discard(), client, hs, hctx, sctx, sm)
	if err != nil {
		return "error"
	}
	if res == nil {
		return "nil-response"
	}
	var doc struct {
		Description json.RawMessage `json:"description"`
	}
	if e := json.Unmarshal([]byte(res.Status), &doc); e != nil {
		return "unparsable-status"
	}
	d := string(doc.Description)
	if strings.Contains(d, "FALLBACK") {
		return "fallback"
	}
	if i := strings.Index(d, "B"); i >= 0 {
		rest := d[i+1:]
		var bi, n, pp int
		if _, e := fmt.Sscanf(strings.NewReplacer("#", " ", "@", " ", "\"", " ", "}", " ").Replace(rest), "%d %d %d", &bi, &n, &pp); e == nil {
			return fmt.Sprintf("backend %d %d @%d", bi, n, pp)
		}
	}
	return "unknown-status"
}

// protocol numbers in pairs that a lookup in Gate's version table would not tell apart
var unlistedPairs = [][2]int{{777, 778}, {0x40000100, 0x40000101}, {48, 49}, {-5, -6}, {2147483647, 100}, {0, 1}, {765, 9999}}

func pickProto(r *hx.Rng) int {
	if r.Chance(2, 5) {
		return hx.Pick(r, unlistedPairs)[r.Intn(2)]
	}
	return hx.Pick(r, []int{765, 47})
}

type pingSpec struct {
	rg    uint64
	proto int
	cands []int
}

func partB(run *hx.Run) {
	const nb = 4
	f := newFarm(nb)
	f.dialTimeout = 2 * time.Second
	sm := lite.NewStrategyManager()
	r := run.Rng
	total := func() int { f.mu.Lock(); defer f.mu.Unlock(); return f.fetches }
	base := 0
	emitPing := func(class string, p pingSpec, ttlms int, fb bool) {
		cs := make([]string, len(p.cands))
		for i, c := range p.cands {
			cs[i] = strconv.Itoa(c)
		}
		fbi := 0
		if fb {
			fbi = 1
		}
		op := fmt.Sprintf("ping %d %d %d %d %s", p.rg, p.proto, ttlms, fbi, strings.Join(cs, ","))
		out := hx.Guard(30*time.Second, func() string {
			return f.ping(sm, p.rg, p.proto, time.Duration(ttlms)*time.Millisecond, fb, p.cands)
		})
		// let accept loops of refused/closed connections settle: the counter is read after the call returned, and every
		// connection the call made was accepted before its dial returned
		run.Case(class, op, fmt.Sprintf("%s | f=%d", out, total()-base))
	}
	setMode := func(i int, up bool) {
		f.mu.Lock()
		f.modes[i] = up
		f.mu.Unlock()
		u := 0
		if up {
			u = 1
		}
		run.Case("B:mode", fmt.Sprintf("mode %d %d", i, u), "ok")
	}
	start := func() {
		lite.ResetPingCache()
		f.mu.Lock()
		for i := range f.modes {
			f.modes[i] = true
		}
		f.mu.Unlock()
		base = total()
		f.mu.Lock()
		f.base = base
		f.mu.Unlock()
		run.Case("B:new", fmt.Sprintf("pnew %d", nb), "ok")
	}
	reset := func() {
		lite.ResetPingCache()
		run.Case("B:reset", "preset", "ok")
	}
	sleep := func(ms int) {
		time.Sleep(time.Duration(ms) * time.Millisecond)
		run.Case("B:sleep", fmt.Sprintf("sleep %d", ms), "ok")
	}
	const long = 3600000
	// fixed: cache hit, reset forces a refetch, fallback only when all down, failures cached until reset
	start()
	p := pingSpec{0, 765, []int{0, 1, 2}}
	emitPing("B:ping", p, long, true)
	emitPing("B:ping", p, long, true)
	reset()
	emitPing("B:ping", p, long, true)
	setMode(0, false)
	emitPing("B:ping", p, long, true) // still cached success of backend 0
	reset()
	emitPing("B:ping", p, long, true) // backend 0 down -> backend 1
	setMode(1, false)
	setMode(2, false)
	reset()
	emitPing("B:ping-fallback", p, long, true)
	emitPing("B:ping-error", p, long, false)
	setMode(2, true)
	emitPing("B:ping", p, long, true) // failure of backend 2 is cached: still fallback
	reset()
	emitPing("B:ping", p, long, true)
	emitPing("B:ping", pingSpec{1, 765, []int{0, 1, 2}}, long, true) // other route generation: own entries
	emitPing("B:ping", pingSpec{0, 47, []int{0, 1, 2}}, long, true)  // other protocol: own entries
	// fixed: the client protocol is part of the cache key, also for protocol numbers Gate's version table does not
	// list (newer releases, snapshots 0x4000xxxx, gaps, 0, negative): within the TTL each number gets its own fetch
	start()
	for _, pair := range unlistedPairs {
		emitPing("B:ping-proto", pingSpec{0, pair[0], []int{0, 1}}, long, true)
		emitPing("B:ping-proto", pingSpec{0, pair[1], []int{0, 1}}, long, true)
		emitPing("B:ping-proto", pingSpec{0, pair[0], []int{0, 1}}, long, true) // cached, for its own number
	}
	// fixed: cache disabled
	start()
	emitPing("B:ping-nocache", p, -1, true)
	emitPing("B:ping-nocache", p, -1, true)
	// fixed: real-time expiry (30 ms TTL, 150 ms sleep after every ping)
	start()
	for i := 0; i < 3; i++ {
		emitPing("B:ping-short", p, 30, true)
		sleep(150)
	}
	// generated
	n := run.Scale(12, 60)
	for s := 0; s < n; s++ {
		start()
		short := r.Chance(1, 8)
		nocache := !short && r.Chance(1, 6)
		ops := 6 + r.Intn(10)
		for i := 0; i < ops; i++ {
			switch x := r.Intn(10); {
			case x < 6:
				k := 1 + r.Intn(3)
				perm := []int{0, 1, 2, 3}
				for j := 3; j > 0; j-- {
					t := r.Intn(j + 1)
					perm[j], perm[t] = perm[t], perm[j]
				}
				ps := pingSpec{uint64(r.Intn(2)), pickProto(r), perm[:k]}
				switch {
				case short:
					emitPing("B:ping-short", ps, 30, r.Bool())
					sleep(150)
				case nocache:
					emitPing("B:ping-nocache", ps, -1, r.Bool())
				default:
					emitPing("B:ping", ps, long, r.Bool())
				}
			case x < 8:
				setMode(r.Intn(nb), r.Chance(1, 3))
			default:
				reset()
			}
		}
	}
	partBTimeouts(run, f, sm, nb)
	for _, b := range f.bs {
		if b.ln != nil {
			b.ln.Close()
		}
	}
}

// ---------------------------------------------------------------------------------------------
// Part R: reset vs. in-flight load, really concurrent (search for a failing history)
// ---------------------------------------------------------------------------------------------
//
// `held`: a load of key A is in flight (its loader is parked by the harness).  A reader of another, cached key B is
// parked INSIDE the cache's critical section (the injected clock blocks: getLocked calls it with c.mu held).  The loader
// is released with the OLD value (its flight function queues on c.mu), then reset() is called from another goroutine
// (it queues on c.mu too - or, if reset clears the map outside its critical section, it has cleared already), then the
// reader is released.  After reset() has returned: get(A) must miss and a fresh load must fetch again.  On correct code
// both linearisations (store before / after reset's critical section) give `miss new`; nothing else can be observed.
//
// `stress`: many loads of distinct keys race with one reset; afterwards no key may hold a value whose loader started
// before reset() was even called.

type raceClock struct {
	armed   atomic.Bool
	entered chan struct{}
	release chan struct{}
}

func (c *raceClock) now() time.Time {
	if c.armed.CompareAndSwap(true, false) {
		c.entered <- struct{}{}
		<-c.release
	}
	return time.Now()
}

func raceHeld(round, variant int) string {
	clk := &raceClock{entered: make(chan struct{}, 1), release: make(chan struct{})}
	cache := lite.C32NewCache(clk.now, new(singleflight.Group))
	const a, b = "10.9.9.9:25565", "10.9.9.8:25565"
	protoA := 765 + variant
	ttl := time.Hour
	// a cached entry for B (its expiry makes getLocked read the clock)
	cache.Load(b, 47, 0, ttl, func() (*packet.StatusResponse, error) { return &packet.StatusResponse{Status: "b"}, nil })
	started := make(chan struct{})
	releaseL := make(chan struct{})
	loadDone := make(chan string, 1)
	go func() {
		res, err := cache.Load(a, protoA, uint64(variant), ttl, func() (*packet.StatusResponse, error) {
			close(started)
			<-releaseL
			if variant%2 == 1 {
				return nil, errors.New("old")
			}
			return &packet.StatusResponse{Status: "old"}, nil
		})
		loadDone <- showRes(res, err)
	}()
	select {
	case <-started:
	case <-time.After(stepTimeout):
		return "hang"
	}
	// park a reader inside the critical section
	clk.armed.Store(true)
	holdDone := make(chan struct{})
	go func() { cache.Get(b, 47, 0); close(holdDone) }()
	select {
	case <-clk.entered:
	case <-time.After(stepTimeout):
		return "hang"
	}
	close(releaseL) // the flight function now queues on c.mu with the old value
	time.Sleep(8 * time.Millisecond)
	resetDone := make(chan struct{})
	go func() { cache.Reset(); close(resetDone) }()
	time.Sleep(8 * time.Millisecond)
	close(clk.release)
	for _, ch := range []chan struct{}{holdDone, resetDone} {
		select {
		case <-ch:
		case <-time.After(stepTimeout):
			return "hang"
		}
	}
	select {
	case <-loadDone:
	case <-time.After(stepTimeout):
		return "hang"
	}
	// reset() has returned: nothing obtained before it may be served
	out := "miss"
	if res, err, found := cache.Get(a, protoA, uint64(variant)); found {
		out = "hit:" + strings.TrimSuffix(strings.TrimSuffix(showRes(res, err), ":1"), ":0")
	}
	res, err := cache.Load(a, protoA, uint64(variant), ttl, func() (*packet.StatusResponse, error) {
		return &packet.StatusResponse{Status: "new"}, nil
	})
	return out + " " + strings.TrimSuffix(strings.TrimSuffix(showRes(res, err), ":1"), ":0")
}

func raceStress(round, n int) string {
	cache := lite.C32NewCache(time.Now, new(singleflight.Group))
	var resetCalled atomic.Bool
	var wg sync.WaitGroup
	gate := make(chan struct{})
	for i := 0; i < n; i++ {
		wg.Add(1)
		go func(i int) {
			defer wg.Done()
			<-gate
			cache.Load(fmt.Sprintf("s%d", i), 765, 0, time.Hour, func() (*packet.StatusResponse, error) {
				before := !resetCalled.Load()
				for k := 0; k < (i*7+round)%5; k++ {
					runtime.Gosched()
				}
				if before {
					return &packet.StatusResponse{Status: "before"}, nil
				}
				return &packet.StatusResponse{Status: "after"}, nil
			})
		}(i)
	}
	close(gate)
	for k := 0; k < round%4; k++ {
		runtime.Gosched()
	}
	resetCalled.Store(true)
	cache.Reset()
	done := make(chan struct{})
	go func() { wg.Wait(); close(done) }()
	select {
	case <-done:
	case <-time.After(stepTimeout):
		return "hang"
	}
	stale := 0
	for i := 0; i < n; i++ {
		if res, _, found := cache.Get(fmt.Sprintf("s%d", i), 765, 0); found && res != nil && res.Status == "before" {
			stale++
		}
	}
	return fmt.Sprintf("stale=%d", stale)
}

func partRace(run *hx.Run) {
	for r := 0; r < run.Scale(6, 24); r++ {
		v := r % 4
		out := hx.Guard(60*time.Second, func() string { return raceHeld(r, v) })
		run.Case("R:held", fmt.Sprintf("race held %d %d", r, v), out)
	}
	for r := 0; r < run.Scale(30, 300); r++ {
		n := 16 + 16*(r%4)
		out := hx.Guard(60*time.Second, func() string { return raceStress(r, n) })
		run.Case("R:stress", fmt.Sprintf("race stress %d %d", r, n), out)
	}
}

// ---------- failure classes: a backend whose dial TIMES OUT, a backend that REFUSES ----------

// blackhole returns a loopback address whose accept queue is full and never drained: a connect is neither accepted nor
// refused, the dial runs into its timeout (an error of the context.DeadlineExceeded class).  ok=false if this kernel
// does not let us build one.
func blackhole() (addr string, release func(), ok bool) {
	fd, err := syscall.Socket(syscall.AF_INET, syscall.SOCK_STREAM, 0)
	if err != nil {
		return "", func() {}, false
	}
	var held []net.Conn
	release = func() {
		for _, c := range held {
			c.Close()
		}
		syscall.Close(fd)
	}
	if err = syscall.Bind(fd, &syscall.SockaddrInet4{Addr: [4]byte{127, 0, 0, 1}}); err != nil {
		release()
		return "", func() {}, false
	}
	if err = syscall.Listen(fd, 0); err != nil {
		release()
		return "", func() {}, false
	}
	sa, err := syscall.Getsockname(fd)
	if err != nil {
		release()
		return "", func() {}, false
	}
	addr = fmt.Sprintf("127.0.0.1:%d", sa.(*syscall.SockaddrInet4).Port)
	for i := 0; i < 64; i++ {
		c, err := net.DialTimeout("tcp", addr, 400*time.Millisecond)
		if err != nil {
			var ne net.Error
			if errors.As(err, &ne) && ne.Timeout() {
				// confirm: a second connect hangs as well
				if c2, err2 := net.DialTimeout("tcp", addr, 400*time.Millisecond); err2 != nil {
					return addr, release, true
				} else {
					held = append(held, c2)
					continue
				}
			}
			release()
			return "", func() {}, false
		}
		held = append(held, c)
	}
	release()
	return "", func() {}, false
}

type bop struct {
	kind string // ping, mode, preset
	p    pingSpec
	ttl  int
	fb   bool
	i    int
	up   bool
}

type bline struct{ class, op, out string }

// runTimeoutScenario executes one scenario with the given dial budget.  suspicious: a ping ended without any backend's
// status although a listed listener is up - on correct code that can only be a dial that was too slow for the budget
// (machine load) or a failure cached earlier in the scenario; the caller then repeats the scenario alone with a much
// larger budget and only that run counts.
func runTimeoutScenario(f *farm, sm *lite.StrategyManager, nb int, ops []bop, budget time.Duration) (lines []bline, suspicious bool) {
	f.dialTimeout = budget
	lite.ResetPingCache()
	f.mu.Lock()
	for i := range f.modes {
		f.modes[i] = true
	}
	f.base = f.fetches
	base := f.fetches
	f.mu.Unlock()
	lines = append(lines, bline{"T:new", fmt.Sprintf("pnew %d", nb), "ok"})
	for _, o := range ops {
		switch o.kind {
		case "mode":
			f.mu.Lock()
			f.modes[o.i] = o.up
			f.mu.Unlock()
			u := 0
			if o.up {
				u = 1
			}
			lines = append(lines, bline{"T:mode", fmt.Sprintf("mode %d %d", o.i, u), "ok"})
		case "preset":
			lite.ResetPingCache()
			lines = append(lines, bline{"T:reset", "preset", "ok"})
		case "ping":
			cs := make([]string, len(o.p.cands))
			for i, c := range o.p.cands {
				cs[i] = strconv.Itoa(c)
			}
			fbi := 0
			if o.fb {
				fbi = 1
			}
			op := fmt.Sprintf("ping %d %d %d %d %s", o.p.rg, o.p.proto, o.ttl, fbi, strings.Join(cs, ","))
			out := hx.Guard(120*time.Second, func() string {
				return f.ping(sm, o.p.rg, o.p.proto, time.Duration(o.ttl)*time.Millisecond, o.fb, o.p.cands)
			})
			if !strings.HasPrefix(out, "backend") {
				f.mu.Lock()
				for _, c := range o.p.cands {
					if c < nb && f.modes[c] {
						suspicious = true
					}
				}
				f.mu.Unlock()
			}
			f.mu.Lock()
			tot := f.fetches - base
			f.mu.Unlock()
			lines = append(lines, bline{"T:ping", op, fmt.Sprintf("%s | f=%d", out, tot)})
		}
	}
	return lines, suspicious
}

func partBTimeouts(run *hx.Run, f *farm, sm *lite.StrategyManager, nb int) {
	bh, release, ok := blackhole()
	defer release()
	if !ok {
		run.Extra["blackhole"] = "unavailable"
		return
	}
	run.Extra["blackhole"] = "ok"
	// candidate nb: black hole (dial times out); candidate nb+1: closed privileged port (dial refused)
	f.bs = append(f.bs, &backend{idx: nb, addr: bh}, &backend{idx: nb + 1, addr: "127.0.0.1:1"})
	defer func() { f.bs = f.bs[:nb] }()
	const long = 3600000
	T, R := nb, nb+1
	ping := func(rg uint64, proto, ttl int, fb bool, cands ...int) bop {
		return bop{kind: "ping", p: pingSpec{rg, proto, cands}, ttl: ttl, fb: fb}
	}
	mode := func(i int, up bool) bop { return bop{kind: "mode", i: i, up: up} }
	scenarios := [][]bop{
		// a healthy backend behind one whose dial timed out must be asked (cached route; the timeout is then cached)
		{ping(0, 765, long, true, T, 0), ping(0, 765, long, true, T, 0), ping(0, 765, long, false, T, 1)},
		// the same without a ping cache
		{ping(0, 765, -1, true, T, 1), ping(0, 765, -1, false, R, T, 2)},
		// refused, timed out, then healthy; then the healthy one goes down: only now the fallback
		{ping(1, 47, long, true, R, T, 2), mode(2, false), {kind: "preset"}, ping(1, 47, long, true, T, 2), ping(1, 47, long, false, T, 2)},
		// nothing but failures: fallback / error
		{ping(0, 765, long, true, T), ping(0, 765, long, false, T, R), ping(0, 765, -1, true, R)},
	}
	r := run.Rng
	for s := 0; s < run.Scale(4, 12); s++ {
		var ops []bop
		for i, n := 0, 3+r.Intn(4); i < n; i++ {
			switch x := r.Intn(8); {
			case x < 6:
				pool := []int{0, 1, 2, 3, T, R, T}
				for j := len(pool) - 1; j > 0; j-- {
					t := r.Intn(j + 1)
					pool[j], pool[t] = pool[t], pool[j]
				}
				var cands []int
				seen := map[int]bool{}
				for _, c := range pool {
					if !seen[c] && len(cands) < 1+r.Intn(3)+1 {
						seen[c] = true
						cands = append(cands, c)
					}
				}
				if r.Chance(1, 2) { // a failing backend of the timeout / refused class in front
					front := hx.Pick(r, []int{T, T, R})
					rest := []int{front}
					for _, c := range cands {
						if c != front {
							rest = append(rest, c)
						}
					}
					cands = rest
				}
				ttl := long
				if r.Chance(1, 3) {
					ttl = -1
				}
				ops = append(ops, ping(uint64(r.Intn(2)), pickProto(r), ttl, r.Bool(), cands...))
			case x < 7:
				ops = append(ops, mode(r.Intn(nb), r.Chance(1, 3)))
			default:
				ops = append(ops, bop{kind: "preset"})
			}
		}
		scenarios = append(scenarios, ops)
	}
	reruns := 0
	for _, ops := range scenarios {
		lines, suspicious := runTimeoutScenario(f, sm, nb, ops, 300*time.Millisecond)
		if suspicious {
			// decide only on a solitary re-run with a budget no loaded machine exceeds for a loopback connect
			reruns++
			lines, _ = runTimeoutScenario(f, sm, nb, ops, 5*time.Second)
		}
		for _, l := range lines {
			run.Case(l.class, l.op, l.out)
		}
	}
	run.Extra["timeout_scenarios"] = len(scenarios)
	run.Extra["timeout_reruns"] = reruns
	f.dialTimeout = 2 * time.Second
}

func main() {
	run := hx.Start()
	partRace(run)
	partA(run)
	partB(run)
	run.Finish()
}
