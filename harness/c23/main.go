// C23 correspondence harness: drives the REAL filterNode and backendPlaySessionHandler.handleAvailableCommands
// (through the verif hook export_verif_c23.go) on generated proxy command trees (real brigodier nodes: nested
// literals/arguments, redirects, per-node permission requirements) and backend trees, and walks what the player
// receives.  Trees whose child+redirect graph has a cycle are probed in a child process (a diverging filterNode
// ends in a fatal stack overflow).  See lean/GateModel/C23/Driver.lean for the line format.
package main

import (
	"context"
	"fmt"
	"net"
	"os"
	"os/exec"
	"runtime/debug"
	"strconv"
	"strings"
	"sync"
	"time"

	"github.com/robinbraemer/event"
	"go.minekube.com/brigodier"

	"go.minekube.com/gate/pkg/command"
	"go.minekube.com/gate/pkg/edition/java/config"
	"go.minekube.com/gate/pkg/edition/java/netmc"
	"go.minekube.com/gate/pkg/edition/java/proto/packet"
	"go.minekube.com/gate/pkg/edition/java/proto/state"
	"go.minekube.com/gate/pkg/edition/java/proto/version"
	"go.minekube.com/gate/pkg/edition/java/proxy"
	"go.minekube.com/gate/pkg/edition/java/proxy/phase"
	"go.minekube.com/gate/pkg/gate/proto"
	"go.minekube.com/gate/pkg/util/permission"

	"verifharness/hx"
)

// ---------- fake client connection ----------

type fakeConn struct {
	mu      sync.Mutex
	packets []proto.Packet
	wrote   chan struct{}
}

func (c *fakeConn) Context() context.Context                                       { return context.Background() }
func (c *fakeConn) Close() error                                                   { return nil }
func (c *fakeConn) State() *state.Registry                                         { return state.Play }
func (c *fakeConn) Protocol() proto.Protocol                                       { return version.Minecraft_1_20_3.Protocol }
func (c *fakeConn) RemoteAddr() net.Addr                                           { return &net.TCPAddr{} }
func (c *fakeConn) LocalAddr() net.Addr                                            { return &net.TCPAddr{} }
func (c *fakeConn) Type() phase.ConnectionType                                     { return phase.Vanilla }
func (c *fakeConn) SetType(phase.ConnectionType)                                   {}
func (c *fakeConn) ActiveSessionHandler() netmc.SessionHandler                     { return nil }
func (c *fakeConn) SetActiveSessionHandler(*state.Registry, netmc.SessionHandler) {}
func (c *fakeConn) SwitchSessionHandler(*state.Registry) bool                      { return true }
func (c *fakeConn) AddSessionHandler(*state.Registry, netmc.SessionHandler)        {}
func (c *fakeConn) SetAutoReading(bool)                                            {}
func (c *fakeConn) SetOutboundState(*state.Registry)                               {}
func (c *fakeConn) SetProtocol(proto.Protocol)                                     {}
func (c *fakeConn) SetState(*state.Registry)                                       {}
func (c *fakeConn) SetCompressionThreshold(int) error                              { return nil }
func (c *fakeConn) EnableEncryption([]byte) error                                  { return nil }
func (c *fakeConn) WritePacket(p proto.Packet) error {
	c.mu.Lock()
	c.packets = append(c.packets, p)
	c.mu.Unlock()
	select {
	case c.wrote <- struct{}{}:
	default:
	}
	return nil
}
func (c *fakeConn) Write([]byte) error                { return nil }
func (c *fakeConn) BufferPacket(p proto.Packet) error { return c.WritePacket(p) }
func (c *fakeConn) BufferPayload([]byte) error        { return nil }
func (c *fakeConn) Flush() error                      { return nil }
func (c *fakeConn) Reader() netmc.Reader              { return nil }
func (c *fakeConn) Writer() netmc.Writer              { return nil }
func (c *fakeConn) EnablePlayPacketQueue()            {}

var _ netmc.MinecraftConn = (*fakeConn)(nil)

// ---------- proxy command tree ----------

type node struct {
	parent   int
	name     string
	req      int // 0 = none, -1 = the requirement function panics for the player, else permission id
	redirect int // -1 = none, 0 = root, else id
}

func (n node) token() string {
	req, red := "-", "-"
	if n.req > 0 {
		req = strconv.Itoa(n.req)
	} else if n.req < 0 {
		req = "!"
	}
	if n.redirect >= 0 {
		red = strconv.Itoa(n.redirect)
	}
	return fmt.Sprintf("%d:%s:%s:%s", n.parent, n.name, req, red)
}

func parseTree(s string) []node {
	var out []node
	for _, tok := range strings.Fields(s) {
		f := strings.Split(tok, ":")
		n := node{name: f[1], redirect: -1}
		n.parent, _ = strconv.Atoi(f[0])
		if f[2] == "!" {
			n.req = -1
		} else if f[2] != "-" {
			n.req, _ = strconv.Atoi(f[2])
		}
		if f[3] != "-" {
			n.redirect, _ = strconv.Atoi(f[3])
		}
		out = append(out, n)
	}
	return out
}

func permFunc(perms []int) permission.Func {
	set := map[string]bool{}
	for _, p := range perms {
		set["p"+strconv.Itoa(p)] = true
	}
	return func(s string) permission.TriState {
		if set[s] {
			return permission.True
		}
		return permission.Undefined
	}
}

// isArg: which generated nodes are argument nodes (the model does not care)
func isArg(id int, n node) bool { return n.parent != 0 && id%4 == 3 }

// buildInto adds the tree below root (a real brigodier root).  Redirect-only edges are acyclic by construction
// (a node can only redirect to a node that already exists), so nodes are created in an order where every redirect
// target exists, then attached to their parents in id order.
func buildInto(root *brigodier.RootCommandNode, nodes []node) map[string]int {
	built := make([]brigodier.CommandNode, len(nodes)+1)
	built[0] = root
	names := map[string]int{}
	var mk func(id int)
	mk = func(id int) {
		if built[id] != nil {
			return
		}
		n := nodes[id-1]
		if n.redirect > 0 {
			mk(n.redirect)
		}
		var b brigodier.NodeBuilder
		if isArg(id, n) {
			b = brigodier.Argument(n.name, brigodier.StringWord).NodeBuilder()
		} else {
			b = brigodier.Literal(n.name).NodeBuilder()
		}
		if n.req > 0 {
			perm := "p" + strconv.Itoa(n.req)
			b = b.Requires(command.Requires(func(c *command.RequiresContext) bool { return c.Source.HasPermission(perm) }))
		} else if n.req < 0 {
			// a plugin-supplied requirement that fails for this player (missing per-player record)
			b = b.Requires(command.Requires(func(c *command.RequiresContext) bool {
				var record map[string]*struct{ admin bool }
				return record[c.Source.(proxy.Player).Username()].admin
			}))
		}
		b = b.Executes(command.Command(func(*command.Context) error { return nil }))
		if n.redirect >= 0 {
			b = b.Redirect(built[n.redirect])
		}
		built[id] = b.Build()
		names[n.name] = id
	}
	for id := 1; id <= len(nodes); id++ {
		mk(id)
	}
	for id := 1; id <= len(nodes); id++ {
		built[nodes[id-1].parent].AddChild(built[id])
	}
	return names
}

// walk encodes a filtered (proxy) node in pre-order
func walk(n brigodier.CommandNode, names map[string]int, out *[]string) {
	id := 0
	if _, ok := n.(*brigodier.RootCommandNode); !ok {
		v, ok := names[n.Name()]
		if !ok {
			// a node that is not in the proxy's current command tree (stale copy): an id no tree has
			*out = append(*out, "N"+strconv.Itoa(staleID))
			return
		}
		id = v
	}
	*out = append(*out, "N"+strconv.Itoa(id))
	if r := n.Redirect(); r != nil {
		*out = append(*out, "R")
		walk(r, names, out)
	}
	n.ChildrenOrdered().Range(func(_ string, c brigodier.CommandNode) bool {
		walk(c, names, out)
		return true
	})
	*out = append(*out, "U")
}

const staleID = 1 << 20

func joinToks(t []string) string {
	if len(t) == 0 {
		return "-"
	}
	return strings.Join(t, " ")
}

func newProxy() *proxy.Proxy {
	cfg := config.DefaultConfig
	cfg.AnnounceProxyCommands = true
	p, err := proxy.New(proxy.Options{Config: &cfg, EventMgr: event.New()})
	if err != nil {
		panic(err)
	}
	return p
}

type built struct {
	p     *proxy.Proxy
	names map[string]int
}

func build(nodes []node) *built {
	p := newProxy()
	return &built{p: p, names: buildInto(&p.Command().Root, nodes)}
}

func doFilter(bt *built, perms []int) string {
	p, names := bt.p, bt.names
	src := proxy.C23Source(p, &fakeConn{}, permFunc(perms))
	res := proxy.C23FilterNode(&p.Command().Root, src)
	if res == nil {
		return "nil"
	}
	var out []string
	walk(res, names, &out)
	return joinToks(out)
}

// cyclic: does the child+redirect graph contain a cycle (ignoring requirements)?
func cyclic(nodes []node) bool {
	kids := map[int][]int{}
	for i, n := range nodes {
		kids[n.parent] = append(kids[n.parent], i+1)
	}
	color := make([]int, len(nodes)+1)
	var dfs func(v int) bool
	dfs = func(v int) bool {
		color[v] = 1
		next := append([]int(nil), kids[v]...)
		if v > 0 && nodes[v-1].redirect >= 0 {
			next = append(next, nodes[v-1].redirect)
		}
		for _, w := range next {
			if color[w] == 1 || (color[w] == 0 && dfs(w)) {
				return true
			}
		}
		color[v] = 2
		return false
	}
	return dfs(0)
}

func permsTok(perms []int) string {
	if len(perms) == 0 {
		return "-"
	}
	s := make([]string, len(perms))
	for i, p := range perms {
		s[i] = strconv.Itoa(p)
	}
	return strings.Join(s, ",")
}

func treeTok(nodes []node) string {
	t := make([]string, len(nodes))
	for i, n := range nodes {
		t[i] = n.token()
	}
	return strings.Join(t, " ")
}

// probe runs doFilter in a child process with a small maximum stack
func probe(nodes []node, perms []int) string {
	cmd := exec.Command(os.Args[0])
	cmd.Env = append(os.Environ(), "GOTRACEBACK=none", "C23_PROBE="+treeTok(nodes)+"|"+permsTok(perms))
	done := make(chan string, 1)
	go func() {
		b, err := cmd.CombinedOutput()
		s := string(b)
		switch {
		case err == nil:
			done <- strings.TrimSpace(s)
		case strings.Contains(s, "stack overflow") || strings.Contains(s, "goroutine stack exceeds"):
			done <- "diverges"
		default:
			done <- "probe-failed"
		}
	}()
	select {
	case s := <-done:
		return s
	case <-time.After(60 * time.Second):
		_ = cmd.Process.Kill()
		return "hang"
	}
}

func probeMain(arg string) {
	debug.SetMaxStack(8 << 20)
	defer func() {
		if recover() != nil {
			fmt.Println("panic") // a requirement's panic propagated out of filterNode
		}
	}()
	parts := strings.SplitN(arg, "|", 2)
	var perms []int
	if parts[1] != "-" {
		for _, s := range strings.Split(parts[1], ",") {
			v, _ := strconv.Atoi(s)
			perms = append(perms, v)
		}
	}
	fmt.Println(doFilter(build(parseTree(parts[0])), perms))
}

// ---------- backend tree + merge ----------

type bnode struct {
	name  string
	ident int
	kids  []string
}

func digest(n brigodier.CommandNode) string {
	var parts []string
	n.ChildrenOrdered().Range(func(_ string, c brigodier.CommandNode) bool {
		parts = append(parts, digest(c))
		return true
	})
	red := ""
	if n.Redirect() != nil {
		red = ">" + n.Redirect().Name()
	}
	return n.Name() + red + "(" + strings.Join(parts, ",") + ")"
}

func doMerge(bt *built, perms []int, backend []bnode) string {
	client := &fakeConn{wrote: make(chan struct{}, 1)}
	return deliverOnce(func(pkt *packet.AvailableCommands) {
		proxy.C23HandleAvailableCommands(bt.p, client, permFunc(perms), pkt)
	}, client, bt.names, backend)
}

// deliverOnce builds the backend's commands packet, lets handle process it and walks the one packet the player
// (client) receives because of it.
func deliverOnce(handle func(*packet.AvailableCommands), client *fakeConn, names map[string]int, backend []bnode) string {
	root := &brigodier.RootCommandNode{}
	ident := map[brigodier.CommandNode]int{}
	before := map[brigodier.CommandNode]string{}
	for _, b := range backend {
		lb := brigodier.Literal(b.name)
		for _, k := range b.kids {
			lb.Then(brigodier.Literal(k))
		}
		n := lb.Build()
		root.AddChild(n)
		ident[n] = b.ident
		before[n] = digest(n)
	}
	select {
	case <-client.wrote:
	default:
	}
	client.mu.Lock()
	had := len(client.packets)
	client.mu.Unlock()
	handle(&packet.AvailableCommands{RootNode: root})
	select {
	case <-client.wrote:
	case <-time.After(60 * time.Second):
		return "hang"
	}
	client.mu.Lock()
	sent := client.packets[had:]
	client.mu.Unlock()
	if len(sent) != 1 {
		return fmt.Sprintf("packets=%d", len(sent))
	}
	ac, ok := sent[0].(*packet.AvailableCommands)
	if !ok {
		return fmt.Sprintf("other<%T>", sent[0])
	}
	var rootToks, sub []string
	bk := "1"
	ac.RootNode.ChildrenOrdered().Range(func(_ string, c brigodier.CommandNode) bool {
		if id, ok := ident[c]; ok {
			rootToks = append(rootToks, fmt.Sprintf("B:%s:%d", c.Name(), id))
			if digest(c) != before[c] {
				bk = "0"
			}
		} else {
			id, ok := names[c.Name()]
			if !ok {
				id = staleID
			}
			rootToks = append(rootToks, fmt.Sprintf("P:%s:%d", c.Name(), id))
			walk(c, names, &sub)
		}
		return true
	})
	rt := "-"
	if len(rootToks) > 0 {
		rt = strings.Join(rootToks, ",")
	}
	return "root=" + rt + " sub=" + joinToks(sub) + " bk=" + bk
}

// ---------- generators ----------

var rootNames = []string{"server", "glist", "send", "msg", "tp", "help", "gate", "hub"}

// genTree: nested nodes, requirements, redirects.  allowCycle: redirects may point at ancestors / the root.
func genTree(r *hx.Rng, allowCycle bool) []node {
	var nodes []node
	var grow func(parent, depth int)
	grow = func(parent, depth int) {
		if depth > 4 || len(nodes) > 14 {
			return
		}
		k := r.Intn(3)
		if parent == 0 {
			k = 1 + r.Intn(4)
		}
		used := map[string]bool{}
		for i := 0; i < k; i++ {
			n := node{parent: parent, redirect: -1}
			if parent == 0 {
				n.name = hx.Pick(r, rootNames)
				if used[n.name] {
					continue
				}
				used[n.name] = true
			}
			if r.Chance(35, 100) {
				n.req = 1 + r.Intn(3)
			} else if r.Chance(6, 100) {
				n.req = -1
			}
			nodes = append(nodes, n)
			id := len(nodes)
			if parent != 0 {
				nodes[id-1].name = "n" + strconv.Itoa(id)
			}
			if r.Chance(1, 4) && id > 1 {
				// redirect to an existing node (never to itself: brigodier cannot express that either)
				tgt := r.Intn(id) // 0 .. id-1
				if !allowCycle {
					// not an ancestor (nor the root): keeps the child+redirect graph acyclic only if … checked by cyclic()
					if tgt == 0 {
						tgt = 1 + r.Intn(id-1)
					}
				}
				nodes[id-1].redirect = tgt
			}
			if r.Chance(6, 10) {
				grow(id, depth+1)
			}
		}
	}
	grow(0, 1)
	return nodes
}

func genPerms(r *hx.Rng) []int {
	var perms []int
	for p := 1; p <= 3; p++ {
		if r.Bool() {
			perms = append(perms, p)
		}
	}
	return perms
}

func genBackend(r *hx.Rng) []bnode {
	var out []bnode
	used := map[string]bool{}
	for i, k := 0, r.Intn(6); i < k; i++ {
		name := hx.Pick(r, append([]string{"give", "say", "kill", "list"}, rootNames...))
		if used[name] {
			continue
		}
		used[name] = true
		b := bnode{name: name, ident: len(out) + 1}
		for j, kk := 0, r.Intn(3); j < kk; j++ {
			b.kids = append(b.kids, "k"+strconv.Itoa(j))
		}
		out = append(out, b)
	}
	return out
}

func backendTok(bs []bnode) string {
	if len(bs) == 0 {
		return "-"
	}
	s := make([]string, len(bs))
	for i, b := range bs {
		s[i] = b.name + ":" + strconv.Itoa(b.ident)
	}
	return strings.Join(s, ",")
}

func runTree(run *hx.Run, class string, nodes []node, perms []int, backends [][]bnode, probes *int) {
	run.Case("tree", "tree "+treeTok(nodes), "ok")
	run.Case("tree", "perms "+permsTok(perms), "ok")
	// every judged line repeats tree and permissions, so that a reported case is a complete replay
	ctx := " @tree=" + strings.ReplaceAll(treeTok(nodes), " ", ";") + " @perms=" + permsTok(perms)
	if cyclic(nodes) {
		if *probes <= 0 {
			return
		}
		*probes--
		run.Case(class+"/filter-probe", "filter"+ctx, probe(nodes, perms))
		return
	}
	bt := build(nodes) // the proxy's tree is only read: one proxy serves the filter and every merge
	run.Case(class+"/filter", "filter"+ctx, hx.Guard(20*time.Second, func() string { return doFilter(bt, perms) }))
	for _, b := range backends {
		run.Case(class+"/merge", "merge "+backendTok(b)+ctx, hx.Guard(20*time.Second, func() string { return doMerge(bt, perms, b) }))
	}
}

// ---------- histories: several commands packets on ONE backend connection ----------

type hstep struct {
	nodes   []node
	perms   []int
	backend []bnode
}

// runHistory drives ONE backendPlaySessionHandler (one proxy, one player, one client connection) through several
// AvailableCommands packets; between packets the player's permissions and/or the proxy's command tree change.
// Every step is judged against the tree and permissions current AT THAT packet.
func runHistory(run *hx.Run, class string, steps []hstep) {
	p := newProxy()
	var cur []int
	var mu sync.Mutex
	perm := func(s string) permission.TriState {
		mu.Lock()
		f := permFunc(cur)
		mu.Unlock()
		return f(s)
	}
	client := &fakeConn{wrote: make(chan struct{}, 1)}
	h := proxy.C23NewHandler(p, client, perm)
	var names map[string]int
	prevTree := "\x00"
	var hist []string
	for k, st := range steps {
		tt := treeTok(st.nodes)
		if tt != prevTree {
			// the proxy's command set changed: unregister everything, register the new tree
			root := &p.Command().Root
			var old []string
			for name := range root.Children() {
				old = append(old, name)
			}
			root.RemoveChild(old...)
			names = buildInto(root, st.nodes)
			prevTree = tt
		}
		mu.Lock()
		cur = st.perms
		mu.Unlock()
		run.Case("tree", "tree "+tt, "ok")
		run.Case("tree", "perms "+permsTok(st.perms), "ok")
		here := strings.ReplaceAll(tt, " ", ";") + "/" + permsTok(st.perms)
		ctx := fmt.Sprintf(" @tree=%s @perms=%s @packet=%d-on-one-backend-connection @earlier-packets=%s",
			strings.ReplaceAll(tt, " ", ";"), permsTok(st.perms), k+1, joinBar(hist))
		nm := names
		out := hx.Guard(90*time.Second, func() string {
			return deliverOnce(h.C23HandleAvailableCommands, client, nm, st.backend)
		})
		run.Case(class+"/merge", "merge "+backendTok(st.backend)+ctx, out)
		hist = append(hist, here)
		if out == "hang" {
			return
		}
	}
}

func joinBar(xs []string) string {
	if len(xs) == 0 {
		return "-"
	}
	return strings.Join(xs, "|")
}

func genAcyclic(r *hx.Rng) []node {
	for {
		if n := genTree(r, false); !cyclic(n) {
			return n
		}
	}
}

func genHistory(r *hx.Rng) []hstep {
	nodes := genAcyclic(r)
	perms := genPerms(r)
	var steps []hstep
	for k, n := 0, 2+r.Intn(3); k < n; k++ {
		if k > 0 {
			switch x := r.Intn(100); {
			case x < 60: // permissions revoked / granted
				perms = genPerms(r)
			case x < 85: // requirements of some nodes change (same shape, so still acyclic)
				nodes = append([]node(nil), nodes...)
				for j := 0; j < 1+r.Intn(3) && len(nodes) > 0; j++ {
					i := r.Intn(len(nodes))
					nodes[i].req = hx.Pick(r, []int{0, 1, 2, 3, 1, 2, 3, -1})
				}
				if r.Bool() {
					perms = genPerms(r)
				}
			default: // other proxy commands
				nodes = genAcyclic(r)
			}
		}
		steps = append(steps, hstep{nodes, perms, genBackend(r)})
	}
	return steps
}

func main() {
	if arg := os.Getenv("C23_PROBE"); arg != "" {
		probeMain(arg)
		return
	}
	run := hx.Start()
	defer run.Finish()
	r := run.Rng
	probes := run.Scale(12, 60)

	// fixed cases
	fixed := []node{
		{0, "server", 0, -1}, {1, "n2", 0, -1},
		{0, "send", 1, -1}, {3, "n4", 0, -1}, {4, "n5", 2, -1},
		{0, "glist", 0, -1}, {6, "n7", 3, -1},
		{0, "hub", 0, 1},   // redirect to /server
		{0, "gate", 0, 3},  // redirect to a node the player may not use
	}
	bk := [][]bnode{{{"server", 1, []string{"k0"}}, {"give", 2, nil}, {"send", 3, []string{"k0", "k1"}}, {"hub", 4, nil}}, nil}
	runTree(run, "fixed", fixed, nil, bk, &probes)
	runTree(run, "fixed", fixed, []int{1}, bk, &probes)
	runTree(run, "fixed", fixed, []int{1, 2, 3}, bk, &probes)
	// requirements that panic for this player: at the root level, nested, behind a redirect, behind a denied node
	for _, pt := range [][]node{
		{{0, "server", 0, -1}, {0, "admin", -1, -1}, {2, "n3", 0, -1}},
		{{0, "server", 0, -1}, {1, "n2", 0, -1}, {2, "n3", -1, -1}, {3, "n4", 0, -1}},
		{{0, "server", 0, -1}, {0, "admin", 1, -1}, {2, "n3", -1, -1}, {0, "hub", 0, 3}},
		{{0, "admin", 1, -1}, {1, "n2", -1, -1}, {0, "glist", 0, -1}},
	} {
		runTree(run, "fixed-panic", pt, nil, bk, &probes)
		runTree(run, "fixed-panic", pt, []int{1}, bk, &probes)
	}
	// redirect back to the root below a usable node (brigadier's `execute … run` shape): filterNode never returns
	cyc := []node{{0, "execute", 0, -1}, {1, "n2", 0, 0}}
	runTree(run, "fixed-cycle", cyc, nil, nil, &probes)
	// the same shape behind a requirement the player does not pass: terminates
	cyc2 := []node{{0, "execute", 1, -1}, {1, "n2", 0, 0}}
	runTree(run, "fixed-cycle", cyc2, nil, nil, &probes)

	for i := run.Scale(300, 3000); i > 0; i-- {
		nodes := genTree(r, false)
		perms := genPerms(r)
		runTree(run, "gen", nodes, perms, [][]bnode{genBackend(r), genBackend(r)}, &probes)
	}
	for i := run.Scale(30, 150); i > 0; i-- {
		runTree(run, "gen-cyclic", genTree(r, true), genPerms(r), nil, &probes)
	}

	// histories on one backend connection.  Fixed: permission revoked / re-granted between commands packets
	// (top-level and nested restricted nodes), requirement starting to panic, command set replaced.
	ht := []node{{0, "server", 0, -1}, {0, "admin", 1, -1}, {2, "n3", 0, -1}, {1, "n4", 2, -1}, {0, "hub", 0, 2}}
	ht2 := []node{{0, "server", 0, -1}, {0, "admin", -1, -1}, {2, "n3", 0, -1}, {1, "n4", 2, -1}, {0, "hub", 0, 2}}
	hb := []bnode{{"admin", 1, []string{"k0"}}, {"give", 2, nil}}
	runHistory(run, "fixed-hist", []hstep{{ht, []int{1, 2}, hb}, {ht, nil, hb}, {ht, []int{1}, hb}, {ht, []int{2}, nil}})
	runHistory(run, "fixed-hist", []hstep{{ht, nil, hb}, {ht, []int{1, 2}, hb}, {ht2, []int{1, 2}, hb}, {ht, []int{1, 2}, hb}})
	runHistory(run, "fixed-hist", []hstep{{ht, []int{1, 2}, hb}, {fixed, []int{1}, hb}, {fixed, nil, hb}})
	for i := run.Scale(150, 1500); i > 0; i-- {
		runHistory(run, "hist", genHistory(r))
	}
}
