// Package rc is a recording netmc.MinecraftConn used by the C18/C24/C25 harnesses: protocol state,
// protocol version, closed-ness and connection type are settable, every write is logged.
package rc

import (
	"context"
	"net"
	"sync"

	"go.minekube.com/gate/pkg/edition/java/netmc"
	"go.minekube.com/gate/pkg/edition/java/proto/state"
	"go.minekube.com/gate/pkg/edition/java/proto/version"
	"go.minekube.com/gate/pkg/edition/java/proxy/phase"
	"go.minekube.com/gate/pkg/gate/proto"
)

// Entry is one write on the connection.
type Entry struct {
	Kind    string       // "wp" WritePacket, "bp" BufferPacket, "w" Write, "bpl" BufferPayload, "flush", "close"
	Packet  proto.Packet // wp / bp
	Payload []byte       // w / bpl
}

type Conn struct {
	mu       sync.Mutex
	ctx      context.Context
	cancel   context.CancelFunc
	st       *state.Registry
	prot     proto.Protocol
	typ      phase.ConnectionType
	handler  netmc.SessionHandler
	log      []Entry
	WriteErr error // returned by every write when non-nil (the write is still logged)
	// OnEntry, when non-nil, is called inside every write (after it was logged, outside the connection's
	// own lock): lets a harness do something while the proxy is in the middle of a write.
	OnEntry func(Entry)
}

func New(st *state.Registry, p proto.Protocol) *Conn {
	c := &Conn{st: st, prot: p}
	c.ctx, c.cancel = context.WithCancel(context.Background())
	return c
}

var _ netmc.MinecraftConn = (*Conn)(nil)

// Log returns a copy of the entries from index from on.
func (c *Conn) Log(from int) []Entry {
	c.mu.Lock()
	defer c.mu.Unlock()
	if from > len(c.log) {
		from = len(c.log)
	}
	return append([]Entry(nil), c.log[from:]...)
}
func (c *Conn) Len() int { c.mu.Lock(); defer c.mu.Unlock(); return len(c.log) }
func (c *Conn) add(e Entry) error {
	c.mu.Lock()
	c.log = append(c.log, e)
	err, hook := c.WriteErr, c.OnEntry
	c.mu.Unlock()
	if hook != nil {
		hook(e)
	}
	return err
}

// SetClosed cancels (true) or renews (false) the connection context.
func (c *Conn) SetClosed(closed bool) {
	c.mu.Lock()
	defer c.mu.Unlock()
	if closed {
		c.cancel()
	} else if c.ctx.Err() != nil {
		c.ctx, c.cancel = context.WithCancel(context.Background())
	}
}
func (c *Conn) ForceState(s *state.Registry) { c.mu.Lock(); c.st = s; c.mu.Unlock() }

func (c *Conn) Context() context.Context { c.mu.Lock(); defer c.mu.Unlock(); return c.ctx }
func (c *Conn) Close() error {
	c.add(Entry{Kind: "close"})
	c.SetClosed(true)
	return nil
}
func (c *Conn) State() *state.Registry { c.mu.Lock(); defer c.mu.Unlock(); return c.st }
func (c *Conn) Protocol() proto.Protocol {
	c.mu.Lock()
	defer c.mu.Unlock()
	if c.prot == 0 {
		return version.Minecraft_1_20_3.Protocol
	}
	return c.prot
}
func (c *Conn) RemoteAddr() net.Addr { return &net.TCPAddr{IP: net.IPv4(127, 0, 0, 1), Port: 40000} }
func (c *Conn) LocalAddr() net.Addr  { return &net.TCPAddr{IP: net.IPv4(127, 0, 0, 1), Port: 25565} }
func (c *Conn) Type() phase.ConnectionType {
	c.mu.Lock()
	defer c.mu.Unlock()
	if c.typ != nil {
		return c.typ
	}
	return phase.Vanilla
}
func (c *Conn) SetType(t phase.ConnectionType) { c.mu.Lock(); c.typ = t; c.mu.Unlock() }
func (c *Conn) ActiveSessionHandler() netmc.SessionHandler {
	c.mu.Lock()
	defer c.mu.Unlock()
	return c.handler
}
func (c *Conn) SetActiveSessionHandler(_ *state.Registry, h netmc.SessionHandler) {
	c.mu.Lock()
	c.handler = h
	c.mu.Unlock()
}
func (c *Conn) SwitchSessionHandler(*state.Registry) bool               { return true }
func (c *Conn) AddSessionHandler(*state.Registry, netmc.SessionHandler) {}
func (c *Conn) SetAutoReading(bool)                                     {}
func (c *Conn) SetOutboundState(*state.Registry)                        {}
func (c *Conn) SetProtocol(p proto.Protocol)                            { c.mu.Lock(); c.prot = p; c.mu.Unlock() }
func (c *Conn) SetState(s *state.Registry)                              { c.ForceState(s) }
func (c *Conn) SetCompressionThreshold(int) error                       { return nil }
func (c *Conn) EnableEncryption([]byte) error                           { return nil }
func (c *Conn) WritePacket(p proto.Packet) error                        { return c.add(Entry{Kind: "wp", Packet: p}) }
func (c *Conn) Write(b []byte) error {
	return c.add(Entry{Kind: "w", Payload: append([]byte(nil), b...)})
}
func (c *Conn) BufferPacket(p proto.Packet) error { return c.add(Entry{Kind: "bp", Packet: p}) }
func (c *Conn) BufferPayload(b []byte) error {
	return c.add(Entry{Kind: "bpl", Payload: append([]byte(nil), b...)})
}
func (c *Conn) Flush() error           { return c.add(Entry{Kind: "flush"}) }
func (c *Conn) Reader() netmc.Reader   { return nil }
func (c *Conn) Writer() netmc.Writer   { return nil }
func (c *Conn) EnablePlayPacketQueue() {}
