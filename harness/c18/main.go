// C18 correspondence harness: drives the real recordBackendKeepAlive / consumePendingKeepAlive /
// sendKeepAliveToBackend / forwardKeepAlive (through export_verif_c18.go) over recording connections.
package main

import (
	"fmt"
	"math"
	"sort"
	"strconv"
	"strings"
	"sync"
	"time"

	"go.minekube.com/gate/pkg/edition/java/proto/packet"
	"go.minekube.com/gate/pkg/edition/java/proto/state"
	"go.minekube.com/gate/pkg/edition/java/proxy"

	"verifharness/c18/rc"
	"verifharness/hx"
)

const nBackends = 4

type world struct {
	client *rc.Conn
	player *proxy.C18Player
	conns  []*rc.Conn // index = identity of the serverConnection; grows with `new`
	scs    []*proxy.C18ServerConn
	seen   []int
	seenC  int
}

func newWorld() *world {
	w := &world{client: rc.New(state.Play, 0)}
	w.player = proxy.C18NewPlayer(w.client)
	for i := 0; i < nBackends; i++ {
		w.addConn()
	}
	return w
}

// addConn creates the next serverConnection through newServerConnection (a fresh backend, PLAY, connected).
func (w *world) addConn() {
	c := rc.New(state.Play, 0)
	w.conns = append(w.conns, c)
	w.scs = append(w.scs, proxy.C18NewServerConn(w.player, "s"+strconv.Itoa(len(w.scs)), c))
	w.seen = append(w.seen, 0)
}

type wr struct {
	b  int
	id int64
}

// delta collects the keep-alive packets written since the last call, per backend (client = 9).
func (w *world) delta() []wr {
	var out []wr
	for i, c := range w.conns {
		for _, e := range c.Log(w.seen[i]) {
			w.seen[i]++
			if e.Kind == "close" { // disconnect closes the backend connection: not a write
				continue
			}
			out = append(out, entryToWr(i, e))
		}
	}
	for _, e := range w.client.Log(w.seenC) {
		w.seenC++
		out = append(out, entryToWr(9, e))
	}
	return out
}

func entryToWr(b int, e rc.Entry) wr {
	if ka, ok := e.Packet.(*packet.KeepAlive); ok && e.Kind == "wp" {
		return wr{b, ka.RandomID}
	}
	return wr{b + 100, 0} // anything that is not a WritePacket(KeepAlive) shows up as an impossible backend
}

func showWrites(ws []wr) string {
	if len(ws) == 0 {
		return "-"
	}
	p := make([]string, len(ws))
	for i, x := range ws {
		p[i] = fmt.Sprintf("%d:%d", x.b, x.id)
	}
	return strings.Join(p, ",")
}

var states = map[string]*state.Registry{"h": state.Handshake, "s": state.Status, "l": state.Login, "c": state.Config, "p": state.Play}

func b2s(b bool) string {
	if b {
		return "1"
	}
	return "0"
}

// apply executes one op line on the real code and returns the canonical output.
func (w *world) apply(op string) string {
	f := strings.Fields(op)
	atoi := func(s string) int { v, _ := strconv.Atoi(s); return v }
	id := func(s string) int64 { v, _ := strconv.ParseInt(s, 10, 64); return v }
	sc := func(s string) *proxy.C18ServerConn {
		if s == "-" {
			return nil
		}
		return w.scs[atoi(s)]
	}
	switch f[0] {
	case "cap":
		return strconv.Itoa(proxy.C18PendingCapacity())
	case "new": // the next connection attempt: newServerConnection
		w.addConn()
		return "-"
	case "disc": // serverConnection.disconnect (switch / kick); its read loop may still deliver packets
		proxy.C18Disconnect(w.scs[atoi(f[1])])
		return showWrites(w.delta())
	case "rec":
		proxy.C18Record(w.scs[atoi(f[1])], id(f[2]))
		return showWrites(w.delta())
	case "burst":
		n, st := atoi(f[2]), id(f[3])
		for k := 0; k < n; k++ {
			proxy.C18Record(w.scs[atoi(f[1])], st+int64(k))
		}
		return showWrites(w.delta())
	case "reply":
		proxy.C18Forward(w.player, id(f[1]))
		return showWrites(w.delta())
	case "replyh":
		proxy.C18ClientPlayHandle(w.player, id(f[1]))
		return showWrites(w.delta())
	case "send":
		ok := proxy.C18Send(w.scs[atoi(f[1])], w.player, id(f[2]))
		return b2s(ok) + " " + showWrites(w.delta())
	case "sendnil":
		ok := proxy.C18Send(nil, w.player, id(f[1]))
		return b2s(ok) + " " + showWrites(w.delta())
	case "consume":
		return b2s(proxy.C18Consume(w.scs[atoi(f[1])], id(f[2])))
	case "cur":
		proxy.C18SetConnectedServer(w.player, sc(f[1]))
		return showWrites(w.delta())
	case "infl":
		proxy.C18SetInFlight(w.player, sc(f[1]))
		return showWrites(w.delta())
	case "state":
		w.conns[atoi(f[1])].ForceState(states[f[2]])
		return "-"
	case "closed":
		w.conns[atoi(f[1])].SetClosed(f[2] == "1")
		return "-"
	case "conn":
		if f[2] == "1" {
			proxy.C18SetBackendConn(w.scs[atoi(f[1])], w.conns[atoi(f[1])])
		} else {
			proxy.C18SetBackendConn(w.scs[atoi(f[1])], nil)
		}
		return "-"
	case "racelocked":
		// the same race, but all handlers are started while someone else (connect/disconnect) holds the
		// connections' mutexes, so they all reach the consume step before any of them can finish it
		var unlocks []func()
		for _, sc := range w.scs {
			unlocks = append(unlocks, proxy.C18LockConn(sc))
		}
		g := atoi(f[1])
		var ids []int64
		for _, s := range strings.Split(f[2], ",") {
			ids = append(ids, id(s))
		}
		var wg sync.WaitGroup
		for j := 0; j < g; j++ {
			wg.Add(1)
			go func(j int) {
				defer wg.Done()
				for k := range ids {
					proxy.C18Forward(w.player, ids[(k+j)%len(ids)])
				}
			}(j)
		}
		time.Sleep(15 * time.Millisecond) // let every handler run up to the lock
		for _, u := range unlocks {
			u()
		}
		wg.Wait()
		ws := w.delta()
		sort.Slice(ws, func(a, b int) bool {
			if ws[a].b != ws[b].b {
				return ws[a].b < ws[b].b
			}
			return ws[a].id < ws[b].id
		})
		return showWrites(ws)
	case "race":
		g := atoi(f[1])
		var ids []int64
		for _, s := range strings.Split(f[2], ",") {
			ids = append(ids, id(s))
		}
		var wg sync.WaitGroup
		start := make(chan struct{})
		for j := 0; j < g; j++ {
			wg.Add(1)
			go func(j int) {
				defer wg.Done()
				<-start
				for k := range ids {
					proxy.C18Forward(w.player, ids[(k+j)%len(ids)])
				}
			}(j)
		}
		close(start)
		wg.Wait()
		ws := w.delta()
		sort.Slice(ws, func(a, b int) bool {
			if ws[a].b != ws[b].b {
				return ws[a].b < ws[b].b
			}
			return ws[a].id < ws[b].id
		})
		return showWrites(ws)
	}
	return "bad-op"
}

type gen struct {
	run *hx.Run
	w   *world
	nb  int // serverConnections created so far in this sequence
}

const maxBackends = 16

func (g *gen) do(class, op string) {
	if op == "reset" {
		g.w = newWorld()
		g.nb = nBackends
		g.run.Case(class, op, "-")
		return
	}
	if op == "new" {
		if g.nb >= maxBackends {
			return
		}
		g.nb++
	}
	w := g.w
	out := hx.Guard(20*time.Second, func() string { return w.apply(op) })
	g.run.Case(class, op, out)
}

func (g *gen) script(class string, ops ...string) {
	g.do(class, "reset")
	for _, op := range ops {
		g.do(class, op)
	}
}

var idBoundaries = []int64{0, 1, -1, 2, 63, 64, 65, math.MaxInt64, math.MinInt64, math.MaxInt32, math.MinInt32, 1 << 53, -(1 << 53)}

func (g *gen) pickID(pool []int64) int64 {
	r := g.run.Rng
	switch {
	case len(pool) > 0 && r.Chance(7, 10):
		return hx.Pick(r, pool)
	case r.Chance(1, 2):
		return hx.Pick(r, idBoundaries)
	case r.Chance(1, 2):
		return int64(r.Intn(8))
	default:
		return int64(r.U64())
	}
}

func optB(r *hx.Rng) string {
	if r.Chance(1, 5) {
		return "-"
	}
	return strconv.Itoa(r.Intn(nBackends))
}

// lifecycleSeq: server switches / kicks.  New serverConnections are created by newServerConnection, old ones
// disconnected while their read loop may still hand an already decoded keep-alive to recordBackendKeepAlive.
func (g *gen) lifecycleSeq(class string) {
	r := g.run.Rng
	g.do(class, "reset")
	a := r.Intn(nBackends)
	g.do(class, fmt.Sprintf("cur %d", a))
	next := int64(100)
	fresh := func() int64 { next++; return next }
	var late []int64
	for sw := 1 + r.Intn(4); sw > 0 && g.nb < maxBackends-1; sw-- {
		for k := r.Intn(3); k > 0; k-- {
			id := fresh()
			g.do(class, fmt.Sprintf("rec %d %d", a, id))
			if r.Chance(2, 3) {
				g.do(class, fmt.Sprintf("reply %d", id))
			} else {
				late = append(late, id)
			}
		}
		newBefore := r.Chance(1, 2) // the next connection is created before or after the old one goes away
		c := -1
		if newBefore {
			g.do(class, "new")
			c = g.nb - 1
			g.do(class, fmt.Sprintf("infl %d", c))
		}
		g.do(class, fmt.Sprintf("disc %d", a))
		for k := 1 + r.Intn(3); k > 0; k-- { // already decoded keep-alives of the dead connection
			id := fresh()
			late = append(late, id)
			g.do(class, fmt.Sprintf("rec %d %d", a, id))
		}
		if !newBefore || r.Chance(1, 2) {
			g.do(class, "new")
			c = g.nb - 1
			g.do(class, fmt.Sprintf("infl %d", c))
		}
		if r.Chance(1, 2) {
			g.do(class, fmt.Sprintf("state %d c", c))
		}
		if r.Chance(1, 2) { // replies while the new connection is still in flight
			for _, id := range late {
				if r.Chance(1, 2) {
					g.do(class, fmt.Sprintf("reply %d", id))
				}
			}
		}
		g.do(class, fmt.Sprintf("cur %d", c))
		if r.Chance(1, 2) {
			id := fresh()
			g.do(class, fmt.Sprintf("rec %d %d", c, id))
			g.do(class, fmt.Sprintf("reply %d", id))
		}
		for _, id := range late {
			g.do(class, fmt.Sprintf("reply %d", id))
		}
		a = c
	}
}

// randomSeq: one history of records (repeated ids, both connections), replies, switches, state changes.
func (g *gen) randomSeq(n int, class string) {
	r := g.run.Rng
	g.do(class, "reset")
	ptr := [2]string{optB(r), optB(r)}
	g.do(class, "cur "+ptr[0])
	g.do(class, "infl "+ptr[1])
	// records go mostly to the backends the player points at, so that replies have something to find
	recB := func() int {
		if p := ptr[r.Intn(2)]; p != "-" && r.Chance(3, 4) {
			v, _ := strconv.Atoi(p)
			return v
		}
		return r.Intn(nBackends)
	}
	stKeys := []string{"h", "s", "l", "c", "p", "p", "c", "p", "p", "c"}
	for b := 0; b < nBackends; b++ {
		if r.Chance(1, 3) {
			g.do(class, fmt.Sprintf("state %d %s", b, hx.Pick(r, stKeys)))
		}
	}
	var pool []int64 // ids recorded somewhere in this sequence
	for i := 0; i < n; i++ {
		switch k := r.Intn(100); {
		case k < 30:
			id := g.pickID(pool)
			pool = append(pool, id)
			g.do(class, fmt.Sprintf("rec %d %d", recB(), id))
		case k < 60:
			op := "reply"
			if r.Chance(1, 4) {
				op = "replyh"
			}
			g.do(class, fmt.Sprintf("%s %d", op, g.pickID(pool)))
		case k < 66:
			g.do(class, fmt.Sprintf("send %d %d", r.Intn(nBackends), g.pickID(pool)))
		case k < 68:
			g.do(class, fmt.Sprintf("sendnil %d", g.pickID(pool)))
		case k < 72:
			g.do(class, fmt.Sprintf("consume %d %d", r.Intn(nBackends), g.pickID(pool)))
		case k < 76:
			ptr[0] = optB(r)
			if r.Chance(1, 2) && ptr[1] != "-" {
				ptr[0] = ptr[1] // the switch completes: in-flight becomes current
			}
			if ptr[0] == ptr[1] {
				ptr[1] = "-"
			}
			g.do(class, "cur "+ptr[0])
		case k < 80:
			ptr[1] = optB(r)
			g.do(class, "infl "+ptr[1])
		case k < 86:
			g.do(class, fmt.Sprintf("state %d %s", r.Intn(nBackends), hx.Pick(r, stKeys)))
		case k < 89:
			g.do(class, fmt.Sprintf("closed %d %s", r.Intn(nBackends), b2s(r.Chance(1, 3))))
		case k < 92:
			g.do(class, fmt.Sprintf("conn %d %s", r.Intn(nBackends), b2s(r.Chance(2, 3))))
		case k < 96:
			st := int64(r.Intn(200)) - 20
			nn := 50 + r.Intn(40)
			g.do(class, fmt.Sprintf("burst %d %d %d", recB(), nn, st))
			for j := 0; j < 6; j++ {
				pool = append(pool, st+int64(r.Intn(nn)))
			}
		default:
			m := 1 + r.Intn(6)
			ids := make([]string, m)
			for j := range ids {
				ids[j] = strconv.FormatInt(g.pickID(pool), 10)
			}
			g.do(class, fmt.Sprintf("race %d %s", 1+r.Intn(6), strings.Join(ids, ",")))
		}
	}
}

func main() {
	run := hx.Start()
	g := &gen{run: run}

	// ---- fixed regression scripts (always first) ----
	g.script("fixed", "cap")
	// forward when states match / differ (config vs play), consume once
	g.script("fixed", "cur 0", "rec 0 777", "reply 777", "reply 777")
	g.script("fixed", "cur 0", "state 0 c", "rec 0 888", "replyh 888", "replyh 888")
	// unknown id dropped
	g.script("fixed", "cur 0", "reply 999", "rec 0 1", "reply 2", "reply 1")
	// queued pings answered in order
	g.script("fixed", "cur 0", "rec 0 1", "rec 0 2", "rec 0 3", "rec 0 4", "reply 1", "reply 2", "reply 3", "reply 4", "reply 4")
	// in-flight fallback; same id pending on both: current first, then in-flight
	g.script("fixed", "cur 0", "infl 1", "state 1 c", "rec 1 42", "reply 42", "reply 42")
	g.script("fixed", "cur 0", "infl 1", "rec 0 7", "rec 1 7", "reply 7", "reply 7", "reply 7")
	// state gate: login/handshake/status consume but do not write; closed; nil connection
	g.script("fixed", "cur 0", "state 0 l", "rec 0 5", "reply 5", "state 0 p", "reply 5")
	g.script("fixed", "cur 0", "state 0 h", "rec 0 5", "reply 5", "state 0 s", "rec 0 6", "reply 6")
	g.script("fixed", "cur 0", "rec 0 5", "closed 0 1", "reply 5", "closed 0 0", "reply 5", "rec 0 5", "reply 5")
	g.script("fixed", "cur 0", "rec 0 5", "conn 0 0", "reply 5", "conn 0 1", "reply 5")
	// a backend that is neither current nor in-flight never gets a reply
	g.script("fixed", "cur 0", "infl 1", "rec 2 9", "reply 9", "cur 2", "reply 9")
	// switch completes: in-flight becomes current (setConnectedServer clears in-flight)
	g.script("fixed", "cur 0", "infl 1", "rec 1 3", "cur 1", "reply 3", "rec 0 4", "reply 4")
	// LRU: exactly cap pending survive; the oldest of cap+1 is evicted and its reply dropped
	g.script("fixed", "cur 0", "burst 0 64 1000", "reply 1000", "burst 0 65 2000", "reply 2000", "reply 2001", "reply 2064")
	// re-recording an id refreshes it (moved to front) so it survives the next 63 new ids
	g.script("fixed", "cur 0", "rec 0 1", "burst 0 63 100", "rec 0 1", "burst 0 63 200", "reply 1", "reply 100", "reply 262")
	// repeated id: one reply per request
	g.script("fixed", "cur 0", "rec 0 8", "rec 0 8", "reply 8", "reply 8", "rec 0 8", "reply 8")
	// direct entry points
	g.script("fixed", "cur 0", "rec 0 1", "consume 0 1", "consume 0 1", "reply 1", "rec 1 2", "send 1 2", "send 1 2", "sendnil 2")
	// extreme ids
	g.script("fixed", "cur 0", "rec 0 -9223372036854775808", "rec 0 9223372036854775807", "reply -9223372036854775808", "reply 9223372036854775807", "reply 0")
	// concurrent handling: many goroutines, one pending id → one forward; both backends → one each
	g.script("fixed", "cur 0", "rec 0 1", "race 8 1", "race 8 1")
	g.script("fixed", "cur 0", "infl 1", "rec 0 1", "rec 1 1", "rec 0 2", "rec 1 3", "race 6 1,2,3,4", "race 2 1,2,3")
	g.script("fixed", "cur 0", "infl 1", "burst 0 70 0", "burst 1 70 35", "race 5 0,5,6,35,40,69,70,104,105")
	// connection lifecycle: a disconnected connection whose read loop still delivers a keep-alive must not
	// make a LATER connection (the next newServerConnection) answerable for that id
	g.script("fixed", "cur 0", "rec 0 5", "disc 0", "rec 0 77", "new", "cur 4", "reply 77", "rec 4 9", "reply 9", "reply 5")
	g.script("fixed", "cur 0", "disc 1", "rec 1 8", "new", "infl 4", "state 4 c", "reply 8", "rec 4 8", "reply 8")
	g.script("fixed", "cur 0", "new", "infl 4", "rec 4 3", "disc 0", "rec 0 6", "cur 4", "new", "infl 5", "reply 6", "reply 3")
	// handlers queued up behind a held connection mutex: still one forward per pending id
	g.script("fixed", "cur 0", "rec 0 1", "racelocked 4 1", "racelocked 4 1")
	g.script("fixed", "cur 0", "infl 1", "rec 0 1", "rec 1 1", "rec 0 2", "rec 1 3", "racelocked 5 1,2,3,4")

	// ---- generated histories ----
	nseq := run.Scale(300, 3000)
	for i := 0; i < nseq; i++ {
		g.randomSeq(20+run.Rng.Intn(run.Scale(80, 200)), "random")
	}
	// connection lifecycles: switches and kicks with keep-alives still arriving from the old connection
	for i := 0; i < run.Scale(80, 800); i++ {
		g.lifecycleSeq("lifecycle")
	}
	// concurrency-heavy sequences
	for i := 0; i < run.Scale(60, 600); i++ {
		r := run.Rng
		g.do("race", "reset")
		g.do("race", "cur "+strconv.Itoa(r.Intn(2)))
		g.do("race", "infl "+strconv.Itoa(2+r.Intn(2)))
		for b := 0; b < nBackends; b++ {
			if r.Chance(1, 4) {
				g.do("race", fmt.Sprintf("state %d %s", b, hx.Pick(r, []string{"l", "c", "h"})))
			}
		}
		for round := 0; round < 4; round++ {
			var pool []int64
			for j := 0; j < 3+r.Intn(12); j++ {
				id := int64(r.Intn(12))
				pool = append(pool, id)
				g.do("race", fmt.Sprintf("rec %d %d", r.Intn(nBackends), id))
			}
			m := 1 + r.Intn(8)
			ids := make([]string, m)
			for j := range ids {
				ids[j] = strconv.FormatInt(int64(r.Intn(14)), 10)
			}
			op := "race"
			if r.Chance(1, 6) {
				op = "racelocked"
			}
			g.do("race", fmt.Sprintf("%s %d %s", op, 2+r.Intn(15), strings.Join(ids, ",")))
			_ = pool
		}
	}
	run.Finish()
}
