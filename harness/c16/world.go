// The scripted world of the C16 harness: one real Proxy (through the e2e rig), one fake client, N fake
// backends registered through the PUBLIC API as ServerInfo+ServerDialer objects whose behaviour is scripted per
// dial attempt (accept / refuse / kick in login, config, transition / close / encryption request / stall).
package main

import (
	"context"
	"errors"
	"fmt"
	"net"
	"runtime"
	"sort"
	"strings"
	"sync"
	"time"

	"github.com/robinbraemer/event"
	"go.minekube.com/common/minecraft/component"
	"go.minekube.com/gate/pkg/edition/java/config"
	"go.minekube.com/gate/pkg/edition/java/proto/packet"
	"go.minekube.com/gate/pkg/edition/java/proto/packet/chat"
	cfgpacket "go.minekube.com/gate/pkg/edition/java/proto/packet/config"
	"go.minekube.com/gate/pkg/edition/java/proto/state"
	"go.minekube.com/gate/pkg/edition/java/proto/state/states"
	"go.minekube.com/gate/pkg/edition/java/proto/version"
	"go.minekube.com/gate/pkg/edition/java/proxy"
	"go.minekube.com/gate/pkg/gate/proto"
	"go.minekube.com/gate/pkg/util/uuid"

	"verifharness/e2e"
)

const stepTimeout = 4 * time.Second

// ---------- one backend connection as seen from the backend ----------

type bconn struct {
	srv      *server
	ep       *e2e.Endpoint
	beh      string
	mu       sync.Mutex
	joined   bool          // JoinGame was sent on this connection
	closed   bool          // the proxy closed it (or we did)
	answered bool          // the backend has sent its decisive packet (JoinGame / Disconnect / …) or closed
	stalled  chan struct{} // closed when the script reached its stall point
	release  chan struct{} // closed to let a stalled script go on
}

// closed as soon as either side closed the in-memory pipe (no goroutine has to notice first)
func (c *bconn) isClosed() bool {
	c.mu.Lock()
	defer c.mu.Unlock()
	return c.closed || c.ep.Conn.Closed()
}
func (c *bconn) isJoined() bool { c.mu.Lock(); defer c.mu.Unlock(); return c.joined }
func (c *bconn) markClosed()    { c.mu.Lock(); c.closed = true; c.mu.Unlock() }

// answer: from now on the backend has decided this login attempt (called BEFORE the decisive packet is sent, so a
// request that was answered can never be seen as unanswered by a later dial).
func (c *bconn) answer() {
	c.mu.Lock()
	was := c.answered
	c.answered = true
	c.mu.Unlock()
	if !was {
		c.srv.w.mu.Lock()
		c.srv.w.unanswered--
		c.srv.w.mu.Unlock()
	}
}

// drain reads until the proxy closes the connection.
func (c *bconn) drain() {
	_ = c.ep.Pump(func(*proto.PacketContext) {})
	c.markClosed()
}

func kickPacket(p proto.Protocol, st states.State) *packet.Disconnect {
	return packet.NewDisconnect(&component.Text{Content: "kicked"}, p, st)
}

// run is the backend side of one connection; beh is one of
//
//	a   accept                      kl  Disconnect in login          el  close in login
//	kc  Disconnect in config (modern; legacy: same as kt)            kt  Disconnect after login success, before JoinGame
//	et  close before JoinGame       enc EncryptionRequest in login   s:<b> stall in login until released, then <b>
func (c *bconn) run(p proto.Protocol) {
	ep := c.ep
	defer c.drain()
	defer c.answer()
	if _, err := ep.Next(stepTimeout, e2e.IsType[*packet.Handshake]); err != nil {
		return
	}
	ep.SetProtocol(p)
	ep.SetState(state.Login)
	if _, err := ep.Next(stepTimeout, e2e.IsType[*packet.ServerLogin]); err != nil {
		return
	}
	beh := c.beh
	if strings.HasPrefix(beh, "s:") {
		close(c.stalled)
		<-c.release
		beh = beh[2:]
	}
	modern := p.GreaterEqual(version.Minecraft_1_20_2)
	switch beh {
	case "kl":
		c.answer()
		ep.Send(kickPacket(p, states.LoginState))
		return
	case "el":
		c.answer()
		ep.Conn.Close()
		return
	case "enc":
		c.answer()
		ep.Send(&packet.EncryptionRequest{ServerID: "", PublicKey: []byte{1, 2, 3}, VerifyToken: []byte{4, 5, 6, 7}})
		return
	}
	ep.Send(&packet.ServerLoginSuccess{UUID: uuid.OfflinePlayerUUID("backend"), Username: "Tester"})
	if modern {
		if _, err := ep.Next(stepTimeout, e2e.IsType[*packet.LoginAcknowledged]); err != nil {
			return
		}
		ep.SetState(state.Config)
		if beh == "kc" {
			c.answer()
			ep.Send(kickPacket(p, states.ConfigState))
			return
		}
		ep.Send(&cfgpacket.FinishedUpdate{})
		if _, err := ep.Next(stepTimeout, e2e.IsType[*cfgpacket.FinishedUpdate]); err != nil {
			return
		}
		// The proxy acknowledges the configuration from the CLIENT's read-loop goroutine and installs the backend's
		// transition handler a few statements later; a backend answering within that window has its JoinGame
		// dispatched to the stale config handler (forwarded, never handled: the request hangs).  A real backend is a
		// network round trip away; the in-memory one waits a moment.  (Outside C16's clauses; see the report.)
		time.Sleep(3 * time.Millisecond)
	}
	ep.SetState(state.Play)
	if beh == "late" {
		// logged in (and configured) promptly; now keep silent until released, then send JoinGame after all
		close(c.stalled)
		<-c.release
		beh = "a"
	}
	switch beh {
	case "kt", "kc":
		c.answer()
		ep.Send(kickPacket(p, states.PlayState))
		return
	case "et":
		c.answer()
		ep.Conn.Close()
		return
	}
	c.answer()
	c.mu.Lock()
	c.joined = true
	c.mu.Unlock()
	ep.Send(e2e.JoinGameFor(p, 1+len(c.srv.name)))
}

// ---------- a fake backend server: ServerInfo + ServerDialer ----------

type server struct {
	w      *world
	name   string
	mu     sync.Mutex
	script []string // behaviour of the n-th dial (default "a")
	dials  int
	conns  []*bconn
}

func (s *server) Name() string {
	s.w.mu.Lock()
	h := s.w.nameHook
	s.w.mu.Unlock()
	if h != nil {
		h(s)
	}
	return s.name
}
func (s *server) Addr() net.Addr { return &net.TCPAddr{IP: net.IPv4(10, 0, 0, 1), Port: 25565} }

func (s *server) Dial(ctx context.Context, _ proxy.Player) (net.Conn, error) {
	s.mu.Lock()
	beh := "a"
	if s.dials < len(s.script) {
		beh = s.script[s.dials]
	}
	s.dials++
	s.mu.Unlock()
	s.w.mu.Lock()
	closing := s.w.closing
	s.w.mu.Unlock()
	if closing || beh == "r" || beh == "s:r" {
		return nil, errors.New("connection refused")
	}
	a, b := e2e.Pipe(&net.TCPAddr{IP: net.IPv4(10, 0, 0, 9), Port: 40000}, s.Addr())
	c := &bconn{srv: s, ep: e2e.NewEndpoint(b, proto.ServerBound), beh: beh,
		stalled: make(chan struct{}), release: make(chan struct{})}
	s.mu.Lock()
	s.conns = append(s.conns, c)
	s.mu.Unlock()
	s.w.mu.Lock()
	s.w.unanswered++
	if n := s.w.liveUnanswered() + 1; n > s.w.maxUnanswered { // + this dial
		s.w.maxUnanswered = n
	}
	s.w.mu.Unlock()
	s.w.noteConn(c)
	go c.run(s.w.proto)
	return a, nil
}

// live returns the open connection on which JoinGame was sent (the newest), or nil.
func (s *server) live() *bconn {
	s.mu.Lock()
	defer s.mu.Unlock()
	for i := len(s.conns) - 1; i >= 0; i-- {
		if c := s.conns[i]; c.isJoined() && !c.isClosed() {
			return c
		}
	}
	return nil
}

// ---------- the world ----------

type world struct {
	proto   proto.Protocol
	rig     *e2e.Rig
	servers map[string]*server
	names   []string
	client  *e2e.Endpoint
	player  proxy.Player

	mu           sync.Mutex
	clientClosed bool
	closing      bool
	loginJoined  chan struct{}
	loginDone    chan struct{}
	requests     map[string]proxy.ConnectionRequest // request objects created early and connected later
	// login attempts the backends have not answered yet, and the maximum seen at a dial since the last resetMax:
	// the backend-side view of "attempts in flight at the same time"
	unanswered    int
	maxUnanswered int
	allConns      []*bconn
	newConn       chan *bconn
	nameHook      func(*server)
	preConnect    func(*proxy.ServerPreConnectEvent)
}

func (w *world) noteConn(c *bconn) {
	w.mu.Lock()
	w.allConns = append(w.allConns, c)
	w.mu.Unlock()
	select {
	case w.newConn <- c:
	default:
	}
}

func newWorld(p proto.Protocol, names []string, try []string, scripts map[string][]string) (*world, error) {
	w := &world{proto: p, servers: map[string]*server{}, names: names, newConn: make(chan *bconn, 64)}
	rig, err := e2e.NewRig(func(c *config.Config) {
		c.Try = try
		c.ConnectionTimeout = 20000 * 1e6 // never fires within a scenario
		c.ReadTimeout = 60000 * 1e6
	})
	if err != nil {
		return nil, err
	}
	w.rig = rig
	for _, n := range names {
		s := &server{w: w, name: n, script: scripts[n]}
		if _, err := rig.Proxy.Register(s); err != nil {
			return nil, err
		}
		w.servers[n] = s
	}
	event.Subscribe(rig.Proxy.Event(), 0, func(e *proxy.ServerPreConnectEvent) {
		w.mu.Lock()
		h := w.preConnect
		w.mu.Unlock()
		if h != nil {
			h(e)
		}
	})
	return w, nil
}

// login connects the fake client and performs the initial join (through the try list).  One pump goroutine plays
// the client's part from the first packet on: login, (1.20.2+) every configuration phase — also a re-configuration
// that a fallback during the initial join or a later switch starts — and play.
func (w *world) loginBegin() error {
	cl := w.rig.Connect(net.IPv4(1, 2, 3, 4))
	w.client = cl
	p := w.proto
	modern := p.GreaterEqual(version.Minecraft_1_20_2)
	cl.Send(&packet.Handshake{ProtocolVersion: int(p), ServerAddress: "example.com", Port: 25565, NextStatus: 2})
	cl.SetProtocol(p)
	cl.SetState(state.Login)
	cl.Send(&packet.ServerLogin{Username: "Tester", HolderID: uuid.OfflinePlayerUUID("Tester")})
	joined := make(chan struct{})
	var once sync.Once
	done := make(chan struct{})
	go func() {
		_ = cl.Pump(func(c *proto.PacketContext) {
			switch pk := c.Packet.(type) {
			case *packet.SetCompression:
				cl.SetCompression(pk.Threshold)
			case *packet.ServerLoginSuccess:
				if modern {
					cl.Send(&packet.LoginAcknowledged{})
					cl.SetState(state.Config)
				} else {
					cl.SetState(state.Play)
				}
			case *cfgpacket.StartUpdate:
				// play → config: acknowledge in the play state, then both directions are in config
				cl.Send(&cfgpacket.FinishedUpdate{})
				cl.SetState(state.Config)
			case *cfgpacket.FinishedUpdate:
				cl.Send(&cfgpacket.FinishedUpdate{})
				cl.SetState(state.Play)
			case *packet.JoinGame:
				once.Do(func() { close(joined) })
			}
		})
		w.mu.Lock()
		w.clientClosed = true
		w.mu.Unlock()
		close(done)
	}()
	w.loginJoined, w.loginDone = joined, done
	return nil
}

// loginWait waits for the end of the initial join started by loginBegin.
func (w *world) loginWait() error {
	select {
	case <-w.loginJoined:
	case <-w.loginDone:
		return errors.New("disconnected during the initial join")
	case <-time.After(20 * time.Second):
		w.client.Conn.Close()
		return errors.New("initial join timed out")
	}
	if !w.findPlayer() {
		return errors.New("player not registered")
	}
	return nil
}

// findPlayer looks the player up in the proxy's registry (it is registered before the initial connect starts).
func (w *world) findPlayer() bool {
	for i := 0; i < 400 && w.player == nil; i++ {
		if p := w.rig.Proxy.PlayerByName("Tester"); p != nil {
			w.player = p
			break
		}
		time.Sleep(5 * time.Millisecond)
	}
	return w.player != nil
}

func (w *world) login() error {
	if err := w.loginBegin(); err != nil {
		return err
	}
	return w.loginWait()
}

func statusName(r proxy.ConnectionResult, err error) string {
	if err != nil {
		return "err"
	}
	switch r.Status() {
	case proxy.SuccessConnectionStatus:
		return "ok"
	case proxy.AlreadyConnectedConnectionStatus:
		return "already"
	case proxy.InProgressConnectionStatus:
		return "inprogress"
	case proxy.CanceledConnectionStatus:
		return "canceled"
	case proxy.ServerDisconnectedConnectionStatus:
		return "disconnected"
	}
	return "other"
}

// createRequest only CREATES the request object (its previousServer snapshot is taken now) and keeps it.
func (w *world) createRequest(key, name string) bool {
	srv := w.rig.Proxy.Server(name)
	if srv == nil || w.player == nil {
		return false
	}
	if w.requests == nil {
		w.requests = map[string]proxy.ConnectionRequest{}
	}
	w.requests[key] = w.player.CreateConnectionRequest(srv)
	return true
}

// connectKept calls Connect on a request object created earlier.
func (w *world) connectKept(key string) string {
	req := w.requests[key]
	if req == nil {
		return "norequest"
	}
	delete(w.requests, key)
	ctx, cancel := context.WithTimeout(context.Background(), 15*time.Second)
	defer cancel()
	r, err := req.Connect(ctx)
	return statusName(r, err)
}

// connect issues player.CreateConnectionRequest(server).Connect(ctx) and classifies the result.
func (w *world) connect(name string) string {
	srv := w.rig.Proxy.Server(name)
	if srv == nil {
		return "noserver"
	}
	ctx, cancel := context.WithTimeout(context.Background(), 15*time.Second)
	defer cancel()
	r, err := w.player.CreateConnectionRequest(srv).Connect(ctx)
	return statusName(r, err)
}

func (w *world) connectIndication(name string) string {
	srv := w.rig.Proxy.Server(name)
	if srv == nil {
		return "noserver"
	}
	ctx, cancel := context.WithTimeout(context.Background(), 15*time.Second)
	defer cancel()
	if w.player.CreateConnectionRequest(srv).ConnectWithIndication(ctx) {
		return "true"
	}
	return "false"
}

type observation struct {
	cur   string
	lists []string
	open  []string
	pend  int
	act   bool
}

func (o observation) String() string {
	j := func(xs []string) string {
		if len(xs) == 0 {
			return "-"
		}
		return strings.Join(xs, ",")
	}
	act := 0
	if o.act {
		act = 1
	}
	return fmt.Sprintf("cur=%s lists=%s open=%s pend=%d act=%d", o.cur, j(o.lists), j(o.open), o.pend, act)
}

func (w *world) observeOnce() observation {
	o := observation{cur: "-"}
	if w.player != nil {
		if cs := w.player.CurrentServer(); cs != nil {
			o.cur = cs.Server().ServerInfo().Name()
		}
		for _, n := range w.names {
			rs := w.rig.Proxy.Server(n)
			if rs == nil {
				continue
			}
			found := false
			rs.Players().Range(func(p proxy.Player) bool {
				if p.ID() == w.player.ID() {
					found = true
				}
				return true
			})
			if found {
				o.lists = append(o.lists, n)
			}
		}
		o.act = w.player.Active()
	}
	w.mu.Lock()
	conns := append([]*bconn(nil), w.allConns...)
	w.mu.Unlock()
	for _, c := range conns {
		if c.isClosed() {
			continue
		}
		if c.isJoined() {
			o.open = append(o.open, c.srv.name)
		} else {
			o.pend++
		}
	}
	sort.Strings(o.open)
	sort.Strings(o.lists)
	return o
}

// observe waits for quiescence.  After a call that returned (Connect) the proxy has only asynchronous clean-up left:
// the observation must be unchanged over a short window.  After an op nobody waits for (kick, drop, login, quit) the
// kick/fallback path runs on the proxy's own goroutines: wait until the state has the shape of a finished switch
// (player gone, or on a server with matching list and backend, no unexplained pending connection) and is stable, or
// has been stable for a long window.  All waits are bounded.
func (w *world) observe(async bool) string {
	terminal := func(o observation) bool {
		if !o.act {
			return len(o.lists) == 0 && len(o.open) == 0 && o.pend == 0
		}
		return o.cur != "-" && len(o.lists) == 1 && o.lists[0] == o.cur && len(o.open) == 1 && o.open[0] == o.cur &&
			o.pend <= w.stalledCount()
	}
	lastO := w.observeOnce()
	last := lastO.String()
	same := 0
	const tick = 5 * time.Millisecond
	short, long := 8, 300
	for i := 0; i < 1200; i++ {
		time.Sleep(tick)
		o := w.observeOnce()
		cur := o.String()
		if cur == last {
			same++
		} else {
			same, last, lastO = 0, cur, o
		}
		if same >= short && (!async || terminal(lastO)) {
			break
		}
		if same >= long {
			break
		}
	}
	return last
}

// liveUnanswered: login attempts not yet answered by their backend on connections that are still open (w.mu held).
func (w *world) liveUnanswered() int {
	n := 0
	for _, c := range w.allConns {
		c.mu.Lock()
		if !c.answered && !c.closed && !c.ep.Conn.Closed() {
			n++
		}
		c.mu.Unlock()
	}
	return n
}

func (w *world) resetMax() {
	w.mu.Lock()
	w.maxUnanswered = w.liveUnanswered()
	w.mu.Unlock()
}

// connectWithEvent issues Connect(name) while a ServerPreConnectEvent subscriber redirects the request to server
// `to` (e.Allow(to)) or, with to == "", denies it.
func (w *world) connectWithEvent(name, to string) string {
	var target proxy.RegisteredServer
	if to != "" {
		if target = w.rig.Proxy.Server(to); target == nil {
			return "noserver"
		}
	}
	w.mu.Lock()
	w.preConnect = func(e *proxy.ServerPreConnectEvent) {
		if target != nil {
			e.Allow(target)
		} else {
			e.Deny()
		}
	}
	w.mu.Unlock()
	res := w.connect(name)
	w.mu.Lock()
	w.preConnect = nil
	w.mu.Unlock()
	return res
}

// connectDeadline issues Connect with a short deadline.
func (w *world) connectDeadline(name string, d time.Duration) string {
	srv := w.rig.Proxy.Server(name)
	if srv == nil {
		return "noserver"
	}
	ctx, cancel := context.WithTimeout(context.Background(), d)
	defer cancel()
	r, err := w.player.CreateConnectionRequest(srv).Connect(ctx)
	return statusName(r, err)
}

// waitReleased: after a release, every connection that was stalled has either been closed by the proxy or has sent
// its JoinGame (bounded wait) — so that a late JoinGame is observed if the proxy still handles it.
func (w *world) waitReleased() {
	w.mu.Lock()
	conns := append([]*bconn(nil), w.allConns...)
	w.mu.Unlock()
	for _, c := range conns {
		select {
		case <-c.stalled:
		default:
			continue
		}
		for i := 0; i < 400 && !c.isClosed() && !c.isJoined(); i++ {
			time.Sleep(5 * time.Millisecond)
		}
	}
}

func (w *world) maxSeen() int {
	w.mu.Lock()
	defer w.mu.Unlock()
	return w.maxUnanswered
}

// stalledCount: connections whose script is waiting at its stall point.
func (w *world) stalledCount() int {
	w.mu.Lock()
	defer w.mu.Unlock()
	n := 0
	for _, c := range w.allConns {
		select {
		case <-c.stalled:
			select {
			case <-c.release:
			default:
				if !c.isClosed() {
					n++
				}
			}
		default:
		}
	}
	return n
}

func (w *world) releaseAll() {
	w.mu.Lock()
	defer w.mu.Unlock()
	for _, c := range w.allConns {
		select {
		case <-c.release:
		default:
			close(c.release)
		}
	}
}

// race issues two Connect calls and holds each of them between checkServer and the publication of its in-flight
// connection (newServerConnection asks the ServerInfo for its name there) until both have arrived: the schedule in
// which two requests pass the check together, forced through the public API only.
func (w *world) race(a, b string) (string, string) {
	var mu sync.Mutex
	arrived := 0
	gate := make(chan struct{})
	w.setNameHook(func(*server) {
		pcs := make([]uintptr, 8)
		n := runtime.Callers(2, pcs)
		fr := runtime.CallersFrames(pcs[:n])
		for {
			f, more := fr.Next()
			if strings.HasSuffix(f.Function, ".newServerConnection") {
				mu.Lock()
				arrived++
				if arrived == 2 {
					close(gate)
				}
				wait := arrived <= 2
				mu.Unlock()
				if wait {
					select {
					case <-gate:
					case <-time.After(1500 * time.Millisecond):
					}
				}
				return
			}
			if !more {
				return
			}
		}
	})
	r1, r2 := make(chan string, 1), make(chan string, 1)
	go func() { r1 <- w.connect(a) }()
	go func() { r2 <- w.connect(b) }()
	x, y := <-r1, <-r2
	w.setNameHook(nil)
	return x, y
}

func (w *world) setNameHook(h func(*server)) {
	w.mu.Lock()
	w.nameHook = h
	w.mu.Unlock()
}

func (w *world) close() {
	w.mu.Lock()
	w.closing = true
	w.mu.Unlock()
	if w.client != nil {
		w.client.Conn.Close()
	}
	// let the proxy tear the player down before its backends disappear (no fallback storms in a dead world)
	for i := 0; i < 200 && w.player != nil && w.player.Active(); i++ {
		time.Sleep(5 * time.Millisecond)
	}
	w.releaseAll()
	w.mu.Lock()
	conns := append([]*bconn(nil), w.allConns...)
	w.mu.Unlock()
	for _, c := range conns {
		c.ep.Conn.Close()
	}
}

// kickInPlay makes the backend send a Disconnect on its live connection.
func (w *world) kickInPlay(name string) bool {
	c := w.servers[name].live()
	if c == nil {
		return false
	}
	c.ep.Send(&packet.Disconnect{Reason: chat.FromComponentProtocol(&component.Text{Content: "bye"}, w.proto)})
	return true
}

// dropInPlay makes the backend close its live connection without a Disconnect packet.
func (w *world) dropInPlay(name string) bool {
	c := w.servers[name].live()
	if c == nil {
		return false
	}
	c.ep.Conn.Close()
	return true
}
