package main

import (
	"fmt"
	"runtime"
	"sync"
	"time"
	"os"
	"strings"

	"go.minekube.com/gate/pkg/gate/proto"
)

func probe(p proto.Protocol, scripts map[string][]string, ops string) {
	names := []string{"s1", "s2", "s3"}
	w, err := newWorld(p, names, names, scripts)
	if err != nil {
		fmt.Println("setup", err)
		return
	}
	defer w.close()
	fmt.Printf("--- proto %d scripts %v\n", p, scripts)
	pending := map[string]chan string{}
	for _, op := range strings.Fields(ops) {
		f := strings.Split(op, ":")
		switch f[0] {
		case "login":
			err := w.login()
			fmt.Println(op, "=>", err, w.observe())
		case "req":
			fmt.Println(op, "=>", w.connect(f[1]), w.observe())
		case "ind":
			fmt.Println(op, "=>", w.connectIndication(f[1]), w.observe())
		case "start":
			ch := make(chan string, 1)
			pending[f[1]] = ch
			for len(w.newConn) > 0 {
				<-w.newConn
			}
			go func() { ch <- w.connect(f[2]) }()
			c := <-w.newConn
			<-c.stalled
			fmt.Println(op, "=> stalled", w.observe())
		case "release":
			w.mu.Lock()
			for _, c := range w.allConns {
				select {
				case <-c.release:
				default:
					close(c.release)
				}
			}
			w.mu.Unlock()
			fmt.Println(op, "=>", <-pending[f[1]], w.observe())
		case "race":
			// force both requests past checkServer before either publishes its in-flight connection
			var mu sync.Mutex
			arrived := 0
			gate := make(chan struct{})
			w.nameHook = func(*server) {
				pcs := make([]uintptr, 8)
				n := runtime.Callers(2, pcs)
				fr := runtime.CallersFrames(pcs[:n])
				for {
					f, more := fr.Next()
					if strings.HasSuffix(f.Function, ".newServerConnection") {
						mu.Lock()
						arrived++
						first := arrived == 1
						if arrived == 2 {
							close(gate)
						}
						mu.Unlock()
						if first || arrived <= 2 {
							select {
							case <-gate:
							case <-time.After(time.Second):
							}
						}
						return
					}
					if !more {
						return
					}
				}
			}
			r1, r2 := make(chan string, 1), make(chan string, 1)
			go func() { r1 <- w.connect(f[1]) }()
			go func() { r2 <- w.connect(f[2]) }()
			a, b := <-r1, <-r2
			w.nameHook = nil
			fmt.Println(op, "=>", a, b, w.observe())
		case "kick":
			fmt.Println(op, "=>", w.kickInPlay(f[1]), w.observe())
		case "drop":
			fmt.Println(op, "=>", w.dropInPlay(f[1]), w.observe())
		}
	}
}

func main() {
	if len(os.Args) > 1 && os.Args[1] == "probe" {
		for _, p := range []proto.Protocol{340, 767} {
			probe(p, nil, "login race:s2:s3")
			probe(p, nil, "login race:s2:s2")
			probe(p, map[string][]string{"s2": {"s:a"}}, "login start:A:s2 req:s3 req:s3 release:A")
			continue
			probe(p, nil, "login req:s2 req:s2 req:s1 req:s3")
			probe(p, map[string][]string{"s2": {"kl", "r", "el", "kt", "kc", "et", "enc", "a"}}, "login req:s2 req:s2 req:s2 req:s2 req:s2 req:s2 req:s2 req:s2 req:s2")
			probe(p, map[string][]string{"s2": {"s:a"}}, "login start:A:s2 req:s3 req:s3 release:A")
			probe(p, map[string][]string{"s2": {"s:a"}}, "login start:A:s2 kick:s1 release:A")
			probe(p, nil, "login kick:s1 drop:s2 req:s1")
			probe(p, map[string][]string{"s1": {"kl"}}, "login req:s1")
		}
		return
	}
}
