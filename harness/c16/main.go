// C16 correspondence harness: end to end through the real Proxy and its PUBLIC API only.
// One fake client, three fake backends (ServerInfo+ServerDialer) scripted per dial attempt; sequences of
// player.CreateConnectionRequest(server).Connect(ctx) — sequential, overlapping a stalled attempt, concurrent pairs,
// and pairs forced past checkServer together — interleaved with kicks / connection drops in play.  After every op
// the world is observed at quiescence (CurrentServer, RegisteredServer.Players, backend connection states,
// ConnectionResult statuses); the Lean driver accepts or rejects each observation as a trace of the model.
package main

import (
	"bytes"
	"fmt"
	"os"
	"os/exec"
	"path/filepath"
	"runtime"
	"strings"
	"sync"
	"time"

	"go.minekube.com/gate/pkg/gate/proto"

	"verifharness/hx"
)

type line struct{ class, op, impl string }

type scenario struct {
	id    int
	proto proto.Protocol
	try   []string
	rng   *hx.Rng
	fixed []string // fixed op list (regression scenarios); nil = generate online
	nops  int
	out   []line
}

func isModern(p proto.Protocol) bool { return p >= 764 }

func (sc *scenario) emit(class, op, impl string) {
	op = fmt.Sprintf("%s @%d.%d", op, sc.id, len(sc.out))
	sc.out = append(sc.out, line{fmt.Sprintf("%s/%s", class, map[bool]string{true: "modern", false: "legacy"}[isModern(sc.proto)]), op, impl})
}

type pendingReq struct{ ch chan string }

// run executes the scenario against a fresh world.
func (sc *scenario) run() {
	names := []string{"s1", "s2", "s3"}
	w, err := newWorld(sc.proto, names, sc.try, map[string][]string{})
	m := 0
	if isModern(sc.proto) {
		m = 1
	}
	sc.emit("reset", fmt.Sprintf("reset %d %d %s -", sc.proto, m, strings.Join(sc.try, ",")), map[bool]string{true: "ok", false: "setup-failed"}[err == nil])
	if err != nil {
		return
	}
	defer w.close()
	var pend []pendingReq
	var kept [][2]string // request objects created and not yet connected: key, server
	nextKey := 1
	lateStalled := false // a backend scripted `late` may be waiting for its release
	r := sc.rng
	alive := true
	loggedIn := false
	step := 0
	nextFixed := func() (string, bool) {
		if step < len(sc.fixed) {
			s := sc.fixed[step]
			step++
			return s, true
		}
		return "", false
	}
	others := func(cur string) []string {
		var o []string
		for _, n := range names {
			if n != cur {
				o = append(o, n)
			}
		}
		return o
	}
	behs := []string{"a", "a", "a", "r", "kl", "el", "kt", "et", "enc"}
	if isModern(sc.proto) {
		behs = append(behs, "kc", "kc")
	}
	for alive {
		var op string
		if sc.fixed != nil {
			var ok bool
			if op, ok = nextFixed(); !ok {
				break
			}
		} else {
			if step >= sc.nops {
				break
			}
			step++
			cur := "-"
			if loggedIn {
				if cs := w.player.CurrentServer(); cs != nil {
					cur = cs.Server().ServerInfo().Name()
				}
			}
			switch {
			case !loggedIn && step == 1 && r.Chance(1, 4):
				op = "script " + hx.Pick(r, names) + " " + hx.Pick(r, []string{"kl", "r", "el", "kt", "a.kl"})
			case !loggedIn && step == 1 && r.Chance(1, 3):
				// a request object created while the player has no server yet, connected later
				op = fmt.Sprintf("script %s s:a|loginstall|create %d %s|release", sc.try[0], nextKey, hx.Pick(r, others(sc.try[0])))
				nextKey++
			case !loggedIn:
				op = "login"
			case len(pend) == 0 && lateStalled:
				op = "release"
				if r.Chance(1, 3) {
					op = "req " + hx.Pick(r, names) + "|release"
				}
			case len(pend) == 0 && len(kept) == 0 && cur != "-" && r.Chance(1, 14):
				// a request with a short deadline to a backend that logs in promptly and answers JoinGame too late
				d := hx.Pick(r, others(cur))
				op = "script " + d + " late|tconn " + d
			case len(pend) == 0 && len(kept) > 0 && r.Chance(1, 3):
				k := kept[0]
				kept = kept[1:]
				op = "conn " + k[0] + " " + k[1]
			case len(kept) < 2 && r.Chance(1, 12):
				op = fmt.Sprintf("create %d %s", nextKey, hx.Pick(r, names))
				nextKey++
			case len(pend) > 0:
				switch r.Intn(6) {
				case 0, 1:
					op = "req " + hx.Pick(r, names)
				case 2:
					o := others(cur)
					op = "par " + hx.Pick(r, o) + " " + hx.Pick(r, names)
				case 3:
					if cur != "-" && r.Chance(1, 2) {
						op = hx.Pick(r, []string{"kick ", "drop "}) + cur
					} else {
						op = "req " + hx.Pick(r, names)
					}
				default:
					op = "release"
				}
			default:
				switch r.Intn(13) {
				case 12:
					// a ServerPreConnectEvent subscriber redirects the request (often onto the current server) or denies it
					switch r.Intn(4) {
					case 0:
						op = "edeny " + hx.Pick(r, names)
					case 1:
						op = "ereq " + hx.Pick(r, names) + " " + hx.Pick(r, names)
					default:
						if cur != "-" {
							op = "ereq " + hx.Pick(r, others(cur)) + " " + cur
						} else {
							op = "ereq " + hx.Pick(r, names) + " " + hx.Pick(r, names)
						}
					}
				case 0, 1, 2:
					op = "req " + hx.Pick(r, names)
				case 3, 4:
					d := hx.Pick(r, others(cur))
					b := hx.Pick(r, behs)
					n := 1 + r.Intn(2)
					bs := []string{b}
					for i := 1; i < n; i++ {
						bs = append(bs, hx.Pick(r, behs))
					}
					op = "script " + d + " " + strings.Join(bs, ".")
				case 5, 6:
					d := hx.Pick(r, others(cur))
					op = "script " + d + " s:" + hx.Pick(r, behs) + "|start " + d
				case 7:
					o := others(cur)
					op = "par " + o[0] + " " + o[1]
					if r.Bool() {
						op = "par " + o[1] + " " + hx.Pick(r, names)
					}
				case 8:
					o := others(cur)
					if cur != "-" {
						op = "race " + o[r.Intn(2)] + " " + o[r.Intn(2)]
					} else {
						op = "req " + hx.Pick(r, names)
					}
				case 9:
					if cur != "-" {
						op = "kick " + cur
					} else {
						op = "req " + hx.Pick(r, names)
					}
				case 10:
					if cur != "-" {
						op = "drop " + cur
					} else {
						op = "req " + hx.Pick(r, names)
					}
				default:
					if r.Chance(1, 4) {
						op = "quit"
					} else {
						op = "req " + hx.Pick(r, names)
					}
				}
			}
		}
		for _, one := range strings.Split(op, "|") {
			f := strings.Fields(one)
			var impl string
			w.resetMax()
			switch f[0] {
			case "script":
				s := w.servers[f[1]]
				s.mu.Lock()
				s.script = append(append([]string(nil), make([]string, s.dials)...), strings.Split(f[2], ".")...)
				s.mu.Unlock()
				impl = "ok"
			case "login":
				impl = hx.Guard(30*time.Second, func() string {
					if err := w.login(); err != nil {
						alive = false
						return "fail " + w.observe(true)
					}
					loggedIn = true
					return "ok " + w.observe(true)
				})
			case "loginstall":
				// start the initial join; the first backend stalls in login: the player exists but has no server yet
				impl = hx.Guard(30*time.Second, func() string {
					for len(w.newConn) > 0 {
						<-w.newConn
					}
					if err := w.loginBegin(); err != nil {
						alive = false
						return "fail " + w.observe(true)
					}
					ch := make(chan string, 1)
					go func() {
						if err := w.loginWait(); err != nil {
							ch <- "fail"
						} else {
							ch <- "ok"
						}
					}()
					for {
						select {
						case res := <-ch:
							loggedIn = res == "ok"
							alive = loggedIn
							return "returned:" + res + " " + w.observe(true)
						case c := <-w.newConn:
							select {
							case <-c.stalled:
								if !w.findPlayer() {
									alive = false
									return "noplayer " + w.observe(false)
								}
								loggedIn = true
								pend = append(pend, pendingReq{ch})
								return "stalled " + w.observe(false)
							case res := <-ch:
								loggedIn = res == "ok"
								alive = loggedIn
								return "returned:" + res + " " + w.observe(true)
							}
						}
					}
				})
			case "create":
				if w.createRequest(f[1], f[2]) {
					impl = "ok"
				} else {
					impl = "noplayer"
				}
				kept = append(kept, [2]string{f[1], f[2]})
			case "conn":
				impl = hx.Guard(30*time.Second, func() string { return w.connectKept(f[1]) + " " + w.observe(false) })
			case "ereq": // Connect(f[1]) redirected by a ServerPreConnectEvent subscriber to f[2]
				impl = hx.Guard(30*time.Second, func() string { return w.connectWithEvent(f[1], f[2]) + " " + w.observe(false) })
			case "edeny": // Connect(f[1]) denied by a ServerPreConnectEvent subscriber
				impl = hx.Guard(30*time.Second, func() string { return w.connectWithEvent(f[1], "") + " " + w.observe(false) })
			case "tconn":
				lateStalled = true
				impl = hx.Guard(30*time.Second, func() string {
					return w.connectDeadline(f[1], 1500*time.Millisecond) + " " + w.observe(false)
				})
			case "req":
				impl = hx.Guard(30*time.Second, func() string { return w.connect(f[1]) + " " + w.observe(false) })
			case "start":
				impl = hx.Guard(30*time.Second, func() string {
					for len(w.newConn) > 0 {
						<-w.newConn
					}
					ch := make(chan string, 1)
					go func() { ch <- w.connect(f[1]) }()
					for {
						select {
						case res := <-ch:
							return "returned:" + res + " " + w.observe(false)
						case c := <-w.newConn:
							select {
							case <-c.stalled:
								pend = append(pend, pendingReq{ch})
								return "stalled " + w.observe(false)
							case res := <-ch:
								return "returned:" + res + " " + w.observe(false)
							}
						}
					}
				})
			case "release":
				impl = hx.Guard(30*time.Second, func() string {
					w.releaseAll()
					var rs []string
					for _, p := range pend {
						rs = append(rs, <-p.ch)
					}
					pend = nil
					lateStalled = false
					w.waitReleased()
					if len(rs) == 0 {
						rs = []string{""}
					}
					return strings.Join(rs, ",") + " " + w.observe(false)
				})
			case "par":
				impl = hx.Guard(30*time.Second, func() string {
					r1, r2 := make(chan string, 1), make(chan string, 1)
					go func() { r1 <- w.connect(f[1]) }()
					go func() { r2 <- w.connect(f[2]) }()
					a, b := <-r1, <-r2
					return a + " " + b + " " + w.observe(false)
				})
			case "race":
				impl = hx.Guard(30*time.Second, func() string {
					a, b := w.race(f[1], f[2])
					return a + " " + b + " " + w.observe(false)
				})
			case "kick":
				impl = hx.Guard(30*time.Second, func() string {
					if !w.kickInPlay(f[1]) {
						return "nolive " + w.observe(true)
					}
					return w.observe(true)
				})
			case "drop":
				impl = hx.Guard(30*time.Second, func() string {
					if !w.dropInPlay(f[1]) {
						return "nolive " + w.observe(true)
					}
					return w.observe(true)
				})
			case "quit":
				impl = hx.Guard(30*time.Second, func() string {
					w.client.Conn.Close()
					alive = false
					return w.observe(true)
				})
			default:
				continue
			}
			if impl == "hang" || impl == "panic" {
				alive = false
			} else if f[0] != "script" && f[0] != "create" {
				impl += fmt.Sprintf(" mp=%d", w.maxSeen())
			}
			if strings.Contains(impl, "act=0") {
				alive = false
			}
			sc.emit(f[0], one, impl)
		}
	}
	// let outstanding requests finish so that nothing of this world lingers
	w.releaseAll()
}

func main() {
	run := hx.Start()
	r := run.Rng
	legacy := []proto.Protocol{47, 340}
	modern := []proto.Protocol{765, 767, 774}
	all := []string{"s1", "s2", "s3"}
	var scs []*scenario
	// ---- fixed regression scenarios (the witnesses of the two repaired defects and of the known finding) ----
	fixed := [][]string{
		// a request answered InProgress must not clear the in-flight slot of the stalled request
		{"login", "script s2 s:a|start s2", "req s3", "req s3", "req s1", "release", "req s2", "req s1"},
		// two requests held between check and publication: exactly one may proceed
		{"login", "race s2 s3", "req s1", "race s2 s2"},
		// kick from the current server while a switch is in flight (known finding): the redirect is a second attempt
		{"login", "script s2 s:a|start s2", "kick s1", "release"},
		// every backend fault once, then a healthy switch
		{"login", "script s2 kl.r.el.kt.et.enc.a", "req s2", "req s2", "req s2", "req s2", "req s2", "req s2", "req s2", "req s2", "req s1"},
		// fallback chain after a kick; exhausted list disconnects the player
		{"login", "kick s1", "drop s2", "script s2 r|script s3 kl", "kick s1"},
		// stalled attempt that fails after release; requests in between are no-ops
		{"login", "script s3 s:kl|start s3", "req s2", "par s2 s1", "release", "req s3"},
		// initial join falls back
		{"script s1 kl", "login", "req s1", "quit"},
	}
	for _, f := range fixed {
		for _, p := range []proto.Protocol{340, 767} {
			scs = append(scs, &scenario{proto: p, try: all, fixed: f, rng: hx.NewRng(1)})
		}
	}
	// a STALE request object: created while the player had no server (initial join stalled), connected after the
	// player joined s1 — the switch must still close s1 (the request's own snapshot says "no previous server")
	for _, p := range []proto.Protocol{47, 340, 765, 767} {
		scs = append(scs, &scenario{proto: p, try: all, rng: hx.NewRng(1),
			fixed: []string{"script s1 s:a", "loginstall", "create 1 s2", "create 2 s3", "release", "conn 1 s2", "req s1",
				"create 3 s1", "conn 2 s3", "conn 3 s1", "req s2"}})
	}
	// a request that TIMES OUT between the backend's login success and its JoinGame: the connection must be closed with
	// the failure report and the late JoinGame must not move the player
	for _, p := range []proto.Protocol{47, 340, 765, 767} {
		scs = append(scs, &scenario{proto: p, try: all, rng: hx.NewRng(1),
			fixed: []string{"login", "script s2 late", "tconn s2", "req s3", "release", "req s2", "req s1"}})
	}
	// a ServerPreConnectEvent subscriber redirects a request onto the player's CURRENT server: AlreadyConnected, no dial
	for _, p := range []proto.Protocol{47, 340, 765, 767} {
		scs = append(scs, &scenario{proto: p, try: all, rng: hx.NewRng(1),
			fixed: []string{"login", "ereq s2 s1", "ereq s2 s3", "ereq s1 s3", "edeny s2", "ereq s3 s2", "req s2",
				"script s3 s:a|start s3", "ereq s1 s2", "release"}})
	}
	// modern-only faults in the configuration phase
	for _, p := range modern {
		scs = append(scs, &scenario{proto: p, try: all, rng: hx.NewRng(1),
			fixed: []string{"login", "script s2 kc.a", "req s2", "req s2", "script s3 s:kc|start s3", "req s1", "release", "req s1"}})
	}
	n := run.Scale(180, 800)
	for i := 0; i < n; i++ {
		var p proto.Protocol
		if i%2 == 0 {
			p = hx.Pick(r, legacy)
		} else {
			p = hx.Pick(r, modern)
		}
		try := all
		switch r.Intn(4) {
		case 0:
			try = []string{"s2", "s1", "s3"}
		case 1:
			try = []string{"s1", "s3"}
		}
		scs = append(scs, &scenario{proto: p, try: try, rng: hx.NewRng(r.U64()), nops: 5 + r.Intn(6)})
	}
	par := 6
	if c := runtime.NumCPU(); c < par {
		par = c
	}
	sem := make(chan struct{}, par)
	var wg sync.WaitGroup
	for i, sc := range scs {
		sc.id = i
		wg.Add(1)
		sem <- struct{}{}
		go func() {
			defer wg.Done()
			defer func() { <-sem }()
			sc.run()
		}()
	}
	wg.Wait()
	// Pre-pass: ask the driver which lines its bounded interleaving search leaves undecided (it then echoes the
	// observation instead of claiming a disagreement); they are recorded under their own histogram class so that the
	// evidence says how much of the run was only judged by the executable spec, not accepted as a model trace.
	undecided, prepass := inconclusiveLines(scs, run.OutDir)
	k, incLines, incScen := 0, 0, 0
	for _, sc := range scs {
		hit := false
		for _, l := range sc.out {
			class := l.class
			if undecided[k] {
				class = "inconclusive/" + class
				incLines++
				hit = true
			}
			k++
			run.Case(class, l.op, l.impl)
		}
		if hit {
			incScen++
		}
	}
	run.Extra["scenarios"] = len(scs)
	run.Extra["inconclusive_prepass"] = prepass
	run.Extra["inconclusive_lines"] = incLines
	run.Extra["inconclusive_scenarios"] = incScen
	run.Finish()
}

// inconclusiveLines runs the Lean driver once over the buffered cases in marking mode and returns the indices of the
// lines it could not decide; the second result says whether the pre-pass ran.
func inconclusiveLines(scs []*scenario, outDir string) (map[int]bool, string) {
	res := map[int]bool{}
	drv := os.Getenv("C16_DRIVER")
	if drv == "" {
		exe, err := os.Executable()
		if err != nil {
			return res, "skipped: " + err.Error()
		}
		root := filepath.Dir(filepath.Dir(filepath.Dir(exe))) // <root>/.work/bin/c16
		drv = filepath.Join(root, "lean", ".lake", "build", "bin", "driver_c16")
	}
	if _, err := os.Stat(drv); err != nil {
		return res, "skipped: driver not built"
	}
	var in bytes.Buffer
	for _, sc := range scs {
		for _, l := range sc.out {
			fmt.Fprintf(&in, "%s\t%s\n", l.op, l.impl)
		}
	}
	cmd := exec.Command(drv)
	cmd.Env = append(os.Environ(), "C16_MARK_INCONCLUSIVE=1")
	cmd.Stdin = &in
	out, err := cmd.Output()
	if err != nil {
		return res, "skipped: " + err.Error()
	}
	for i, ln := range strings.Split(strings.TrimRight(string(out), "\n"), "\n") {
		if strings.HasSuffix(ln, "\tinconclusive") {
			res[i] = true
		}
	}
	return res, "ok"
}
