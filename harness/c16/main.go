package main

import (
	"fmt"
	"os"
	"strings"

	"go.minekube.com/gate/pkg/gate/proto"
)

func probe(p proto.Protocol, scripts map[string][]string, ops string) {
	names := []string{"s1", "s2", "s3"}
	w, err := newWorld(p, names, names, scripts)
	if err != nil {
		fmt.Println("setup", err)
		return
	}
	defer w.close()
	fmt.Printf("--- proto %d scripts %v\n", p, scripts)
	pending := map[string]chan string{}
	for _, op := range strings.Fields(ops) {
		f := strings.Split(op, ":")
		switch f[0] {
		case "login":
			err := w.login()
			fmt.Println(op, "=>", err, w.observe())
		case "req":
			fmt.Println(op, "=>", w.connect(f[1]), w.observe())
		case "ind":
			fmt.Println(op, "=>", w.connectIndication(f[1]), w.observe())
		case "start":
			ch := make(chan string, 1)
			pending[f[1]] = ch
			go func() { ch <- w.connect(f[2]) }()
			c := <-w.newConn
			<-c.stalled
			fmt.Println(op, "=> stalled", w.observe())
		case "release":
			w.mu.Lock()
			for _, c := range w.allConns {
				select {
				case <-c.release:
				default:
					close(c.release)
				}
			}
			w.mu.Unlock()
			fmt.Println(op, "=>", <-pending[f[1]], w.observe())
		case "kick":
			fmt.Println(op, "=>", w.kickInPlay(f[1]), w.observe())
		case "drop":
			fmt.Println(op, "=>", w.dropInPlay(f[1]), w.observe())
		}
	}
}

func main() {
	if len(os.Args) > 1 && os.Args[1] == "probe" {
		for _, p := range []proto.Protocol{340, 767} {
			probe(p, nil, "login req:s2 req:s2 req:s1 req:s3")
			probe(p, map[string][]string{"s2": {"kl", "r", "el", "kt", "kc", "et", "enc", "a"}}, "login req:s2 req:s2 req:s2 req:s2 req:s2 req:s2 req:s2 req:s2 req:s2")
			probe(p, map[string][]string{"s2": {"s:a"}}, "login start:A:s2 req:s3 req:s3 release:A")
			probe(p, map[string][]string{"s2": {"s:a"}}, "login start:A:s2 kick:s1 release:A")
			probe(p, nil, "login kick:s1 drop:s2 req:s1")
			probe(p, map[string][]string{"s1": {"kl"}}, "login req:s1")
		}
		return
	}
}
