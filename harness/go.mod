module verifharness

go 1.26

require (
	go.minekube.com/common v0.4.0
	go.minekube.com/gate v0.0.0
)

require (
	github.com/Tnze/go-mc v1.20.2 // indirect
	github.com/francoispqt/gojay v1.2.13 // indirect
	github.com/google/uuid v1.6.0 // indirect
	github.com/lucasb-eyer/go-colorful v1.4.0 // indirect
)

replace go.minekube.com/gate => /repo
