// C37 correspondence harness: drives the real configuration validation
// ((*gate/config.Config).Validate → (*java/config.Config).Validate → lite/config.Config.Validate,
// validation.ValidHostPort / ValidServerName, netutil.Parse) and the YAML/JSON serialise-and-reload path
// (gate.decodeConfigStrict through the verif hook).  Line formats: see lean/GateModel/C37/Driver.lean.
package main

import (
	"encoding/json"
	"errors"
	"fmt"
	"math"
	"net"
	"net/netip"
	"sort"
	"strconv"
	"strings"
	"time"
	"unicode/utf8"

	jconfig "go.minekube.com/gate/pkg/edition/java/config"
	liteconfig "go.minekube.com/gate/pkg/edition/java/lite/config"
	"go.minekube.com/gate/pkg/gate"
	"go.minekube.com/gate/pkg/gate/config"
	"go.minekube.com/gate/pkg/util/configutil"
	"go.minekube.com/gate/pkg/util/netutil"
	"go.minekube.com/gate/pkg/util/validation"
	"gopkg.in/yaml.v3"

	"verifharness/hx"
)

var run *hx.Run

type quota struct {
	en         bool
	ops        string
	opsv       float32
	burst, max int
}
type route struct {
	hosts, backends []string
	strategy        string
}
type forced struct {
	host  string
	names []string
}
type cfgCase struct {
	healthEn             bool
	healthBind           string
	bind                 string
	qc, ql               quota
	trusted              []string
	lite                 bool
	routes               []route
	viaEn                bool
	viaMode, viaBind     string
	fwd                  string
	servers              [][2]string
	try                  []string
	forced               []forced
	lvl, thr             int
}

func h(s string) string { return hx.HexS(s) }
func b01(b bool) string {
	if b {
		return "1"
	}
	return "0"
}
func hexList(xs []string) string {
	if len(xs) == 0 {
		return "_"
	}
	out := make([]string, len(xs))
	for i, x := range xs {
		out[i] = h(x)
	}
	return strings.Join(out, ",")
}
func joinOr(xs []string, sep string) string {
	if len(xs) == 0 {
		return "_"
	}
	return strings.Join(xs, sep)
}

// validNet: the documented meaning of a trusted-proxy entry (an IP address or a CIDR block, surrounding
// blanks ignored, IPv4-mapped IPv6 forms refused), computed with the standard library only.
func validNet(e string) bool {
	e = strings.TrimSpace(e)
	if strings.Contains(e, "/") {
		p, err := netip.ParsePrefix(e)
		return err == nil && !p.Addr().Is4In6()
	}
	a, err := netip.ParseAddr(e)
	return err == nil && !a.Is4In6()
}

func (q quota) tok() string {
	return fmt.Sprintf("%s,%s,%d,%d", b01(q.en), q.ops, q.burst, q.max)
}

func (c *cfgCase) tokens() string {
	defaultsValid := true
	for _, d := range jconfig.DefaultProxyProtocolTrustedProxies() {
		defaultsValid = defaultsValid && validNet(d)
	}
	var tp []string
	for _, e := range c.trusted {
		tp = append(tp, h(e)+":"+b01(validNet(e)))
	}
	var rs []string
	for _, r := range c.routes {
		rs = append(rs, hexList(r.hosts)+"/"+hexList(r.backends)+"/"+h(r.strategy))
	}
	var sv []string
	for _, s := range c.servers {
		sv = append(sv, h(s[0])+":"+h(s[1]))
	}
	var fh []string
	for _, f := range c.forced {
		fh = append(fh, h(f.host)+":"+hexList(f.names))
	}
	return strings.Join([]string{
		"h=" + b01(c.healthEn) + "," + h(c.healthBind), "bind=" + h(c.bind), "qc=" + c.qc.tok(), "ql=" + c.ql.tok(),
		"tp=" + b01(defaultsValid) + "|" + joinOr(tp, ";"), "lite=" + b01(c.lite), "routes=" + joinOr(rs, ";"),
		"via=" + b01(c.viaEn) + "," + h(c.viaMode) + "," + h(c.viaBind), "fwd=" + h(c.fwd),
		"servers=" + joinOr(sv, ";"), "try=" + hexList(c.try), "forced=" + joinOr(fh, ";"),
		"lvl=" + strconv.Itoa(c.lvl), "thr=" + strconv.Itoa(c.thr),
	}, " ")
}

func (c *cfgCase) config() *config.Config {
	g := config.DefaultConfig
	g.HealthService.Enabled, g.HealthService.Bind = c.healthEn, c.healthBind
	j := &g.Config
	j.Bind = c.bind
	j.Quota.Connections = jconfig.QuotaSettings{Enabled: c.qc.en, OPS: c.qc.opsv, Burst: c.qc.burst, MaxEntries: c.qc.max}
	j.Quota.Logins = jconfig.QuotaSettings{Enabled: c.ql.en, OPS: c.ql.opsv, Burst: c.ql.burst, MaxEntries: c.ql.max}
	j.ProxyProtocolTrustedProxies = append([]string(nil), c.trusted...)
	j.Lite.Enabled = c.lite
	j.Lite.Routes = nil
	for _, r := range c.routes {
		j.Lite.Routes = append(j.Lite.Routes, liteconfig.Route{
			Host: configutil.SingleOrMulti[string](append([]string(nil), r.hosts...)), Backend: configutil.SingleOrMulti[string](append([]string(nil), r.backends...)),
			Strategy: liteconfig.Strategy(r.strategy)})
	}
	j.Via.Enabled, j.Via.Mode, j.Via.Bind = c.viaEn, c.viaMode, c.viaBind
	j.Forwarding.Mode = jconfig.ForwardingMode(c.fwd)
	j.Servers = map[string]string{}
	for _, s := range c.servers {
		j.Servers[s[0]] = s[1]
	}
	j.Try = append([]string(nil), c.try...)
	j.ForcedHosts = map[string][]string{}
	for _, f := range c.forced {
		j.ForcedHosts[f.host] = append([]string(nil), f.names...)
	}
	j.Compression.Level, j.Compression.Threshold = c.lvl, c.thr
	return &g
}

// quoted extracts the n-th %q-quoted argument of a message.
func quoted(msg string, n int) string {
	rest := msg
	for {
		i := strings.IndexByte(rest, '"')
		if i < 0 {
			return "?"
		}
		q, err := strconv.QuotedPrefix(rest[i:])
		if err != nil {
			return "?"
		}
		if n == 0 {
			s, _ := strconv.Unquote(q)
			return s
		}
		n--
		rest = rest[i+len(q):]
	}
}

func kind(err error) string {
	m := strings.TrimPrefix(err.Error(), "java: ")
	var i, b int
	switch {
	case strings.HasPrefix(m, "Invalid health probe bind"):
		return "health-bind"
	case strings.HasPrefix(m, "Bind is empty"):
		return "bind-empty"
	case strings.HasPrefix(m, "Invalid bind"):
		return "bind-invalid"
	case strings.HasPrefix(m, "Invalid quota ops"):
		return "quota-ops"
	case strings.HasPrefix(m, "Invalid quota burst"):
		return "quota-burst"
	case strings.HasPrefix(m, "Invalid quota max entries"):
		return "quota-max"
	case strings.HasPrefix(m, "Invalid proxyProtocolTrustedProxies"):
		return "trusted"
	case strings.HasPrefix(m, "No routes configured"):
		return "lite-noroutes"
	case strings.HasPrefix(m, "Unknown via mode"):
		return "via-mode"
	case strings.HasPrefix(m, "Invalid via bind"):
		return "via-bind"
	case strings.HasPrefix(m, "Unknown forwarding mode"):
		return "fwd-mode"
	case strings.HasPrefix(m, "Invalid server name format"):
		return "server-name:" + h(quoted(m, 0))
	case strings.HasPrefix(m, "Invalid address"):
		return "server-addr:" + h(quoted(m, 1))
	case strings.HasPrefix(m, "Fallback/try server"):
		return "try:" + h(quoted(m, 0))
	case strings.HasPrefix(m, "Forced host"):
		return "forced:" + h(quoted(m, 0)) + ":" + h(quoted(m, 1))
	case strings.HasPrefix(m, "Unsupported compression level"):
		return "comp-level"
	case strings.HasPrefix(m, "Invalid compression threshold"):
		return "comp-threshold"
	}
	if n, _ := fmt.Sscanf(m, "Route %d: backend %d: failed to parse address", &i, &b); n == 2 {
		return fmt.Sprintf("lite-addr:%d:%d", i, b)
	}
	if n, _ := fmt.Sscanf(m, "Route %d:", &i); n == 1 {
		switch {
		case strings.Contains(m, "no host configured"):
			return fmt.Sprintf("lite-nohost:%d", i)
		case strings.Contains(m, "no backend configured"):
			return fmt.Sprintf("lite-nobackend:%d", i)
		case strings.Contains(m, "invalid strategy"):
			return fmt.Sprintf("lite-strategy:%d", i)
		}
	}
	return "other-" + strings.Map(func(r rune) rune {
		if r == ' ' || r == ',' || r == ':' || r == '\t' {
			return '_'
		}
		return r
	}, m[:min(len(m), 30)])
}

func validateOut(g *config.Config) string {
	return hx.Guard(20*time.Second, func() string {
		_, errs := g.Validate()
		if len(errs) == 0 {
			return "ok"
		}
		ks := make([]string, len(errs))
		for i, e := range errs {
			ks[i] = kind(e)
		}
		sort.Strings(ks)
		return strings.Join(ks, ",")
	})
}

// stringsOf lists every string the case puts into the configuration.
func (c *cfgCase) stringsOf() []string {
	out := []string{c.healthBind, c.bind, c.viaMode, c.viaBind, c.fwd}
	out = append(out, c.trusted...)
	out = append(out, c.try...)
	for _, r := range c.routes {
		out = append(out, r.strategy)
		out = append(out, r.hosts...)
		out = append(out, r.backends...)
	}
	for _, s := range c.servers {
		out = append(out, s[0], s[1])
	}
	for _, f := range c.forced {
		out = append(out, f.host)
		out = append(out, f.names...)
	}
	return out
}

// yamlLibCannotReread: yaml.v3 itself cannot parse what it printed for one of the strings
// (e.g. "\t192.168.0.1\n" is emitted as a literal block scalar starting with a tab).
func yamlLibCannotReread(ss []string) bool {
	for _, s := range ss {
		b, err := yaml.Marshal([]string{s})
		var back []string
		if err != nil || yaml.Unmarshal(b, &back) != nil || len(back) != 1 || back[0] != s {
			return true
		}
	}
	return false
}

func withoutComponents(g *config.Config) *config.Config {
	c := *g
	c.Config.Status.Motd = nil
	c.Config.ShutdownReason = nil
	return &c
}

// roundTrip: YAML and JSON serialise-and-reload of an accepted configuration.  Text components (motd,
// shutdownReason) are left out of the JSON→YAML cross comparison: their YAML form is not a function of
// their JSON form (legacy colour codes are re-normalised), which is outside this property.
func roundTrip(g *config.Config, ss []string) string {
	return hx.Guard(20*time.Second, func() string {
		for _, q := range []*jconfig.QuotaSettings{&g.Config.Quota.Connections, &g.Config.Quota.Logins} {
			if q.OPS == 0 {
				q.OPS = 0 // -0.0 and +0.0 are the same number; YAML prints them differently
			}
		}
		y1, err := yaml.Marshal(g)
		if err != nil {
			return "diff:yaml-marshal"
		}
		var g2 config.Config
		if err := gate.C37DecodeConfigStrict(y1, ".yaml", &g2); err != nil {
			if yamlLibCannotReread(ss) {
				return "diff:yaml-lib-string-not-rereadable"
			}
			return "diff:yaml-reload-rejected"
		}
		y2, err := yaml.Marshal(&g2)
		if err != nil || string(y1) != string(y2) {
			if yamlLibCannotReread(ss) {
				return "diff:yaml-lib-string-not-rereadable"
			}
			return "diff:yaml-changed"
		}
		if _, errs := g2.Validate(); len(errs) != 0 {
			return "diff:yaml-reload-invalid"
		}
		j1, err := json.Marshal(g)
		if err != nil {
			for _, q := range []jconfig.QuotaSettings{g.Config.Quota.Connections, g.Config.Quota.Logins} {
				if f := float64(q.OPS); math.IsNaN(f) || math.IsInf(f, 0) {
					return "diff:json-marshal-nonfinite-ops"
				}
			}
			return "diff:json-marshal"
		}
		var g3 config.Config
		if err := gate.C37DecodeConfigStrict(j1, ".json", &g3); err != nil {
			return "diff:json-reload-rejected"
		}
		j3, err := json.Marshal(&g3)
		if err != nil || string(j1) != string(j3) {
			return "diff:json-changed"
		}
		y1c, _ := yaml.Marshal(withoutComponents(g))
		y3c, err := yaml.Marshal(withoutComponents(&g3))
		if err != nil || string(y3c) != string(y1c) {
			return "diff:json-lost-fields"
		}
		if _, errs := g3.Validate(); len(errs) != 0 {
			return "diff:json-reload-invalid"
		}
		return "same"
	})
}

func valCase(class string, c *cfgCase) {
	toks := c.tokens()
	out := validateOut(c.config())
	run.Case(class, "val "+toks, out)
	if out == "ok" {
		ss := c.stringsOf()
		for _, x := range ss {
			if !utf8.ValidString(x) {
				return // not reachable from a YAML/JSON file: both formats are UTF-8 text
			}
		}
		run.Case("rt-"+class, "rt "+toks, roundTrip(c.config(), ss))
	}
}

// ---------- tables ----------

var hostPorts = []string{
	"0.0.0.0:25565", "localhost:25565", ":25565", "host:", ":", "", "nocolon", "a:b:c", "[::1]:25565", "[::1]", "[::1]:",
	"[::1]x:1", "[::1]:1:2", "[a]b]:1", "::1:25565", "[:1", "a[b:1", "a]b:1", "[]:1", "[[::1]]:1", "[::1]]:1", "host:p[rt",
	"[x]:a]b", " : ", "\t", " ", " ", " 　 ", " :1", "host:99999", "host:-1", "host:+5", "host:1_000",
	"host:9223372036854775807", "host:9223372036854775808", "host:-9223372036854775808", "host:-9223372036854775809",
	"host:0x10", "host:１", "host:123456789012345678", "host:1234567890123456789", "host:12345678901234567890",
	"$1.example.com:25565", "$1:$2", "host:$1", "a$b:1", "[$1", "a]$2", "$", "$x]", "[::1]:$", "host:+", "host:-", "[", "]", "[]", "[]:",
	"[:]:", "[a:b]:c", "x[::1]:1", "[::1]:[", "\xff:1", "\xc2\xa0", "\xe2\x80", "\xe2\x80\xa8\xe2\x80\xa9", "\xe1\x9a\x80", "\xe2\x81\x9f\t",
}
var names = []string{
	"", "a", "A", "0", "lobby", "a-b", "a_b", "a.b", "-a", "a-", ".a", "a.", "_", "-", "a b", "ä", "a\n", "\na", "aäb", "Z9", "a--b", "a..b",
	strings.Repeat("a", 62), strings.Repeat("a", 63), strings.Repeat("a", 64), strings.Repeat("a", 62) + "-", "a" + strings.Repeat("-", 61) + "a",
	"a" + strings.Repeat("_", 62) + "a", "a\x00b", "a/b", "a:b", "É", "a\xffb",
}
var levels = []int{-3, -2, -1, 0, 1, 5, 8, 9, 10, 11, 100, math.MaxInt32, math.MinInt32, math.MaxInt64, math.MinInt64}
var thresholds = []int{-3, -2, -1, 0, 1, 255, 256, 257, 1 << 21, math.MaxInt64, math.MinInt64}
var counts = []int{-2, -1, 0, 1, 2, 10, 1000, math.MaxInt64, math.MinInt64}
var strategies = []string{"", "sequential", "random", "round-robin", "least-connections", "lowest-latency", "Random", "random ", "round_robin", "x", "roundrobin"}
var fwdModes = []string{"none", "legacy", "velocity", "bungeeguard", "", "Legacy", "none ", "bungee", "velocity2", "NONE"}
var viaModes = []string{"", "embedded", "subprocess", "Embedded", "x", " "}
var trusted = []string{
	"127.0.0.0/8", "::1/128", "10.1.2.3", " 2001:db8::1 ", "fc00::/7", "", " ", "not-an-ip", "10.0.0.0/33", "10.0.0.0/", "10.0.0.256",
	"::ffff:10.0.0.0/104", "::ffff:10.0.0.1", "0.0.0.0/0", "::/0", "fe80::1%eth0", "fe80::/10%eth0", "1.2.3.4/032", "01.2.3.4", "/8", "1.2.3.4/8/9",
	"\t192.168.0.1\n", "2001:db8::/129", "1.2.3", "::", "1.2.3.4 /8",
}
var opsTable = []struct {
	class string
	v     float32
}{
	{"neg", -1}, {"neg", -0.5}, {"neg", float32(math.Inf(-1))}, {"neg", -math.SmallestNonzeroFloat32}, {"zero", 0}, {"zero", float32(math.Copysign(0, -1))},
	{"pos", 0.4}, {"pos", 5}, {"pos", math.SmallestNonzeroFloat32}, {"pos", math.MaxFloat32}, {"pos", 1}, {"nan", float32(math.NaN())}, {"inf", float32(math.Inf(1))},
}
var liteHosts = []string{"*.example.com", "a.example.com", "", "?", "*", "a b", "\\*x"}

func base() *cfgCase {
	return &cfgCase{
		healthBind: "0.0.0.0:9090", bind: "0.0.0.0:25565",
		qc:      quota{true, "pos", 5, 10, 1000},
		ql:      quota{true, "pos", 0.4, 3, 1000},
		routes:  []route{{[]string{"*.example.com"}, []string{"b1.example.com:25565"}, ""}},
		viaMode: "", fwd: "legacy",
		servers: [][2]string{{"lobby", "localhost:25566"}, {"hub", "10.0.0.2:25565"}},
		try:     []string{"lobby"},
		forced:  []forced{{"play.example.com", []string{"hub"}}},
		lvl:     -1, thr: 256,
	}
}

func genQuota(r *hx.Rng) quota {
	o := hx.Pick(r, opsTable)
	return quota{r.Chance(4, 5), o.class, o.v, hx.Pick(r, counts), hx.Pick(r, counts)}
}

func pickN[T any](r *hx.Rng, xs []T, max int) []T {
	n := r.Intn(max + 1)
	out := make([]T, 0, n)
	for i := 0; i < n; i++ {
		out = append(out, hx.Pick(r, xs))
	}
	return out
}

func genRoute(r *hx.Rng) route {
	return route{pickN(r, liteHosts, 3), pickN(r, hostPorts, 3), hx.Pick(r, strategies)}
}

func uniqueServers(r *hx.Rng, n int) [][2]string {
	seen := map[string]bool{}
	var out [][2]string
	for i := 0; i < n; i++ {
		nm := hx.Pick(r, names)
		if seen[nm] {
			continue
		}
		seen[nm] = true
		out = append(out, [2]string{nm, hx.Pick(r, hostPorts)})
	}
	return out
}

func refNames(r *hx.Rng, c *cfgCase, max int) []string {
	n := r.Intn(max + 1)
	var out []string
	for i := 0; i < n; i++ {
		if len(c.servers) > 0 && r.Chance(2, 3) {
			out = append(out, hx.Pick(r, c.servers)[0])
		} else {
			out = append(out, hx.Pick(r, names))
		}
	}
	return out
}

var mutators = []func(r *hx.Rng, c *cfgCase){
	func(r *hx.Rng, c *cfgCase) { c.bind = hx.Pick(r, hostPorts) },
	func(r *hx.Rng, c *cfgCase) { c.healthEn = true; c.healthBind = hx.Pick(r, hostPorts) },
	func(r *hx.Rng, c *cfgCase) { c.healthEn = r.Bool(); c.healthBind = hx.Pick(r, hostPorts) },
	func(r *hx.Rng, c *cfgCase) { c.qc = genQuota(r) },
	func(r *hx.Rng, c *cfgCase) { c.ql = genQuota(r) },
	func(r *hx.Rng, c *cfgCase) { c.qc.burst = hx.Pick(r, counts) },
	func(r *hx.Rng, c *cfgCase) { c.ql.max = hx.Pick(r, counts) },
	func(r *hx.Rng, c *cfgCase) { o := hx.Pick(r, opsTable); c.qc.ops, c.qc.opsv = o.class, o.v },
	func(r *hx.Rng, c *cfgCase) { c.trusted = pickN(r, trusted, 4) },
	func(r *hx.Rng, c *cfgCase) { c.trusted = []string{hx.Pick(r, trusted)} },
	func(r *hx.Rng, c *cfgCase) { c.lite = true },
	func(r *hx.Rng, c *cfgCase) { c.lite = true; c.routes = nil },
	func(r *hx.Rng, c *cfgCase) {
		c.lite = true
		c.routes = nil
		for i := r.Intn(4); i > 0; i-- {
			c.routes = append(c.routes, genRoute(r))
		}
	},
	func(r *hx.Rng, c *cfgCase) {
		c.lite = true
		c.routes = append(c.routes, route{[]string{"h1", "h2"}, []string{"ok:1", hx.Pick(r, hostPorts)}, hx.Pick(r, strategies)})
	},
	func(r *hx.Rng, c *cfgCase) {
		c.lite = true
		if len(c.routes) > 0 {
			c.routes[0].strategy = hx.Pick(r, strategies)
		}
	},
	func(r *hx.Rng, c *cfgCase) { c.viaEn = true; c.viaMode = hx.Pick(r, viaModes); c.viaBind = hx.Pick(r, hostPorts) },
	func(r *hx.Rng, c *cfgCase) { c.viaEn = r.Bool(); c.viaMode = hx.Pick(r, viaModes) },
	func(r *hx.Rng, c *cfgCase) { c.fwd = hx.Pick(r, fwdModes) },
	func(r *hx.Rng, c *cfgCase) { c.servers = uniqueServers(r, r.Intn(5)) },
	func(r *hx.Rng, c *cfgCase) {
		for _, s := range c.servers {
			if s[0] == "extra" {
				return
			}
		}
		c.servers = append(c.servers, [2]string{"extra", hx.Pick(r, hostPorts)})
	},
	func(r *hx.Rng, c *cfgCase) {
		nm := hx.Pick(r, names)
		for _, s := range c.servers {
			if s[0] == nm {
				return
			}
		}
		c.servers = append(c.servers, [2]string{nm, "localhost:1"})
	},
	func(r *hx.Rng, c *cfgCase) { c.try = refNames(r, c, 3) },
	func(r *hx.Rng, c *cfgCase) { c.try = append(c.try, hx.Pick(r, names)) },
	func(r *hx.Rng, c *cfgCase) {
		c.forced = nil
		seen := map[string]bool{}
		for i := r.Intn(3); i > 0; i-- {
			hname := hx.Pick(r, []string{"play.example.com", "a", "", "B.example"})
			if !seen[hname] {
				seen[hname] = true
				c.forced = append(c.forced, forced{hname, refNames(r, c, 3)})
			}
		}
	},
	func(r *hx.Rng, c *cfgCase) { c.lvl = hx.Pick(r, levels) },
	func(r *hx.Rng, c *cfgCase) { c.thr = hx.Pick(r, thresholds) },
	func(r *hx.Rng, c *cfgCase) { c.lvl = -3 + r.Intn(15); c.thr = -3 + r.Intn(6) },
}

func splitClass(err error) string {
	var ae *net.AddrError
	if !errors.As(err, &ae) {
		return "other"
	}
	switch ae.Err {
	case "missing port in address":
		return "missing-port"
	case "too many colons in address":
		return "too-many-colons"
	case "missing ']' in address":
		return "missing-bracket"
	case "unexpected '[' in address":
		return "unexpected-open"
	case "unexpected ']' in address":
		return "unexpected-close"
	}
	return "other"
}

func atomCases(class, s string) {
	hp := hx.Guard(5*time.Second, func() string {
		host, port, err := net.SplitHostPort(s)
		verr := validation.ValidHostPort(s)
		if (err == nil) != (verr == nil) {
			return "inconsistent"
		}
		if err != nil {
			return "err " + splitClass(err)
		}
		return "ok " + h(host) + " " + h(port)
	})
	run.Case(class+"-hp", "hp "+h(s), hp)
	run.Case(class+"-name", "name "+h(s), hx.Guard(5*time.Second, func() string { return b01(validation.ValidServerName(s)) }))
	run.Case(class+"-addr", "addr "+h(s), hx.Guard(5*time.Second, func() string {
		_, err := netutil.Parse(s, "tcp")
		return b01(err == nil)
	}))
	run.Case(class+"-space", "space "+h(s), b01(strings.TrimSpace(s) == ""))
}

func randString(r *hx.Rng) string {
	alphabet := []string{":", "[", "]", "a", "Z", "0", "9", "-", "_", ".", " ", "\t", "$", "+", " ", " ", "é", "\xff", "1", "%"}
	n := r.Intn(8)
	var sb strings.Builder
	for i := 0; i < n; i++ {
		sb.WriteString(hx.Pick(r, alphabet))
	}
	return sb.String()
}

func main() {
	run = hx.Start()
	r := run.Rng

	// fixed first: the base config, then every table value at its own site
	valCase("fixed", base())
	lb := base()
	lb.lite = true
	valCase("fixed", lb)
	for _, s := range hostPorts {
		atomCases("table", s)
		c := base()
		c.bind = s
		valCase("bind", c)
		c = base()
		c.servers = append(c.servers, [2]string{"x", s})
		valCase("server-addr", c)
		c = base()
		c.lite = true
		c.routes[0].backends = []string{s}
		valCase("lite-addr", c)
		c = base()
		c.healthEn, c.healthBind = true, s
		valCase("health", c)
		c = base()
		c.viaEn, c.viaBind = true, s
		valCase("via", c)
	}
	for _, s := range names {
		atomCases("table", s)
		c := base()
		c.servers = append(c.servers, [2]string{s, "localhost:1"})
		valCase("server-name", c)
		c = base()
		c.try = append(c.try, s)
		valCase("try", c)
		c = base()
		c.forced = append(c.forced, forced{"f.example.com", []string{"lobby", s}})
		valCase("forced", c)
	}
	for _, l := range levels {
		c := base()
		c.lvl = l
		valCase("comp", c)
	}
	for _, t := range thresholds {
		c := base()
		c.thr = t
		valCase("comp", c)
	}
	for _, o := range opsTable {
		for _, n := range []int{-1, 0, 1, 2} {
			c := base()
			c.qc = quota{true, o.class, o.v, n, 1}
			valCase("quota", c)
			c = base()
			c.ql = quota{true, o.class, o.v, 1, n}
			valCase("quota", c)
			c = base()
			c.ql = quota{false, o.class, o.v, n, n}
			valCase("quota", c)
		}
	}
	for _, s := range strategies {
		c := base()
		c.lite = true
		c.routes[0].strategy = s
		valCase("lite-strategy", c)
	}
	for _, s := range fwdModes {
		c := base()
		c.fwd = s
		valCase("fwd", c)
		c = base()
		c.fwd, c.lite = s, true
		valCase("fwd-lite", c)
	}
	for _, s := range viaModes {
		c := base()
		c.viaEn, c.viaMode = true, s
		valCase("via", c)
		c = base()
		c.viaEn, c.viaMode = false, s
		valCase("via", c)
	}
	for _, s := range trusted {
		c := base()
		c.trusted = []string{s}
		valCase("trusted", c)
		c = base()
		c.trusted = []string{"10.0.0.0/8", s, "bogus"}
		valCase("trusted", c)
	}
	{ // lite shapes
		c := base()
		c.lite, c.routes = true, nil
		valCase("lite-shape", c)
		c = base()
		c.lite = true
		c.routes = []route{{nil, nil, ""}, {[]string{"a"}, nil, "x"}, {nil, []string{"[bad"}, ""}, {[]string{"a", "b", "c"}, []string{"[bad", "ok:1", "x]"}, "random"}}
		valCase("lite-shape", c)
		// full-proxy constraints broken while Lite is on: ignored
		c = base()
		c.lite = true
		c.fwd, c.lvl, c.thr, c.try = "bogus", 99, -9, []string{"ghost"}
		c.servers = [][2]string{{"-bad-", "nocolon"}}
		c.viaEn, c.viaMode = true, "bogus"
		valCase("lite-shape", c)
	}

	// generated: 0..3 constraint sites perturbed around the base
	n := run.Scale(3000, 30000)
	for i := 0; i < n; i++ {
		c := base()
		k := hx.Pick(r, []int{0, 1, 1, 1, 2, 2, 3, 4})
		for j := 0; j < k; j++ {
			hx.Pick(r, mutators)(r, c)
		}
		valCase("generated", c)
	}
	// everything random
	n = run.Scale(600, 6000)
	for i := 0; i < n; i++ {
		c := base()
		for _, m := range mutators {
			if r.Chance(2, 3) {
				m(r, c)
			}
		}
		if r.Bool() {
			c.lite = false
		}
		valCase("random", c)
	}
	// atoms on random strings
	n = run.Scale(1500, 15000)
	for i := 0; i < n; i++ {
		atomCases("random", randString(r))
	}
	run.Finish()
}
