// C09 correspondence harness: drives the real auth.Authenticator.GenerateServerID
// (and twosComplement through the verif hook) and records one case per line.
package main

import (
	"crypto/rsa"
	"crypto/sha1"
	"crypto/x509"
	"encoding/binary"
	"encoding/pem"
	"fmt"
	"sync"
	"time"

	"go.minekube.com/gate/pkg/edition/java/auth"

	"verifharness/hx"
)

func mustKey(p string) *rsa.PrivateKey {
	b, _ := pem.Decode([]byte(p))
	if b == nil {
		panic("bad pem")
	}
	k, err := x509.ParsePKCS1PrivateKey(b.Bytes)
	if err != nil {
		panic(err)
	}
	return k
}

// class describes the digest for the input-distribution histogram.
func class(d []byte) string {
	neg := d[0]&0x80 != 0
	mag := append([]byte(nil), d...)
	if neg { // magnitude, computed independently of gate
		c := 1
		for i := len(mag) - 1; i >= 0; i-- {
			v := int(^mag[i]) + c
			mag[i] = byte(v)
			c = v >> 8
		}
	}
	lz := 0
	for _, b := range mag {
		if b == 0 {
			lz += 2
			continue
		}
		if b < 16 {
			lz++
		}
		break
	}
	tz := 0
	for i := len(d) - 1; i >= 0 && d[i] == 0; i-- {
		tz++
	}
	s := "pos"
	if neg {
		s = "neg"
	}
	return fmt.Sprintf("sid/%s/leadzero%d/tailzero%d", s, min(lz, 4), min(tz, 2))
}

func main() {
	run := hx.Start()
	defer run.Finish()
	r := run.Rng

	var auths []auth.Authenticator
	for _, p := range []string{key1024PEM, key2048PEM} {
		a, err := auth.New(auth.Options{PrivateKey: mustKey(p)})
		if err != nil {
			panic(err)
		}
		auths = append(auths, a)
	}

	sid := func(a auth.Authenticator, secret []byte) {
		pub := a.PublicKey()
		h := sha1.New()
		h.Write(secret)
		h.Write(pub)
		cl := class(h.Sum(nil))
		out := hx.Guard(5*time.Second, func() string {
			s, err := a.GenerateServerID(append([]byte(nil), secret...))
			if err != nil {
				return "err"
			}
			return "id=" + s
		})
		run.Case(cl, "sid "+hx.Hex(secret)+" "+hx.Hex(pub), out)
	}
	tc := func(p []byte) {
		out := hx.Guard(5*time.Second, func() string {
			q := append([]byte(nil), p...)
			return hx.Hex(auth.C09TwosComplement(q))
		})
		cl := "tc/other"
		switch {
		case len(p) == 0:
			cl = "tc/empty"
		case allEq(p, 0):
			cl = "tc/zero"
		case p[len(p)-1] == 0:
			cl = "tc/carry"
		}
		run.Case(cl, "tc "+hx.Hex(p), out)
	}

	// ---- fixed regression cases first ----
	for _, a := range auths {
		for _, s := range []string{"", "Notch", "jeb_", "simon", "\x00", "0123456789abcdef"} {
			sid(a, []byte(s))
		}
	}
	for _, p := range [][]byte{{}, {0}, {0x80}, {0xff}, {0x01}, {0, 0}, {0x80, 0}, {0xff, 0xff}, {0x7f, 0xff}, {1, 0, 0}, {0xff, 0, 0},
		make([]byte, 20), append([]byte{0x80}, make([]byte, 19)...), append(make([]byte, 19), 1)} {
		tc(p)
	}

	// ---- crafted: search secrets whose digest hits the formatting corner cases ----
	type want struct {
		name string
		ok   func(d []byte) bool
		n    int
	}
	q := run.Scale(1, 4)
	wants := []want{
		{"lead00", func(d []byte) bool { return d[0] == 0 }, 40 * q},
		{"lead0000", func(d []byte) bool { return d[0] == 0 && d[1] == 0 }, 3 * q},
		{"lead0x", func(d []byte) bool { return d[0] != 0 && d[0] < 16 }, 40 * q},
		{"leadff", func(d []byte) bool { return d[0] == 0xff }, 40 * q},
		{"leadffff", func(d []byte) bool { return d[0] == 0xff && d[1] == 0xff }, 3 * q},
		{"leadfx", func(d []byte) bool { return d[0] >= 0xf0 && d[0] != 0xff }, 40 * q},
		{"lead80", func(d []byte) bool { return d[0] == 0x80 }, 20 * q},
		{"lead7f", func(d []byte) bool { return d[0] == 0x7f }, 20 * q},
		{"negtail00", func(d []byte) bool { return d[0] >= 0x80 && d[19] == 0 }, 40 * q},
		{"negtail0000", func(d []byte) bool { return d[0] >= 0x80 && d[19] == 0 && d[18] == 0 }, 3 * q},
		{"postail00", func(d []byte) bool { return d[0] < 0x80 && d[19] == 0 }, 20 * q},
		{"negtail01", func(d []byte) bool { return d[0] >= 0x80 && d[19] == 1 }, 10 * q},
		{"ffand00", func(d []byte) bool { return d[0] == 0xff && d[19] == 0 }, 2 * q},
	}
	found := make([]int, len(wants))
	for ai, a := range auths {
		pub := a.PublicKey()
		base := r.Bytes(8)
		remaining := 0
		for i := range wants {
			found[i] = 0
			remaining += wants[i].n
		}
		secret := make([]byte, 16)
		copy(secret, base)
		budget := run.Scale(600000, 3000000)
		for ctr := uint64(0); ctr < uint64(budget) && remaining > 0; ctr++ {
			binary.BigEndian.PutUint64(secret[8:], ctr)
			h := sha1.New()
			h.Write(secret)
			h.Write(pub)
			d := h.Sum(nil)
			for i := range wants {
				if found[i] < wants[i].n && wants[i].ok(d) {
					found[i]++
					remaining--
					sid(a, secret)
					break
				}
			}
		}
		run.Extra[fmt.Sprintf("crafted_missing_key%d", ai)] = remaining
	}

	// ---- random secrets, all lengths ----
	n := run.Scale(3000, 40000)
	for i := 0; i < n; i++ {
		a := auths[r.Intn(len(auths))]
		var ln int
		switch r.Intn(5) {
		case 0:
			ln = r.Intn(4)
		case 1:
			ln = hx.Pick(r, []int{15, 16, 17, 55, 56, 57, 63, 64, 65, 119, 120, 127, 128, 129})
		case 2:
			ln = r.Intn(300)
		default:
			ln = 16
		}
		sid(a, r.Bytes(ln))
	}

	// ---- concurrent probe: many logins at once, every one must get the id of ITS OWN secret ----
	// 16 goroutines call GenerateServerID in a tight loop, each on its own distinct secrets (worker index and
	// round counter are part of the secret), spread over both authenticators.  The expected id of every input is
	// pre-computed sequentially through the same entry point.  Emitted cases: the first and last round of every
	// worker (deterministic on correct code), every (input, concurrent result) that differs from the sequential
	// result (none on correct code: the verdict depends only on a result that is wrong for its input), and a
	// summary line with the number of such differences.
	{
		workers, rounds := 16, run.Scale(20000, 150000)
		mkSecret := func(w, i int) []byte {
			sec := make([]byte, 16)
			binary.BigEndian.PutUint32(sec, uint32(w))
			sec[4] = 0xC0
			binary.BigEndian.PutUint64(sec[8:], uint64(i))
			return sec
		}
		want := make([][]string, workers)
		for w := range want {
			want[w] = make([]string, rounds)
			a := auths[w%len(auths)]
			for i := range want[w] {
				s, err := a.GenerateServerID(mkSecret(w, i))
				if err != nil {
					s = "err"
				}
				want[w][i] = s
			}
		}
		type miss struct {
			w, i int
			got  string
		}
		var mu sync.Mutex
		var misses []miss
		total := 0
		first, last := make([]string, workers), make([]string, workers)
		start := make(chan struct{})
		var wg sync.WaitGroup
		for w := 0; w < workers; w++ {
			wg.Add(1)
			go func(w int) {
				defer wg.Done()
				defer func() { _ = recover() }()
				a := auths[w%len(auths)]
				var local []miss
				n := 0
				<-start
				for i := 0; i < rounds; i++ {
					got, err := a.GenerateServerID(mkSecret(w, i))
					if err != nil {
						got = "err"
					}
					if i == 0 {
						first[w] = got
					}
					if i == rounds-1 {
						last[w] = got
					}
					if got != want[w][i] {
						n++
						if len(local) < 4 {
							local = append(local, miss{w, i, got})
						}
					}
				}
				mu.Lock()
				misses = append(misses, local...)
				total += n
				mu.Unlock()
			}(w)
		}
		done := make(chan struct{})
		go func() { wg.Wait(); close(done) }()
		close(start)
		select {
		case <-done:
		case <-time.After(120 * time.Second):
			run.Case("csid/hang", fmt.Sprintf("csum %d %d", workers, rounds), "hang")
		}
		mu.Lock()
		emitted := map[[2]int]bool{}
		emit := func(cl string, w, i int, got string) {
			if emitted[[2]int{w, i}] {
				return
			}
			emitted[[2]int{w, i}] = true
			run.Case(cl, "csid "+hx.Hex(mkSecret(w, i))+" "+hx.Hex(auths[w%len(auths)].PublicKey()), "id="+got)
		}
		for _, m := range misses {
			emit("csid/mismatch", m.w, m.i, m.got)
		}
		for w := 0; w < workers; w++ {
			emit("csid/sample", w, 0, first[w])
			emit("csid/sample", w, rounds-1, last[w])
		}
		run.Case("csid/summary", fmt.Sprintf("csum %d %d", workers, rounds), fmt.Sprintf("mismatches=%d", total))
		mu.Unlock()
	}

	// ---- twosComplement on arbitrary byte strings (carry chains of every length) ----
	m := run.Scale(3000, 40000)
	for i := 0; i < m; i++ {
		ln := r.Intn(24)
		if r.Chance(1, 4) {
			ln = 20
		}
		p := r.Bytes(ln)
		switch r.Intn(4) {
		case 0: // trailing zeros: carry runs through k bytes
			k := r.Intn(ln + 1)
			for j := ln - k; j < ln; j++ {
				p[j] = 0
			}
		case 1: // trailing 0xff / 0x01 patterns
			k := r.Intn(ln + 1)
			for j := ln - k; j < ln; j++ {
				p[j] = hx.Pick(r, []byte{0xff, 0x00, 0x01, 0x80})
			}
		}
		tc(p)
	}
}

func allEq(p []byte, v byte) bool {
	for _, b := range p {
		if b != v {
			return false
		}
	}
	return true
}
