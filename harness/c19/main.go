// C19 correspondence harness: runs the real serverConnection.startHandshake (through the verif constructor)
// over fake connections and observes Handshake.ServerAddress as buffered for the backend.
package main

import (
	"context"
	"errors"
	"fmt"
	"net"
	"strings"
	"time"

	"go.minekube.com/gate/pkg/edition/java/config"
	"go.minekube.com/gate/pkg/edition/java/netmc"
	"go.minekube.com/gate/pkg/edition/java/profile"
	"go.minekube.com/gate/pkg/edition/java/proto/packet"
	"go.minekube.com/gate/pkg/edition/java/proto/state"
	"go.minekube.com/gate/pkg/edition/java/proxy"
	"go.minekube.com/gate/pkg/edition/java/proxy/phase"
	"go.minekube.com/gate/pkg/gate/proto"
	"go.minekube.com/gate/pkg/util/netutil"
	"go.minekube.com/gate/pkg/util/uuid"

	"verifharness/hx"
)

// ---------- fake connection ----------

type fakeConn struct {
	ctx      context.Context
	cancel   context.CancelFunc
	protocol proto.Protocol
	remote   net.Addr
	connType phase.ConnectionType
	written  []proto.Packet
}

func newFakeConn(protocol proto.Protocol, remote net.Addr, t phase.ConnectionType) *fakeConn {
	ctx, cancel := context.WithCancel(context.Background())
	return &fakeConn{ctx: ctx, cancel: cancel, protocol: protocol, remote: remote, connType: t}
}

func (c *fakeConn) Context() context.Context                                      { return c.ctx }
func (c *fakeConn) Close() error                                                  { c.cancel(); return nil }
func (c *fakeConn) State() *state.Registry                                        { return state.Login }
func (c *fakeConn) Protocol() proto.Protocol                                      { return c.protocol }
func (c *fakeConn) RemoteAddr() net.Addr                                          { return c.remote }
func (c *fakeConn) LocalAddr() net.Addr                                           { return &net.TCPAddr{IP: net.IPv4(127, 0, 0, 1), Port: 25565} }
func (c *fakeConn) Type() phase.ConnectionType                                    { return c.connType }
func (c *fakeConn) SetType(t phase.ConnectionType)                                { c.connType = t }
func (c *fakeConn) ActiveSessionHandler() netmc.SessionHandler                    { return nil }
func (c *fakeConn) SetActiveSessionHandler(*state.Registry, netmc.SessionHandler) {}
func (c *fakeConn) SwitchSessionHandler(*state.Registry) bool                     { return false }
func (c *fakeConn) AddSessionHandler(*state.Registry, netmc.SessionHandler)       {}
func (c *fakeConn) SetAutoReading(bool)                                           {}
func (c *fakeConn) SetOutboundState(*state.Registry)                              {}
func (c *fakeConn) SetProtocol(p proto.Protocol)                                  { c.protocol = p }
func (c *fakeConn) SetState(*state.Registry)                                      {}
func (c *fakeConn) SetCompressionThreshold(int) error                             { return nil }
func (c *fakeConn) EnableEncryption([]byte) error                                 { return nil }
func (c *fakeConn) WritePacket(p proto.Packet) error                              { c.written = append(c.written, p); return nil }
func (c *fakeConn) Write([]byte) error                                            { return nil }
func (c *fakeConn) BufferPacket(p proto.Packet) error                             { c.written = append(c.written, p); return nil }
func (c *fakeConn) BufferPayload([]byte) error                                    { return nil }
func (c *fakeConn) Flush() error                                                  { return nil }
func (c *fakeConn) Reader() netmc.Reader                                          { return nil }
func (c *fakeConn) Writer() netmc.Writer                                          { return nil }
func (c *fakeConn) EnablePlayPacketQueue()                                        {}

var _ netmc.MinecraftConn = (*fakeConn)(nil)

// ---------- hooks ----------

// hookSpec is a tiny language for address hooks, interpreted identically by the Lean driver:
//
//	id | pre:<hex> | app:<hex> | const:<hex> | drop | err (second hook only)
type hookSpec struct {
	kind string
	arg  string
}

func (h hookSpec) String() string {
	switch h.kind {
	case "":
		return "-"
	case "id", "drop", "err":
		return h.kind
	}
	return h.kind + ":" + hx.HexS(h.arg)
}

func (h hookSpec) apply(v string) (string, error) {
	switch h.kind {
	case "id":
		return v, nil
	case "pre":
		return h.arg + v, nil
	case "app":
		return v + h.arg, nil
	case "const":
		return h.arg, nil
	case "drop": // a hook that forgets the host: keeps only what follows the first NUL
		if i := strings.IndexByte(v, 0); i >= 0 {
			return v[i+1:], nil
		}
		return "", nil
	case "err":
		return "", errors.New("addresser failed")
	}
	return v, nil
}

// serverInfoWithHook is a ServerInfo that also implements proxy.HandshakeAddresser.
type serverInfoWithHook struct {
	proxy.ServerInfo
	h hookSpec
}

func (s *serverInfoWithHook) HandshakeAddr(defaultPlayerVirtualHost string, _ proxy.Player) string {
	out, _ := s.h.apply(defaultPlayerVirtualHost)
	return out
}

type backendAddresser struct{ h hookSpec }

func (b *backendAddresser) BackendHandshakeAddr(def string, _ proxy.Player, _ proxy.RegisteredServer) (string, error) {
	return b.h.apply(def)
}

// ---------- one case ----------

type input struct {
	mode      string
	bgSecret  string
	server    net.Addr
	remote    net.Addr
	ipText    string // the player's IP as text, computed without gate's help
	id        uuid.UUID
	props     []profile.Property
	connType  phase.ConnectionType
	vhostAddr string
	hook1     hookSpec
	hook2     hookSpec
	reg       string // how the backend's ServerInfo reaches the connection: direct | plain (Proxy.Register) | via (Proxy.Register while Via routes it)
}

var connTypes = []phase.ConnectionType{phase.Undetermined, phase.Undetermined17, phase.Vanilla, phase.LegacyForge, phase.ModernForge}
var connTypeNames = map[phase.ConnectionType]string{phase.Undetermined: "undetermined", phase.Undetermined17: "undetermined17",
	phase.Vanilla: "vanilla", phase.LegacyForge: "legacyforge", phase.ModernForge: "modernforge"}

func showProps(ps []profile.Property) string {
	if len(ps) == 0 {
		return "_"
	}
	var sb []string
	for _, p := range ps {
		sb = append(sb, hx.HexS(p.Name)+","+hx.HexS(p.Value)+","+hx.HexS(p.Signature))
	}
	return strings.Join(sb, ";")
}

// namedInfo gives every registration its own name.
type namedInfo struct {
	proxy.ServerInfo
	name string
}

func (n *namedInfo) Name() string { return n.name }

var caseNo int

var (
	sharedCfg   = config.DefaultConfig
	sharedProxy *proxy.Proxy
	unsetHook2  func()
)

func runCase(run *hx.Run, class string, in input) {
	if sharedProxy == nil {
		var err error
		sharedProxy, err = proxy.New(proxy.Options{Config: &sharedCfg})
		if err != nil {
			panic(err)
		}
	}
	nilFlag := "0"
	if in.props == nil {
		nilFlag = "1"
	}
	if in.reg == "" {
		in.reg = "direct"
	}
	if _, _, err := net.SplitHostPort(in.server.String()); err != nil {
		in.reg = "direct" // Proxy.Register refuses such an address
	}
	caseNo++
	op := fmt.Sprintf("addr %s %s %s %s %s %s %s %s %s %s %s %s %s", in.mode, hx.HexS(in.bgSecret), hx.HexS(in.server.String()),
		hx.HexS(in.remote.String()), hx.HexS(in.ipText), hx.Hex(in.id[:]), nilFlag, showProps(in.props),
		connTypeNames[in.connType], hx.HexS(in.vhostAddr), in.hook1, in.hook2, in.reg)
	out := hx.Guard(20*time.Second, func() string {
		sharedCfg.Forwarding.Mode = config.ForwardingMode(in.mode)
		sharedCfg.Forwarding.BungeeGuardSecret = in.bgSecret
		sharedCfg.Forwarding.VelocitySecret = "vs"
		if unsetHook2 != nil {
			unsetHook2()
			unsetHook2 = nil
		}
		if in.hook2.kind != "" {
			unsetHook2 = sharedProxy.SetBackendHandshakeAddresser(&backendAddresser{in.hook2})
		}
		var info proxy.ServerInfo = proxy.NewServerInfo("backend", in.server)
		if in.hook1.kind != "" {
			info = &serverInfoWithHook{ServerInfo: info, h: in.hook1}
		}
		if in.reg != "direct" {
			// the real registration path: Proxy.Register stores the ServerInfo (wrapped by newViaServerInfo when
			// Via routes the backend); the connection is then built on what the registry holds
			regInfo := &namedInfo{ServerInfo: info, name: fmt.Sprintf("b%d", caseNo)}
			var toRegister proxy.ServerInfo = regInfo
			if hi, ok := info.(*serverInfoWithHook); ok {
				toRegister = &serverInfoWithHook{ServerInfo: regInfo, h: hi.h}
			}
			proxy.C19SetViaRunning(sharedProxy, in.reg == "via")
			rs, err := sharedProxy.Register(toRegister)
			proxy.C19SetViaRunning(sharedProxy, false)
			if err != nil {
				return "register-failed"
			}
			info = rs.ServerInfo()
			defer sharedProxy.Unregister(info)
		}
		playerConn := newFakeConn(763, in.remote, in.connType)
		backend := newFakeConn(763, in.server, phase.Vanilla)
		prof := &profile.GameProfile{ID: in.id, Name: "Player", Properties: in.props}
		err := proxy.C19StartHandshake(sharedProxy, playerConn, backend, prof, netutil.NewAddr(in.vhostAddr, "tcp"), info)
		for _, p := range backend.written {
			if h, ok := p.(*packet.Handshake); ok {
				return "ok " + hx.HexS(h.ServerAddress)
			}
		}
		if err != nil {
			return "err"
		}
		return "none"
	})
	run.Case(class, op, out)
}

// ---------- generators ----------

const hostChars = "abcdefghijklmnopqrstuvwxyz0123456789-"
const b64Chars = "ABCDEFGHIJKLMNOPQRSTUVWXYZabcdefghijklmnopqrstuvwxyz0123456789+/="

func randStr(r *hx.Rng, alphabet string, n int) string {
	b := make([]byte, n)
	for i := range b {
		b[i] = alphabet[r.Intn(len(alphabet))]
	}
	return string(b)
}

func genHostName(r *hx.Rng) string {
	switch r.Intn(12) {
	case 0:
		return "localhost"
	case 1:
		return fmt.Sprintf("%d.%d.%d.%d", r.Intn(256), r.Intn(256), r.Intn(256), r.Intn(256))
	case 2:
		return "FORGE.example.com" // a host that merely starts with a marker
	case 3:
		return "FML2server.example.com"
	case 4:
		return "play.example.org."
	case 5:
		return ".." + randStr(r, hostChars, 5) + ".net.."
	}
	n := 1 + r.Intn(3)
	parts := make([]string, n)
	for i := range parts {
		parts[i] = randStr(r, hostChars, 1+r.Intn(10))
	}
	return strings.Join(parts, ".")
}

var forgeSuffixes = []string{"\x00FML\x00", "\x00FML2\x00", "\x00FML3\x00", "\x00FORGE", "\x00FORGE2", "\x00FORGE12", "\x00FORGE-3", "\x00FORGE+7",
	"\x00FORGEx", "\x00FORGE99999999999999999999", "\x00FORGE-99999999999999999999", "\x00FORGE0", "\x00FORGE007",
	"\x00FML3\x00\x00FORGE5", "\x00FORGE5\x00FORGE", "\x00FORGE\x00FORGE6", "\x00FORGE9\x00FML2\x00", "\x00", "\x00\x00", "\x00extra\x00data", "\x00FML\x00\x00FML\x00"}

// the ServerAddress a client sent (the harness builds virtualHost = "<it>:<port>" like the handshake handler)
func genClientAddress(r *hx.Rng, hostile bool) string {
	host := genHostName(r)
	if hostile {
		switch r.Intn(8) {
		case 0:
			return ""
		case 1:
			return "::1"
		case 2:
			return "[::1]"
		case 3:
			return "2001:db8::" + randStr(r, "0123456789abcdef", 3)
		case 4:
			return "[" + host
		case 5:
			return host + "]" + hx.Pick(r, forgeSuffixes)
		case 6:
			return string(r.Bytes(1 + r.Intn(12)))
		case 7:
			return host + ":" + randStr(r, "0123456789", 4)
		}
	}
	switch r.Intn(6) {
	case 0:
		return host
	case 1:
		return host + "///" + "203.0.113.9:5555///1700000000" // TCPShield real-ip form
	case 2, 3:
		return host + hx.Pick(r, forgeSuffixes)
	case 4:
		return host + "///1.2.3.4:1///1" + hx.Pick(r, forgeSuffixes)
	}
	return host
}

func genVhostAddr(r *hx.Rng, hostile bool) string {
	sa := genClientAddress(r, hostile)
	if hostile && r.Chance(1, 6) {
		return sa // no port at all
	}
	port := hx.Pick(r, []int{25565, 25565, 25565, 0, 1, 65535, 25577})
	return fmt.Sprintf("%s:%d", sa, port)
}

func genIP(r *hx.Rng) net.IP {
	switch r.Intn(5) {
	case 0:
		return net.IPv4(127, 0, 0, 1).To4()
	case 1:
		return net.ParseIP("::1")
	case 2:
		return net.IP(r.Bytes(16))
	}
	return net.IP(r.Bytes(4))
}

func genServerAddr(r *hx.Rng, hostile bool) net.Addr {
	if hostile {
		switch r.Intn(3) {
		case 0:
			return netutil.NewAddr("backend-without-port", "tcp")
		case 1:
			return netutil.NewAddr("back\x00end:25566", "tcp")
		}
	}
	switch r.Intn(4) {
	case 0:
		return netutil.NewAddr(genHostName(r)+":25566", "tcp")
	case 1:
		return &net.TCPAddr{IP: net.ParseIP("fd00::2"), Port: 25566}
	}
	return &net.TCPAddr{IP: net.IPv4(10, 0, byte(r.Intn(256)), byte(r.Intn(256))).To4(), Port: 25566 + r.Intn(3)}
}

func genPropString(r *hx.Rng, hostile bool, n int) string {
	if hostile {
		switch r.Intn(5) {
		case 0:
			return string(r.Bytes(n)) // arbitrary bytes, mostly invalid UTF-8
		case 1:
			return randStr(r, "\"\\<>&\x00\x01\b\f\n\r\t\x1f\x7f ab", n)
		case 2:
			return "ä€😀\u2028\u2029" + randStr(r, b64Chars, n%7)
		case 3:
			return "\xed\xa0\x80\xf4\x90\x80\x80\xc0\xaf\xe0\x80\xaf" + randStr(r, b64Chars, n%5) // surrogate / out of range / overlong
		}
	}
	return randStr(r, b64Chars, n)
}

func genProps(r *hx.Rng, hostile bool) []profile.Property {
	switch r.Intn(6) {
	case 0:
		return nil
	case 1:
		return []profile.Property{}
	}
	n := 1 + r.Intn(3)
	ps := make([]profile.Property, 0, n)
	for i := 0; i < n; i++ {
		p := profile.Property{Name: hx.Pick(r, []string{"textures", "textures", "extraData", "bungeeguard-token", "x", ""})}
		if hostile && r.Chance(1, 3) {
			p.Name = genPropString(r, true, r.Intn(8))
		}
		p.Value = genPropString(r, hostile, hx.Pick(r, []int{0, 1, 8, 40, 200}))
		if r.Bool() {
			p.Signature = genPropString(r, hostile && r.Chance(1, 3), hx.Pick(r, []int{1, 16, 88}))
		}
		ps = append(ps, p)
	}
	return ps
}

func genHook(r *hx.Rng, second bool) hookSpec {
	switch r.Intn(14) {
	case 0, 1:
		return hookSpec{kind: "id"}
	case 2, 3, 4:
		return hookSpec{kind: "app", arg: hx.Pick(r, []string{"\x00floodgate-encrypted-data", "\x00", "\x00a\x00b", "", "x"})}
	case 5:
		return hookSpec{kind: "pre", arg: hx.Pick(r, []string{"eu.", "x", "\x00"})}
	case 6:
		return hookSpec{kind: "const", arg: hx.Pick(r, []string{"lobby.internal", "", "other\x00FML3\x00", "a\x00b"})}
	case 7:
		return hookSpec{kind: "drop"}
	case 8:
		if second {
			return hookSpec{kind: "err"}
		}
	}
	return hookSpec{}
}

var modes = []string{"none", "none", "velocity", "legacy", "legacy", "bungeeguard", "bungeeguard"}

func genInput(r *hx.Rng, hostile bool) input {
	ip := genIP(r)
	in := input{
		mode:      hx.Pick(r, modes),
		bgSecret:  hx.Pick(r, []string{"", "s3cr3t", randStr(r, b64Chars, 1+r.Intn(30)), "to\"ken\\<&>"}),
		server:    genServerAddr(r, hostile && r.Chance(1, 3)),
		remote:    &net.TCPAddr{IP: ip, Port: 1024 + r.Intn(60000)},
		ipText:    ip.String(),
		props:     genProps(r, hostile),
		connType:  hx.Pick(r, connTypes),
		vhostAddr: genVhostAddr(r, hostile && r.Bool()),
		hook1:     genHook(r, false),
		hook2:     genHook(r, true),
		reg:       hx.Pick(r, []string{"direct", "plain", "via", "via"}),
	}
	if r.Chance(1, 2) { // Forge types should mostly come with Forge-looking hosts and vice versa
		switch {
		case strings.Contains(in.vhostAddr, "\x00FML\x00"):
			in.connType = phase.LegacyForge
		case strings.Contains(in.vhostAddr, "\x00FML2") || strings.Contains(in.vhostAddr, "\x00FML3") || strings.Contains(in.vhostAddr, "\x00FORGE"):
			in.connType = phase.ModernForge
		}
	}
	if !r.Chance(1, 8) {
		copy(in.id[:], r.Bytes(16))
	}
	return in
}

func mixSeed(z uint64) uint64 {
	z += 0x9E3779B97F4A7C15
	z = (z ^ (z >> 30)) * 0xBF58476D1CE4E5B9
	z = (z ^ (z >> 27)) * 0x94D049BB133111EB
	return z ^ (z >> 31)
}

func main() {
	run := hx.Start()
	// hx.NewRng(seed) starts splitmix64 at seed*gamma, so consecutive seeds walk the SAME stream one step
	// apart; hash the seed first so that different seeds give unrelated streams (still fully determined
	// by VERIF_SEED).
	run.Rng = hx.NewRng(mixSeed(run.Seed))
	r := run.Rng

	// ---- fixed cases first: the situations the repository's own tests name, for every mode
	fixedHosts := []string{"play.example.org", "play.example.org\x00FML\x00", "play.example.org\x00FML2\x00", "play.example.org\x00FML3\x00",
		"play.example.org\x00FORGE", "play.example.org\x00FORGE2", "FORGE.example.com", "", "::1", "[::1]", "a]b",
		"play.example.org\x00a]b", "play.example.org\x00[x", "host///1.2.3.4:5///7\x00FML\x00"}
	for _, h := range fixedHosts {
		for _, mode := range []string{"none", "velocity", "legacy", "bungeeguard"} {
			for _, ct := range connTypes {
				in := input{mode: mode, bgSecret: "tok", server: &net.TCPAddr{IP: net.IPv4(10, 0, 0, 1).To4(), Port: 25566},
					remote: &net.TCPAddr{IP: net.IPv4(192, 0, 2, 7).To4(), Port: 40000}, ipText: "192.0.2.7",
					props: []profile.Property{{Name: "textures", Value: "e30=", Signature: "c2ln"}}, connType: ct, vhostAddr: h + ":25565"}
				copy(in.id[:], []byte{0x06, 0x9a, 0x79, 0xf4, 0x44, 0xe9, 0x47, 0x26, 0xa5, 0xbe, 0xfc, 0xa9, 0x0e, 0x38, 0xaa, 0xf5})
				runCase(run, "fixed", in)
				// the same backend reached through the registry: plain, and wrapped because Via routes it —
				// without and with a HandshakeAddresser of its own
				for _, reg := range []string{"plain", "via"} {
					viaIn := in
					viaIn.reg = reg
					runCase(run, "fixed/"+reg, viaIn)
					viaIn.hook1 = hookSpec{kind: "app", arg: "\x00own-hook"}
					runCase(run, "fixed/"+reg, viaIn)
				}
				if mode == "none" {
					in.hook2 = hookSpec{kind: "app", arg: "\x00floodgate"}
					runCase(run, "fixed", in)
					in.hook1 = hookSpec{kind: "id"}
					runCase(run, "fixed", in)
				}
				if mode == "legacy" {
					in.props = nil
					runCase(run, "fixed", in)
					in.hook1 = hookSpec{kind: "id"} // a HandshakeAddresser switches the forwarding format off
					runCase(run, "fixed", in)
				}
			}
		}
	}

	n := run.Scale(12000, 200000)
	for i := 0; i < n; i++ {
		hostile := r.Chance(1, 5)
		in := genInput(r, hostile)
		class := "gen/" + in.mode
		if hostile {
			class = "hostile/" + in.mode
		}
		runCase(run, class, in)
	}
	run.Finish()
}
