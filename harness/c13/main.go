// C13 correspondence harness: drives the REAL loginInboundConn (+ the Forge relay consumer) through the
// verif hooks with generated programs (goroutines × calls) under a cooperative scheduler.
//
// A goroutine of the real code can be stopped only where it calls OUT of loginInboundConn: packet writes to
// the client, consumer invocations and the completion callback.  Those call-outs are gates: a goroutine that
// reaches one reports "blocked" and waits for a permit.  Exactly one goroutine runs at any time, so a case is
// fully deterministic.  A schedule is a list of picks; pick t = let goroutine t pass its gate (or start) and
// run to its next gate / its end.  The Lean driver replays the same picks on the model (Model.pick).
//
// case line:  run <thr0> <thr1> … / <pick,pick,…>\t<observation>
//   thread  = comma separated calls, `_` = no calls
//   calls   S<cons> send | R<id>:<ok>:<hexdata> response | F loginEventFired | X clearOnAllMessagesHandled | Z cleanup
//           B0/B1/B2 rejected send (empty contents / nil consumer / nil identifier)
//   cons    p<tag> plain | f<tag> plain whose OnMessageResponse returns an error | c<tag>.<cons> chain (sends <cons> when invoked) | r<bid> forge relay of backend message bid
//           | e<bid> forge relay of a backend message with EMPTY data
//   observation  cl=<id>:<hexcontents>,…  cons=<cons>:<reply>,…  be=<bid>:<ok>:<hexdata>,…  done=<n> out=<ids> q=<ids> fired=<b> cb=<b> fin=<n>
package main

import (
	"bytes"
	"context"
	"errors"
	"fmt"
	"net"
	"sort"
	"strconv"
	"strings"
	"sync"
	"time"

	"go.minekube.com/gate/pkg/edition/java/netmc"
	"go.minekube.com/gate/pkg/edition/java/proto/packet"
	"go.minekube.com/gate/pkg/edition/java/proto/state"
	"go.minekube.com/gate/pkg/edition/java/proto/version"
	"go.minekube.com/gate/pkg/edition/java/proxy"
	"go.minekube.com/gate/pkg/edition/java/proxy/message"
	"go.minekube.com/gate/pkg/edition/java/proxy/phase"
	"go.minekube.com/gate/pkg/gate/proto"

	"verifharness/hx"
)

// ---------- fake connection ----------

type fakeConn struct {
	w       *world
	backend bool
}

func (c *fakeConn) Context() context.Context     { return context.Background() }
func (c *fakeConn) Close() error                 { return nil }
func (c *fakeConn) State() *state.Registry       { return state.Login }
func (c *fakeConn) Protocol() proto.Protocol     { return version.Minecraft_1_20.Protocol }
func (c *fakeConn) RemoteAddr() net.Addr         { return &net.TCPAddr{} }
func (c *fakeConn) LocalAddr() net.Addr          { return &net.TCPAddr{} }
func (c *fakeConn) Type() phase.ConnectionType   { return phase.Vanilla }
func (c *fakeConn) SetType(phase.ConnectionType) {}
func (c *fakeConn) ActiveSessionHandler() netmc.SessionHandler                    { return nil }
func (c *fakeConn) SetActiveSessionHandler(*state.Registry, netmc.SessionHandler) {}
func (c *fakeConn) SwitchSessionHandler(*state.Registry) bool                     { return true }
func (c *fakeConn) AddSessionHandler(*state.Registry, netmc.SessionHandler)       {}
func (c *fakeConn) SetAutoReading(bool)                                           {}
func (c *fakeConn) SetOutboundState(*state.Registry)                              {}
func (c *fakeConn) SetProtocol(proto.Protocol)                                    {}
func (c *fakeConn) SetState(*state.Registry)                                      {}
func (c *fakeConn) SetCompressionThreshold(int) error                             { return nil }
func (c *fakeConn) EnableEncryption([]byte) error                                 { return nil }
func (c *fakeConn) WritePacket(p proto.Packet) error {
	c.w.gate()
	if c.backend {
		c.w.backendWrite(p)
	} else {
		c.w.clientWrite(p)
	}
	return nil
}
func (c *fakeConn) Write([]byte) error                { return nil }
func (c *fakeConn) BufferPacket(p proto.Packet) error { return c.WritePacket(p) }
func (c *fakeConn) BufferPayload([]byte) error        { return nil }
func (c *fakeConn) Flush() error                      { return nil }
func (c *fakeConn) Reader() netmc.Reader              { return nil }
func (c *fakeConn) Writer() netmc.Writer              { return nil }
func (c *fakeConn) EnablePlayPacketQueue()            {}

var _ netmc.MinecraftConn = (*fakeConn)(nil)

// ---------- consumers ----------

type cons struct {
	kind byte // p c r e
	tag  int
	next *cons
}

func (c *cons) enc() string {
	if c.kind == 'c' {
		return fmt.Sprintf("c%d.%s", c.tag, c.next.enc())
	}
	return fmt.Sprintf("%c%d", c.kind, c.tag)
}

func parseCons(s string) *cons {
	k := s[0]
	rest := s[1:]
	if k == 'c' {
		i := strings.IndexByte(rest, '.')
		n, _ := strconv.Atoi(rest[:i])
		return &cons{kind: 'c', tag: n, next: parseCons(rest[i+1:])}
	}
	n, _ := strconv.Atoi(rest)
	return &cons{kind: k, tag: n}
}

type harnessConsumer struct {
	w *world
	c *cons
}

func (h *harnessConsumer) OnMessageResponse(body []byte) error {
	h.w.gate()
	h.w.mu.Lock()
	h.w.consLog = append(h.w.consLog, h.c.enc()+":"+showReply(body))
	h.w.mu.Unlock()
	if h.c.kind == 'c' {
		return h.w.send(h.c.next)
	}
	if h.c.kind == 'f' {
		return errors.New("consumer failed") // must not keep the login from completing
	}
	return nil
}

func showReply(b []byte) string {
	if b == nil {
		return "nil"
	}
	return hx.Hex(b)
}

// ---------- world ----------

type event struct {
	t    int
	kind string // gate done panic
}

type world struct {
	in      *proxy.C13Inbound
	relay   *proxy.C13Relay
	client  *fakeConn
	backend *fakeConn
	chanID  message.ChannelIdentifier

	mu       sync.Mutex
	cl       []string
	consLog  []string
	be       []string
	done     int
	relayEnc map[int]string // backend id -> consumer encoding (ids are unique per program)

	threads  [][]string
	st       []int // 0 not started, 1 blocked at a gate, 2 finished
	permits  []chan struct{}
	ev       chan event
	cur      int
	draining bool
	panicked bool
}

func newWorld(threads [][]string) *world {
	w := &world{threads: threads, st: make([]int, len(threads)), ev: make(chan event), relayEnc: map[int]string{}}
	w.client = &fakeConn{w: w}
	w.backend = &fakeConn{w: w, backend: true}
	w.in = proxy.C13NewInbound(w.client)
	w.relay = proxy.C13NewRelay(w.in)
	w.chanID, _ = message.ChannelIdentifierFrom("verif:c13")
	for range threads {
		w.permits = append(w.permits, make(chan struct{}))
	}
	return w
}

func (w *world) gate() {
	w.mu.Lock()
	dr := w.draining
	t := w.cur
	w.mu.Unlock()
	if dr {
		return
	}
	w.ev <- event{t, "gate"}
	<-w.permits[t]
}

func (w *world) clientWrite(p proto.Packet) {
	m, ok := p.(*packet.LoginPluginMessage)
	w.mu.Lock()
	defer w.mu.Unlock()
	if !ok {
		w.cl = append(w.cl, "?")
		return
	}
	w.cl = append(w.cl, fmt.Sprintf("%d:%s", m.ID, hx.Hex(m.Data)))
}

func (w *world) backendWrite(p proto.Packet) {
	m, ok := p.(*packet.LoginPluginResponse)
	w.mu.Lock()
	defer w.mu.Unlock()
	if !ok {
		w.be = append(w.be, "?")
		return
	}
	var body []byte
	if m.Success {
		body = m.Data
		if body == nil {
			body = []byte{}
		}
	}
	// the relay consumer was invoked: its invocation is observable only through this write
	w.consLog = append(w.consLog, w.relayEnc[m.ID]+":"+showReply(body))
	okc := "0"
	if m.Success {
		okc = "1"
	}
	w.be = append(w.be, fmt.Sprintf("%d:%s:%s", m.ID, okc, hx.Hex(m.Data)))
}

func (w *world) send(c *cons) error {
	switch c.kind {
	case 'r', 'e':
		w.mu.Lock()
		w.relayEnc[c.tag] = c.enc()
		w.mu.Unlock()
		var data []byte
		if c.kind == 'r' {
			data = []byte(c.enc())
		}
		return w.relay.RelayToClient(w.backend, &packet.LoginPluginMessage{ID: c.tag, Channel: proxy.ForgeLoginWrapperChannel, Data: data})
	default:
		return w.in.Send(w.chanID, []byte(c.enc()), &harnessConsumer{w: w, c: c})
	}
}

// decodeResponse builds the packet the way the read loop does: through the real encoder/decoder.
func decodeResponse(id int, ok bool, data []byte) *packet.LoginPluginResponse {
	var buf bytes.Buffer
	pc := &proto.PacketContext{Direction: proto.ServerBound, Protocol: version.Minecraft_1_20.Protocol}
	if err := (&packet.LoginPluginResponse{ID: id, Success: ok, Data: data}).Encode(pc, &buf); err != nil {
		panic(err)
	}
	out := &packet.LoginPluginResponse{}
	if err := out.Decode(pc, &buf); err != nil {
		panic(err)
	}
	return out
}

func (w *world) do(call string) {
	switch call[0] {
	case 'S':
		_ = w.send(parseCons(call[1:]))
	case 'R':
		f := strings.Split(call[1:], ":")
		id, _ := strconv.Atoi(f[0])
		_ = w.in.Respond(decodeResponse(id, f[1] == "1", hx.UnHex(f[2])))
	case 'F':
		_ = w.in.Fired(func() error {
			w.gate()
			w.mu.Lock()
			w.done++
			w.mu.Unlock()
			return nil
		})
	case 'X':
		w.in.Clear()
	case 'Z':
		w.in.Cleanup()
	case 'B':
		var err error
		switch call[1] {
		case '0':
			err = w.in.Send(w.chanID, nil, &harnessConsumer{w: w, c: &cons{kind: 'p', tag: 0}})
		case '1':
			err = w.in.Send(w.chanID, []byte{1}, nil)
		default:
			err = w.in.Send(nil, []byte{1}, &harnessConsumer{w: w, c: &cons{kind: 'p', tag: 0}})
		}
		if err == nil {
			panic("rejected send accepted")
		}
	}
}

func (w *world) runThread(t int) {
	defer func() {
		if r := recover(); r != nil {
			w.ev <- event{t, "panic"}
		}
	}()
	for _, c := range w.threads[t] {
		w.do(c)
	}
	w.ev <- event{t, "done"}
}

// pick lets goroutine t run to its next gate or end. Returns "" or "hang"/"panic".
func (w *world) pick(t int) string {
	if t < 0 || t >= len(w.threads) || w.st[t] == 2 {
		return ""
	}
	if w.st[t] == 0 && len(w.threads[t]) == 0 {
		w.st[t] = 2
		return ""
	}
	w.mu.Lock()
	w.cur = t
	w.mu.Unlock()
	if w.st[t] == 0 {
		go w.runThread(t)
	} else {
		w.permits[t] <- struct{}{}
	}
	select {
	case e := <-w.ev:
		switch e.kind {
		case "gate":
			w.st[t] = 1
		case "done":
			w.st[t] = 2
		default:
			w.st[t] = 2
			w.panicked = true
			return "panic"
		}
	case <-time.After(3 * time.Second):
		return "hang"
	}
	return ""
}

func (w *world) allFinished() bool {
	for t := range w.threads {
		if w.st[t] != 2 && !(w.st[t] == 0 && len(w.threads[t]) == 0) {
			return false
		}
	}
	return true
}

func list(xs []string) string {
	if len(xs) == 0 {
		return "-"
	}
	return strings.Join(xs, ",")
}
func ints(xs []int) string {
	if len(xs) == 0 {
		return "-"
	}
	s := make([]string, len(xs))
	for i, x := range xs {
		s[i] = strconv.Itoa(x)
	}
	return strings.Join(s, ",")
}
func b01(b bool) string {
	if b {
		return "1"
	}
	return "0"
}

func (w *world) observe() string {
	out, q, fired, cb := w.in.Snapshot()
	sort.Ints(out)
	fin := 0
	for t := range w.threads {
		if w.st[t] == 2 || (w.st[t] == 0 && len(w.threads[t]) == 0) {
			fin++
		}
	}
	w.mu.Lock()
	defer w.mu.Unlock()
	return fmt.Sprintf("cl=%s cons=%s be=%s done=%d out=%s q=%s fired=%s cb=%s fin=%d",
		list(w.cl), list(w.consLog), list(w.be), w.done, ints(out), ints(q), b01(fired), b01(cb), fin)
}

// drain lets every blocked goroutine run to its end (gates open), one at a time.
func (w *world) drain() {
	w.mu.Lock()
	w.draining = true
	w.mu.Unlock()
	for t := range w.threads {
		if w.st[t] == 1 {
			w.permits[t] <- struct{}{}
			select {
			case <-w.ev:
			case <-time.After(2 * time.Second):
			}
			w.st[t] = 2
		}
	}
}

// runCase executes the fixed picks, then (if complete) picks unfinished goroutines round-robin until all
// have finished.  It returns the picks actually made and the observation.
func runCase(threads [][]string, picks []int, complete bool) ([]int, string) {
	w := newWorld(threads)
	made := []int{}
	for _, t := range picks {
		made = append(made, t)
		if r := w.pick(t); r != "" {
			return made, r
		}
	}
	if complete {
		for n := 0; n < 400 && !w.allFinished(); n++ {
			for t := range threads {
				if w.st[t] != 2 && len(threads[t]) > 0 {
					made = append(made, t)
					if r := w.pick(t); r != "" {
						return made, r
					}
					break
				}
			}
		}
	}
	obs := w.observe()
	w.drain()
	return made, obs
}

func opLine(threads [][]string, picks []int) string {
	var sb strings.Builder
	sb.WriteString("run")
	for _, th := range threads {
		sb.WriteByte(' ')
		if len(th) == 0 {
			sb.WriteString("_")
		} else {
			sb.WriteString(strings.Join(th, ","))
		}
	}
	sb.WriteString(" / ")
	sb.WriteString(ints(picks))
	return sb.String()
}

// ---------- generation ----------

type gen struct {
	r     *hx.Rng
	tag   int
	sends int
	rn    int
}

func (g *gen) cons(depth int) string {
	g.tag++
	g.sends++
	switch x := g.r.Intn(20); {
	case x < 7:
		return fmt.Sprintf("p%d", g.tag)
	case x < 9:
		return fmt.Sprintf("f%d", g.tag)
	case x < 15:
		return fmt.Sprintf("r%d", g.tag)
	case x < 16:
		return fmt.Sprintf("e%d", g.tag)
	default:
		if depth >= 3 {
			return fmt.Sprintf("p%d", g.tag)
		}
		t := g.tag
		return fmt.Sprintf("c%d.%s", t, g.cons(depth+1))
	}
}

func (g *gen) respond(maxID int) string {
	var id int
	switch x := g.r.Intn(12); {
	case x == 0:
		id = hx.Pick(g.r, []int{0, -1, -7, 1000, 2147483647, -2147483648})
	case x == 1:
		id = maxID + 1 + g.r.Intn(3)
	default:
		id = 1 + g.r.Intn(maxID+1)
	}
	g.rn++
	ok := g.r.Chance(3, 4)
	var data []byte
	switch g.r.Intn(8) {
	case 0: // empty body
	default:
		data = []byte{0xd0 | byte(g.rn>>8&0xf), byte(g.rn)}
	}
	return fmt.Sprintf("R%d:%s:%s", id, b01(ok), hx.Hex(data))
}

// program: threads with roles — handler goroutines (sends), the client read loop (responses), the login
// goroutine (fire), the backend read loop (relay sends), occasionally cleanup/clear.
func (g *gen) program() [][]string {
	nthr := 1 + g.r.Intn(4)
	threads := make([][]string, nthr)
	totalSends := 1 + g.r.Intn(6)
	fireAt := g.r.Intn(nthr)
	hasFire := g.r.Chance(9, 10)
	firePos := g.r.Intn(4)
	for t := 0; t < nthr; t++ {
		n := g.r.Intn(7)
		if nthr == 1 {
			n = 2 + g.r.Intn(9)
		}
		for i := 0; i < n; i++ {
			if hasFire && t == fireAt && i == firePos {
				threads[t] = append(threads[t], "F")
			}
			switch x := g.r.Intn(40); {
			case x < 15:
				threads[t] = append(threads[t], "S"+g.cons(0))
			case x < 36:
				threads[t] = append(threads[t], g.respond(totalSends+2))
			case x < 37:
				threads[t] = append(threads[t], "X")
			case x < 38:
				threads[t] = append(threads[t], "Z")
			default:
				threads[t] = append(threads[t], fmt.Sprintf("B%d", g.r.Intn(3)))
			}
		}
		if hasFire && t == fireAt && firePos >= n {
			threads[t] = append(threads[t], "F")
		}
	}
	return threads
}

// orderly program: the well-behaved protocol shape (sends, fire, every id answered once, in random order),
// on separate goroutines, so that the exactly-once conclusions are exercised.
func (g *gen) orderly() [][]string {
	n := 1 + g.r.Intn(5)
	var handler, client, late []string
	ids := 0
	for i := 0; i < n; i++ {
		handler = append(handler, "S"+g.cons(3)) // no chains: ids are 1..n
		ids++
	}
	handler = append(handler, "F")
	m := g.r.Intn(3)
	for i := 0; i < m; i++ {
		late = append(late, "S"+g.cons(3))
		ids++
	}
	perm := make([]int, ids)
	for i := range perm {
		perm[i] = i + 1
	}
	for i := len(perm) - 1; i > 0; i-- {
		j := g.r.Intn(i + 1)
		perm[i], perm[j] = perm[j], perm[i]
	}
	for _, id := range perm {
		g.rn++
		client = append(client, fmt.Sprintf("R%d:%s:%s", id, b01(g.r.Chance(4, 5)), hx.Hex([]byte{0xd0, byte(g.rn)})))
		if g.r.Chance(1, 6) {
			client = append(client, fmt.Sprintf("R%d:1:ee", id)) // duplicate
		}
	}
	return [][]string{handler, client, late}
}

func main() {
	run := hx.Start()
	defer run.Finish()
	hangs := 0
	emit := func(class string, threads [][]string, picks []int, complete bool) {
		if hangs >= 3 {
			return // the real code blocks: three witnesses are enough, do not wait for thousands of timeouts
		}
		made, obs := runCase(threads, picks, complete)
		if obs == "hang" {
			hangs++
		}
		run.Case(class, opLine(threads, made), obs)
	}
	sp := func(s string) []string {
		if s == "_" || s == "" {
			return nil
		}
		return strings.Split(s, ",")
	}
	fixed := func(class string, thr []string, picks []int, complete bool) {
		ths := make([][]string, len(thr))
		for i, s := range thr {
			ths[i] = sp(s)
		}
		emit(class, ths, picks, complete)
	}

	// ---- fixed regression cases (witnesses of the C13 defect first) ----
	// W1: fire; send; respond — the callback ran at fire and ran AGAIN after the late message was answered
	fixed("witness", []string{"F", "Sp1", "R1:1:aa"}, []int{0, 0, 1, 1, 2, 2, 2}, true)
	// W1 on one goroutine
	fixed("witness", []string{"F,Sp1,R1:1:aa"}, nil, true)
	// W2: a send slips between loginEventFired's critical section and its callback invocation
	fixed("witness", []string{"F", "Sp1", "R1:1:aa"}, []int{0, 1, 0, 1, 2, 2, 2}, true)
	// W3: normal completion after two answers, then a late send + answer
	fixed("witness", []string{"Sp1,Sp2,F", "R2:1:aa,R1:0:bb", "Sp3", "R3:1:cc"}, []int{0, 0, 0, 0, 1, 1, 1, 1, 1, 1, 2, 2, 3, 3, 3}, true)
	// the consumer of the LAST answered message returns an error: the login must still complete (once)
	fixed("fixed", []string{"Sp1,Sf2,F", "R1:1:aa,R2:1:bb"}, nil, true)
	fixed("fixed", []string{"Sf1,F", "R1:0:-"}, nil, true)
	// relay take-over history: a late plugin message is still outstanding, the inbound is cleared (X, what the auth
	// handler does) or cleaned up (Z), then backend FML messages are relayed and the client answers late: message
	// ids must never be reused, so the late answer can only reach its own consumer (or nobody after Z)
	fixed("fixed", []string{"F,Sp1,X", "Sr5,Sr6", "R1:1:aa,R2:1:bb,R3:1:cc"}, []int{0, 0, 0, 1, 1, 1, 1}, true)
	fixed("fixed", []string{"F,Sp1,Z", "Sr5,Sr6", "R1:1:aa,R2:1:bb,R3:1:cc"}, []int{0, 0, 0, 1, 1, 1, 1}, true)
	fixed("fixed", []string{"Sp1,F,Sp2,Z,Sr7", "R1:1:aa,R3:1:bb,R2:1:cc"}, nil, true)
	// orderly flows
	fixed("fixed", []string{"Sp1,Sp2,F", "R1:1:aa,R2:1:bb"}, nil, true)
	fixed("fixed", []string{"Sp1,Sp2,F", "R2:1:aa,R2:1:bb,R7:1:cc,R1:0:dd"}, nil, true)
	fixed("fixed", []string{"Sc1.p2,F", "R1:1:aa,R2:1:bb"}, nil, true)
	fixed("fixed", []string{"F", "Sr5,Sr6,Se7", "R2:1:aa,R1:0:bb,R3:1:-,R3:1:cc"}, nil, true)
	fixed("fixed", []string{"Sp1", "R1:1:aa", "F"}, []int{0, 1, 1, 2, 2}, true) // premature answer: the login never completes
	fixed("fixed", []string{"Sp1,F", "R1:1:aa"}, []int{1, 1, 0, 0}, true)
	fixed("fixed", []string{"Sp1,Sp2,F,Z", "R1:1:aa,R2:1:bb"}, []int{0, 0, 0, 1, 1, 0, 0}, true)
	fixed("fixed", []string{"Sp1,F,X", "R1:1:aa"}, []int{0, 0, 0, 0}, true)
	fixed("fixed", []string{"B0,B1,B2,Sp1,F", "R1:1:aa"}, nil, true)
	fixed("fixed", []string{"_", "F"}, []int{0, 5, 1}, false)

	g := &gen{r: run.Rng}
	n := run.Scale(2500, 25000)
	for i := 0; i < n; i++ {
		g.tag, g.sends, g.rn = 0, 0, 0
		var threads [][]string
		class := "random"
		if g.r.Chance(1, 3) {
			threads = g.orderly()
			class = "orderly"
		} else {
			threads = g.program()
		}
		total := 0
		for _, th := range threads {
			total += len(th)
		}
		var picks []int
		switch g.r.Intn(5) {
		case 0: // sequential: goroutine after goroutine
			class += "-seq"
		default:
			k := g.r.Intn(3*total + 2)
			for j := 0; j < k; j++ {
				picks = append(picks, g.r.Intn(len(threads)))
			}
			class += fmt.Sprintf("-ilv%d", len(threads))
		}
		emit(class, threads, picks, g.r.Chance(5, 6))
	}
}
