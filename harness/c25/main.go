// C25 correspondence harness: feeds plugin messages to the real session handlers of every phase
// (through export_verif_c25.go) with a real event manager and recording subscribers.
package main

import (
	"errors"
	"fmt"
	"sort"
	"strings"
	"sync"
	"time"

	"github.com/robinbraemer/event"
	"go.minekube.com/gate/pkg/edition/java/config"
	"go.minekube.com/gate/pkg/edition/java/proto/packet/plugin"
	"go.minekube.com/gate/pkg/edition/java/proto/state"
	"go.minekube.com/gate/pkg/edition/java/proto/version"
	"go.minekube.com/gate/pkg/edition/java/proxy"
	"go.minekube.com/gate/pkg/edition/java/proxy/message"

	"verifharness/c18/rc"
	"verifharness/hx"
)

const (
	knownChannel = "verif:known"
	otherChannel = "verif:other"
)

var channelOf = map[string]string{"reg": "minecraft:register", "unreg": "minecraft:unregister", "known": knownChannel, "other": otherChannel}
var classOf = map[string]string{"minecraft:register": "reg", "minecraft:unregister": "unreg", knownChannel: "known", otherChannel: "other"}

type world struct {
	mgr             event.Manager
	w               *proxy.C25World
	client, backend *rc.Conn

	mu     sync.Mutex
	events []string
	allow  string
	edit   string

	// history mode: every PluginMessageEvent subscriber reports that it started (with the Data() slice
	// it keeps) and then waits to be released
	hist    bool
	started chan *held
}

// held is one subscriber invocation parked inside its handler, keeping the slice Data() returned.
type held struct {
	data    []byte
	first   string
	release chan struct{}
	done    chan struct{}
}

func newWorld() *world {
	cfg := config.DefaultConfig
	wd := &world{mgr: event.New()}
	px, err := proxy.New(proxy.Options{Config: &cfg, EventMgr: wd.mgr})
	if err != nil {
		panic(err)
	}
	id, err := message.ChannelIdentifierFrom(knownChannel)
	if err != nil {
		panic(err)
	}
	px.ChannelRegistrar().Register(id)
	event.Subscribe(wd.mgr, 0, func(e *proxy.PluginMessageEvent) {
		wd.mu.Lock()
		hist := wd.hist
		wd.mu.Unlock()
		if hist {
			d := e.Data()
			h := &held{data: d, first: hx.Hex(d), release: make(chan struct{}), done: make(chan struct{})}
			wd.started <- h
			<-h.release
			wd.mu.Lock()
			wd.events = append(wd.events, "P:"+h.first+"/"+hx.Hex(d)) // looked at again after the whole history
			wd.editAndAllow(e, d)
			wd.mu.Unlock()
			close(h.done)
			return
		}
		wd.mu.Lock()
		defer wd.mu.Unlock()
		d := e.Data()
		wd.events = append(wd.events, "P:"+hx.Hex(d))
		switch wd.edit { // a plugin editing the message in place
		case "f":
			if len(d) > 0 {
				d[0] ^= 0xff
			}
		case "a":
			for i := range d {
				d[i] = 0xAA
			}
		}
		switch wd.allow {
		case "y":
			e.SetForward(true)
		case "n":
			e.SetForward(false)
		}
	})
	event.Subscribe(wd.mgr, 0, func(e *proxy.PlayerChannelRegisterEvent) {
		wd.mu.Lock()
		wd.events = append(wd.events, "R")
		wd.mu.Unlock()
	})
	event.Subscribe(wd.mgr, 0, func(e *proxy.PlayerChannelUnregisterEvent) {
		wd.mu.Lock()
		wd.events = append(wd.events, "U")
		wd.mu.Unlock()
	})
	wd.client = rc.New(state.Play, version.Minecraft_1_20_3.Protocol)
	wd.backend = rc.New(state.Play, version.Minecraft_1_20_3.Protocol)
	wd.w, err = proxy.C25NewWorld(px, wd.client, wd.backend)
	if err != nil {
		panic(err)
	}
	if err := wd.w.MarkBackendReady(); err != nil {
		panic(err)
	}
	return wd
}

func list(xs []string) string {
	if len(xs) == 0 {
		return "-"
	}
	return strings.Join(xs, ",")
}

var errWrite = errors.New("write failed")

// writes lists what was written to the backend and the client connection since the given log positions.
func (wd *world) writes(k string, cf, bf int) []string {
	var fw []string
	for _, side := range []struct {
		n string
		c *rc.Conn
		f int
	}{{"b", wd.backend, bf}, {"c", wd.client, cf}} {
		for _, e := range side.c.Log(side.f) {
			switch e.Kind {
			case "wp", "bp":
				if pm, ok := e.Packet.(*plugin.Message); ok {
					c, known := classOf[pm.Channel]
					if !known {
						c = "?" + hx.HexS(pm.Channel)
					}
					fw = append(fw, fmt.Sprintf("%s%s:p:%s:%s", k, side.n, c, hx.Hex(pm.Data)))
				} else {
					fw = append(fw, fmt.Sprintf("%s%s:q:%T", k, side.n, e.Packet))
				}
			case "w", "bpl":
				fw = append(fw, fmt.Sprintf("%s%s:r:%s", k, side.n, hx.Hex(e.Payload)))
			}
		}
	}
	return fw
}

func (wd *world) editAndAllow(e *proxy.PluginMessageEvent, d []byte) {
	switch wd.edit {
	case "f":
		if len(d) > 0 {
			d[0] ^= 0xff
		}
	case "a":
		for i := range d {
			d[i] = 0xAA
		}
	}
	switch wd.allow {
	case "y":
		e.SetForward(true)
	case "n":
		e.SetForward(false)
	}
}

// history feeds several messages on the registered channel to one handler; each event's subscriber is
// parked holding its Data() slice until ALL messages were handled, then they are released in order.
func (wd *world) history(site string, bodies [][]byte, allow, edit string) string {
	wd.mu.Lock()
	wd.events, wd.allow, wd.edit, wd.hist = nil, allow, edit, true
	wd.started = make(chan *held, len(bodies))
	wd.mu.Unlock()
	wd.client.WriteErr, wd.backend.WriteErr = nil, nil
	cf, bf := wd.client.Len(), wd.backend.Len()
	var hs []*held
	for _, b := range bodies {
		wd.w.Handle(site, knownChannel, append([]byte(nil), b...), []byte{0xEE})
		select {
		case h := <-wd.started:
			hs = append(hs, h)
		case <-time.After(5 * time.Second):
		}
	}
	for _, h := range hs {
		close(h.release)
		<-h.done
	}
	wd.mgr.Wait()
	wd.mu.Lock()
	wd.hist = false
	ev := list(wd.events)
	wd.mu.Unlock()
	fw := wd.writes("o", cf, bf)
	sort.Strings(fw)
	return "ev=" + ev + " fw=" + list(fw)
}

// apply runs one case on the real handlers.
func (wd *world) apply(site, cls string, data, raw []byte, allow, edit string, wok bool) string {
	wd.mu.Lock()
	wd.events, wd.allow, wd.edit = nil, allow, edit
	wd.mu.Unlock()
	wd.client.WriteErr, wd.backend.WriteErr = nil, nil
	if !wok {
		wd.client.WriteErr, wd.backend.WriteErr = errWrite, errWrite
	}
	cf, bf := wd.client.Len(), wd.backend.Len()
	// the handler owns its buffers: hand it copies
	wd.w.Handle(site, channelOf[cls], append([]byte(nil), data...), append([]byte(nil), raw...))
	wd.mgr.Wait()
	k := "o"
	if !wok {
		k = "x"
	}
	fw := wd.writes(k, cf, bf)
	wd.mu.Lock()
	ev := list(wd.events)
	wd.mu.Unlock()
	return "ev=" + ev + " fw=" + list(fw)
}

var (
	sites   = []string{"cp", "cc", "ci", "bp", "bc"}
	classes = []string{"reg", "unreg", "known", "other"}
	allows  = []string{"d", "y", "n"}
	edits   = []string{"n", "f", "a"}
)

func genData(r *hx.Rng, cls string) []byte {
	if cls == "reg" || cls == "unreg" {
		switch r.Intn(40) {
		case 0, 5, 6, 7:
			return nil
		case 1, 8, 9, 10: // hostile: not a channel list at all
			return r.Bytes(1 + r.Intn(40))
		case 2: // longer than MaxInt16
			return []byte(strings.Repeat("a:b\x00", 9000))
		case 3: // more channels than the per-player cap
			var sb strings.Builder
			for i := 0; i < 1100; i++ {
				fmt.Fprintf(&sb, "v:c%d\x00", i)
			}
			return []byte(sb.String())
		case 4, 11, 12, 13: // invalid identifiers mixed with valid ones
			return []byte("ok:one\x00Bad Channel\x00:x\x00two")
		}
		n := 1 + r.Intn(4)
		parts := make([]string, n)
		for i := range parts {
			parts[i] = fmt.Sprintf("ns%d:ch%d", r.Intn(5), r.Intn(50))
		}
		return []byte(strings.Join(parts, "\x00"))
	}
	switch r.Intn(30) {
	case 0, 3, 4, 5:
		return nil
	case 1, 6, 7, 8:
		return []byte{byte(r.U64())}
	case 2:
		return r.Bytes(32768)
	}
	return r.Bytes(1 + r.Intn(64))
}

func main() {
	run := hx.Start()
	wd := newWorld()
	n := 0
	do := func(class, site, cls string, data, raw []byte, allow, edit string, wok bool) {
		if n%500 == 499 { // fresh player now and then (clientside channel set, connection logs)
			wd = newWorld()
		}
		n++
		w := "1"
		if !wok {
			w = "0"
		}
		op := fmt.Sprintf("%s %s %s %s %s %s %s", site, cls, hx.Hex(data), hx.Hex(raw), allow, edit, w)
		cur := wd
		out := hx.Guard(20*time.Second, func() string { return cur.apply(site, cls, data, raw, allow, edit, wok) })
		run.Case(class, op, out)
	}

	// ---- fixed regression cases: the witnesses of the repaired defects and of the known finding ----
	do("fixed", "cp", "reg", []byte("a:b"), []byte{0xEE, 0xEE}, "d", "n", true)
	do("fixed", "cp", "reg", []byte("a:b"), []byte{0xEE, 0xEE}, "d", "n", false)
	do("fixed", "bc", "known", []byte{1, 2}, []byte{0xEE, 0xEE}, "y", "n", true)
	do("fixed", "bc", "known", []byte{1, 2}, []byte{0xEE, 0xEE}, "y", "a", true)
	do("fixed", "bc", "known", []byte{1, 2}, []byte{0xEE, 0xEE}, "d", "n", true)
	do("fixed", "cc", "reg", []byte("a:b"), []byte{0xEE}, "d", "n", true)
	do("fixed", "ci", "reg", []byte("a:b"), []byte{0xEE}, "d", "n", true)
	do("fixed", "cp", "unreg", []byte("a:b"), nil, "d", "n", true)
	do("fixed", "cp", "known", nil, nil, "d", "f", true)

	// ---- histories: several messages through one handler, subscribers keep Data() until the end ----
	hist := func(class, site string, bodies [][]byte, allow, edit string) {
		if n%500 == 499 {
			wd = newWorld()
		}
		n++
		hs := make([]string, len(bodies))
		for i, b := range bodies {
			hs[i] = hx.Hex(b)
		}
		op := fmt.Sprintf("hist %s %s %s %s", site, allow, edit, strings.Join(hs, ","))
		cur := wd
		out := hx.Guard(60*time.Second, func() string { return cur.history(site, bodies, allow, edit) })
		run.Case(class, op, out)
	}
	// the witness of a reused event buffer: the second body must not show up in the first event
	hist("fixed", "bp", [][]byte{[]byte("AAAAAAAA"), []byte("BBBBBBBB")}, "d", "n")
	hist("fixed", "bc", [][]byte{[]byte("AAAAAAAA"), []byte("BBBBBBBB")}, "y", "a")
	hist("fixed", "cp", [][]byte{[]byte("AAAAAAAA"), []byte("BBBB"), []byte("CCCCCCCCCCCC")}, "d", "f")
	{
		r := run.Rng
		for i := 0; i < run.Scale(150, 3000); i++ {
			k := 2 + r.Intn(4)
			bodies := make([][]byte, k)
			for j := range bodies {
				bodies[j] = r.Bytes(1 + r.Intn(24)) // non-empty: "-" would read as an empty list element
			}
			hist("history", hx.Pick(r, sites), bodies, hx.Pick(r, allows), hx.Pick(r, edits))
		}
	}

	// ---- the full table site × class × allow × edit × write outcome, with generated bodies ----
	r := run.Rng
	for rep := 0; rep < run.Scale(4, 60); rep++ {
		for _, site := range sites {
			for _, cls := range classes {
				for _, allow := range allows {
					for _, edit := range edits {
						for _, wok := range []bool{true, false} {
							do("table", site, cls, genData(r, cls), r.Bytes(1+r.Intn(12)), allow, edit, wok)
						}
					}
				}
			}
		}
	}
	// ---- random ----
	for i := 0; i < run.Scale(1500, 30000); i++ {
		cls := hx.Pick(r, classes)
		do("random", hx.Pick(r, sites), cls, genData(r, cls), r.Bytes(r.Intn(20)), hx.Pick(r, allows), hx.Pick(r, edits), !r.Chance(1, 5))
	}
	run.Finish()
}
