// C34 correspondence harness: drives the real packetlimiter counter/Limiter and addrquota
// Quota/ipKey (through the verif-tagged shim pkg/verifexport) and prints one case per line.
package main

import (
	"fmt"
	"math/big"
	"net"
	"net/netip"
	"runtime"
	"strings"
	"sync"
	"sync/atomic"
	"time"

	vx "go.minekube.com/gate/pkg/verifexport"

	"verifharness/hx"
)

const guardT = 5 * time.Second

var run *hx.Run

// ---------- addresses ----------

func parsed(text string) string {
	ip := net.ParseIP(text)
	if ip == nil {
		return "nil"
	}
	return hx.Hex(ip.To16())
}

var fixedAddrs = []string{
	"1.2.3.4", "::ffff:1.2.3.4", "::ffff:102:304", "1.2.3.255", "1.2.3.0", "1.2.4.0", "1.2.2.255", "0.0.0.0", "255.255.255.255",
	"127.0.0.1", "10.0.0.1", "10.0.1.1", "::ffff:0:0", "::ffff:ffff:ffff", "::fffe:1.2.3.4", "0:0:0:0:0:ffff:a00:1",
	"2001:db8::1", "2001:db8::2", "2001:db8:0:0:ffff:ffff:ffff:ffff", "2001:db8:0:1::", "2001:db8:0:1::1", "2001:db9::1",
	"::", "::1", "1::", "1::1", "0:0:0:1::", "0:0:0:1::5", "1:0:0:2::", "1:0:0:2:3::", "0:1:0:0::", "1:0:1:0::9", "0:0:1:0::", "1:2:0:0:1::",
	"1:2:3:4:5:6:7:8", "1:2:3:0:5:6:7:8", "0:2:3:4::", "a:b:c:d::", "ABCD:EF01:2345:6789::", "fe80::1", "fe80::1%eth0", "fe80::1%25eth0",
	"64:ff9b::1.2.3.4", "::1.2.3.4", "ffff:ffff:ffff:ffff:ffff:ffff:ffff:ffff", "ffff:ffff:ffff:fffe:ffff:ffff:ffff:ffff",
	"", " ", "garbage", "1.2.3", "1.2.3.4.5", "01.2.3.4", "1.2.3.256", "1.2.3.4:80", "[::1]", "[::1]:80", "1.2.3.4/24", "::ffff:1.2.3", ":::", "1:2:3:4:5:6:7:8:9",
	"localhost", "example.com", "1.2.3.4 ", "0x1.2.3.4", "١.٢.٣.٤",
}

func randV4(r *hx.Rng) [4]byte {
	var b [4]byte
	copy(b[:], r.Bytes(4))
	if r.Chance(1, 4) {
		b[3] = hx.Pick(r, []byte{0, 1, 127, 128, 254, 255})
	}
	if r.Chance(1, 6) {
		b[2] = hx.Pick(r, []byte{0, 1, 255})
	}
	return b
}

func randV6(r *hx.Rng) [16]byte {
	var b [16]byte
	copy(b[:], r.Bytes(16))
	// zero some 16-bit groups to exercise "::" placement in the key string
	for g := 0; g < 8; g++ {
		if r.Chance(2, 5) {
			b[2*g], b[2*g+1] = 0, 0
		} else if r.Chance(1, 5) {
			b[2*g] = 0
		}
	}
	return b
}

func textV4(r *hx.Rng, b [4]byte) string {
	switch r.Intn(4) {
	case 0:
		return fmt.Sprintf("::ffff:%d.%d.%d.%d", b[0], b[1], b[2], b[3])
	case 1:
		return fmt.Sprintf("::ffff:%x:%x", uint16(b[0])<<8|uint16(b[1]), uint16(b[2])<<8|uint16(b[3]))
	}
	return fmt.Sprintf("%d.%d.%d.%d", b[0], b[1], b[2], b[3])
}

func textV6(r *hx.Rng, b [16]byte) string {
	a := netip.AddrFrom16(b)
	switch r.Intn(4) {
	case 0:
		return a.StringExpanded()
	case 1:
		return strings.ToUpper(a.String())
	case 2:
		if a.Is4In6() {
			return a.String()
		}
		var gs []string
		for g := 0; g < 8; g++ {
			gs = append(gs, fmt.Sprintf("%x", uint16(b[2*g])<<8|uint16(b[2*g+1])))
		}
		return strings.Join(gs, ":")
	}
	return a.String()
}

func randAddrText(r *hx.Rng) string {
	switch r.Intn(12) {
	case 0:
		return hx.Pick(r, fixedAddrs)
	case 1:
		return string(r.Bytes(r.Intn(6)))
	case 2:
		return textV6(r, randV6(r)) + "%" + hx.Pick(r, []string{"eth0", "1", ""})
	case 3, 4, 5, 6:
		return textV4(r, randV4(r))
	}
	return textV6(r, randV6(r))
}

func opIPKey(class, text string) {
	out := hx.Guard(guardT, func() string { return hx.HexS(vx.C34IPKey(text)) })
	run.Case(class, "ipkey "+hx.HexS(text)+" "+parsed(text), out)
}

func opSameKey(class, a, b string) {
	out := hx.Guard(guardT, func() string {
		ka, kb := vx.C34IPKey(a), vx.C34IPKey(b)
		if ka != "" && ka == kb {
			return "1"
		}
		return "0"
	})
	run.Case(class, "samekey "+hx.HexS(a)+" "+parsed(a)+" "+hx.HexS(b)+" "+parsed(b), out)
}

// neighbour returns an address text that differs from the given one in one bit (biased to the
// bucket boundary), or a differently spelled / other-family address.
func neighbour(r *hx.Rng, v6 bool, b4 [4]byte, b6 [16]byte) string {
	if !v6 {
		bit := hx.Pick(r, []int{0, 7, 8, 15, 16, 22, 23, 24, 25, 30, 31, 23, 24})
		if r.Chance(1, 3) {
			bit = r.Intn(32)
		}
		if !r.Chance(1, 5) {
			b4[bit/8] ^= 0x80 >> (bit % 8)
		}
		if r.Chance(1, 3) {
			b4[3] = byte(r.U64())
		}
		return textV4(r, b4)
	}
	bit := hx.Pick(r, []int{0, 15, 16, 47, 48, 62, 63, 64, 65, 79, 80, 95, 96, 127, 63, 64})
	if r.Chance(1, 3) {
		bit = r.Intn(128)
	}
	if !r.Chance(1, 5) {
		b6[bit/8] ^= 0x80 >> (bit % 8)
	}
	if r.Chance(1, 3) {
		copy(b6[8:], r.Bytes(8))
	}
	return textV6(r, b6)
}

func ipSection() {
	r := run.Rng
	for _, a := range fixedAddrs {
		opIPKey("ipkey-fixed", a)
	}
	for i, a := range fixedAddrs {
		for j, b := range fixedAddrs {
			if (i+j)%3 == 0 || i == j || i < 12 && j < 12 {
				opSameKey("samekey-fixed", a, b)
			}
		}
	}
	n := run.Scale(4000, 40000)
	for i := 0; i < n; i++ {
		opIPKey("ipkey-random", randAddrText(r))
	}
	for i := 0; i < n; i++ {
		switch r.Intn(10) {
		case 0:
			opSameKey("samekey-random", randAddrText(r), randAddrText(r))
		case 1, 2, 3, 4:
			b := randV4(r)
			opSameKey("samekey-v4-neighbour", textV4(r, b), neighbour(r, false, b, [16]byte{}))
		case 5:
			// v4 vs an IPv6 address that is not v4-mapped but shares low bytes
			b := randV4(r)
			var b6 [16]byte
			copy(b6[12:], b[:])
			b6[10], b6[11] = hx.Pick(r, []byte{0, 0xff, 0xfe}), hx.Pick(r, []byte{0, 0xff})
			b6[r.Intn(10)] = hx.Pick(r, []byte{0, 0, 1})
			opSameKey("samekey-v4-vs-v6", textV4(r, b), textV6(r, b6))
		default:
			b := randV6(r)
			opSameKey("samekey-v6-neighbour", textV6(r, b), neighbour(r, true, [4]byte{}, b))
		}
	}
}

// ---------- counter ----------

const cksM = 1000000007

func cks(xs []int64) int64 {
	var acc int64
	for i, x := range xs {
		m := ((x % cksM) + cksM) % cksM
		acc = (acc + m*int64(i+1)%cksM) % cksM
	}
	return acc
}

func showCounter(c vx.C34Counter) string {
	_, times, counts, head, tail, total, minTime := c.State()
	return fmt.Sprintf("s=%d h=%d t=%d n=%d m=%d ct=%d cc=%d", total, head, tail, len(times), minTime, cks(times), cks(counts))
}

type counterDrv struct{ c vx.C34Counter }

func (d *counterDrv) fresh(class string, interval int64) {
	d.c = vx.C34NewCounter(time.Duration(interval))
	run.Case(class, fmt.Sprintf("cnew %d", interval), "ok")
}
func (d *counterDrv) add(class string, now, count int64) {
	out := hx.Guard(guardT, func() string { d.c.UpdateAndAdd(count, now); return showCounter(d.c) })
	run.Case(class, fmt.Sprintf("cadd %d %d", now, count), out)
}
func (d *counterDrv) expire(class string, now int64) {
	out := hx.Guard(guardT, func() string { d.c.Expire(now); return showCounter(d.c) })
	run.Case(class, fmt.Sprintf("cexp %d", now), out)
}
func (d *counterDrv) put(class string, now, count int64) {
	out := hx.Guard(guardT, func() string { d.c.Add(now, count); return showCounter(d.c) })
	run.Case(class, fmt.Sprintf("cput %d %d", now, count), out)
}

func genCount(r *hx.Rng, neg bool) int64 {
	switch r.Intn(8) {
	case 0:
		return 0
	case 1:
		return 1
	case 2:
		return int64(hx.Pick(r, []int{2, 127, 128, 1500, 32767, 2097151, 1 << 31}))
	case 3:
		if neg {
			return -int64(r.Intn(50))
		}
	}
	return int64(r.Intn(3000))
}

// one generated counter history. style: 0 monotone, 1 non-monotone, 2 raw expire/add mix
func counterSeq(r *hx.Rng, style int, steps int) {
	var d counterDrv
	interval := hx.Pick(r, []int64{0, 1, 2, 5, 10, 100, 1000, 1000000, 1000000000, 7000000000, 3600000000000})
	if style == 2 && r.Chance(1, 4) {
		interval = -hx.Pick(r, []int64{1, 5, 1000})
	}
	class := []string{"counter-mono", "counter-nonmono", "counter-raw"}[style]
	d.fresh(class, interval)
	base := hx.Pick(r, []int64{0, 1, 1000, 1700000000000000000, 1 << 62})
	now := base
	unit := interval
	if unit < 1 {
		unit = 1
	}
	neg := r.Chance(1, 5)
	burst := 0
	for i := 0; i < steps; i++ {
		// time advance: bursts at the same instant, small steps, steps around the window, long gaps
		var dt int64
		if burst > 0 {
			burst--
			dt = int64(r.Intn(2)) * (unit / 64)
		} else {
			switch r.Intn(12) {
			case 0:
				burst = hx.Pick(r, []int{3, 7, 8, 9, 15, 16, 17, 31, 33, 70})
			case 1, 2:
				dt = 0
			case 3:
				dt = unit
			case 4:
				dt = unit + 1
			case 5:
				dt = unit - 1
			case 6:
				dt = unit*2 + int64(r.Intn(5))
			case 7:
				dt = unit / 2
			default:
				dt = int64(r.U64() % uint64(unit/4+2))
			}
		}
		if dt < 0 {
			dt = 0
		}
		now += dt
		t := now
		if style == 1 && r.Chance(1, 4) {
			t = now - int64(r.U64()%uint64(3*unit+1))
			if r.Chance(1, 3) {
				now = t
			}
		}
		switch {
		case style == 2 && r.Chance(1, 3):
			d.expire(class, t)
		case style == 2 && r.Chance(1, 2):
			pt := t
			if r.Chance(1, 2) {
				pt = t - int64(r.U64()%uint64(3*unit+1))
			}
			d.put(class, pt, genCount(r, neg))
		default:
			d.add(class, t, genCount(r, neg))
		}
	}
}

func counterFixed() {
	var d counterDrv
	// wrap-around followed by a resize while head > tail; then a gap longer than the window
	d.fresh("counter-fixed", 10)
	for t := int64(0); t < 6; t++ {
		d.add("counter-fixed", t, t+1)
	}
	for t := int64(13); t < 24; t++ { // expires 0..3 first, wraps, then fills up and resizes with head > tail
		d.add("counter-fixed", t, 100+t)
	}
	d.add("counter-fixed", 24, 1)
	d.add("counter-fixed", 34, 1) // boundary: entries with t == now-interval stay
	d.add("counter-fixed", 35, 1)
	d.add("counter-fixed", 1000, 7) // everything else expires
	d.add("counter-fixed", 1000, 0)
	// exact fill to capacity-1 and capacity (8 slots: the 8th live entry forces the resize)
	d.fresh("counter-fixed", 1000)
	for i := int64(0); i < 40; i++ {
		d.add("counter-fixed", 5, i)
	}
	d.add("counter-fixed", 1005, 1)
	d.add("counter-fixed", 1006, 1)
	// the non-monotone witness of Props.nonmonotone_overcounts
	d.fresh("counter-nonmono", 10)
	d.add("counter-nonmono", 100, 1)
	d.add("counter-nonmono", 50, 1)
	d.add("counter-nonmono", 105, 1)
	// add() older than the window is ignored
	d.fresh("counter-raw", 10)
	d.expire("counter-raw", 100)
	d.put("counter-raw", 89, 5)
	d.put("counter-raw", 90, 5)
}

func counterSection() {
	r := run.Rng
	counterFixed()
	for i := 0; i < run.Scale(60, 400); i++ {
		counterSeq(r, 0, hx.Pick(r, []int{20, 60, 200, 600}))
	}
	for i := 0; i < run.Scale(15, 100); i++ {
		counterSeq(r, 1, hx.Pick(r, []int{20, 60, 200}))
	}
	for i := 0; i < run.Scale(15, 100); i++ {
		counterSeq(r, 2, hx.Pick(r, []int{20, 60, 200}))
	}
}

// ---------- Limiter ----------

type limDrv struct {
	l   *vx.C34Limiter
	win int64
}

func (d *limDrv) fresh(class string, pps, bps int, win int64) {
	d.l = vx.C34NewLimiter(pps, bps, time.Duration(win))
	d.win = win
	out := "ok"
	if d.l == nil {
		out = "nil"
	}
	run.Case(class, fmt.Sprintf("lnew %d %d %d", pps, bps, win), out)
}

// account calls the real Account (real clock) and recovers the clock value it used from the counter.
func (d *limDrv) account(class string, bytes int) bool {
	var now int64
	var res bool
	out := hx.Guard(guardT, func() string {
		res = d.l.Account(bytes)
		if d.l == nil {
			return "1 p=- b=-"
		}
		p, b := d.l.C34Packets(), d.l.C34Bytes()
		ps, bs := "-", "-"
		if p.Valid() {
			ps = fmt.Sprint(p.Sum())
			iv, _, _, _, _, _, m := p.State()
			now = m + iv
		}
		if b.Valid() {
			bs = fmt.Sprint(b.Sum())
			if !p.Valid() {
				iv, _, _, _, _, _, m := b.State()
				now = m + iv
			}
		}
		o := "0"
		if res {
			o = "1"
		}
		return o + " p=" + ps + " b=" + bs
	})
	run.Case(class, fmt.Sprintf("lacct %d %d", now, bytes), out)
	return res
}

func limiterSection() {
	r := run.Rng
	var d limDrv
	// New(): which configurations disable the limiter
	for _, pps := range []int{-1, 0, 1, 5} {
		for _, bps := range []int{-1, 0, 7} {
			for _, win := range []int64{-1, 0, 1, 1000000000} {
				d.fresh("limiter-new", pps, bps, win)
				d.account("limiter-new", 3)
			}
		}
	}
	// default configuration: 500 packets/s over 7 s => the 3501st packet in one window closes
	d.fresh("limiter-default", 500, -1, 7000000000)
	for i := 0; i < 3503; i++ {
		d.account("limiter-default", 10)
	}
	// long windows (every event stays in the window): boundary K = rate*window
	type cfg struct {
		pps, bps int
		win      int64
	}
	cfgs := []cfg{{1, 0, 20e9}, {3, 0, 7e9}, {1, 0, 3600e9}, {0, 100, 10e9}, {2, 1000, 60e9}, {7, 3, 1500e6 * 40}, {1, 1, 90e9}, {50, 0, 2500e6}}
	for i := 0; i < run.Scale(10, 60); i++ {
		win := hx.Pick(r, []int64{10e9, 60e9, 3600e9, 12345678901, 7e9 + 1})
		c := cfg{win: win}
		k := int64(1 + r.Intn(run.Scale(300, 1500)))
		// pick a rate so that rate*window is about k
		rate := int(k * 1000000000 / win)
		switch r.Intn(3) {
		case 0:
			c.pps = rate + 1
		case 1:
			c.bps = (rate+1)*hx.Pick(r, []int{1, 10, 1000}) + r.Intn(3)
		default:
			c.pps, c.bps = rate+1, (rate+1)*50+r.Intn(50)
		}
		cfgs = append(cfgs, c)
	}
	for _, c := range cfgs {
		d.fresh("limiter-longwindow", c.pps, c.bps, c.win)
		kp := int64(c.pps) * c.win / 1000000000
		kb := int64(c.bps) * c.win / 1000000000
		var sent, sentBytes int64
		after := 0
		for after < 3 && sent < 20000 {
			size := r.Intn(120)
			if c.bps > 0 {
				left := kb - sentBytes
				switch {
				case left > 0 && left < 400 && r.Chance(1, 2):
					size = int(left) // land exactly on the boundary
				case left == 0:
					size = r.Intn(2)
				case c.pps == 0 || kp-sent > 8:
					size = int(left/int64(3+r.Intn(20))) + r.Intn(5)
				}
			}
			ok := d.account("limiter-longwindow", size)
			sent++
			sentBytes += int64(size)
			if !ok {
				after++
			}
		}
	}
	// single-call byte boundary probes: the float64 comparison at K and K+1 for many configurations
	for i := 0; i < run.Scale(1500, 20000); i++ {
		var win int64
		switch r.Intn(5) {
		case 0:
			win = int64(1+r.Intn(20000)) * 1000000 // ms granularity
		case 1:
			win = int64(1+r.Intn(3600)) * 1000000000
		case 2:
			win = 1 + int64(r.U64()%20000000000) // ns granularity
		case 3:
			win = hx.Pick(r, []int64{1, 2, 999999999, 1000000000, 1000000001, 7000000000, 500000000, 333333333})
		default:
			win = int64(1+r.Intn(100000)) * 1000
		}
		var bps int64
		switch r.Intn(4) {
		case 0:
			bps = int64(1 + r.Intn(1000))
		case 1:
			bps = int64(1 + r.Intn(10000000))
		case 2:
			bps = 1 + int64(r.U64()%(1<<31))
		default:
			bps = hx.Pick(r, []int64{1, 2, 3, 7, 10, 500, 1000, 65536, 1000000, 1 << 30})
		}
		hi, lo := new(big.Int).Mul(big.NewInt(bps), big.NewInt(win)), big.NewInt(1000000000)
		k := new(big.Int).Div(hi, lo)
		if !k.IsInt64() || k.Int64() >= 1<<40 {
			continue
		}
		for _, size := range []int64{k.Int64(), k.Int64() + 1} {
			d.fresh("limiter-boundary", 0, int(bps), win)
			d.account("limiter-boundary", int(size))
		}
	}
	// real time: short windows, sleeps shorter and longer than the window
	for i := 0; i < run.Scale(6, 40); i++ {
		win := hx.Pick(r, []int64{2e6, 5e6, 10e6})
		pps := hx.Pick(r, []int{1000, 3000, 10000}) // K = 2..100 packets per window
		bps := 0
		if r.Bool() {
			bps = pps * 40
		}
		d.fresh("limiter-realtime", pps, bps, win)
		for j := 0; j < 12; j++ {
			nb := 1 + r.Intn(int(int64(pps)*win/1000000000)+2)
			for b := 0; b < nb; b++ {
				d.account("limiter-realtime", r.Intn(80))
			}
			time.Sleep(time.Duration(hx.Pick(r, []int64{0, win / 4, win / 2, win + win/2, 3 * win})))
		}
	}
}

// ---------- Quota ----------

func ratOf(eps float32) (num, den *big.Int) {
	q := new(big.Rat).SetFloat64(float64(eps))
	return q.Num(), q.Denom()
}

func quotaSection() {
	r := run.Rng
	for i := 0; i < run.Scale(60, 500); i++ {
		eps := float32(0)
		if r.Chance(1, 3) {
			eps = 1e-7 // refill over the whole run stays far below one token
		}
		burst := hx.Pick(r, []int{0, 1, 1, 2, 3, 5, 10})
		maxEntries := hx.Pick(r, []int{0, 1, 2, 3, 4, 8, 1000, -1})
		q := vx.C34NewQuota(eps, burst, maxEntries)
		num, den := ratOf(eps)
		run.Case("quota", fmt.Sprintf("qnew %s %s %d %d", num, den, burst, maxEntries), "ok")
		// address pool: a few groups, several spellings/members each, plus unparsable strings
		ngroups := 1 + r.Intn(6)
		if maxEntries > 0 && maxEntries < 10 && r.Chance(2, 3) {
			ngroups = maxEntries + r.Intn(3) - 1
			if ngroups < 1 {
				ngroups = 1
			}
		}
		type grp struct {
			v6 bool
			b4 [4]byte
			b6 [16]byte
		}
		var gs []grp
		for g := 0; g < ngroups; g++ {
			gs = append(gs, grp{v6: r.Bool(), b4: randV4(r), b6: randV6(r)})
		}
		class := "quota-within-capacity"
		if maxEntries != 0 && ngroups > maxEntries {
			class = "quota-evicting"
		}
		for j := 0; j < hx.Pick(r, []int{10, 40, 120}); j++ {
			var text string
			if r.Chance(1, 15) {
				text = hx.Pick(r, []string{"", "garbage", "fe80::1%eth0", "1.2.3", "1.2.3.4:5"})
			} else {
				g := gs[r.Intn(len(gs))]
				if g.v6 {
					copy(g.b6[8:], r.Bytes(8))
					text = textV6(r, g.b6)
				} else {
					g.b4[3] = byte(r.U64())
					text = textV4(r, g.b4)
				}
			}
			out := hx.Guard(guardT, func() string {
				if q.Blocked(text) {
					return "1"
				}
				return "0"
			})
			run.Case(class, "qblk 0 "+hx.HexS(text)+" "+parsed(text), out)
		}
	}
	// real time: hammer one group and check allowed <= burst + rate*elapsed on the real clock
	for i := 0; i < run.Scale(6, 40); i++ {
		eps := hx.Pick(r, []float32{0.4, 5, 50, 200, 1000, 2500.5})
		burst := hx.Pick(r, []int{1, 3, 10, 20})
		q := vx.C34NewQuota(eps, burst, 1000)
		b := randV4(r)
		dur := time.Duration(hx.Pick(r, []int{5, 20, 40})) * time.Millisecond
		attempts, allowed := 0, 0
		t0 := time.Now()
		for time.Since(t0) < dur {
			b[3] = byte(attempts)
			if !q.Blocked(textV4(r, b)) {
				allowed++
			}
			attempts++
			if attempts%64 == 0 {
				time.Sleep(time.Duration(r.Intn(3)) * time.Millisecond)
			}
		}
		elapsed := time.Since(t0)
		num, den := ratOf(eps)
		run.Case("quota-realtime", fmt.Sprintf("qrt %s %s %d %d %d %d", num, den, burst, attempts, allowed, elapsed.Nanoseconds()), "rt")
	}
}

// scramble decorrelates seeds: hx.NewRng(k+1) is hx.NewRng(k) advanced by one step, so consecutive
// seeds would otherwise produce the same stream shifted by one draw.
func scramble(z uint64) uint64 {
	z = (z ^ (z >> 30)) * 0xBF58476D1CE4E5B9
	z = (z ^ (z >> 27)) * 0x94D049BB133111EB
	return z ^ (z >> 31) ^ 0xC34
}

// quotaConcurrent: first contact of one group from several goroutines at once.  With rate 0 every
// linearisation of correct code (get-or-create under the Quota mutex, Allow under the limiter's) lets exactly
// min(attempts, burst) events of the group through, so the outcome is schedule-independent on correct code;
// a check-then-act lookup hands concurrent first events separate full buckets and shows up as max > burst.
func quotaConcurrent() {
	r := run.Rng
	for batch := 0; batch < run.Scale(24, 200); batch++ {
		burst := hx.Pick(r, []int{1, 1, 2, 3})
		maxEntries := hx.Pick(r, []int{0, 1, 1000}) // 1: every round's group arrives right after an eviction
		workers := hx.Pick(r, []int{2, 4, 8, 16})
		per := hx.Pick(r, []int{1, 1, 2})
		rounds := 150
		v6 := r.Bool()
		base4, base6 := randV4(r), randV6(r)
		spell := make([]uint64, workers) // per-worker seeds for the address spelling
		for i := range spell {
			spell[i] = r.U64()
		}
		minA, maxA, witness, witnessA := 1<<30, -1, "-", 0
		out := hx.Guard(60*time.Second, func() string {
			q := vx.C34NewQuota(0, burst, maxEntries)
			for round := 0; round < rounds; round++ {
				// a fresh group per round
				b4, b6 := base4, base6
				b4[1], b4[2] = byte(round>>8), byte(round)
				b6[6], b6[7] = byte(round>>8), byte(round)
				var ready, allowed atomic.Int32
				var wg sync.WaitGroup
				for w := 0; w < workers; w++ {
					wg.Add(1)
					go func(w int) {
						defer wg.Done()
						wr := hx.NewRng(spell[w] + uint64(round))
						texts := make([]string, per)
						for k := range texts {
							if v6 {
								m := b6
								copy(m[8:], wr.Bytes(8))
								texts[k] = textV6(wr, m)
							} else {
								m := b4
								m[3] = byte(wr.U64())
								texts[k] = textV4(wr, m)
							}
						}
						ready.Add(1)
						for spins := 0; ready.Load() < int32(workers); spins++ {
							if spins > 200 {
								runtime.Gosched()
							}
						}
						for _, t := range texts {
							if !q.Blocked(t) {
								allowed.Add(1)
							}
						}
					}(w)
				}
				wg.Wait()
				a := int(allowed.Load())
				if a < minA {
					minA = a
				}
				if a > maxA {
					maxA = a
					if a > burst {
						if v6 {
							witness, witnessA = hx.HexS(netip.AddrFrom16(b6).String()), a
						} else {
							witness, witnessA = hx.HexS(netip.AddrFrom4(b4).String()), a
						}
					}
				}
			}
			return fmt.Sprintf("min=%d max=%d", minA, maxA)
		})
		run.Case("quota-concurrent", fmt.Sprintf("qconc 0 1 %d %d %d %d %d %s %d", burst, maxEntries, workers, per, rounds, witness, witnessA), out)
	}
}

func main() {
	run = hx.Start()
	run.Rng = hx.NewRng(scramble(run.Seed))
	run.Extra["initialCounterSize"] = vx.C34InitialCounterSize
	ipSection()
	run.Case("reset", "reset", "ok")
	counterSection()
	limiterSection()
	quotaSection()
	quotaConcurrent()
	run.Finish()
}
