// C20 correspondence harness: drives the real velocity.CreateForwardingData (through the verif shim) and
// the real backendLoginSessionHandler (through the verif constructor, packet by packet over a fake
// netmc.MinecraftConn).
package main

import (
	"context"
	"crypto/rsa"
	"errors"
	"fmt"
	"math"
	"net"
	"runtime"
	"strconv"
	"strings"
	"sync"
	"time"

	"go.minekube.com/gate/pkg/edition/java/config"
	"go.minekube.com/gate/pkg/edition/java/netmc"
	"go.minekube.com/gate/pkg/edition/java/profile"
	"go.minekube.com/gate/pkg/edition/java/proto/packet"
	"go.minekube.com/gate/pkg/edition/java/proto/state"
	"go.minekube.com/gate/pkg/edition/java/proto/version"
	"go.minekube.com/gate/pkg/edition/java/proxy"
	"go.minekube.com/gate/pkg/edition/java/proxy/crypto"
	"go.minekube.com/gate/pkg/edition/java/proxy/crypto/keyrevision"
	"go.minekube.com/gate/pkg/edition/java/proxy/phase"
	"go.minekube.com/gate/pkg/edition/java/verifexport"
	"go.minekube.com/gate/pkg/gate/proto"
	"go.minekube.com/gate/pkg/util/uuid"

	"verifharness/hx"
)

// ---------- keys ----------

type otherRevision struct{ n int }

func (o *otherRevision) ApplicableTo() []proto.Protocol { return nil }

type fakeKey struct {
	revName string // nil | v1 | v2 | other
	expiry  int64
	pub     []byte
	sig     []byte
	holder  uuid.UUID
}

func (k *fakeKey) Signer() *rsa.PublicKey    { return nil }
func (k *fakeKey) ExpiryTemporal() time.Time { return time.UnixMilli(k.expiry) }

// Expired mirrors crypto.identifiedKey: wall clock against the expiry instant. Nothing in the forwarding
// code may depend on it (Velocity negotiates from requested version, protocol and key revision alone).
func (k *fakeKey) Expired() bool                              { return time.Now().After(k.ExpiryTemporal()) }
func (k *fakeKey) Signature() []byte                          { return k.sig }
func (k *fakeKey) SignatureValid() bool                       { return true }
func (k *fakeKey) Salt() []byte                               { return nil }
func (k *fakeKey) SignedPublicKey() *rsa.PublicKey            { return nil }
func (k *fakeKey) SignedPublicKeyBytes() []byte               { return k.pub }
func (k *fakeKey) SignatureHolder() uuid.UUID                 { return k.holder }
func (k *fakeKey) VerifyDataSignature([]byte, ...[]byte) bool { return false }
func (k *fakeKey) KeyRevision() keyrevision.Revision {
	switch k.revName {
	case "v1":
		return keyrevision.GenericV1
	case "v2":
		return keyrevision.LinkedV2
	case "other":
		return &otherRevision{7}
	}
	return nil
}

var _ crypto.IdentifiedKey = (*fakeKey)(nil)

func (k *fakeKey) show() string {
	if k == nil {
		return "-"
	}
	return fmt.Sprintf("%s,%d,%s,%s,%s", k.revName, k.expiry, hx.Hex(k.pub), hx.Hex(k.sig), hx.Hex(k.holder[:]))
}

// ---------- players ----------

type fakePlayer struct {
	id    uuid.UUID
	name  string
	props []profile.Property
	proto proto.Protocol
	key   *fakeKey
}

func (p *fakePlayer) ID() uuid.UUID    { return p.id }
func (p *fakePlayer) Username() string { return p.name }
func (p *fakePlayer) GameProfile() profile.GameProfile {
	return profile.GameProfile{ID: p.id, Name: p.name, Properties: p.props}
}
func (p *fakePlayer) Protocol() proto.Protocol { return p.proto }
func (p *fakePlayer) IdentifiedKey() crypto.IdentifiedKey {
	if p.key == nil {
		return nil // a nil interface, like a player without key
	}
	return p.key
}

func showProps(ps []profile.Property) string {
	if len(ps) == 0 {
		return "_"
	}
	var sb []string
	for _, p := range ps {
		sb = append(sb, hx.HexS(p.Name)+","+hx.HexS(p.Value)+","+hx.HexS(p.Signature))
	}
	return strings.Join(sb, ";")
}

func (p *fakePlayer) show() string {
	return fmt.Sprintf("%s %s %s %d %s", hx.Hex(p.id[:]), hx.HexS(p.name), showProps(p.props), int(p.proto), p.key.show())
}

// ---------- generators ----------

const nameChars = "abcdefghijklmnopqrstuvwxyzABCDEFGHIJKLMNOPQRSTUVWXYZ0123456789_"
const b64Chars = "ABCDEFGHIJKLMNOPQRSTUVWXYZabcdefghijklmnopqrstuvwxyz0123456789+/="

func randStr(r *hx.Rng, alphabet string, n int) string {
	b := make([]byte, n)
	for i := range b {
		b[i] = alphabet[r.Intn(len(alphabet))]
	}
	return string(b)
}

func genName(r *hx.Rng, hostile bool) string {
	if hostile {
		switch r.Intn(5) {
		case 0:
			return ""
		case 1:
			return randStr(r, nameChars, 17+r.Intn(40))
		case 2:
			return string(r.Bytes(1 + r.Intn(20))) // arbitrary bytes
		case 3:
			return "ÄÖÜ" + randStr(r, nameChars, r.Intn(8)) // multi-byte UTF-8
		}
	}
	switch r.Intn(6) {
	case 0:
		return randStr(r, nameChars, 16)
	case 1:
		return randStr(r, nameChars, 1)
	case 2:
		return "." + randStr(r, nameChars, 3+r.Intn(12)) // floodgate-style prefix
	}
	return randStr(r, nameChars, 3+r.Intn(14))
}

func genValueLen(r *hx.Rng) int {
	switch r.Intn(10) {
	case 0:
		return 0
	case 1:
		return hx.Pick(r, []int{1, 127, 128, 129, 255, 256})
	case 2:
		return 300 + r.Intn(1500) // a textures blob
	}
	return r.Intn(48)
}

func genProps(r *hx.Rng, hostile bool) []profile.Property {
	n := 0
	switch r.Intn(6) {
	case 0:
		n = 0
	case 1:
		n = 1
	case 2:
		n = 2 + r.Intn(4)
	default:
		n = r.Intn(3)
	}
	many := hostile && r.Chance(1, 6)
	if many {
		n = 130 // the count needs two VarInt bytes
	}
	ps := make([]profile.Property, 0, n)
	for i := 0; i < n; i++ {
		p := profile.Property{}
		switch r.Intn(4) {
		case 0:
			p.Name = "textures"
		case 1:
			p.Name = randStr(r, nameChars, r.Intn(20))
		case 2:
			p.Name = ""
		default:
			p.Name = hx.Pick(r, []string{"textures", "extraData", "bungeeguard-token", "forgeClient"})
		}
		switch {
		case many:
			p.Value = randStr(r, b64Chars, r.Intn(6))
		case hostile && r.Chance(1, 4):
			p.Value = string(r.Bytes(r.Intn(40)))
		default:
			p.Value = randStr(r, b64Chars, genValueLen(r))
		}
		if r.Bool() {
			p.Signature = randStr(r, b64Chars, hx.Pick(r, []int{1, 2, 88, 684}))
		}
		ps = append(ps, p)
	}
	// at most one oversized field per profile (Paper's readUtf limit is 32767)
	if hostile && !many && len(ps) > 0 && r.Chance(1, 3) {
		big := randStr(r, b64Chars, hx.Pick(r, []int{32767, 32768, 32769}))
		switch i := r.Intn(len(ps)); r.Intn(3) {
		case 0:
			ps[i].Name = big
		case 1:
			ps[i].Value = big
		default:
			ps[i].Signature = big
		}
	}
	return ps
}

var protoTable = []int{-1, 0, 4, 47, 340, 498, 754, 757, 758, 759, 760, 761, 762, 763, 764, 765, 766, 767, 768, 769, 770, 774,
	760, 761, 759, math.MaxInt32, math.MinInt32, 1 << 30}

func genProto(r *hx.Rng) proto.Protocol {
	if r.Chance(1, 8) {
		return proto.Protocol(int32(r.U64()))
	}
	return proto.Protocol(hx.Pick(r, protoTable))
}

var expiryTable = []int64{-62135596800000, 0, 1, -1, 999, 1000, -1000, 1700000000000, math.MaxInt32, 1 << 40, -(1 << 40),
	1790000000000, 1790035199999, 4102444800000, 32503680000000, 1 << 50}

func genKey(r *hx.Rng, hostile bool) *fakeKey {
	if r.Chance(1, 3) {
		return nil
	}
	k := &fakeKey{}
	switch r.Intn(8) {
	case 0:
		k.revName = "nil"
	case 1:
		k.revName = "other"
	case 2, 3, 4:
		k.revName = "v1"
	default:
		k.revName = "v2"
	}
	switch r.Intn(5) {
	case 0:
		// expiry as a dimension of its own: zero time.Time, long ago, just expired (fixed instants shortly
		// before this check was written), far future
		k.expiry = hx.Pick(r, expiryTable)
	case 1:
		k.expiry = int64(r.U64()>>12) - (1 << 50) // roughly ±35k years in ms: inside time.Time's exact range
	default:
		k.expiry = 1600000000000 + int64(r.Intn(400000000))*1000 + int64(r.Intn(1000))
	}
	pubLen := hx.Pick(r, []int{294, 294, 294, 162, 0, 1, 512})
	sigLen := hx.Pick(r, []int{256, 256, 512, 0, 1, 4096})
	if hostile {
		pubLen = hx.Pick(r, []int{513, 600, 294})
		sigLen = hx.Pick(r, []int{4097, 5000, 256})
	}
	k.pub = r.Bytes(pubLen)
	k.sig = r.Bytes(sigLen)
	if r.Bool() {
		copy(k.holder[:], r.Bytes(16))
	}
	return k
}

func genAddress(r *hx.Rng, hostile bool) (net.IP, string) {
	var ip net.IP
	switch r.Intn(6) {
	case 0:
		ip = net.IPv4(127, 0, 0, 1).To4()
	case 1:
		ip = net.ParseIP("::1")
	case 2:
		ip = net.IP(r.Bytes(16))
	case 3:
		ip = net.ParseIP("2001:db8::" + strconv.FormatInt(int64(r.Intn(65536)), 16))
	default:
		ip = net.IP(r.Bytes(4))
	}
	s := ip.String()
	if hostile {
		switch r.Intn(3) {
		case 0:
			s = ""
		case 1:
			s = randStr(r, nameChars+".:%[]", r.Intn(60))
		case 2:
			s = randStr(r, "0123456789abcdef:", hx.Pick(r, []int{32767, 32768}))
		}
	}
	return ip, s
}

func genSecret(r *hx.Rng) []byte {
	switch r.Intn(8) {
	case 0:
		return nil
	case 1:
		return r.Bytes(hx.Pick(r, []int{1, 63, 64, 65, 128, 131, 200}))
	case 2:
		return []byte(randStr(r, nameChars, 12))
	}
	return []byte(randStr(r, nameChars+"-!$%&", 8+r.Intn(40)))
}

func genPlayer(r *hx.Rng, hostile bool) *fakePlayer {
	p := &fakePlayer{name: genName(r, hostile), props: genProps(r, hostile), proto: genProto(r), key: genKey(r, hostile)}
	switch r.Intn(5) {
	case 0: // uuid.Nil
	case 1:
		p.id = uuid.OfflinePlayerUUID(p.name)
	default:
		copy(p.id[:], r.Bytes(16))
	}
	return p
}

var requestedTable = []int{-129, -128, -5, -1, 0, 1, 2, 3, 4, 5, 6, 100, 127, 128, 129, 200, 255, 256, 257, math.MaxInt32, math.MinInt32, math.MaxInt64, math.MinInt64}

// ---------- section A: CreateForwardingData ----------

func cfdCase(run *hx.Run, class string, secret []byte, addr string, p *fakePlayer, requested int) {
	op := fmt.Sprintf("cfd %s %s %s %d", hx.Hex(secret), hx.HexS(addr), p.show(), requested)
	out := hx.Guard(20*time.Second, func() string {
		d, err := verifexport.C20CreateForwardingData(secret, addr, p, requested)
		if err != nil {
			return "err"
		}
		return "ok " + hx.Hex(d)
	})
	run.Case(class, op, out)
}

// ---------- section A': the returned payload must stay what it was ----------
//
// A payload is handed to mc.WritePacket after CreateForwardingData returns, while other backend logins
// build theirs.  These probes keep the returned slice WITHOUT copying it, let other payloads be built
// (same goroutine and another one), and only then report the bytes of the first result.  On correct code
// the slice is the caller's own and the report is a pure function of input A.

type cfdInput struct {
	secret []byte
	addr   string
	p      *fakePlayer
	req    int
}

func (c cfdInput) show() string {
	return fmt.Sprintf("%s %s %s %d", hx.Hex(c.secret), hx.HexS(c.addr), c.p.show(), c.req)
}

func (c cfdInput) call() ([]byte, error) {
	return verifexport.C20CreateForwardingData(c.secret, c.addr, c.p, c.req)
}

func genValidInput(r *hx.Rng) cfdInput {
	p := genPlayer(r, false)
	_, addr := genAddress(r, false)
	return cfdInput{secret: genSecret(r), addr: addr, p: p, req: 1 + r.Intn(4)}
}

// aliasCase: build A, keep the slice, build B three times here and three times on another goroutine,
// then look at A's slice again.
func aliasCase(run *hx.Run, class string, a, b cfdInput) {
	op := fmt.Sprintf("alias %s %s", a.show(), b.show())
	out := hx.Guard(20*time.Second, func() string {
		held, err := a.call()
		if err != nil {
			return "err"
		}
		for i := 0; i < 3; i++ {
			_, _ = b.call()
		}
		done := make(chan struct{})
		go func() {
			defer close(done)
			for i := 0; i < 3; i++ {
				_, _ = b.call()
			}
		}()
		<-done
		return "ok " + hx.Hex(held)
	})
	run.Case(class, op, out)
}

// concRound: n goroutines with distinct inputs each build their payload, yield, and report what their own
// slice holds afterwards.  Results are emitted in index order, so the trace does not depend on scheduling.
func concRound(run *hx.Run, class string, round int, ins []cfdInput) {
	outs := make([]string, len(ins))
	start := make(chan struct{})
	var wg sync.WaitGroup
	for i := range ins {
		wg.Add(1)
		go func(i int) {
			defer wg.Done()
			defer func() {
				if recover() != nil {
					outs[i] = "panic"
				}
			}()
			<-start
			held, err := ins[i].call()
			if err != nil {
				outs[i] = "err"
				return
			}
			for k := 0; k < 4; k++ {
				runtime.Gosched()
			}
			time.Sleep(200 * time.Microsecond)
			outs[i] = "ok " + hx.Hex(held)
		}(i)
	}
	close(start)
	wg.Wait()
	for i := range ins {
		run.Case(class, fmt.Sprintf("conc %d %d %s", round, i, ins[i].show()), outs[i])
	}
}

// ---------- section B: the backend login handler over a fake connection ----------

type fakeConn struct {
	ctx             context.Context
	cancel          context.CancelFunc
	protocol        proto.Protocol
	remote          net.Addr
	connType        phase.ConnectionType
	written         []proto.Packet
	writeFails      bool
	compressionFail bool
	proceeded       bool
}

func newFakeConn(protocol proto.Protocol, remote net.Addr) *fakeConn {
	ctx, cancel := context.WithCancel(context.Background())
	return &fakeConn{ctx: ctx, cancel: cancel, protocol: protocol, remote: remote, connType: phase.Vanilla}
}

var errFake = errors.New("fake connection failure")

func (c *fakeConn) Context() context.Context                   { return c.ctx }
func (c *fakeConn) Close() error                               { c.cancel(); return nil }
func (c *fakeConn) State() *state.Registry                     { return state.Login }
func (c *fakeConn) Protocol() proto.Protocol                   { return c.protocol }
func (c *fakeConn) RemoteAddr() net.Addr                       { return c.remote }
func (c *fakeConn) LocalAddr() net.Addr                        { return &net.TCPAddr{IP: net.IPv4(127, 0, 0, 1), Port: 25565} }
func (c *fakeConn) Type() phase.ConnectionType                 { return c.connType }
func (c *fakeConn) SetType(t phase.ConnectionType)             { c.connType = t }
func (c *fakeConn) ActiveSessionHandler() netmc.SessionHandler { return nil }
func (c *fakeConn) SetActiveSessionHandler(*state.Registry, netmc.SessionHandler) {
	c.proceeded = true
}
func (c *fakeConn) SwitchSessionHandler(*state.Registry) bool               { return false }
func (c *fakeConn) AddSessionHandler(*state.Registry, netmc.SessionHandler) {}
func (c *fakeConn) SetAutoReading(bool)                                     {}
func (c *fakeConn) SetOutboundState(*state.Registry)                        {}
func (c *fakeConn) SetProtocol(p proto.Protocol)                            { c.protocol = p }
func (c *fakeConn) SetState(*state.Registry)                                {}
func (c *fakeConn) SetCompressionThreshold(int) error {
	if c.compressionFail {
		return errFake
	}
	return nil
}
func (c *fakeConn) EnableEncryption([]byte) error { return nil }
func (c *fakeConn) WritePacket(p proto.Packet) error {
	c.written = append(c.written, p)
	if _, ok := p.(*packet.LoginAcknowledged); ok {
		c.proceeded = true
	}
	if c.writeFails {
		return errFake
	}
	return nil
}
func (c *fakeConn) Write([]byte) error                { return nil }
func (c *fakeConn) BufferPacket(p proto.Packet) error { return c.WritePacket(p) }
func (c *fakeConn) BufferPayload([]byte) error        { return nil }
func (c *fakeConn) Flush() error                      { return nil }
func (c *fakeConn) Reader() netmc.Reader              { return nil }
func (c *fakeConn) Writer() netmc.Writer              { return nil }
func (c *fakeConn) EnablePlayPacketQueue()            {}

var _ netmc.MinecraftConn = (*fakeConn)(nil)

type session struct {
	bl      *proxy.C20BackendLogin
	backend *fakeConn
	result  string // first delivered result, canonical
}

func (s *session) pollResult() {
	if s.result != "-" {
		return
	}
	res, safe, err, delivered := s.bl.Result()
	if !delivered {
		return
	}
	switch {
	case err != nil && errors.Is(err, proxy.ErrServerOnlineMode):
		s.result = "err-online"
	case err != nil:
		s.result = "err-other"
	case res != nil && res.Status() == proxy.ServerDisconnectedConnectionStatus && res.Reason() == proxy.C20VelocityIpForwardingFailure && safe:
		s.result = "refused"
	case res != nil && res.Status() == proxy.ServerDisconnectedConnectionStatus:
		s.result = "disconnected"
	default:
		s.result = "unexpected"
	}
}

func b01(b bool) string {
	if b {
		return "1"
	}
	return "0"
}

func (s *session) tail() string {
	s.pollResult()
	return fmt.Sprintf(" fwd=%s conn=%s res=%s", b01(s.bl.Forwarded()), b01(s.bl.Connected()), s.result)
}

// One Proxy for the whole run (proxy.New costs ~12 ms): the handler reads the forwarding mode and secret
// through Proxy.config() on every packet, which returns this very *config.Config, so each session just
// sets the fields it needs before driving the handler (single goroutine).
var (
	sharedCfg   = config.DefaultConfig
	sharedProxy *proxy.Proxy
)

func newSession(mode string, secret []byte, ip net.IP, p *fakePlayer) *session {
	if sharedProxy == nil {
		var err error
		sharedProxy, err = proxy.New(proxy.Options{Config: &sharedCfg})
		if err != nil {
			panic(err)
		}
	}
	px := sharedProxy
	sharedCfg.Forwarding.Mode = config.ForwardingMode(mode)
	sharedCfg.Forwarding.VelocitySecret = string(secret)
	sharedCfg.Forwarding.BungeeGuardSecret = "bg-secret"
	playerConn := newFakeConn(p.proto, &net.TCPAddr{IP: ip, Port: 50000 + len(ip)})
	// the backend connection speaks a pre-1.20.2 protocol so that an accepted login goes straight to the
	// PLAY transition (the CONFIG path needs a full player session and is outside this property)
	backend := newFakeConn(version.Minecraft_1_19_4.Protocol, &net.TCPAddr{IP: net.IPv4(10, 0, 0, 1), Port: 25566})
	var key crypto.IdentifiedKey
	if p.key != nil {
		key = p.key
	}
	prof := &profile.GameProfile{ID: p.id, Name: p.name, Properties: p.props}
	bl := proxy.C20NewBackendLogin(px, playerConn, backend, prof, key,
		proxy.NewServerInfo("backend", &net.TCPAddr{IP: net.IPv4(10, 0, 0, 1), Port: 25566}))
	return &session{bl: bl, backend: backend, result: "-"}
}

func (s *session) handle(p proto.Packet) {
	s.bl.Handler.HandlePacket(&proto.PacketContext{Direction: proto.ClientBound, Protocol: s.backend.protocol, Packet: p})
}

// one op of a sequence; returns the op line and the implementation's canonical output
func (s *session) op(kind string, channel string, id int, data []byte, flag bool) (string, string) {
	var line string
	out := hx.Guard(20*time.Second, func() string {
		before := len(s.backend.written)
		s.backend.proceeded = false
		switch kind {
		case "pm":
			line = fmt.Sprintf("pm %s %d %s %s", hx.HexS(channel), id, hx.Hex(data), b01(flag))
			s.backend.writeFails = !flag
			s.handle(&packet.LoginPluginMessage{ID: id, Channel: channel, Data: data})
			s.backend.writeFails = false
		case "ls":
			line = "ls"
			s.handle(&packet.ServerLoginSuccess{})
		case "enc":
			line = "enc"
			s.handle(&packet.EncryptionRequest{})
		case "dc":
			line = "dc"
			s.handle(&packet.Disconnect{})
		case "sc":
			line = "sc " + b01(flag)
			s.backend.compressionFail = !flag
			s.handle(&packet.SetCompression{Threshold: 256})
			s.backend.compressionFail = false
		default:
			line = "oth"
			if flag {
				s.bl.Handler.HandlePacket(&proto.PacketContext{Direction: proto.ClientBound, Protocol: s.backend.protocol})
			} else {
				s.handle(&packet.KeepAlive{})
			}
		}
		var vis string
		switch {
		case len(s.backend.written) == before+1:
			if r, ok := s.backend.written[before].(*packet.LoginPluginResponse); ok {
				vis = fmt.Sprintf("resp %d %s %s", r.ID, b01(r.Success), hx.Hex(r.Data))
			} else {
				vis = fmt.Sprintf("wrote %T", s.backend.written[before])
			}
		case len(s.backend.written) > before+1:
			vis = fmt.Sprintf("wrote-many %d", len(s.backend.written)-before)
		default:
			vis = "none"
		}
		if s.backend.proceeded {
			vis = "proceed"
		}
		return vis + s.tail()
	})
	return line, out
}

var modes = []string{"velocity", "velocity", "velocity", "none", "legacy", "bungeeguard"}

func genChannel(r *hx.Rng) string {
	switch r.Intn(8) {
	case 0:
		return "velocity:player_inf"
	case 1:
		return "Velocity:player_info"
	case 2:
		return "velocity:player_info "
	case 3:
		return "minecraft:brand"
	case 4:
		return ""
	}
	return verifexport.C20IpForwardingChannel
}

func genReqData(r *hx.Rng) []byte {
	switch r.Intn(10) {
	case 0:
		return nil
	case 1:
		return r.Bytes(2 + r.Intn(3))
	case 2:
		return []byte{byte(hx.Pick(r, []int{0, 1, 2, 3, 4, 5, 127, 128, 129, 200, 254, 255}))}
	case 3:
		return []byte{byte(r.Intn(256))}
	}
	return []byte{byte(1 + r.Intn(4))}
}

func sequence(run *hx.Run, class string, mode string, secret []byte, p *fakePlayer, script []string) {
	r := run.Rng
	ip, _ := genAddress(r, false)
	s := newSession(mode, secret, ip, p)
	run.Case(class+"/reset", fmt.Sprintf("reset %s %s %s %s", mode, hx.Hex(secret), hx.HexS(ip.String()), p.show()), "-")
	for _, k := range script {
		var line, out string
		switch k {
		case "req": // a proper forwarding request
			line, out = s.op("pm", verifexport.C20IpForwardingChannel, r.Intn(1000), genReqData(r), true)
		case "req1", "req2", "req3", "req4": // a request for one fixed version (so that it can be repeated)
			line, out = s.op("pm", verifexport.C20IpForwardingChannel, r.Intn(1000), []byte{k[3] - '0'}, true)
		case "rotate": // the operator rotates forwarding.velocitySecret and the config is reloaded: the handler reads
			// the configuration afresh on every packet, so later answers must be signed with the NEW secret
			ns := genSecret(r)
			if len(ns) == 0 || string(ns) == sharedCfg.Forwarding.VelocitySecret {
				ns = append([]byte("rotated-"), ns...)
			}
			sharedCfg.Forwarding.VelocitySecret = string(ns)
			line, out = "secret "+hx.Hex(ns), "-"
		case "req128": // regression: request byte ≥ 0x80
			line, out = s.op("pm", verifexport.C20IpForwardingChannel, 7, []byte{byte(hx.Pick(r, []int{128, 129, 200, 255}))}, true)
		case "reqfail": // the answer cannot be written
			line, out = s.op("pm", verifexport.C20IpForwardingChannel, r.Intn(1000), genReqData(r), false)
		case "pm":
			id := r.Intn(1 << 20)
			if r.Chance(1, 6) {
				id = -1 - r.Intn(5)
			}
			line, out = s.op("pm", genChannel(r), id, genReqData(r), !r.Chance(1, 6))
		case "sc":
			line, out = s.op("sc", "", 0, nil, !r.Chance(1, 4))
		case "oth":
			line, out = s.op("oth", "", 0, nil, r.Bool())
		default:
			line, out = s.op(k, "", 0, nil, false)
		}
		run.Case(class+"/"+strings.Fields(line)[0], line, out)
	}
}

func mixSeed(z uint64) uint64 {
	z += 0x9E3779B97F4A7C15
	z = (z ^ (z >> 30)) * 0xBF58476D1CE4E5B9
	z = (z ^ (z >> 27)) * 0x94D049BB133111EB
	return z ^ (z >> 31)
}

func main() {
	run := hx.Start()
	// hx.NewRng(seed) starts splitmix64 at seed*gamma, so consecutive seeds walk the SAME stream one step
	// apart; hash the seed first so that different seeds give unrelated streams (still fully determined
	// by VERIF_SEED).
	run.Rng = hx.NewRng(mixSeed(run.Seed))
	r := run.Rng

	// ---- constants read back from the running code (the model takes them from Gen/ or states them)
	run.Case("const", "const proto_1_19_3", strconv.Itoa(int(version.Minecraft_1_19_3.Protocol)))
	run.Case("const", "const versions", fmt.Sprintf("%d %d %d %d %d", verifexport.C20DefaultForwardingVersion,
		verifexport.C20WithKeyForwardingVersion, verifexport.C20WithKeyV2ForwardingVersion,
		verifexport.C20LazySessionForwardingVersion, verifexport.C20ForwardingMaxVersion))
	run.Case("const", "const channel", hx.HexS(verifexport.C20IpForwardingChannel))

	// ---- fixed regression cases first
	base := func() *fakePlayer {
		p := &fakePlayer{name: "Notch", proto: 761, props: []profile.Property{{Name: "textures", Value: "e30=", Signature: "c2ln"}, {Name: "x", Value: "y"}}}
		copy(p.id[:], []byte{0x06, 0x9a, 0x79, 0xf4, 0x44, 0xe9, 0x47, 0x26, 0xa5, 0xbe, 0xfc, 0xa9, 0x0e, 0x38, 0xaa, 0xf5})
		return p
	}
	// the defect witness: a request byte ≥ 0x80 must be read as a negative number (Velocity: readByte)
	for _, mode := range []string{"velocity"} {
		for _, pr := range []int{761, 765, 760, 759} {
			p := base()
			p.proto = proto.Protocol(pr)
			if pr == 759 {
				p.key = &fakeKey{revName: "v1", expiry: 1700000000000, pub: []byte{1, 2, 3}, sig: []byte{4, 5}}
			}
			if pr == 760 {
				p.key = &fakeKey{revName: "v2", expiry: 1700000000000, pub: []byte{1, 2, 3}, sig: []byte{4, 5}, holder: p.id}
			}
			sequence(run, "fixed", mode, []byte("secret"), p, []string{"req128", "ls"})
		}
	}
	sequence(run, "fixed", "velocity", []byte("secret"), base(), []string{"ls"})
	sequence(run, "fixed", "velocity", []byte("secret"), base(), []string{"reqfail", "ls"})
	sequence(run, "fixed", "velocity", []byte("secret"), base(), []string{"req", "ls", "ls"})
	// one player, the same version requested before and after a secret rotation (server switch after reload)
	for _, v := range []string{"req1", "req4"} {
		sequence(run, "fixed/rotate", "velocity", []byte("secret-A"), base(), []string{v, "rotate", v, "ls"})
	}
	{
		p := base()
		p.proto = 760
		p.key = &fakeKey{revName: "v2", expiry: 1700000000000, pub: []byte{1, 2, 3}, sig: []byte{4, 5}, holder: p.id}
		sequence(run, "fixed/rotate", "velocity", []byte("secret-A"), p, []string{"req3", "rotate", "req3", "rotate", "req3", "req2"})
	}
	sequence(run, "fixed", "none", []byte("secret"), base(), []string{"ls"})
	sequence(run, "fixed", "velocity", []byte("secret"), base(), []string{"dc", "req", "ls"})
	sequence(run, "fixed", "velocity", []byte("secret"), base(), []string{"enc", "ls"})
	for req := -2; req <= 6; req++ {
		for _, k := range []*fakeKey{nil, {revName: "v1", expiry: 5, pub: []byte{9}, sig: []byte{8}}, {revName: "v2", expiry: -5, pub: []byte{9}, sig: []byte{8}, holder: uuid.UUID{1}},
			{revName: "nil", pub: []byte{1}}, {revName: "other", pub: []byte{1}}} {
			for _, pr := range []int{760, 761} {
				p := base()
				p.proto = proto.Protocol(pr)
				p.key = k
				cfdCase(run, "cfd/fixed", []byte("secret"), "192.0.2.7", p, req)
			}
		}
	}

	// expiry is a dimension of its own: the negotiated version must not depend on it (nor on the clock)
	for _, ex := range expiryTable {
		for _, kr := range []string{"v1", "v2"} {
			for _, pr := range []int{759, 760, 761} {
				for req := 1; req <= 4; req++ {
					p := base()
					p.proto = proto.Protocol(pr)
					p.key = &fakeKey{revName: kr, expiry: ex, pub: []byte{1, 2, 3}, sig: []byte{4, 5}, holder: p.id}
					cfdCase(run, "cfd/expiry", []byte("secret"), "192.0.2.7", p, req)
				}
			}
		}
	}
	// a payload stays what it was while other payloads are built (fixed pair first, then generated pairs)
	{
		alice, mallory := base(), base()
		alice.name, mallory.name = "Alice", "Mallory"
		mallory.id = uuid.UUID{0x22, 0x22, 0x22, 0x22, 0x22, 0x22, 0x22, 0x22, 0x22, 0x22, 0x22, 0x22, 0x22, 0x22, 0x22, 0x22}
		aliasCase(run, "alias/fixed", cfdInput{[]byte("secret"), "10.0.0.1", alice, 4}, cfdInput{[]byte("secret"), "203.0.113.66", mallory, 4})
	}
	for i, n := 0, run.Scale(150, 2000); i < n; i++ {
		aliasCase(run, "alias/gen", genValidInput(r), genValidInput(r))
	}
	for round, n := 0, run.Scale(25, 300); round < n; round++ {
		ins := make([]cfdInput, 8)
		for i := range ins {
			ins[i] = genValidInput(r)
		}
		concRound(run, "conc", round, ins)
	}

	// ---- section A: generated payloads
	nA := run.Scale(2500, 20000)
	for i := 0; i < nA; i++ {
		hostile := r.Chance(1, 8)
		p := genPlayer(r, hostile)
		_, addr := genAddress(r, hostile && r.Bool())
		var req int
		switch r.Intn(4) {
		case 0:
			req = hx.Pick(r, requestedTable)
		case 1:
			req = r.Intn(256)
		default:
			req = 1 + r.Intn(4)
		}
		class := "cfd/valid"
		if hostile {
			class = "cfd/hostile"
		}
		cfdCase(run, class, genSecret(r), addr, p, req)
	}
	// the complete request-byte table × protocol classes × key revisions, through CreateForwardingData
	for b := 0; b < 256; b++ {
		for _, pr := range []int{760, 761} {
			for _, kr := range []string{"", "v1", "v2"} {
				p := base()
				p.proto = proto.Protocol(pr)
				p.props = nil
				if kr != "" {
					p.key = &fakeKey{revName: kr, expiry: 1, pub: []byte{1}, sig: []byte{2}}
				}
				cfdCase(run, "cfd/table", []byte("k"), "10.0.0.2", p, int(int8(byte(b))))
			}
		}
	}

	// ---- section B: packet histories against the real handler
	nB := run.Scale(500, 6000)
	kinds := []string{"req", "req", "pm", "pm", "ls", "ls", "sc", "oth", "enc", "dc", "reqfail", "req128",
		"rotate", "rotate", "req4", "req4", "req1", "req2", "req3"}
	for i := 0; i < nB; i++ {
		p := genPlayer(r, r.Chance(1, 12))
		n := 1 + r.Intn(6)
		script := make([]string, 0, n+1)
		for j := 0; j < n; j++ {
			script = append(script, hx.Pick(r, kinds))
		}
		if r.Bool() {
			script = append(script, "ls")
		}
		mode := hx.Pick(r, modes)
		sequence(run, "seq/"+mode, mode, genSecret(r), p, script)
	}
	// the complete request-byte table through the real handler
	for b := 0; b < 256; b++ {
		for _, pr := range []int{760, 761} {
			p := base()
			p.proto = proto.Protocol(pr)
			p.props = nil
			if pr == 760 {
				p.key = &fakeKey{revName: hx.Pick(r, []string{"v1", "v2"}), expiry: 1, pub: []byte{1}, sig: []byte{2}}
			}
			ip := net.IPv4(10, 0, 0, byte(b)).To4()
			s := newSession("velocity", []byte("k"), ip, p)
			run.Case("table/reset", fmt.Sprintf("reset velocity %s %s %s", hx.Hex([]byte("k")), hx.HexS(ip.String()), p.show()), "-")
			line, out := s.op("pm", verifexport.C20IpForwardingChannel, b, []byte{byte(b)}, true)
			run.Case("table/pm", line, out)
		}
	}
	run.Finish()
}
