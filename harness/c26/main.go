// C26 correspondence harness: drives the real BungeeCord plugin-channel responder
// (pkg/edition/java/proxy/bungeecord) in two set-ups:
//
//	layer A ("state"/"req"):   bungeecord.NewMessageResponder over RECORDING providers — every call the
//	                           responder makes on its providers is an observation; arbitrary generated states.
//	layer B ("astate"/"areq"): the responder the backend session handler installs (export_verif_c26.go →
//	                           newBungeeCordMessageResponder) over a real Proxy with registered servers and
//	                           connectedPlayers on recording connections — the observation is what is written on
//	                           which connection (provider adapter bungee.go included).
package main

import (
	"context"
	"encoding/binary"
	"encoding/hex"
	"fmt"
	"net"
	"runtime"
	"sort"
	"strconv"
	"strings"
	"sync"
	"time"

	"github.com/robinbraemer/event"
	"go.minekube.com/common/minecraft/component"
	"go.minekube.com/common/minecraft/component/codec/legacy"
	"go.minekube.com/gate/pkg/command"
	"go.minekube.com/gate/pkg/edition/java/config"
	"go.minekube.com/gate/pkg/edition/java/netmc"
	"go.minekube.com/gate/pkg/edition/java/proto/packet"
	"go.minekube.com/gate/pkg/edition/java/proto/packet/plugin"
	"go.minekube.com/gate/pkg/edition/java/proto/state"
	"go.minekube.com/gate/pkg/edition/java/proto/util"
	"go.minekube.com/gate/pkg/edition/java/proto/version"
	"go.minekube.com/gate/pkg/edition/java/proxy"
	"go.minekube.com/gate/pkg/edition/java/proxy/bungeecord"
	"go.minekube.com/gate/pkg/edition/java/proxy/message"
	"go.minekube.com/gate/pkg/edition/java/proxy/phase"
	"go.minekube.com/gate/pkg/gate/proto"
	"go.minekube.com/gate/pkg/util/uuid"

	"verifharness/hx"
)

// ---------------------------------------------------------------- abstract state (what goes on the state line)

type connD struct {
	server   string
	protocol int
}
type playerD struct {
	name     string
	id       uuid.UUID
	ip       net.IP
	port     int
	protocol int
	conn     *connD
}
type serverD struct {
	name    string
	ip      net.IP
	port    int
	count   int
	players []string
}
type stateD struct {
	caller      *playerD
	players     []*playerD
	playerCount int
	servers     []*serverD
}

func hostOf(ip net.IP) string { return ip.String() }

func (p *playerD) line() string {
	conn := "_"
	if p.conn != nil {
		conn = hx.HexS(p.conn.server) + "~" + strconv.Itoa(p.conn.protocol)
	}
	return strings.Join([]string{hx.HexS(p.name), hx.HexS(hex.EncodeToString(p.id[:])), hx.HexS(hostOf(p.ip)),
		strconv.Itoa(p.port), strconv.Itoa(p.protocol), conn}, ",")
}
func (s *serverD) line() string {
	pl := "_"
	if len(s.players) > 0 {
		hs := make([]string, len(s.players))
		for i, n := range s.players {
			hs[i] = hx.HexS(n)
		}
		pl = strings.Join(hs, "+")
	}
	return strings.Join([]string{hx.HexS(s.name), hx.HexS(hostOf(s.ip)), strconv.Itoa(s.port), strconv.Itoa(s.count), pl}, ",")
}
func (st *stateD) line(op string) string {
	ps := "_"
	if len(st.players) > 0 {
		xs := make([]string, len(st.players))
		for i, p := range st.players {
			xs[i] = p.line()
		}
		ps = strings.Join(xs, ";")
	}
	ss := "_"
	if len(st.servers) > 0 {
		xs := make([]string, len(st.servers))
		for i, s := range st.servers {
			xs[i] = s.line()
		}
		ss = strings.Join(xs, ";")
	}
	return fmt.Sprintf("%s %s %s %d %s", op, st.caller.line(), ps, st.playerCount, ss)
}

// ---------------------------------------------------------------- component canonicalisation + decoder oracles

// canon renders a component canonically (JSON). Components the codec cannot marshal (or panics on, e.g. a
// decoded unknown colour name) get a fixed placeholder: the component itself is opaque to the model.
func canon(c component.Component) (out string) {
	defer func() {
		if recover() != nil {
			out = hx.HexS("<unmarshalable>")
		}
	}()
	if c == nil {
		return hx.HexS("<nil>")
	}
	b, err := util.Marshal(version.Minecraft_1_20_2.Protocol, c)
	if err != nil {
		return hx.HexS("<unmarshalable>")
	}
	return hx.Hex(b)
}

func oracle(f func() (component.Component, error)) (out string) {
	var c component.Component
	var err error
	panicked := func() (p bool) {
		defer func() { p = recover() != nil }()
		c, err = f()
		return false
	}()
	if panicked {
		return "P"
	}
	if err != nil {
		return "!"
	}
	return canon(c)
}

func readUTF(b []byte) (string, []byte, bool) {
	if len(b) < 2 {
		return "", nil, false
	}
	n := int(binary.BigEndian.Uint16(b))
	if len(b)-2 < n {
		return "", nil, false
	}
	return string(b[2 : 2+n]), b[2+n:], true
}

// messageArg extracts the string the responder will hand to a component decoder (if the request gets that far).
func messageArg(data []byte) (string, bool) {
	sub, r, ok := readUTF(data)
	if !ok {
		return "", false
	}
	switch sub {
	case "Message", "MessageRaw", "KickPlayer", "KickPlayerRaw":
		_, r, ok = readUTF(r)
		if !ok {
			return "", false
		}
		m, _, ok := readUTF(r)
		return m, ok
	}
	return "", false
}

// oracles returns the L (legacy), J (json for the caller's protocol), D (default json) and blank tokens.
func oracles(data []byte, callerProtocol int) string {
	l, j, d := "!", "!", "!"
	if m, ok := messageArg(data); ok {
		l = oracle(func() (component.Component, error) { return (&legacy.Legacy{}).Unmarshal([]byte(m)) })
		j = oracle(func() (component.Component, error) {
			return util.JsonCodec(proto.Protocol(callerProtocol)).Unmarshal([]byte(m))
		})
		d = oracle(func() (component.Component, error) { return util.DefaultJsonCodec().Unmarshal([]byte(m)) })
	}
	return l + " " + j + " " + d + " " + canon(&component.Text{})
}

func chanTok(ch string) string {
	switch ch {
	case "bungeecord:main":
		return "m"
	case "BungeeCord":
		return "l"
	}
	return "x" + hx.HexS(ch)
}

// ---------------------------------------------------------------- layer A: recording providers

type rec struct {
	mu  sync.Mutex
	log []string
}

func (r *rec) add(s string) { r.mu.Lock(); r.log = append(r.log, s); r.mu.Unlock() }
func (r *rec) take() []string {
	r.mu.Lock()
	defer r.mu.Unlock()
	l := r.log
	r.log = nil
	return l
}

type aConn struct {
	rec      *rec
	owner    string
	name     string
	protocol proto.Protocol
}

func (c *aConn) Name() string             { return c.name }
func (c *aConn) Protocol() proto.Protocol { return c.protocol }
func (c *aConn) WritePacket(p proto.Packet) error {
	if pm, ok := p.(*plugin.Message); ok {
		c.rec.add("R:" + hx.HexS(c.owner) + ":" + hx.HexS(c.name) + ":" + chanTok(pm.Channel) + ":" + hx.Hex(pm.Data))
	} else {
		c.rec.add(fmt.Sprintf("R?:%T", p))
	}
	return nil
}

type aPlayer struct {
	rec *rec
	d   *playerD
}

func (p *aPlayer) ID() uuid.UUID            { return p.d.id }
func (p *aPlayer) Username() string         { return p.d.name }
func (p *aPlayer) RemoteAddr() net.Addr     { return &net.TCPAddr{IP: p.d.ip, Port: p.d.port} }
func (p *aPlayer) Protocol() proto.Protocol { return proto.Protocol(p.d.protocol) }
func (p *aPlayer) Disconnect(reason component.Component) {
	p.rec.add("K:" + hx.HexS(p.d.name) + ":" + canon(reason))
}
func (p *aPlayer) SendMessage(msg component.Component, _ ...command.MessageOption) error {
	p.rec.add("MP:" + hx.HexS(p.d.name) + ":" + canon(msg))
	return nil
}
func (p *aPlayer) conn() bungeecord.ServerConnection {
	if p.d.conn == nil {
		return nil
	}
	return &aConn{rec: p.rec, owner: p.d.name, name: p.d.conn.server, protocol: proto.Protocol(p.d.conn.protocol)}
}

type aServer struct {
	rec *rec
	d   *serverD
}

func (s *aServer) Name() string     { return s.d.name }
func (s *aServer) PlayerCount() int { return s.d.count }
func (s *aServer) Addr() net.Addr   { return &net.TCPAddr{IP: s.d.ip, Port: s.d.port} }
func (s *aServer) BroadcastPluginMessage(id message.ChannelIdentifier, data []byte) {
	s.rec.add("B:" + hx.HexS(s.d.name) + ":" + chanTok(id.ID()) + ":" + hx.Hex(data))
}
func (s *aServer) Connect(p bungeecord.Player) {
	s.rec.add("C:" + hx.HexS(p.Username()) + ":" + hx.HexS(s.d.name))
}
func (s *aServer) Players() []bungeecord.Player {
	var out []bungeecord.Player
	for _, n := range s.d.players {
		out = append(out, &aPlayer{rec: s.rec, d: &playerD{name: n}})
	}
	return out
}
func (s *aServer) BroadcastMessage(c component.Component) {
	s.rec.add("MS:" + hx.HexS(s.d.name) + ":" + canon(c))
}

type aProv struct {
	rec *rec
	st  *stateD
}

func (a *aProv) PlayerByName(name string) bungeecord.Player {
	for _, p := range a.st.players {
		if strings.EqualFold(p.name, name) && asciiOnly(name) {
			return &aPlayer{rec: a.rec, d: p}
		}
	}
	return nil
}
func (a *aProv) PlayerCount() int { return a.st.playerCount }
func (a *aProv) Players() []bungeecord.Player {
	var out []bungeecord.Player
	for _, p := range a.st.players {
		out = append(out, &aPlayer{rec: a.rec, d: p})
	}
	return out
}
func (a *aProv) BroadcastMessage(c component.Component) { a.rec.add("MA:" + canon(c)) }
func (a *aProv) Server(name string) bungeecord.Server {
	for _, s := range a.st.servers {
		if strings.EqualFold(s.name, name) && asciiOnly(name) {
			return &aServer{rec: a.rec, d: s}
		}
	}
	return nil
}
func (a *aProv) Servers() []bungeecord.Server {
	var out []bungeecord.Server
	for _, s := range a.st.servers {
		out = append(out, &aServer{rec: a.rec, d: s})
	}
	return out
}
func (a *aProv) ConnectedServer() bungeecord.ServerConnection {
	return (&aPlayer{rec: a.rec, d: a.st.caller}).conn()
}

// PlayerServer is the lookup of ANOTHER player's server connection (part of the repaired Providers interface).
func (a *aProv) PlayerServer(p bungeecord.Player) bungeecord.ServerConnection {
	if ap, ok := p.(*aPlayer); ok {
		return ap.conn()
	}
	return nil
}

// asciiOnly: the model's lookups fold ASCII letters only; keep strings.EqualFold within that.
func asciiOnly(s string) bool {
	for i := 0; i < len(s); i++ {
		if s[i] >= 0x80 {
			return false
		}
	}
	return true
}

func runA(st *stateD, ch string, data []byte) string {
	r := &rec{}
	prov := &aProv{rec: r, st: st}
	resp := bungeecord.NewMessageResponder(&aPlayer{rec: r, d: st.caller}, prov)
	handled := false
	res := hx.Guard(5*time.Second, func() string {
		handled = resp.Process(&plugin.Message{Channel: ch, Data: data})
		return "done"
	})
	effs := r.take()
	out := "h=0 "
	if handled || res == "panic" {
		out = "h=1 "
	}
	if len(effs) == 0 {
		out += "-"
	} else {
		out += strings.Join(effs, "|")
	}
	if res != "done" {
		out += " " + res
	}
	return out
}

// ---------------------------------------------------------------- layer B: real proxy, recording connections

type fakeConn struct {
	protocol proto.Protocol
	remote   net.Addr
	ctx      context.Context
	cancel   context.CancelFunc
	mu       sync.Mutex
	packets  []proto.Packet
}

func newFakeConn(pr int, remote net.Addr) *fakeConn {
	ctx, cancel := context.WithCancel(context.Background())
	return &fakeConn{protocol: proto.Protocol(pr), remote: remote, ctx: ctx, cancel: cancel}
}
func (c *fakeConn) Context() context.Context                                      { return c.ctx }
func (c *fakeConn) Close() error                                                  { c.cancel(); return nil }
func (c *fakeConn) State() *state.Registry                                        { return state.Play }
func (c *fakeConn) Protocol() proto.Protocol                                      { return c.protocol }
func (c *fakeConn) RemoteAddr() net.Addr                                          { return c.remote }
func (c *fakeConn) LocalAddr() net.Addr                                           { return &net.TCPAddr{} }
func (c *fakeConn) Type() phase.ConnectionType                                    { return phase.Vanilla }
func (c *fakeConn) SetType(phase.ConnectionType)                                  {}
func (c *fakeConn) ActiveSessionHandler() netmc.SessionHandler                    { return nil }
func (c *fakeConn) SetActiveSessionHandler(*state.Registry, netmc.SessionHandler) {}
func (c *fakeConn) SwitchSessionHandler(*state.Registry) bool                     { return true }
func (c *fakeConn) AddSessionHandler(*state.Registry, netmc.SessionHandler)       {}
func (c *fakeConn) SetAutoReading(bool)                                           {}
func (c *fakeConn) SetOutboundState(*state.Registry)                              {}
func (c *fakeConn) SetProtocol(proto.Protocol)                                    {}
func (c *fakeConn) SetState(*state.Registry)                                      {}
func (c *fakeConn) SetCompressionThreshold(int) error                             { return nil }
func (c *fakeConn) EnableEncryption([]byte) error                                 { return nil }
func (c *fakeConn) WritePacket(p proto.Packet) error {
	c.mu.Lock()
	c.packets = append(c.packets, p)
	c.mu.Unlock()
	return nil
}
func (c *fakeConn) Write([]byte) error                { return nil }
func (c *fakeConn) BufferPacket(p proto.Packet) error { return c.WritePacket(p) }
func (c *fakeConn) BufferPayload([]byte) error        { return nil }
func (c *fakeConn) Flush() error                      { return nil }
func (c *fakeConn) Reader() netmc.Reader              { return nil }
func (c *fakeConn) Writer() netmc.Writer              { return nil }
func (c *fakeConn) EnablePlayPacketQueue()            {}
func (c *fakeConn) take() []proto.Packet {
	c.mu.Lock()
	defer c.mu.Unlock()
	p := c.packets
	c.packets = nil
	return p
}

var _ netmc.MinecraftConn = (*fakeConn)(nil)

type bPlayer struct {
	d       *playerD
	client  *fakeConn
	backend *fakeConn
	pl      *proxy.C26Player
}
type world struct {
	px      *proxy.Proxy
	players []*bPlayer
	evMu    sync.Mutex
	events  []string
	dirty   bool
}

func newWorld(st *stateD) *world {
	cfg := config.DefaultConfig
	cfg.Servers = map[string]string{}
	cfg.Try = nil
	cfg.BungeePluginChannelEnabled = true
	mgr := event.New()
	px, err := proxy.New(proxy.Options{Config: &cfg, EventMgr: mgr})
	if err != nil {
		panic(err)
	}
	w := &world{px: px}
	event.Subscribe(mgr, 0, func(e *proxy.ServerPreConnectEvent) {
		w.evMu.Lock()
		w.events = append(w.events, "ev:"+hx.HexS(e.Player().Username())+":"+hx.HexS(e.OriginalServer().ServerInfo().Name()))
		w.evMu.Unlock()
		e.Deny()
	})
	regs := map[string]proxy.RegisteredServer{}
	for _, s := range st.servers {
		rs, err := px.Register(proxy.NewServerInfo(s.name, &net.TCPAddr{IP: s.ip, Port: s.port}))
		if err != nil {
			panic(fmt.Sprintf("register %q: %v", s.name, err))
		}
		regs[s.name] = rs
	}
	for _, p := range st.players {
		bp := &bPlayer{d: p, client: newFakeConn(p.protocol, &net.TCPAddr{IP: p.ip, Port: p.port})}
		pl, ok := proxy.C26NewPlayer(px, bp.client, p.name, p.id)
		if !ok {
			panic("registerConnection failed for " + p.name)
		}
		bp.pl = pl
		if p.conn != nil {
			bp.backend = newFakeConn(p.conn.protocol, &net.TCPAddr{})
			proxy.C26SetConnected(pl, regs[p.conn.server], bp.backend)
		}
		w.players = append(w.players, bp)
	}
	// mid server switch: a player still LISTED on a server that is not (or no longer) its connected server
	for _, sv := range st.servers {
		for _, name := range sv.players {
			for _, bp := range w.players {
				if bp.d.name == name && (bp.d.conn == nil || bp.d.conn.server != sv.name) {
					proxy.C26ListOnServer(bp.pl, regs[sv.name])
				}
			}
		}
	}
	return w
}

// settle waits until the goroutines the adapter spawned (BroadcastMessage & co.) have finished.
func settle(base int) {
	deadline := time.Now().Add(3 * time.Second)
	for runtime.NumGoroutine() > base && time.Now().Before(deadline) {
		runtime.Gosched()
		time.Sleep(50 * time.Microsecond)
	}
}

// canonList re-sorts the ", "-joined list of a PlayerList / GetServers response (it came out of a Go map).
func canonList(data []byte) []byte {
	sub, r, ok := readUTF(data)
	if !ok || (sub != "PlayerList" && sub != "GetServers") {
		return data
	}
	head := data[:2+len(sub)]
	if sub == "PlayerList" {
		name, r2, ok := readUTF(r)
		if !ok {
			return data
		}
		head = data[:2+len(sub)+2+len(name)]
		r = r2
	}
	list, rest, ok := readUTF(r)
	if !ok || len(rest) != 0 {
		return data
	}
	parts := strings.Split(list, ", ")
	sort.Strings(parts)
	joined := strings.Join(parts, ", ")
	out := append([]byte(nil), head...)
	out = binary.BigEndian.AppendUint16(out, uint16(len(joined)))
	return append(out, joined...)
}

func (w *world) runB(callerName string, ch string, data []byte) string {
	var caller *bPlayer
	for _, p := range w.players {
		if p.d.name == callerName {
			caller = p
		}
	}
	resp := proxy.C26Responder(w.px, caller.pl)
	base := runtime.NumGoroutine()
	handled := false
	res := hx.Guard(5*time.Second, func() string {
		handled = resp.Process(&plugin.Message{Channel: ch, Data: data})
		return "done"
	})
	settle(base)
	sub, _, _ := readUTF(data)
	var ws []string
	for _, p := range w.players {
		if p.backend != nil {
			for _, pk := range p.backend.take() {
				if pm, ok := pk.(*plugin.Message); ok {
					owner := hx.HexS(p.d.name)
					if sub == "Forward" {
						owner = "*" // which connected player's connection carries a Forward is Go map order
					}
					ws = append(ws, "b:"+owner+":"+hx.HexS(p.d.conn.server)+":"+chanTok(pm.Channel)+":"+hx.Hex(canonList(pm.Data)))
				} else {
					ws = append(ws, fmt.Sprintf("b?:%T", pk))
				}
			}
		}
		for _, pk := range p.client.take() {
			switch t := pk.(type) {
			case *plugin.Message:
				ws = append(ws, "c:"+hx.HexS(p.d.name)+":"+chanTok(t.Channel)+":"+hx.Hex(t.Data))
			case *packet.Disconnect:
				ws = append(ws, "cd:"+hx.HexS(p.d.name))
				w.dirty = true
			default:
				ws = append(ws, "cc:"+hx.HexS(p.d.name))
			}
		}
	}
	w.evMu.Lock()
	ws = append(ws, w.events...)
	w.events = nil
	w.evMu.Unlock()
	sort.Strings(ws)
	out := "h=0 "
	if handled || res == "panic" {
		out = "h=1 "
	}
	if len(ws) == 0 {
		out += "-"
	} else {
		out += strings.Join(ws, "|")
	}
	if res != "done" {
		out += " " + res
		w.dirty = true
	}
	return out
}

// ---------------------------------------------------------------- generators

var protocols = []int{5, 47, 340, 392, 393, 404, 754, 765, 767, 770}
var playerNames = []string{"Alice", "bob", "Carol_7", "dave", "EVE", "Frank", "grace", "Heidi", "ivan", "Judy", "ALL", "Online"}
var serverNames = []string{"lobby", "Survival", "pvp", "hub2", "creative", "all", "ONLINE", "Mini-1"}

func genIP(r *hx.Rng) net.IP {
	if r.Chance(1, 4) {
		ip := make(net.IP, 16)
		copy(ip, r.Bytes(16))
		ip[0] = 0x20 // keep it a plain global-unicast v6 address (no v4-mapped / zone forms)
		return ip
	}
	return net.IPv4(byte(1+r.Intn(222)), byte(r.Intn(256)), byte(r.Intn(256)), byte(1+r.Intn(254)))
}
func genPort(r *hx.Rng) int {
	return hx.Pick(r, []int{1, 80, 25565, 25566, 32767, 32768, 40000, 65535, 1024 + r.Intn(60000)})
}

func genState(r *hx.Rng, layerB bool) *stateD {
	st := &stateD{}
	ns := r.Intn(6)
	if layerB && ns == 0 {
		ns = 1
	}
	perm := r.Intn(len(serverNames))
	for i := 0; i < ns; i++ {
		st.servers = append(st.servers, &serverD{name: serverNames[(perm+i)%len(serverNames)], ip: genIP(r), port: genPort(r)})
	}
	np := r.Intn(7)
	if layerB {
		np = 1 + r.Intn(6)
	}
	permP := r.Intn(len(playerNames))
	for i := 0; i < np; i++ {
		name := playerNames[(permP+i)%len(playerNames)]
		p := &playerD{name: name, ip: genIP(r), port: genPort(r), protocol: hx.Pick(r, protocols)}
		copy(p.id[:], r.Bytes(16))
		if len(st.servers) > 0 && r.Chance(3, 4) {
			p.conn = &connD{server: hx.Pick(r, st.servers).name, protocol: hx.Pick(r, protocols)}
		}
		st.players = append(st.players, p)
	}
	if layerB {
		// the real proxy keeps these in maps: emit them sorted (the harness canonicalises list responses by sorting)
		sort.Slice(st.players, func(i, j int) bool { return st.players[i].name < st.players[j].name })
		sort.Slice(st.servers, func(i, j int) bool { return st.servers[i].name < st.servers[j].name })
	}
	for _, s := range st.servers {
		for _, p := range st.players {
			if p.conn != nil && p.conn.server == s.name {
				s.players = append(s.players, p.name)
			}
		}
		if layerB {
			// inconsistent but reachable: players that switched away (their connected server is another one) or
			// lost their server are still in this server's list until the old session handler runs
			for _, p := range st.players {
				if (p.conn == nil || p.conn.server != s.name) && r.Chance(1, 4) {
					s.players = append(s.players, p.name)
				}
			}
			sort.Strings(s.players)
		}
		s.count = len(s.players)
		if !layerB && r.Chance(1, 8) {
			s.players = append(s.players, "ghost")
			s.count = r.Intn(100000)
		}
	}
	st.playerCount = len(st.players)
	if !layerB && r.Chance(1, 8) {
		st.playerCount = hx.Pick(r, []int{0, 1, 255, 256, 65536, 1<<31 - 1})
	}
	if len(st.players) > 0 && (layerB || r.Chance(5, 6)) {
		st.caller = hx.Pick(r, st.players)
	} else {
		st.caller = &playerD{name: "Outsider", ip: genIP(r), port: genPort(r), protocol: hx.Pick(r, protocols)}
		copy(st.caller.id[:], r.Bytes(16))
		if len(st.servers) > 0 && r.Bool() {
			st.caller.conn = &connD{server: hx.Pick(r, st.servers).name, protocol: hx.Pick(r, protocols)}
		}
	}
	return st
}

func utf(s string) []byte {
	b := binary.BigEndian.AppendUint16(nil, uint16(len(s)))
	return append(b, s...)
}
func cat(bs ...[]byte) []byte {
	var out []byte
	for _, b := range bs {
		out = append(out, b...)
	}
	return out
}
func flipCase(r *hx.Rng, s string) string {
	switch r.Intn(4) {
	case 0:
		return strings.ToUpper(s)
	case 1:
		return strings.ToLower(s)
	}
	return s
}
// asciiTargets: the real proxy's lookups use Unicode strings.ToLower ("ALİCE" finds "Alice"); the lookup
// function is a parameter of the model, so layer B keeps to ASCII targets where both coincide.
var asciiTargets bool

func genPlayerTarget(r *hx.Rng, st *stateD) string {
	if len(st.players) > 0 && r.Chance(4, 5) {
		return flipCase(r, hx.Pick(r, st.players).name)
	}
	if asciiTargets {
		return hx.Pick(r, []string{"nobody", "", "ALL", "lobby", "Alice "})
	}
	return hx.Pick(r, []string{"nobody", "", "ALL", "lobby", "Alice ", "ALİCE"})
}
func genServerTarget(r *hx.Rng, st *stateD) string {
	if len(st.servers) > 0 && r.Chance(4, 5) {
		return flipCase(r, hx.Pick(r, st.servers).name)
	}
	return hx.Pick(r, []string{"nowhere", "", "Alice", "lobby2", "ALL"})
}
func genAllTarget(r *hx.Rng, st *stateD) string {
	switch r.Intn(5) {
	case 0:
		return "ALL"
	case 1:
		return hx.Pick(r, []string{"all", "All", "aLL", "ONLINE", "online", "Online"})
	}
	if r.Bool() {
		return genServerTarget(r, st)
	}
	return genPlayerTarget(r, st)
}
func genForward(r *hx.Rng) []byte {
	chn := hx.Pick(r, []string{"MyChannel", "my:chan", "x", "", "BungeeCord"})
	body := r.Bytes(hx.Pick(r, []int{0, 1, 5, 17, 300}))
	frame := cat(utf(chn), binary.BigEndian.AppendUint16(nil, uint16(len(body))), body)
	switch r.Intn(10) {
	case 0: // truncated somewhere
		return frame[:r.Intn(len(frame)+1)]
	case 1: // trailing bytes
		return append(frame, r.Bytes(1+r.Intn(4))...)
	case 2: // negative / oversized length field
		return cat(utf(chn), []byte{hx.Pick(r, []byte{0x80, 0xff, 0x7f}), 0xff}, body)
	case 3:
		return nil
	}
	return frame
}
func genLegacyText(r *hx.Rng) string {
	return hx.Pick(r, []string{"hello", "", "§chello §lworld", "§", "a§", "§x", "plain & simple", "see https://example.org now", "§k§r"})
}
func genJSON(r *hx.Rng) string {
	return hx.Pick(r, []string{`{"text":"hi"}`, `"just text"`, `{"text":"a","color":"red","extra":[{"text":"b","bold":true}]}`,
		`{"translate":"chat.type.text","with":["x"]}`, `{`, ``, `not json`, `[]`, `{"text":"c","color":"#ff00aa"}`, `null`, `{"text":5}`})
}

var subChannels = []string{"ForwardToPlayer", "Forward", "Connect", "ConnectOther", "IP", "IPOther", "UUID", "UUIDOther",
	"PlayerCount", "PlayerList", "GetServers", "GetServer", "Message", "MessageRaw", "ServerIP", "KickPlayer",
	"KickPlayerRaw", "GetPlayerServer"}

func genRequest(r *hx.Rng, st *stateD, sub string) []byte {
	switch sub {
	case "ForwardToPlayer":
		return cat(utf(sub), utf(genPlayerTarget(r, st)), genForward(r))
	case "Forward":
		return cat(utf(sub), utf(genAllTarget(r, st)), genForward(r))
	case "Connect", "ServerIP":
		return cat(utf(sub), utf(genServerTarget(r, st)))
	case "ConnectOther":
		return cat(utf(sub), utf(genPlayerTarget(r, st)), utf(genServerTarget(r, st)))
	case "IP", "UUID", "GetServers", "GetServer":
		if r.Chance(1, 4) {
			return cat(utf(sub), r.Bytes(r.Intn(5)))
		}
		return utf(sub)
	case "IPOther", "UUIDOther", "GetPlayerServer":
		return cat(utf(sub), utf(genPlayerTarget(r, st)))
	case "PlayerCount", "PlayerList":
		return cat(utf(sub), utf(genAllTarget(r, st)))
	case "Message":
		return cat(utf(sub), utf(genAllTarget(r, st)), utf(genLegacyText(r)))
	case "MessageRaw":
		return cat(utf(sub), utf(genAllTarget(r, st)), utf(genJSON(r)))
	case "KickPlayer":
		return cat(utf(sub), utf(genPlayerTarget(r, st)), utf(genLegacyText(r)))
	case "KickPlayerRaw":
		return cat(utf(sub), utf(genPlayerTarget(r, st)), utf(genJSON(r)))
	}
	return cat(utf(sub), r.Bytes(r.Intn(8)))
}

func genChannel(r *hx.Rng) string {
	if r.Chance(9, 10) {
		return hx.Pick(r, []string{"BungeeCord", "bungeecord:main"})
	}
	return hx.Pick(r, []string{"BUNGEECORD", "bungeecord", "Bungeecord:Main", "minecraft:brand", "", "bungeecord:mai", "BungeeCord "})
}

// ---------------------------------------------------------------- fixed regression cases (defect witnesses first)

func fixedState() *stateD {
	lobby := &serverD{name: "lobby", ip: net.IPv4(10, 0, 0, 1), port: 25566}
	pvp := &serverD{name: "pvp", ip: net.IPv4(10, 0, 0, 2), port: 40000}
	hub := &serverD{name: "hub2", ip: net.IPv4(10, 0, 0, 3), port: 25565}
	mk := func(name string, b byte, srv string, pr, cpr int) *playerD {
		p := &playerD{name: name, ip: net.IPv4(192, 168, 1, b), port: 50000 + int(b), protocol: pr}
		for i := range p.id {
			p.id[i] = b*16 + byte(i)
		}
		if srv != "" {
			p.conn = &connD{server: srv, protocol: cpr}
		}
		return p
	}
	st := &stateD{servers: []*serverD{hub, lobby, pvp}}
	st.players = []*playerD{mk("Alice", 1, "lobby", 765, 765), mk("Carol", 3, "pvp", 47, 340), mk("bob", 2, "pvp", 340, 393), mk("dave", 4, "", 765, 0)}
	lobby.players, lobby.count = []string{"Alice"}, 1
	pvp.players, pvp.count = []string{"Carol", "bob"}, 2
	st.playerCount = 4
	st.caller = st.players[0]
	return st
}

func fixedRequests() [][]byte {
	frame := cat(utf("MyChannel"), []byte{0, 3}, []byte{1, 2, 3})
	return [][]byte{
		cat(utf("Forward"), utf("pvp"), frame),                                   // forward framing: channel name must stay length-prefixed
		cat(utf("Forward"), utf("ALL"), frame),                                   // every other server once
		cat(utf("Forward"), utf("ONLINE"), frame),                                //
		cat(utf("Forward"), utf("all"), frame),                                   // "all" is a server name lookup, not ALL
		cat(utf("Forward"), utf("pvp"), utf("MyChannel"), []byte{0xff, 0xff}),    // negative length field: no crash
		cat(utf("Forward"), utf("pvp"), frame, []byte{9, 9}),                     // trailing bytes passed on unchanged
		cat(utf("Forward"), utf("lobby"), frame),                                 // explicit target = own server
		cat(utf("ForwardToPlayer"), utf("bob"), frame),                           // goes to bob's server connection
		cat(utf("ForwardToPlayer"), utf("dave"), frame),                          // dave has no server: nothing
		cat(utf("ForwardToPlayer"), utf("nobody"), frame),                        // unknown player: nothing
		cat(utf("ForwardToPlayer"), utf("bob"), utf("MyChannel"), []byte{0x80, 0}), // negative length
		cat(utf("GetPlayerServer"), utf("bob")),                                  // bob's server, not the caller's
		cat(utf("GetPlayerServer"), utf("dave")),                                 // no server: no response
		cat(utf("GetPlayerServer"), utf("nobody")),
		cat(utf("Message"), utf("bob"), utf("hello §cbob")),                      // target is a PLAYER
		cat(utf("Message"), utf("nobody"), utf("hello")),                         // unknown target: nothing, no crash
		cat(utf("Message"), utf("pvp"), utf("hello")),                            // a server name is not a message target
		cat(utf("Message"), utf("ALL"), utf("hello all")),
		cat(utf("MessageRaw"), utf("bob"), utf(`{"text":"hi"}`)),
		cat(utf("MessageRaw"), utf("nobody"), utf(`{"text":"hi"}`)),
		cat(utf("MessageRaw"), utf("ALL"), utf(`{`)),
		cat(utf("PlayerCount"), utf("ALL")),
		cat(utf("PlayerCount"), utf("all")),                                      // exact match only
		cat(utf("PlayerCount"), utf("pvp")),
		cat(utf("PlayerCount"), utf("nowhere")),
		cat(utf("PlayerList"), utf("ALL")),
		cat(utf("PlayerList"), utf("PVP")),
		cat(utf("GetServers")),
		cat(utf("GetServer")),
		cat(utf("IP")),
		cat(utf("IPOther"), utf("BOB")),
		cat(utf("UUID")),
		cat(utf("UUIDOther"), utf("carol")),
		cat(utf("ServerIP"), utf("pvp")),
		cat(utf("Connect"), utf("pvp")),
		cat(utf("Connect"), utf("lobby")),
		cat(utf("ConnectOther"), utf("bob"), utf("hub2")),
		cat(utf("ConnectOther"), utf("bob"), utf("nowhere")),
		cat(utf("KickPlayer"), utf("bob"), utf("§cbye")),
		cat(utf("KickPlayerRaw"), utf("Carol"), utf(`{"text":"bye"}`)),
		cat(utf("KickPlayer"), utf("nobody"), utf("bye")),
		cat(utf("NoSuchSubChannel"), []byte{1, 2, 3}),
		{0},
		nil,
	}
}

// ---------------------------------------------------------------- main

func main() {
	run := hx.Start()
	defer run.Finish()
	r := run.Rng

	doA := func(class string, st *stateD, ch string, data []byte) {
		out := runA(st, ch, data)
		run.Case(class, "req "+hx.HexS(ch)+" "+hx.Hex(data)+" "+oracles(data, st.caller.protocol), out)
	}
	var w *world
	doB := func(class string, st *stateD, ch string, data []byte) {
		if w == nil || w.dirty {
			w = newWorld(st)
		}
		out := w.runB(st.caller.name, ch, data)
		run.Case(class, "areq "+hx.HexS(ch)+" "+hx.Hex(data)+" "+oracles(data, st.caller.protocol), out)
	}
	classOf := func(data []byte) string {
		if s, _, ok := readUTF(data); ok {
			for _, k := range subChannels {
				if k == s {
					return k
				}
			}
			return "unknown-sub"
		}
		return "no-sub"
	}

	// 1. fixed regression cases, both layers, both channel ids
	fs := fixedState()
	run.Case("state", fs.line("state"), "-")
	for _, d := range fixedRequests() {
		doA("A-fixed-"+classOf(d), fs, "BungeeCord", d)
	}
	for _, d := range fixedRequests()[:12] {
		doA("A-fixed-"+classOf(d), fs, "bungeecord:main", d)
	}
	doA("A-fixed-channel", fs, "minecraft:brand", cat(utf("GetServers")))
	doA("A-fixed-channel", fs, "BUNGEECORD", cat(utf("GetServers")))
	// every strict prefix of some well-formed requests: nothing happens, nothing crashes
	for _, d := range fixedRequests()[:40] {
		for k := 0; k < len(d); k++ {
			doA("A-prefix", fs, "BungeeCord", d[:k])
		}
	}
	// a field longer than 65535 bytes (outside the reference's domain: Java's writeUTF throws)
	{
		big := fixedState()
		big.players[1].name = strings.Repeat("n", 70000)
		run.Case("state", big.line("state"), "-")
		doA("A-oversize", big, "BungeeCord", cat(utf("PlayerList"), utf("ALL")))
	}
	run.Case("state", fs.line("astate"), "-")
	w = nil
	for _, d := range fixedRequests() {
		doB("B-fixed-"+classOf(d), fs, "BungeeCord", d)
	}

	// mid server switch (regression for the adapter): Carol is current on pvp but still listed on lobby, whose only
	// other player Alice has moved to hub2: nobody listed on lobby is connected to it
	{
		sw := fixedState()
		sw.players[0].conn = &connD{server: "hub2", protocol: 765} // Alice
		for _, sv := range sw.servers {
			switch sv.name {
			case "hub2":
				sv.players = []string{"Alice"}
			case "lobby":
				sv.players = []string{"Carol"}
			case "pvp":
				sv.players = []string{"Carol", "bob"}
			}
			sv.count = len(sv.players)
		}
		run.Case("state", sw.line("astate"), "-")
		w = nil
		frame := cat(utf("MyChannel"), []byte{0, 3}, []byte{1, 2, 3})
		for _, d := range [][]byte{
			cat(utf("Forward"), utf("lobby"), frame), // must NOT land on pvp
			cat(utf("Forward"), utf("ALL"), frame),   // pvp exactly once, lobby nothing
			cat(utf("Forward"), utf("ONLINE"), frame),
			cat(utf("Forward"), utf("pvp"), frame),
			cat(utf("PlayerCount"), utf("lobby")),
			cat(utf("PlayerList"), utf("lobby")),
			cat(utf("GetPlayerServer"), utf("Carol")),
			cat(utf("ForwardToPlayer"), utf("Carol"), frame),
		} {
			doB("B-switching-"+classOf(d), sw, "BungeeCord", d)
		}
	}

	// 2. generated: layer A
	nStatesA := run.Scale(150, 1500)
	for i := 0; i < nStatesA; i++ {
		st := genState(r, false)
		run.Case("state", st.line("state"), "-")
		for j := 0; j < 30; j++ {
			sub := hx.Pick(r, subChannels)
			data := genRequest(r, st, sub)
			class := "A-" + sub
			switch r.Intn(12) {
			case 0: // hostile: truncate
				data = data[:r.Intn(len(data)+1)]
				class = "A-hostile"
			case 1: // hostile: flip a byte
				if len(data) > 0 {
					data = append([]byte(nil), data...)
					data[r.Intn(len(data))] ^= byte(1 << uint(r.Intn(8)))
				}
				class = "A-hostile"
			case 2:
				data = r.Bytes(r.Intn(24))
				class = "A-hostile"
			}
			doA(class, st, genChannel(r), data)
		}
	}

	// 3. generated: layer B
	nStatesB := run.Scale(40, 400)
	asciiTargets = true
	for i := 0; i < nStatesB; i++ {
		st := genState(r, true)
		run.Case("state", st.line("astate"), "-")
		w = nil
		for j := 0; j < 25; j++ {
			sub := hx.Pick(r, subChannels)
			data := genRequest(r, st, sub)
			class := "B-" + sub
			if r.Chance(1, 12) {
				data = data[:r.Intn(len(data)+1)]
				class = "B-hostile"
			}
			ch := "BungeeCord"
			if r.Bool() {
				ch = "bungeecord:main"
			}
			doB(class, st, ch, data)
		}
	}
}
