// C10 correspondence harness: uuid.OfflinePlayerUUID, the login username regex (verif hook),
// Go's rune decoding, and real offline-mode logins through Proxy.HandleConn.
package main

import (
	"crypto"
	"crypto/rand"
	"crypto/rsa"
	"crypto/sha1"
	"crypto/x509"
	"encoding/base64"
	"encoding/binary"
	"fmt"
	"io"
	"net"
	"strconv"
	"strings"
	"time"

	"github.com/go-logr/logr"
	"github.com/robinbraemer/event"
	"go.minekube.com/gate/pkg/edition/java/auth"
	jconfig "go.minekube.com/gate/pkg/edition/java/config"
	"go.minekube.com/gate/pkg/edition/java/profile"
	"go.minekube.com/gate/pkg/edition/java/proto/codec"
	"go.minekube.com/gate/pkg/edition/java/proto/packet"
	"go.minekube.com/gate/pkg/edition/java/proto/state"
	"go.minekube.com/gate/pkg/edition/java/proxy"
	pcrypto "go.minekube.com/gate/pkg/edition/java/proxy/crypto"
	"go.minekube.com/gate/pkg/gate/proto"
	"go.minekube.com/gate/pkg/util/uuid"

	"verifharness/hx"
)

var sharedAuth auth.Authenticator

type addr string

func (a addr) Network() string { return "tcp" }
func (a addr) String() string  { return string(a) }

// pipeConn gives a net.Pipe end TCP-looking addresses (the proxy logs / rate-limits by remote host).
type pipeConn struct {
	net.Conn
}

func (p pipeConn) RemoteAddr() net.Addr { return &net.TCPAddr{IP: net.IPv4(127, 0, 0, 1), Port: 40000} }
func (p pipeConn) LocalAddr() net.Addr  { return &net.TCPAddr{IP: net.IPv4(127, 0, 0, 1), Port: 25565} }

type override struct {
	id   uuid.UUID
	name string
}

func varint(v int) []byte {
	var out []byte
	u := uint32(v)
	for {
		if u&^0x7f == 0 {
			return append(out, byte(u))
		}
		out = append(out, byte(u&0x7f|0x80))
		u >>= 7
	}
}

func frame(body []byte) []byte { return append(varint(len(body)), body...) }

func mcString(s string) []byte { return append(varint(len(s)), s...) }

// clientHello builds the Handshake and ServerLogin frames by hand (independent of gate's encoders), so that
// any byte string — empty, over-long, invalid UTF-8 — can be sent as the username.
// keyring: a harness-owned trust anchor (installed through the verif hook in place of Mojang's key) and a
// player key pair; lets the harness attach a profile key with a VALID signature to a login start packet.
type keyring struct {
	anchor    *rsa.PrivateKey
	playerDER []byte
	holder    [16]byte
}

var keys *keyring

func newKeyring() *keyring {
	anchor, err := rsa.GenerateKey(rand.Reader, 2048)
	if err != nil {
		panic(err)
	}
	player, err := rsa.GenerateKey(rand.Reader, 1024)
	if err != nil {
		panic(err)
	}
	der, err := x509.MarshalPKIXPublicKey(&player.PublicKey)
	if err != nil {
		panic(err)
	}
	k := &keyring{anchor: anchor, playerDER: der}
	copy(k.holder[:], []byte{0xc1, 0x0c, 1, 2, 3, 4, 0x40, 5, 0x80, 6, 7, 8, 9, 10, 11, 12})
	return k
}

// signedKey encodes `expiry, key, signature` as the login start packet of 1.19 (GenericV1: signature over
// decimal expiry + PEM) and 1.19.1/2 (LinkedV2: signature over holder uuid + expiry + DER) carries it.
func (k *keyring) signedKey(protocol int, kind string) []byte {
	exp := time.Now().Add(time.Hour)
	if kind == "expired" {
		exp = time.Now().Add(-time.Hour)
	}
	ms := exp.UnixMilli()
	var msg []byte
	if protocol == 759 {
		b64 := base64.StdEncoding.EncodeToString(k.playerDER)
		var sb strings.Builder
		for i := 0; i < len(b64); i += 76 {
			end := min(i+76, len(b64))
			sb.WriteString(b64[i:end])
			if end-i == 76 {
				sb.WriteString("\n")
			}
		}
		msg = []byte(fmt.Sprintf("%d-----BEGIN RSA PUBLIC KEY-----\n%s\n-----END RSA PUBLIC KEY-----\n", ms, sb.String()))
	} else {
		msg = append(msg, k.holder[:]...)
		msg = binary.BigEndian.AppendUint64(msg, uint64(ms))
		msg = append(msg, k.playerDER...)
	}
	h := sha1.Sum(msg)
	sig, err := rsa.SignPKCS1v15(rand.Reader, k.anchor, crypto.SHA1, h[:])
	if err != nil {
		panic(err)
	}
	if kind == "badsig" {
		sig[len(sig)/2] ^= 0x5a
	}
	out := binary.BigEndian.AppendUint64(nil, uint64(ms))
	out = append(out, varint(len(k.playerDER))...)
	out = append(out, k.playerDER...)
	out = append(out, varint(len(sig))...)
	return append(out, sig...)
}

func clientHello(protocol int, username, key string) []byte {
	hs := append([]byte{0x00}, varint(protocol)...)
	hs = append(hs, mcString("localhost")...)
	hs = append(hs, 0x63, 0xdd) // port 25565
	hs = append(hs, varint(2)...)
	lg := append([]byte{0x00}, mcString(username)...)
	switch {
	case protocol >= 764: // 1.20.2+: holder uuid
		lg = append(lg, make([]byte, 16)...)
	case protocol >= 761: // 1.19.3 .. 1.20.1: optional holder uuid, no key
		lg = append(lg, 0)
	case protocol == 760 && key != "nokey": // 1.19.1/2: signed key + holder uuid
		lg = append(lg, 1)
		lg = append(lg, keys.signedKey(protocol, key)...)
		lg = append(lg, 1)
		lg = append(lg, keys.holder[:]...)
	case protocol == 760: // 1.19.1: optional key, optional uuid
		lg = append(lg, 0, 0)
	case protocol == 759 && key != "nokey": // 1.19: signed key
		lg = append(lg, 1)
		lg = append(lg, keys.signedKey(protocol, key)...)
	case protocol == 759: // 1.19: optional key
		lg = append(lg, 0)
	}
	return append(frame(hs), frame(lg)...)
}

// backend is a fake Minecraft server: it records the Username of every ServerLogin it receives.
type backend struct {
	ln    net.Listener
	names chan string
}

func newBackend() *backend {
	ln, err := net.Listen("tcp", "127.0.0.1:0")
	if err != nil {
		panic(err)
	}
	b := &backend{ln: ln, names: make(chan string, 16)}
	go func() {
		for {
			c, err := ln.Accept()
			if err != nil {
				return
			}
			go b.serve(c)
		}
	}()
	return b
}

func (b *backend) serve(c net.Conn) {
	defer c.Close()
	_ = c.SetDeadline(time.Now().Add(5 * time.Second))
	dec := codec.NewDecoder(c, proto.ServerBound, logr.Discard())
	dec.SetState(state.Handshake)
	ctx, err := dec.Decode()
	if err != nil {
		b.names <- "!handshake-error"
		return
	}
	hs, ok := ctx.Packet.(*packet.Handshake)
	if !ok {
		b.names <- "!not-handshake"
		return
	}
	dec.SetProtocol(proto.Protocol(hs.ProtocolVersion))
	dec.SetState(state.Login)
	ctx, err = dec.Decode()
	if err != nil {
		b.names <- "!login-error"
		return
	}
	lg, ok := ctx.Packet.(*packet.ServerLogin)
	if !ok {
		b.names <- "!not-login"
		return
	}
	b.names <- lg.Username
}

// login performs one offline-mode login and reports what the client observes first (and, when be != nil,
// which username the backend was sent).
func login(protocol int, fwdNone bool, ov *override, be *backend, key, username string) string {
	cfg := jconfig.DefaultConfig
	cfg.OnlineMode = false
	cfg.Compression.Threshold = -1
	cfg.ForceKeyAuthentication = false // 1.19–1.19.2 clients without a chat key are not the subject here
	cfg.Quota.Connections.Enabled = false
	cfg.Quota.Logins.Enabled = false
	cfg.Servers = map[string]string{}
	cfg.Try = nil
	if be != nil {
		cfg.Servers = map[string]string{"s": be.ln.Addr().String()}
		cfg.Try = []string{"s"}
	}
	if fwdNone {
		cfg.Forwarding.Mode = jconfig.NoneForwardingMode
	} else {
		cfg.Forwarding.Mode = jconfig.LegacyForwardingMode
	}
	mgr := event.New()
	if ov != nil {
		event.Subscribe(mgr, 0, func(e *proxy.GameProfileRequestEvent) {
			e.SetGameProfile(profile.GameProfile{ID: ov.id, Name: ov.name})
		})
	}
	p, err := proxy.New(proxy.Options{Config: &cfg, EventMgr: mgr, Authenticator: sharedAuth})
	if err != nil {
		return "proxy-new-error"
	}
	if be != nil {
		if _, err := p.Register(proxy.NewServerInfo("s", be.ln.Addr())); err != nil {
			return "register-error"
		}
	}
	cli, srv := net.Pipe()
	done := make(chan struct{})
	go func() {
		defer close(done)
		p.HandleConn(pipeConn{srv})
	}()
	defer func() {
		_ = cli.Close()
		select {
		case <-done:
		case <-time.After(5 * time.Second):
		}
	}()
	_ = cli.SetDeadline(time.Now().Add(10 * time.Second))

	werr := make(chan error, 1)
	go func() {
		_, err := cli.Write(clientHello(protocol, username, key))
		werr <- err
	}()
	dec := codec.NewDecoder(cli, proto.ClientBound, logr.Discard())
	dec.SetProtocol(proto.Protocol(protocol))
	dec.SetState(state.Login)
	ctx, err := dec.Decode()
	if err != nil {
		if err == io.EOF || strings.Contains(err.Error(), "closed") || strings.Contains(err.Error(), "EOF") {
			return "closed"
		}
		return "decode-error"
	}
	switch t := ctx.Packet.(type) {
	case *packet.ServerLoginSuccess:
		out := "ok " + hx.Hex(t.UUID[:]) + " " + hx.HexS(t.Username)
		if be == nil {
			return out + " be=-"
		}
		// keep draining the client side so the proxy never blocks on the synchronous pipe
		go func() { _, _ = io.Copy(io.Discard, cli) }()
		select {
		case n := <-be.names:
			return out + " be=" + hx.HexS(n)
		case <-time.After(8 * time.Second):
			return out + " be=!timeout"
		}
	case *packet.Disconnect:
		var sb strings.Builder
		if t.Reason != nil {
			if b, err := t.Reason.AsJson(); err == nil {
				sb.Write(b)
			}
		}
		if strings.Contains(sb.String(), "invalid format") {
			return "invalid-name"
		}
		if strings.Contains(sb.String(), "invalid_public_key") {
			return "bad-key"
		}
		return "disconnect-other"
	default:
		return fmt.Sprintf("packet-%T", ctx.Packet)
	}
}

func runesOf(s string) string {
	var parts []string
	for _, r := range s {
		parts = append(parts, strconv.Itoa(int(r)))
	}
	if len(parts) == 0 {
		return "_"
	}
	return strings.Join(parts, ",")
}

const allowed = "ABCDEFGHIJKLMNOPQRSTUVWXYZabcdefghijklmnopqrstuvwxyz0123456789_"

func validName(r *hx.Rng, n int) string {
	b := make([]byte, n)
	for i := range b {
		b[i] = allowed[r.Intn(len(allowed))]
	}
	return string(b)
}

// characters that sit next to the allowed ranges, control characters, separators, look-alikes, invalid UTF-8
var badChars = []string{" ", "-", ".", "\n", "\r", "\x00", "\t", "$", "^", "@", "[", "`", "{", "/", ":", "\\", "*", "+", "?", "(", ")", "|", "]", "}", ",",
	"é", "ß", "İ", "ı", "K", "ſ", "Ａ", "а", "玩", "😀", "\u200b", "\u00a0", "\ufeff", "\u0000",
	"\xff", "\x80", "\xc0\x80", "\xc1\x81", "\xe0\x80\x80", "\xed\xa0\x80", "\xf4\x90\x80\x80", "\xf8", "\xe4\xb8", "\xc3", "\x7f", "\x1b"}

func unq(s string) string { return s }

func genName(r *hx.Rng) (string, string) {
	switch r.Intn(10) {
	case 0, 1: // valid, all lengths
		return validName(r, 2+r.Intn(15)), "valid"
	case 2: // boundary lengths of otherwise valid names
		n := hx.Pick(r, []int{0, 1, 2, 3, 15, 16, 17, 18, 32, 63, 64, 65, 66, 100, 255, 256})
		return validName(r, n), "boundary-length"
	case 3, 4: // valid name with one bad character at a random position (incl. first/last)
		base := validName(r, 1+r.Intn(15))
		pos := hx.Pick(r, []int{0, len(base), r.Intn(len(base) + 1)})
		return base[:pos] + unq(hx.Pick(r, badChars)) + base[pos:], "one-bad-char"
	case 5: // valid name + trailing/leading newline variants ($ and ^ semantics)
		base := validName(r, 2+r.Intn(14))
		return hx.Pick(r, []string{base + "\n", "\n" + base, base + "\r\n", base + "\n\n", base + "\n" + base, base + "\x00"}), "newline"
	case 6: // only bad characters
		n := 1 + r.Intn(6)
		var sb strings.Builder
		for i := 0; i < n; i++ {
			sb.WriteString(unq(hx.Pick(r, badChars)))
		}
		return sb.String(), "bad-only"
	case 7: // random bytes
		return string(r.Bytes(r.Intn(20))), "random-bytes"
	case 8: // 16 multi-byte characters (passes the 64-byte packet limit, 16 "characters")
		c := unq(hx.Pick(r, []string{"é", "玩", "😀", "Ａ"}))
		return strings.Repeat(c, hx.Pick(r, []int{2, 8, 16, 17})), "multibyte-run"
	default: // random printable ASCII
		n := r.Intn(18)
		b := make([]byte, n)
		for i := range b {
			b[i] = byte(32 + r.Intn(95))
		}
		return string(b), "ascii-printable"
	}
}

func main() {
	run := hx.Start()
	defer run.Finish()
	r := run.Rng
	var err error
	sharedAuth, err = auth.New(auth.Options{})
	if err != nil {
		panic(err)
	}
	be := newBackend()
	defer be.ln.Close()
	keys = newKeyring()
	defer pcrypto.C10SetYggdrasilSessionPubKey(pcrypto.C10SetYggdrasilSessionPubKey(&keys.anchor.PublicKey))

	doUUID := func(cl, name string) {
		out := hx.Guard(5*time.Second, func() string {
			u := uuid.OfflinePlayerUUID(name)
			p := profile.NewOffline(name)
			return hx.Hex(u[:]) + " " + hx.Hex(p.ID[:])
		})
		run.Case("uuid/"+cl, "uuid "+hx.HexS(name), out)
	}
	doName := func(cl, name string) {
		out := hx.Guard(5*time.Second, func() string {
			if proxy.C10PlayerNameOK(name) {
				return "1"
			}
			return "0"
		})
		run.Case("name/"+cl, "name "+hx.HexS(name), out)
	}
	doRunes := func(cl, s string) {
		run.Case("runes/"+cl, "runes "+hx.HexS(s), hx.Guard(5*time.Second, func() string { return runesOf(s) }))
	}
	doLoginKey := func(cl string, protocol int, none bool, ov *override, withBE bool, key, name string) {
		mode, ovs, bes := "legacy", "-", "0"
		if none {
			mode = "none"
		}
		if ov != nil {
			ovs = hx.Hex(ov.id[:]) + ":" + hx.HexS(ov.name)
		}
		var b *backend
		if withBE && protocol < 764 {
			b, bes = be, "1"
		}
		if protocol != 759 && protocol != 760 {
			key = "nokey" // only 1.19–1.19.2 login start packets carry a key
		}
		out := hx.Guard(30*time.Second, func() string { return login(protocol, none, ov, b, key, name) })
		run.Case("login/"+cl, fmt.Sprintf("login %d %s %s %s %s %s", protocol, mode, ovs, bes, key, hx.HexS(name)), out)
	}
	doLogin := func(cl string, protocol int, none bool, ov *override, withBE bool, name string) {
		doLoginKey(cl, protocol, none, ov, withBE, "nokey", name)
	}

	// ---- fixed cases first ----
	fixed := []string{"Notch", "jeb_", "ab", "a", "", "abcdefghijklmnop", "abcdefghijklmnopq", "ab\n", "\nab", "ab\r\n", "a b", "a.b", ".ab",
		"ab\x00", "aé", "玩家", "AZaz09_", "@A", "Z[", "`a", "z{", "/0", "9:", "^ab", "ab$", "\xffab", "ab\xc3", "Ａb", "Kelvin", "__", "0123456789012345"}
	for _, f := range fixed {
		n := unq(f)
		doUUID("fixed", n)
		doName("fixed", n)
		doRunes("fixed", n)
	}
	protos := []int{47, 340, 754, 759, 760, 763, 767, 769}
	ov1 := &override{id: uuid.UUID{1, 2, 3, 4, 5, 6, 7, 8, 9, 10, 11, 12, 13, 14, 15, 16}, name: "Other"}
	for i, f := range fixed {
		n := unq(f)
		doLogin("fixed", protos[i%len(protos)], i%2 == 0, nil, false, n)
	}
	for _, pr := range []int{47, 763} {
		for _, none := range []bool{true, false} {
			doLogin("fixed-backend", pr, none, nil, true, "Notch")
			doLogin("fixed-backend", pr, none, ov1, true, "Notch")
			doLogin("fixed-backend", pr, none, nil, true, "ab\n")
		}
	}
	// signed profile key in the login start packet (1.19 / 1.19.1): every key state with valid and invalid names
	for _, pr := range []int{759, 760} {
		for _, k := range []string{"valid", "expired", "badsig", "nokey"} {
			for _, n := range []string{"Notch", "ab", "a", "seventeen_chars_x", "with space", "dash-ed", "N\xc3\xb6tch", "ab\n", "Notch\x00", "\xc5\xbfteve"} {
				doLoginKey("fixed-key/"+k, pr, pr == 759, nil, false, k, n)
			}
		}
	}
	doLoginKey("fixed-key/valid", 760, true, nil, true, "valid", "Notch")
	doLogin("fixed", 767, true, ov1, false, "Notch")
	doLogin("fixed", 767, false, ov1, false, "x")

	// ---- generated ----
	n := run.Scale(4000, 60000)
	for i := 0; i < n; i++ {
		name, cl := genName(r)
		doName(cl, name)
		doUUID(cl, name)
		if i%4 == 0 {
			doRunes(cl, name)
		}
	}
	// rune decoding on hostile byte strings (shared with C40's model)
	m := run.Scale(3000, 40000)
	lead := []byte{0x00, 0x41, 0x7f, 0x80, 0xbf, 0xc0, 0xc1, 0xc2, 0xdf, 0xe0, 0xe1, 0xec, 0xed, 0xee, 0xef, 0xf0, 0xf1, 0xf3, 0xf4, 0xf5, 0xff}
	cont := []byte{0x00, 0x7f, 0x80, 0x8f, 0x90, 0x9f, 0xa0, 0xbf, 0xc0, 0xff}
	for i := 0; i < m; i++ {
		ln := 1 + r.Intn(8)
		b := make([]byte, ln)
		for j := range b {
			switch r.Intn(3) {
			case 0:
				b[j] = hx.Pick(r, lead)
			case 1:
				b[j] = hx.Pick(r, cont)
			default:
				b[j] = byte(r.U64())
			}
		}
		doRunes("hostile", string(b))
	}
	for _, l := range lead { // every lead byte with every continuation-boundary pair
		for _, c1 := range cont {
			for _, c2 := range cont {
				doRunes("table", string([]byte{l, c1, c2, 0x80}))
			}
		}
	}
	// logins
	k := run.Scale(700, 6000)
	for i := 0; i < k; i++ {
		name, cl := genName(r)
		var ov *override
		if r.Chance(1, 5) {
			ov = &override{id: uuid.UUID(r.Bytes(16)), name: validName(r, 2+r.Intn(15))}
		}
		doLogin(cl, hx.Pick(r, protos), r.Bool(), ov, r.Chance(1, 6), name)
	}
	// generated names on the key-carrying protocols, key mostly valid
	kk := run.Scale(400, 4000)
	for i := 0; i < kk; i++ {
		name, cl := genName(r)
		key := hx.Pick(r, []string{"valid", "valid", "valid", "expired", "badsig", "nokey"})
		doLoginKey("key-"+key+"/"+cl, hx.Pick(r, []int{759, 760}), r.Bool(), nil, false, key, name)
	}
}
