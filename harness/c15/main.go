// C15 correspondence harness: end to end through the real Proxy. A fake client logs in, a fake backend
// accepts; both then stream pass-through packets (unknown ids) mixed with packets the proxy consumes, with
// differing compression thresholds on the two legs; the receiving side's sequence is reported.
package main

import (
	"bytes"
	"fmt"
	"net"
	"strings"
	"sync"
	"time"

	"github.com/robinbraemer/event"
	"go.minekube.com/gate/pkg/edition/java/config"
	"go.minekube.com/gate/pkg/edition/java/proto/packet"
	"go.minekube.com/gate/pkg/edition/java/proto/state"
	"go.minekube.com/gate/pkg/edition/java/proto/util"
	"go.minekube.com/gate/pkg/edition/java/proto/version"
	"go.minekube.com/gate/pkg/edition/java/proxy"
	"go.minekube.com/gate/pkg/gate/proto"

	"verifharness/codecx"
	"verifharness/e2e"
	"verifharness/hx"
)

type item struct {
	spec     string
	data     []byte
	consumed bool
	known    bool // a registered packet type the proxy forwards unchanged (raw payload), crafted so that
	// re-encoding it from the decoded struct would NOT reproduce the bytes (non-minimal VarInt / JSON spacing)
}

func vi(v int) []byte {
	var b bytes.Buffer
	util.WriteVarInt(&b, v)
	return b.Bytes()
}
func str(s string) []byte { return append(vi(len(s)), s...) }

// knownC2B: ClientSettings with the chat-visibility VarInt encoded non-minimally (81 00 = 1).
func knownC2B(p proto.Protocol, seq int) ([]byte, bool) {
	id, ok := state.Play.ServerBound.ProtocolRegistry(p).PacketID(&packet.ClientSettings{})
	if !ok {
		return nil, false
	}
	b := append(vi(int(id)), str(fmt.Sprintf("m%04x", seq))...)
	b = append(b, 8)          // view distance
	b = append(b, 0x81, 0x00) // chat visibility = 1, non-minimal
	b = append(b, 1)          // chat colors
	b = append(b, 0x7f)       // skin parts
	if p.GreaterEqual(version.Minecraft_1_9) {
		b = append(b, 0x81, 0x00) // main hand = 1, non-minimal
		if p.GreaterEqual(version.Minecraft_1_17) {
			b = append(b, 0)
		}
		if p.GreaterEqual(version.Minecraft_1_18) {
			b = append(b, 1)
			if p.GreaterEqual(version.Minecraft_1_21_2) {
				b = append(b, 0)
			}
		}
	}
	return b, true
}

// knownB2C: HeaderAndFooter (JSON era only) with unusual but valid JSON spacing.
func knownB2C(p proto.Protocol, seq int) ([]byte, bool) {
	if p.GreaterEqual(version.Minecraft_1_20_3) {
		return nil, false
	}
	id, ok := state.Play.ClientBound.ProtocolRegistry(p).PacketID(&packet.HeaderAndFooter{})
	if !ok {
		return nil, false
	}
	b := append(vi(int(id)), str(fmt.Sprintf(`{ "text" :  "m%04x" }`, seq))...)
	return append(b, str(`{"text":""}`)...), true
}

func isMarked(c *proto.PacketContext) bool {
	if len(c.Payload) == 0 {
		return false
	}
	if c.Packet == nil {
		return c.Payload[0] == 0x7d
	}
	switch c.Packet.(type) {
	case *packet.ClientSettings, *packet.HeaderAndFooter:
		return true
	}
	return false
}

// mkPayload: first byte = an id unknown to gate in the play state of every version (0x7d), then a sequence marker.
func mkPayload(r *hx.Rng, n int, compressible bool) (string, []byte) {
	if n < 2 {
		n = 2
	}
	if n <= 40 {
		b := r.Bytes(n)
		b[0] = 0x7d
		return hx.Hex(b), b
	}
	for {
		seed := r.U64() >> 12
		var b []byte
		kind := "r"
		if compressible {
			kind = "z"
			pat := codecx.GenBytes(seed, 16)
			if pat[0] != 0x7d {
				continue
			}
			b = make([]byte, n)
			for i := range b {
				b[i] = pat[i%16]
			}
		} else {
			if codecx.GenBytes(seed, 1)[0] != 0x7d {
				continue
			}
			b = codecx.GenBytes(seed, n)
		}
		return fmt.Sprintf("g%s:%d:%d", kind, seed, n), b
	}
}

// session runs one client⇄proxy⇄backend session; a session whose SETUP did not complete (login or the switch to
// the backend did not finish within the generous timeouts — a starved machine, nothing was relayed yet) is
// repeated, at most three times, before its outcome is reported.
func session(emit func(class, op, impl string), r *hx.Rng, p proto.Protocol, thrC, thrB int, c2b, b2c []item) {
	var lines [][3]string
	for attempt := 0; attempt < 3; attempt++ {
		lines = lines[:0]
		session1(func(class, op, impl string) { lines = append(lines, [3]string{class, op, impl}) }, r, p, thrC, thrB, c2b, b2c)
		setupFailed := false
		for _, l := range lines {
			if l[2] == "setup-failed" || l[2] == "login-failed" || l[2] == "not-in-play" {
				setupFailed = true
			}
		}
		if !setupFailed {
			break
		}
	}
	for _, l := range lines {
		emit(l[0], l[1], l[2])
	}
}

func session1(emit func(class, op, impl string), r *hx.Rng, p proto.Protocol, thrC, thrB int, c2b, b2c []item) {
	var mu sync.Mutex
	var atBackend [][]byte
	backendReady := make(chan *e2e.Endpoint, 1)
	done := make(chan struct{})
	b := &e2e.Backend{Name: "s1"}
	b.Accept = e2e.BackendScript(p, thrB, func(ep *e2e.Endpoint) {
		backendReady <- ep
		ep.Pump(func(c *proto.PacketContext) {
			if isMarked(c) {
				mu.Lock()
				atBackend = append(atBackend, append([]byte(nil), c.Payload...))
				mu.Unlock()
			}
		})
		close(done)
	})
	rig, err := e2e.NewRig(func(c *config.Config) { c.Compression.Threshold = thrC }, b)
	outC2B, outB2C := "setup-failed", "setup-failed"
	if err == nil {
		// "while a player is in play on a backend": the transition to the backend is complete only when the proxy
		// has set the player's connected server (ServerPostConnectEvent); packets a client sends between receiving
		// JoinGame and that moment are dropped by design (as in Velocity), so they are outside the property.
		inPlay := make(chan struct{})
		var inPlayOnce sync.Once
		event.Subscribe(rig.Proxy.Event(), 0, func(*proxy.ServerPostConnectEvent) { inPlayOnce.Do(func() { close(inPlay) }) })
		cl := rig.Connect(net.IPv4(1, 2, 3, 4))
		if err := e2e.ClientLogin(cl, p, "example.com", "Tester"); err == nil {
			var bep *e2e.Endpoint
			select {
			case bep = <-backendReady:
			case <-time.After(20 * time.Second):
			}
			if bep != nil {
				select {
				case <-inPlay:
				case <-time.After(20 * time.Second):
					bep = nil
				}
			}
			if bep == nil {
				outC2B, outB2C = "not-in-play", "not-in-play"
			}
			if bep != nil {
				// client → backend
				for _, it := range c2b {
					if it.consumed {
						cl.Send(&packet.KeepAlive{RandomID: int64(0x5eed0000 + r.Intn(1000))}) // a reply nobody asked for: dropped (C18)
					} else {
						cl.SendRaw(it.data)
					}
				}
				// backend → client
				for _, it := range b2c {
					if it.consumed {
						// a keep-alive from the backend is recorded and forwarded as a KNOWN packet, not via our marker id:
						// the client sees it as KeepAlive, not as a 0x7d payload
						bep.Send(&packet.KeepAlive{RandomID: int64(0x6eed0000 + r.Intn(1000))})
					} else {
						bep.SendRaw(it.data)
					}
				}
				// collect at the client until all expected arrived or timeout
				var atClient [][]byte
				want := 0
				for _, it := range b2c {
					if !it.consumed {
						want++
					}
				}
				deadline := time.Now().Add(20 * time.Second)
				for len(atClient) < want && time.Now().Before(deadline) {
					c, err := cl.Next(time.Until(deadline), isMarked)
					if err != nil {
						break
					}
					atClient = append(atClient, append([]byte(nil), c.Payload...))
				}
				// give the proxy a moment to deliver anything surplus, then look once more without blocking long
				if c, err := cl.Next(150*time.Millisecond, isMarked); err == nil {
					atClient = append(atClient, c.Payload)
				}
				wantB := 0
				for _, it := range c2b {
					if !it.consumed {
						wantB++
					}
				}
				for i := 0; i < 400; i++ {
					mu.Lock()
					n := len(atBackend)
					mu.Unlock()
					if n >= wantB {
						break
					}
					time.Sleep(50 * time.Millisecond)
				}
				time.Sleep(100 * time.Millisecond)
				mu.Lock()
				outC2B = "recv=" + codecx.ShowList(atBackend)
				mu.Unlock()
				outB2C = "recv=" + codecx.ShowList(atClient)
			}
		} else {
			outC2B, outB2C = "login-failed", "login-failed"
		}
		cl.Conn.Close()
	}
	show := func(its []item) string {
		if len(its) == 0 {
			return "_"
		}
		s := make([]string, len(its))
		for i, it := range its {
			switch {
			case it.consumed:
				s[i] = "x:" + it.spec
			case it.known:
				s[i] = "k:" + it.spec
			default:
				s[i] = "u:" + it.spec
			}
		}
		return strings.Join(s, ",")
	}
	emit(fmt.Sprintf("c2b/%d", p), fmt.Sprintf("relay %d %d %d c2b %s", p, thrC, thrB, show(c2b)), outC2B)
	emit(fmt.Sprintf("b2c/%d", p), fmt.Sprintf("relay %d %d %d b2c %s", p, thrB, thrC, show(b2c)), outB2C)
	select {
	case <-done:
	case <-time.After(2 * time.Second):
	}
}

func main() {
	run := hx.Start()
	r := run.Rng
	protos := []proto.Protocol{47, 340, 765, 767, 774}
	thrs := []int{-1, 0, 1, 64, 256, 1024}
	sessions := run.Scale(160, 1200)
	var wg sync.WaitGroup
	type job struct {
		p          proto.Protocol
		tc, tb     int
		c2b, b2c   []item
		subrng     *hx.Rng
	}
	var jobs []job
	for i := 0; i < sessions; i++ {
		p := protos[i%len(protos)]
		tc, tb := hx.Pick(r, thrs), hx.Pick(r, thrs)
		if p < 47 {
			tc, tb = -1, -1
		}
		mk := func(c2b bool) []item {
			n := 1 + r.Intn(12)
			its := make([]item, n)
			for j := range its {
				if r.Chance(1, 5) {
					var d []byte
					var ok bool
					if c2b {
						d, ok = knownC2B(p, i*16+j)
					} else {
						d, ok = knownB2C(p, i*16+j)
					}
					if ok {
						its[j] = item{spec: hx.Hex(d), data: d, known: true}
						continue
					}
				}
				if r.Chance(1, 6) {
					its[j] = item{spec: fmt.Sprintf("7d%02x", j), data: []byte{0x7d, byte(j)}, consumed: true}
					continue
				}
				var sz int
				switch r.Intn(8) {
				case 0:
					sz = 2 + r.Intn(4)
				case 1:
					sz = max(2, tc+r.Intn(5)-2)
				case 2:
					sz = max(2, tb+r.Intn(5)-2)
				case 3:
					sz = 2 + r.Intn(40000)
				default:
					sz = 2 + r.Intn(500)
				}
				if i%17 == 3 && j == 0 {
					sz = hx.Pick(r, []int{1<<21 - 1, 1<<21 - 6, 1 << 20}) // near the frame cap (compressible so it fits both legs)
				}
				s, d := mkPayload(r, sz, sz > 100000 || r.Chance(2, 3))
				its[j] = item{spec: s, data: d}
			}
			return its
		}
		jobs = append(jobs, job{p, tc, tb, mk(true), mk(false), hx.NewRng(r.U64())})
	}
	// sessions are independent: run a few in parallel, record in order
	results := make([]func(), len(jobs))
	sem := make(chan struct{}, 8)
	var rmu sync.Mutex
	for i, j := range jobs {
		if i == len(jobs)/2 {
			// the sessions of the second half relay through encoders whose process-wide buffer pools have passed
			// their self-calibration point (the state of a proxy after a few minutes of traffic)
			for k := 0; k < cap(sem); k++ {
				sem <- struct{}{}
			}
			codecx.WarmPools()
			for k := 0; k < cap(sem); k++ {
				<-sem
			}
		}
		wg.Add(1)
		sem <- struct{}{}
		go func() {
			defer wg.Done()
			defer func() { <-sem }()
			// collect this session's two cases; they are recorded later in job order (deterministic trace)
			var lines [][3]string
			session(func(class, op, impl string) { lines = append(lines, [3]string{class, op, impl}) },
				j.subrng, j.p, j.tc, j.tb, j.c2b, j.b2c)
			rmu.Lock()
			results[i] = func() {
				for _, l := range lines {
					run.Case(l[0], l[1], l[2])
				}
			}
			rmu.Unlock()
		}()
	}
	wg.Wait()
	for _, f := range results {
		if f != nil {
			f()
		}
	}
	run.Finish()
}
