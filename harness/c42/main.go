// C42 correspondence harness: drives the real pkg/internal/future.Future (through the verif shim
// pkg/verifexport) with generated programs of ThenAccept / ThenCompose / Complete calls.
//
// Case lines (tokens separated by one space):
//
//	seq   <nf> <call>…                       one goroutine, calls in program order
//	par   <nf> <call>… | <call>… | <call>…   first segment = sequential prologue, the others run on goroutines
//	chain <nf> <call>… | <call>… | <call>…   like par; the summary also has order=<0|1>: every composed future's
//	                                         callback ran after its source's (observed log order)
//	cross <nf> <call>… | <call>… | <call>…   like par, but every callback registered by the prologue first meets the
//	                                         other threads' callbacks at a rendezvous (forces "both inside a callback")
//
//	call := T <f> <cb>            futs[f].ThenAccept(cb)
//	      | K <f> <v>             futs[f].Complete(v)
//	      | P <f> <g> <out> <cb>  futs[out] = ThenCompose(futs[f], func(v){ cb(v); return futs[g] })
//	cb   := N | L <tag> | C <g> | A <g> <cb> | S <cb> <cb>
//	        (nop, log (tag,owner,value), futs[g].Complete(value), futs[g].ThenAccept(cb), sequence)
//
// Outputs: seq   → `log=<tag:owner:value,…> vals=<v|-,…>`   (exact invocation log, final values)
//
//	par/cross → `tags=<tag:count,…> done=<bits> agree=<0|1> adm=<0|1>`  (schedule independent summary)
//
// `hang` when the program does not finish (deadlock), `panic` on a panic.
package main

import (
	"fmt"
	"runtime"
	"sort"
	"strconv"
	"strings"
	"sync"
	"sync/atomic"
	"time"

	vx "go.minekube.com/gate/pkg/verifexport"

	"verifharness/hx"
)

type cbT struct {
	kind byte // N L C A S
	a    int
	sub  []*cbT
}

type callT struct {
	kind         byte // T K P
	f, g, out, v int
	cb           *cbT
}

func (c *cbT) toks(out *[]string) {
	switch c.kind {
	case 'N':
		*out = append(*out, "N")
	case 'L':
		*out = append(*out, "L", strconv.Itoa(c.a))
	case 'C':
		*out = append(*out, "C", strconv.Itoa(c.a))
	case 'A':
		*out = append(*out, "A", strconv.Itoa(c.a))
		c.sub[0].toks(out)
	case 'S':
		*out = append(*out, "S")
		c.sub[0].toks(out)
		c.sub[1].toks(out)
	}
}

func (c callT) toks(out *[]string) {
	switch c.kind {
	case 'T':
		*out = append(*out, "T", strconv.Itoa(c.f))
		c.cb.toks(out)
	case 'K':
		*out = append(*out, "K", strconv.Itoa(c.f), strconv.Itoa(c.v))
	case 'P':
		*out = append(*out, "P", strconv.Itoa(c.f), strconv.Itoa(c.g), strconv.Itoa(c.out))
		c.cb.toks(out)
	}
}

func progLine(op string, nf int, segs [][]callT) string {
	t := []string{op, strconv.Itoa(nf)}
	for i, s := range segs {
		if i > 0 {
			t = append(t, "|")
		}
		for _, c := range s {
			c.toks(&t)
		}
	}
	return strings.Join(t, " ")
}

// ---------- executing a program on the real futures ----------

type entry struct{ tag, owner, val int }

type world struct {
	futs []*vx.C42Future
	mu   sync.Mutex
	log  []entry
	// rendezvous (cross mode)
	rvN    int
	rvMu   sync.Mutex
	rvCnt  int
	rvCh   chan struct{}
	yield  bool
	values map[int]bool
}

func newWorld(nf int, outs map[int]bool) *world {
	w := &world{futs: make([]*vx.C42Future, nf), rvCh: make(chan struct{}), values: map[int]bool{}}
	for i := range w.futs {
		if !outs[i] {
			w.futs[i] = vx.C42New()
		}
	}
	return w
}

func (w *world) rendezvous() {
	w.rvMu.Lock()
	w.rvCnt++
	if w.rvCnt == w.rvN {
		close(w.rvCh)
	}
	w.rvMu.Unlock()
	select {
	case <-w.rvCh:
	case <-time.After(400 * time.Millisecond):
	}
}

func (w *world) build(owner int, c *cbT) func(int) {
	switch c.kind {
	case 'L':
		return func(v int) {
			w.mu.Lock()
			w.log = append(w.log, entry{c.a, owner, v})
			w.mu.Unlock()
		}
	case 'C':
		return func(v int) {
			if w.yield {
				runtime.Gosched()
			}
			w.futs[c.a].Complete(v)
		}
	case 'A':
		inner := w.build(c.a, c.sub[0])
		return func(v int) {
			if w.yield {
				runtime.Gosched()
			}
			w.futs[c.a].ThenAccept(inner)
		}
	case 'S':
		a, b := w.build(owner, c.sub[0]), w.build(owner, c.sub[1])
		return func(v int) { a(v); b(v) }
	}
	return func(int) {}
}

func (w *world) exec(c callT, rv bool) {
	switch c.kind {
	case 'T':
		f := w.build(c.f, c.cb)
		if rv {
			g := f
			f = func(v int) { w.rendezvous(); g(v) }
		}
		w.futs[c.f].ThenAccept(f)
	case 'K':
		w.futs[c.f].Complete(c.v)
	case 'P':
		eff := w.build(c.f, c.cb)
		w.futs[c.out] = vx.C42ThenCompose(w.futs[c.f], func(v int) *vx.C42Future {
			eff(v)
			return w.futs[c.g]
		})
	}
}

func (w *world) finals() ([]int, []bool) {
	vals, has := make([]int, len(w.futs)), make([]bool, len(w.futs))
	for i, f := range w.futs {
		if f == nil {
			continue
		}
		i := i
		f.ThenAccept(func(v int) { vals[i] = v; has[i] = true })
	}
	return vals, has
}

func outsOf(segs [][]callT) map[int]bool {
	m := map[int]bool{}
	for _, s := range segs {
		for _, c := range s {
			if c.kind == 'P' {
				m[c.out] = true
			}
		}
	}
	return m
}

func literals(segs [][]callT) map[int]bool {
	m := map[int]bool{}
	for _, s := range segs {
		for _, c := range s {
			if c.kind == 'K' {
				m[c.v] = true
			}
		}
	}
	return m
}

const guardT = 2 * time.Second

// hang budget: a tree on which programs deadlock would otherwise cost guardT per generated case
var hangs int

func guard(f func() string) string {
	out := hx.Guard(guardT, f)
	if out == "hang" {
		hangs++
	}
	return out
}
func hangBudgetSpent() bool { return hangs >= 8 }

func runSeq(nf int, prog []callT) string {
	return guard(func() string {
		w := newWorld(nf, outsOf([][]callT{prog}))
		for _, c := range prog {
			w.exec(c, false)
		}
		vals, has := w.finals()
		var lg, vs []string
		for _, e := range w.log {
			lg = append(lg, fmt.Sprintf("%d:%d:%d", e.tag, e.owner, e.val))
		}
		for i := range vals {
			if has[i] {
				vs = append(vs, strconv.Itoa(vals[i]))
			} else {
				vs = append(vs, "-")
			}
		}
		l := strings.Join(lg, ",")
		if l == "" {
			l = "-"
		}
		return "log=" + l + " vals=" + strings.Join(vs, ",")
	})
}

// orderOK: for every link `P f g out (L a)` and every `T out (L b)` of the program: b logged ⇒ a logged earlier.
func orderOK(segs [][]callT, log []entry) int {
	pos := map[int]int{}
	for i, e := range log {
		if _, ok := pos[e.tag]; !ok {
			pos[e.tag] = i
		}
	}
	for _, s := range segs {
		for _, p := range s {
			if p.kind != 'P' || p.cb.kind != 'L' {
				continue
			}
			for _, s2 := range segs {
				for _, t := range s2 {
					if t.kind == 'T' && t.f == p.out && t.cb.kind == 'L' {
						ib, okb := pos[t.cb.a]
						ia, oka := pos[p.cb.a]
						if okb && (!oka || ia >= ib) {
							return 0
						}
					}
				}
			}
		}
	}
	return 1
}

func runPar(nf int, segs [][]callT, cross, yield bool) string {
	return runParX(nf, segs, cross, yield, false)
}

func runParX(nf int, segs [][]callT, cross, yield, chain bool) string {
	return guard(func() string {
		w := newWorld(nf, outsOf(segs))
		w.yield = yield
		w.rvN = len(segs) - 1
		for _, c := range segs[0] {
			w.exec(c, cross)
		}
		start := make(chan struct{})
		var wg sync.WaitGroup
		for _, s := range segs[1:] {
			wg.Add(1)
			go func(s []callT) {
				defer wg.Done()
				<-start
				for _, c := range s {
					if yield {
						runtime.Gosched()
					}
					w.exec(c, false)
				}
			}(s)
		}
		close(start)
		wg.Wait()
		vals, has := w.finals()
		cnt := map[int]int{}
		agree := 1
		for _, e := range w.log {
			cnt[e.tag]++
			if !has[e.owner] || vals[e.owner] != e.val {
				agree = 0
			}
		}
		tags := make([]int, 0, len(cnt))
		for t := range cnt {
			tags = append(tags, t)
		}
		sort.Ints(tags)
		var ts []string
		for _, t := range tags {
			ts = append(ts, fmt.Sprintf("%d:%d", t, cnt[t]))
		}
		lit := literals(segs)
		adm := 1
		done := ""
		for i := range vals {
			if has[i] {
				done += "1"
				if !lit[vals[i]] {
					adm = 0
				}
			} else {
				done += "0"
			}
		}
		t := strings.Join(ts, ",")
		if t == "" {
			t = "-"
		}
		out := fmt.Sprintf("tags=%s done=%s agree=%d adm=%d", t, done, agree, adm)
		if chain {
			out += fmt.Sprintf(" order=%d", orderOK(segs, w.log))
		}
		return out
	})
}

// ---------- registration racing completion (the check-then-act window inside ThenAccept) ----------

// runRace: N fresh futures; for each, G registrars (ThenAccept, or ThenCompose whose function returns an already
// completed future) and one completer are released together.  Every callback must run exactly once and every
// composed future must end completed; on correct code these counts are exact, whatever the schedule.
// No timeouts: nothing here can block, a lost callback simply never runs.
func runRace(G, N int, compose bool, rng *hx.Rng) string {
	ran0, ran2, stuck := 0, 0, 0
	doneF := vx.C42New()
	doneF.Complete(1)
	counts := make([]atomic.Int32, G)
	outs := make([]*vx.C42Future, G)
	for it := 0; it < N; it++ {
		f := vx.C42New()
		var ready, gate atomic.Int32
		var wg sync.WaitGroup
		delay := rng.Intn(64)
		for i := 0; i < G; i++ {
			counts[i].Store(0)
			outs[i] = nil
			wg.Add(1)
			go func(i int) {
				defer wg.Done()
				ready.Add(1)
				for gate.Load() == 0 {
					runtime.Gosched()
				}
				if compose && i%2 == 0 {
					outs[i] = vx.C42ThenCompose(f, func(int) *vx.C42Future { counts[i].Add(1); return doneF })
				} else {
					f.ThenAccept(func(int) { counts[i].Add(1) })
				}
			}(i)
		}
		wg.Add(1)
		go func() {
			defer wg.Done()
			ready.Add(1)
			for gate.Load() == 0 {
				runtime.Gosched()
			}
			for k := 0; k < delay; k++ {
				_ = gate.Load()
			}
			f.Complete(it + 2)
		}()
		for int(ready.Load()) < G+1 {
			runtime.Gosched()
		}
		gate.Store(1)
		wg.Wait()
		for i := 0; i < G; i++ {
			switch c := counts[i].Load(); {
			case c == 0:
				ran0++
			case c > 1:
				ran2++
			}
			if outs[i] != nil {
				completed := false
				outs[i].ThenAccept(func(int) { completed = true })
				if !completed {
					stuck++
				}
			}
		}
	}
	return fmt.Sprintf("ran0=%d ran2=%d stuck=%d", ran0, ran2, stuck)
}

// ---------- generators ----------

type gen struct {
	r     *hx.Rng
	nf    int
	tag   int
	avail []int // future ids that may be referenced (compose outs become available after their P)
}

func (g *gen) fut() int { return hx.Pick(g.r, g.avail) }

func (g *gen) cb(depth int) *cbT {
	k := g.r.Intn(10)
	if depth <= 0 && k >= 5 {
		k = g.r.Intn(5)
	}
	switch {
	case k <= 2:
		g.tag++
		return &cbT{kind: 'L', a: g.tag}
	case k == 3:
		return &cbT{kind: 'C', a: g.fut()}
	case k == 4:
		if g.r.Chance(1, 3) {
			return &cbT{kind: 'N'}
		}
		g.tag++
		return &cbT{kind: 'L', a: g.tag}
	case k <= 7:
		f := g.fut()
		return &cbT{kind: 'A', a: f, sub: []*cbT{g.cb(depth - 1)}}
	default:
		return &cbT{kind: 'S', sub: []*cbT{g.cb(depth - 1), g.cb(depth - 1)}}
	}
}

func (g *gen) call(allowP bool, nextOut *int, maxOut int) callT {
	k := g.r.Intn(10)
	switch {
	case k <= 3:
		return callT{kind: 'T', f: g.fut(), cb: g.cb(3)}
	case k <= 6 || !allowP || *nextOut >= maxOut:
		return callT{kind: 'K', f: g.fut(), v: 1 + g.r.Intn(9)}
	default:
		c := callT{kind: 'P', f: g.fut(), g: g.fut(), out: *nextOut}
		if g.r.Chance(1, 2) {
			c.cb = &cbT{kind: 'N'}
		} else {
			c.cb = g.cb(2)
		}
		g.avail = append(g.avail, *nextOut)
		*nextOut++
		return c
	}
}

func genProgram(r *hx.Rng, par bool) (int, [][]callT) {
	base := 1 + r.Intn(4)
	maxOut := base + r.Intn(4)
	g := &gen{r: r, nf: maxOut}
	for i := 0; i < base; i++ {
		g.avail = append(g.avail, i)
	}
	nextOut := base
	var segs [][]callT
	n0 := r.Intn(7)
	if !par {
		n0 = 1 + r.Intn(10)
	}
	var s0 []callT
	for i := 0; i < n0; i++ {
		s0 = append(s0, g.call(true, &nextOut, maxOut))
	}
	segs = append(segs, s0)
	if par {
		nt := 2 + r.Intn(3)
		for t := 0; t < nt; t++ {
			var s []callT
			for i, n := 0, 1+r.Intn(4); i < n; i++ {
				s = append(s, g.call(false, &nextOut, maxOut))
			}
			segs = append(segs, s)
		}
	}
	return nextOut, segs
}

// a chain f0 → out1 → out2 … of composed futures, completed in a random order by parallel threads
func genChain(r *hx.Rng) (int, [][]callT) {
	n := 2 + r.Intn(4) // links
	nf := 1 + 2*n      // f0, g1..gn, out1..outn
	var pro []callT
	prev := 0
	tag := 0
	for i := 1; i <= n; i++ {
		gi, oi := i, n+i
		tag++
		pro = append(pro, callT{kind: 'P', f: prev, g: gi, out: oi, cb: &cbT{kind: 'L', a: tag}})
		tag++
		pro = append(pro, callT{kind: 'T', f: oi, cb: &cbT{kind: 'L', a: tag}})
		prev = oi
	}
	segs := [][]callT{pro}
	nt := 2 + r.Intn(3)
	thr := make([][]callT, nt)
	for f := 0; f <= n; f++ {
		t := r.Intn(nt)
		thr[t] = append(thr[t], callT{kind: 'K', f: f, v: 1 + r.Intn(9)})
		if r.Chance(1, 3) { // a competing second completion
			t2 := r.Intn(nt)
			thr[t2] = append(thr[t2], callT{kind: 'K', f: f, v: 1 + r.Intn(9)})
		}
	}
	for _, s := range thr {
		r2 := s
		for i := len(r2) - 1; i > 0; i-- {
			j := r.Intn(i + 1)
			r2[i], r2[j] = r2[j], r2[i]
		}
		segs = append(segs, r2)
	}
	return nf, segs
}

func L(tag int) *cbT              { return &cbT{kind: 'L', a: tag} }
func A(g int, c *cbT) *cbT        { return &cbT{kind: 'A', a: g, sub: []*cbT{c}} }
func C(g int) *cbT                { return &cbT{kind: 'C', a: g} }
func S(a, b *cbT) *cbT            { return &cbT{kind: 'S', sub: []*cbT{a, b}} }
func T(f int, c *cbT) callT       { return callT{kind: 'T', f: f, cb: c} }
func K(f, v int) callT            { return callT{kind: 'K', f: f, v: v} }
func P(f, g, o int, c *cbT) callT { return callT{kind: 'P', f: f, g: g, out: o, cb: c} }

func main() {
	run := hx.Start()
	r := run.Rng

	// ---- fixed regression cases first: the witnesses of the lock-held-during-callback defect ----
	fixedSeq := []struct {
		nf   int
		prog []callT
	}{
		{1, []callT{T(0, A(0, L(1))), K(0, 7)}},                // callback of f registers on f (inside Complete)
		{1, []callT{K(0, 7), T(0, A(0, L(1)))}},                // same inside ThenAccept on a completed future
		{1, []callT{T(0, C(0)), T(0, L(1)), K(0, 3), K(0, 4)}}, // callback completes its own future again
		{2, []callT{T(0, S(L(1), A(1, S(L(2), A(0, L(3)))))), K(1, 5), K(0, 6)}},
		{3, []callT{P(0, 1, 2, &cbT{kind: 'N'}), T(2, L(1)), K(1, 8), K(0, 9), K(2, 4)}},
		{3, []callT{K(0, 1), K(0, 2), T(0, L(1)), P(0, 0, 1, L(2)), P(1, 0, 2, L(3)), T(2, L(4))}},
	}
	for _, c := range fixedSeq {
		run.Case("seq-fixed", progLine("seq", c.nf, [][]callT{c.prog}), runSeq(c.nf, c.prog))
	}
	crossProg := [][]callT{{T(0, A(1, L(1))), T(1, A(0, L(2)))}, {K(0, 5)}, {K(1, 6)}}
	for i := 0; i < 3; i++ {
		run.Case("cross-fixed", progLine("cross", 2, crossProg), runPar(2, crossProg, true, false))
	}
	cross3 := [][]callT{{T(0, A(1, L(1))), T(1, A(2, L(2))), T(2, A(0, L(3)))}, {K(0, 5)}, {K(1, 6)}, {K(2, 7)}}
	run.Case("cross-fixed", progLine("cross", 3, cross3), runPar(3, cross3, true, false))

	// ---- registrations racing one completion on fresh futures (check-then-act window of ThenAccept) ----
	for i, n := 0, run.Scale(6, 40); i < n; i++ {
		G, N, comp := 2+r.Intn(3), run.Scale(6000, 20000), i%2
		run.Case("race", fmt.Sprintf("race %d %d %d", G, N, comp), hx.Guard(10*time.Minute, func() string { return runRace(G, N, comp == 1, r) }))
	}

	// ---- generated sequential programs: exact log correspondence ----
	for i, n := 0, run.Scale(4000, 40000); i < n; i++ {
		if hangBudgetSpent() {
			break
		}
		nf, segs := genProgram(r, false)
		run.Case("seq", progLine("seq", nf, segs), runSeq(nf, segs[0]))
	}
	// ---- generated parallel programs: goroutine stress, schedule independent summary ----
	for i, n := 0, run.Scale(2500, 25000); i < n; i++ {
		if hangBudgetSpent() {
			break
		}
		nf, segs := genProgram(r, true)
		run.Case("par", progLine("par", nf, segs), runPar(nf, segs, false, r.Bool()))
	}
	// ---- chains of composed futures completed concurrently in random order ----
	for i, n := 0, run.Scale(1500, 15000); i < n; i++ {
		if hangBudgetSpent() {
			break
		}
		nf, segs := genChain(r)
		run.Case("chain", progLine("chain", nf, segs), runParX(nf, segs, false, r.Bool(), true))
	}
	run.Extra["hangs"] = hangs
	run.Finish()
}
