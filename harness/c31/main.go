// C31 correspondence harness: end to end through the REAL proxy.
//
// fake client (in-memory pipe with a chosen client address) ⇄ proxy.Proxy.HandleConn (Lite enabled: real read loop,
// real decoder, real handshake session handler, lite.Forward) ⇄ real loopback TCP ⇄ fake backend listener.
// Every case records what the client sent, what the backend sent, and prints every byte the backend and the client
// received.  The model (lean/GateModel/C31) predicts both streams.
package main

import (
	"bytes"
	"encoding/hex"
	"fmt"
	"hash/adler32"
	"io"
	"net"
	"strings"
	"sync"
	"time"

	"github.com/robinbraemer/event"
	"go.minekube.com/gate/pkg/edition/java/config"
	"go.minekube.com/gate/pkg/edition/java/lite"
	liteconfig "go.minekube.com/gate/pkg/edition/java/lite/config"
	"go.minekube.com/gate/pkg/edition/java/proxy"
	"go.minekube.com/gate/pkg/util/configutil"
	"go.minekube.com/gate/pkg/util/netutil"

	"verifharness/e2e"
	"verifharness/hx"
)

const caseTimeout = 20 * time.Second

// cases in which the client did not receive all backend bytes within caseTimeout
var shortReads int

// ---------- byte stream tokens (shared with the Lean driver) ----------

type token struct {
	lit  []byte
	seed int
	n    int
	gen  bool
}

func genBytes(seed, n int) []byte {
	b := make([]byte, n)
	for i := range b {
		b[i] = byte(((seed+i*7919)*31 + i/251) % 256)
	}
	return b
}
func (t token) bytes() []byte {
	if t.gen {
		return genBytes(t.seed, t.n)
	}
	return t.lit
}
func (t token) String() string {
	if t.gen {
		return fmt.Sprintf("g%dx%d", t.seed, t.n)
	}
	return hx.Hex(t.lit)
}
func lit(b []byte) token    { return token{lit: b} }
func gen(seed, n int) token { return token{gen: true, seed: seed, n: n} }
func showTokens(ts []token) string {
	if len(ts) == 0 {
		return "-"
	}
	q := make([]string, len(ts))
	for i, t := range ts {
		q[i] = t.String()
	}
	return strings.Join(q, ",")
}

func showStream(b []byte) string {
	if len(b) <= 700 {
		return hx.Hex(b)
	}
	return hex.EncodeToString(b[:400]) + fmt.Sprintf("~%d:%d", len(b), adler32.Checksum(b))
}

// ---------- fake backends ----------

type accepted struct {
	c net.Conn
}

type listener struct {
	ln   net.Listener
	port int
	ch   chan net.Conn
}

func newListener() *listener {
	ln, err := net.Listen("tcp4", "127.0.0.1:0")
	if err != nil {
		panic(err)
	}
	l := &listener{ln: ln, port: ln.Addr().(*net.TCPAddr).Port, ch: make(chan net.Conn, 64)}
	go func() {
		for {
			c, err := ln.Accept()
			if err != nil {
				close(l.ch)
				return
			}
			l.ch <- c
		}
	}()
	return l
}

// barrier returns every connection accepted before a marker connection made now (accept order is FIFO).
func (l *listener) barrier() []net.Conn {
	m, err := net.DialTimeout("tcp4", fmt.Sprintf("127.0.0.1:%d", l.port), 5*time.Second)
	if err != nil {
		panic(err)
	}
	defer m.Close()
	want := m.LocalAddr().String()
	var got []net.Conn
	for {
		select {
		case c, ok := <-l.ch:
			if !ok {
				return got
			}
			if c.RemoteAddr().String() == want {
				c.Close()
				return got
			}
			got = append(got, c)
		case <-time.After(10 * time.Second):
			return got
		}
	}
}

// deadPort returns a loopback port on which nothing listens: the privileged ports 1-3 (tcpmux, compressnet), so that
// no concurrently running program can grab it between choosing and dialling.
func deadPort(i int) int { return 1 + i%3 }

// ---------- one case ----------

type caseSpec struct {
	class     string
	proxyProt bool
	modify    bool
	tcpShield bool
	useRealIP bool // deprecated RealIP flag instead of TCPShieldRealIP
	clientIP  net.IP
	clientPt  int
	hostName  bool // configure the backend as localhost:port instead of 127.0.0.1:port
	deadFirst int  // number of closed-port backends listed before the live one
	routeHost string
	first     []token // written in one Write together (handshake + same-segment bytes)
	later     []token // written afterwards, one Write per token
	s2c       []token
	closes    bool
	routed    int
}

func flat(ts []token) []byte {
	var b bytes.Buffer
	for _, t := range ts {
		b.Write(t.bytes())
	}
	return b.Bytes()
}

func addrSpec(ip net.IP, port int) string {
	if v4 := ip.To4(); v4 != nil {
		return fmt.Sprintf("4:%s:%d", hex.EncodeToString(v4), port)
	}
	return fmt.Sprintf("6:%s:%d", hex.EncodeToString(ip.To16()), port)
}

func baseConfig() config.Config {
	cfg := config.DefaultConfig
	cfg.OnlineMode = false
	cfg.Forwarding.Mode = config.NoneForwardingMode
	cfg.Quota.Connections.Enabled = false
	cfg.Quota.Logins.Enabled = false
	cfg.PacketLimiter.PacketsPerSecond = -1
	cfg.PacketLimiter.BytesPerSecond = -1
	cfg.BungeePluginChannelEnabled = false
	cfg.Servers = map[string]string{}
	cfg.Try = nil
	cfg.Lite.Enabled = true
	return cfg
}

func runCase(run *hx.Run, l *listener, cs caseSpec) {
	for attempt := 0; attempt < 3; attempt++ {
		if runCaseOnce(run, l, cs) {
			return
		}
	}
	run.Case(cs.class, "skip", "skip")
}

func runCaseOnce(run *hx.Run, l *listener, cs caseSpec) bool {
	backendAddr := fmt.Sprintf("127.0.0.1:%d", l.port)
	if cs.hostName {
		backendAddr = fmt.Sprintf("localhost:%d", l.port)
	}
	var backends []string
	for i := 0; i < cs.deadFirst; i++ {
		backends = append(backends, fmt.Sprintf("127.0.0.1:%d", deadPort(i)))
	}
	backends = append(backends, backendAddr)
	route := liteconfig.Route{
		Host:              configutil.SingleOrMulti[string]{cs.routeHost},
		Backend:           configutil.SingleOrMulti[string](backends),
		ProxyProtocol:     cs.proxyProt,
		ModifyVirtualHost: cs.modify,
		Strategy:          liteconfig.StrategySequential,
	}
	if cs.tcpShield {
		if cs.useRealIP {
			route.RealIP = true
		} else {
			route.TCPShieldRealIP = true
		}
	}
	cfg := baseConfig()
	cfg.Lite.Routes = []liteconfig.Route{route}
	p, err := proxy.New(proxy.Options{Config: &cfg, EventMgr: event.New()})
	if err != nil {
		panic(err)
	}

	clientAddr := &net.TCPAddr{IP: cs.clientIP, Port: cs.clientPt}
	c, s := e2e.Pipe(clientAddr, &net.TCPAddr{IP: net.IPv4(10, 0, 0, 2), Port: 25565})
	done := make(chan struct{})
	t0 := time.Now().Unix()
	go func() {
		defer close(done)
		p.HandleConn(s)
	}()

	// backend side: serve whatever connection arrives for this case
	type backRes struct {
		got []byte
	}
	backCh := make(chan backRes, 4)
	var bwg sync.WaitGroup
	serve := func(bc net.Conn) {
		bwg.Add(1)
		go func() {
			defer bwg.Done()
			defer bc.Close()
			_ = bc.SetDeadline(time.Now().Add(caseTimeout))
			go func() {
				for _, t := range cs.s2c {
					if _, err := bc.Write(t.bytes()); err != nil {
						return
					}
				}
			}()
			b, _ := io.ReadAll(bc)
			backCh <- backRes{got: b}
		}()
	}
	stopAccept := make(chan struct{})
	acceptDone := make(chan struct{})
	dialled := 0
	go func() {
		defer close(acceptDone)
		for {
			select {
			case bc, ok := <-l.ch:
				if !ok {
					return
				}
				dialled++
				serve(bc)
			case <-stopAccept:
				return
			}
		}
	}()

	// client side
	want := len(flat(cs.s2c))
	recv := make(chan []byte, 1)
	gotAll := make(chan struct{})
	go func() {
		var got []byte
		signalled := false
		buf := make([]byte, 32*1024)
		_ = c.SetReadDeadline(time.Now().Add(caseTimeout))
		for {
			n, err := c.Read(buf)
			got = append(got, buf[:n]...)
			if !signalled && want > 0 && len(got) >= want {
				signalled = true
				close(gotAll)
			}
			if err != nil {
				break
			}
		}
		recv <- got
	}()
	_, _ = c.Write(flat(cs.first))
	for _, t := range cs.later {
		_, _ = c.Write(t.bytes())
	}
	hang := false
	if !cs.closes && want > 0 {
		// keep the connection open until the backend's bytes arrived (or the proxy gave up); if they do not arrive the
		// case goes on with what was received (after a few such cases the wait is cut short: the run has failed anyway)
		wait := caseTimeout
		if shortReads >= 3 {
			wait = 300 * time.Millisecond
		}
		select {
		case <-gotAll:
		case <-done:
		case <-time.After(wait):
			shortReads++
		}
	}
	c.Close()
	select {
	case <-done:
	case <-time.After(caseTimeout):
		hang = true
	}
	t1 := time.Now().Unix()
	// every connection the proxy made has been accepted once the marker comes through
	close(stopAccept)
	<-acceptDone
	for _, bc := range l.barrier() {
		dialled++
		serve(bc)
	}
	bwg.Wait()
	close(backCh)
	var backGot [][]byte
	for r := range backCh {
		backGot = append(backGot, r.got)
	}
	clientGotBytes := <-recv

	if cs.tcpShield && t0 != t1 {
		return false // the unix second changed during the case: repeat it
	}

	// precondition of the property: a route is chosen for the cleaned host of the handshake (public functions)
	routed := cs.routed
	flags := ""
	for _, b := range []bool{cs.proxyProt, cs.modify, cs.tcpShield} {
		if b {
			flags += "1"
		} else {
			flags += "0"
		}
	}
	cl := 0
	if cs.closes {
		cl = 1
	}
	now := int64(0)
	if cs.tcpShield {
		now = t0
	}
	var all []token
	all = append(all, cs.first...)
	all = append(all, cs.later...)
	op := fmt.Sprintf("fwd %s %s %s %s %s %d %d %d %s %s", flags, addrSpec(cs.clientIP, cs.clientPt),
		addrSpec(net.IPv4(127, 0, 0, 1), l.port), hx.HexS(netutil.HostStr(backendAddr)), hx.HexS(clientAddr.String()),
		now, routed, cl, showTokens(all), showTokens(cs.s2c))
	var out string
	switch {
	case hang:
		out = "hang"
	case len(backGot) == 0:
		out = "nodial"
	case len(backGot) > 1:
		out = fmt.Sprintf("dialled-%d-times", len(backGot))
	default:
		cg := "-"
		if !cs.closes {
			cg = showStream(clientGotBytes)
		}
		out = "dial " + showStream(backGot[0]) + " " + cg
	}
	run.Case(cs.class, op, out)
	return true
}

// ---------- generators ----------

func varint(v int32) []byte {
	u := uint32(v)
	var b []byte
	for u >= 0x80 {
		b = append(b, byte(u)|0x80)
		u >>= 7
	}
	return append(b, byte(u))
}

// padded VarInt: the same value in exactly n bytes (n >= minimal length, n <= 5)
func varintN(v int32, n int) []byte {
	b := varint(v)
	for len(b) < n {
		b[len(b)-1] |= 0x80
		b = append(b, 0)
	}
	return b
}

type hsSpec struct {
	pid      []byte // encoded packet id
	proto    []byte // encoded protocol version
	addr     []byte
	addrLen  []byte // encoded string length (normally varint(len(addr)))
	port     uint16
	next     []byte
	surplus  []byte
	lenBytes int // bytes used for the frame length (0 = minimal)
	empties  int // empty frames before
}

func (h hsSpec) payload() []byte {
	var b []byte
	b = append(b, h.pid...)
	b = append(b, h.proto...)
	b = append(b, h.addrLen...)
	b = append(b, h.addr...)
	b = append(b, byte(h.port>>8), byte(h.port))
	b = append(b, h.next...)
	b = append(b, h.surplus...)
	return b
}

func (h hsSpec) frame() []byte {
	pl := h.payload()
	var b []byte
	for i := 0; i < h.empties; i++ {
		b = append(b, 0)
	}
	if h.lenBytes == 0 {
		b = append(b, varint(int32(len(pl)))...)
	} else {
		b = append(b, varintN(int32(len(pl)), h.lenBytes)...)
	}
	return append(b, pl...)
}

func plainHS(addr string, proto int32, port uint16, next int32) hsSpec {
	return hsSpec{pid: []byte{0}, proto: varint(proto), addr: []byte(addr), addrLen: varint(int32(len(addr))), port: port, next: varint(next)}
}

var addrTable = []string{
	"example.com", "Example.COM.", "play.example.com", "127.0.0.1", "localhost", "LOCALHOST", "LocalHost.",
	"h\x00FML\x00", "h\x00FML2\x00extra", "example.com\x00FML3\x00", "h///1.2.3.4:5///1700000000",
	"h///1.2.3.4:5///17\x00FML\x00", "h\x00a\x00b\x00c", "", ".", "..a..", "a///", "///", "\x00", "\x00FML\x00",
	"m\xc3\xbcnchen.de", "\xff\xfe.bad", "x127.0.0.1y", "ab.ab\x00ab", "aaa", "a.a.a///a.a", "127.0.0.1.", "127.0.0.1///x",
	"localhost\x00FML\x00", "host with spaces", "h\nnewline", "$1.example.com", "[::1]", "::1", "/", "//", "////", "a/", "a////b",
	"\xe2\x82\xac.eu", "\xf0\x9f\x98\x80", "\xe2\x82", ".\x00.", "...",
}

func unq(s string) string {
	// the table above is written with Go escapes inside a raw Python-free literal: interpret \x00 style escapes
	var b []byte
	for i := 0; i < len(s); i++ {
		if s[i] == '\\' && i+3 < len(s) && s[i+1] == 'x' {
			v, err := hex.DecodeString(s[i+2 : i+4])
			if err == nil {
				b = append(b, v[0])
				i += 3
				continue
			}
		}
		if s[i] == '\\' && i+1 < len(s) && s[i+1] == 'n' {
			b = append(b, '\n')
			i++
			continue
		}
		b = append(b, s[i])
	}
	return string(b)
}

func safeRandomAddr(r *hx.Rng) string {
	n := r.Intn(40)
	b := make([]byte, 0, n)
	for len(b) < n {
		c := byte(r.U64())
		switch r.Intn(6) {
		case 0:
			c = '.'
		case 1:
			c = '/'
		case 2:
			c = 0
		case 3:
			c = "abcXYZ019-"[r.Intn(10)]
		}
		// keep clear of U+017F (c5 bf) and U+212A (e2 84 aa): strings.EqualFold folds them to s / k
		if c == 0xc5 || c == 0xe2 {
			c = 'q'
		}
		b = append(b, c)
	}
	return string(b)
}

func clientAddrs() []net.IP {
	return []net.IP{
		net.IPv4(203, 0, 113, 7), net.IP{198, 51, 100, 23}, net.IPv4(127, 0, 0, 1), net.IPv4(255, 255, 255, 255), net.IP{0, 0, 0, 1},
		net.ParseIP("2001:db8::1"), net.ParseIP("::1"), net.ParseIP("fe80::dead:beef"), net.ParseIP("::ffff:192.0.2.9"),
	}
}

func routedFor(routeHost, addr string) int {
	_, rt, _ := lite.FindRouteWithGroups(lite.ClearVirtualHost(addr), liteconfig.Route{Host: configutil.SingleOrMulti[string]{routeHost}})
	if rt != nil {
		return 1
	}
	return 0
}

func splitTokens(r *hx.Rng, b []byte) []token {
	var ts []token
	for len(b) > 0 {
		n := 1 + r.Intn(len(b))
		if r.Chance(1, 2) && n > 8 {
			n = 1 + r.Intn(8)
		}
		ts = append(ts, lit(b[:n]))
		b = b[n:]
	}
	return ts
}

// ---------- connection storm: many rewritten handshakes at the same time ----------
//
// Every connection of the storm goes through ONE proxy and a route with modifyVirtualHost, so each dial re-encodes its
// handshake; all connections differ in protocol, port, address length and carry their own tag as trailing bytes.  Each
// connection is then judged on its own as an ordinary `fwd` case: on correct code what a backend connection receives
// depends only on its own client, however the connections interleave.

func storm(run *hx.Run, l *listener, n, par int) {
	route := liteconfig.Route{
		Host:              configutil.SingleOrMulti[string]{"*"},
		Backend:           configutil.SingleOrMulti[string]{fmt.Sprintf("127.0.0.1:%d", l.port)},
		ModifyVirtualHost: true,
		Strategy:          liteconfig.StrategySequential,
	}
	cfg := baseConfig()
	cfg.Lite.Routes = []liteconfig.Route{route}
	p, err := proxy.New(proxy.Options{Config: &cfg, EventMgr: event.New()})
	if err != nil {
		panic(err)
	}
	// backend side: collect what every accepted connection receives, keyed by the trailing tag
	var mu sync.Mutex
	got := map[string][]byte{}
	var bwg sync.WaitGroup
	stop := make(chan struct{})
	accDone := make(chan struct{})
	serve := func(bc net.Conn) {
		bwg.Add(1)
		go func() {
			defer bwg.Done()
			defer bc.Close()
			_ = bc.SetDeadline(time.Now().Add(caseTimeout))
			b, _ := io.ReadAll(bc)
			if len(b) >= 8 {
				mu.Lock()
				got[string(b[len(b)-8:])] = b
				mu.Unlock()
			}
		}()
	}
	go func() {
		defer close(accDone)
		for {
			select {
			case bc, ok := <-l.ch:
				if !ok {
					return
				}
				serve(bc)
			case <-stop:
				return
			}
		}
	}()
	type conn struct {
		tag   []byte
		frame []byte
		ip    net.IP
		port  int
	}
	conns := make([]conn, n)
	protos := []int32{765, 47, 770, 4, 2147483647}
	for i := range conns {
		addr := fmt.Sprintf("s%d.example.com\x00%s", i, strings.Repeat("p", i%23))
		h := plainHS(addr, protos[i%len(protos)], uint16(i*7+1), 2)
		tag := []byte(fmt.Sprintf("T%07d", i))
		conns[i] = conn{tag: tag, frame: h.frame(), ip: net.IPv4(203, 0, byte(i>>8), byte(i)), port: 1024 + i%60000}
	}
	var wg sync.WaitGroup
	sem := make(chan struct{}, par)
	for i := range conns {
		wg.Add(1)
		sem <- struct{}{}
		go func(c conn) {
			defer wg.Done()
			defer func() { <-sem }()
			cl, sv := e2e.Pipe(&net.TCPAddr{IP: c.ip, Port: c.port}, &net.TCPAddr{IP: net.IPv4(10, 0, 0, 2), Port: 25565})
			done := make(chan struct{})
			go func() { defer close(done); p.HandleConn(sv) }()
			_, _ = cl.Write(append(append([]byte{}, c.frame...), c.tag...))
			cl.Close()
			select {
			case <-done:
			case <-time.After(caseTimeout):
			}
		}(conns[i])
	}
	wg.Wait()
	close(stop)
	<-accDone
	for _, bc := range l.barrier() {
		serve(bc)
	}
	bwg.Wait()
	for _, c := range conns {
		op := fmt.Sprintf("fwd 010 %s %s %s %s 0 1 1 %s -", addrSpec(c.ip, c.port), addrSpec(net.IPv4(127, 0, 0, 1), l.port),
			hx.HexS("127.0.0.1"), hx.HexS((&net.TCPAddr{IP: c.ip, Port: c.port}).String()),
			showTokens([]token{lit(append(append([]byte{}, c.frame...), c.tag...))}))
		out := "nodial"
		if b, ok := got[string(c.tag)]; ok {
			out = "dial " + showStream(b) + " -"
		}
		run.Case("storm", op, out)
	}
}

func main() {
	run := hx.Start()
	r := run.Rng
	l := newListener()
	ips := clientAddrs()

	mk := func(class string, h hsSpec, addr string, opts [3]bool, sameSeg []byte, later []token, s2c []token) caseSpec {
		return caseSpec{class: class, proxyProt: opts[0], modify: opts[1], tcpShield: opts[2], clientIP: ips[0], clientPt: 50000,
			routeHost: "*", first: []token{lit(append(h.frame(), sameSeg...))}, later: later, s2c: s2c, routed: routedFor("*", addr)}
	}
	allOpts := [][3]bool{{false, false, false}, {true, false, false}, {false, true, false}, {false, false, true}, {true, true, true}, {false, true, true}, {true, false, true}, {true, true, false}}

	// ---- fixed regression cases first ----
	for _, o := range allOpts {
		for _, a := range []string{"example.com", "127.0.0.1", "h\x00FML\x00", "h///1.2.3.4:5///1700000000", "", "ab.ab\x00ab"} {
			a = unq(a)
			h := plainHS(a, 765, 25565, 2)
			runCase(run, l, mk("fixed", h, a, o, []byte{1, 2, 3}, []token{lit([]byte("later"))}, []token{lit([]byte("from-backend"))}))
		}
	}
	{ // non-minimal prefix, empty frames, surplus, padded fields
		h := plainHS("example.com", 765, 25565, 2)
		h.lenBytes, h.empties, h.surplus = 3, 2, []byte{9, 9}
		h.proto = varintN(765, 5)
		h.pid = varintN(0, 2)
		runCase(run, l, mk("fixed-nonminimal", h, "example.com", allOpts[0], nil, []token{lit([]byte{7})}, []token{lit([]byte{8})}))
		runCase(run, l, mk("fixed-nonminimal", h, "example.com", allOpts[2], nil, []token{lit([]byte{7})}, []token{lit([]byte{8})}))
		h.empties = 11
		runCase(run, l, mk("fixed-empties", h, "example.com", allOpts[0], nil, nil, nil))
		h.empties = 12
		cs := mk("fixed-empties", h, "example.com", allOpts[0], nil, nil, nil)
		runCase(run, l, cs)
	}
	{ // bulk both ways
		h := plainHS("example.com", 47, 25565, 2)
		runCase(run, l, mk("bulk", h, "example.com", allOpts[1], genBytes(5, 3000), []token{gen(1, run.Scale(60000, 700000)), gen(2, 5000)},
			[]token{gen(3, run.Scale(50000, 900000)), gen(4, 1)}))
	}

	// ---- generated ----
	n := run.Scale(700, 3000)
	for i := 0; i < n; i++ {
		var a string
		switch r.Intn(4) {
		case 0:
			a = safeRandomAddr(r)
		default:
			a = unq(hx.Pick(r, addrTable))
		}
		if r.Chance(1, 40) {
			a = strings.Repeat(hx.Pick(r, []string{"a", "ab.", "x///"}), 50+r.Intn(300))
		}
		h := plainHS(a, hx.Pick(r, []int32{765, 47, 4, 0, -1, 2147483647, 770}), uint16(r.U64()), 2)
		class := "login"
		closes := false
		switch x := r.Intn(40); {
		case x < 3:
			h.next = varint(3)
			class = "transfer"
		case x < 5:
			h.next = varint(1)
			class = "status"
			closes = true
		case x < 7:
			h.next = varint(hx.Pick(r, []int32{0, 4, -1, 127, 255}))
			class = "bad-next"
		case x < 9:
			h.pid = varint(hx.Pick(r, []int32{1, 2, 0x7f, -1, 300}))
			class = "bad-id"
		case x < 11:
			h.addrLen = varint(int32(len(h.addr)) + hx.Pick(r, []int32{1, 5, -1 - int32(len(h.addr)), 200000}))
			class = "bad-strlen"
			closes = true
		}
		if r.Chance(1, 4) {
			h.lenBytes = 2 + r.Intn(4)
		}
		if r.Chance(1, 6) {
			h.empties = r.Intn(14)
		}
		if r.Chance(1, 5) {
			h.surplus = r.Bytes(1 + r.Intn(6))
		}
		if r.Chance(1, 6) {
			h.proto = varintN(765, 3+r.Intn(3))
		}
		if r.Chance(1, 8) {
			h.pid = varintN(0, 2+r.Intn(4))
		}
		o := hx.Pick(r, allOpts)
		cs := mk(class, h, a, o, nil, nil, nil)
		cs.closes = closes
		cs.clientIP = hx.Pick(r, ips)
		cs.clientPt = 1 + r.Intn(65535)
		cs.hostName = r.Chance(1, 3)
		cs.useRealIP = r.Bool()
		if r.Chance(1, 8) {
			cs.deadFirst = 1 + r.Intn(2)
		}
		if r.Chance(1, 6) {
			cs.routeHost = hx.Pick(r, []string{"example.com", "*.example.com", "localhost", "h", "?", "127.0.0.1"})
			cs.routed = routedFor(cs.routeHost, a)
		}
		// bytes behind the handshake: some in the same write (read buffer path), some later (pipe path)
		if !closes || r.Bool() {
			if r.Chance(2, 3) {
				same := r.Bytes(r.Intn(60))
				if r.Chance(1, 10) {
					same = genBytes(i, 3000+r.Intn(6000)) // exceeds the 4096-byte read buffer
				}
				cs.first = []token{lit(append(h.frame(), same...))}
			}
			if r.Chance(2, 3) {
				cs.later = splitTokens(r, r.Bytes(r.Intn(120)))
				if r.Chance(1, 12) {
					cs.later = append(cs.later, gen(i, 10000+r.Intn(40000)))
				}
			}
		}
		if class == "status" {
			cs.first = []token{lit(h.frame())}
			cs.later = nil
		}
		if !closes && r.Chance(3, 4) {
			cs.s2c = splitTokens(r, r.Bytes(1+r.Intn(100)))
			if r.Chance(1, 12) {
				cs.s2c = append(cs.s2c, gen(i+7, 10000+r.Intn(40000)))
			}
		}
		runCase(run, l, cs)
	}

	// ---- hostile / truncated streams: the client closes after writing ----
	m := run.Scale(150, 800)
	for i := 0; i < m; i++ {
		a := unq(hx.Pick(r, addrTable))
		h := plainHS(a, 765, 25565, 2)
		full := append(h.frame(), r.Bytes(r.Intn(10))...)
		var b []byte
		switch r.Intn(4) {
		case 0:
			b = full[:r.Intn(len(full)+1)] // truncated
		case 1:
			b = r.Bytes(r.Intn(30)) // garbage
		case 2:
			b = append([]byte{}, full...)
			if len(b) > 0 {
				b[r.Intn(len(b))] ^= byte(1 << uint(r.Intn(8)))
			}
		default:
			b = append(varintN(int32(hx.Pick(r, []int{0, 2097151, 2097152, -1, 70000})), 1+r.Intn(5)), full...)
		}
		cs := caseSpec{class: "hostile", proxyProt: r.Bool(), modify: r.Bool(), tcpShield: r.Bool(), clientIP: hx.Pick(r, ips), clientPt: 1 + r.Intn(65535),
			routeHost: "*", first: []token{lit(b)}, closes: true, routed: 1}
		if len(b) == 0 {
			cs.first = nil
		}
		runCase(run, l, cs)
	}
	storm(run, l, run.Scale(12000, 40000), 32)
	l.ln.Close()
	run.Finish()
}
