// Package e2e is an in-process end-to-end rig: fake client ⇄ real proxy.Proxy (HandleConn) ⇄ fake
// backends (ServerDialer), all over in-memory buffered pipes.  Only gate's PUBLIC API is used.
// The fake endpoints speak the protocol with gate's own codec (codec.Encoder/Decoder): what is under test
// in the properties using this rig is the proxy's session logic, not the packet encoding.
package e2e

import (
	"bufio"
	"context"
	"errors"
	"fmt"
	"io"
	"net"
	"sync"
	"time"

	"github.com/go-logr/logr"
	"github.com/robinbraemer/event"
	"go.minekube.com/gate/pkg/edition/java/config"
	"go.minekube.com/gate/pkg/edition/java/proto/codec"
	"go.minekube.com/gate/pkg/edition/java/proto/packet"
	cfgpacket "go.minekube.com/gate/pkg/edition/java/proto/packet/config"
	"go.minekube.com/gate/pkg/edition/java/proto/state"
	"go.minekube.com/gate/pkg/edition/java/proto/version"
	"go.minekube.com/gate/pkg/edition/java/proxy"
	"go.minekube.com/gate/pkg/gate/proto"
	"go.minekube.com/gate/pkg/util/uuid"
)

// ---------- buffered in-memory duplex pipe ----------

type half struct {
	mu     sync.Mutex
	cond   *sync.Cond
	buf    []byte
	closed bool
}

func newHalf() *half { h := &half{}; h.cond = sync.NewCond(&h.mu); return h }

type PipeConn struct {
	r, w   *half
	local  net.Addr
	remote net.Addr
	mu     sync.Mutex
	rdl    time.Time
}

// Pipe returns two connected ends with unbounded buffers (writes never block).
func Pipe(aAddr, bAddr net.Addr) (*PipeConn, *PipeConn) {
	x, y := newHalf(), newHalf()
	return &PipeConn{r: x, w: y, local: aAddr, remote: bAddr}, &PipeConn{r: y, w: x, local: bAddr, remote: aAddr}
}

func (p *PipeConn) Read(b []byte) (int, error) {
	h := p.r
	h.mu.Lock()
	defer h.mu.Unlock()
	for len(h.buf) == 0 {
		if h.closed {
			return 0, io.EOF
		}
		p.mu.Lock()
		dl := p.rdl
		p.mu.Unlock()
		if !dl.IsZero() && time.Now().After(dl) {
			return 0, timeoutErr{}
		}
		// wake up periodically to honour deadlines
		t := time.AfterFunc(50*time.Millisecond, func() { h.mu.Lock(); h.cond.Broadcast(); h.mu.Unlock() })
		h.cond.Wait()
		t.Stop()
	}
	n := copy(b, h.buf)
	h.buf = h.buf[n:]
	return n, nil
}

type timeoutErr struct{}

func (timeoutErr) Error() string   { return "i/o timeout" }
func (timeoutErr) Timeout() bool   { return true }
func (timeoutErr) Temporary() bool { return false }

func (p *PipeConn) Write(b []byte) (int, error) {
	h := p.w
	h.mu.Lock()
	defer h.mu.Unlock()
	if h.closed {
		return 0, io.ErrClosedPipe
	}
	h.buf = append(h.buf, b...)
	h.cond.Broadcast()
	return len(b), nil
}
func (p *PipeConn) Close() error {
	for _, h := range []*half{p.r, p.w} {
		h.mu.Lock()
		h.closed = true
		h.cond.Broadcast()
		h.mu.Unlock()
	}
	return nil
}
func (p *PipeConn) Closed() bool                       { p.r.mu.Lock(); defer p.r.mu.Unlock(); return p.r.closed }
func (p *PipeConn) LocalAddr() net.Addr                { return p.local }
func (p *PipeConn) RemoteAddr() net.Addr               { return p.remote }
func (p *PipeConn) SetDeadline(t time.Time) error      { return p.SetReadDeadline(t) }
func (p *PipeConn) SetReadDeadline(t time.Time) error  { p.mu.Lock(); p.rdl = t; p.mu.Unlock(); return nil }
func (p *PipeConn) SetWriteDeadline(t time.Time) error { return nil }

// ---------- protocol endpoint (fake client or fake backend side) ----------

type Endpoint struct {
	Conn *PipeConn
	enc  *codec.Encoder
	dec  *codec.Decoder
	bw   *bufio.Writer
	wmu  sync.Mutex
}

// NewEndpoint: readDir is the direction of the packets this endpoint RECEIVES.
func NewEndpoint(c *PipeConn, readDir proto.Direction) *Endpoint {
	writeDir := proto.ServerBound
	if readDir == proto.ServerBound {
		writeDir = proto.ClientBound
	}
	bw := bufio.NewWriter(c)
	e := &Endpoint{Conn: c, bw: bw, enc: codec.NewEncoder(bw, writeDir, logr.Discard()),
		dec: codec.NewDecoder(bufio.NewReader(c), readDir, logr.Discard())}
	return e
}

// Start is kept for readability of scripts; decoding is synchronous (see Next), because compression and
// state changes must take effect between two packets exactly as in the real read loop.
func (e *Endpoint) Start() {}

func (e *Endpoint) SetProtocol(p proto.Protocol) { e.enc.SetProtocol(p); e.dec.SetProtocol(p) }
func (e *Endpoint) SetState(s *state.Registry)   { e.enc.SetState(s); e.dec.SetState(s) }
func (e *Endpoint) SetReadState(s *state.Registry)  { e.dec.SetState(s) }
func (e *Endpoint) SetWriteState(s *state.Registry) { e.enc.SetState(s) }
func (e *Endpoint) SetCompression(thr int) {
	e.enc.SetCompression(thr, -1)
	e.dec.SetCompressionThreshold(thr)
}
func (e *Endpoint) SetWriteCompression(thr int) { e.enc.SetCompression(thr, -1) }
func (e *Endpoint) SetReadCompression(thr int)  { e.dec.SetCompressionThreshold(thr) }

func (e *Endpoint) Send(p proto.Packet) error {
	e.wmu.Lock()
	defer e.wmu.Unlock()
	if _, err := e.enc.WritePacket(p); err != nil {
		return err
	}
	return e.bw.Flush()
}
func (e *Endpoint) SendRaw(payload []byte) error {
	e.wmu.Lock()
	defer e.wmu.Unlock()
	if _, err := e.enc.Write(payload); err != nil {
		return err
	}
	return e.bw.Flush()
}

// Next decodes packets until one satisfies pred (others are skipped); error on timeout / close.
func (e *Endpoint) Next(timeout time.Duration, pred func(*proto.PacketContext) bool) (*proto.PacketContext, error) {
	deadline := time.Now().Add(timeout)
	for {
		e.Conn.SetReadDeadline(deadline)
		ctx, err := e.dec.Decode()
		if err != nil && !errors.Is(err, proto.ErrDecoderLeftBytes) {
			return nil, err
		}
		if pred == nil || pred(ctx) {
			return ctx, nil
		}
	}
}

// Pump decodes until the connection ends, sending every packet to fn.
func (e *Endpoint) Pump(fn func(*proto.PacketContext)) error {
	for {
		e.Conn.SetReadDeadline(time.Time{})
		ctx, err := e.dec.Decode()
		if err != nil && !errors.Is(err, proto.ErrDecoderLeftBytes) {
			return err
		}
		fn(ctx)
	}
}

func IsType[T proto.Packet](c *proto.PacketContext) bool { _, ok := c.Packet.(T); return ok }

// ---------- fake backend ----------

type Backend struct {
	Name string
	// Accept is called for every connection the proxy dials to this backend.
	Accept func(ep *Endpoint)
	// ThrOut is the compression threshold the backend enables (-1: none).
	mu    sync.Mutex
	Conns []*Endpoint
}

type dialerInfo struct {
	name string
	b    *Backend
}

func (d *dialerInfo) Name() string   { return d.name }
func (d *dialerInfo) Addr() net.Addr { return &net.TCPAddr{IP: net.IPv4(10, 0, 0, 1), Port: 25565} }
func (d *dialerInfo) Dial(ctx context.Context, player proxy.Player) (net.Conn, error) {
	if d.b.Accept == nil {
		return nil, errors.New("connection refused")
	}
	a, b := Pipe(&net.TCPAddr{IP: net.IPv4(10, 0, 0, 9), Port: 40000}, d.Addr())
	ep := NewEndpoint(b, proto.ServerBound)
	d.b.mu.Lock()
	d.b.Conns = append(d.b.Conns, ep)
	d.b.mu.Unlock()
	go d.b.Accept(ep)
	return a, nil
}

// ---------- rig ----------

type Rig struct {
	Proxy    *proxy.Proxy
	Backends map[string]*Backend
}

// NewRig builds an offline-mode proxy with the given backends registered and `try` = names in order.
func NewRig(mut func(c *config.Config), backends ...*Backend) (*Rig, error) {
	cfg := config.DefaultConfig
	cfg.OnlineMode = false
	cfg.Forwarding.Mode = config.NoneForwardingMode
	cfg.Quota.Connections.Enabled = false
	cfg.Quota.Logins.Enabled = false
	cfg.PacketLimiter.PacketsPerSecond = -1
	cfg.PacketLimiter.BytesPerSecond = -1
	cfg.BungeePluginChannelEnabled = false
	cfg.Servers = map[string]string{}
	cfg.Try = nil
	for _, b := range backends {
		cfg.Try = append(cfg.Try, b.Name)
	}
	if mut != nil {
		mut(&cfg)
	}
	// a real event manager: event.Nop drops the continuation callbacks the login flow relies on
	p, err := proxy.New(proxy.Options{Config: &cfg, EventMgr: event.New()})
	if err != nil {
		return nil, err
	}
	r := &Rig{Proxy: p, Backends: map[string]*Backend{}}
	for _, b := range backends {
		if _, err := p.Register(&dialerInfo{name: b.Name, b: b}); err != nil {
			return nil, err
		}
		r.Backends[b.Name] = b
	}
	return r, nil
}

// Connect opens a client connection to the proxy and returns the client-side endpoint (not started).
func (r *Rig) Connect(clientIP net.IP) *Endpoint {
	c, s := Pipe(&net.TCPAddr{IP: clientIP, Port: 50000}, &net.TCPAddr{IP: net.IPv4(10, 0, 0, 2), Port: 25565})
	go r.Proxy.HandleConn(s)
	return NewEndpoint(c, proto.ClientBound)
}

// JoinGameFor builds a JoinGame acceptable for the protocol (legacy and 1.20.2+ layouts only).
func JoinGameFor(p proto.Protocol, entityID int) *packet.JoinGame {
	lt := "default"
	j := &packet.JoinGame{EntityID: entityID, Gamemode: 1, Dimension: 0, Difficulty: 1, MaxPlayers: 20, LevelType: &lt,
		ViewDistance: 8, SimulationDistance: 8, PreviousGamemode: -1}
	if p.GreaterEqual(version.Minecraft_1_20_2) {
		ln := "minecraft:overworld"
		j.LevelNames = []string{"minecraft:overworld"}
		j.DimensionInfo = &packet.DimensionInfo{RegistryIdentifier: "minecraft:overworld", LevelName: &ln}
		j.LevelType = nil
	}
	return j
}

// BackendScript returns an Accept func that performs the backend side of a login for protocol p
// (pre-1.16 or 1.20.2+), enabling compression threshold thr (-1 = none), then hands the endpoint to play.
func BackendScript(p proto.Protocol, thr int, play func(ep *Endpoint)) func(ep *Endpoint) {
	return func(ep *Endpoint) {
		ep.Start()
		hs, err := ep.Next(5*time.Second, IsType[*packet.Handshake])
		if err != nil {
			return
		}
		_ = hs
		ep.SetProtocol(p)
		ep.SetState(state.Login)
		if _, err := ep.Next(5*time.Second, IsType[*packet.ServerLogin]); err != nil {
			return
		}
		if thr >= 0 {
			ep.Send(&packet.SetCompression{Threshold: thr})
			ep.SetCompression(thr)
		}
		ep.Send(&packet.ServerLoginSuccess{UUID: uuid.OfflinePlayerUUID("backend"), Username: "Player"})
		if p.GreaterEqual(version.Minecraft_1_20_2) {
			if _, err := ep.Next(5*time.Second, IsType[*packet.LoginAcknowledged]); err != nil {
				return
			}
			ep.SetState(state.Config)
			ep.Send(&cfgpacket.FinishedUpdate{})
			if _, err := ep.Next(5*time.Second, IsType[*cfgpacket.FinishedUpdate]); err != nil {
				return
			}
		}
		ep.SetState(state.Play)
		ep.Send(JoinGameFor(p, 1))
		if play != nil {
			play(ep)
		}
	}
}

// ClientLogin performs the client side of an offline login and waits until JoinGame arrives.
func ClientLogin(ep *Endpoint, p proto.Protocol, host, name string) error {
	ep.Start()
	ep.Send(&packet.Handshake{ProtocolVersion: int(p), ServerAddress: host, Port: 25565, NextStatus: 2})
	ep.SetProtocol(p)
	ep.SetState(state.Login)
	ep.Send(&packet.ServerLogin{Username: name, HolderID: uuid.OfflinePlayerUUID(name)})
	for {
		c, err := ep.Next(5*time.Second, nil)
		if err != nil {
			return fmt.Errorf("login: %w", err)
		}
		switch pk := c.Packet.(type) {
		case *packet.SetCompression:
			ep.SetCompression(pk.Threshold)
		case *packet.Disconnect:
			return fmt.Errorf("disconnected during login")
		case *packet.ServerLoginSuccess:
			if p.GreaterEqual(version.Minecraft_1_20_2) {
				ep.Send(&packet.LoginAcknowledged{})
				ep.SetState(state.Config)
				for {
					c, err := ep.Next(5*time.Second, nil)
					if err != nil {
						return fmt.Errorf("config: %w", err)
					}
					if _, ok := c.Packet.(*cfgpacket.FinishedUpdate); ok {
						ep.Send(&cfgpacket.FinishedUpdate{})
						break
					}
					if _, ok := c.Packet.(*packet.Disconnect); ok {
						return fmt.Errorf("disconnected during config")
					}
				}
			}
			ep.SetState(state.Play)
			if _, err := ep.Next(5*time.Second, IsType[*packet.JoinGame]); err != nil {
				return fmt.Errorf("waiting for JoinGame: %w", err)
			}
			return nil
		}
	}
}
