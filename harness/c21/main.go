// C21 correspondence harness: drives the REAL chatHandler + chatQueue of a connectedPlayer (through the verif hook
// export_verif_c21.go) over a recording backend connection, with scripted PlayerChatEvent / CommandExecuteEvent
// outcomes, real proxy commands (run / fail / fwd) and a backend whose WritePacket can be blocked so that further
// client packets pile up behind an unfinished write.
//
// Case lines (see lean/GateModel/C21/Driver.lean):
//
//	reset <forceKey> <p1205> <l|c> <protocol>
//	chat <offset> <signed> <allow|deny|modify>
//	cmd  <offset> <signedArgs> <consume|err|fwdSame|fwdNew> <how>
//	ucmd <consume|err|fwdSame|fwdNew> <how>
//	ack  <offset>
//	end
package main

import (
	"context"
	"errors"
	"fmt"
	"net"
	"strconv"
	"strings"
	"sync"
	"time"

	"github.com/robinbraemer/event"
	"go.minekube.com/brigodier"

	"go.minekube.com/gate/pkg/command"
	"go.minekube.com/gate/pkg/edition/java/netmc"
	"go.minekube.com/gate/pkg/edition/java/proto/packet/chat"
	"go.minekube.com/gate/pkg/edition/java/proto/state"
	"go.minekube.com/gate/pkg/edition/java/proto/version"
	"go.minekube.com/gate/pkg/edition/java/proxy"
	"go.minekube.com/gate/pkg/edition/java/proxy/phase"
	"go.minekube.com/gate/pkg/gate/proto"

	"verifharness/hx"
)

// ---------- fake connection ----------

type fakeConn struct {
	protocol proto.Protocol
	mu       sync.Mutex
	packets  []proto.Packet
	closes   int
	permits  chan struct{} // non-nil: WritePacket waits for a permit first
}

func (c *fakeConn) Context() context.Context   { return context.Background() }
func (c *fakeConn) Close() error               { c.mu.Lock(); c.closes++; c.mu.Unlock(); return nil }
func (c *fakeConn) State() *state.Registry     { return state.Play }
func (c *fakeConn) Protocol() proto.Protocol   { return c.protocol }
func (c *fakeConn) RemoteAddr() net.Addr       { return &net.TCPAddr{} }
func (c *fakeConn) LocalAddr() net.Addr        { return &net.TCPAddr{} }
func (c *fakeConn) Type() phase.ConnectionType { return phase.Vanilla }
func (c *fakeConn) SetType(phase.ConnectionType) {}
func (c *fakeConn) ActiveSessionHandler() netmc.SessionHandler { return nil }
func (c *fakeConn) SetActiveSessionHandler(*state.Registry, netmc.SessionHandler) {}
func (c *fakeConn) SwitchSessionHandler(*state.Registry) bool             { return true }
func (c *fakeConn) AddSessionHandler(*state.Registry, netmc.SessionHandler) {}
func (c *fakeConn) SetAutoReading(bool)                                   {}
func (c *fakeConn) SetOutboundState(*state.Registry)                      {}
func (c *fakeConn) SetProtocol(proto.Protocol)                            {}
func (c *fakeConn) SetState(*state.Registry)                              {}
func (c *fakeConn) SetCompressionThreshold(int) error                     { return nil }
func (c *fakeConn) EnableEncryption([]byte) error                         { return nil }
func (c *fakeConn) WritePacket(p proto.Packet) error {
	if c.permits != nil {
		<-c.permits
	}
	c.mu.Lock()
	c.packets = append(c.packets, p)
	c.mu.Unlock()
	return nil
}
func (c *fakeConn) Write([]byte) error               { return nil }
func (c *fakeConn) BufferPacket(p proto.Packet) error { return c.WritePacket(p) }
func (c *fakeConn) BufferPayload([]byte) error       { return nil }
func (c *fakeConn) Flush() error                     { return nil }
func (c *fakeConn) Reader() netmc.Reader             { return nil }
func (c *fakeConn) Writer() netmc.Writer             { return nil }
func (c *fakeConn) EnablePlayPacketQueue()           {}

var _ netmc.MinecraftConn = (*fakeConn)(nil)

func (c *fakeConn) snapshot() ([]proto.Packet, int) {
	c.mu.Lock()
	defer c.mu.Unlock()
	return append([]proto.Packet(nil), c.packets...), c.closes
}

// ---------- ops ----------

type op struct {
	kind   string // chat cmd ucmd ack
	off    int
	signed bool
	dec    string
	how    string
}

func bit(b bool) string {
	if b {
		return "1"
	}
	return "0"
}

func (o op) line() string {
	switch o.kind {
	case "chat":
		return fmt.Sprintf("chat %d %s %s", o.off, bit(o.signed), o.dec)
	case "cmd":
		return fmt.Sprintf("cmd %d %s %s %s", o.off, bit(o.signed), o.dec, o.how)
	case "ucmd":
		return fmt.Sprintf("ucmd %s %s", o.dec, o.how)
	default:
		return fmt.Sprintf("ack %d", o.off)
	}
}

// ---------- fixture ----------

type fixture struct {
	fx      *proxy.C21Fixture
	client  *fakeConn
	backend *fakeConn
	mu      sync.Mutex
	plan    map[int]op // decisions by client index, consulted by the event subscribers
	permits chan struct{}
}

func idxOf(text string) int {
	// "m17" / "M17" / "x 17" / "X 17" / "run 17" …
	t := text
	if i := strings.IndexByte(t, ' '); i >= 0 {
		t = t[i+1:]
	} else if len(t) > 0 {
		t = t[1:]
	}
	n, err := strconv.Atoi(t)
	if err != nil {
		return -1
	}
	return n
}

func newFixture(forceKey bool, protocol proto.Protocol, gated bool) *fixture {
	f := &fixture{plan: map[int]op{}}
	if gated {
		f.permits = make(chan struct{}, 1<<16)
	}
	f.client = &fakeConn{protocol: protocol}
	f.backend = &fakeConn{protocol: protocol, permits: f.permits}

	mgr := event.New()
	event.Subscribe(mgr, 0, func(e *proxy.PlayerChatEvent) {
		f.mu.Lock()
		o, ok := f.plan[idxOf(e.Original())]
		f.mu.Unlock()
		if !ok {
			return
		}
		switch o.dec {
		case "deny":
			e.SetAllowed(false)
		case "modify":
			e.SetMessage("M" + e.Original()[1:])
		}
	})
	event.Subscribe(mgr, 0, func(e *proxy.CommandExecuteEvent) {
		f.mu.Lock()
		o, ok := f.plan[idxOf(e.Command())]
		f.mu.Unlock()
		if !ok {
			return
		}
		switch {
		case o.dec == "consume" && o.how == "deny":
			e.SetAllowed(false)
		case o.dec == "fwdSame" && o.how == "event":
			e.SetForward(true)
		case o.dec == "fwdNew" && o.how == "event":
			e.SetCommand("X " + strconv.Itoa(idxOf(e.Command())))
			e.SetForward(true)
		case o.dec == "fwdNew" && o.how == "unknown":
			e.SetCommand("X " + strconv.Itoa(idxOf(e.Command())))
		}
	})

	var cmds command.Manager
	wait := func() {
		if f.permits != nil {
			<-f.permits // asynchronous command handling: completes when the schedule says so
		}
	}
	reg := func(name string, fn func() error) {
		cmds.Register(brigodier.Literal(name).Then(brigodier.Argument("n", brigodier.Int).
			Executes(command.Command(func(*command.Context) error { wait(); return fn() }))))
	}
	reg("run", func() error { return nil })
	reg("fail", func() error { return errors.New("scripted failure") })
	reg("fwd", func() error { return command.ErrForward })

	f.fx = proxy.C21NewFixture(f.client, f.backend, mgr, &cmds, forceKey)
	return f
}

// text the client types for op i
func cmdText(o op, i int) string {
	n := strconv.Itoa(i)
	switch {
	case o.dec == "consume" && o.how == "run":
		return "run " + n
	case o.dec == "err":
		return "fail " + n
	case o.dec == "fwdSame" && o.how == "errforward":
		return "fwd " + n
	}
	return "x " + n // not a proxy command
}

func (f *fixture) send(i int, o op) {
	f.mu.Lock()
	f.plan[i] = o
	f.mu.Unlock()
	ts := time.Unix(1700000000+int64(i), 0)
	switch o.kind {
	case "chat":
		p := &chat.SessionPlayerChat{Message: "m" + strconv.Itoa(i), Timestamp: ts, Signed: o.signed,
			LastSeenMessages: chat.LastSeenMessages{Offset: o.off}}
		if o.signed {
			p.Signature = make([]byte, 256)
		}
		_ = f.fx.C21HandleChat(p)
	case "cmd":
		p := &chat.SessionPlayerCommand{Command: cmdText(o, i), Timestamp: ts,
			LastSeenMessages: chat.LastSeenMessages{Offset: o.off}}
		if o.signed {
			p.ArgumentSignatures.Entries = []chat.ArgumentSignature{{Name: "a", Signature: make([]byte, 256)}}
		}
		_ = f.fx.C21HandleCommand(p)
	case "ucmd":
		_ = f.fx.C21HandleCommand(&chat.UnsignedPlayerCommand{SessionPlayerCommand: chat.SessionPlayerCommand{Command: cmdText(o, i)}})
	case "ack":
		f.fx.C21HandleAck(o.off)
	}
}

func (f *fixture) idle() bool {
	done := make(chan struct{})
	f.fx.C21OnIdle(func() { close(done) })
	select {
	case <-done:
		return true
	case <-time.After(20 * time.Second):
		return false
	}
}

func textInfo(text string) (mod string, src int) {
	mod = "0"
	if len(text) > 0 && text[0] >= 'A' && text[0] <= 'Z' {
		mod = "1"
	}
	return mod, idxOf(text)
}

func render(ps []proto.Packet) string {
	if len(ps) == 0 {
		return "-"
	}
	out := make([]string, 0, len(ps))
	for _, p := range ps {
		switch t := p.(type) {
		case *chat.SessionPlayerChat:
			m, s := textInfo(t.Message)
			out = append(out, fmt.Sprintf("chat:%d:%s:%d", t.LastSeenMessages.Offset, m, s))
		case *chat.SessionPlayerCommand:
			m, s := textInfo(t.Command)
			out = append(out, fmt.Sprintf("cmd:%d:%s:%d", t.LastSeenMessages.Offset, m, s))
		case *chat.UnsignedPlayerCommand:
			m, s := textInfo(t.Command)
			out = append(out, fmt.Sprintf("ucmd:%s:%d", m, s))
		case *chat.ChatAcknowledgement:
			out = append(out, fmt.Sprintf("ack:%d", t.Offset))
		default:
			out = append(out, fmt.Sprintf("other<%T>", p))
		}
	}
	return strings.Join(out, ",")
}

// ---------- running a history ----------

type history struct {
	forceKey bool
	p1205    bool
	protocol proto.Protocol
	ops      []op
}

var protosOld = []proto.Protocol{version.Minecraft_1_19_3.Protocol, version.Minecraft_1_19_4.Protocol,
	version.Minecraft_1_20_2.Protocol, version.Minecraft_1_20_3.Protocol}
var protosNew = []proto.Protocol{version.Minecraft_1_20_5.Protocol, version.Minecraft_1_21.Protocol,
	version.Minecraft_1_21_5.Protocol}

func runLockstep(run *hx.Run, class string, h history) {
	f := newFixture(h.forceKey, h.protocol, false)
	run.Case(class+"/reset", fmt.Sprintf("reset %s %s l %d", bit(h.forceKey), bit(h.p1205), h.protocol), "ok")
	seen := 0
	for i, o := range h.ops {
		out := hx.Guard(30*time.Second, func() string {
			f.send(i, o)
			if !f.idle() {
				return "hang"
			}
			ps, closes := f.backend.snapshot()
			s := render(ps[seen:])
			seen = len(ps)
			_, closes = f.client.snapshot()
			return fmt.Sprintf("%s d=%d x=%d", s, f.fx.C21Delayed(), closes)
		})
		run.Case(class+"/"+o.kind+"-"+o.dec, o.line(), out)
		if out == "hang" || out == "panic" {
			return
		}
	}
}

func runConcurrent(run *hx.Run, class string, h history) {
	f := newFixture(h.forceKey, h.protocol, true)
	run.Case(class+"/reset", fmt.Sprintf("reset %s %s c %d", bit(h.forceKey), bit(h.p1205), h.protocol), "ok")
	rng := run.Rng
	for i, o := range h.ops {
		f.send(i, o) // never blocks: tasks run on the queue's goroutines
		run.Case(class+"/"+o.kind+"-"+o.dec, o.line(), "q")
		if rng.Chance(1, 3) {
			for k := rng.Intn(4); k > 0; k-- {
				f.permits <- struct{}{}
			}
		}
	}
	out := hx.Guard(60*time.Second, func() string {
		close(f.permits) // every later wait succeeds at once
		if !f.idle() {
			return "hang"
		}
		ps, _ := f.backend.snapshot()
		_, closes := f.client.snapshot()
		return fmt.Sprintf("%s d=%d x=%d", render(ps), f.fx.C21Delayed(), closes)
	})
	run.Case(class+"/end", "end", out)
}

// ---------- generators ----------

var smallOffsets = []int{0, 0, 0, 1, 1, 1, 2, 3, 4, 5, 7}
var edgeOffsets = []int{19, 20, 21, 38, 39, 40, 41, 59, 60, 100, 1000}

func genOffset(r *hx.Rng) int {
	if r.Chance(1, 5) {
		return hx.Pick(r, edgeOffsets)
	}
	return hx.Pick(r, smallOffsets)
}

func genCmdDec(r *hx.Rng) (dec, how string) {
	switch r.Intn(8) {
	case 0:
		return "consume", "deny"
	case 1:
		return "consume", "run"
	case 2:
		return "err", "fail"
	case 3:
		return "fwdSame", "event"
	case 4:
		return "fwdSame", "unknown"
	case 5:
		return "fwdSame", "errforward"
	case 6:
		return "fwdNew", "event"
	default:
		return "fwdNew", "unknown"
	}
}

func genOp(r *hx.Rng, h *history) op {
	switch k := r.Intn(10); {
	case k < 3:
		return op{kind: "ack", off: genOffset(r)}
	case k < 6:
		o := op{kind: "chat", off: genOffset(r), signed: r.Chance(1, 4)}
		o.dec = hx.Pick(r, []string{"allow", "allow", "deny", "modify"})
		if o.dec == "modify" && o.signed && h.forceKey {
			// handleSessionChat returns a nil *Future here and future.ThenCompose dereferences it on one of
			// the queue's goroutines (process crash): not drivable in-process; see Model.lean `crash`.
			o.signed = false
		}
		return o
	case k < 8 || !h.p1205:
		o := op{kind: "cmd", off: genOffset(r), signed: r.Chance(1, 5)}
		o.dec, o.how = genCmdDec(r)
		return o
	default:
		o := op{kind: "ucmd"}
		o.dec, o.how = genCmdDec(r)
		return o
	}
}

func genHistory(r *hx.Rng, n int, hostile bool) history {
	h := history{forceKey: r.Bool(), p1205: r.Bool()}
	if h.p1205 {
		h.protocol = hx.Pick(r, protosNew)
	} else {
		h.protocol = hx.Pick(r, protosOld)
	}
	for i := 0; i < n; i++ {
		h.ops = append(h.ops, genOp(r, &h))
	}
	if hostile {
		// one out-of-domain offset at the end (int32 boundary / negative)
		bad := hx.Pick(r, []int{2147483607, 2147483608, 2147483627, 2147483647, -1, -20, -2147483648})
		kind := hx.Pick(r, []string{"ack", "ack", "chat", "cmd"})
		o := op{kind: kind, off: bad}
		switch kind {
		case "chat":
			o.dec = "allow"
		case "cmd":
			o.dec, o.how = "fwdSame", "unknown"
		}
		h.ops = append(h.ops, o, op{kind: "chat", off: 0, dec: "allow"})
	}
	return h
}

func fixedHistories() []history {
	old, nw := version.Minecraft_1_20_3.Protocol, version.Minecraft_1_21_5.Protocol
	ack := func(n int) op { return op{kind: "ack", off: n} }
	return []history{
		// the three paths repaired by fixes/C21-ack-conservation.diff
		{true, false, old, []op{ack(3), {kind: "chat", off: 2, dec: "deny"}, {kind: "chat", off: 0, dec: "allow"}}},
		{true, false, old, []op{ack(3), {kind: "cmd", off: 2, dec: "err", how: "fail"}, {kind: "chat", off: 0, dec: "allow"}}},
		{true, false, old, []op{ack(3), {kind: "cmd", off: 2, dec: "fwdNew", how: "event"}, {kind: "chat", off: 0, dec: "allow"}}},
		{false, false, old, []op{ack(3), {kind: "cmd", off: 2, dec: "fwdNew", how: "unknown"}, {kind: "chat", off: 1, dec: "modify"}}},
		// gate#915 / #921 and the consumed-command acknowledgement (handle_cmd_ack_test.go)
		{true, true, nw, []op{ack(3), {kind: "ucmd", dec: "fwdSame", how: "event"}, {kind: "ucmd", dec: "consume", how: "run"}, {kind: "chat", off: 1, dec: "allow"}}},
		{true, false, old, []op{{kind: "cmd", off: 4, dec: "consume", how: "deny"}, {kind: "cmd", off: 0, dec: "consume", how: "run"}}},
		// window arithmetic
		{true, false, old, []op{ack(19), ack(20), ack(1), ack(39), ack(1), ack(0), {kind: "cmd", off: 0, dec: "fwdSame", how: "unknown"}}},
		{true, true, nw, []op{ack(39), ack(40), ack(100), ack(19), {kind: "chat", off: 5, dec: "allow"}, ack(40)}},
		// illegal protocol states
		{true, false, old, []op{ack(2), {kind: "chat", off: 1, signed: true, dec: "deny"}, {kind: "cmd", off: 1, signed: true, dec: "consume", how: "run"}, {kind: "cmd", off: 1, signed: true, dec: "fwdNew", how: "event"}}},
		{false, false, old, []op{ack(2), {kind: "chat", off: 1, signed: true, dec: "deny"}, {kind: "chat", off: 1, signed: true, dec: "modify"}, {kind: "cmd", off: 1, signed: true, dec: "fwdNew", how: "event"}}},
		// known findings: rewritten to an unsigned command on 1.20.5+, int32 wrap of the held-back counter
		{true, true, nw, []op{ack(3), {kind: "cmd", off: 2, dec: "fwdNew", how: "event"}, {kind: "chat", off: 0, dec: "allow"}}},
		{true, true, nw, []op{ack(39), ack(2147483647)}},
	}
}

func main() {
	run := hx.Start()
	defer run.Finish()
	w, m := proxy.C21Constants()
	run.Extra["lastSeenMessagesWindowSize"] = w
	run.Extra["minimumDelayedAckCount"] = m

	for _, h := range fixedHistories() {
		runLockstep(run, "fixed", h)
	}
	for _, h := range fixedHistories()[:11] {
		runConcurrent(run, "fixed-c", h)
	}
	r := run.Rng
	for i := run.Scale(250, 2500); i > 0; i-- {
		runLockstep(run, "lock", genHistory(r, 4+r.Intn(28), false))
	}
	for i := run.Scale(40, 400); i > 0; i-- {
		runLockstep(run, "hostile", genHistory(r, 2+r.Intn(10), true))
	}
	for i := run.Scale(250, 2500); i > 0; i-- {
		runConcurrent(run, "conc", genHistory(r, 4+r.Intn(40), false))
	}
}
