// C44 correspondence harness: drives the real netmc.NewMinecraftConn over a scripted net.Conn with
// counting / panicking session handlers.
//
// Case lines (tokens separated by one space):
//
//	scn H <handler>… A <active|-> E <event>…          deterministic scenario (events in the given order)
//	par H <handler>… A <active|-> T <apis> | <apis> … R <script>   goroutine stress (search aid), summary only
//
//	handler := <onPacket apis>/<onDisconnect apis>      apis joined by ',' or '-' for none
//	api     := ck Close | cu CloseUnknown | cw CloseWith | wp WritePacket | wr Write | bp BufferPacket |
//	           bl BufferPayload | fl Flush | fn the net.Conn starts failing writes | sh<k> SetActiveSessionHandler(k) |
//	           gc `if !Closed(c) { CloseUnknown(c) }`
//	event   := m:<api> (main goroutine, result observed) | r:p packet | r:x packet whose handler panics | r:e EOF
//	script  := p|x|e letters
//
//	           cp the context handed to NewMinecraftConn (parent of the connection's context) is cancelled
//
// scn output: `res=<ok|closed|other|->,… pre=<n>/<closed> disc=<ids|-> handled=N panics=N closed=0|1 net=0|1 escaped=0|1`
//
//	(net: net.Conn.Close was called)
//
// par output: `disc=N closed=0|1 later=<r>,<r> okclose=0|1 escaped=0|1`
//
//	wac <means> <state> <proto> <kind> <entry>   write after close: connection with protocol <proto> (old = 1.19.4, new = 1.20.2)
//	    in state <state> (hs st lg cf pl) is closed by <means> (ck cu cw we = a write error, eof = the read loop ends), then
//	    <entry> (wp wr bp bl fl) is called with a packet of <kind> (reg = registered in that state where one exists,
//	    po = play-only packet, which takes the play-packet-queue path).  Output: the result class of that call.
//
// `hang` if the scenario does not finish.
package main

import (
	"context"
	"errors"
	"fmt"
	"io"
	"net"
	"os"
	"runtime"
	"strconv"
	"strings"
	"sync"
	"sync/atomic"
	"syscall"
	"time"

	"github.com/go-logr/logr"
	"github.com/go-logr/logr/funcr"
	"go.minekube.com/gate/pkg/edition/java/netmc"
	"go.minekube.com/gate/pkg/edition/java/proto/packet"
	"go.minekube.com/gate/pkg/edition/java/proto/packet/title"
	"go.minekube.com/gate/pkg/edition/java/proto/state"
	"go.minekube.com/gate/pkg/edition/java/proto/version"
	"go.minekube.com/gate/pkg/gate/proto"

	"verifharness/hx"
)

// ---------- scripted net.Conn ----------

type fakeConn struct {
	rd      chan []byte
	buf     []byte
	closeCh chan struct{}
	once    sync.Once
	parked  atomic.Int64          // number of times Read found nothing buffered and parked
	failing atomic.Pointer[error] // the error every Write returns from now on (nil: writes succeed)
	closed  atomic.Bool
}

type timeoutErr struct{}

func (timeoutErr) Error() string   { return "i/o timeout" }
func (timeoutErr) Timeout() bool   { return true }
func (timeoutErr) Temporary() bool { return false }

// writeErrOf builds one representative of every class of write error closeOnWriteErr distinguishes.
func writeErrOf(cls string) error {
	op := func(e error) error {
		return &net.OpError{Op: "write", Net: "tcp", Source: fakeAddr{}, Addr: fakeAddr{}, Err: e}
	}
	switch cls {
	case "p":
		return io.ErrClosedPipe
	case "e":
		return op(os.NewSyscallError("write", syscall.EPIPE))
	case "r":
		return op(os.NewSyscallError("write", syscall.ECONNRESET))
	case "c":
		return op(net.ErrClosed)
	case "t":
		return op(timeoutErr{})
	}
	return errors.New("injected write failure")
}

type fakeAddr struct{}

func (fakeAddr) Network() string { return "fake" }
func (fakeAddr) String() string  { return "fake:0" }

func newFakeConn() *fakeConn {
	return &fakeConn{rd: make(chan []byte, 64), closeCh: make(chan struct{})}
}
func (f *fakeConn) Read(p []byte) (int, error) {
	if len(f.buf) == 0 {
		select {
		case <-f.closeCh:
			return 0, io.ErrClosedPipe
		default:
		}
		f.parked.Add(1)
		select {
		case b, ok := <-f.rd:
			if !ok {
				return 0, io.EOF
			}
			f.buf = b
		case <-f.closeCh:
			return 0, io.ErrClosedPipe
		}
	}
	n := copy(p, f.buf)
	f.buf = f.buf[n:]
	return n, nil
}
func (f *fakeConn) Write(p []byte) (int, error) {
	if f.closed.Load() {
		return 0, io.ErrClosedPipe
	}
	if e := f.failing.Load(); e != nil {
		return 0, *e
	}
	return len(p), nil
}
func (f *fakeConn) Close() error {
	f.once.Do(func() { f.closed.Store(true); close(f.closeCh) })
	return nil
}
func (f *fakeConn) LocalAddr() net.Addr  { return fakeAddr{} }
func (f *fakeConn) RemoteAddr() net.Addr { return fakeAddr{} }
func (f *fakeConn) dl() error {
	if f.closed.Load() {
		return io.ErrClosedPipe
	}
	return nil
}
func (f *fakeConn) SetDeadline(time.Time) error      { return f.dl() }
func (f *fakeConn) SetReadDeadline(time.Time) error  { return f.dl() }
func (f *fakeConn) SetWriteDeadline(time.Time) error { return f.dl() }

// ---------- world ----------

type world struct {
	conn     netmc.MinecraftConn
	fc       *fakeConn
	handlers []*handler
	mu       sync.Mutex
	disc     []int
	handled  atomic.Int64
	panics   atomic.Int64
	escaped  atomic.Bool
	sig      chan struct{} // a HandlePacket call is about to return / unwind
	sigRec   chan struct{} // the read loop logged a recovered panic
	nextPan  atomic.Bool
	loopDone chan struct{}
	panicN   atomic.Int64
	rdOnce   sync.Once
	cancelP  context.CancelFunc // cancels the context handed to NewMinecraftConn (the connection's parent context)
}

type handler struct {
	id       int
	w        *world
	onPacket []string
	onDisc   []string
}

func (h *handler) HandlePacket(pc *proto.PacketContext) {
	h.w.handled.Add(1)
	pan := h.w.nextPan.Load()
	defer func() {
		// signal "this packet has been handled" before a panic unwinds
		select {
		case h.w.sig <- struct{}{}:
		default:
		}
	}()
	for _, a := range h.onPacket {
		h.w.api(a)
	}
	if pan {
		switch h.w.panicN.Add(1) % 3 {
		case 0:
			panic(errors.New("handler panic (error value)"))
		case 1:
			panic("handler panic (string value)")
		default:
			var p *packet.KeepAlive
			_ = p.RandomID // nil dereference: runtime error
		}
	}
}
func (h *handler) Disconnected() {
	h.w.mu.Lock()
	h.w.disc = append(h.w.disc, h.id)
	h.w.mu.Unlock()
	for _, a := range h.onDisc {
		h.w.api(a)
	}
}
func (h *handler) Activated()   {}
func (h *handler) Deactivated() {}

func resOf(err error) string {
	switch {
	case err == nil:
		return "ok"
	case errors.Is(err, netmc.ErrClosedConn):
		return "closed"
	}
	return "other"
}

// api performs one API call on the connection and returns its result class ("-" if it has none).
func (w *world) api(a string) string {
	switch a {
	case "ck":
		return resOf(w.conn.Close())
	case "cu":
		return resOf(netmc.CloseUnknown(w.conn))
	case "cw":
		return resOf(netmc.CloseWith(w.conn, &packet.KeepAlive{RandomID: 7}))
	case "wp":
		return resOf(w.conn.WritePacket(&packet.KeepAlive{RandomID: 1}))
	case "wr":
		return resOf(w.conn.Write([]byte{0x00, 0, 0, 0, 2}))
	case "bp":
		return resOf(w.conn.BufferPacket(&packet.KeepAlive{RandomID: 3}))
	case "bl":
		return resOf(w.conn.BufferPayload([]byte{0x00, 0, 0, 0, 4}))
	case "fl":
		return resOf(w.conn.Flush())
	case "fn", "fnp", "fne", "fnr", "fnc", "fnt":
		e := writeErrOf(a[2:])
		w.fc.failing.Store(&e)
		return "-"
	case "cp":
		w.cancelP()
		return "-"
	case "gc":
		if !netmc.Closed(w.conn) {
			_ = netmc.CloseUnknown(w.conn)
		}
		return "-"
	}
	if strings.HasPrefix(a, "sh") {
		k, _ := strconv.Atoi(a[2:])
		w.conn.SetActiveSessionHandler(state.Play, w.handlers[k])
		return "-"
	}
	panic("bad api " + a)
}

func splitApis(s string) []string {
	if s == "-" || s == "" {
		return nil
	}
	return strings.Split(s, ",")
}

func newWorld(hspecs []string, active string) *world {
	w := &world{fc: newFakeConn(), sig: make(chan struct{}, 8), sigRec: make(chan struct{}, 8), loopDone: make(chan struct{})}
	for i, hs := range hspecs {
		parts := strings.SplitN(hs, "/", 2)
		w.handlers = append(w.handlers, &handler{id: i, w: w, onPacket: splitApis(parts[0]), onDisc: splitApis(parts[1])})
	}
	log := funcr.New(func(prefix, args string) {
		if strings.Contains(args, "recovered panic in packets read loop") {
			w.panics.Add(1)
			select {
			case w.sigRec <- struct{}{}:
			default:
			}
		}
	}, funcr.Options{Verbosity: 0})
	pctx, cancelP := context.WithCancel(context.Background())
	w.cancelP = cancelP
	ctx := logr.NewContext(pctx, log)
	conn, readLoop := netmc.NewMinecraftConn(ctx, w.fc, proto.ServerBound, time.Hour, time.Hour, -1, nil)
	w.conn = conn
	conn.SetState(state.Play)
	if active != "-" {
		k, _ := strconv.Atoi(active)
		conn.SetActiveSessionHandler(state.Play, w.handlers[k])
	}
	go func() {
		defer close(w.loopDone)
		defer func() {
			if r := recover(); r != nil {
				w.escaped.Store(true)
			}
		}()
		readLoop()
	}()
	w.waitParked(0) // the scenario starts with the read loop parked in Read (past its first Closed check)
	return w
}

// waitParked returns once the read loop has parked in Read more than n0 times, or has returned.
func (w *world) waitParked(n0 int64) {
	for w.fc.parked.Load() <= n0 {
		select {
		case <-w.loopDone:
			return
		default:
			time.Sleep(20 * time.Microsecond)
		}
	}
}

var keepAliveFrame = []byte{0x05, 0x00, 0x00, 0x00, 0x00, 0x09}

func (w *world) loopGone() bool {
	select {
	case <-w.loopDone:
		return true
	default:
		return false
	}
}

// feed delivers one read-loop event and waits until the loop has dealt with it.
func (w *world) feed(ev string) {
	if w.loopGone() {
		return
	}
	switch ev {
	case "e":
		w.closeInput()
		<-w.loopDone
	default:
		if netmc.Closed(w.conn) {
			// Closed by a close (the loop is on its way out) or only reported closed because the parent context was
			// cancelled (the loop is parked in Read, already past its Closed check).  The model's loop leaves at its
			// next Closed check without handling anything; end the input so that the parked loop does exactly that.
			w.closeInput()
			<-w.loopDone
			return
		}
		pan := ev == "x"
		w.nextPan.Store(pan)
		n0 := w.fc.parked.Load()
		defer w.waitParked(n0) // deterministic: the loop is parked again (or gone) before the scenario goes on
		w.fc.rd <- append([]byte(nil), keepAliveFrame...)
		select {
		case <-w.sig: // handled by a session handler; a panic is then logged by the loop's recover
			if pan {
				select {
				case <-w.sigRec:
				case <-w.loopDone:
				}
			}
		case <-w.sigRec: // no session handler installed: nil-interface call panicked and was recovered
		case <-w.loopDone:
		}
	}
}

func (w *world) closeInput() { w.rdOnce.Do(func() { close(w.fc.rd) }) }

func (w *world) finish() {
	if !w.loopGone() {
		w.closeInput()
		<-w.loopDone
	}
}

func b2i(b bool) int {
	if b {
		return 1
	}
	return 0
}

const guardT = 1500 * time.Millisecond

var hangs int

func guard(f func() string) string {
	out := hx.Guard(guardT, f)
	if out == "hang" {
		hangs++
	}
	return out
}

func runScn(hspecs []string, active string, events []string) string {
	return guard(func() string {
		w := newWorld(hspecs, active)
		var res []string
		eofSent := false
		for _, ev := range events {
			switch {
			case strings.HasPrefix(ev, "m:"):
				res = append(res, w.api(ev[2:]))
			case ev == "r:e":
				if !eofSent {
					eofSent = true
					w.feed("e")
				}
			default:
				if !eofSent {
					w.feed(ev[2:])
				}
			}
		}
		// snapshot while the read side is still parked: teardown count / closed
		w.mu.Lock()
		pre := fmt.Sprintf("%d/%d", len(w.disc), b2i(netmc.Closed(w.conn)))
		w.mu.Unlock()
		if !eofSent {
			w.finish()
		}
		w.mu.Lock()
		var ds []string
		for _, d := range w.disc {
			ds = append(ds, strconv.Itoa(d))
		}
		w.mu.Unlock()
		d := strings.Join(ds, ",")
		if d == "" {
			d = "-"
		}
		r := strings.Join(res, ",")
		if r == "" {
			r = "-"
		}
		return fmt.Sprintf("res=%s pre=%s disc=%s handled=%d panics=%d closed=%d net=%d escaped=%d", r, pre, d,
			w.handled.Load(), w.panics.Load(), b2i(netmc.Closed(w.conn)), b2i(w.fc.closed.Load()), b2i(w.escaped.Load()))
	})
}

func runPar(hspecs []string, active string, threads [][]string, script string, yield bool) string {
	return guard(func() string {
		w := newWorld(hspecs, active)
		var okClose atomic.Int64
		start := make(chan struct{})
		var wg sync.WaitGroup
		for _, th := range threads {
			wg.Add(1)
			go func(th []string) {
				defer wg.Done()
				<-start
				for _, a := range th {
					if yield {
						runtime.Gosched()
					}
					r := w.api(a)
					if (a == "ck" || a == "cu" || a == "cw") && r == "ok" {
						okClose.Add(1)
					}
				}
			}(th)
		}
		wg.Add(1)
		go func() {
			defer wg.Done()
			<-start
			for _, ev := range script {
				w.feed(string(ev))
			}
			w.finish()
		}()
		close(start)
		wg.Wait()
		<-w.loopDone
		l1, l2 := w.api("wp"), w.api("bp")
		w.mu.Lock()
		nd := len(w.disc)
		w.mu.Unlock()
		return fmt.Sprintf("disc=%d closed=%d later=%s,%s okclose=%d escaped=%d", nd, b2i(netmc.Closed(w.conn)), l1, l2,
			b2i(okClose.Load() <= 1), b2i(w.escaped.Load()))
	})
}

// ---------- write after close, every entry point x state x protocol x packet kind ----------

func regOfState(st string) *state.Registry {
	switch st {
	case "hs":
		return state.Handshake
	case "st":
		return state.Status
	case "lg":
		return state.Login
	case "cf":
		return state.Config
	}
	return state.Play
}

func runWac(means, st, pr, kind, entry string) string {
	return guard(func() string {
		w := newWorld([]string{"-/-"}, "-")
		if pr == "new" {
			w.conn.SetProtocol(version.Minecraft_1_20_2.Protocol)
		} else {
			w.conn.SetProtocol(version.Minecraft_1_19_4.Protocol)
		}
		w.conn.SetActiveSessionHandler(regOfState(st), w.handlers[0])
		switch means {
		case "ck", "cu", "cw":
			w.api(means)
		case "we":
			w.api("fnr")
			_ = w.conn.Write([]byte{0x00, 1, 2, 3})
		case "eof":
			w.feed("e")
		}
		if !netmc.Closed(w.conn) {
			return "not-closed"
		}
		var pk proto.Packet = &packet.KeepAlive{RandomID: 5}
		if kind == "po" {
			pk = &title.Times{FadeIn: 1, Stay: 2, FadeOut: 3}
		} else {
			switch st {
			case "st":
				pk = &packet.StatusResponse{Status: "{}"}
			case "lg":
				pk = &packet.SetCompression{Threshold: 256}
			}
		}
		var err error
		switch entry {
		case "wp":
			err = w.conn.WritePacket(pk)
		case "bp":
			err = w.conn.BufferPacket(pk)
		case "wr":
			err = w.conn.Write([]byte{0x00, 9, 9, 9, 9})
		case "bl":
			err = w.conn.BufferPayload([]byte{0x00, 9, 9, 9, 9})
		case "fl":
			err = w.conn.Flush()
		}
		out := resOf(err)
		w.finish()
		return out
	})
}

// ---------- generators ----------

var mainApis = []string{"cp", "ck", "cu", "cw", "wp", "wr", "bp", "bl", "fl", "fn", "fnp", "fne", "fnr", "fnc", "fnt", "gc", "wp", "wr", "fl"}
var pktApis = []string{"cp", "ck", "cu", "cw", "wp", "wr", "bp", "bl", "fl", "gc", "fn", "fnr", "fnc"}
var discApis = []string{"gc", "wp", "wr", "bp", "bl", "cw", "fn", "fnr"}

func genApis(r *hx.Rng, pool []string, nh, max int) string {
	n := r.Intn(max + 1)
	if n == 0 {
		return "-"
	}
	var xs []string
	for i := 0; i < n; i++ {
		if nh > 0 && r.Chance(1, 8) {
			xs = append(xs, "sh"+strconv.Itoa(r.Intn(nh)))
		} else {
			xs = append(xs, hx.Pick(r, pool))
		}
	}
	return strings.Join(xs, ",")
}

func genHandlers(r *hx.Rng) ([]string, string) {
	nh := 1 + r.Intn(3)
	var hs []string
	for i := 0; i < nh; i++ {
		op := "-"
		if r.Chance(1, 2) {
			op = genApis(r, pktApis, nh, 2)
		}
		od := "-"
		if r.Chance(1, 2) {
			od = genApis(r, discApis, 0, 3)
		}
		hs = append(hs, op+"/"+od)
	}
	active := strconv.Itoa(r.Intn(nh))
	if r.Chance(1, 12) {
		active = "-"
	}
	return hs, active
}

func scnLine(op string, hs []string, active string, tail string) string {
	return op + " H " + strings.Join(hs, " ") + " A " + active + " " + tail
}

func main() {
	run := hx.Start()
	r := run.Rng

	// ---- fixed scenarios first ----
	fixed := []struct {
		hs     []string
		active string
		ev     string
	}{
		{[]string{"-/-"}, "0", "m:ck m:ck m:cu m:wp m:bp m:bl m:wr m:cw m:fl"},
		{[]string{"-/-"}, "0", "m:wp m:bp m:fl m:fn m:bp m:fl m:wp m:ck"},
		{[]string{"-/-"}, "0", "m:fn m:wp m:wp m:ck"},
		{[]string{"-/-"}, "0", "r:p r:x r:p r:x r:x r:p r:e m:wp m:ck"},
		{[]string{"-/-"}, "-", "r:p r:p m:ck m:wp"},
		{[]string{"ck/-"}, "0", "r:p r:p m:wp m:ck"},
		{[]string{"-/gc,wp,bp,cw"}, "0", "m:cw m:wp"},
		{[]string{"fn,wp/-", "-/-"}, "0", "r:p m:sh1 r:p m:bp r:e"},
		// every class of write error, read side parked, every entry point that reaches closeOnWriteErr
		{[]string{"-/-"}, "0", "m:fn m:wp m:wp m:bp"},
		{[]string{"-/-"}, "0", "m:fnp m:wp m:wp m:bp"},
		{[]string{"-/-"}, "0", "m:fne m:wr m:wp m:bl"},
		{[]string{"-/-"}, "0", "m:fnr m:wp m:wp m:bp"},
		{[]string{"-/-"}, "0", "m:fnr m:wr m:wr m:cw"},
		{[]string{"-/-"}, "0", "m:bp m:fnr m:fl m:wp"},
		{[]string{"-/-"}, "0", "m:fnc m:wp m:wp m:bl"},
		{[]string{"-/-"}, "0", "m:bl m:fnc m:fl m:wr"},
		{[]string{"-/-"}, "0", "m:fnt m:wp m:wp m:bp"},
		{[]string{"-/-"}, "-", "m:fnr m:wp m:wp"},
		{[]string{"fnr,wp/-"}, "0", "r:p m:wp m:bp"},
		// the parent context is cancelled before the first close: every close path must still tear down
		{[]string{"-/-"}, "0", "m:cp m:ck m:ck m:wp"},
		{[]string{"-/-"}, "0", "m:cp m:cu m:bp"},
		{[]string{"-/-"}, "0", "m:cp m:cw m:wp m:ck"},
		{[]string{"-/-"}, "0", "m:cp m:wp m:bl m:fl"},
		{[]string{"-/-"}, "0", "m:cp r:p r:e m:wp"},
		{[]string{"-/-"}, "0", "r:p m:cp r:p r:x m:gc"},
		{[]string{"-/-"}, "0", "m:bp m:fnr m:cp m:fl m:wp"},
		{[]string{"cp/-"}, "0", "r:p r:p m:ck"},
		{[]string{"-/ck"}, "0", "m:ck m:wp"}, // Disconnected re-closes its own connection: deadlock
		{[]string{"-/fl"}, "0", "m:ck m:wp"}, // Disconnected flushes its own (closed) connection: deadlock
		{[]string{"-/fl"}, "0", "r:p r:e"},   // same, teardown started by the read loop ending
	}
	for _, c := range fixed {
		ev := strings.Fields(c.ev)
		run.Case("scn-fixed", scnLine("scn", c.hs, c.active, "E "+c.ev), runScn(c.hs, c.active, ev))
	}

	// ---- write after close: the whole (means x state x protocol x kind x entry point) table ----
	for _, means := range []string{"ck", "cu", "cw", "we", "eof"} {
		for _, st := range []string{"hs", "st", "lg", "cf", "pl"} {
			for _, pr := range []string{"old", "new"} {
				for _, kind := range []string{"reg", "po"} {
					for _, entry := range []string{"wp", "wr", "bp", "bl", "fl"} {
						if hangs >= 8 {
							continue
						}
						run.Case("wac", strings.Join([]string{"wac", means, st, pr, kind, entry}, " "), runWac(means, st, pr, kind, entry))
					}
				}
			}
		}
	}

	// ---- generated deterministic scenarios ----
	for i, n := 0, run.Scale(2500, 25000); i < n && hangs < 8; i++ {
		hs, active := genHandlers(r)
		var ev []string
		for j, m := 0, 1+r.Intn(10); j < m; j++ {
			switch k := r.Intn(10); {
			case k < 5:
				if r.Chance(1, 10) {
					ev = append(ev, "m:sh"+strconv.Itoa(r.Intn(len(hs))))
				} else {
					ev = append(ev, "m:"+hx.Pick(r, mainApis))
				}
			case k < 7:
				ev = append(ev, "r:p")
			case k < 9:
				ev = append(ev, "r:x")
			default:
				ev = append(ev, "r:e")
			}
		}
		run.Case("scn", scnLine("scn", hs, active, "E "+strings.Join(ev, " ")), runScn(hs, active, ev))
	}

	// ---- goroutine stress: many closers / writers / failing net / read loop, summary only ----
	for i, n := 0, run.Scale(1500, 15000); i < n && hangs < 8; i++ {
		hs, active := genHandlers(r)
		if active == "-" {
			active = "0"
		}
		nt := 2 + r.Intn(4)
		var ths [][]string
		var tl []string
		for t := 0; t < nt; t++ {
			var th []string
			for j, m := 0, 1+r.Intn(4); j < m; j++ {
				if r.Chance(1, 10) {
					th = append(th, "sh"+strconv.Itoa(r.Intn(len(hs))))
				} else {
					th = append(th, hx.Pick(r, mainApis))
				}
			}
			ths = append(ths, th)
			tl = append(tl, strings.Join(th, ","))
		}
		script := ""
		for j, m := 0, r.Intn(5); j < m; j++ {
			script += hx.Pick(r, []string{"p", "p", "x"})
		}
		script += "e"
		run.Case("par", scnLine("par", hs, active, "T "+strings.Join(tl, " | ")+" R "+script),
			runPar(hs, active, ths, script, r.Bool()))
	}
	run.Extra["hangs"] = hangs
	run.Finish()
}
