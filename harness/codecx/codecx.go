// Package codecx holds helpers shared by the C01 and C02 harnesses (owned by the C01/C02 builder).
package codecx

import (
	"bytes"
	"compress/zlib"
	"errors"
	"fmt"
	"io"
	"net"
	"strings"
	"time"

	"go.minekube.com/gate/pkg/edition/java/proto/codec"

	"verifharness/hx"
)

// Fnv64 is FNV-1a 64.
func Fnv64(b []byte) uint64 {
	h := uint64(0xcbf29ce484222325)
	for _, c := range b {
		h ^= uint64(c)
		h *= 0x100000001b3
	}
	return h
}

func ShowPayload(p []byte) string {
	if len(p) <= 48 {
		return hx.Hex(p)
	}
	return fmt.Sprintf("#%d:%016x", len(p), Fnv64(p))
}

func ShowList(ps [][]byte) string {
	if len(ps) == 0 {
		return "_"
	}
	s := make([]string, len(ps))
	for i, p := range ps {
		s[i] = ShowPayload(p)
	}
	return strings.Join(s, ",")
}

// GenBytes is the splitmix64 byte generator shared with the Lean driver.
func GenBytes(seed uint64, n int) []byte {
	s := seed*0x9E3779B97F4A7C15 + 0x1234567
	out := make([]byte, n)
	for i := range out {
		s += 0x9E3779B97F4A7C15
		z := s
		z = (z ^ (z >> 30)) * 0xBF58476D1CE4E5B9
		z = (z ^ (z >> 27)) * 0x94D049BB133111EB
		z ^= z >> 31
		out[i] = byte(z)
	}
	return out
}

// Deflate compresses independently of gate's encoder (the zlib oracle).
func Deflate(level int, p []byte) []byte {
	var b bytes.Buffer
	w, err := zlib.NewWriterLevel(&b, level)
	if err != nil {
		panic(err)
	}
	w.Write(p)
	w.Close()
	return b.Bytes()
}

// Inflate: complete valid zlib stream → (out, true); anything else → (nil, false).
func Inflate(body []byte, limit int) ([]byte, bool) {
	r, err := zlib.NewReader(bytes.NewReader(body))
	if err != nil {
		return nil, false
	}
	out, err := io.ReadAll(io.LimitReader(r, int64(limit)+1))
	if err != nil || len(out) > limit {
		return nil, false
	}
	return out, true
}

// ErrClass maps decoder errors to the model's classes.
func ErrClass(err error) string {
	if err == nil {
		return "nil"
	}
	var ftl *codec.FrameTooLargeError
	m := err.Error()
	switch {
	case errors.As(err, &ftl), strings.Contains(m, "VarInt is too big") && strings.Contains(m, "error reading varint"):
		return "bad-length"
	case strings.Contains(m, "claimed uncompressed size varint"):
		return "bad-claimed"
	case strings.Contains(m, "is greater than threshold"):
		return "over-threshold"
	case strings.Contains(m, "is less than set threshold"):
		return "below-threshold"
	case strings.Contains(m, "exceeds hard threshold"):
		return "over-cap"
	case strings.Contains(m, "too many empty packets"):
		return "too-many-empty"
	case strings.Contains(m, "decompressing payload"), strings.Contains(m, "zlib"), strings.Contains(m, "flate"),
		strings.Contains(m, "inflates to"):
		return "bad-body"
	case strings.Contains(m, "error reading packet frame") && (errors.Is(err, io.EOF) || errors.Is(err, io.ErrUnexpectedEOF)):
		return "eof"
	case errors.Is(err, io.EOF), errors.Is(err, io.ErrUnexpectedEOF):
		// EOF that does not come from the frame reader: zlib.NewReader on a body too short for a header
		return "bad-body"
	}
	return "other:" + strings.ReplaceAll(m, " ", "_")
}

// CaptureConn collects everything written to it.
type CaptureConn struct{ Buf bytes.Buffer }

func (c *CaptureConn) Read([]byte) (int, error)         { return 0, io.EOF }
func (c *CaptureConn) Write(b []byte) (int, error)      { return c.Buf.Write(b) }
func (c *CaptureConn) Close() error                     { return nil }
func (c *CaptureConn) LocalAddr() net.Addr              { return &net.TCPAddr{} }
func (c *CaptureConn) RemoteAddr() net.Addr             { return &net.TCPAddr{} }
func (c *CaptureConn) SetDeadline(time.Time) error      { return nil }
func (c *CaptureConn) SetReadDeadline(time.Time) error  { return nil }
func (c *CaptureConn) SetWriteDeadline(time.Time) error { return nil }

// ChunkConn delivers Data in chunks whose sizes cycle through Sizes.
type ChunkConn struct {
	Data  []byte
	Sizes []int
	i     int
}

func (c *ChunkConn) Read(b []byte) (int, error) {
	if len(c.Data) == 0 {
		return 0, io.EOF
	}
	n := c.Sizes[c.i%len(c.Sizes)]
	c.i++
	if n < 1 {
		n = 1
	}
	n = min(n, len(b), len(c.Data))
	copy(b, c.Data[:n])
	c.Data = c.Data[n:]
	return n, nil
}
func (c *ChunkConn) Write(b []byte) (int, error)      { return len(b), nil }
func (c *ChunkConn) Close() error                     { return nil }
func (c *ChunkConn) LocalAddr() net.Addr              { return &net.TCPAddr{} }
func (c *ChunkConn) RemoteAddr() net.Addr             { return &net.TCPAddr{} }
func (c *ChunkConn) SetDeadline(time.Time) error      { return nil }
func (c *ChunkConn) SetReadDeadline(time.Time) error  { return nil }
func (c *ChunkConn) SetWriteDeadline(time.Time) error { return nil }
