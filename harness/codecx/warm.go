package codecx

import (
	"io"

	"github.com/go-logr/logr"
	"go.minekube.com/gate/pkg/edition/java/proto/codec"
	"go.minekube.com/gate/pkg/gate/proto"
)

// WarmPools drives the codec's process-wide buffer pools past their self-calibration point
// (bufpool: calibrateCallsThreshold = 42000 Puts in one size class). Calibration changes the regime the
// encoders run in: freshly allocated pooled buffers are pre-sized (capacity = defaultSize) and buffers
// larger than the calibrated maxSize are no longer recycled, so pool misses become frequent. The
// correspondence cases that follow therefore exercise the post-calibration path — the state a proxy is in
// after its first few minutes of traffic — and not only the start-up path.
func WarmPools() int {
	n := 0
	payload := make([]byte, 200)
	for i := range payload {
		payload[i] = byte(i % 7)
	}
	payload[0] = 0x7d
	for _, thr := range []int{0, -1} {
		e := codec.NewEncoder(io.Discard, proto.ServerBound, logr.Discard())
		if thr >= 0 {
			_ = e.SetCompression(thr, -1)
		}
		for i := 0; i < 43000; i++ {
			if _, err := e.Write(payload); err == nil {
				n++
			}
		}
	}
	return n
}
