// C40 correspondence harness: javaCompatibleUsername (verif hook), BedrockData.JavaUuid, and real Bedrock
// logins through the Geyser integration listener (Floodgate-encrypted hostname → LoginSuccess name / UUID).
package main

import (
	"context"
	"errors"
	"fmt"
	"io"
	"math"
	"net"
	"net/http"
	"os"
	"path/filepath"
	"strconv"
	"strings"
	"time"

	"github.com/go-logr/logr"
	"github.com/robinbraemer/event"
	bconfig "go.minekube.com/gate/pkg/edition/bedrock/config"
	"go.minekube.com/gate/pkg/edition/bedrock/geyser"
	"go.minekube.com/gate/pkg/edition/bedrock/geyser/floodgate"
	"go.minekube.com/gate/pkg/edition/java/auth"
	jconfig "go.minekube.com/gate/pkg/edition/java/config"
	"go.minekube.com/gate/pkg/edition/java/proto/codec"
	"go.minekube.com/gate/pkg/edition/java/proto/packet"
	"go.minekube.com/gate/pkg/edition/java/proto/state"
	"go.minekube.com/gate/pkg/edition/java/proxy"
	"go.minekube.com/gate/pkg/gate/proto"

	"verifharness/hx"
)

// noNetwork replaces the default HTTP transport: the skin lookup of the Geyser integration must not leave the
// process (and must fail fast and deterministically).
type noNetwork struct{}

func (noNetwork) RoundTrip(*http.Request) (*http.Response, error) {
	return nil, errors.New("network disabled in verification harness")
}

func varint(v int) []byte {
	var out []byte
	u := uint32(v)
	for {
		if u&^0x7f == 0 {
			return append(out, byte(u))
		}
		out = append(out, byte(u&0x7f|0x80))
		u >>= 7
	}
}
func frame(body []byte) []byte   { return append(varint(len(body)), body...) }
func mcString(s string) []byte  { return append(varint(len(s)), s...) }

// bedrockEnv is one proxy + Geyser integration for one username format.
type bedrockEnv struct {
	format string
	addr   string
	fg     *floodgate.Floodgate
	integ  *geyser.Integration
	proxy  *proxy.Proxy
	cfg    *bconfig.Config // the very Config the integration reads UsernameFormat from on every login
}

func freeAddr() string {
	ln, err := net.Listen("tcp", "127.0.0.1:0")
	if err != nil {
		panic(err)
	}
	a := ln.Addr().String()
	_ = ln.Close()
	return a
}

func newEnv(dir string, key []byte, format string, a auth.Authenticator) (*bedrockEnv, error) {
	keyPath := filepath.Join(dir, "floodgate-key.pem")
	if err := os.WriteFile(keyPath, key, 0o600); err != nil {
		return nil, err
	}
	cfg := jconfig.DefaultConfig
	cfg.OnlineMode = true // the integration must force offline mode for Bedrock players itself
	cfg.Compression.Threshold = -1
	cfg.ForceKeyAuthentication = false
	cfg.Quota.Connections.Enabled = false
	cfg.Quota.Logins.Enabled = false
	cfg.Servers = map[string]string{}
	cfg.Try = nil
	p, err := proxy.New(proxy.Options{Config: &cfg, Authenticator: a, EventMgr: event.New()})
	if err != nil {
		return nil, err
	}
	bc := bconfig.DefaultConfig
	bc.GeyserListenAddr = freeAddr()
	bc.FloodgateKeyPath = keyPath
	bc.UsernameFormat = format
	bc.Managed = nil
	integ, err := geyser.NewIntegration(context.Background(), p, &bc)
	if err != nil {
		return nil, err
	}
	if err := integ.Start(); err != nil {
		return nil, err
	}
	fg, err := floodgate.NewFloodgate(key)
	if err != nil {
		return nil, err
	}
	return &bedrockEnv{format: format, addr: bc.GeyserListenAddr, fg: fg, integ: integ, proxy: p, cfg: &bc}, nil
}

// login performs one Bedrock login (as Geyser would) and returns what LoginSuccess carries.
func (e *bedrockEnv) login(gamertag string, xuid int64) string {
	host, err := e.fg.WriteHostname("play.example.org", &floodgate.BedrockData{
		Version: "2.2.4", Username: gamertag, Xuid: xuid, DeviceOS: floodgate.DeviceOSFromID(1), Language: "en_US",
		UIProfile: 0, InputMode: 1, IP: "203.0.113.7", LinkedPlayer: "", Proxy: false, SubscribeID: "", VerifyCode: "",
	})
	if err != nil {
		return "write-hostname-error"
	}
	var cli net.Conn
	for i := 0; i < 50; i++ { // the listener goroutine may need a moment after Start
		cli, err = net.DialTimeout("tcp", e.addr, 2*time.Second)
		if err == nil {
			break
		}
		time.Sleep(20 * time.Millisecond)
	}
	if err != nil {
		return "dial-error"
	}
	defer func() {
		// Several gamertags normalise to the same Java name; wait until the proxy has unregistered this player so
		// that the next login is not refused as "already connected" (that is C11's subject, not C40's).
		_ = cli.Close()
		for i := 0; i < 500 && e.proxy.PlayerCount() != 0; i++ {
			time.Sleep(2 * time.Millisecond)
		}
	}()
	_ = cli.SetDeadline(time.Now().Add(15 * time.Second))
	const protocol = 763
	hs := append([]byte{0x00}, varint(protocol)...)
	hs = append(hs, mcString(host)...)
	hs = append(hs, 0x63, 0xdd)
	hs = append(hs, varint(2)...)
	lg := append([]byte{0x00}, mcString("Bedrock_Player")...)
	lg = append(lg, 0)
	if _, err := cli.Write(append(frame(hs), frame(lg)...)); err != nil {
		return "write-error"
	}
	dec := codec.NewDecoder(cli, proto.ClientBound, logr.Discard())
	dec.SetProtocol(proto.Protocol(protocol))
	dec.SetState(state.Login)
	ctx, err := dec.Decode()
	if err != nil {
		if err == io.EOF || strings.Contains(err.Error(), "EOF") || strings.Contains(err.Error(), "closed") || strings.Contains(err.Error(), "reset") {
			return "closed"
		}
		return "decode-error"
	}
	switch t := ctx.Packet.(type) {
	case *packet.ServerLoginSuccess:
		return "ok " + hx.Hex(t.UUID[:]) + " " + hx.HexS(t.Username)
	case *packet.Disconnect:
		return "disconnect"
	case *packet.EncryptionRequest:
		return "encryption-request"
	default:
		return fmt.Sprintf("packet-%T", ctx.Packet)
	}
}

var tagParts = []string{"a", "Z", "9", "_", " ", ".", "-", "*", "玩", "家", "é", "😀", "ß", "İ", "​", " ", "Ａ", "\xff", "\x80", "\xe4\xb8", "\xed\xa0\x80",
	"\xc0\x80", "\x7f", "\t", "\n", "%", "[", "]", "@", "`", "{", "/", ":", "Steve", "Alex", "x X"}

func genTag(r *hx.Rng) (string, string) {
	switch r.Intn(8) {
	case 0: // typical gamertags: letters, digits, spaces
		n := 1 + r.Intn(16)
		b := make([]byte, n)
		for i := range b {
			b[i] = "abcdefghijklmnopqrstuvwxyzABCDEFGHIJKLMNOPQRSTUVWXYZ0123456789   "[r.Intn(65)]
		}
		return string(b), "gamertag"
	case 1: // boundary lengths around 16 (bytes and runes)
		n := hx.Pick(r, []int{0, 1, 14, 15, 16, 17, 18, 31, 32, 33, 64})
		c := hx.Pick(r, []string{"a", "_", " ", "玩", "😀", "\xff", "é"})
		return strings.Repeat(c, n), "boundary-length"
	case 2, 3: // mixtures of everything
		n := r.Intn(24)
		var sb strings.Builder
		for i := 0; i < n; i++ {
			sb.WriteString(hx.Pick(r, tagParts))
		}
		return sb.String(), "mixed"
	case 4: // random bytes
		return string(r.Bytes(r.Intn(40))), "random-bytes"
	case 5: // multi-byte character straddling the 16th position
		pre := strings.Repeat("a", 13+r.Intn(4))
		return pre + hx.Pick(r, []string{"玩", "😀", "é", "\xe4\xb8", "\xf0\x9f\x98"}) + "tail", "straddle"
	case 6: // already valid Java names (must come back unchanged)
		n := 1 + r.Intn(16)
		b := make([]byte, n)
		for i := range b {
			b[i] = "ABCDEFGHIJKLMNOPQRSTUVWXYZabcdefghijklmnopqrstuvwxyz0123456789_"[r.Intn(63)]
		}
		return string(b), "already-valid"
	default: // printable ASCII
		n := r.Intn(30)
		b := make([]byte, n)
		for i := range b {
			b[i] = byte(32 + r.Intn(95))
		}
		return string(b), "ascii-printable"
	}
}

var formats = []string{"_%s", ".%s", "%s", "", "%s_", "[BE]%s", "*%s*", "%s%s", "BE", "%%%s", "%d", "%q", "%5s|", "%-20s|", "%.3s", "Bedrock-%s-Player-Name-Long", "玩%s", "%v", "%x"}

func apply(format, tag string) string {
	if format == "" {
		return tag
	}
	return fmt.Sprintf(format, tag)
}

var xuidBoundaries = []int64{1, 2, 9, 10, 99, 100, 2535432196048835, 2535405290738264, 2533274790395904, math.MaxInt64, math.MaxInt64 - 1,
	math.MinInt64, math.MinInt64 + 1, -1, -10, 0, 1 << 32, 1<<32 - 1, 1 << 53, 1000000000000000, 999999999999999, 1234567890123456789}

func genXuid(r *hx.Rng) (int64, string) {
	switch r.Intn(5) {
	case 0:
		return hx.Pick(r, xuidBoundaries), "boundary"
	case 1: // real XUIDs are 16-digit numbers starting 2535…/2533…
		return 2533274790395904 + int64(r.U64()%(1<<41)), "xbox-range"
	case 2:
		return int64(r.U64()), "random-int64"
	case 3:
		return int64(r.U64() >> uint(r.Intn(64))), "random-magnitude"
	default:
		return int64(r.Intn(100000)), "small"
	}
}

func main() {
	run := hx.Start()
	defer run.Finish()
	r := run.Rng
	http.DefaultTransport = noNetwork{}

	doNorm := func(cl, s string) {
		out := hx.Guard(5*time.Second, func() string { return hx.HexS(geyser.C40JavaCompatibleUsername(s)) })
		run.Case("norm/"+cl, "norm "+hx.HexS(s), out)
	}
	doUUID := func(cl string, xuid int64) {
		out := hx.Guard(5*time.Second, func() string {
			d1 := &floodgate.BedrockData{Xuid: xuid, Username: "one", Version: "2.2.4", Language: "en_US"}
			d2 := &floodgate.BedrockData{Xuid: xuid, Username: "another name", LinkedPlayer: "x", Proxy: true, IP: "198.51.100.2"}
			u1, err := d1.JavaUuid()
			if err != nil {
				return "err"
			}
			u2, err := d2.JavaUuid()
			if err != nil {
				return "err"
			}
			return hx.Hex(u1[:]) + " " + hx.Hex(u2[:])
		})
		run.Case("juuid/"+cl, "juuid "+strconv.FormatInt(xuid, 10), out)
	}

	// ---- fixed regression cases first: the repository's own table and the corner cases ----
	for _, s := range []string{".LLG icedRyan", "[BE]Player", "Bedrock_Player", ".玩家 One", ".abcdefghijklmnop", "", "_", " ", "a", "0123456789abcdef", "0123456789abcdefg",
		"\xff", "\xff\xfe\xfd", "aaaaaaaaaaaaaaa玩", "aaaaaaaaaaaaaaaa玩", "玩玩玩玩玩玩玩玩玩玩玩玩玩玩玩玩玩", "%!s(MISSING)", "a\x00b", "a\nb", "Ａlex", "İstanbul", "Kelvin", "ſ"} {
		doNorm("fixed", s)
	}
	for _, x := range xuidBoundaries {
		doUUID("fixed", x)
	}

	// ---- end-to-end Bedrock logins, one environment per username format ----
	sharedAuth, err := auth.New(auth.Options{})
	if err != nil {
		panic(err)
	}
	key := []byte("0123456789abcdef") // fixed 128-bit Floodgate key
	e2eFormats := []string{"_%s", ".%s", "%s", "", "%s_", "[BE]%s", "%s%s", "BE", "%%%s", "%d", "Bedrock-%s-Player-Name-Long", "玩%s"}
	perEnv := run.Scale(12, 150)
	e2eTags := []string{".LLG icedRyan", "Steve", "x X", "玩家 One", "", "abcdefghijklmnopqrstuvwxyz", "😀😀", "é.é", "a_b", "  "}
	for _, f := range e2eFormats {
		env, err := newEnv(run.OutDir, key, f, sharedAuth)
		if err != nil {
			run.Case("bedrock/env-error", "bedrock "+hx.HexS(f)+" - - 1", "env-error")
			continue
		}
		for i := 0; i < perEnv; i++ {
			var tag, cl string
			if i < len(e2eTags) {
				tag, cl = e2eTags[i], "fixed"
			} else {
				tag, cl = genTag(r)
			}
			if strings.ContainsRune(tag, 0) { // Floodgate fields are NUL-separated
				tag = strings.ReplaceAll(tag, "\x00", "?")
			}
			if tag == "" { // ReadBedrockData rejects an empty gamertag before any profile is built
				tag = " "
			}
			xuid, _ := genXuid(r)
			if xuid == 0 { // rejected by ReadBedrockData ("cannot be 0"), not an identity question
				xuid = 1
			}
			out := hx.Guard(30*time.Second, func() string { return env.login(tag, xuid) })
			run.Case("bedrock/"+cl, fmt.Sprintf("bedrock %s %s %s %d", hx.HexS(f), hx.HexS(tag), hx.HexS(apply(f, tag)), xuid), out)
		}
		env.integ.Stop()
	}

	// ---- format sweep through the real onGameProfile path ----
	// Username formats whose literal prefix / suffix lengths sweep 0..24 around the 16-character limit
	// (prefix only, suffix only, both), built from plain ASCII, from characters the normaliser replaces and from
	// multi-byte characters, crossed with gamertags of 1..20 characters.  One environment is reused: the
	// integration reads cfg.UsernameFormat on every login, logins are strictly sequential.
	{
		lit := func(kind, n int) string {
			var sb strings.Builder
			for i := 0; i < n; i++ {
				switch kind % 3 {
				case 0:
					sb.WriteByte("BedrockPlayerXbox0123456789_"[i%28])
				case 1:
					sb.WriteString([]string{"[", "-", ".", " ", "*", "]", "#", "!"}[i%8])
				default:
					sb.WriteString([]string{"玩", "é", "😀", "家", "ß"}[i%5])
				}
			}
			return sb.String()
		}
		tagOf := func(kind, n int) string {
			var sb strings.Builder
			for i := 0; i < n; i++ {
				switch kind % 3 {
				case 0:
					sb.WriteByte("SteveAlexHerobrine42"[i%20])
				case 1:
					sb.WriteString([]string{"x", " ", "X", ".", "9"}[i%5])
				default:
					sb.WriteString([]string{"玩", "a", "😀", "é"}[i%4])
				}
			}
			return sb.String()
		}
		type ps struct{ p, s int }
		var shapes []ps
		for n := 0; n <= 24; n++ {
			shapes = append(shapes, ps{n, 0}) // prefix only
		}
		for n := 1; n <= 24; n++ {
			shapes = append(shapes, ps{0, n}) // suffix only
		}
		seenShape := map[ps]bool{}
		for p := 1; p <= 24; p++ { // both
			for _, sfx := range []int{1, 3, 13 - p, 16 - p, 17 - p, 24 - p} {
				if sfx >= 1 && sfx <= 24 && !seenShape[ps{p, sfx}] {
					seenShape[ps{p, sfx}] = true
					shapes = append(shapes, ps{p, sfx})
				}
			}
		}
		tagLens := []int{1, 2, 3, 4, 8, 15, 16, 20}
		kinds := []int{0}
		if run.Thorough() {
			tagLens = nil
			for n := 1; n <= 20; n++ {
				tagLens = append(tagLens, n)
			}
			kinds = []int{0, 1, 2}
		}
		env, err := newEnv(run.OutDir, key, "%s", sharedAuth)
		if err != nil {
			run.Case("sweep/env-error", "bedrock - - - 1", "env-error")
		} else {
			idx := 0
			for si, sh := range shapes {
				for _, k0 := range kinds {
					k := k0
					if !run.Thorough() {
						k = si // quick tier: the literal kind rotates with the shape
					}
					f := lit(k, sh.p) + "%s" + lit(k+1, sh.s)
					if sh.s > 0 && k%3 == 0 {
						f = lit(k, sh.p) + "%s" + lit(k, sh.s)
					}
					env.cfg.UsernameFormat = f
					for _, tl := range tagLens {
						idx++
						tag := tagOf(idx, tl)
						xuid, _ := genXuid(r)
						if xuid == 0 {
							xuid = 1
						}
						out := hx.Guard(30*time.Second, func() string { return env.login(tag, xuid) })
						cl := "sweep/prefix+suffix"
						if sh.s == 0 {
							cl = "sweep/prefix-only"
						} else if sh.p == 0 {
							cl = "sweep/suffix-only"
						}
						run.Case(cl, fmt.Sprintf("bedrock %s %s %s %d", hx.HexS(f), hx.HexS(tag), hx.HexS(apply(f, tag)), xuid), out)
					}
				}
			}
			env.integ.Stop()
		}
	}

	// ---- generated: normaliser on gamertags and on formatted names ----
	n := run.Scale(6000, 80000)
	for i := 0; i < n; i++ {
		tag, cl := genTag(r)
		if r.Chance(1, 2) {
			doNorm(cl, tag)
		} else {
			doNorm("formatted/"+cl, apply(hx.Pick(r, formats), tag))
		}
	}
	// ---- generated: XUID → UUID ----
	m := run.Scale(4000, 60000)
	seen := map[string]int64{}
	collisions := 0
	for i := 0; i < m; i++ {
		x, cl := genXuid(r)
		doUUID(cl, x)
	}
	// thorough tier: collision sampling among many XUIDs (a TEST, not a proof; see uuid_injective_partial)
	if run.Thorough() {
		k := 1000000
		for i := 0; i < k; i++ {
			x := 2533274790395904 + int64(i)*7919 + int64(r.Intn(7919))
			u, err := (&floodgate.BedrockData{Xuid: x}).JavaUuid()
			if err != nil {
				continue
			}
			s := string(u[:])
			if y, ok := seen[s]; ok && y != x {
				collisions++
				run.Case("juuid/collision", fmt.Sprintf("juuid %d", x), "collision-with "+strconv.FormatInt(y, 10))
			}
			seen[s] = x
		}
		run.Extra["collision_sample_size"] = k
		run.Extra["collisions_found"] = collisions
	}
}
