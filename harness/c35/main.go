// C35 correspondence harness: drives the real gate.New / ApplyLiveConfig / ApplyLiveConfigIfVersion /
// ConfigSnapshot and the Java proxy's runtime snapshot.
//
// A configuration is reported by its content ids: rest = interned json.Marshal of the configuration with
// the Lite routes removed, routes = interned json.Marshal of the Lite routes ("content" is exactly what
// configsEqual compares).  A version string is reported as the content it is the sha256 of (computed here,
// independently of configVersion), or x<n> for a string that is no known configuration's hash.
//
//	reset <rest> <lite> <routes>\t<state>
//	apply <rest> <lite> <routes> <valid>\t<code> <version|-> | <state>
//	applyif <rest> <lite> <routes> <valid> <expected>\t…
//	applynil [<expected>]\t…
//	conc <rest> <lite> <routes> <op>;<op>;…\t<res>;<res>;… | <state>     (ops run concurrently)
//	  op = <rest>,<lite>,<routes>,<valid>,<expected|->     res = <code>,<version|->
//	state = cur=<rest>.<routes> ver=<version> proxy=<routes> gen=<n>
package main

import (
	"crypto/sha256"
	"encoding/json"
	"fmt"
	"os"
	"strconv"
	"strings"
	"sync"
	"time"

	liteconfig "go.minekube.com/gate/pkg/edition/java/lite/config"
	"go.minekube.com/gate/pkg/gate"
	"go.minekube.com/gate/pkg/gate/config"
	"go.minekube.com/gate/pkg/util/configutil"
	"gopkg.in/yaml.v3"

	"verifharness/hx"
)

var run *hx.Run

type interner struct {
	ids map[string]int
}

func (in *interner) id(s string) int {
	if v, ok := in.ids[s]; ok {
		return v
	}
	v := len(in.ids)
	in.ids[s] = v
	return v
}

var (
	rests    = &interner{ids: map[string]int{}}
	routesIn = &interner{ids: map[string]int{}}
	unknown  = &interner{ids: map[string]int{}}
	versions = map[string]string{} // sha256 hex -> content id
)

func mustJSON(v any) string {
	b, err := json.Marshal(v)
	if err != nil {
		panic(err)
	}
	return string(b)
}

type content struct {
	rest, routes int
	lite         bool
}

func (c content) String() string { return fmt.Sprintf("c%d.%d", c.rest, c.routes) }
func b01(b bool) string {
	if b {
		return "1"
	}
	return "0"
}

// contentOf computes the content ids of a configuration and registers its version string.
func contentOf(c *config.Config) content {
	without := *c
	j := c.Config
	j.Lite.Routes = nil
	without.Config = j
	ct := content{rest: rests.id(mustJSON(&without)), routes: routesIn.id(mustJSON(c.Config.Lite.Routes)), lite: c.Config.Lite.Enabled}
	versions[fmt.Sprintf("%x", sha256.Sum256([]byte(mustJSON(c))))] = ct.String()
	return ct
}

func versionID(v string) string {
	if v == "" {
		return "-"
	}
	if id, ok := versions[v]; ok {
		return id
	}
	return "x" + strconv.Itoa(unknown.id(v))
}

func state(g *gate.Gate) string {
	snap, ver, err := g.ConfigSnapshot()
	if err != nil {
		return "snapshot-error"
	}
	ct := contentOf(snap)
	pcfg := g.Java().Config()
	return fmt.Sprintf("cur=%d.%d ver=%s proxy=%d gen=%d", ct.rest, ct.routes, versionID(ver),
		routesIn.id(mustJSON(pcfg.Lite.Routes)), g.Java().C35RouteGeneration())
}

// ---------- candidate families ----------

func route(host, backend string, ttl time.Duration) liteconfig.Route {
	return liteconfig.Route{Host: configutil.SingleOrMulti[string]{host}, Backend: configutil.SingleOrMulti[string]{backend},
		CachePingTTL: configutil.Duration(ttl)}
}

var routeSets = [][]liteconfig.Route{
	{route("play.example.test", "backend.example.test:25565", 30*time.Second)},
	{route("play.example.test", "backend2.example.test:25565", 30*time.Second)},
	{route("play.example.test", "backend.example.test:25565", 30*time.Second), route("*.example.test", "b3:25565", 0)},
	{route("*.example.test", "b3:25565", 0), route("play.example.test", "backend.example.test:25565", 30*time.Second)},
	{{Host: configutil.SingleOrMulti[string]{"a.test", "b.test"}, Backend: configutil.SingleOrMulti[string]{"x:1", "y:2"}, Strategy: liteconfig.StrategyRandom}},
	{route("play.example.test", "backend.example.test:25565", 31*time.Second)},
	{{Backend: configutil.SingleOrMulti[string]{"nohost:1"}}},                                                                                  // invalid: no host
	{{Host: configutil.SingleOrMulti[string]{"h"}, Backend: configutil.SingleOrMulti[string]{"[bad"}}},                                         // invalid: address
	{route("h", "b:1", 0), {Host: configutil.SingleOrMulti[string]{"h"}, Backend: configutil.SingleOrMulti[string]{"b:1"}, Strategy: "bogus"}}, // invalid
	{},  // invalid in Lite mode: no routes
	nil, // same content as {} (omitempty)
}

var restMutators = []func(c *config.Config){
	func(c *config.Config) {},
	func(c *config.Config) {},
	func(c *config.Config) {},
	func(c *config.Config) { c.Config.Bind = "127.0.0.1:25566" },
	func(c *config.Config) { c.Config.OnlineMode = !c.Config.OnlineMode },
	func(c *config.Config) { c.Config.Compression.Level = 99 }, // ignored by Lite validation, still a non-route change
	func(c *config.Config) { c.Config.Bind = "" },              // invalid
	func(c *config.Config) { c.Config.Quota.Logins.Burst = 0 }, // invalid
	func(c *config.Config) { c.Config.Lite.Enabled = false },
	func(c *config.Config) { c.HealthService.Bind = "0.0.0.0:9191" },
	func(c *config.Config) { c.Config.Status.ShowMaxPlayers = 7 },
	func(c *config.Config) { c.Connect.Enabled = !c.Connect.Enabled },
}

func baseConfig(lite bool) *config.Config {
	c := config.DefaultConfig
	c.Config.Bind = "127.0.0.1:25565"
	c.Config.Lite.Enabled = lite
	c.Config.Lite.Routes = cloneRoutes(routeSets[0])
	if !lite {
		c.Config.Servers = map[string]string{"lobby": "localhost:25566"}
		c.Config.Try = []string{"lobby"}
	}
	return &c
}

func cloneRoutes(rs []liteconfig.Route) []liteconfig.Route {
	if rs == nil {
		return nil
	}
	out := make([]liteconfig.Route, len(rs))
	for i, r := range rs {
		out[i] = r
		out[i].Host = append(configutil.SingleOrMulti[string](nil), r.Host...)
		out[i].Backend = append(configutil.SingleOrMulti[string](nil), r.Backend...)
	}
	return out
}

func genCandidate(r *hx.Rng, base *config.Config) *config.Config {
	c := *base
	c.Config.Lite.Routes = cloneRoutes(hx.Pick(r, routeSets[:6]))
	if r.Chance(1, 5) {
		c.Config.Lite.Routes = cloneRoutes(hx.Pick(r, routeSets))
	}
	if r.Chance(1, 3) {
		hx.Pick(r, restMutators)(&c)
	}
	return &c
}

type candTok struct {
	ct    content
	valid bool
}

func describe(c *config.Config) candTok {
	_, errs := c.Validate()
	return candTok{contentOf(c), len(errs) == 0}
}

func resString(res gate.LiveConfigResult) string {
	code := res.Code
	// the flags must agree with the code
	if res.Applied != (code == "applied") || res.Unchanged != (code == "unchanged") || res.CacheInvalidated != (code == "applied") {
		code += "!flags"
	}
	return code + " " + versionID(res.Version)
}

type session struct {
	g        *gate.Gate
	seenVers []string
}

func newSession(initial *config.Config) (*session, string) {
	ct := contentOf(initial)
	g, err := gate.New(gate.Options{Config: initial})
	if err != nil {
		panic(err)
	}
	s := &session{g: g}
	st := hx.Guard(20*time.Second, func() string { return state(g) })
	run.Case("reset", fmt.Sprintf("reset %d %s %d", ct.rest, b01(ct.lite), ct.routes), st)
	s.remember()
	return s, st
}

func (s *session) remember() {
	if _, v, err := s.g.ConfigSnapshot(); err == nil {
		s.seenVers = append(s.seenVers, v)
	}
}

func (s *session) expectedVersion(r *hx.Rng) string {
	_, cur, _ := s.g.ConfigSnapshot()
	switch r.Intn(8) {
	case 0:
		return "deadbeef"
	case 1:
		return hx.Pick(r, s.seenVers) // possibly stale
	case 2:
		return strings.ToUpper(cur) // same hash, wrong case: not the version string
	default:
		return cur
	}
}

func (s *session) apply(class string, r *hx.Rng, cand *config.Config, conditional bool) {
	d := describe(cand)
	op := fmt.Sprintf("apply %d %s %d %s", d.ct.rest, b01(d.ct.lite), d.ct.routes, b01(d.valid))
	var exp string
	if conditional {
		exp = s.expectedVersion(r)
		op = fmt.Sprintf("applyif %d %s %d %s %s", d.ct.rest, b01(d.ct.lite), d.ct.routes, b01(d.valid), versionID(exp))
	}
	out := hx.Guard(20*time.Second, func() string {
		var res gate.LiveConfigResult
		if conditional {
			res = s.g.ApplyLiveConfigIfVersion(cand, exp)
		} else {
			res = s.g.ApplyLiveConfig(cand)
		}
		return resString(res) + " | " + state(s.g)
	})
	run.Case(class, op, out)
	s.remember()
}

func (s *session) applyNil(r *hx.Rng, conditional bool) {
	op := "applynil"
	var exp string
	if conditional {
		exp = s.expectedVersion(r)
		op += " " + versionID(exp)
	}
	out := hx.Guard(20*time.Second, func() string {
		var res gate.LiveConfigResult
		if conditional {
			res = s.g.ApplyLiveConfigIfVersion(nil, exp)
		} else {
			res = s.g.ApplyLiveConfig(nil)
		}
		return resString(res) + " | " + state(s.g)
	})
	run.Case("nil", op, out)
}

// concurrent appliers, all released together
func concCase(r *hx.Rng, base *config.Config, n int) {
	ct := contentOf(base)
	g, err := gate.New(gate.Options{Config: base})
	if err != nil {
		panic(err)
	}
	_, v0, _ := g.ConfigSnapshot()
	type job struct {
		cand *config.Config
		exp  string
		cond bool
		tok  string
	}
	jobs := make([]job, n)
	// versions a client could hold: the initial one, or the one some other job's candidate would produce
	var possible []string
	possible = append(possible, v0)
	for i := range jobs {
		c := genCandidate(r, base)
		d := describe(c)
		jobs[i].cand = c
		possible = append(possible, fmt.Sprintf("%x", sha256.Sum256([]byte(mustJSON(c)))))
		jobs[i].tok = fmt.Sprintf("%d,%s,%d,%s", d.ct.rest, b01(d.ct.lite), d.ct.routes, b01(d.valid))
	}
	for i := range jobs {
		if r.Chance(2, 3) {
			jobs[i].cond = true
			jobs[i].exp = hx.Pick(r, possible)
			if r.Chance(1, 2) {
				jobs[i].exp = v0
			}
			jobs[i].tok += "," + versionID(jobs[i].exp)
		} else {
			jobs[i].tok += ",-"
		}
	}
	out := hx.Guard(30*time.Second, func() string {
		results := make([]gate.LiveConfigResult, n)
		var wg sync.WaitGroup
		start := make(chan struct{})
		for i := range jobs {
			wg.Add(1)
			go func(i int) {
				defer wg.Done()
				<-start
				if jobs[i].cond {
					results[i] = g.ApplyLiveConfigIfVersion(jobs[i].cand, jobs[i].exp)
				} else {
					results[i] = g.ApplyLiveConfig(jobs[i].cand)
				}
			}(i)
		}
		close(start)
		wg.Wait()
		rs := make([]string, n)
		for i, res := range results {
			rs[i] = strings.ReplaceAll(resString(res), " ", ",")
		}
		return strings.Join(rs, ";") + " | " + state(g)
	})
	toks := make([]string, n)
	for i, j := range jobs {
		toks[i] = j.tok
	}
	run.Case("conc", fmt.Sprintf("conc %d %s %d %s", ct.rest, b01(ct.lite), ct.routes, strings.Join(toks, ";")), out)
}

// ---------- through the API handler (ConfigHandlerImpl.ApplyConfig) ----------

var apiSeq int

type apiForm struct {
	doc   *string // complete document
	patch *string // merge patch
}

func strp(s string) *string { return &s }

func routesPatch(rs []liteconfig.Route) string {
	if rs == nil {
		rs = []liteconfig.Route{}
	}
	return `{"config":{"lite":{"routes":` + mustJSON(rs) + `}}}`
}

func genAPIForm(r *hx.Rng, g *gate.Gate, h *gate.ConfigHandlerImpl, base *config.Config) apiForm {
	switch r.Intn(14) {
	case 0, 1: // the current document, re-submitted
		payload, _, err := gate.C35GetConfig(h)
		if err != nil {
			panic(err)
		}
		return apiForm{doc: &payload}
	case 2, 3:
		return apiForm{patch: strp(`{}`)}
	case 4: // the routes in effect, sent again
		snap, _, _ := g.ConfigSnapshot()
		return apiForm{patch: strp(routesPatch(snap.Config.Lite.Routes))}
	case 5, 6, 7:
		return apiForm{patch: strp(routesPatch(hx.Pick(r, routeSets[:6])))}
	case 8:
		return apiForm{patch: strp(routesPatch(hx.Pick(r, routeSets)))}
	case 9:
		return apiForm{patch: strp(hx.Pick(r, []string{`{"config":{"bind":"127.0.0.1:25566"}}`, `{"config":{"lite":{"enabled":false}}}`,
			`{"config":{"status":{"showMaxPlayers":7}}}`, `{"config":{"bind":""}}`, `{"config":{"quota":{"logins":{"burst":0}}}}`,
			`{"healthService":{"bind":"0.0.0.0:9191"}}`, `{"config":{"bind":null}}`}))}
	case 10:
		b, err := yaml.Marshal(genCandidate(r, base))
		if err != nil {
			panic(err)
		}
		return apiForm{doc: strp(string(b))}
	case 11:
		return apiForm{patch: strp(hx.Pick(r, []string{`{`, `{"zzz":1}`, `[1]`, `{"config":{"lite":{"routes":"x"}}}`}))}
	case 12:
		return apiForm{doc: strp(hx.Pick(r, []string{`not: [valid`, `zzz: 1`, `config: 5`}))}
	default:
		return apiForm{} // no input at all
	}
}

// apiCase resolves the candidate exactly as the handler does (strict decode, resp. merge patch on the effective
// configuration — through the C36/C37 hooks), reports its content, then sends the request to the real handler.
func apiCase(r *hx.Rng, s *session, h *gate.ConfigHandlerImpl, path string, base *config.Config) {
	form := genAPIForm(r, s.g, h, base)
	snap, cur, err := s.g.ConfigSnapshot()
	if err != nil {
		panic(err)
	}
	candTok := "u"
	var cand *config.Config
	switch {
	case form.doc != nil:
		var c config.Config
		if gate.C37DecodeConfigStrict([]byte(*form.doc), ".yaml", &c) == nil {
			cand = &c
		}
	case form.patch != nil:
		if c, err := gate.C36MergeConfigPatch(snap, *form.patch); err == nil {
			cand = c
		}
	}
	if cand != nil {
		d := describe(cand)
		candTok = fmt.Sprintf("%d,%s,%d,%s", d.ct.rest, b01(d.ct.lite), d.ct.routes, b01(d.valid))
	}
	var ifMatch string
	switch r.Intn(10) {
	case 0:
		ifMatch = "not-a-version"
	case 1, 2:
		ifMatch = hx.Pick(r, s.seenVers) // possibly stale
	case 3:
		ifMatch = ""
	case 4:
		ifMatch = strings.ToUpper(cur)
	default:
		ifMatch = cur
	}
	persist := r.Chance(1, 3)
	os.Remove(path)
	out := hx.Guard(20*time.Second, func() string {
		ver, code := gate.C35ApplyConfig(h, form.doc, form.patch, ifMatch, persist)
		file := "-"
		if b, err := os.ReadFile(path); err == nil {
			// the handler persists yaml.Marshal(candidate): compare byte for byte
			file = "other"
			if cand != nil {
				if want, err := yaml.Marshal(cand); err == nil && string(want) == string(b) {
					file = "cand"
				}
			}
		}
		return code + " " + versionID(ver) + " file=" + file + " | " + state(s.g)
	})
	run.Case("api", fmt.Sprintf("api %s %s %s", versionID(ifMatch), candTok, b01(persist)), out)
	s.remember()
}

func apiSession(r *hx.Rng, steps int) {
	base := baseConfig(true)
	s, _ := newSession(base)
	apiSeq++
	path := fmt.Sprintf("%s/api-config-%d.yml", run.OutDir, apiSeq)
	h := gate.NewConfigHandler(s.g, path)
	for i := 0; i < steps; i++ {
		if r.Chance(1, 6) { // another client changes the routes behind the API client's back
			c := *base
			c.Config.Lite.Routes = cloneRoutes(hx.Pick(r, routeSets[:6]))
			s.apply("api-seq", r, &c, false)
			continue
		}
		apiCase(r, s, h, path, base)
	}
	os.Remove(path)
}

func main() {
	run = hx.Start()
	r := run.Rng

	// fixed scenario first: the repo's own tests plus the boundary of every rejection
	{
		base := baseConfig(true)
		s, _ := newSession(base)
		same := *base
		s.apply("fixed", r, &same, false) // unchanged
		c1 := *base
		c1.Config.Lite.Routes = cloneRoutes(routeSets[1])
		s.apply("fixed", r, &c1, false) // applied
		s.apply("fixed", r, &c1, false) // unchanged now
		c2 := c1
		c2.Config.Bind = "127.0.0.1:25566"
		s.apply("fixed", r, &c2, false) // unsupported
		c3 := c1
		c3.Config.Lite.Routes = cloneRoutes(routeSets[6])
		s.apply("fixed", r, &c3, false) // invalid
		c4 := c1
		c4.Config.Lite.Enabled = false
		c4.Config.Servers = map[string]string{"lobby": "localhost:25566"}
		s.apply("fixed", r, &c4, false) // unsupported (lite disabled)
		s.applyNil(r, false)
		s.applyNil(r, true)
		for i := 0; i < 12; i++ {
			s.apply("fixed-cas", r, genCandidate(r, base), true)
		}
		// a gate whose current configuration is not in Lite mode accepts nothing but the same content
		nb := baseConfig(false)
		s2, _ := newSession(nb)
		same2 := *nb
		s2.apply("fixed-nolite", r, &same2, false)
		nl := *nb
		nl.Config.Lite.Enabled = true
		s2.apply("fixed-nolite", r, &nl, false)
	}

	sessions := run.Scale(40, 400)
	for i := 0; i < sessions; i++ {
		base := baseConfig(!r.Chance(1, 8))
		if r.Chance(1, 4) {
			base.Config.Lite.Routes = cloneRoutes(hx.Pick(r, routeSets[:6]))
		}
		s, _ := newSession(base)
		for j := run.Scale(40, 60); j > 0; j-- {
			switch r.Intn(12) {
			case 0:
				s.applyNil(r, r.Bool())
			default:
				s.apply("seq", r, genCandidate(r, base), r.Chance(1, 2))
			}
		}
	}
	for i := run.Scale(12, 120); i > 0; i-- {
		apiSession(r, run.Scale(40, 60))
	}
	for i := run.Scale(300, 3000); i > 0; i-- {
		concCase(r, baseConfig(true), 2+r.Intn(5))
	}
	run.Finish()
}
