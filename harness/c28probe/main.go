package main

import (
	"bytes"
	"fmt"
	"time"

	"go.minekube.com/common/minecraft/component"
	"go.minekube.com/gate/pkg/edition/java/profile"
	"go.minekube.com/gate/pkg/edition/java/proto/packet/tablist/playerinfo"
	"go.minekube.com/gate/pkg/edition/java/proto/version"
	"go.minekube.com/gate/pkg/edition/java/proxy/crypto"
	"go.minekube.com/gate/pkg/gate/proto"
	"go.minekube.com/gate/pkg/util/uuid"
	vx "go.minekube.com/gate/pkg/verifexport"
)

type viewer struct {
	p    proto.Protocol
	pkts []proto.Packet
}

func (v *viewer) WritePacket(p proto.Packet) error  { v.pkts = append(v.pkts, p); return nil }
func (v *viewer) BufferPacket(p proto.Packet) error { v.pkts = append(v.pkts, p); return nil }
func (v *viewer) Flush() error                      { return nil }
func (v *viewer) Protocol() proto.Protocol          { return v.p }
func (v *viewer) IdentifiedKey() crypto.IdentifiedKey { return nil }

func try(name string, f func()) {
	defer func() {
		if r := recover(); r != nil {
			fmt.Println(name, "PANIC:", r)
		}
	}()
	f()
	fmt.Println(name, "ok")
}

func dump(v *viewer) {
	for _, p := range v.pkts {
		switch x := p.(type) {
		case *playerinfo.Upsert:
			fmt.Printf("  upsert n=%d:", len(x.ActionSet))
			for _, a := range x.ActionSet {
				fmt.Printf(" %T", a)
			}
			for _, e := range x.Entries {
				fmt.Printf(" {%v name=%q listed=%v lat=%d gm=%d dn=%v hat=%v ord=%d}", e.ProfileID, e.Profile.Name, e.Listed, e.Latency, e.GameMode, e.DisplayName, e.ShowHat, e.ListOrder)
			}
			fmt.Println()
		case *playerinfo.Remove:
			fmt.Println("  remove", x.PlayersToRemove)
		}
	}
	v.pkts = nil
}

func main() {
	v := &viewer{p: version.Minecraft_1_21_4.Protocol}
	tl := vx.C28New(v)
	u1 := uuid.New()
	e1 := &vx.C28Entry{OwningTabList: tl, EntryAttributes: vx.C28EntryAttributes{Profile: profile.GameProfile{ID: u1, Name: "alice"}, Latency: 5 * time.Millisecond, GameMode: 1}}
	try("add e1", func() { fmt.Println(tl.Add(e1)) })
	dump(v)
	try("add e1 again (same object)", func() { fmt.Println(tl.Add(e1)) })
	dump(v)
	e1b := &vx.C28Entry{OwningTabList: tl, EntryAttributes: vx.C28EntryAttributes{Profile: profile.GameProfile{ID: u1, Name: "alice"}, Latency: 5 * time.Millisecond, GameMode: 1}}
	try("add equal distinct object", func() { fmt.Println(tl.Add(e1b)) })
	dump(v)
	e1c := &vx.C28Entry{OwningTabList: tl, EntryAttributes: vx.C28EntryAttributes{Profile: profile.GameProfile{ID: u1, Name: "bob"}, Latency: 7 * time.Millisecond, GameMode: 1, DisplayName: &component.Text{Content: "x"}}}
	try("add distinct w/ other name", func() { fmt.Println(tl.Add(e1c)) })
	dump(v)
	fmt.Println(" reported name:", tl.Entries()[u1].Profile().Name)
	e1d := &vx.C28Entry{OwningTabList: tl, EntryAttributes: vx.C28EntryAttributes{Profile: profile.GameProfile{ID: u1, Name: "bob"}, Latency: 7 * time.Millisecond, GameMode: 1}}
	try("add distinct w/ nil displayname", func() { fmt.Println(tl.Add(e1d)) })
	dump(v)
	// encode that
	// backend hat
	u2 := uuid.New()
	up := &playerinfo.Upsert{ActionSet: []playerinfo.UpsertAction{playerinfo.AddPlayerAction, playerinfo.InitializeChatAction, playerinfo.UpdateHatAction}, Entries: []*playerinfo.Entry{{ProfileID: u2, Profile: profile.GameProfile{ID: u2, Name: "carl"}, ShowHat: false}}}
	fmt.Println(tl.ProcessUpdate(up))
	e2 := tl.Entries()[u2]
	fmt.Println(" backend hat=false -> proxy ShowHat:", e2.ShowHat(), "gm", e2.GameMode(), "chat==nil:", e2.ChatSession() == nil)
	// typed nil chat: remove then re-add the same entry object
	try("removeAll u2", func() { fmt.Println(tl.RemoveAll(u2)) })
	dump(v)
	try("add e2 (typed-nil chat)", func() { fmt.Println(tl.Add(e2)) })
	dump(v)
	_, has := tl.Entries()[u2]
	fmt.Println(" proxy has u2:", has)
	// new entry with showHat=false
	u3 := uuid.New()
	e3 := &vx.C28Entry{OwningTabList: tl, EntryAttributes: vx.C28EntryAttributes{Profile: profile.GameProfile{ID: u3, Name: "dora"}, ShowsHat: false}}
	try("add e3 hat=false", func() { fmt.Println(tl.Add(e3)) })
	dump(v)
	// stale handle
	try("stale e1.SetLatency", func() { fmt.Println(e1.SetLatency(9 * time.Millisecond)) })
	dump(v)
	fmt.Println(" proxy latency for u1:", tl.Entries()[u1].Latency())
	// encode
	var buf bytes.Buffer
	up2 := &playerinfo.Upsert{ActionSet: []playerinfo.UpsertAction{playerinfo.UpdateDisplayNameAction}, Entries: []*playerinfo.Entry{{ProfileID: u2}}}
	fmt.Println(up2.Encode(&proto.PacketContext{Protocol: v.p}, &buf), buf.Len())
}
