// C12 harness: listing players / a server's players / servers, counting and DisconnectAll on the REAL
// proxy (fake players through export_verif_c12.go, no network I/O).
//
// (a) sequential correspondence against the Lean machine (GateModel/C12): joins, leaves, server list
//     add/remove, server (un)registration interleaved with every listing API; players.Range with callbacks
//     that mutate the list they are ranging over (deterministic witness of "iterates the live map after
//     unlocking" vs "iterates a private snapshot").
// (b) concurrent stress of exactly these APIs in CHILD processes (the runtime's `concurrent map iteration
//     and map write` is a fatal error that cannot be recovered): a search aid only — one line per scenario,
//     `ok` unless the child died, hung or saw a listing that is no snapshot.
package main

import (
	"bytes"
	"fmt"
	"net"
	"os"
	"os/exec"
	"sort"
	"strconv"
	"strings"
	"sync"
	"sync/atomic"
	"time"

	"github.com/robinbraemer/event"
	"go.minekube.com/gate/pkg/edition/java/config"
	"go.minekube.com/gate/pkg/edition/java/proxy"
	"go.minekube.com/gate/pkg/util/uuid"

	"verifharness/hx"
)

// ---------- stub socket ----------

type stubConn struct {
	once   sync.Once
	closed chan struct{}
}

func newStub() *stubConn { return &stubConn{closed: make(chan struct{})} }
func (s *stubConn) Read(b []byte) (int, error) {
	<-s.closed
	return 0, net.ErrClosed
}
func (s *stubConn) Write(b []byte) (int, error) { return len(b), nil }
func (s *stubConn) Close() error {
	s.once.Do(func() { close(s.closed) })
	return nil
}
func (s *stubConn) LocalAddr() net.Addr                { return &net.TCPAddr{IP: net.IPv4(127, 0, 0, 1), Port: 25565} }
func (s *stubConn) RemoteAddr() net.Addr               { return &net.TCPAddr{IP: net.IPv4(127, 0, 0, 1), Port: 40000} }
func (s *stubConn) SetDeadline(t time.Time) error      { return nil }
func (s *stubConn) SetReadDeadline(t time.Time) error  { return nil }
func (s *stubConn) SetWriteDeadline(t time.Time) error { return nil }

func uid(n int) uuid.UUID {
	var u uuid.UUID
	u[0] = 0xC1
	u[12], u[13], u[14], u[15] = byte(n>>24), byte(n>>16), byte(n>>8), byte(n)
	return u
}
func uidNum(u uuid.UUID) int {
	return int(u[12])<<24 | int(u[13])<<16 | int(u[14])<<8 | int(u[15])
}

func newProxy() (*proxy.Proxy, event.Manager) {
	cfg := config.DefaultConfig
	cfg.OnlineMode = false
	mgr := event.New()
	px, err := proxy.New(proxy.Options{Config: &cfg, EventMgr: mgr})
	if err != nil {
		panic(err)
	}
	return px, mgr
}

func srvInfo(k int) proxy.ServerInfo {
	return proxy.NewServerInfo("s"+strconv.Itoa(k), &net.TCPAddr{IP: net.IPv4(127, 0, 0, 1), Port: 30000 + k})
}

func newPlayer(px *proxy.Proxy, i int) *proxy.C12Player {
	return proxy.C12NewPlayer(px, newStub(), "p"+strconv.Itoa(i), uid(i))
}

func idxOf(p proxy.Player) int { return uidNum(p.ID()) }

// scramble reorders and overwrites a returned list in place: reverse it, then copy its first entry over
// all others (a caller may do anything to a list it was handed — the built-in /server and /glist sort it).
func scramble[T any](l []T) {
	for i, j := 0, len(l)-1; i < j; i, j = i+1, j-1 {
		l[i], l[j] = l[j], l[i]
	}
	for i := 1; i < len(l); i++ {
		l[i] = l[0]
	}
}

// joinInts keeps duplicates visible: the list is sorted, not deduplicated.
func joinInts(l []int) string {
	if len(l) == 0 {
		return "-"
	}
	sort.Ints(l)
	s := make([]string, len(l))
	for i, x := range l {
		s[i] = strconv.Itoa(x)
	}
	return strings.Join(s, ",")
}

// ---------- (a) sequential ----------

type world struct {
	px      *proxy.Proxy
	lobby   proxy.RegisteredServer
	players map[int]*proxy.C12Player
	mu      sync.Mutex
	torn    []int
}

func newWorld() *world {
	px, mgr := newProxy()
	w := &world{px: px, players: map[int]*proxy.C12Player{}}
	event.Subscribe(mgr, 0, func(e *proxy.DisconnectEvent) {
		w.mu.Lock()
		w.torn = append(w.torn, idxOf(e.Player()))
		w.mu.Unlock()
	})
	rs, err := px.Register(srvInfo(0))
	if err != nil {
		panic(err)
	}
	w.lobby = rs
	return w
}

func (w *world) player(i int) *proxy.C12Player {
	if p, ok := w.players[i]; ok {
		return p
	}
	p := newPlayer(w.px, i)
	w.players[i] = p
	return p
}

func b01(b bool) string {
	if b {
		return "1"
	}
	return "0"
}

func (w *world) rangeAll() []int {
	var l []int
	w.lobby.Players().Range(func(p proxy.Player) bool { l = append(l, idxOf(p)); return true })
	return l
}

func (w *world) apply(f []string) string {
	atoi := func(s string) int { v, _ := strconv.Atoi(s); return v }
	return hx.Guard(5*time.Second, func() string {
		switch f[0] {
		case "join":
			return "r=" + b01(proxy.C12Join(w.px, w.player(atoi(f[1]))))
		case "leave":
			w.player(atoi(f[1])).Player().Disconnect(nil)
			return "r=-"
		case "dup":
			// a second login with the name and UUID of connection i, which is online: registerConnection refuses it
			// ("already connected"), the refused connection is disconnected and its teardown unregisters — nothing
			fresh := newPlayer(w.px, atoi(f[1]))
			ok := proxy.C12Join(w.px, fresh)
			fresh.Player().Disconnect(nil)
			return fmt.Sprintf("r=%s n=%d", b01(ok), w.px.PlayerCount())
		case "sadd":
			proxy.C12ServerAdd(w.lobby, w.player(atoi(f[1])))
			return "r=-"
		case "srem":
			proxy.C12ServerRemove(w.lobby, w.player(atoi(f[1])))
			return "r=-"
		case "regsrv":
			_, err := w.px.Register(srvInfo(atoi(f[1])))
			return "r=" + b01(err == nil)
		case "unregsrv":
			return "r=" + b01(w.px.Unregister(srvInfo(atoi(f[1]))))
		case "players":
			var l []int
			got := w.px.Players()
			for _, p := range got {
				l = append(l, idxOf(p))
			}
			scramble(got) // the list is ours: whatever we do to it must not show up anywhere else
			return "r=" + joinInts(l)
		case "count":
			return "r=" + strconv.Itoa(w.px.PlayerCount())
		case "servers":
			var l []int
			got := w.px.Servers()
			for _, s := range got {
				l = append(l, atoi(strings.TrimPrefix(s.ServerInfo().Name(), "s")))
			}
			scramble(got)
			return "r=" + joinInts(l)
		case "slen":
			return "r=" + strconv.Itoa(w.lobby.Players().Len())
		case "srange":
			return "r=" + joinInts(w.rangeAll())
		case "srangemut":
			// the callback mutates the very list Range is walking over, on its first invocation
			var visited []int
			first := true
			members := w.rangeAll()
			w.lobby.Players().Range(func(p proxy.Player) bool {
				visited = append(visited, idxOf(p))
				if first {
					first = false
					if f[1] == "rem" {
						for _, i := range members {
							proxy.C12ServerRemove(w.lobby, w.player(i))
						}
					} else {
						for k := 0; k < 40; k++ {
							proxy.C12ServerAdd(w.lobby, w.player(atoi(f[2])+k))
						}
					}
				}
				return true
			})
			return fmt.Sprintf("r=%s len=%d", joinInts(visited), w.lobby.Players().Len())
		case "srangestop":
			n, c := atoi(f[1]), 0
			w.lobby.Players().Range(func(p proxy.Player) bool { c++; return c < n })
			return "r=" + strconv.Itoa(c)
		case "discall":
			w.mu.Lock()
			w.torn = nil
			w.mu.Unlock()
			w.px.DisconnectAll(nil)
			w.mu.Lock()
			t := append([]int(nil), w.torn...)
			w.mu.Unlock()
			return fmt.Sprintf("r=%s n=%d", joinInts(t), w.px.PlayerCount())
		}
		return "bad-op"
	})
}

func sequence(run *hx.Run, class string, ops []string) {
	w := newWorld()
	run.Case(class+":reset", "reset", "-")
	for _, o := range ops {
		f := strings.Fields(o)
		out := w.apply(f)
		run.Case(class+":"+f[0], o, out)
		if out == "hang" || out == "panic" {
			return
		}
	}
}

func randomSequence(run *hx.Run, r *hx.Rng, n int) {
	w := newWorld()
	run.Case("rand:reset", "reset", "-")
	next := 0
	var joined []int
	online := map[int]bool{}
	pickOnline := func() int {
		var l []int
		for i, on := range online {
			if on {
				l = append(l, i)
			}
		}
		if len(l) == 0 {
			return -1
		}
		sort.Ints(l)
		return l[r.Intn(len(l))]
	}
	pick := func() int { // a connection that has joined at some point (it may have left again)
		if len(joined) == 0 || r.Chance(1, 6) {
			return r.Intn(next)
		}
		return joined[r.Intn(len(joined))]
	}
	for k := 0; k < n; k++ {
		var o string
		c := r.Intn(30)
		if next == 0 {
			c = 0
		}
		switch {
		case c < 7:
			if i := pickOnline(); i >= 0 && r.Chance(1, 3) {
				o = "dup " + strconv.Itoa(i) // somebody who is online logs in a second time
			} else {
				o = "join " + strconv.Itoa(next)
				joined = append(joined, next)
				online[next] = true
				next++
			}
		case c < 10:
			i := pick()
			online[i] = false
			o = "leave " + strconv.Itoa(i)
		case c < 14:
			o = "sadd " + strconv.Itoa(pick())
		case c < 16:
			o = "srem " + strconv.Itoa(pick())
		case c < 18:
			o = "regsrv " + strconv.Itoa(r.Intn(6))
		case c < 19:
			o = "unregsrv " + strconv.Itoa(r.Intn(6))
		case c < 21:
			o = "players"
		case c < 22:
			o = "count"
		case c < 23:
			o = "servers"
		case c < 24:
			o = "slen"
		case c < 26:
			o = "srange"
		case c < 27:
			o = "srangemut rem"
		case c < 28:
			o = "srangemut add " + strconv.Itoa(1000+40*k)
		case c < 29:
			o = "srangestop " + strconv.Itoa(1+r.Intn(5))
		default:
			o = "discall"
			joined = nil
			online = map[int]bool{}
		}
		f := strings.Fields(o)
		out := w.apply(f)
		run.Case("rand:"+f[0], o, out)
		if out == "hang" || out == "panic" {
			return
		}
	}
}

// ---------- (b) concurrent stress, in a child process ----------

// isWindow: writer g registers players g*1e6+0,1,2,… in order and disconnects them in the same order, so at
// every instant the registered players of g are a contiguous window of indices.
func isWindow(l []int) bool {
	per := map[int][]int{}
	for _, x := range l {
		per[x/1000000] = append(per[x/1000000], x%1000000)
	}
	for _, v := range per {
		sort.Ints(v)
		for i := 1; i < len(v); i++ {
			if v[i] != v[i-1]+1 {
				return false
			}
		}
	}
	return true
}

func child(scn string, iters int) string {
	px, _ := newProxy()
	var bad atomic.Value
	fail := func(s string) { bad.CompareAndSwap(nil, s) }
	var stop atomic.Bool
	var writers, readers sync.WaitGroup
	const W, R, lag = 4, 4, 24
	switch scn {
	case "players", "discall":
		for g := 0; g < W; g++ {
			writers.Add(1)
			go func(g int) {
				defer writers.Done()
				var live []*proxy.C12Player
				for k := 0; k < iters; k++ {
					p := newPlayer(px, g*1000000+k)
					if !proxy.C12Join(px, p) {
						fail("join-rejected")
					}
					live = append(live, p)
					if len(live) > lag {
						live[0].Player().Disconnect(nil)
						live = live[1:]
					}
				}
			}(g)
		}
		for g := 0; g < R; g++ {
			readers.Add(1)
			go func(g int) {
				defer readers.Done()
				for !stop.Load() {
					if scn == "discall" && g == 0 {
						px.DisconnectAll(nil) // kicks whoever is online right now, while others join and leave
						continue
					}
					var l []int
					seen := map[int]bool{}
					got := px.Players()
					for _, p := range got {
						i := idxOf(p)
						if seen[i] {
							fail("duplicate")
						}
						seen[i] = true
						l = append(l, i)
					}
					if scn == "players" && !isWindow(l) {
						fail("mixed")
					}
					scramble(got)
					_ = px.PlayerCount()
				}
			}(g)
		}
	case "srange":
		rs, _ := px.Register(srvInfo(0))
		for g := 0; g < W; g++ {
			writers.Add(1)
			go func(g int) {
				defer writers.Done()
				var live []*proxy.C12Player
				for k := 0; k < iters; k++ {
					p := newPlayer(px, g*1000000+k)
					proxy.C12ServerAdd(rs, p)
					live = append(live, p)
					if len(live) > lag {
						proxy.C12ServerRemove(rs, live[0])
						live = live[1:]
					}
				}
			}(g)
		}
		for g := 0; g < R; g++ {
			readers.Add(1)
			go func() {
				defer readers.Done()
				for !stop.Load() {
					var l []int
					rs.Players().Range(func(p proxy.Player) bool { l = append(l, idxOf(p)); return true })
					if !isWindow(l) {
						fail("mixed")
					}
					_ = rs.Players().Len()
					_ = proxy.PlayersToSlice[proxy.Player](rs.Players())
				}
			}()
		}
	case "servers":
		const perm = 48
		for i := 0; i < perm; i++ { // permanent servers, registered in descending name order
			if _, err := px.Register(srvInfo(900000 + perm - i)); err != nil {
				return "register-failed"
			}
		}
		for g := 0; g < W; g++ {
			writers.Add(1)
			go func(g int) {
				defer writers.Done()
				for k := 0; k < iters/4; k++ {
					info := srvInfo(g*1000 + k%lag)
					if k%2 == 0 {
						_, _ = px.Register(info)
					} else {
						px.Unregister(srvInfo(g*1000 + (k-1)%lag))
					}
					if k%16 == 0 {
						time.Sleep(50 * time.Microsecond) // leave the listers some quiet time between changes
					}
				}
			}(g)
		}
		for g := 0; g < R; g++ {
			readers.Add(1)
			go func(g int) {
				defer readers.Done()
				for !stop.Load() {
					l := px.Servers()
					seen := map[string]int{}
					for _, s := range l {
						if s == nil {
							fail("nil-entry")
							continue
						}
						seen[s.ServerInfo().Name()]++
					}
					for n, c := range seen {
						if c != 1 {
							fail("duplicate")
							_ = n
						}
					}
					for i := 1; i <= perm; i++ {
						if seen["s"+strconv.Itoa(900000+i)] != 1 {
							fail("mixed")
						}
					}
					if g%2 == 0 { // half of the listers behave like /server and /glist: sort what they got, in place
						sort.Slice(l, func(a, b int) bool { return l[a].ServerInfo().Name() < l[b].ServerInfo().Name() })
					}
					_ = px.Server("s1")
				}
			}(g)
		}
	default:
		return "bad-scenario"
	}
	writers.Wait()
	stop.Store(true)
	readers.Wait()
	if v := bad.Load(); v != nil {
		return v.(string)
	}
	return "ok"
}

// discallOnce: DisconnectAll alone, many players online: as found, the goroutines it spawns delete from the
// map it is still ranging over.
func discallOnce(n int) string {
	px, _ := newProxy()
	for i := 0; i < n; i++ {
		if !proxy.C12Join(px, newPlayer(px, i)) {
			return "join-rejected"
		}
	}
	px.DisconnectAll(nil)
	if c := px.PlayerCount(); c != 0 {
		return "left-" + strconv.Itoa(c)
	}
	return "ok"
}

func runChild(scn string, iters int) string {
	cmd := exec.Command(os.Args[0])
	cmd.Env = append(os.Environ(), "C12_CHILD="+scn, "C12_ITERS="+strconv.Itoa(iters))
	var out, errb bytes.Buffer
	cmd.Stdout, cmd.Stderr = &out, &errb
	if err := cmd.Start(); err != nil {
		return "spawn-failed"
	}
	done := make(chan error, 1)
	go func() { done <- cmd.Wait() }()
	select {
	case err := <-done:
		e := errb.String()
		switch {
		case strings.Contains(e, "concurrent map"):
			return "fatal-concurrent-map"
		case strings.Contains(e, "negative WaitGroup counter"):
			return "panic-waitgroup"
		case err != nil:
			return "crash"
		}
		return strings.TrimSpace(out.String())
	case <-time.After(60 * time.Second):
		_ = cmd.Process.Kill()
		return "hang"
	}
}

func main() {
	if scn := os.Getenv("C12_CHILD"); scn != "" {
		iters, _ := strconv.Atoi(os.Getenv("C12_ITERS"))
		if scn == "discallonce" {
			fmt.Println(discallOnce(iters))
		} else {
			fmt.Println(child(scn, iters))
		}
		return
	}
	run := hx.Start()
	defer run.Finish()
	r := run.Rng

	// ---- fixed regression cases first ----
	// players.Range must walk a private snapshot: a callback that empties / grows the list on its first call
	// still sees every member of the snapshot exactly once (as found: the live map was walked after unlocking)
	var big []string
	for i := 0; i < 60; i++ {
		big = append(big, "sadd "+strconv.Itoa(i))
	}
	sequence(run, "fixed:range-snapshot", append(append([]string{}, big...),
		"slen", "srange", "srangemut rem", "slen", "srange"))
	sequence(run, "fixed:range-snapshot", append(append([]string{}, big[:8]...),
		"srangemut add 500", "slen", "srangestop 3", "srangestop 1", "srem 3", "srange"))
	sequence(run, "fixed:listing", []string{"players", "count", "join 0", "join 1", "join 2", "players", "count",
		"leave 1", "players", "count", "join 0", "leave 1", "servers", "regsrv 3", "regsrv 3", "servers", "unregsrv 3",
		"unregsrv 3", "servers", "sadd 0", "sadd 7", "srange", "slen", "discall", "players", "count", "srange", "discall"})
	// a returned list belongs to its caller: two listings in a row with no registry change in between
	sequence(run, "fixed:fresh-copy", []string{"regsrv 1", "regsrv 2", "regsrv 3", "regsrv 4", "servers", "servers", "servers",
		"unregsrv 2", "servers", "servers", "join 0", "join 1", "join 2", "join 3", "players", "players", "count", "leave 2",
		"players", "players", "servers"})
	// rejected duplicate logins: nobody joined, nobody left — counts and listings stay what they were
	sequence(run, "fixed:rejected-duplicate", []string{"join 0", "count", "dup 0", "count", "players", "dup 0", "count", "players",
		"dup 0", "players", "join 1", "dup 1", "dup 0", "count", "players", "leave 0", "count", "players", "dup 1", "dup 1",
		"count", "players", "discall", "count", "players"})
	// DisconnectAll on its own with many players online (as found: fatal error in the process)
	run.Case("conc:discallonce", "conc discallonce 3000", runChild("discallonce", 3000))

	// ---- random sequences ----
	for s, n := 0, run.Scale(150, 1000); s < n; s++ {
		randomSequence(run, r, 30+r.Intn(50))
	}

	// ---- concurrent stress (children) ----
	iters := run.Scale(2000, 12000)
	for k, rounds := 0, run.Scale(1, 2); k < rounds; k++ {
		for _, scn := range []string{"players", "discall", "srange", "servers"} {
			run.Case("conc:"+scn, fmt.Sprintf("conc %s %d", scn, iters), runChild(scn, iters))
		}
	}
}
