// C36 correspondence harness: drives the real applyMergePatch / mergeConfigPatch (pkg/gate) through the
// verif hooks in pkg/gate/export_verif_c36.go.
//
// Case lines
//
//	merge <T> <P>\t<R>              T, P decoded with encoding/json exactly like mergeConfigPatch does,
//	                                R = applyMergePatch(T, P); all three in the canonical document encoding
//	cfg <exp> <T> <P> <R|->\t<acc|rej>
//	                                T = canonicalConfigJSON(current), P the patch, R = canonicalConfigJSON of the
//	                                accepted candidate; exp = a (generator built the patch from valid edits only),
//	                                r (contains an unknown member or a wrongly typed value), u (no expectation)
//
// Canonical document encoding (one token, no spaces): n | t | f | #<hex of number text> | s<hex> |
// [d,d,…] | {<hexkey>:d,…} with keys sorted bytewise.
package main

import (
	"encoding/json"
	"fmt"
	"sort"
	"strconv"
	"strings"
	"time"

	bconfig "go.minekube.com/gate/pkg/edition/bedrock/config"
	liteconfig "go.minekube.com/gate/pkg/edition/java/lite/config"
	"go.minekube.com/gate/pkg/gate"
	"go.minekube.com/gate/pkg/gate/config"
	"go.minekube.com/gate/pkg/util/configutil"

	"verifharness/hx"
)

func enc(sb *strings.Builder, v any) {
	switch x := v.(type) {
	case nil:
		sb.WriteByte('n')
	case bool:
		if x {
			sb.WriteByte('t')
		} else {
			sb.WriteByte('f')
		}
	case float64:
		sb.WriteByte('#')
		sb.WriteString(hexs(strconv.FormatFloat(x, 'g', -1, 64)))
	case string:
		sb.WriteByte('s')
		sb.WriteString(hexs(x))
	case []any:
		sb.WriteByte('[')
		for i, e := range x {
			if i > 0 {
				sb.WriteByte(',')
			}
			enc(sb, e)
		}
		sb.WriteByte(']')
	case map[string]any:
		keys := make([]string, 0, len(x))
		for k := range x {
			keys = append(keys, k)
		}
		sort.Strings(keys)
		sb.WriteByte('{')
		for i, k := range keys {
			if i > 0 {
				sb.WriteByte(',')
			}
			sb.WriteString(hexs(k))
			sb.WriteByte(':')
			enc(sb, x[k])
		}
		sb.WriteByte('}')
	default:
		sb.WriteString("?" + fmt.Sprintf("%T", v))
	}
}
func hexs(s string) string {
	if s == "" {
		return ""
	}
	return hx.HexS(s)
}
func doc(v any) string {
	var sb strings.Builder
	enc(&sb, v)
	return sb.String()
}

func decode(text string) (any, bool) {
	var v any
	if err := json.Unmarshal([]byte(text), &v); err != nil {
		return nil, false
	}
	return v, true
}

var run *hx.Run

// mergeCase decodes both texts (as mergeConfigPatch does), records the documents, runs the real function.
func mergeCase(class, targetText, patchText string) {
	t, ok1 := decode(targetText)
	p, ok2 := decode(patchText)
	if !ok1 || !ok2 {
		panic("harness generated invalid JSON: " + targetText + " / " + patchText)
	}
	td, pd := doc(t), doc(p) // before the call: applyMergePatch mutates the target in place
	out := hx.Guard(20*time.Second, func() string { return doc(gate.C36ApplyMergePatch(t, p)) })
	run.Case(class, "merge "+td+" "+pd, out)
}

// ---------- generators ----------

var keys = []string{"a", "b", "c", "d", "e", "", "A", "a.b", "a/b", "é", "config", "null", "k1", "k2", "k3", "k4", "a b", "\u0000", "\"q\""}

func genScalar(r *hx.Rng) any {
	switch r.Intn(9) {
	case 0:
		return nil
	case 1:
		return true
	case 2:
		return false
	case 3:
		return float64(r.Intn(5))
	case 4:
		return hx.Pick(r, []any{-1.5, 1e100, 0.0, 3.0, 1e-7, 1234567890123.0})
	case 5:
		return ""
	case 6:
		return hx.Pick(r, []any{"b", "c", "null", "{}", "x y", "ünï", "\t"})
	default:
		return "s" + strconv.Itoa(r.Intn(4))
	}
}

func genValue(r *hx.Rng, depth int) any {
	if depth <= 0 {
		return genScalar(r)
	}
	switch r.Intn(10) {
	case 0, 1, 2, 3:
		return genObject(r, depth-1, r.Intn(5))
	case 4, 5:
		n := r.Intn(4)
		a := make([]any, n)
		for i := range a {
			a[i] = genValue(r, depth-1)
		}
		return a
	default:
		return genScalar(r)
	}
}

func genObject(r *hx.Rng, depth, n int) map[string]any {
	m := map[string]any{}
	for i := 0; i < n; i++ {
		m[hx.Pick(r, keys)] = genValue(r, depth)
	}
	return m
}

// genPatchFor builds a patch that is related to the target: for members of the target it may omit, null,
// replace or descend; it also adds members the target does not have.
func genPatchFor(r *hx.Rng, t any, depth int) any {
	tm, isObj := t.(map[string]any)
	if !isObj || depth <= 0 || r.Chance(1, 12) {
		return genValue(r, depth)
	}
	p := map[string]any{}
	for k, v := range sortedItems(tm) {
		_ = k
		switch r.Intn(7) {
		case 0:
			p[v.k] = nil
		case 1:
			p[v.k] = genScalar(r)
		case 2, 3:
			p[v.k] = genPatchFor(r, v.v, depth-1)
		case 4:
			p[v.k] = genObject(r, depth-1, r.Intn(3))
		}
	}
	for i := r.Intn(3); i > 0; i-- {
		k := hx.Pick(r, keys)
		switch r.Intn(4) {
		case 0:
			p[k] = nil
		case 1:
			p[k] = map[string]any{hx.Pick(r, keys): nil, hx.Pick(r, keys): genValue(r, depth-1)}
		default:
			p[k] = genValue(r, depth-1)
		}
	}
	return p
}

type item struct {
	k string
	v any
}

func sortedItems(m map[string]any) []item {
	out := make([]item, 0, len(m))
	for k, v := range m {
		out = append(out, item{k, v})
	}
	sort.Slice(out, func(i, j int) bool { return out[i].k < out[j].k })
	return out
}

func js(v any) string {
	b, err := json.Marshal(v)
	if err != nil {
		panic(err)
	}
	return string(b)
}

// textWithDuplicates renders an object with some members written twice (encoding/json keeps the last).
func textWithDuplicates(r *hx.Rng, m map[string]any) string {
	var parts []string
	for _, it := range sortedItems(m) {
		if r.Chance(1, 3) {
			parts = append(parts, js(it.k)+":"+js(genValue(r, 1)))
		}
		parts = append(parts, js(it.k)+" :\n"+js(it.v))
	}
	return "{ " + strings.Join(parts, " , ") + " }"
}

func nest(k string, depth int, leaf string) string {
	return strings.Repeat(`{`+js(k)+`:`, depth) + leaf + strings.Repeat(`}`, depth)
}

// ---------- mergeConfigPatch ----------

type edit struct {
	path  []string
	value any
	bad   bool // unknown member or wrongly typed value: strict decoding must refuse the merged document
}

var validEdits = []edit{
	{[]string{"config", "bind"}, "127.0.0.1:25570", false},
	{[]string{"config", "bind"}, nil, false},
	{[]string{"config", "onlineMode"}, false, false},
	{[]string{"config", "status", "showMaxPlayers"}, 42.0, false},
	{[]string{"config", "status", "motd"}, "hello", false},
	{[]string{"config", "status"}, nil, false},
	{[]string{"config", "forwarding", "mode"}, "none", false},
	{[]string{"config", "forwarding", "mode"}, "velocity", false},
	{[]string{"config", "forwarding", "velocitySecret"}, "s3cret", false},
	{[]string{"config", "compression", "threshold"}, -1.0, false},
	{[]string{"config", "compression", "level"}, 9.0, false},
	{[]string{"config", "compression"}, nil, false},
	{[]string{"config", "connectionTimeout"}, "10s", false},
	{[]string{"config", "servers"}, map[string]any{"lobby": "localhost:25566", "pvp": "10.0.0.2:25565"}, false},
	{[]string{"config", "servers", "extra"}, "localhost:30000", false},
	{[]string{"config", "servers", "lobby"}, nil, false},
	{[]string{"config", "try"}, []any{"lobby"}, false},
	{[]string{"config", "lite", "enabled"}, true, false},
	{[]string{"config", "lite", "routes"}, []any{map[string]any{"host": "patched.example.test", "backend": "b.example.test:25565"}}, false},
	{[]string{"config", "lite", "routes"}, []any{map[string]any{"host": []any{"a.example.test", "*.b.example.test"}, "backend": []any{"b1:25565", "b2:25565"}, "strategy": "random"}}, false},
	{[]string{"config", "lite"}, nil, false},
	{[]string{"config", "quota", "connections", "ops"}, 2.5, false},
	{[]string{"config", "quota", "logins", "enabled"}, false, false},
	{[]string{"healthService", "enabled"}, true, false},
	{[]string{"healthService"}, nil, false},
	{[]string{"api", "enabled"}, true, false},
	{[]string{"noAutoReload"}, true, false},
	{[]string{"unknownTop"}, nil, false},                        // null for a member that does not exist: nothing to remove
	{[]string{"config", "unknownOption"}, nil, false},           // ditto, nested
	{[]string{"config", "status", "nope", "deeper"}, nil, true}, // creates {"nope":{}} — an unknown member after all
}
var badEdits = []edit{
	{[]string{"unknownTop"}, true, true},
	{[]string{"config", "unknownOption"}, true, true},
	{[]string{"config", "status", "unknownNested"}, "x", true},
	{[]string{"config", "lite", "routes"}, []any{map[string]any{"host": "h", "backend": "b:1", "bogus": 1.0}}, true},
	{[]string{"config", "Bind"}, "0.0.0.0:1", true}, // field names are case-sensitive in strict mode
	{[]string{"config", "onlineMode"}, "notabool", true},
	{[]string{"config", "status", "showMaxPlayers"}, "many", true},
	{[]string{"config", "bind"}, map[string]any{"host": "x"}, true},
	{[]string{"config", "status"}, []any{1.0}, true},
	{[]string{"config", "servers"}, "flat", true},
	{[]string{"config"}, 7.0, true},
	{[]string{"config", "compression", "level"}, map[string]any{"x": nil}, true},
}

func buildPatch(es []edit) (map[string]any, bool) {
	root := map[string]any{}
	for _, e := range es {
		m := root
		for i, k := range e.path {
			if i == len(e.path)-1 {
				if _, dup := m[k]; dup {
					return nil, false
				}
				m[k] = e.value
				break
			}
			next, ok := m[k]
			if !ok {
				nm := map[string]any{}
				m[k] = nm
				m = nm
				continue
			}
			nm, ok := next.(map[string]any)
			if !ok {
				return nil, false
			}
			m = nm
		}
	}
	return root, true
}

func baseConfigs() []*config.Config {
	a := config.DefaultConfig
	b := config.DefaultConfig
	b.Config.Servers = map[string]string{"lobby": "localhost:25566", "hub": "localhost:25567"}
	b.Config.Try = []string{"lobby", "hub"}
	b.Config.ForcedHosts = map[string][]string{"play.example.test": {"hub"}}
	c := config.DefaultConfig
	c.Config.Lite.Enabled = true
	return []*config.Config{&a, &b, &c}
}

func cfgCase(class string, cur *config.Config, patchText string, exp string) {
	tj, err := gate.C36CanonicalConfigJSON(cur)
	if err != nil {
		panic(err)
	}
	t, _ := decode(string(tj))
	p, ok := decode(patchText)
	pd := "-"
	if ok {
		pd = doc(p)
	}
	rd := "-"
	out := hx.Guard(20*time.Second, func() string {
		cand, err := gate.C36MergeConfigPatch(cur, patchText)
		if err != nil {
			return "rej"
		}
		rj, err := gate.C36CanonicalConfigJSON(cand)
		if err != nil {
			return "rej-encode"
		}
		r, _ := decode(string(rj))
		rd = doc(r)
		return "acc"
	})
	run.Case(class, "cfg "+exp+" "+doc(t)+" "+pd+" "+rd, out)
}

// effCase checks that the merge-patch target is the EFFECTIVE configuration: E = json.Marshal(current)
// (independent of canonicalConfigJSON and of YAML), R = json.Marshal(candidate).  Only patches whose member
// names are the same in both encodings are used here ({} and Lite routes).  Text components are left out
// (their JSON form is re-segmented by a YAML round trip, which is outside this property).
func effCase(class string, cur *config.Config, patchText string) {
	c := *cur
	c.Config.Status.Motd = nil
	c.Config.ShutdownReason = nil
	e, _ := decode(js(&c))
	p, _ := decode(patchText)
	rd := "-"
	out := hx.Guard(20*time.Second, func() string {
		cand, err := gate.C36MergeConfigPatch(&c, patchText)
		if err != nil {
			return "rej"
		}
		r, _ := decode(js(cand))
		rd = doc(r)
		return "acc"
	})
	run.Case(class, "eff "+doc(e)+" "+doc(p)+" "+rd, out)
}

// ---------- sequences of merge patches on ONE config handler ----------
//
// Every request must be answered as if it were the only one: the patch is applied to the configuration in
// effect at that moment, whatever earlier patches were merged and then refused.  The expectation is computed
// with the stateless functions (canonicalConfigJSON, mergeConfigPatch, Validate) on the current snapshot.
//
//	seq <exp> <E> <P> <X> <R>\t<code>    E effective config before, P patch, X expected effective config after,
//	                                      R effective config after (all canonicalConfigJSON documents)

func canonDoc(c *config.Config) string {
	b, err := gate.C36CanonicalConfigJSON(c)
	if err != nil {
		panic(err)
	}
	v, _ := decode(string(b))
	return doc(v)
}

var seqPatches = []string{
	`{}`,
	`{"config":{"lite":{"routes":[{"host":"a.example.test","backend":"a-backend.example.test:25565"}]}}}`,
	`{"config":{"lite":{"routes":[{"host":"b.example.test","backend":"b-backend.example.test:25565"},{"host":"*.c.example.test","backend":"c:25565"}]}}}`,
	`{"config":{"lite":{"routes":[{"host":"play.example.test","backend":"backend.example.test:25565"}]}}}`,
	`{"config":{"bind":"127.0.0.1:25599"}}`,      // restart-required change: refused
	`{"config":{"status":{"showMaxPlayers":7}}}`, // ditto
	`{"config":{"unknownOption":true}}`,          // strict decoding refuses
	`{"unknownTop":{"x":1}}`,                     // ditto
	`{"config":{"lite":{"routes":[]}}}`,          // validation refuses
	`{"config":{"bind":""}}`,                     // validation refuses
	`{"config":{"lite":{"routes":[{"host":"a.example.test","backend":"a-backend.example.test:25565"}]},"bind":"127.0.0.1:25599"}}`,
	`{"config":{"quota":{"logins":{"burst":null}}}}`, // removes a member: refused by validation (burst 0)
	`{"healthService":null}`,
}

func seqSession(r *hx.Rng, steps int) {
	base := config.DefaultConfig
	base.Config.Bind = "127.0.0.1:25565"
	base.Config.Lite.Enabled = true
	base.Config.Lite.Routes = []liteconfig.Route{{Host: []string{"play.example.test"}, Backend: []string{"backend.example.test:25565"}}}
	g, err := gate.New(gate.Options{Config: &base})
	if err != nil {
		panic(err)
	}
	h := gate.NewConfigHandler(g, "")
	for i := 0; i < steps; i++ {
		snap, cur, err := g.ConfigSnapshot()
		if err != nil {
			panic(err)
		}
		patch := hx.Pick(r, seqPatches)
		ifMatch := cur
		if r.Chance(1, 4) {
			ifMatch = "stale-" + cur[:8]
		}
		e := canonDoc(snap)
		exp, x := "invalid_argument", e
		if cand, err := gate.C36MergeConfigPatch(snap, patch); err == nil {
			if _, errs := cand.Validate(); len(errs) == 0 {
				// content equality as the Gate decides it: bytes of json.Marshal
				withRoutes := *snap
				withRoutes.Config.Lite.Routes = cand.Config.Lite.Routes
				switch {
				case ifMatch != cur:
					exp = "failed_precondition"
				case js(cand) == js(snap):
					exp = "ok"
				case js(&withRoutes) == js(cand) && snap.Config.Lite.Enabled: // differs in Lite routes only
					exp, x = "ok", canonDoc(&withRoutes)
				default:
					exp = "failed_precondition"
				}
			}
		}
		p, _ := decode(patch)
		rd := "-"
		out := hx.Guard(20*time.Second, func() string {
			_, code := gate.C35ApplyConfig(h, nil, &patch, ifMatch, false)
			after, _, err := g.ConfigSnapshot()
			if err != nil {
				return "snapshot-error"
			}
			rd = canonDoc(after)
			return code
		})
		run.Case("seq", "seq "+exp+" "+e+" "+doc(p)+" "+x+" "+rd, out)
	}
}

func managedConfigs() []*config.Config {
	var out []*config.Config
	for _, m := range []bconfig.BoolOrManagedGeyser{
		configutil.NewBoolOrStructBool[bconfig.ManagedGeyser](true),
		configutil.NewBoolOrStructBool[bconfig.ManagedGeyser](false),
		configutil.NewBoolOrStructStruct(bconfig.ManagedGeyser{Enabled: true, ConfigOverrides: map[string]any{"bedrock": map[string]any{"port": 19133.0}}}),
		configutil.NewBoolOrStructStruct(bconfig.ManagedGeyser{Enabled: true, Engine: bconfig.ManagedEngineJava, DataDir: "geyser-data"}),
	} {
		c := config.DefaultConfig
		c.Config.Bedrock.Enabled = true
		c.Config.Bedrock.Managed = m
		c.Config.Lite.Enabled = true
		out = append(out, &c)
	}
	return out
}

const routePatch = `{"config":{"lite":{"routes":[{"host":"patched.example.test","backend":"b.example.test:25565"}]}}}`

func main() {
	run = hx.Start()
	r := run.Rng

	// --- fixed: the patch target must be the effective configuration (witness: bedrock.managed was dropped) ---
	for _, c := range append(managedConfigs(), baseConfigs()...) {
		effCase("eff-fixed", c, `{}`)
		effCase("eff-fixed", c, routePatch)
	}

	// --- fixed: RFC 7396 appendix A, then shapes that matter for the Go code ---
	rfc := [][2]string{
		{`{"a":"b"}`, `{"a":"c"}`}, {`{"a":"b"}`, `{"b":"c"}`}, {`{"a":"b"}`, `{"a":null}`},
		{`{"a":"b","b":"c"}`, `{"a":null}`}, {`{"a":["b"]}`, `{"a":"c"}`}, {`{"a":"c"}`, `{"a":["b"]}`},
		{`{"a":{"b":"c"}}`, `{"a":{"b":"d","c":null}}`}, {`{"a":[{"b":"c"}]}`, `{"a":[1]}`},
		{`["a","b"]`, `["c","d"]`}, {`{"a":"b"}`, `["c"]`}, {`{"a":"foo"}`, `null`}, {`{"a":"foo"}`, `"bar"`},
		{`{"e":null}`, `{"a":1}`}, {`[1,2]`, `{"a":"b","c":null}`}, {`{}`, `{"a":{"bb":{"ccc":null}}}`},
	}
	for _, c := range rfc {
		mergeCase("fixed-rfc", c[0], c[1])
	}
	fixed := [][2]string{
		{`null`, `null`}, {`null`, `{}`}, {`{}`, `{}`}, {`5`, `{"a":{"b":null}}`}, {`{"a":1}`, `{"a":{"b":null,"c":{"d":null}}}`},
		{`{"a":{"b":1}}`, `{"a":[null,{"x":null}]}`}, {`{"a":null,"b":null}`, `{"b":null,"c":[null]}`},
		{`{"":{"":1}}`, `{"":{"":null}}`}, {`{"a":{"b":{"c":{"d":1,"e":2}}}}`, `{"a":{"b":{"c":{"d":null}}}}`},
		{`{"a":1,"a":{"x":1}}`, `{"a":{"x":null},"a":{"y":2}}`}, {`{"a":false}`, `{"a":false}`}, {`{"a":0}`, `{"a":""}`},
		{`{"a":{"b":1}}`, `{"a":{}}`}, {`{"a":[1,2,3]}`, `{"a":[]}`}, {`[{"a":1}]`, `{"0":{"a":null}}`},
		{`{"A":1}`, `{"a":null}`}, {`{"a":{"b":1},"c":2}`, `{"a":5,"c":{"d":null}}`},
	}
	for _, c := range fixed {
		mergeCase("fixed-shape", c[0], c[1])
	}
	for _, d := range []int{1, 2, 10, 60} {
		mergeCase("fixed-deep", nest("a", d, `{"k":1,"z":2}`), nest("a", d, `{"k":null,"n":{"m":null}}`))
		mergeCase("fixed-deep", `{"q":1}`, nest("a", d, `null`))
		mergeCase("fixed-deep", nest("a", d, `1`), nest("a", d+1, `null`))
	}

	// --- histories: several merge patches on one handler, refused ones must leave no trace ---
	{
		fixed := hx.NewRng(7)
		seqSession(fixed, 30)
	}
	for i := run.Scale(12, 150); i > 0; i-- {
		seqSession(r, run.Scale(25, 40))
	}

	// --- structured: patch derived from the target ---
	n := run.Scale(2500, 20000)
	for i := 0; i < n; i++ {
		depth := 1 + r.Intn(4)
		var t any = genObject(r, depth, 1+r.Intn(5))
		if r.Chance(1, 15) {
			t = genValue(r, depth)
		}
		p := genPatchFor(r, t, depth+1)
		mergeCase("derived", js(t), js(p))
	}
	// --- independent random documents (any value on either side) ---
	n = run.Scale(1200, 10000)
	for i := 0; i < n; i++ {
		mergeCase("random", js(genValue(r, 1+r.Intn(4))), js(genValue(r, 1+r.Intn(4))))
	}
	// --- hostile: duplicate member names in the text, wide objects, nulls in arrays ---
	n = run.Scale(500, 4000)
	for i := 0; i < n; i++ {
		t := genObject(r, 2, 2+r.Intn(5))
		p, _ := genPatchFor(r, t, 3).(map[string]any)
		if p == nil {
			p = genObject(r, 2, 3)
		}
		mergeCase("dupkeys", textWithDuplicates(r, t), textWithDuplicates(r, p))
	}
	for i := 0; i < run.Scale(6, 40); i++ {
		w := 50 + r.Intn(300)
		t, p := map[string]any{}, map[string]any{}
		for j := 0; j < w; j++ {
			k := "w" + strconv.Itoa(r.Intn(w))
			t[k] = genValue(r, 1)
			if r.Bool() {
				p["w"+strconv.Itoa(r.Intn(w))] = hx.Pick(r, []any{nil, 1.0, map[string]any{"x": nil}, []any{nil}})
			}
		}
		mergeCase("wide", js(t), js(p))
	}

	// --- mergeConfigPatch end to end ---
	bases := baseConfigs()
	for _, b := range bases {
		cfgCase("cfg-fixed", b, `{}`, "a")
		cfgCase("cfg-fixed", b, `{"config":{"unknownOption":true}}`, "r")
		cfgCase("cfg-fixed", b, `{"config":{"status":{"showMaxPlayers":42},"forwarding":{"mode":"none"}}}`, "a")
		cfgCase("cfg-fixed", b, `{"config":{"bind":null}}`, "a")
		cfgCase("cfg-fixed", b, `null`, "u")
		cfgCase("cfg-fixed", b, `[1]`, "r")
		cfgCase("cfg-fixed", b, `"x"`, "r")
		cfgCase("cfg-fixed", b, `{"config":`, "r") // not JSON at all
		cfgCase("cfg-fixed", b, `{} {}`, "r")
		for _, e := range validEdits {
			if p, ok := buildPatch([]edit{e}); ok {
				exp := "a"
				if e.bad {
					exp = "r"
				}
				cfgCase("cfg-valid-edit", b, js(p), exp)
			}
		}
		for _, e := range badEdits {
			if p, ok := buildPatch([]edit{e}); ok {
				cfgCase("cfg-bad-edit", b, js(p), "r")
			}
		}
	}
	n = run.Scale(150, 1500)
	for i := 0; i < n; i++ {
		var es []edit
		bad := false
		for j := 1 + r.Intn(4); j > 0; j-- {
			e := hx.Pick(r, validEdits)
			if r.Chance(1, 5) {
				e = hx.Pick(r, badEdits)
			}
			es = append(es, e)
		}
		p, ok := buildPatch(es)
		if !ok {
			continue
		}
		for _, e := range es {
			bad = bad || e.bad
		}
		exp := "a"
		if bad {
			exp = "r"
		}
		cfgCase("cfg-random", hx.Pick(r, bases), js(p), exp)
	}
	run.Finish()
}
