// C29 correspondence harness: drives the real Lite route matching code
// (matchWithGroups/match, ClearVirtualHost, FindRouteWithGroups, substituteBackendParams, findRoute, Forward).
package main

import (
	"context"
	"fmt"
	"net"
	"strconv"
	"strings"
	"sync/atomic"
	"time"

	"github.com/go-logr/logr"
	"go.minekube.com/gate/pkg/edition/java/lite"
	"go.minekube.com/gate/pkg/edition/java/lite/config"
	"go.minekube.com/gate/pkg/edition/java/netmc"
	"go.minekube.com/gate/pkg/edition/java/proto/packet"
	"go.minekube.com/gate/pkg/gate/proto"

	"verifharness/hx"
)

const guard = 10 * time.Second

// ---------- canonical output ----------

func hexList(xs []string) string {
	if len(xs) == 0 {
		return "_"
	}
	q := make([]string, len(xs))
	for i, x := range xs {
		q[i] = hx.HexS(x)
	}
	return strings.Join(q, ",")
}

func routesArg(rs []config.Route) string {
	if len(rs) == 0 {
		return "_"
	}
	q := make([]string, len(rs))
	for i, r := range rs {
		q[i] = hexList(r.Host) + "|" + hexList(r.Backend)
	}
	return strings.Join(q, ";")
}

func routeIndex(rs []config.Route, r *config.Route) int {
	for i := range rs {
		if &rs[i] == r {
			return i
		}
	}
	return -1
}

// ---------- ops on the real code ----------

func opMatch(run *hx.Run, class, host, pat string) {
	out := hx.Guard(guard, func() string {
		ok, gs := lite.C29MatchWithGroups(host, pat)
		b := lite.C29Match(host, pat)
		s := "no"
		if ok {
			s = "ok " + hexList(gs)
		}
		if b {
			return s + " b=1"
		}
		return s + " b=0"
	})
	run.Case(class, "m "+hx.HexS(host)+" "+hx.HexS(pat), out)
}

func opClear(run *hx.Run, class, raw string) {
	out := hx.Guard(guard, func() string { return hx.HexS(lite.ClearVirtualHost(raw)) })
	run.Case(class, "clr "+hx.HexS(raw), out)
}

func opFindRouteWG(run *hx.Run, class, host string, rs []config.Route) {
	out := hx.Guard(guard, func() string {
		p, r, gs := lite.FindRouteWithGroups(host, rs...)
		if r == nil {
			return "none"
		}
		return fmt.Sprintf("r=%d p=%s g=%s", routeIndex(rs, r), hx.HexS(p), hexList(gs))
	})
	run.Case(class, "fr "+hx.HexS(host)+" "+routesArg(rs), out)
}

func opSub(run *hx.Run, class, tmpl string, groups []string) {
	out := hx.Guard(guard, func() string { return hx.HexS(lite.C29SubstituteBackendParams(tmpl, groups)) })
	run.Case(class, "sub "+hx.HexS(tmpl)+" "+hexList(groups), out)
}

// tokenised template: l<hexbyte> literal byte, r<k> parameter reference
func opSubTokens(run *hx.Run, class string, toks []string, groups []string) {
	var sb strings.Builder
	for _, t := range toks {
		if t[0] == 'l' {
			sb.Write(hx.UnHex(t[1:]))
		} else {
			sb.WriteString("$" + t[1:])
		}
	}
	tmpl := sb.String()
	out := hx.Guard(guard, func() string { return hx.HexS(lite.C29SubstituteBackendParams(tmpl, groups)) })
	run.Case(class, "subt "+strings.Join(toks, ",")+" "+hexList(groups), out)
}

type fakeClient struct {
	netmc.MinecraftConn // nil: only the methods below are used by lite.findRoute / lite.Forward
	c                   net.Conn
	closed              atomic.Int32
}

func (f *fakeClient) Conn() net.Conn           { return f.c }
func (f *fakeClient) Context() context.Context { return context.Background() }
func (f *fakeClient) Close() error             { f.closed.Add(1); return f.c.Close() }

type stubConn struct{ net.Conn }

func (stubConn) RemoteAddr() net.Addr { return &net.TCPAddr{IP: net.IPv4(192, 0, 2, 7), Port: 50000} }
func (stubConn) Close() error         { return nil }

func opRoute(run *hx.Run, class, raw string, rs []config.Route) {
	out := hx.Guard(guard, func() string {
		fc := &fakeClient{c: stubConn{}}
		hs := &packet.Handshake{ProtocolVersion: 765, ServerAddress: raw, Port: 25565, NextStatus: 2}
		r, p, next, err := lite.C29FindRoute(rs, logr.Discard(), fc, hs, lite.NewStrategyManager())
		if r == nil {
			if err == nil || next != nil {
				return "noroute-but-no-error"
			}
			return "noroute"
		}
		if next == nil {
			if err == nil {
				return "nobackend-but-no-error"
			}
			return fmt.Sprintf("nobackend r=%d p=%s", routeIndex(rs, r), hx.HexS(p))
		}
		var cands []string
		for i := 0; i < len(r.Backend); i++ {
			a, ok := next()
			if !ok {
				break
			}
			cands = append(cands, a)
		}
		return fmt.Sprintf("cands r=%d p=%s %s", routeIndex(rs, r), hx.HexS(p), hexList(cands))
	})
	run.Case(class, "route "+hx.HexS(raw)+" "+routesArg(rs), out)
}

// end to end through lite.Forward with one loopback backend: how many connections reach the backend,
// and is the client closed.
func opForward(run *hx.Run, class, raw, pat string) {
	out := hx.Guard(30*time.Second, func() string {
		ln, err := net.Listen("tcp", "127.0.0.1:0")
		if err != nil {
			return "listen-failed"
		}
		defer ln.Close()
		tl := ln.(*net.TCPListener)
		rs := []config.Route{{Host: []string{pat}, Backend: []string{ln.Addr().String()}}}
		clientSide, proxySide := net.Pipe()
		defer clientSide.Close()
		fc := &fakeClient{c: proxySide}
		hs := &packet.Handshake{ProtocolVersion: 765, ServerAddress: raw, Port: 25565, NextStatus: 2}
		pc := &proto.PacketContext{Direction: proto.ServerBound, Protocol: 765, PacketID: 0, Payload: []byte{0, 1, 2}}
		done := make(chan struct{})
		go func() {
			defer close(done)
			defer func() { _ = recover() }()
			lite.Forward(10*time.Minute, rs, logr.Discard(), fc, hs, pc, lite.NewStrategyManager())
		}()
		dials := 0
		var accepted []net.Conn
		// phase 1: either Forward returns (no route) or a connection arrives
		select {
		case <-done:
		case <-time.After(50 * time.Millisecond):
		}
		for {
			_ = tl.SetDeadline(time.Now().Add(150 * time.Millisecond))
			select {
			case <-done:
				_ = tl.SetDeadline(time.Now().Add(20 * time.Millisecond))
			default:
			}
			c, err := tl.Accept()
			if err != nil {
				break
			}
			dials++
			accepted = append(accepted, c)
			if dials > 4 {
				break
			}
		}
		for _, c := range accepted {
			_ = c.Close()
		}
		_ = clientSide.Close()
		select {
		case <-done:
		case <-time.After(8 * time.Second):
			return fmt.Sprintf("dials=%d forward-did-not-return", dials)
		}
		closed := 0
		if fc.closed.Load() > 0 {
			closed = 1
		}
		return fmt.Sprintf("dials=%d closed=%d", dials, closed)
	})
	run.Case(class, "fwd "+hx.HexS(raw)+" "+hx.HexS(pat), out)
}

// ---------- generators ----------

var asciiLower = strings.Split("a b c d e x y z m c o", " ")
var asciiUpper = strings.Split("A B C X Z M I K S", " ")
var digits = strings.Split("0 1 2 3 9", " ")
var metas = strings.Split(`\ . + * ? ( ) | [ ] { } ^ $`, " ")
var controls = []string{"\n", "\r", "\t", "\x01", "\x7f", " ", "\x1b"}
var nonASCII = []string{"ß", "é", "É", "ı", "İ", "\u212a", "Å", "Ω", "ω", "Ⱥ", "ⱥ", "Ÿ", "ÿ", "Ж", "ж", "Σ", "σ", "ς", "𐐀", "𐐨", "Ａ", "ａ", "中", "😀", "\ufffd", "\u00a0", "\u0085", "\u2028", "ẞ", "Ā", "ā", "Ō"}
var invalid = []string{"\x80", "\xbf", "\xc0", "\xc1", "\xf5", "\xff", "\xc3", "\xe2\x82", "\xf0\x9f", "\xed\xa0\x80", "\xe0\x80\x80", "\xf4\x90\x80\x80"}

type alpha struct {
	lower, upper, digit, dot, dash, meta, ctrl, uni, inval, nul, slash int // weights
}

var plainAlpha = alpha{lower: 40, upper: 4, digit: 8, dot: 14, dash: 3}
var mixedAlpha = alpha{lower: 24, upper: 10, digit: 6, dot: 10, dash: 2, meta: 8, ctrl: 3, uni: 10, inval: 0}
var hostileAlpha = alpha{lower: 10, upper: 6, digit: 4, dot: 8, dash: 1, meta: 14, ctrl: 8, uni: 12, inval: 10, nul: 1, slash: 2}

func (a alpha) pick(r *hx.Rng) string {
	tot := a.lower + a.upper + a.digit + a.dot + a.dash + a.meta + a.ctrl + a.uni + a.inval + a.nul + a.slash
	k := r.Intn(tot)
	sel := func(w int) bool {
		if k < w {
			return true
		}
		k -= w
		return false
	}
	switch {
	case sel(a.lower):
		return hx.Pick(r, asciiLower)
	case sel(a.upper):
		return hx.Pick(r, asciiUpper)
	case sel(a.digit):
		return hx.Pick(r, digits)
	case sel(a.dot):
		return "."
	case sel(a.dash):
		return "-"
	case sel(a.meta):
		return hx.Pick(r, metas)
	case sel(a.ctrl):
		return hx.Pick(r, controls)
	case sel(a.uni):
		return hx.Pick(r, nonASCII)
	case sel(a.inval):
		return hx.Pick(r, invalid)
	case sel(a.nul):
		return "\x00"
	default:
		return "/"
	}
}

func pickAlpha(r *hx.Rng) alpha {
	switch r.Intn(5) {
	case 0, 1:
		return plainAlpha
	case 2, 3:
		return mixedAlpha
	default:
		return hostileAlpha
	}
}

// a host as a list of "characters" (each element one rune or one invalid byte sequence)
func genHostToks(r *hx.Rng, a alpha, maxLen int) []string {
	n := 0
	switch r.Intn(8) {
	case 0:
		n = 0
	case 1:
		n = 1
	default:
		n = 1 + r.Intn(maxLen)
	}
	t := make([]string, n)
	for i := range t {
		t[i] = a.pick(r)
	}
	return t
}

func flipCase(r *hx.Rng, s string) string {
	if !r.Chance(1, 3) {
		return s
	}
	up, lo := strings.ToUpper(s), strings.ToLower(s)
	if s != up && r.Bool() {
		// only switch to an upper-case form whose lower-casing is inside the driver's table
		switch up {
		case "SS": // ß upper-cases to two letters
			return s
		}
		return up
	}
	return lo
}

// derive a pattern from host tokens: spans become '*', single tokens '?', case flips, occasional damage
const maxStars = 5 // bounds the model matcher's backtracking

func genPatternFrom(r *hx.Rng, toks []string, a alpha) string {
	var sb strings.Builder
	i := 0
	stars := 0
	for i < len(toks) {
		k := r.Intn(12)
		if k <= 1 && stars >= maxStars-1 {
			k = 2
		}
		switch k {
		case 0, 1: // star swallowing 0..3 tokens
			sb.WriteString("*")
			stars++
			i += r.Intn(4)
		case 2:
			sb.WriteString("?")
			i++
		case 3:
			if r.Chance(1, 4) { // damage: wrong literal
				sb.WriteString(a.pick(r))
				i++
			} else {
				sb.WriteString(flipCase(r, toks[i]))
				i++
			}
		default:
			t := toks[i]
			if t == "*" || t == "?" {
				// a literal '*' or '?' in the host cannot be written literally in a glob; let a wildcard take it
				sb.WriteString("?")
			} else {
				sb.WriteString(flipCase(r, t))
			}
			i++
		}
	}
	if r.Chance(1, 6) {
		sb.WriteString("*")
	}
	if r.Chance(1, 10) {
		sb.WriteString(hx.Pick(r, []string{"?", "x", ".", "**", "*?"}))
	}
	return sb.String()
}

func genRandomPattern(r *hx.Rng, a alpha) string {
	n := r.Intn(7)
	var sb strings.Builder
	stars := 0
	for i := 0; i < n; i++ {
		k := r.Intn(5)
		if k == 0 && stars >= maxStars-1 {
			k = 1
		}
		switch k {
		case 0:
			stars++
			sb.WriteString("*")
		case 1:
			sb.WriteString("?")
		default:
			sb.WriteString(a.pick(r))
		}
	}
	return sb.String()
}

func genGroup(r *hx.Rng) string {
	switch r.Intn(10) {
	case 0:
		return ""
	case 1:
		return "$" + strconv.Itoa(1+r.Intn(12))
	case 2:
		return strconv.Itoa(r.Intn(30)) + hx.Pick(r, asciiLower)
	case 3:
		return "$"
	case 4:
		return hx.Pick(r, nonASCII) + "$1"
	default:
		n := 1 + r.Intn(5)
		var sb strings.Builder
		for i := 0; i < n; i++ {
			sb.WriteString(mixedAlpha.pick(r))
		}
		return sb.String()
	}
}

func genGroups(r *hx.Rng) []string {
	n := 0
	switch r.Intn(8) {
	case 0:
		n = 0
	case 1:
		n = 10 + r.Intn(4)
	default:
		n = 1 + r.Intn(4)
	}
	g := make([]string, n)
	for i := range g {
		g[i] = genGroup(r)
	}
	return g
}

var tmplLits = strings.Split("a b . - : 0 1 2 5 _ s v c é", " ")

var routeLits = strings.Split("a b . - 0 1 2 5 _ s v c é", " ") // no ':' — the port suffix is added separately

func genTemplateToks(r *hx.Rng, ngroups int, hostile bool) []string {
	return genTemplateToksFrom(r, ngroups, hostile, tmplLits)
}

func genTemplateToksFrom(r *hx.Rng, ngroups int, hostile bool, lits []string) []string {
	n := 1 + r.Intn(7)
	var t []string
	for i := 0; i < n; i++ {
		switch {
		case r.Chance(2, 5):
			k := 1 + r.Intn(ngroups+2)
			if hostile && r.Chance(1, 8) {
				k = r.Intn(3) * 10
			}
			t = append(t, "r"+strconv.Itoa(k))
		case hostile && r.Chance(1, 6):
			t = append(t, "l24") // a stray '$'
		default:
			for _, b := range []byte(hx.Pick(r, lits)) {
				t = append(t, fmt.Sprintf("l%02x", b))
			}
		}
	}
	return t
}

func renderToks(toks []string) string {
	var sb strings.Builder
	for _, t := range toks {
		if t[0] == 'l' {
			sb.Write(hx.UnHex(t[1:]))
		} else {
			sb.WriteString("$" + t[1:])
		}
	}
	return sb.String()
}

func genRoutes(r *hx.Rng, hostToks []string, a alpha) []config.Route {
	n := r.Intn(5)
	if r.Chance(1, 12) {
		n = 0
	}
	rs := make([]config.Route, 0, n)
	for i := 0; i < n; i++ {
		var rt config.Route
		nh := 1 + r.Intn(3)
		if r.Chance(1, 15) {
			nh = 0
		}
		for j := 0; j < nh; j++ {
			switch r.Intn(4) {
			case 0:
				rt.Host = append(rt.Host, genRandomPattern(r, a))
			case 1:
				rt.Host = append(rt.Host, genPatternFrom(r, genHostToks(r, a, 8), a))
			default:
				rt.Host = append(rt.Host, genPatternFrom(r, hostToks, a))
			}
		}
		nb := 1 + r.Intn(3)
		if r.Chance(1, 10) {
			nb = 0
		}
		// distinct explicit ports: the candidate list is observed through the per-attempt selector, which (C30)
		// skips entries denoting an already tried backend; distinct ports keep every entry a distinct backend
		for j := 0; j < nb; j++ {
			rt.Backend = append(rt.Backend, renderToks(genTemplateToksFrom(r, 3, false, routeLits))+":"+strconv.Itoa(25561+j))
		}
		rs = append(rs, rt)
	}
	return rs
}

func wrapRaw(r *hx.Rng, host string) string {
	s := host
	if r.Chance(1, 3) {
		s = strings.Repeat(".", r.Intn(3)) + s + strings.Repeat(".", r.Intn(3))
	}
	switch r.Intn(8) {
	case 0:
		s += "\x00FML\x00"
	case 1:
		s += "\x00FML2\x00"
	case 2:
		s += "///203.0.113.9:4711///1700000000"
	case 3:
		s += "///203.0.113.9:4711///1700000000\x00FML\x00"
	case 4:
		s += ".\x00FORGE"
	case 5:
		s += "//x/" + hx.Pick(r, []string{"//", "/", "///", ""})
	}
	return s
}

func noAddrBreakers(toks []string) []string {
	out := make([]string, 0, len(toks))
	for _, t := range toks {
		if strings.ContainsAny(t, "[]:") {
			continue
		}
		out = append(out, t)
	}
	return out
}

func main() {
	run := hx.Start()
	r := run.Rng

	// ---- fixed regression cases first (witnesses of the defects found, boundary table) ----
	for _, c := range [][2]string{
		{"a\nb", "*"}, {"\n", "?"}, {"a\nb", "a\nb"}, {"x\n.example.com", "*.example.com"}, {"\r\n", "*"},
		{"", ""}, {"", "*"}, {"", "?"}, {"a", ""}, {"a", "a"}, {"A", "a*"}, {"a", "A*"}, {"ab", "*b"}, {"aXbXc", "*X*"},
		{"abc.example.COm", "*.Example.Com"}, {"exampleXcom", "example.com"}, {"a.b", "a?b"}, {"(.)", "(.)"},
		{"ab", "a*?"}, {"\\x", "\\?"}, {"x", "\\?"}, {"\\", "\\"}, {"\\\\", "\\*"}, {"a*b", "a?b"}, {"a?b", "a*b"},
		{"\xff", "?"}, {"\xff", "�"}, {"a\xffb", "a?b"}, {"İ", "i"}, {"İ", "?"}, {"K", "k"}, {"é", "?"}, {"é", "??"},
		{"É.example.com", "é.*"}, {"😀.x", "?.x"}, {"aaa", "*a"}, {"aaa", "*a*"}, {"aaa", "a*a*a*a"}, {"abcabc", "*b*c"},
		{"[a]", "[a]"}, {"a+", "a+"}, {"a|b", "a|b"}, {"^a$", "^a$"}, {"{2}", "{2}"}, {"a.b.c", "*.*"}, {"a..b", "*.*.*"},
	} {
		opMatch(run, "fixed-match", c[0], c[1])
	}
	for _, c := range []struct {
		t string
		g []string
	}{
		{"$2-$1", []string{"x", "$1"}}, {"$$21", []string{"X", "1"}}, {"$$21", []string{"X", ""}},
		{"$1$12", []string{"a", "b", "c", "d", "e", "f", "g", "h", "i", "j", "k", "0x"}},
		{"$1.svc:25565", []string{"abc"}}, {"$1", nil}, {"$3", []string{"a", "b"}}, {"$0$1", []string{"a"}},
		{"$10", []string{"a"}}, {"$10", []string{"a", "b", "c", "d", "e", "f", "g", "h", "i", "j"}}, {"x", []string{"y"}},
		{"", []string{"y"}}, {"$", []string{"y"}}, {"$1$1", []string{"$1"}}, {"é$1é", []string{"ü"}},
	} {
		opSub(run, "fixed-sub", c.t, c.g)
	}
	for _, s := range []string{"", ".", "..", "a", ".a.", "..a.b..", "a\x00FML\x00", "a.\x00FML\x00", "a///1.2.3.4///1", "a.///x\x00y",
		"a\x00b///c", "a//b", "a///", "///a", "\x00", "a./", "./.", "a\xff.\x00", "....\x00"} {
		opClear(run, "fixed-clear", s)
	}
	fixedRoutes := []config.Route{
		{Host: []string{"a.*", "*.Example.com"}, Backend: []string{"$1:1", "b-$1.svc:25565"}},
		{Host: []string{"*"}, Backend: []string{"fallback:25565"}},
		{Host: []string{"never"}, Backend: nil},
	}
	for _, h := range []string{"B.example.com", "a.x", "zzz", "", "x\ny", "B.example.com.\x00FML\x00", ".a.b///1.1.1.1///2"} {
		opFindRouteWG(run, "fixed-fr", h, fixedRoutes)
		opRoute(run, "fixed-route", h, fixedRoutes)
	}
	opRoute(run, "fixed-route", "never", fixedRoutes[2:])
	opRoute(run, "fixed-route", "x", nil)
	opRoute(run, "fixed-route", "a.$1", []config.Route{{Host: []string{"*.*"}, Backend: []string{"$2-$1"}}})
	for _, c := range [][2]string{{"play.example.com", "*.example.com"}, {"other.org", "*.example.com"}, {"a\nb", "*"}, {"", "x"}, {"x.\x00FML\x00", "X"}} {
		opForward(run, "fixed-fwd", c[0], c[1])
	}

	// ---- generated: match ----
	nMatch := run.Scale(9000, 120000)
	for i := 0; i < nMatch; i++ {
		a := pickAlpha(r)
		toks := genHostToks(r, a, run.Scale(14, 40))
		host := strings.Join(toks, "")
		var pat, class string
		switch r.Intn(6) {
		case 0:
			pat, class = genRandomPattern(r, a), "match-random"
		case 1:
			pat, class = genPatternFrom(r, genHostToks(r, a, 10), a), "match-other"
		default:
			pat, class = genPatternFrom(r, toks, a), "match-derived"
		}
		opMatch(run, class, host, pat)
	}
	// several wildcards over repetitive text (backtracking depth; the model's matcher is exponential in
	// the number of stars on repetitive text, Go's is not, so sizes are bounded: ≤ 4 stars × ≤ 24 repeats)
	for i := 0; i < run.Scale(200, 3000); i++ {
		n := 1 + r.Intn(24)
		host := strings.Repeat(hx.Pick(r, []string{"a", "ab", "a.", "é"}), n) + hx.Pick(r, []string{"", "b", "\n"})
		unit := hx.Pick(r, []string{"*a", "*", "?*", "*a*"})
		k := 1 + r.Intn(4)
		if unit == "*a*" {
			k = 1 + r.Intn(2)
		}
		pat := strings.Repeat(unit, k) + hx.Pick(r, []string{"", "b", "c"})
		opMatch(run, "match-deep", host, pat)
	}

	// ---- generated: clear ----
	for i := 0; i < run.Scale(1500, 20000); i++ {
		a := pickAlpha(r)
		a.nul, a.slash, a.dot = a.nul+3, a.slash+12, a.dot+10
		opClear(run, "clear", wrapRaw(r, strings.Join(genHostToks(r, a, 12), "")))
	}

	// ---- generated: substitution ----
	for i := 0; i < run.Scale(2500, 40000); i++ {
		gs := genGroups(r)
		hostile := r.Chance(1, 3)
		toks := genTemplateToks(r, len(gs), hostile)
		if hostile {
			opSub(run, "sub-hostile", renderToks(toks), gs)
		} else {
			opSubTokens(run, "sub-tokens", toks, gs)
		}
	}

	// ---- generated: route search and candidate list ----
	for i := 0; i < run.Scale(2500, 40000); i++ {
		a := pickAlpha(r)
		toks := genHostToks(r, a, 12)
		opFindRouteWG(run, "findroute", strings.Join(toks, ""), genRoutes(r, toks, a))
	}
	for i := 0; i < run.Scale(2500, 40000); i++ {
		a := pickAlpha(r)
		a.nul = 0
		toks := noAddrBreakers(genHostToks(r, a, 12))
		host := strings.Join(toks, "")
		opRoute(run, "route", wrapRaw(r, host), genRoutes(r, toks, a))
	}

	// ---- end to end: no route ⇒ no dial ----
	for i := 0; i < run.Scale(24, 200); i++ {
		a := plainAlpha
		if r.Chance(1, 3) {
			a = mixedAlpha
		}
		toks := genHostToks(r, a, 10)
		var pat string
		if r.Bool() {
			pat = genPatternFrom(r, toks, a)
		} else {
			pat = genRandomPattern(r, a)
		}
		opForward(run, "forward", wrapRaw(r, strings.Join(toks, "")), pat)
	}

	run.Finish()
}
