// C24 correspondence harness: drives the real clientConfigSessionHandler / clientPlaySessionHandler
// plugin-message paths (through export_verif_c24.go) over recording connections.
package main

import (
	"fmt"
	"strconv"
	"strings"
	"sync"
	"time"

	"go.minekube.com/gate/pkg/edition/java/config"
	"go.minekube.com/gate/pkg/edition/java/proto/packet"
	"go.minekube.com/gate/pkg/edition/java/proto/packet/plugin"
	"go.minekube.com/gate/pkg/edition/java/proto/state"
	"go.minekube.com/gate/pkg/edition/java/proto/version"
	"go.minekube.com/gate/pkg/edition/java/proxy"
	"go.minekube.com/gate/pkg/edition/java/proxy/phase"
	"go.minekube.com/gate/pkg/gate/proto"

	"verifharness/c18/rc"
	"verifharness/hx"
)

const nB = 4

type side struct {
	client *rc.Conn
	player *proxy.C24Player
	conns  [nB]*rc.Conn
	scs    [nB]*proxy.C24ServerConn
	seen   [nB]int
	seenC  int
	next   int
}

type world struct {
	px   *proxy.Proxy
	c    side
	cfg  *proxy.C24Config
	p    side
	play *proxy.C24Play
}

var zeros = make([]byte, 5<<20)

func newSide(px *proxy.Proxy, name string, st *state.Registry, pr proto.Protocol, ph phase.BackendConnectionPhase) side {
	s := side{client: rc.New(st, pr)}
	s.player = proxy.C24NewPlayer(px, s.client, name)
	for i := range s.conns {
		s.conns[i] = rc.New(st, pr)
		s.scs[i] = proxy.C24NewServerConn(s.player, name+strconv.Itoa(i), s.conns[i], ph)
	}
	return s
}

func newWorld() *world {
	cfg := config.DefaultConfig
	px, err := proxy.New(proxy.Options{Config: &cfg})
	if err != nil {
		panic(err)
	}
	w := &world{px: px}
	w.c = newSide(px, "alice", state.Config, version.Minecraft_1_20_3.Protocol, phase.UnknownBackendPhase)
	w.cfg = proxy.C24NewConfigHandler(w.c.player)
	w.p = newSide(px, "bob", state.Play, version.Minecraft_1_12_2.Protocol, phase.VanillaBackendPhase)
	w.play = proxy.C24NewPlayHandler(w.p.player)
	return w
}

// events collects what happened on the backend connections (plugin messages and flushes) and whether
// the client connection was closed, since the last call.
func (s *side) events() string {
	var out []string
	for i, c := range s.conns {
		for _, e := range c.Log(s.seen[i]) {
			s.seen[i]++
			switch e.Kind {
			case "wp", "bp":
				pm, ok := e.Packet.(*plugin.Message)
				if !ok {
					continue
				}
				k := "w"
				if e.Kind == "bp" {
					k = "b"
				}
				idx := strings.TrimPrefix(pm.Channel, "v:m")
				if _, err := strconv.Atoi(idx); err != nil {
					idx = "999999999" // a plugin message the harness did not send
				}
				out = append(out, fmt.Sprintf("%d:%s:%s", i, k, idx))
			case "flush":
				out = append(out, fmt.Sprintf("%d:f", i))
			}
		}
	}
	for _, e := range s.client.Log(s.seenC) {
		s.seenC++
		if e.Kind == "close" {
			out = append(out, "D")
		}
	}
	if len(out) == 0 {
		return "-"
	}
	return strings.Join(out, ",")
}

func b01(b bool) string {
	if b {
		return "1"
	}
	return "0"
}

func (w *world) cfgLine(err bool) string {
	n, by, ov := w.cfg.Queue()
	r := "-"
	for i, sc := range w.c.scs {
		if w.cfg.ReadyIs(sc) {
			r = strconv.Itoa(i)
		}
	}
	e := ""
	if err {
		e = "e "
	}
	return fmt.Sprintf("%s%s q=%d,%d,%s r=%s", e, w.c.events(), n, by, b01(ov), r)
}
func (w *world) playLine() string {
	n, by, ov := w.play.Queue()
	return fmt.Sprintf("%s q=%d,%d,%s", w.p.events(), n, by, b01(ov))
}

func (w *world) apply(op string) string {
	f := strings.Fields(op)
	atoi := func(s string) int { v, _ := strconv.Atoi(s); return v }
	csc := func(s string) *proxy.C24ServerConn {
		if s == "-" {
			return nil
		}
		return w.c.scs[atoi(s)]
	}
	psc := func(s string) *proxy.C24ServerConn {
		if s == "-" {
			return nil
		}
		return w.p.scs[atoi(s)]
	}
	switch f[0] {
	case "caps":
		return fmt.Sprintf("%d %d", proxy.C24MaxMessages(), proxy.C24MaxBytes())
	case "cmsg":
		w.cfg.HandlePluginMessage("v:m"+f[1], zeros[:atoi(f[2])])
		return w.cfgLine(false)
	case "cburst":
		for k := 0; k < atoi(f[2]); k++ {
			w.cfg.HandlePluginMessage("v:m"+strconv.Itoa(atoi(f[1])+k), zeros[:atoi(f[3])])
		}
		return w.cfgLine(false)
	case "cflush":
		return w.cfgLine(w.cfg.Flush(csc(f[1])))
	case "cflushrace":
		// flushQueuedPluginMessagesTo(s) with the client read loop handling one more plugin message while
		// the flush is in the middle of its first backend write
		s, idx, n := atoi(f[1]), f[2], atoi(f[3])
		var once sync.Once
		clientDone := make(chan struct{})
		started := false
		w.c.conns[s].OnEntry = func(rc.Entry) {
			once.Do(func() {
				started = true
				go func() {
					defer close(clientDone)
					w.cfg.HandlePluginMessage("v:m"+idx, zeros[:n])
				}()
				select { // give the client message every chance to get in (it cannot while h.mu is held)
				case <-clientDone:
				case <-time.After(25 * time.Millisecond):
				}
			})
		}
		err := w.cfg.Flush(csc(f[1]))
		w.c.conns[s].OnEntry = nil
		if started {
			<-clientDone
		} else {
			w.cfg.HandlePluginMessage("v:m"+idx, zeros[:n])
		}
		return w.cfgLine(err)
	case "clogin":
		// handleServerLoginSuccess flushes the config queue only if the client's active handler is the
		// config handler; with the client in PLAY it calls doSwitch instead (no flush)
		if f[2] == "cfg" {
			return w.cfgLine(w.cfg.Flush(csc(f[1])))
		}
		return w.cfgLine(false)
	case "cfinish":
		w.cfg.BackendFinish(csc(f[1]))
		return w.cfgLine(false)
	case "ccur":
		proxy.C24SetConnectedServer(w.c.player, csc(f[1]))
		return w.cfgLine(false)
	case "cinfl":
		proxy.C24SetInFlight(w.c.player, csc(f[1]))
		return w.cfgLine(false)
	case "cconn":
		if f[2] == "1" {
			proxy.C24SetBackendConn(w.c.scs[atoi(f[1])], w.c.conns[atoi(f[1])])
		} else {
			proxy.C24SetBackendConn(w.c.scs[atoi(f[1])], nil)
		}
		return w.cfgLine(false)
	case "pmsg":
		w.play.HandlePluginMessage("v:m"+f[1], zeros[:atoi(f[2])])
		return w.playLine()
	case "pburst":
		for k := 0; k < atoi(f[2]); k++ {
			w.play.HandlePluginMessage("v:m"+strconv.Itoa(atoi(f[1])+k), zeros[:atoi(f[3])])
		}
		return w.playLine()
	case "pflush":
		w.play.FlushQueued()
		return w.playLine()
	case "pjoin":
		_ = w.play.BackendJoinGame(&packet.JoinGame{}, psc(f[1]))
		return w.playLine()
	case "pdeact":
		w.play.Deactivated()
		return w.playLine()
	case "pcur":
		proxy.C24SetConnectedServer(w.p.player, psc(f[1]))
		return w.playLine()
	case "pinfl":
		proxy.C24SetInFlight(w.p.player, psc(f[1]))
		return w.playLine()
	case "pconn":
		if f[2] == "1" {
			proxy.C24SetBackendConn(w.p.scs[atoi(f[1])], w.p.conns[atoi(f[1])])
		} else {
			proxy.C24SetBackendConn(w.p.scs[atoi(f[1])], nil)
		}
		return w.playLine()
	case "pstate":
		if f[2] == "p" {
			w.p.conns[atoi(f[1])].ForceState(state.Play)
		} else {
			w.p.conns[atoi(f[1])].ForceState(state.Config)
		}
		return w.playLine()
	case "pbphase":
		ph := phase.VanillaBackendPhase
		switch f[2] {
		case "u":
			ph = phase.UnknownBackendPhase
		case "t":
			ph = phase.InTransitionBackendPhase
		}
		proxy.C24SetBackendPhase(w.p.scs[atoi(f[1])], ph)
		return w.playLine()
	case "pcphase":
		if f[1] == "v" {
			proxy.C24SetClientPhase(w.p.player, phase.VanillaClientPhase)
		} else {
			proxy.C24SetClientPhase(w.p.player, phase.NotStartedLegacyForgeHandshakeClientPhase)
		}
		return w.playLine()
	}
	return "bad-op"
}

type gen struct {
	run *hx.Run
	w   *world
	cn  int // next send index, CONFIG world
	pn  int
}

func (g *gen) do(class, op string) {
	if op == "reset" {
		g.w = newWorld()
		g.cn, g.pn = 0, 0
		g.run.Case(class, op, "-")
		return
	}
	w := g.w
	out := hx.Guard(60*time.Second, func() string { return w.apply(op) })
	g.run.Case(class, op, out)
}

// cm / pm emit a message op with the next send index.
func (g *gen) cm(class string, n int) { g.do(class, fmt.Sprintf("cmsg %d %d", g.cn, n)); g.cn++ }
func (g *gen) pm(class string, n int) { g.do(class, fmt.Sprintf("pmsg %d %d", g.pn, n)); g.pn++ }
func (g *gen) cburst(class string, k, n int) {
	g.do(class, fmt.Sprintf("cburst %d %d %d", g.cn, k, n))
	g.cn += k
}
func (g *gen) pburst(class string, k, n int) {
	g.do(class, fmt.Sprintf("pburst %d %d %d", g.pn, k, n))
	g.pn += k
}

var lens = []int{0, 0, 1, 1, 2, 7, 8, 64, 255, 1000, 4096, 65536}

func (g *gen) pickLen() int {
	r := g.run.Rng
	if r.Chance(1, 40) {
		return hx.Pick(r, []int{1 << 20, (4 << 20) - 1, 4 << 20, (4 << 20) + 1, 2 << 20, 3 << 20})
	}
	return hx.Pick(r, lens)
}

func optB(r *hx.Rng) string {
	if r.Chance(1, 4) {
		return "-"
	}
	return strconv.Itoa(r.Intn(nB))
}

// cfgSession: a protocol-shaped CONFIG history — initial login (possibly with failed attempts), messages
// before and after the backend is ready, then server switches whose login success finds the client in PLAY.
func (g *gen) cfgSession(class string, withSwitch bool) {
	r := g.run.Rng
	g.do(class, "reset")
	s := r.Intn(nB)
	for k := r.Intn(4); k > 0; k-- {
		g.cm(class, g.pickLen()) // before any backend is in flight
	}
	for attempts := r.Intn(3); attempts > 0; attempts-- { // failed attempts: in flight, some messages, reset
		g.do(class, fmt.Sprintf("cinfl %d", r.Intn(nB)))
		for k := r.Intn(3); k > 0; k-- {
			g.cm(class, g.pickLen())
		}
		g.do(class, "cinfl -")
	}
	g.do(class, fmt.Sprintf("cinfl %d", s))
	for k := r.Intn(6); k > 0; k-- {
		g.cm(class, g.pickLen())
	}
	g.do(class, fmt.Sprintf("clogin %d cfg", s))
	for k := r.Intn(6); k > 0; k-- {
		g.cm(class, g.pickLen())
	}
	g.do(class, fmt.Sprintf("cfinish %d", s))
	g.do(class, fmt.Sprintf("ccur %d", s))
	if !withSwitch {
		return
	}
	for sw := 1 + r.Intn(2); sw > 0; sw-- {
		t := (s + 1 + r.Intn(nB-1)) % nB
		g.do(class, fmt.Sprintf("cinfl %d", t))
		g.do(class, fmt.Sprintf("clogin %d play", t)) // client is in PLAY: doSwitch, no flush
		g.do(class, "ccur -")                         // doSwitch: setConnectedServer(nil)
		for k := 1 + r.Intn(4); k > 0; k-- {
			g.cm(class, g.pickLen()) // client is now in CONFIG again
		}
		g.do(class, fmt.Sprintf("cfinish %d", t))
		g.do(class, fmt.Sprintf("ccur %d", t))
		s = t
	}
}

// cfgRandom: arbitrary interleaving of messages, flushes, pointer changes and connection losses.
func (g *gen) cfgRandom(class string, n int) {
	r := g.run.Rng
	g.do(class, "reset")
	for i := 0; i < n; i++ {
		switch k := r.Intn(100); {
		case k < 55:
			g.cm(class, g.pickLen())
		case k < 67:
			g.do(class, fmt.Sprintf("cflush %d", r.Intn(nB)))
		case k < 70:
			g.do(class, fmt.Sprintf("cflushrace %d %d %d", r.Intn(nB), g.cn, g.pickLen()))
			g.cn++
		case k < 80:
			g.do(class, "cinfl "+optB(r))
		case k < 90:
			g.do(class, "ccur "+optB(r))
		case k < 96:
			g.do(class, fmt.Sprintf("cconn %d %s", r.Intn(nB), b01(r.Chance(2, 3))))
		case k < 98:
			g.cburst(class, 1+r.Intn(600), hx.Pick(r, []int{0, 1, 100, 5000}))
		default:
			g.cburst(class, 1+r.Intn(6), hx.Pick(r, []int{1 << 20, 1<<20 + 1, 700000}))
		}
	}
}

// playSeq: PRE-JOIN histories.  Phases become complete only together with a flush (completeClient.onHandle)
// or at a join (OnFirstJoin / completeJoin), as in the phase code.
func (g *gen) playSeq(class string, n int) {
	r := g.run.Rng
	g.do(class, "reset")
	// the environment moves only as the real code moves it: a serverConnection's connection never comes
	// back once it is nil, and the joined backend becomes the connected server only if the join succeeded
	var gone [nB]bool
	for i := 0; i < n; i++ {
		switch k := r.Intn(100); {
		case k < 45:
			g.pm(class, g.pickLen())
		case k < 52:
			g.do(class, "pcphase n")
		case k < 59:
			g.do(class, "pcphase v")
			g.do(class, "pflush")
		case k < 64:
			g.do(class, "pflush")
		case k < 72:
			d := r.Intn(nB)
			g.do(class, fmt.Sprintf("pinfl %d", d))
			if r.Chance(1, 2) {
				g.do(class, fmt.Sprintf("pbphase %d u", d))
			}
			for j := r.Intn(3); j > 0; j-- {
				g.pm(class, g.pickLen())
			}
			g.do(class, fmt.Sprintf("pjoin %d", d))
			if !gone[d] { // handleBackendJoinGame failed otherwise: no setConnectedServer
				g.do(class, fmt.Sprintf("pcur %d", d))
			}
		case k < 77:
			// the connected server changes only at a join (above) or is dropped (doSwitch / disconnect)
			g.do(class, "pcur -")
		case k < 80:
			g.do(class, "pinfl "+optB(r))
		case k < 84:
			if b := r.Intn(nB); r.Chance(1, 3) {
				gone[b] = true
				g.do(class, fmt.Sprintf("pconn %d 0", b))
			} else if !gone[b] {
				g.do(class, fmt.Sprintf("pconn %d 1", b)) // no-op: still connected
			}
		case k < 88:
			g.do(class, fmt.Sprintf("pstate %d %s", r.Intn(nB), hx.Pick(r, []string{"p", "p", "c"})))
		case k < 91:
			b := r.Intn(nB)
			g.do(class, fmt.Sprintf("pbphase %d %s", b, hx.Pick(r, []string{"u", "t"})))
		case k < 94:
			g.do(class, "pdeact")
		case k < 97:
			g.pburst(class, 1+r.Intn(600), hx.Pick(r, []int{0, 1, 100, 5000}))
		default:
			g.pburst(class, 1+r.Intn(6), hx.Pick(r, []int{1 << 20, 1<<20 + 1, 700000}))
		}
	}
}

func main() {
	run := hx.Start()
	g := &gen{run: run}
	sc := func(class string, f func()) { g.do(class, "reset"); f() }

	// ---- fixed regression scripts ----
	sc("fixed", func() { g.do("fixed", "caps") })
	// queued until ready, flushed in order, later message direct and after them
	sc("fixed", func() {
		g.do("fixed", "cinfl 0")
		g.cm("fixed", 3)
		g.cm("fixed", 0)
		g.do("fixed", "clogin 0 cfg")
		g.cm("fixed", 5)
		g.do("fixed", "cfinish 0")
		g.do("fixed", "cflush 0")
	})
	// no server at all: queued, delivered to the first backend that becomes ready
	sc("fixed", func() {
		g.cm("fixed", 1)
		g.do("fixed", "cinfl 2")
		g.cm("fixed", 1)
		g.do("fixed", "cflush 2")
		g.cm("fixed", 1)
	})
	// flush to a backend without connection fails and keeps the queue
	sc("fixed", func() {
		g.do("fixed", "cinfl 1")
		g.cm("fixed", 2)
		g.do("fixed", "cconn 1 0")
		g.do("fixed", "cflush 1")
		g.do("fixed", "cconn 1 1")
		g.do("fixed", "cflush 1")
	})
	// ready backend loses its connection: direct write impossible, message dropped
	sc("fixed", func() {
		g.do("fixed", "cinfl 0")
		g.do("fixed", "cflush 0")
		g.do("fixed", "cconn 0 0")
		g.cm("fixed", 1)
	})
	// count cap: 1024 fit, the 1025th disconnects, the latch stays
	sc("fixed", func() {
		g.do("fixed", "cinfl 0")
		g.cburst("fixed", 1024, 1)
		g.cm("fixed", 1)
		g.cm("fixed", 1)
		g.do("fixed", "cflush 0")
		g.cm("fixed", 1)
	})
	// byte cap: exactly 4 MiB fits, one more byte does not
	sc("fixed", func() { g.do("fixed", "cinfl 0"); g.cm("fixed", 4<<20); g.cm("fixed", 0); g.cm("fixed", 1) })
	sc("fixed", func() { g.do("fixed", "cinfl 0"); g.cm("fixed", (4<<20)+1) })
	// the flush resets the byte counter
	sc("fixed", func() {
		g.do("fixed", "cinfl 0")
		g.cm("fixed", 3<<20)
		g.do("fixed", "cflush 0")
		g.do("fixed", "cinfl 1")
		g.cm("fixed", 3<<20)
		g.cm("fixed", 1<<20)
		g.cm("fixed", 1)
	})
	// the client read loop handles a message while the flush is writing: it must come after the queued ones
	sc("fixed", func() {
		g.do("fixed", "cinfl 0")
		g.cm("fixed", 3)
		g.cm("fixed", 4)
		g.do("fixed", fmt.Sprintf("cflushrace 0 %d 5", g.cn))
		g.cn++
		g.cm("fixed", 6)
		g.do("fixed", "cflush 0")
	})
	// the switch defect (known finding): login success of backend 1 with the client in PLAY does not flush
	sc("fixed", func() {
		g.do("fixed", "cinfl 0")
		g.do("fixed", "clogin 0 cfg")
		g.do("fixed", "cfinish 0")
		g.do("fixed", "ccur 0")
		g.do("fixed", "cinfl 1")
		g.do("fixed", "clogin 1 play")
		g.do("fixed", "ccur -")
		g.cm("fixed", 3)
		g.do("fixed", "cfinish 1")
		g.do("fixed", "ccur 1")
	})
	// PRE-JOIN: queued while the client phase is incomplete, flushed on completion, then direct
	sc("fixed", func() {
		g.do("fixed", "pcur 0")
		g.do("fixed", "pcphase n")
		g.pm("fixed", 1)
		g.pm("fixed", 2)
		g.do("fixed", "pcphase v")
		g.do("fixed", "pflush")
		g.pm("fixed", 3)
	})
	// queued messages go to the destination at JoinGame
	sc("fixed", func() {
		g.do("fixed", "pcur 0")
		g.do("fixed", "pbphase 0 u")
		g.pm("fixed", 1)
		g.do("fixed", "pinfl 1")
		g.do("fixed", "pjoin 1")
		g.do("fixed", "pcur 1")
		g.pm("fixed", 1)
		g.do("fixed", "pjoin 1")
	})
	// discarded while no backend is connected / backend not in PLAY / in transition (known finding for the first two)
	sc("fixed", func() {
		g.pm("fixed", 1)
		g.do("fixed", "pinfl 0")
		g.pm("fixed", 1)
		g.do("fixed", "pjoin 0")
		g.do("fixed", "pcur 0")
		g.pm("fixed", 1)
	})
	sc("fixed", func() {
		g.do("fixed", "pcur 0")
		g.do("fixed", "pstate 0 c")
		g.pm("fixed", 1)
		g.do("fixed", "pstate 0 p")
		g.pm("fixed", 1)
	})
	sc("fixed", func() {
		g.do("fixed", "pcur 0")
		g.do("fixed", "pbphase 0 t")
		g.pm("fixed", 1)
		g.do("fixed", "pconn 0 0")
		g.pm("fixed", 1)
	})
	// caps and Deactivated
	sc("fixed", func() {
		g.do("fixed", "pcur 0")
		g.do("fixed", "pcphase n")
		g.pburst("fixed", 1024, 1)
		g.pm("fixed", 1)
		g.pm("fixed", 1)
		g.do("fixed", "pdeact")
		g.pm("fixed", 1)
		g.pburst("fixed", 1024, 0)
		g.do("fixed", "pflush")
	})
	sc("fixed", func() { g.do("fixed", "pcur 0"); g.do("fixed", "pcphase n"); g.pm("fixed", 4<<20); g.pm("fixed", 1) })

	// ---- generated ----
	for i := 0; i < run.Scale(120, 1500); i++ {
		g.cfgSession("cfg-session", false)
	}
	for i := 0; i < run.Scale(60, 700); i++ {
		g.cfgSession("cfg-switch", true)
	}
	for i := 0; i < run.Scale(120, 1200); i++ {
		g.cfgRandom("cfg-random", 10+run.Rng.Intn(run.Scale(60, 150)))
	}
	for i := 0; i < run.Scale(150, 1500); i++ {
		g.playSeq("play", 10+run.Rng.Intn(run.Scale(60, 150)))
	}
	run.Finish()
}
