package main

import (
	"fmt"

	"go.minekube.com/gate/pkg/edition/java/config"
	"go.minekube.com/gate/pkg/edition/java/proto/packet"
	"go.minekube.com/gate/pkg/edition/java/proto/packet/plugin"
	"go.minekube.com/gate/pkg/edition/java/proto/state"
	"go.minekube.com/gate/pkg/edition/java/proto/version"
	"go.minekube.com/gate/pkg/edition/java/proxy"
	"go.minekube.com/gate/pkg/edition/java/proxy/phase"

	"verifharness/c18/rc"
)

func dump(name string, c *rc.Conn) {
	for _, e := range c.Log(0) {
		switch p := e.Packet.(type) {
		case *plugin.Message:
			fmt.Printf("  %s %s plugin %s len=%d\n", name, e.Kind, p.Channel, len(p.Data))
		default:
			fmt.Printf("  %s %s %T\n", name, e.Kind, e.Packet)
		}
	}
}

func main() {
	cfg := config.DefaultConfig
	px, err := proxy.New(proxy.Options{Config: &cfg})
	if err != nil {
		panic(err)
	}
	client := rc.New(state.Config, version.Minecraft_1_20_3.Protocol)
	pl := proxy.C24NewPlayer(px, client, "alice")
	b0 := rc.New(state.Config, version.Minecraft_1_20_3.Protocol)
	b1 := rc.New(state.Config, version.Minecraft_1_20_3.Protocol)
	s0 := proxy.C24NewServerConn(pl, "s0", b0, phase.UnknownBackendPhase)
	s1 := proxy.C24NewServerConn(pl, "s1", b1, phase.UnknownBackendPhase)
	h := proxy.C24NewConfigHandler(pl)
	proxy.C24SetInFlight(pl, s0)
	h.HandlePluginMessage("v:m0", []byte{1, 2, 3})
	fmt.Println(h.Queue())
	fmt.Println("flush err:", h.Flush(s0))
	h.HandlePluginMessage("v:m1", []byte{1})
	fmt.Println("finish:", h.BackendFinish(s0))
	proxy.C24SetConnectedServer(pl, s0)
	// switch
	proxy.C24SetConnectedServer(pl, nil)
	proxy.C24SetInFlight(pl, s1)
	h.HandlePluginMessage("v:m2", []byte{1})
	fmt.Println(h.Queue())
	fmt.Println("finish:", h.BackendFinish(s1))
	dump("b0", b0)
	dump("b1", b1)
	dump("client", client)
	// overflow
	for i := 0; i < 1030; i++ {
		h.HandlePluginMessage(fmt.Sprintf("v:x%d", i), nil)
	}
	fmt.Println(h.Queue())
	dump("client", client)

	// play handler
	client2 := rc.New(state.Play, version.Minecraft_1_12_2.Protocol)
	pl2 := proxy.C24NewPlayer(px, client2, "bob")
	c0 := rc.New(state.Play, version.Minecraft_1_12_2.Protocol)
	t0 := proxy.C24NewServerConn(pl2, "t0", c0, phase.VanillaBackendPhase)
	ph := proxy.C24NewPlayHandler(pl2)
	proxy.C24SetConnectedServer(pl2, t0)
	proxy.C24SetClientPhase(pl2, phase.NotStartedLegacyForgeHandshakeClientPhase)
	ph.HandlePluginMessage("v:p0", []byte{9})
	fmt.Println(ph.Queue())
	proxy.C24SetClientPhase(pl2, phase.VanillaClientPhase)
	ph.HandlePluginMessage("v:p1", []byte{9})
	ph.FlushQueued()
	dump("c0", c0)
	c1 := rc.New(state.Play, version.Minecraft_1_12_2.Protocol)
	t1 := proxy.C24NewServerConn(pl2, "t1", c1, phase.UnknownBackendPhase)
	proxy.C24SetClientPhase(pl2, phase.NotStartedLegacyForgeHandshakeClientPhase)
	ph.HandlePluginMessage("v:p2", []byte{9})
	err = ph.BackendJoinGame(&packet.JoinGame{}, t1)
	fmt.Println("join err", err)
	err = ph.BackendJoinGame(&packet.JoinGame{}, t1)
	fmt.Println("join2 err", err)
	dump("c1", c1)
	dump("client2", client2)
}
