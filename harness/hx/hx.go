// Package hx is the shared runtime of the per-property correspondence harnesses:
// one PRNG (splitmix64, seeded from VERIF_SEED), hex helpers, panic/hang containment,
// the trace writer (one line per case: "<op> <args…>\t<impl-output>") and run statistics.
package hx

import (
	"bufio"
	"encoding/hex"
	"encoding/json"
	"errors"
	"flag"
	"fmt"
	"io"
	"os"
	"sort"
	"strconv"
	"strings"
	"time"
)

// ---------- PRNG ----------

type Rng struct{ s uint64 }

// NewRng scrambles the seed first so that consecutive seeds give unrelated streams.
func NewRng(seed uint64) *Rng {
	z := seed + 0x9E3779B97F4A7C15
	z = (z ^ (z >> 30)) * 0xBF58476D1CE4E5B9
	z = (z ^ (z >> 27)) * 0x94D049BB133111EB
	z ^= z >> 31
	return &Rng{s: z*0x9E3779B97F4A7C15 + 0x1234567}
}
func (r *Rng) U64() uint64 {
	r.s += 0x9E3779B97F4A7C15
	z := r.s
	z = (z ^ (z >> 30)) * 0xBF58476D1CE4E5B9
	z = (z ^ (z >> 27)) * 0x94D049BB133111EB
	return z ^ (z >> 31)
}
func (r *Rng) Intn(n int) int {
	if n <= 0 {
		return 0
	}
	return int(r.U64() % uint64(n))
}
func (r *Rng) Bool() bool          { return r.U64()&1 == 1 }
func (r *Rng) Chance(p, q int) bool { return r.Intn(q) < p }
func (r *Rng) Bytes(n int) []byte {
	b := make([]byte, n)
	for i := range b {
		b[i] = byte(r.U64())
	}
	return b
}
func Pick[T any](r *Rng, xs []T) T { return xs[r.Intn(len(xs))] }

// ---------- hex ----------

func Hex(b []byte) string {
	if len(b) == 0 {
		return "-"
	}
	return hex.EncodeToString(b)
}
func HexS(s string) string { return Hex([]byte(s)) }
func UnHex(s string) []byte {
	if s == "-" {
		return nil
	}
	b, err := hex.DecodeString(s)
	if err != nil {
		panic(err)
	}
	return b
}

// ---------- containment ----------

// Guard runs f under recover and a watchdog. A panic yields "panic", a timeout "hang".
func Guard(timeout time.Duration, f func() string) (out string) {
	ch := make(chan string, 1)
	go func() {
		defer func() {
			if r := recover(); r != nil {
				ch <- "panic"
			}
		}()
		ch <- f()
	}()
	select {
	case s := <-ch:
		return s
	case <-time.After(timeout):
		return "hang"
	}
}

// ErrClass maps a Go error to the small enum the models use.
func ErrClass(err error) string {
	if err == nil {
		return "nil"
	}
	if errors.Is(err, io.EOF) || errors.Is(err, io.ErrUnexpectedEOF) {
		return "eof"
	}
	m := err.Error()
	switch {
	case strings.Contains(m, "VarInt is too big"):
		return "too-big"
	case strings.Contains(m, "< 0"), strings.Contains(m, "negative"), strings.Contains(m, "must not 0"):
		return "negative"
	case strings.Contains(m, "above given maximum"), strings.Contains(m, "bad string length"),
		strings.Contains(m, "cannot receive array"), strings.Contains(m, "cannot write byte array"):
		return "too-long"
	case strings.Contains(m, "invalid key"), strings.Contains(m, "key is nil"):
		return "invalid"
	}
	return "other"
}

// ---------- run context ----------

type Run struct {
	Seed   uint64
	Tier   string
	OutDir string
	Rng    *Rng
	w      *bufio.Writer
	f      *os.File
	n      int
	hist   map[string]int
	sample []string
	Extra  map[string]any
}

// Start parses --seed/--tier/--out (VERIF_SEED / VERIF_TIER as defaults) and opens trace.txt.
func Start() *Run {
	seedDef := uint64(1)
	if s := os.Getenv("VERIF_SEED"); s != "" {
		if v, err := strconv.ParseUint(s, 10, 64); err == nil {
			seedDef = v
		}
	}
	tierDef := os.Getenv("VERIF_TIER")
	if tierDef == "" {
		tierDef = "quick"
	}
	seed := flag.Uint64("seed", seedDef, "prng seed")
	tier := flag.String("tier", tierDef, "quick|thorough")
	out := flag.String("out", ".", "output directory")
	flag.Parse()
	if err := os.MkdirAll(*out, 0o755); err != nil {
		panic(err)
	}
	f, err := os.Create(*out + "/trace.txt")
	if err != nil {
		panic(err)
	}
	return &Run{Seed: *seed, Tier: *tier, OutDir: *out, Rng: NewRng(*seed), f: f,
		w: bufio.NewWriterSize(f, 1<<20), hist: map[string]int{}, Extra: map[string]any{}}
}

func (r *Run) Thorough() bool { return r.Tier == "thorough" }

// Scale returns q for quick and t for thorough.
func (r *Run) Scale(q, t int) int {
	if r.Thorough() {
		return t
	}
	return q
}

// Case records one case. op must not contain a tab or newline; neither must impl.
// class is a coarse label for the input-distribution histogram.
func (r *Run) Case(class, op, impl string) {
	op = strings.NewReplacer("\t", " ", "\n", " ").Replace(op)
	impl = strings.NewReplacer("\t", " ", "\n", " ").Replace(impl)
	fmt.Fprintf(r.w, "%s\t%s\n", op, impl)
	r.n++
	r.hist[class]++
	if len(r.sample) < 12 && r.hist[class] <= 2 {
		line := op + " => " + impl
		if len(line) > 300 {
			line = line[:300] + "…"
		}
		r.sample = append(r.sample, line)
	}
}

// Finish flushes the trace and writes stats.json.
func (r *Run) Finish() {
	r.w.Flush()
	r.f.Close()
	keys := make([]string, 0, len(r.hist))
	for k := range r.hist {
		keys = append(keys, k)
	}
	sort.Strings(keys)
	st := map[string]any{"cases": r.n, "histogram": r.hist, "samples": r.sample, "seed": r.Seed, "tier": r.Tier, "extra": r.Extra}
	b, _ := json.MarshalIndent(st, "", " ")
	if err := os.WriteFile(r.OutDir+"/stats.json", b, 0o644); err != nil {
		panic(err)
	}
}
