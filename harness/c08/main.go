// C08 correspondence harness: end-to-end login through the PUBLIC API only.
//
//	proxy.New(Options{Config, EventMgr, Authenticator}) + Proxy.HandleConn(net.Conn)
//
// The authenticator is gate's REAL auth.Authenticator (real RSA, real hasJoined status handling) whose
// http.Client talks to an in-process fake session server (a RoundTripper).  The fake client speaks generated
// packet sequences over an in-memory pipe (e2e.Pipe) and behaves like a real client where it matters:
// after sending an EncryptionResponse it encrypts/decrypts the stream with ITS shared secret (own AES/CFB8
// implementation on crypto/aes), so a LoginSuccess is only readable if the proxy enabled encryption with
// exactly that secret.
//
// Determinism: the proxy's read loop is one goroutine and HandleConn returns when the connection is done.
// The client waits for the proxy's reaction only after packets that always have one (login start,
// encryption response: EncryptionRequest / LoginSuccess / Disconnect+EOF / EOF); at the end it closes,
// waits for HandleConn to return and drains what is buffered.  No timing-dependent observation.
//
// case line:  login <proto> online=<0|1> pre=<a|d|n|f> sess=<code> msgs=<k> fk=<0|1> <input> <input> …\t<observation>
//   fk    cfg.ForceKeyAuthentication.  Protocols 759/760 (1.19 – 1.19.2) are the only ones whose login start can carry a
//         profile key (`L:<namehex>:x` expired key, `:i` wrongly signed key) and whose encryption response can come in the
//         SALTED form (`E:<tok>:<sec>:s`: hasVerifyToken=false, a salt, and the tok bytes in the signature field).  A valid
//         (Mojang-signed) key cannot be produced offline.  For pre-1.20.2 clients the script ends at LoginSuccess: the proxy
//         then enters play, finds no server and disconnects (PostLogin event, proxy-initiated close).
//   msgs  the PreLogin subscriber sends k login plugin messages (ids 1..k) during every PreLogin event: the completion of
//         the login start (encryption request / offline hand-over) is deferred until the client has answered them all.
//         Independently of `pre`, the subscriber FORCES OFFLINE MODE for usernames starting with "svc".
//   also: `shape state-before-prelogin` — read from the source: handleServerLogin assigns loginPacketReceived after
//         assertState and before the PreLogin event is fired (1/0)
//   pre   PreLogin handler: a allow, d deny, n force online, f force offline
//   sess  session server: j the client joined (name of its first login start, its secret) → 200+profile for exactly
//         that (username, serverId), 204 otherwise; o the client joined under ANOTHER account name; n always 204;
//         u always 401; e always 500; m always 200 with empty body; b 200 with broken JSON; x 200 JSON without a name
//   input L:<namehex> login start | E:<tok>:<sec> encryption response (tok v exact token, w other token of the same length, p a proper prefix of the
//         token, z the empty token, l the token plus one byte (all correctly RSA-encrypted), g undecryptable;
//         sec k 16-byte secret, g undecryptable, s 5-byte secret) | P:<id> plugin response | U unknown packet id | A LoginAcknowledged
//   observation: transcript `>i` (input i sent) `<Pkt` (packet received) … end=<open|closed> ev=<events> join=<namehex>:<sidOk>,…
package main

import (
	"bufio"
	"bytes"
	"crypto/aes"
	"crypto/cipher"
	"crypto/rand"
	"crypto/rsa"
	"crypto/sha1"
	"crypto/x509"
	"encoding/hex"
	"errors"
	"fmt"
	"go/ast"
	"go/parser"
	"go/token"
	"io"
	"math/big"
	"net"
	"net/http"
	"os"
	"strconv"
	"strings"
	"sync"
	"time"

	"github.com/go-logr/logr"
	"github.com/robinbraemer/event"
	"go.minekube.com/common/minecraft/component"
	"go.minekube.com/gate/pkg/edition/java/auth"
	"go.minekube.com/gate/pkg/edition/java/config"
	"go.minekube.com/gate/pkg/edition/java/proto/codec"
	"go.minekube.com/gate/pkg/edition/java/proto/packet"
	"go.minekube.com/gate/pkg/edition/java/proto/state"
	"go.minekube.com/gate/pkg/edition/java/proto/version"
	"go.minekube.com/gate/pkg/edition/java/proxy"
	"go.minekube.com/gate/pkg/edition/java/proxy/crypto"
	"go.minekube.com/gate/pkg/edition/java/proxy/crypto/keyrevision"
	"go.minekube.com/gate/pkg/edition/java/proxy/message"
	"go.minekube.com/gate/pkg/gate/proto"
	"go.minekube.com/gate/pkg/util/uuid"

	"verifharness/e2e"
	"verifharness/hx"
)

// ---------- independent AES/CFB8 ----------

type cfb8 struct {
	b   cipher.Block
	sr  []byte
	dec bool
}

func newCFB8(key []byte, dec bool) *cfb8 {
	b, err := aes.NewCipher(key)
	if err != nil {
		return nil
	}
	return &cfb8{b: b, sr: append([]byte(nil), key...), dec: dec}
}
func (c *cfb8) xor(dst, src []byte) {
	var tmp [16]byte
	for i := range src {
		c.b.Encrypt(tmp[:], c.sr)
		in := src[i]
		out := in ^ tmp[0]
		dst[i] = out
		copy(c.sr, c.sr[1:])
		if c.dec {
			c.sr[15] = in
		} else {
			c.sr[15] = out
		}
	}
}

// cryptConn applies CFB8 to the client side of the pipe once enabled.
type cryptConn struct {
	c   *e2e.PipeConn
	enc *cfb8
	dec *cfb8
}

func (c *cryptConn) Read(p []byte) (int, error) {
	n, err := c.c.Read(p)
	if c.dec != nil && n > 0 {
		c.dec.xor(p[:n], p[:n])
	}
	return n, err
}
func (c *cryptConn) Write(p []byte) (int, error) {
	if c.enc != nil {
		q := make([]byte, len(p))
		c.enc.xor(q, p)
		p = q
	}
	return c.c.Write(p)
}

// ---------- proxy-side connection wrapper: who closed first? ----------

type srvConn struct {
	*e2e.PipeConn
	mu            sync.Mutex
	sawEOF        bool
	proxyClosed   bool
	closedAlready bool
}

func (s *srvConn) Read(p []byte) (int, error) {
	n, err := s.PipeConn.Read(p)
	if err != nil {
		var ne net.Error
		if !(errors.As(err, &ne) && ne.Timeout()) {
			s.mu.Lock()
			s.sawEOF = true
			s.mu.Unlock()
		}
	}
	return n, err
}
func (s *srvConn) Close() error {
	s.mu.Lock()
	if !s.closedAlready {
		s.closedAlready = true
		s.proxyClosed = !s.sawEOF
	}
	s.mu.Unlock()
	return s.PipeConn.Close()
}

// ---------- fake session server ----------

type scenario struct {
	mu       sync.Mutex
	sess     byte
	acctName string // the account name the client joined under (sess j/o)
	acctSID  string // server id the client joined with
	pre      byte
	msgs     int
	events   []string
	joins    []string
	sidWant  string
	profile  string // uuid (no dashes) of the online profile
}

var cur *scenario

type fakeSession struct{}

func (fakeSession) RoundTrip(req *http.Request) (*http.Response, error) {
	sc := cur
	q := req.URL.Query()
	name, sid := q.Get("username"), q.Get("serverId")
	sc.mu.Lock()
	ok := "0"
	if sid == sc.sidWant && sc.sidWant != "" {
		ok = "1"
	}
	sc.joins = append(sc.joins, hx.HexS(name)+":"+ok)
	sess, acct, asid, prof := sc.sess, sc.acctName, sc.acctSID, sc.profile
	sc.mu.Unlock()
	mk := func(code int, body string) (*http.Response, error) {
		return &http.Response{StatusCode: code, Status: strconv.Itoa(code), Proto: "HTTP/1.1", ProtoMajor: 1, ProtoMinor: 1,
			Header: http.Header{}, Body: io.NopCloser(strings.NewReader(body)), Request: req}, nil
	}
	profileJSON := fmt.Sprintf(`{"id":"%s","name":"%s","properties":[]}`, prof, name)
	switch sess {
	case 'j', 'o':
		if name == acct && sid == asid {
			return mk(200, profileJSON)
		}
		return mk(204, "")
	case 'n':
		return mk(204, "")
	case 'u':
		return mk(401, `{"error":"ForbiddenOperationException"}`)
	case 'e':
		return mk(500, "oops")
	case 'm':
		return mk(200, "")
	case 'b':
		return mk(200, `{"id":`)
	default: // x
		return mk(200, fmt.Sprintf(`{"id":"%s","properties":[]}`, prof))
	}
}

// javaHex is Java's new BigInteger(digest).toString(16) (independent of gate's GenerateServerID).
func javaHex(digest []byte) string {
	n := new(big.Int).SetBytes(digest)
	if digest[0]&0x80 != 0 {
		n.Sub(n, new(big.Int).Lsh(big.NewInt(1), uint(8*len(digest))))
	}
	return n.Text(16)
}

// ---------- rig ----------

type rig struct {
	p   *proxy.Proxy
	pub []byte
	key *rsa.PrivateKey
}

func record(s string) {
	sc := cur
	sc.mu.Lock()
	sc.events = append(sc.events, s)
	sc.mu.Unlock()
}

func newRig(online, forceKey bool, key *rsa.PrivateKey) *rig {
	cfg := config.DefaultConfig
	cfg.OnlineMode = online
	cfg.ForceKeyAuthentication = forceKey
	cfg.Forwarding.Mode = config.NoneForwardingMode
	cfg.Quota.Connections.Enabled = false
	cfg.Quota.Logins.Enabled = false
	cfg.PacketLimiter.PacketsPerSecond = -1
	cfg.PacketLimiter.BytesPerSecond = -1
	cfg.BungeePluginChannelEnabled = false
	cfg.Servers = map[string]string{}
	cfg.Try = nil
	authn, err := auth.New(auth.Options{PrivateKey: key, Client: &http.Client{Transport: fakeSession{}}})
	if err != nil {
		panic(err)
	}
	mgr := event.New()
	p, err := proxy.New(proxy.Options{Config: &cfg, EventMgr: mgr, Authenticator: authn})
	if err != nil {
		panic(err)
	}
	chanID, _ := message.ChannelIdentifierFrom("verif:c08")
	event.Subscribe(mgr, 0, func(e *proxy.PreLoginEvent) {
		record("pre")
		if lp, ok := e.Conn().(proxy.LoginPhaseConnection); ok {
			for i := 0; i < cur.msgs; i++ {
				_ = lp.SendLoginPluginMessage(chanID, []byte{byte(i + 1)}, consumerFunc(func([]byte) error { record("cons"); return nil }))
			}
		}
		if strings.HasPrefix(e.Username(), "svc") {
			e.ForceOfflineMode() // a service account admitted without Mojang auth — for THIS name only
			return
		}
		switch cur.pre {
		case 'd':
			e.Deny(&component.Text{Content: "verif-denied"})
		case 'n':
			e.ForceOnlineMode()
		case 'f':
			e.ForceOfflineMode()
		}
	})
	event.Subscribe(mgr, 0, func(e *proxy.GameProfileRequestEvent) {
		if e.OnlineMode() {
			record("gp:1")
		} else {
			record("gp:0")
		}
	})
	event.Subscribe(mgr, 0, func(e *proxy.LoginEvent) { record("login") })
	event.Subscribe(mgr, 0, func(e *proxy.PostLoginEvent) { record("post") })
	event.Subscribe(mgr, 0, func(e *proxy.DisconnectEvent) {
		switch e.LoginStatus() {
		case proxy.SuccessfulLoginStatus:
			record("disc:ok")
		default:
			record(fmt.Sprintf("disc:%d", int(e.LoginStatus())))
		}
	})
	pub, _ := x509.MarshalPKIXPublicKey(key.Public())
	return &rig{p: p, pub: pub, key: key}
}

type consumerFunc func([]byte) error

func (f consumerFunc) OnMessageResponse(b []byte) error { return f(b) }

// ---------- one case ----------

type caseSpec struct {
	protocol proto.Protocol
	online   bool
	pre      byte
	sess     byte
	msgs     int
	forceKey bool
	inputs   []string
}

func discClass(d *packet.Disconnect) string {
	js := string(d.Reason.AsJsonOrNil())
	switch {
	case strings.Contains(js, "invalid format"):
		return "badname"
	case strings.Contains(js, "verif-denied"):
		return "denied"
	case strings.Contains(js, "Unable to authenticate"):
		return "unable"
	case strings.Contains(js, "only accepts connections from online-mode"):
		return "onlineonly"
	case strings.Contains(js, "Internal server connection error"):
		return "internal"
	case strings.Contains(js, "already connected"):
		return "already"
	case strings.Contains(js, "multiplayer.disconnect."):
		i := strings.Index(js, "multiplayer.disconnect.")
		rest := js[i+len("multiplayer.disconnect."):]
		j := strings.IndexAny(rest, "\"'}")
		if j < 0 {
			j = len(rest)
		}
		return "mc." + rest[:j]
	}
	return "other"
}

const profileUUID = "11111111222233334444555555555555"

func runCase(r *rig, cs caseSpec) (sent []string, obs string) {
	sc := &scenario{sess: cs.sess, pre: cs.pre, msgs: cs.msgs, profile: profileUUID}
	cur = sc
	cEnd, sEnd := e2e.Pipe(&net.TCPAddr{IP: net.IPv4(10, 1, 2, 3), Port: 50000}, &net.TCPAddr{IP: net.IPv4(10, 0, 0, 2), Port: 25565})
	srv := &srvConn{PipeConn: sEnd}
	done := make(chan struct{})
	go func() { r.p.HandleConn(srv); close(done) }()

	cc := &cryptConn{c: cEnd}
	bw := bufio.NewWriter(cc)
	enc := codec.NewEncoder(bw, proto.ServerBound, logr.Discard())
	dec := codec.NewDecoder(bufio.NewReader(cc), proto.ClientBound, logr.Discard())
	send := func(p proto.Packet) {
		_, _ = enc.WritePacket(p)
		_ = bw.Flush()
	}
	send(&packet.Handshake{ProtocolVersion: int(cs.protocol), ServerAddress: "verif.test", Port: 25565, NextStatus: 2})
	enc.SetProtocol(cs.protocol)
	dec.SetProtocol(cs.protocol)
	enc.SetState(state.Login)
	dec.SetState(state.Login)

	var tr []string
	sawEOF, sawSuccess := false, false
	var token []byte
	secret := make([]byte, 16)
	copy(secret, []byte("verif-c08-secret"))
	secret[15] = byte(len(cs.inputs))
	firstName := ""

	// next reads one packet; "" = EOF
	next := func() string {
		cEnd.SetReadDeadline(time.Now().Add(8 * time.Second))
		ctx, err := dec.Decode()
		if err != nil && !errors.Is(err, proto.ErrDecoderLeftBytes) {
			var ne net.Error
			if errors.As(err, &ne) && ne.Timeout() {
				return "hang"
			}
			if errors.Is(err, io.EOF) || errors.Is(err, io.ErrUnexpectedEOF) || errors.Is(err, io.ErrClosedPipe) {
				return ""
			}
			return "Garbled"
		}
		if !ctx.KnownPacket() {
			return "Garbled"
		}
		switch p := ctx.Packet.(type) {
		case *packet.EncryptionRequest:
			token = append([]byte(nil), p.VerifyToken...)
			if !bytes.Equal(p.PublicKey, r.pub) {
				return "EncReq:badkey"
			}
			return "EncReq"
		case *packet.SetCompression:
			enc.SetCompression(p.Threshold, -1)
			dec.SetCompressionThreshold(p.Threshold)
			return "SetComp"
		case *packet.ServerLoginSuccess:
			cls := "?"
			if strings.ReplaceAll(p.UUID.String(), "-", "") == profileUUID {
				cls = "on"
			} else if p.UUID == uuid.OfflinePlayerUUID(p.Username) {
				cls = "off"
			}
			reg := "0"
			if pl := r.p.PlayerByName(p.Username); pl != nil && pl.ID() == p.UUID {
				reg = "1"
			}
			if cs.protocol.Lower(version.Minecraft_1_20_2) {
				reg = "_" // the proxy is already on its way out of play: registration is read off the DisconnectEvent
			}
			return "Success:" + cls + ":" + hx.HexS(p.Username) + ":reg" + reg
		case *packet.Disconnect:
			return "Disc:" + discClass(p)
		case *packet.LoginPluginMessage:
			return "PluginMsg:" + strconv.Itoa(p.ID)
		}
		return fmt.Sprintf("Other:%T", ctx.Packet)
	}
	// wait reads until a terminal reaction (EncryptionRequest / LoginSuccess / EOF), or — after a login start —
	// until the kStop plugin messages of its PreLogin event have arrived (then the proxy waits for the answers)
	unanswered := map[int]bool{}
	wait := func(kStop int) {
		got := 0
		for n := 0; n < 16; n++ {
			s := next()
			if s == "" {
				tr = append(tr, "<EOF")
				sawEOF = true
				return
			}
			tr = append(tr, "<"+s)
			if s == "hang" || s == "Garbled" {
				sawEOF = true // nothing sensible can follow
				return
			}
			if strings.HasPrefix(s, "Success") {
				sawSuccess = true
				return
			}
			if strings.HasPrefix(s, "EncReq") {
				return
			}
			if strings.HasPrefix(s, "PluginMsg:") {
				id, _ := strconv.Atoi(s[len("PluginMsg:"):])
				unanswered[id] = true
				got++
				if kStop > 0 && got == kStop {
					return
				}
			}
		}
	}

	legacy := cs.protocol.Lower(version.Minecraft_1_20_2)
	for _, in := range cs.inputs {
		if sawEOF || (legacy && sawSuccess) {
			break // pre-1.20.2: LoginSuccess ends the login phase, the proxy goes on by itself
		}
		if in == "A" && (sawSuccess || legacy) {
			continue // would leave the login phase: out of scope; pre-1.20.2 has no LoginAcknowledged packet at all
		}
		sent = append(sent, in)
		tr = append(tr, ">"+strconv.Itoa(len(sent)-1))
		switch in[0] {
		case 'L':
			lf := strings.Split(in, ":")
			name := string(hx.UnHex(lf[1]))
			if firstName == "" {
				firstName = name
			}
			var pk crypto.IdentifiedKey
			if len(lf) > 2 {
				expiry := time.Now().Add(48 * time.Hour).UnixMilli()
				if lf[2] == "x" {
					expiry = 1000 // 1970: expired
				}
				rev := keyrevision.LinkedV2
				if cs.protocol == version.Minecraft_1_19.Protocol {
					rev = keyrevision.GenericV1
				}
				pk, _ = crypto.NewIdentifiedKey(rev, r.pub, expiry, bytes.Repeat([]byte{0x5a}, 256))
			}
			if name == "" {
				// gate's own encoder refuses an empty name: write the frame by hand (id 0, empty string, uuid)
				_, _ = enc.Write(append([]byte{0x00, 0x00}, make([]byte, 16)...))
				_ = bw.Flush()
			} else {
				send(&packet.ServerLogin{Username: name, HolderID: uuid.OfflinePlayerUUID(name), PlayerKey: pk})
			}
			wait(cs.msgs)
		case 'E':
			f := strings.Split(in, ":")
			var tokCT, secCT []byte
			switch f[1] {
			case "v", "w", "p", "z", "l":
				t := append([]byte(nil), token...)
				if len(t) == 0 {
					t = []byte{9, 9, 9, 9}
				}
				switch f[1] {
				case "w":
					t[0] ^= 0x55
				case "p": // a proper prefix of the issued token
					t = t[:2]
				case "z": // the empty token: needs no knowledge of the issued one
					t = []byte{}
				case "l": // the issued token with one more byte
					t = append(t, 0)
				}
				tokCT, _ = rsa.EncryptPKCS1v15(rand.Reader, &r.key.PublicKey, t)
			default:
				tokCT = make([]byte, 128)
			}
			sec := secret
			switch f[2] {
			case "k":
				secCT, _ = rsa.EncryptPKCS1v15(rand.Reader, &r.key.PublicKey, sec)
			case "s":
				sec = secret[:5]
				secCT, _ = rsa.EncryptPKCS1v15(rand.Reader, &r.key.PublicKey, sec)
			default:
				secCT = make([]byte, 128)
			}
			// what the client told the session server: it joins with ITS secret and the proxy's public key
			h := sha1.New()
			h.Write(sec)
			h.Write(r.pub)
			sid := javaHex(h.Sum(nil))
			sc.mu.Lock()
			sc.sidWant = sid
			sc.acctSID = sid
			sc.acctName = firstName
			if cs.sess == 'o' {
				sc.acctName = "Other_Account"
			}
			sc.mu.Unlock()
			er := &packet.EncryptionResponse{SharedSecret: secCT, VerifyToken: tokCT}
			if len(f) > 3 && f[3] == "s" {
				salt := int64(0x0123456789abcdef)
				er.Salt = &salt // only 1.19 – 1.19.2 encode it: the token bytes then travel as the `signature`
			}
			send(er)
			// a real client switches to the encrypted stream right after this packet
			if e, d := newCFB8(sec, false), newCFB8(sec, true); e != nil {
				cc.enc, cc.dec = e, d
			}
			wait(0)
		case 'P':
			id, _ := strconv.Atoi(in[2:])
			send(&packet.LoginPluginResponse{ID: id, Success: true, Data: []byte{1}})
			if unanswered[id] {
				delete(unanswered, id)
				if len(unanswered) == 0 {
					wait(0) // every message the client received is answered: the deferred completion must react
				}
			}
		case 'U':
			_, _ = enc.Write([]byte{0x7e, 1, 2, 3})
			_ = bw.Flush()
		case 'A':
			send(&packet.LoginAcknowledged{})
		}
	}
	// end of script: close, let the proxy finish, drain what it had written
	_ = cEnd.Close()
	select {
	case <-done:
	case <-time.After(10 * time.Second):
		return sent, "hang"
	}
	if !sawEOF && !(legacy && sawSuccess) {
		for n := 0; n < 16; n++ {
			s := next()
			if s == "" {
				break
			}
			tr = append(tr, "<"+s)
			if s == "hang" || s == "Garbled" {
				break
			}
		}
	}
	srv.mu.Lock()
	end := "open"
	if srv.proxyClosed {
		end = "closed"
	}
	srv.mu.Unlock()
	sc.mu.Lock()
	defer sc.mu.Unlock()
	lst := func(xs []string) string {
		if len(xs) == 0 {
			return "-"
		}
		return strings.Join(xs, ",")
	}
	return sent, fmt.Sprintf("%s end=%s ev=%s join=%s", strings.Join(tr, " "), end, lst(sc.events), lst(sc.joins))
}

// shapeStateBeforePreLogin reads handleServerLogin from the source under test: "1" iff the function body, at top
// level, asserts the state, then assigns l.currentState = loginPacketReceivedLoginState, and only later fires the
// PreLogin event (so that no second login start can be accepted while the completion is deferred).
func shapeStateBeforePreLogin() string {
	repo := os.Getenv("VERIF_REPO")
	if repo == "" {
		repo = "/repo"
	}
	f, err := parser.ParseFile(token.NewFileSet(), repo+"/pkg/edition/java/proxy/session_client_initial_login.go", nil, 0)
	if err != nil {
		return "parse-error"
	}
	has := func(n ast.Node, sel string) bool {
		found := false
		ast.Inspect(n, func(x ast.Node) bool {
			if c, ok := x.(*ast.CallExpr); ok {
				if types := exprString(c.Fun); types == sel {
					found = true
				}
			}
			return !found
		})
		return found
	}
	for _, d := range f.Decls {
		fd, ok := d.(*ast.FuncDecl)
		if !ok || fd.Name.Name != "handleServerLogin" || fd.Body == nil {
			continue
		}
		assertAt, assignAt, fireAt := -1, -1, -1
		for i, st := range fd.Body.List {
			if ifs, ok := st.(*ast.IfStmt); ok && assertAt < 0 && has(ifs.Cond, "l.assertState") {
				assertAt = i
			}
			if as, ok := st.(*ast.AssignStmt); ok && assignAt < 0 && len(as.Lhs) == 1 && len(as.Rhs) == 1 &&
				exprString(as.Lhs[0]) == "l.currentState" && exprString(as.Rhs[0]) == "loginPacketReceivedLoginState" {
				assignAt = i
			}
			if fireAt < 0 && has(st, "l.eventMgr.Fire") {
				fireAt = i
			}
		}
		if assertAt >= 0 && assignAt > assertAt && fireAt > assignAt {
			return "1"
		}
		return "0"
	}
	return "missing"
}

func exprString(e ast.Expr) string {
	switch x := e.(type) {
	case *ast.Ident:
		return x.Name
	case *ast.SelectorExpr:
		return exprString(x.X) + "." + x.Sel.Name
	}
	return "?"
}

func b01(b bool) string {
	if b {
		return "1"
	}
	return "0"
}

// ---------- generation ----------

var protocols = []proto.Protocol{version.Minecraft_1_19.Protocol, version.Minecraft_1_19_1.Protocol, version.Minecraft_1_19.Protocol,
	version.Minecraft_1_19_1.Protocol, version.Minecraft_1_20_2.Protocol, version.Minecraft_1_20_3.Protocol, version.Minecraft_1_20_5.Protocol,
	version.Minecraft_1_21.Protocol, version.Minecraft_1_21_4.Protocol}

type gen struct {
	r *hx.Rng
	n int
}

func (g *gen) validName() string {
	g.n++
	s := "V" + strconv.FormatInt(int64(g.n), 36) + "_" + strconv.FormatInt(int64(g.r.Intn(1<<20)), 36)
	if len(s) > 16 {
		s = s[:16]
	}
	return s
}
func (g *gen) name() string {
	switch g.r.Intn(28) {
	case 0:
		return "x" // too short
	case 1:
		return "seventeen_chars_x" // too long for the pattern
	case 2:
		return "bad name"
	case 3:
		return "na-me"
	case 4:
		return "näme"
	case 5:
		return "ab" // shortest valid
	case 6:
		return "sixteen_chars_ok"[:16]
	case 7, 8, 9:
		g.n++
		return "svc_" + strconv.FormatInt(int64(g.n), 36) // the subscriber forces offline mode for these
	}
	return g.validName()
}
// salt: the salted form of the encryption response (meaningful for 1.19 – 1.19.2 only)
func (g *gen) salt() string {
	if g.r.Chance(1, 3) {
		return ":s"
	}
	return ""
}

func (g *gen) input() string {
	switch x := g.r.Intn(20); {
	case x < 6:
		l := "L:" + hex.EncodeToString([]byte(g.name()))
		if g.r.Chance(1, 6) {
			l += hx.Pick(g.r, []string{":x", ":i"})
		}
		return l
	case x < 13:
		tok := "v"
		if g.r.Chance(1, 4) {
			tok = hx.Pick(g.r, []string{"w", "g", "p", "z", "l"})
		}
		sec := "k"
		if g.r.Chance(1, 5) {
			sec = hx.Pick(g.r, []string{"g", "s"})
		}
		return "E:" + tok + ":" + sec + g.salt()
	case x < 16:
		return fmt.Sprintf("P:%d", hx.Pick(g.r, []int{0, 1, 1, 2, 2, 3, -1, 77}))
	case x < 18:
		return "U"
	default:
		return "A"
	}
}

func (g *gen) sequence() []string {
	switch g.r.Intn(6) {
	case 0, 1, 2, 3: // the well-behaved shape with perturbations
		seq := []string{"L:" + hex.EncodeToString([]byte(g.validName()))}
		if g.r.Chance(1, 3) {
			seq = append([]string{g.input()}, seq...)
		}
		// answers to the PreLogin plugin messages (ids 1..2), in any order, sometimes missing, sometimes
		// interleaved with a duplicate login start / an early encryption response / garbage
		for _, id := range []int{1 + g.r.Intn(2), 1 + g.r.Intn(2), g.r.Intn(4)} {
			if g.r.Chance(1, 6) {
				seq = append(seq, g.input())
			}
			if g.r.Chance(3, 4) {
				seq = append(seq, fmt.Sprintf("P:%d", id))
			}
		}
		tok, sec := "v", "k"
		if g.r.Chance(1, 4) {
			tok = hx.Pick(g.r, []string{"w", "g", "p", "z", "l"})
		}
		if g.r.Chance(1, 5) {
			sec = hx.Pick(g.r, []string{"g", "s"})
		}
		seq = append(seq, "E:"+tok+":"+sec+g.salt())
		for g.r.Chance(1, 3) {
			seq = append(seq, g.input())
		}
		return seq
	default:
		n := 1 + g.r.Intn(5)
		var seq []string
		for i := 0; i < n; i++ {
			seq = append(seq, g.input())
		}
		return seq
	}
}

func main() {
	run := hx.Start()
	defer run.Finish()
	key, err := rsa.GenerateKey(rand.Reader, 1024)
	if err != nil {
		panic(err)
	}
	rigs := map[[2]bool]*rig{}
	for _, on := range []bool{false, true} {
		for _, fk := range []bool{false, true} {
			rigs[[2]bool{on, fk}] = newRig(on, fk, key)
		}
	}
	hangs := 0
	emit := func(class string, cs caseSpec) {
		if hangs >= 3 {
			return
		}
		sent, obs := runCase(rigs[[2]bool{cs.online, cs.forceKey}], cs)
		if strings.Contains(obs, "hang") {
			hangs++
		}
		on := "0"
		if cs.online {
			on = "1"
		}
		op := fmt.Sprintf("login %d online=%s pre=%c sess=%c msgs=%d fk=%s", cs.protocol, on, cs.pre, cs.sess, cs.msgs, b01(cs.forceKey))
		if len(sent) > 0 {
			op += " " + strings.Join(sent, " ")
		}
		run.Case(class, op, obs)
	}
	nm := func(s string) string { return "L:" + hex.EncodeToString([]byte(s)) }
	p0 := version.Minecraft_1_20_2.Protocol
	fx := func(class string, online bool, pre, sess byte, in ...string) {
		emit(class, caseSpec{protocol: p0, online: online, pre: pre, sess: sess, inputs: in})
	}
	// ---- fixed cases ----
	fx("fixed-admit", true, 'a', 'j', nm("Alice_01"), "E:v:k")
	fx("fixed-admit", false, 'a', 'j', nm("Alice_02"))
	fx("fixed-admit", false, 'n', 'j', nm("Alice_03"), "E:v:k")
	fx("fixed-admit", true, 'f', 'n', nm("Alice_04"))
	fx("fixed-reject", true, 'a', 'j', nm("Alice_05"), "E:w:k")
	fx("fixed-reject", true, 'a', 'j', nm("Alice_06"), "E:g:k")
	fx("fixed-reject", true, 'a', 'j', nm("Alice_06p"), "E:p:k") // a prefix of the token is not the token
	fx("fixed-reject", true, 'a', 'j', nm("Alice_06z"), "E:z:k") // nor is the empty token
	fx("fixed-reject", true, 'a', 'j', nm("Alice_06l"), "E:l:k")
	fx("fixed-reject", true, 'a', 'j', nm("Alice_07"), "E:v:g")
	fx("fixed-reject", true, 'a', 'j', nm("Alice_08"), "E:v:s")
	for _, s := range []byte("onuembx") {
		fx("fixed-session", true, 'a', s, nm("Alice_09"), "E:v:k")
	}
	fx("fixed-order", true, 'a', 'j', "E:v:k", nm("Alice_10"))
	fx("fixed-order", true, 'a', 'j', nm("Alice_11"), nm("Alice_11"), "E:v:k")
	fx("fixed-order", true, 'a', 'j', nm("Alice_12"), "E:v:k", "E:v:k")
	fx("fixed-order", true, 'a', 'j', nm("Alice_13"), "U", "E:v:k")
	fx("fixed-order", true, 'a', 'j', nm("Alice_14"), "A", "E:v:k")
	fx("fixed-order", true, 'a', 'j', nm("Alice_15"), "P:1", "E:v:k", "P:2", nm("Alice_15"))
	fx("fixed-order", true, 'a', 'j', "P:0", "U", nm("Alice_16"))
	fx("fixed-order", false, 'a', 'j', nm("Alice_17"), "E:v:k")
	fx("fixed-name", true, 'a', 'j', nm("x"), "E:v:k")
	fx("fixed-name", true, 'a', 'j', nm("bad name"))
	fx("fixed-name", true, 'd', 'j', nm("Alice_18"), "E:v:k")
	fx("fixed-name", true, 'a', 'j', nm(""), "E:v:k")
	fx("fixed-name", true, 'a', 'j', nm(strings.Repeat("a", 65)), "E:v:k")
	fx("fixed-name", true, 'a', 'j', nm(strings.Repeat("a", 64)), "E:v:k")

	fm := func(class string, online bool, pre, sess byte, msgs int, in ...string) {
		emit(class, caseSpec{protocol: p0, online: online, pre: pre, sess: sess, msgs: msgs, inputs: in})
	}
	// ---- deferred completion: PreLogin subscribers sent login plugin messages ----
	run.Case("shape", "shape state-before-prelogin", shapeStateBeforePreLogin())
	fm("fixed-deferred", true, 'a', 'j', 1, nm("Bob_01"), "P:1", "E:v:k")
	fm("fixed-deferred", true, 'a', 'j', 2, nm("Bob_02"), "P:2", "P:1", "E:v:k")
	fm("fixed-deferred", true, 'a', 'j', 2, nm("Bob_03"), "P:1", "P:1", "P:7", "P:2", "E:v:k")
	fm("fixed-deferred", false, 'a', 'j', 1, nm("Bob_04"), "P:1")
	fm("fixed-deferred", true, 'a', 'j', 1, nm("svc_05"), "P:1")
	fm("fixed-deferred", true, 'd', 'j', 2, nm("Bob_06"), "P:1")
	// the red-team scenario: a second login start / an encryption response / garbage while a message is outstanding
	fm("fixed-deferred-order", true, 'a', 'j', 1, nm("svc_07"), nm("Notch_07"), "P:1", "P:2")
	fm("fixed-deferred-order", true, 'a', 'j', 1, nm("Bob_08"), nm("Bob_08"), "P:1", "P:2", "E:v:k")
	fm("fixed-deferred-order", true, 'a', 'j', 2, nm("svc_09"), "P:1", nm("Notch_09"), "P:2", "P:3", "P:4")
	fm("fixed-deferred-order", true, 'a', 'j', 1, nm("Bob_10"), "E:v:k", "P:1")
	fm("fixed-deferred-order", true, 'a', 'j', 1, nm("Bob_11"), "U", "P:1")
	fm("fixed-deferred-order", true, 'a', 'j', 1, nm("Bob_12"), "A", "P:1")
	fm("fixed-deferred-order", false, 'a', 'j', 1, nm("Bob_13"), nm("Eve_13"), "P:1")

	// ---- 1.19 – 1.19.2: profile keys and salted encryption responses ----
	for _, pv := range []proto.Protocol{version.Minecraft_1_19.Protocol, version.Minecraft_1_19_1.Protocol} {
		fk := func(class string, forceKey bool, in ...string) {
			emit(class, caseSpec{protocol: pv, online: true, pre: 'a', sess: 'j', forceKey: forceKey, inputs: in})
		}
		fk("fixed-keyera", false, nm("Kay_01"), "E:v:k")     // keyless, plain form: admitted
		fk("fixed-keyera", false, nm("Kay_02"), "E:v:k:s")   // keyless, salted form carrying the RIGHT encrypted token: admitted
		fk("fixed-keyera", false, nm("Kay_03"), "E:g:k:s")   // keyless, salted form with garbage: the token is NOT verified by a salt
		fk("fixed-keyera", false, nm("Kay_04"), "E:w:k:s")   // keyless, salted form with another token
		fk("fixed-keyera", false, nm("Kay_05"), "E:w:k")
		fk("fixed-keyera", true, nm("Kay_06"), "E:v:k")      // keys forced, none sent
		fk("fixed-keyera", false, nm("Kay_07")+":x", "E:v:k") // expired key
		fk("fixed-keyera", false, nm("Kay_08")+":i", "E:g:k:s") // wrongly signed key
		fk("fixed-keyera", true, nm("Kay_09")+":i", "E:v:k")
	}
	fx("fixed-keyera", true, 'a', 'j', nm("Kay_10")+":i", "E:g:k:s") // other protocols: neither key nor salt exist on the wire

	g := &gen{r: run.Rng}
	n := run.Scale(1500, 15000)
	for i := 0; i < n; i++ {
		cs := caseSpec{protocol: hx.Pick(g.r, protocols), online: g.r.Chance(3, 4)}
		cs.pre = hx.Pick(g.r, []byte("aaaaadnf"))
		cs.sess = hx.Pick(g.r, []byte("jjjjjjonuembx"))
		cs.msgs = hx.Pick(g.r, []int{0, 0, 1, 1, 2})
		cs.forceKey = g.r.Chance(1, 4)
		cs.inputs = g.sequence()
		class := "online"
		if !cs.online {
			class = "offline"
		}
		emit(fmt.Sprintf("%s-pre%c-sess%c-msgs%d", class, cs.pre, cs.sess, cs.msgs), cs)
	}
}
