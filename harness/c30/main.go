// C30 correspondence harness: drives the real Lite StrategyManager, the per-attempt nextBackend closure
// (via findRoute) and tryBackends.
package main

import (
	"context"
	"errors"
	"fmt"
	"net"
	"sort"
	"strconv"
	"strings"
	"sync"
	"time"

	"github.com/go-logr/logr"
	"go.minekube.com/gate/pkg/edition/java/lite"
	"go.minekube.com/gate/pkg/edition/java/lite/config"
	"go.minekube.com/gate/pkg/edition/java/netmc"
	"go.minekube.com/gate/pkg/edition/java/proto/packet"
	"go.minekube.com/gate/pkg/gate/proto"
	"go.minekube.com/gate/pkg/util/netutil"

	"verifharness/hx"
)

const guard = 20 * time.Second

func hexList(xs []string) string {
	if len(xs) == 0 {
		return "_"
	}
	q := make([]string, len(xs))
	for i, x := range xs {
		q[i] = hx.HexS(x)
	}
	return strings.Join(q, ",")
}

// Go's parse result for every distinct address: <addr>=! (error) or <addr>=<parsed text>:<port>
func parseTable(addrs []string) string {
	seen := map[string]bool{}
	var out []string
	for _, a := range addrs {
		if seen[a] {
			continue
		}
		seen[a] = true
		p, err := netutil.Parse(a, "tcp")
		if err != nil {
			out = append(out, hx.HexS(a)+"=!")
			continue
		}
		_, port := netutil.HostPort(p)
		out = append(out, hx.HexS(a)+"="+hx.HexS(p.String())+":"+strconv.Itoa(int(port)))
	}
	if len(out) == 0 {
		return "_"
	}
	return strings.Join(out, ",")
}

type fakeClient struct {
	netmc.MinecraftConn // nil: findRoute only needs Conn()
	c                   net.Conn
}

func (f *fakeClient) Conn() net.Conn { return f.c }

type stubConn struct{ net.Conn }

func (stubConn) RemoteAddr() net.Addr { return &net.TCPAddr{IP: net.IPv4(192, 0, 2, 7), Port: 50000} }

// ---------- state mirrored by the model ----------

type world struct {
	sm    *lite.StrategyManager
	slots []func() // closures of TrackConnection / IncrementConnection (nil once called)
}

func newWorld() *world { return &world{sm: lite.NewStrategyManager()} }

type capReached struct{}

// runs the real tryBackends over the real nextBackend closure; dial outcome by address set.
// dial outcomes are a property of the backend, not of its spelling: close the ok set under "same address once
// the default port is applied" (input generation only; keeps the trace deterministic for the random strategy)
func normForOutcome(a string) string {
	p, err := netutil.Parse(a, "tcp")
	if err != nil {
		return "!" + a
	}
	if _, port := netutil.HostPort(p); port == 0 {
		return net.JoinHostPort(p.String(), "25565")
	}
	return p.String()
}

func closeOkSet(backends, okSet []string) []string {
	okNorm := map[string]bool{}
	for _, o := range okSet {
		okNorm[normForOutcome(o)] = true
	}
	var out []string
	seen := map[string]bool{}
	for _, b := range backends {
		if okNorm[normForOutcome(b)] && !seen[b] {
			seen[b] = true
			out = append(out, b)
		}
	}
	return out
}

func (w *world) attempt(run *hx.Run, class string, strategy, host string, backends []string, okSet []string) {
	okSet = closeOkSet(backends, okSet)
	op := fmt.Sprintf("att %s %s %s %s %s", strategy, hx.HexS(host), hexList(backends), parseTable(backends), hexList(okSet))
	var connected string
	out := hx.Guard(guard, func() string {
		rs := []config.Route{{Host: []string{host}, Backend: append([]string(nil), backends...), Strategy: config.Strategy(strategy)}}
		hs := &packet.Handshake{ProtocolVersion: 765, ServerAddress: host, Port: 25565, NextStatus: 2}
		_, routeHost, next, err := lite.C30FindRoute(rs, logr.Discard(), &fakeClient{c: stubConn{}}, hs, w.sm)
		if err != nil || next == nil {
			return "noroute"
		}
		ok := map[string]bool{}
		for _, a := range okSet {
			ok[a] = true
		}
		var dials []string
		limit := 3*len(backends) + 6
		res := ""
		func() {
			defer func() {
				if r := recover(); r != nil {
					if _, is := r.(capReached); is {
						res = "running"
						return
					}
					panic(r)
				}
			}()
			addr, err := lite.C30TryBackends(next, func(a string) error {
				if len(dials) >= limit {
					panic(capReached{})
				}
				dials = append(dials, a)
				if ok[a] {
					return nil
				}
				return errors.New("dial failed")
			})
			if err != nil {
				res = "fail"
			} else {
				res = "ok:" + hx.HexS(addr)
				connected = addr
			}
		}()
		s := "dials=" + hexList(dials) + " res=" + res
		if connected != "" {
			// what Forward does after a successful dial
			w.slots = append(w.slots, w.sm.TrackConnection(routeHost, connected))
			s += fmt.Sprintf(" slot=%d active=%d", len(w.slots)-1, w.sm.ActiveConnections())
		}
		return s
	})
	run.Case(class, op, out)
}

func (w *world) pick(run *hx.Run, class string, strategy, host string, backends []string) {
	out := hx.Guard(guard, func() string {
		r := &config.Route{Strategy: config.Strategy(strategy)}
		b, _, ok := w.sm.GetNextBackend(logr.Discard(), r, host, append([]string(nil), backends...))
		if !ok {
			return "none"
		}
		if strategy == "random" {
			for _, x := range backends {
				if x == b {
					return "member"
				}
			}
			return "alien:" + hx.HexS(b)
		}
		return hx.HexS(b)
	})
	run.Case(class, fmt.Sprintf("pick %s %s %s", strategy, hx.HexS(host), hexList(backends)), out)
}

func (w *world) open(run *hx.Run, class string, host, backend string) {
	out := hx.Guard(guard, func() string {
		w.slots = append(w.slots, w.sm.TrackConnection(host, backend))
		return fmt.Sprintf("slot=%d active=%d", len(w.slots)-1, w.sm.ActiveConnections())
	})
	run.Case(class, fmt.Sprintf("open %s %s", hx.HexS(host), hx.HexS(backend)), out)
}

func (w *world) inc(run *hx.Run, class string, backend string) {
	out := hx.Guard(guard, func() string {
		w.slots = append(w.slots, w.sm.IncrementConnection(backend))
		return fmt.Sprintf("slot=%d active=%d", len(w.slots)-1, w.sm.ActiveConnections())
	})
	run.Case(class, fmt.Sprintf("inc %s", hx.HexS(backend)), out)
}

func (w *world) close(run *hx.Run, class string, slot int) {
	out := hx.Guard(guard, func() string {
		if slot >= len(w.slots) || w.slots[slot] == nil {
			return "noslot"
		}
		w.slots[slot]()
		w.slots[slot] = nil
		return fmt.Sprintf("active=%d", w.sm.ActiveConnections())
	})
	run.Case(class, fmt.Sprintf("close %d", slot), out)
}

func (w *world) lat(run *hx.Run, class string, backend string, ns int64) {
	out := hx.Guard(guard, func() string { w.sm.RecordLatency(backend, time.Duration(ns)); return "ok" })
	run.Case(class, fmt.Sprintf("lat %s %d", hx.HexS(backend), ns), out)
}

func (w *world) openSlots() []int {
	var o []int
	for i, f := range w.slots {
		if f != nil {
			o = append(o, i)
		}
	}
	return o
}

// n goroutines open concurrently, then close concurrently.
func concOpenClose(run *hx.Run, class string, n int, host string, backends []string) {
	out := hx.Guard(60*time.Second, func() string {
		sm := lite.NewStrategyManager()
		closers := make([]func(), n)
		var wg sync.WaitGroup
		start := make(chan struct{})
		for i := 0; i < n; i++ {
			wg.Add(1)
			go func(i int) {
				defer wg.Done()
				<-start
				closers[i] = sm.TrackConnection(host, backends[i%len(backends)])
			}(i)
		}
		close(start)
		wg.Wait()
		peak := sm.ActiveConnections()
		// half of them close while the other half open again and close: counts must still add up
		extra := make([]func(), n/2)
		start2 := make(chan struct{})
		for i := 0; i < n; i++ {
			wg.Add(1)
			go func(i int) {
				defer wg.Done()
				<-start2
				if i < n/2 {
					extra[i] = sm.TrackConnection(host, backends[(i+1)%len(backends)])
				}
				closers[i]()
			}(i)
		}
		close(start2)
		wg.Wait()
		mid := sm.ActiveConnections()
		for _, f := range extra {
			wg.Add(1)
			go func(f func()) { defer wg.Done(); f() }(f)
		}
		wg.Wait()
		// the least-connections view must be back to "all zero": first backend wins
		r := &config.Route{Strategy: config.StrategyLeastConnections}
		b, _, _ := sm.GetNextBackend(logr.Discard(), r, host, backends)
		return fmt.Sprintf("peak=%d mid=%d final=%d least=%s", peak, mid, sm.ActiveConnections(), hx.HexS(b))
	})
	run.Case(class, fmt.Sprintf("conc-open %d %s %s", n, hx.HexS(host), hexList(backends)), out)
}

// n goroutines × k round-robin picks on one route host: every index must be handed out exactly once.
func concRoundRobin(run *hx.Run, class string, n, k int, host string, backends []string) {
	out := hx.Guard(60*time.Second, func() string {
		sm := lite.NewStrategyManager()
		r := &config.Route{Strategy: config.StrategyRoundRobin}
		counts := make([]map[string]int, n)
		var wg sync.WaitGroup
		start := make(chan struct{})
		for i := 0; i < n; i++ {
			counts[i] = map[string]int{}
			wg.Add(1)
			go func(i int) {
				defer wg.Done()
				<-start
				for j := 0; j < k; j++ {
					b, _, _ := sm.GetNextBackend(logr.Discard(), r, host, backends)
					counts[i][b]++
				}
			}(i)
		}
		close(start)
		wg.Wait()
		tot := map[string]int{}
		for _, c := range counts {
			for b, v := range c {
				tot[b] += v
			}
		}
		keys := make([]string, 0, len(tot))
		for b := range tot {
			keys = append(keys, b)
		}
		sort.Strings(keys)
		parts := make([]string, len(keys))
		for i, b := range keys {
			parts[i] = hx.HexS(b) + "=" + strconv.Itoa(tot[b])
		}
		nb, _, _ := sm.GetNextBackend(logr.Discard(), r, host, backends)
		return "counts=" + strings.Join(parts, ",") + " next=" + hx.HexS(nb)
	})
	run.Case(class, fmt.Sprintf("conc-rr %d %d %s %s", n, k, hx.HexS(host), hexList(backends)), out)
}

// ---------- the real lite.Forward with fault injection (connection lifecycle vs. counters) ----------

type fwdClient struct {
	netmc.MinecraftConn // nil: Forward only needs the methods below
	c                   net.Conn
}

func (f *fwdClient) Conn() net.Conn           { return f.c }
func (f *fwdClient) Context() context.Context { return context.Background() }
func (f *fwdClient) Close() error             { return f.c.Close() }

// a client whose reader holds buffered bytes and/or a pending read error (netmc's ReadBuffered)
type fwdBufClient struct {
	fwdClient
	buf []byte
	err error
}

func (f *fwdBufClient) ReadBuffered() ([]byte, error) { return f.buf, f.err }

type acceptEv struct {
	li int
	c  net.Conn
}

type fwdSlot struct {
	clientSide net.Conn
	backend    net.Conn
	done       chan struct{}
	open       bool
}

type fwdWorld struct {
	lns      []net.Listener
	addrs    []string
	acceptCh chan acceptEv
	sm       *lite.StrategyManager
	slots    []*fwdSlot
}

func newFwdWorld(n int) *fwdWorld {
	w := &fwdWorld{acceptCh: make(chan acceptEv, 64), sm: lite.NewStrategyManager()}
	for i := 0; i < n; i++ {
		ln, err := net.Listen("tcp", "127.0.0.1:0")
		if err != nil {
			panic(err)
		}
		w.lns = append(w.lns, ln)
		w.addrs = append(w.addrs, ln.Addr().String())
		go func(i int, ln net.Listener) {
			for {
				c, err := ln.Accept()
				if err != nil {
					return
				}
				w.acceptCh <- acceptEv{i, c}
			}
		}(i, ln)
	}
	return w
}

func (w *fwdWorld) real(tok string) string {
	if tok[0] == 'L' {
		i, _ := strconv.Atoi(tok[1:])
		return w.addrs[i]
	}
	return "[bad" + tok[1:] // does not parse: the dial fails at once
}

func (w *fwdWorld) counts() string {
	parts := make([]string, len(w.addrs))
	for i, a := range w.addrs {
		parts[i] = strconv.Itoa(int(w.sm.GetOrCreateCounter(a).Load()))
	}
	return fmt.Sprintf("active=%d cnt=%s", w.sm.ActiveConnections(), strings.Join(parts, ","))
}

// flush: a marker connection per listener; accepts are FIFO per listener, so once every marker has come through,
// every connection dialled before has been seen.  Returns the non-marker connections found.
func (w *fwdWorld) flushAccepts() []acceptEv {
	markers := map[string]bool{}
	var mine []net.Conn
	for _, a := range w.addrs {
		c, err := net.Dial("tcp", a)
		if err != nil {
			panic(err)
		}
		markers[c.LocalAddr().String()] = true
		mine = append(mine, c)
	}
	var found []acceptEv
	for seen := 0; seen < len(w.addrs); {
		select {
		case ev := <-w.acceptCh:
			if markers[ev.c.RemoteAddr().String()] {
				seen++
				_ = ev.c.Close()
			} else {
				found = append(found, ev)
			}
		case <-time.After(5 * time.Minute):
			panic("marker connection not accepted")
		}
	}
	for _, c := range mine {
		_ = c.Close()
	}
	return found
}

func (w *fwdWorld) fopen(run *hx.Run, class, strategy, host, routeHost string, toks []string, mode string) {
	out := hx.Guard(15*time.Minute, func() string {
		backends := make([]string, len(toks))
		for i, t := range toks {
			backends[i] = w.real(t)
		}
		rs := []config.Route{{Host: []string{routeHost}, Backend: backends, Strategy: config.Strategy(strategy)}}
		clientSide, proxySide := net.Pipe()
		var client netmc.MinecraftConn
		base := fwdClient{c: proxySide}
		switch mode {
		case "ok":
			client = &base
		case "okempty":
			client = &fwdBufClient{fwdClient: base}
		case "okbuf":
			client = &fwdBufClient{fwdClient: base, buf: []byte{9, 8, 7, 6, 5}}
		case "flusherr":
			client = &fwdBufClient{fwdClient: base, err: errors.New("read tcp: connection reset by peer")}
		default: // flusherrdata
			client = &fwdBufClient{fwdClient: base, buf: []byte{1, 2}, err: errors.New("read tcp: connection reset by peer")}
		}
		hs := &packet.Handshake{ProtocolVersion: 765, ServerAddress: host, Port: 25565, NextStatus: 2}
		pc := &proto.PacketContext{Direction: proto.ServerBound, Protocol: 765, PacketID: 0, Payload: []byte{0, 1, 2}}
		done := make(chan struct{})
		go func() {
			defer close(done)
			// a generous dial timeout: under machine load a loopback dial that times out would make Forward try the next
			// backend, which is correct behaviour but not the history this case describes
			lite.Forward(10*time.Minute, rs, logr.Discard(), client, hs, pc, w.sm)
		}()
		var ev *acceptEv
		select {
		case <-done:
			if found := w.flushAccepts(); len(found) > 0 {
				ev = &found[0]
				for _, f := range found[1:] {
					_ = f.c.Close()
				}
			}
			_ = clientSide.Close()
			if ev == nil {
				return "end=none " + w.counts()
			}
			_ = ev.c.Close()
			return fmt.Sprintf("end=returned:L%d %s", ev.li, w.counts())
		case e := <-w.acceptCh:
			ev = &e
		case <-time.After(5 * time.Minute):
			return "hang"
		}
		// a backend was dialled.  A write on the client side completes only once Forward is piping; it fails
		// once Forward has returned (it closes the client).
		if _, err := clientSide.Write([]byte{0x7f}); err != nil {
			<-done
			_ = ev.c.Close()
			_ = clientSide.Close()
			return fmt.Sprintf("end=returned:L%d %s", ev.li, w.counts())
		}
		// read at the backend up to the marker byte: the connection is being forwarded now
		_ = ev.c.SetReadDeadline(time.Now().Add(5 * time.Minute))
		one := make([]byte, 1)
		for {
			if _, err := ev.c.Read(one); err != nil {
				return "backend-read-failed"
			}
			if one[0] == 0x7f {
				break
			}
		}
		w.slots = append(w.slots, &fwdSlot{clientSide: clientSide, backend: ev.c, done: done, open: true})
		return fmt.Sprintf("end=open:L%d %s slot=%d", ev.li, w.counts(), len(w.slots)-1)
	})
	run.Case(class, fmt.Sprintf("fopen %s %s %s %s %s", strategy, hx.HexS(host), hx.HexS(routeHost), strings.Join(toks, ","), mode), out)
}

func (w *fwdWorld) fclose(run *hx.Run, class string, slot int) {
	out := hx.Guard(15*time.Minute, func() string {
		sl := w.slots[slot]
		sl.open = false
		_ = sl.clientSide.Close()
		select {
		case <-sl.done:
		case <-time.After(5 * time.Minute):
			return "hang"
		}
		_ = sl.backend.Close()
		return w.counts()
	})
	run.Case(class, fmt.Sprintf("fclose %d", slot), out)
}

func (w *fwdWorld) openSlots() []int {
	var o []int
	for i, s := range w.slots {
		if s.open {
			o = append(o, i)
		}
	}
	return o
}

func (w *fwdWorld) reset(run *hx.Run) {
	for _, i := range w.openSlots() {
		w.fclose(run, "fclose-drain", i)
	}
	w.sm = lite.NewStrategyManager()
	w.slots = nil
	run.Case("reset", "reset", "ok")
}

var fwdStrategies = []string{"sequential", "round-robin", "least-connections", ""}
var fwdModes = []string{"ok", "okempty", "okbuf", "flusherr", "flusherr", "flusherrdata"}

func genFwdToks(r *hx.Rng, nl int) []string {
	n := 1 + r.Intn(4)
	t := make([]string, n)
	for i := range t {
		if r.Chance(1, 4) {
			t[i] = "X" + strconv.Itoa(r.Intn(2))
		} else {
			t[i] = "L" + strconv.Itoa(r.Intn(nl))
		}
	}
	return t
}

func forwardHistories(run *hx.Run, fw *fwdWorld, n int) {
	r := run.Rng
	for h := 0; h < n; h++ {
		fw.reset(run)
		strat := hx.Pick(r, fwdStrategies)
		toks := genFwdToks(r, len(fw.addrs))
		steps := 4 + r.Intn(14)
		for s := 0; s < steps; s++ {
			switch k := r.Intn(10); {
			case k < 6:
				host := "play"
				if r.Chance(1, 10) {
					host = "elsewhere"
				}
				tk := toks
				if r.Chance(1, 5) {
					tk = genFwdToks(r, len(fw.addrs))
				}
				mode := hx.Pick(r, fwdModes)
				fw.fopen(run, "fopen-"+mode, strat, host, "play", tk, mode)
			default:
				if o := fw.openSlots(); len(o) > 0 {
					fw.fclose(run, "fclose", hx.Pick(r, o))
				} else {
					fw.fopen(run, "fopen-ok", strat, "play", "play", toks, "ok")
				}
			}
		}
	}
	fw.reset(run)
}

// Counter-drift probe.  One connection is held open per backend.  In every round, for every backend at the same
// time, one goroutine closes the held connection (the count drops to zero and the counter is deleted) while
// another opens the next one.  After each round (a barrier: nothing in flight, exactly one connection open per
// backend) the per-backend least-connections counters and ActiveConnections() are read; the harness reports the
// minimum and maximum seen per backend over all barriers, and the table after everything was closed.
// No judgement is made here: the driver's spec (count == number of open connections) decides.
func concCounterDrift(run *hx.Run, class string, rounds int, host string, backends []string) {
	out := hx.Guard(120*time.Second, func() string {
		sm := lite.NewStrategyManager()
		nb := len(backends)
		held := make([]func(), nb)
		for i, b := range backends {
			held[i] = sm.TrackConnection(host, b)
		}
		minC, maxC := make([]uint32, nb), make([]uint32, nb)
		for i := range minC {
			minC[i] = ^uint32(0)
		}
		minA, maxA := ^uint32(0), uint32(0)
		read := func(final bool) []uint32 {
			t := make([]uint32, nb)
			for i, b := range backends {
				t[i] = sm.GetOrCreateCounter(b).Load()
			}
			return t
		}
		for r := 0; r < rounds; r++ {
			var wg sync.WaitGroup
			start := make(chan struct{})
			next := make([]func(), nb)
			for i := range backends {
				wg.Add(2)
				go func(i int) { defer wg.Done(); <-start; held[i]() }(i)
				go func(i int) { defer wg.Done(); <-start; next[i] = sm.TrackConnection(host, backends[i]) }(i)
			}
			close(start)
			wg.Wait()
			held = next
			for i, c := range read(false) {
				if c < minC[i] {
					minC[i] = c
				}
				if c > maxC[i] {
					maxC[i] = c
				}
			}
			a := sm.ActiveConnections()
			if a < minA {
				minA = a
			}
			if a > maxA {
				maxA = a
			}
		}
		for _, f := range held {
			f()
		}
		fin := read(true)
		parts := make([]string, nb)
		fparts := make([]string, nb)
		for i, b := range backends {
			parts[i] = fmt.Sprintf("%s:%d:%d", hx.HexS(b), minC[i], maxC[i])
			fparts[i] = fmt.Sprintf("%s:%d", hx.HexS(b), fin[i])
		}
		return fmt.Sprintf("barriers=%d open=1 counts=%s active=%d:%d final=%s factive=%d", rounds,
			strings.Join(parts, ","), minA, maxA, strings.Join(fparts, ","), sm.ActiveConnections())
	})
	run.Case(class, fmt.Sprintf("conc-ctr %d %s %s", rounds, hx.HexS(host), hexList(backends)), out)
}

func concRandom(run *hx.Run, class string, n, k int, backends []string) {
	out := hx.Guard(60*time.Second, func() string {
		sm := lite.NewStrategyManager()
		r := &config.Route{Strategy: config.StrategyRandom}
		set := map[string]bool{}
		for _, b := range backends {
			set[b] = true
		}
		bad := make([]int, n)
		var wg sync.WaitGroup
		start := make(chan struct{})
		for i := 0; i < n; i++ {
			wg.Add(1)
			go func(i int) {
				defer wg.Done()
				defer func() {
					if recover() != nil {
						bad[i] = -1000000
					}
				}()
				<-start
				for j := 0; j < k; j++ {
					b, _, ok := sm.GetNextBackend(logr.Discard(), r, "h", backends)
					if !ok || !set[b] {
						bad[i]++
					}
				}
			}(i)
		}
		close(start)
		wg.Wait()
		for _, v := range bad {
			if v < 0 {
				return "panic"
			}
			if v > 0 {
				return "alien"
			}
		}
		return "member"
	})
	run.Case(class, fmt.Sprintf("conc-rand %d %d %s", n, k, hexList(backends)), out)
}

// ---------- generators ----------

var hostsPool = []string{"a", "b", "c", "d", "A", "B", "localhost", "10.0.0.1", "10.0.0.2", "::1", "[::1]", "srv.example.com", "h"}
var portsPool = []string{"", "", ":25565", ":25565", ":25566", ":0", ":1", ":65536", ":65535"}
var brokenPool = []string{"[a", "a]:1", "[::1]x:1", "a:", "a:x", "[.internal:25565", "b:-", "[b]c"}
var strategies = []string{"sequential", "random", "round-robin", "least-connections", "lowest-latency", "", "bogus"}

func genAddr(r *hx.Rng, broken int) string {
	if r.Intn(100) < broken {
		return hx.Pick(r, brokenPool)
	}
	return hx.Pick(r, hostsPool) + hx.Pick(r, portsPool)
}

func genBackends(r *hx.Rng, maxN, broken int) []string {
	n := 1 + r.Intn(maxN)
	pool := make([]string, 1+r.Intn(4)) // a small pool makes duplicates and re-spellings frequent
	for i := range pool {
		pool[i] = genAddr(r, broken)
	}
	bs := make([]string, n)
	for i := range bs {
		if r.Chance(2, 3) {
			bs[i] = hx.Pick(r, pool)
		} else {
			bs[i] = genAddr(r, broken)
		}
	}
	return bs
}

func genOkSet(r *hx.Rng, bs []string) []string {
	switch r.Intn(4) {
	case 0:
		return nil
	case 1:
		return []string{bs[len(bs)-1]}
	}
	var ok []string
	for _, b := range bs {
		if r.Chance(1, 4) {
			ok = append(ok, b)
		}
	}
	return ok
}

func main() {
	run := hx.Start()
	r := run.Rng

	// ---- fixed regression cases first ----
	w := newWorld()
	run.Case("fixed", "reset", "ok")
	w.attempt(run, "fixed-attempt", "sequential", "x", []string{"a:25565", "a", "A", "b:1", "b:1"}, nil)
	w.attempt(run, "fixed-attempt", "sequential", "x", []string{"[.internal:25565", "fallback:25565"}, nil)
	w.attempt(run, "fixed-attempt", "sequential", "x", []string{"[.internal:25565", "fallback:25565"}, []string{"fallback:25565"})
	w.attempt(run, "fixed-attempt", "sequential", "x", []string{"::1", "[::1]:25565", "h:0", "h", "h:65536"}, nil)
	w.attempt(run, "fixed-attempt", "random", "x", []string{"a", "a:25565", "a:x", "a:x"}, nil)
	w.attempt(run, "fixed-attempt", "round-robin", "x", []string{"a", "b", "c"}, nil)
	w.attempt(run, "fixed-attempt", "round-robin", "x", []string{"a", "b", "c"}, []string{"a", "b", "c"})
	w.attempt(run, "fixed-attempt", "round-robin", "x", []string{"a", "b", "c"}, []string{"a", "b", "c"})
	w.attempt(run, "fixed-attempt", "least-connections", "x", []string{"a", "b", "c"}, []string{"a", "b", "c"})
	w.attempt(run, "fixed-attempt", "least-connections", "x", []string{"a", "b", "c"}, []string{"a", "b", "c"})
	w.lat(run, "fixed", "a", 3000)
	w.attempt(run, "fixed-attempt", "lowest-latency", "x", []string{"a", "b", "c"}, []string{"a", "b", "c"})
	w.lat(run, "fixed", "b", 2000)
	w.lat(run, "fixed", "c", 2000)
	w.pick(run, "fixed-pick", "lowest-latency", "x", []string{"a", "b", "c"})
	w.lat(run, "fixed", "c", 0)
	w.pick(run, "fixed-pick", "lowest-latency", "x", []string{"a", "c", "b"})
	w.pick(run, "fixed-pick", "least-connections", "x", []string{"", "a"})
	for _, s := range w.openSlots() {
		w.close(run, "fixed", s)
	}
	concOpenClose(run, "fixed-conc", 16, "Host", []string{"a", "b:25565", "B"})
	concRoundRobin(run, "fixed-conc", 8, 30, "rr", []string{"a", "b", "c"})
	concRandom(run, "fixed-conc", 8, 200, []string{"a", "b", "c"})
	concCounterDrift(run, "fixed-conc", run.Scale(6000, 30000), "x", []string{"busy.example.test:25565", "b", "c:1"})

	// ---- the real Forward: every way a call can end vs. the counters (fixed cases, then generated) ----
	fw := newFwdWorld(3)
	fw.reset(run)
	fw.fopen(run, "fixed-fwd", "least-connections", "play", "play", []string{"L0", "L1"}, "ok")
	fw.fclose(run, "fixed-fwd", 0)
	for i := 0; i < 3; i++ {
		fw.fopen(run, "fixed-fwd", "least-connections", "play", "play", []string{"L0", "L1"}, "flusherr")
	}
	fw.fopen(run, "fixed-fwd", "least-connections", "play", "play", []string{"L0", "L1"}, "okbuf")
	fw.fopen(run, "fixed-fwd", "least-connections", "play", "play", []string{"L0", "L1"}, "ok")
	fw.fopen(run, "fixed-fwd", "sequential", "play", "play", []string{"X0", "X1"}, "ok")
	fw.fopen(run, "fixed-fwd", "sequential", "nomatch", "play", []string{"L0"}, "ok")
	fw.fopen(run, "fixed-fwd", "sequential", "play", "play", []string{"X0", "L2", "L2"}, "flusherrdata")
	forwardHistories(run, fw, run.Scale(40, 600))

	// ---- generated sequential histories ----
	nHist := run.Scale(700, 6000)
	for h := 0; h < nHist; h++ {
		w = newWorld()
		run.Case("reset", "reset", "ok")
		steps := 6 + r.Intn(run.Scale(30, 60))
		broken := 0
		if r.Chance(1, 3) {
			broken = 12
		}
		baseList := genBackends(r, 6, broken)
		host := hx.Pick(r, []string{"x", "play", "Lobby"})
		strat := hx.Pick(r, strategies)
		for s := 0; s < steps; s++ {
			switch k := r.Intn(20); {
			case k < 7:
				bs := baseList
				if r.Chance(1, 4) {
					bs = genBackends(r, 6, broken)
				}
				st := strat
				if r.Chance(1, 5) {
					st = hx.Pick(r, strategies)
				}
				w.attempt(run, "attempt-"+orDefault(st), st, host, bs, genOkSet(r, bs))
			case k < 10:
				st := hx.Pick(r, strategies)
				bs := baseList
				if r.Chance(1, 3) {
					bs = genBackends(r, 5, 0)
				}
				w.pick(run, "pick-"+orDefault(st), st, host, bs)
			case k < 12:
				w.lat(run, "lat", hx.Pick(r, baseList), int64(hx.Pick(r, []int{1, 2, 1000, 1000, 5000000, 7, 0})))
			case k < 14:
				w.open(run, "open", hx.Pick(r, []string{host, strings.ToUpper(host), "other"}), hx.Pick(r, baseList))
			case k < 15:
				w.inc(run, "inc", hx.Pick(r, baseList))
			default:
				if o := w.openSlots(); len(o) > 0 {
					w.close(run, "close", hx.Pick(r, o))
				} else {
					w.open(run, "open", host, hx.Pick(r, baseList))
				}
			}
		}
		if r.Bool() { // drain: the count must return to zero
			for _, s := range w.openSlots() {
				w.close(run, "close-drain", s)
			}
		}
	}

	// ---- concurrent aggregate checks ----
	for i := 0; i < run.Scale(12, 120); i++ {
		bs := genBackends(r, 4, 0)
		concOpenClose(run, "conc-open", 2+r.Intn(run.Scale(24, 64)), hx.Pick(r, []string{"x", "Play"}), bs)
		concRoundRobin(run, "conc-rr", 2+r.Intn(8), 1+r.Intn(run.Scale(40, 300)), "rr"+strconv.Itoa(i), bs)
		concRandom(run, "conc-rand", 2+r.Intn(8), 50+r.Intn(200), bs)
		distinct := []string{"a:25565", "B", "10.0.0.1:1", "[::1]:25566"}[:1+r.Intn(4)]
		concCounterDrift(run, "conc-ctr", run.Scale(1500, 4000), hx.Pick(r, []string{"x", "Play"}), distinct)
	}

	run.Finish()
}

func orDefault(s string) string {
	if s == "" {
		return "default"
	}
	return s
}
