// C17 correspondence harness: drives the REAL getVirtualHostname / nextServerToTry / handleConnectionErr2 /
// handleKickEvent of pkg/edition/java/proxy through the verif hook (export_verif_c17.go) on a real Proxy
// (proxy.New + Proxy.Register, public API) with backends whose Dial always fails.
//
// Case lines (stateful; `reset` starts a new world):
//
//	vh <vhostHex>                                   → hex of getVirtualHostname()
//	vhs <hostHex> <vhostHex>                        → same; the vhost is a structured spelling of <host>
//	                                                  (host + optional Forge/TCPShield suffix + optional :port)
//	reset <vhostHex> <forced> <try> <registered>    → ok         forced: keyHex=n,n;keyHex=n | -   lists: n,n | -
//	next <current|->                                → ret=<name|-> idx=<tryIndex> list=<n,n|->
//	conn <name|->   /  infl <name|->                → ok         (setConnectedServer / setInFlightConnection)
//	kick <name> <safe> <e|d>                        → <event>|<event>|… active=<0|1> idx=<i> conn=<n|-> infl=<n|-> dials=<k>
//	      e: handleConnectionErr2(rs, kick reason "K", friendly reason "F", safe)
//	      d: handleDisconnectWithReason(rs, "K", safe)            (a backend kick)
//	   event = <from>><D|R|N>:<during 0|1>:<target or hex of the plain reason>
//	   Every redirect dials the target, the dial fails, and the real code handles that failure itself: one
//	   `kick` line is a whole SEQUENCE OF FAILURES.  A chain longer than 25 dials is cut (`runaway`).
package main

import (
	"context"
	"errors"
	"fmt"
	"net"
	"sort"
	"strings"
	"sync"
	"time"

	"github.com/robinbraemer/event"
	"go.minekube.com/common/minecraft/component"
	"go.minekube.com/gate/pkg/edition/java/config"
	"go.minekube.com/gate/pkg/edition/java/proxy"
	"go.minekube.com/gate/pkg/util/netutil"

	"verifharness/e2e"
	"verifharness/hx"
)

// ---------- world ----------

type dialInfo struct {
	name string
	port int
	w    *world
}

func (d *dialInfo) Name() string   { return d.name }
func (d *dialInfo) Addr() net.Addr { return &net.TCPAddr{IP: net.IPv4(10, 0, 0, 1), Port: d.port} }
func (d *dialInfo) Dial(ctx context.Context, player proxy.Player) (net.Conn, error) {
	d.w.mu.Lock()
	d.w.dials++
	n := d.w.dials
	d.w.mu.Unlock()
	if n > 25 {
		// the real code keeps redirecting to failing servers without bound (it would end in a fatal stack
		// overflow): end the player's session so that the recursion unwinds
		d.w.runaway = true
		player.Disconnect(&component.Text{Content: "runaway"})
	}
	return nil, errors.New("connection refused")
}

type world struct {
	px      *proxy.Proxy
	pl      *proxy.C17Player
	reg     map[string]proxy.RegisteredServer
	client  *e2e.PipeConn
	server  *e2e.PipeConn
	mu      sync.Mutex
	events  []string
	dials   int
	runaway bool
}

func plain(c component.Component) string {
	switch t := c.(type) {
	case nil:
		return ""
	case *component.Text:
		var b strings.Builder
		b.WriteString(t.Content)
		for _, e := range t.Extra {
			b.WriteString(plain(e))
		}
		return b.String()
	default:
		return fmt.Sprintf("<%T>", c)
	}
}

func newWorld(vhost string, forced map[string][]string, try []string, registered []string) (*world, error) {
	cfg := config.DefaultConfig
	cfg.OnlineMode = false
	cfg.Forwarding.Mode = config.NoneForwardingMode
	cfg.Quota.Connections.Enabled = false
	cfg.Quota.Logins.Enabled = false
	cfg.BungeePluginChannelEnabled = false
	cfg.ConnectionTimeout = 2000
	cfg.Servers = map[string]string{}
	cfg.Try = try
	cfg.ForcedHosts = forced
	px, err := proxy.New(proxy.Options{Config: &cfg, EventMgr: event.New()})
	if err != nil {
		return nil, err
	}
	w := &world{px: px, reg: map[string]proxy.RegisteredServer{}}
	for i, n := range registered {
		rs, err := px.Register(&dialInfo{name: n, port: 30000 + i, w: w})
		if err != nil {
			return nil, fmt.Errorf("register %q: %w", n, err)
		}
		w.reg[n] = rs
	}
	w.client, w.server = e2e.Pipe(&net.TCPAddr{IP: net.IPv4(10, 0, 0, 7), Port: 50000}, &net.TCPAddr{IP: net.IPv4(10, 0, 0, 2), Port: 25565})
	w.pl = proxy.C17NewPlayer(px, w.server, "verif", netutil.NewAddr(vhost, "tcp"))
	event.Subscribe(px.Event(), 0, func(e *proxy.KickedFromServerEvent) {
		during := 0
		if e.KickedDuringServerConnect() {
			during = 1
		}
		s := e.Server().ServerInfo().Name() + ">"
		switch r := e.Result().(type) {
		case *proxy.DisconnectPlayerKickResult:
			s += fmt.Sprintf("D:%d:%s", during, hx.HexS(plain(r.Reason)))
		case *proxy.RedirectPlayerKickResult:
			s += fmt.Sprintf("R:%d:%s", during, r.Server.ServerInfo().Name())
		case *proxy.NotifyKickResult:
			s += fmt.Sprintf("N:%d:%s", during, hx.HexS(plain(r.Message)))
		default:
			s += "?"
		}
		w.mu.Lock()
		w.events = append(w.events, s)
		w.mu.Unlock()
	})
	return w, nil
}

func dash(s string) string {
	if s == "" {
		return "-"
	}
	return s
}
func list(xs []string) string {
	if len(xs) == 0 {
		return "-"
	}
	return strings.Join(xs, ",")
}

func (w *world) state() string {
	l, i := w.pl.TryState()
	return fmt.Sprintf("idx=%d list=%s", i, list(l))
}

func (w *world) next(cur string) string {
	var c proxy.RegisteredServer
	if cur != "-" {
		c = w.reg[cur]
	}
	r := w.pl.NextServerToTry(c)
	ret := "-"
	if r != nil {
		ret = r.ServerInfo().Name()
	}
	return fmt.Sprintf("ret=%s %s", ret, w.state())
}

func (w *world) kick(name string, safe bool, mode string) string {
	rs := w.reg[name]
	w.mu.Lock()
	w.events = nil
	w.dials = 0
	w.runaway = false
	w.mu.Unlock()
	k := &component.Text{Content: "K"}
	if mode == "d" {
		w.pl.HandleDisconnectWithReason(rs, k, safe)
	} else {
		w.pl.HandleConnectionErr2(rs, k, &component.Text{Content: "F"}, safe)
	}
	w.mu.Lock()
	ev := list(nil)
	if len(w.events) > 0 {
		ev = strings.Join(w.events, "|")
	}
	dials, runaway := w.dials, w.runaway
	w.mu.Unlock()
	active := 0
	if w.pl.Active() {
		active = 1
	}
	_, idx := w.pl.TryState()
	c, f := w.pl.Servers()
	out := fmt.Sprintf("%s active=%d idx=%d conn=%s infl=%s dials=%d", ev, active, idx, dash(c), dash(f), dials)
	if runaway {
		out += " runaway"
	}
	return out
}

// ---------- generators ----------

var hostPool = []string{"play.example.com", "mc.example.org", "a.b", "lobby.net", "x", "hub.example.com"}
var namePool = []string{"lobby", "hub", "pvp", "s1", "s2", "survival", "Lobby", "HUB", "Pvp", "S1"}

func mixCase(r *hx.Rng, s string) string {
	b := []byte(s)
	for i := range b {
		if r.Chance(1, 3) {
			if b[i] >= 'a' && b[i] <= 'z' {
				b[i] -= 32
			} else if b[i] >= 'A' && b[i] <= 'Z' {
				b[i] += 32
			}
		}
	}
	return string(b)
}

// spelling produces what session_client_handshake.go builds: "<ServerAddress>:<Port>" where the client's
// ServerAddress may carry Forge (\x00FML\x00…) and TCPShield (///ip///ts) suffixes, odd case, dots.
func spelling(r *hx.Rng, host string) (hostPart, full string) {
	h := host
	if r.Chance(1, 2) {
		h = mixCase(r, h)
	}
	switch r.Intn(8) {
	case 0:
		h += "."
	case 1:
		h = "." + h
	case 2:
		h += ".."
	}
	hostPart = h
	switch r.Intn(6) {
	case 0:
		h += "\x00FML\x00"
	case 1:
		h += "\x00FML2\x00"
	case 2:
		h += "///10.1.2.3:5555///1700000000"
	case 3:
		h += "///10.1.2.3:5555///1700000000\x00FML\x00"
	case 4:
		h += "\x00FML3\x00///1.2.3.4///1"
	}
	if r.Chance(9, 10) {
		h += fmt.Sprintf(":%d", hx.Pick(r, []int{25565, 25566, 1, 65535, 0}))
	}
	return hostPart, h
}

func hostileVhost(r *hx.Rng) string {
	alphabet := []string{"a", "B", ".", ":", "[", "]", "/", "//", "///", "\x00", "1", "-", "Z", "::", "]:"}
	n := r.Intn(9)
	var b strings.Builder
	for i := 0; i < n; i++ {
		b.WriteString(hx.Pick(r, alphabet))
	}
	return b.String()
}

func pickNames(r *hx.Rng, pool []string, max int) []string {
	n := r.Intn(max + 1)
	out := make([]string, 0, n)
	for i := 0; i < n; i++ {
		out = append(out, hx.Pick(r, pool))
	}
	return out
}

type scenario struct {
	vhost      string
	forced     map[string][]string
	try        []string
	registered []string
}

func (s scenario) line() string {
	keys := make([]string, 0, len(s.forced))
	for k := range s.forced {
		keys = append(keys, k)
	}
	sort.Strings(keys)
	var fs []string
	for _, k := range keys {
		fs = append(fs, hx.HexS(k)+"="+list(s.forced[k]))
	}
	f := "-"
	if len(fs) > 0 {
		f = strings.Join(fs, ";")
	}
	return fmt.Sprintf("reset %s %s %s %s", hx.HexS(s.vhost), f, list(s.try), list(s.registered))
}

func genScenario(r *hx.Rng, exactCase bool) scenario {
	var s scenario
	pool := namePool[:6]
	if !exactCase {
		pool = namePool
	}
	// registered: distinct modulo case
	seen := map[string]bool{}
	for _, n := range pickNames(r, pool, 5) {
		if !seen[strings.ToLower(n)] {
			seen[strings.ToLower(n)] = true
			s.registered = append(s.registered, n)
		}
	}
	s.try = pickNames(r, pool, 4)
	s.forced = map[string][]string{}
	nf := r.Intn(3)
	for i := 0; i < nf; i++ {
		k := hx.Pick(r, hostPool)
		if !exactCase && r.Chance(1, 4) {
			k = mixCase(r, k) // an API user's un-normalised key
		}
		s.forced[k] = pickNames(r, pool, 3)
	}
	host := hx.Pick(r, hostPool)
	_, s.vhost = spelling(r, host)
	return s
}

func runScenario(run *hx.Run, class string, s scenario, script func(w *world, emit func(op, out string))) {
	w, err := newWorld(s.vhost, s.forced, s.try, s.registered)
	if err != nil {
		run.Case(class+"/reset-err", s.line(), "err")
		return
	}
	run.Case(class+"/reset", s.line(), "ok")
	emit := func(op, out string) { run.Case(class+"/"+strings.SplitN(op, " ", 2)[0], op, out) }
	script(w, emit)
	_ = w.client.Close()
	_ = w.server.Close()
}

func guard(f func() string) string { return hx.Guard(20*time.Second, f) }

func randomScript(r *hx.Rng, s scenario, steps int) func(w *world, emit func(op, out string)) {
	return func(w *world, emit func(op, out string)) {
		pickReg := func() string {
			if len(s.registered) == 0 || r.Chance(1, 5) {
				return "-"
			}
			return hx.Pick(r, s.registered)
		}
		for i := 0; i < steps; i++ {
			switch k := r.Intn(10); {
			case k < 4:
				c := pickReg()
				emit("next "+c, guard(func() string { return w.next(c) }))
			case k < 6:
				c := pickReg()
				emit("conn "+c, guard(func() string {
					if c == "-" {
						w.pl.SetConnected(nil)
					} else {
						w.pl.SetConnected(w.reg[c])
					}
					return "ok"
				}))
			case k < 7:
				c := pickReg()
				emit("infl "+c, guard(func() string {
					if c == "-" {
						w.pl.SetInFlight(nil)
					} else {
						w.pl.SetInFlight(w.reg[c])
					}
					return "ok"
				}))
			default:
				if len(s.registered) == 0 {
					continue
				}
				c := hx.Pick(r, s.registered)
				safe, sv := true, 1
				if r.Chance(1, 8) {
					safe, sv = false, 0
				}
				mode := hx.Pick(r, []string{"e", "e", "d"})
				emit(fmt.Sprintf("kick %s %d %s", c, sv, mode), guard(func() string { return w.kick(c, safe, mode) }))
			}
		}
	}
}

func main() {
	run := hx.Start()
	r := run.Rng
	shared, err := newWorld("x:1", nil, nil, nil)
	if err != nil {
		panic(err)
	}
	// getVirtualHostname of a player built (newConnectedPlayer) with the given virtual host on the shared proxy
	vhOf := func(v string) string {
		_, srv := e2e.Pipe(&net.TCPAddr{IP: net.IPv4(10, 0, 0, 7), Port: 50001}, &net.TCPAddr{IP: net.IPv4(10, 0, 0, 2), Port: 25565})
		defer srv.Close()
		return proxy.C17NewPlayer(shared.px, srv, "verif", netutil.NewAddr(v, "tcp")).VirtualHostname()
	}

	// ---- fixed regression cases first
	fixed := []struct {
		s      scenario
		script func(w *world, emit func(op, out string))
	}{
		// try-list spelling differs in case from the registered server's name: the failed server must not be chosen again
		{scenario{vhost: "play.example.com:25565", try: []string{"Lobby", "hub"}, registered: []string{"lobby", "hub"}},
			func(w *world, emit func(op, out string)) {
				emit("next -", guard(func() string { return w.next("-") }))
				emit("next lobby", guard(func() string { return w.next("lobby") }))
			}},
		{scenario{vhost: "play.example.com:25565", try: []string{"Lobby"}, registered: []string{"lobby"}},
			func(w *world, emit func(op, out string)) {
				emit("kick lobby 1 e", guard(func() string { return w.kick("lobby", true, "e") }))
			}},
		// forced hosts, then exhaustion
		{scenario{vhost: "PLAY.Example.COM\x00FML\x00:25565", forced: map[string][]string{"play.example.com": {"s1", "s2"}},
			try: []string{"lobby"}, registered: []string{"s1", "s2", "lobby"}},
			func(w *world, emit func(op, out string)) {
				emit("next -", guard(func() string { return w.next("-") }))
				emit("kick s1 1 d", guard(func() string { return w.kick("s1", true, "d") }))
			}},
		{scenario{vhost: "other.example.com:25565", forced: map[string][]string{"play.example.com": {"s1"}},
			try: []string{"lobby", "hub", "pvp"}, registered: []string{"lobby", "pvp", "s1"}},
			func(w *world, emit func(op, out string)) {
				emit("next -", guard(func() string { return w.next("-") }))
				emit("conn lobby", guard(func() string { w.pl.SetConnected(w.reg["lobby"]); return "ok" }))
				emit("kick pvp 1 e", guard(func() string { return w.kick("pvp", true, "e") }))
				emit("kick lobby 1 d", guard(func() string { return w.kick("lobby", true, "d") }))
			}},
		// connected to lobby, a switch to hub still in flight, lobby kicks: hub must not be the fallback
		{scenario{vhost: "play.example.com:25565", try: []string{"lobby", "hub", "pvp"}, registered: []string{"lobby", "hub", "pvp"}},
			func(w *world, emit func(op, out string)) {
				emit("conn lobby", guard(func() string { w.pl.SetConnected(w.reg["lobby"]); return "ok" }))
				emit("infl hub", guard(func() string { w.pl.SetInFlight(w.reg["hub"]); return "ok" }))
				emit("kick lobby 1 d", guard(func() string { return w.kick("lobby", true, "d") }))
			}},
		{scenario{vhost: "play.example.com:25565", try: []string{"lobby", "hub"}, registered: []string{"lobby", "hub"}},
			func(w *world, emit func(op, out string)) {
				emit("conn lobby", guard(func() string { w.pl.SetConnected(w.reg["lobby"]); return "ok" }))
				emit("infl hub", guard(func() string { w.pl.SetInFlight(w.reg["hub"]); return "ok" }))
				emit("kick lobby 1 e", guard(func() string { return w.kick("lobby", true, "e") }))
			}},
		{scenario{vhost: "play.example.com:25565", try: []string{"lobby"}, registered: []string{"lobby"}},
			func(w *world, emit func(op, out string)) {
				emit("conn lobby", guard(func() string { w.pl.SetConnected(w.reg["lobby"]); return "ok" }))
				emit("kick lobby 0 e", guard(func() string { return w.kick("lobby", false, "e") }))
			}},
	}
	for _, f := range fixed {
		runScenario(run, "fixed", f.s, f.script)
	}
	for _, v := range []string{"play.example.com:25565", "PLAY.EXAMPLE.COM:25565", "play.example.com", "play.example.com.:25565",
		"play.example.com.\x00FML\x00:25565", "play.example.com///1.2.3.4:5///17:25565", "[::1]:25565", "::1:25565", "", ":", "a:b:c",
		".play.example.com:1", "[x]y:1", "x]:1", "[x:1", "play.example.com\x00", "///", "...", "a///b\x00c:1"} {
		run.Case("vh/fixed", "vh "+hx.HexS(v), guard(func() string { return hx.HexS(vhOf(v)) }))
	}

	// ---- host spellings
	nvh := run.Scale(1500, 20000)
	for i := 0; i < nvh; i++ {
		if r.Chance(1, 3) {
			v := hostileVhost(r)
			run.Case("vh/hostile", "vh "+hx.HexS(v), guard(func() string { return hx.HexS(vhOf(v)) }))
		} else {
			hp, v := spelling(r, hx.Pick(r, hostPool))
			run.Case("vh/spelling", "vhs "+hx.HexS(hp)+" "+hx.HexS(v), guard(func() string { return hx.HexS(vhOf(v)) }))
		}
	}

	// ---- worlds
	nw := run.Scale(700, 8000)
	for i := 0; i < nw; i++ {
		exact := r.Chance(2, 3)
		s := genScenario(r, exact)
		class := "world-anycase"
		if exact {
			class = "world-exactcase"
		}
		runScenario(run, class, s, randomScript(r, s, 1+r.Intn(7)))
	}
	// ---- probe: a switch is in flight when the current server kicks (or its connection errors)
	np := run.Scale(150, 1500)
	for i := 0; i < np; i++ {
		s := genScenario(r, r.Chance(2, 3))
		if len(s.registered) < 2 {
			continue
		}
		cur, fl := hx.Pick(r, s.registered), hx.Pick(r, s.registered)
		mode := hx.Pick(r, []string{"e", "d"})
		runScenario(run, "probe-inflight", s, func(w *world, emit func(op, out string)) {
			if r.Bool() {
				emit("next -", guard(func() string { return w.next("-") }))
			}
			emit("conn "+cur, guard(func() string { w.pl.SetConnected(w.reg[cur]); return "ok" }))
			emit("infl "+fl, guard(func() string { w.pl.SetInFlight(w.reg[fl]); return "ok" }))
			emit(fmt.Sprintf("kick %s 1 %s", cur, mode), guard(func() string { return w.kick(cur, true, mode) }))
		})
	}
	run.Finish()
}
