// C04 correspondence harness: every packet type of the REAL runtime registry, in every protocol version and
// direction it is registered for, with generated values: Go-side encode→decode→re-encode→decode, and — for the
// types that have a Lean schema — byte-for-byte comparison of the real Encode with the schema encoder and of the
// values the real Decode yields with the schema decoder.
package main

import (
	"bytes"
	"fmt"
	"math"
	"sort"
	"strings"
	"time"

	"go.minekube.com/brigodier"
	"go.minekube.com/gate/pkg/edition/java/proto/packet"
	"go.minekube.com/gate/pkg/edition/java/proto/packet/brigadier"
	"go.minekube.com/gate/pkg/gate/proto"

	"verifharness/c04/pk"
	"verifharness/hx"
)

func ctxStr(e pk.Entry) string {
	return fmt.Sprintf("%s %d %d %d %d", e.Name, int(e.Proto), int(e.Dir), e.State, int(e.ID))
}

type counts struct{ total, full, opaque, unmodelled int }

func main() {
	run := hx.Start()
	entries := pk.Enumerate()

	// classification table, compared with the Lean side
	seen := map[string]bool{}
	var names []string
	for _, e := range entries {
		if !seen[e.Name] {
			seen[e.Name] = true
			names = append(names, e.Name)
		}
	}
	sort.Strings(names)
	for _, n := range names {
		run.Case("class", "class "+n, pk.Class(n))
	}

	// coverage counts per protocol version
	perProto := map[int]map[string]string{}
	for _, e := range entries {
		m := perProto[int(e.Proto)]
		if m == nil {
			m = map[string]string{}
			perProto[int(e.Proto)] = m
		}
		m[e.Name] = pk.Class(e.Name)
	}
	cov := map[string]any{}
	for p, m := range perProto {
		c := counts{}
		for _, cl := range m {
			c.total++
			switch cl {
			case "full":
				c.full++
			case "opaque":
				c.opaque++
			default:
				c.unmodelled++
			}
		}
		cov[fmt.Sprint(p)] = map[string]int{"types_total": c.total, "types_with_full_schema": c.full,
			"types_with_opaque_fields": c.opaque, "types_unmodelled": c.unmodelled}
	}
	all := counts{}
	for _, n := range names {
		all.total++
		switch pk.Class(n) {
		case "full":
			all.full++
		case "opaque":
			all.opaque++
		default:
			all.unmodelled++
		}
	}
	run.Extra["coverage_per_protocol"] = cov
	run.Extra["coverage_all_versions"] = map[string]int{"types_total": all.total, "types_with_full_schema": all.full,
		"types_with_opaque_fields": all.opaque, "types_unmodelled": all.unmodelled}
	run.Extra["registered_type_version_pairs"] = len(entries)

	perEntry := run.Scale(6, 30)
	encErr := 0
	for _, e := range entries {
		for k := 0; k < perEntry; k++ {
			g := &pk.G{R: run.Rng, E: e}
			out := pk.GuardCPU(60*time.Second, 30*time.Minute, func() string { return one(run, g, e, &encErr) })
			if out != "" {
				run.Case(e.Name+"/guard", "gort "+ctxStr(e), out)
			}
		}
	}
	numberBounds(run)
	// collections around the readers' pre-allocation cap (32768): exactly at it, one above, well above — on the last
	// (thorough: also the first) protocol each array-carrying type is registered for
	bigN := 0
	for _, name := range pk.BigArrayTypes {
		first, last := -1, -1
		for i, e := range entries {
			if e.Name == name && !(name == "config.KnownPacks" && e.Dir == proto.ServerBound) {
				if first < 0 {
					first = i
				}
				last = i
			}
		}
		if last < 0 {
			continue
		}
		idxs := []int{last}
		if run.Thorough() && first != last {
			idxs = append(idxs, first)
		}
		for _, i := range idxs {
			for _, n := range []int{32768, 32769, 40000} {
				e := entries[i]
				g := &pk.G{R: run.Rng, E: e, Big: n}
				out := pk.GuardCPU(120*time.Second, 30*time.Minute, func() string { return one(run, g, e, &encErr) })
				if out != "" {
					run.Case(e.Name+"/guard", "gort "+ctxStr(e), out)
				}
				bigN++
			}
		}
	}
	run.Extra["big_array_values"] = bigN
	run.Extra["encode_rejected_generated_values"] = encErr
	run.Finish()
}

// one generated value through the real code; returns "" normally, "panic"/"hang" text through Guard otherwise.
func one(run *hx.Run, g *pk.G, e pk.Entry, encErr *int) string {
	p := g.Packet()
	cl := pk.Class(e.Name)
	var v1 pk.V
	if cl != "unmodelled" {
		v1, _ = pk.Extract(p, e) // before encoding: Encode may fill caches but must not change values
	}
	e1, err := e.Encode(p)
	if err != nil {
		*encErr++
		run.Case(e.Name+"/enc-rejected", "encerr "+ctxStr(e), "err")
		return ""
	}
	e1 = append([]byte(nil), e1...)
	// Go-side round trip
	a, left, err := e.Decode(e1)
	res := ""
	var e2 []byte
	if err != nil {
		res = "err-dec"
	} else {
		e2, err = e.Encode(a)
		if err != nil {
			res = "err-reenc"
		} else {
			b, _, err := e.Decode(e2)
			if err != nil {
				res = "err-dec2"
			} else {
				res = fmt.Sprintf("ok left=%d re=%d eq=%d", left, b2i(bytes.Equal(e1, e2)), b2i(pk.Dump(a) == pk.Dump(b)))
			}
		}
	}
	valid := 0
	if g.Valid {
		valid = 1
	}
	if valid == 1 {
		gop := "gort " + ctxStr(e)
		if ac, ok := p.(*packet.AvailableCommands); ok {
			// a type without a schema whose values are comparable directly: the decoded tree must equal the ORIGINAL one
			// (argument properties bit-exact); the original tree is on the case line as the concrete input
			orig := pk.DumpCommands(ac.RootNode)
			if g.Big == 0 {
				gop += " " + orig
			}
			if strings.HasPrefix(res, "ok") {
				res += fmt.Sprintf(" orig=%d", b2i(a != nil && orig == pk.DumpCommands(a.(*packet.AvailableCommands).RootNode)))
			}
		}
		run.Case(e.Name+"/gort", gop, res)
	}
	if cl == "unmodelled" {
		return ""
	}
	vs := pk.Show(v1)
	run.Case(e.Name+"/enc", "enc "+ctxStr(e)+" "+vs, "ok "+hx.Hex(e1))
	rt := res
	if a != nil && (res == "" || res[:2] == "ok") {
		va, _ := pk.Extract(a, e)
		rt = fmt.Sprintf("ok %s left=%d re=%d", pk.Show(va), left, b2i(bytes.Equal(e1, e2)))
	} else if res != "err-dec" {
		// decode worked but re-encoding failed
		va, _ := pk.Extract(a, e)
		rt = fmt.Sprintf("ok %s left=%d re=0", pk.Show(va), left)
	}
	op := "rt"
	if g.Big > 0 {
		op = "rtx" // the list-based Lean decoder is quadratic on 40 000-element arrays: the model side is the theorem
	}
	run.Case(e.Name+"/"+op, op+" "+ctxStr(e)+" "+vs, rt)
	return ""
}

func b2i(b bool) int {
	if b {
		return 1
	}
	return 0
}

var _ = proto.ClientBound

// numberBounds drives the four brigadier number-argument property codecs directly with every pair of boundary bounds
// (sentinels, beyond the sentinels, ±Inf, NaN, -0, subnormals): `nb <kind> <min> <max>` (floats as unsigned bit patterns).
func numberBounds(run *hx.Run) {
	run.Case("nbconst", fmt.Sprintf("nbconst f32 %d %d", math.Float32bits(brigodier.MinFloat32), math.Float32bits(brigodier.MaxFloat32)), "ok")
	run.Case("nbconst", fmt.Sprintf("nbconst f64 %d %d", math.Float64bits(brigodier.MinFloat64), uint64(math.Float64bits(brigodier.MaxFloat64))), "ok")
	run.Case("nbconst", fmt.Sprintf("nbconst i32 %d %d", int64(brigodier.MinInt32), int64(brigodier.MaxInt32)), "ok")
	run.Case("nbconst", fmt.Sprintf("nbconst i64 %d %d", int64(brigodier.MinInt64), int64(brigodier.MaxInt64)), "ok")
	pv := proto.Protocol(767)
	emit := func(kind, mn, mx string, codec brigadier.ArgumentPropertyCodec, v any, show func(any) string) {
		out := pk.GuardCPU(30*time.Second, 30*time.Minute, func() string {
			var buf bytes.Buffer
			if err := codec.Encode(&buf, v, pv); err != nil {
				return "err-enc"
			}
			enc := append([]byte(nil), buf.Bytes()...)
			d, err := codec.Decode(bytes.NewReader(enc), pv)
			if err != nil {
				return "ok " + hx.Hex(enc) + " err-dec"
			}
			return "ok " + hx.Hex(enc) + " dec=" + show(d)
		})
		run.Case("nb/"+kind, "nb "+kind+" "+mn+" "+mx, out)
	}
	for _, a := range pk.F64Bounds {
		for _, b := range pk.F64Bounds {
			emit("f64", fmt.Sprint(a), fmt.Sprint(b), brigadier.Float64ArgumentPropertyCodec,
				&brigodier.Float64ArgumentType{Min: math.Float64frombits(a), Max: math.Float64frombits(b)},
				func(d any) string {
					t := d.(*brigodier.Float64ArgumentType)
					return fmt.Sprintf("%d,%d", math.Float64bits(t.Min), math.Float64bits(t.Max))
				})
		}
	}
	for _, a := range pk.F32Bounds {
		for _, b := range pk.F32Bounds {
			emit("f32", fmt.Sprint(a), fmt.Sprint(b), brigadier.Float32ArgumentPropertyCodec,
				&brigodier.Float32ArgumentType{Min: math.Float32frombits(a), Max: math.Float32frombits(b)},
				func(d any) string {
					t := d.(*brigodier.Float32ArgumentType)
					return fmt.Sprintf("%d,%d", math.Float32bits(t.Min), math.Float32bits(t.Max))
				})
		}
	}
	for _, a := range pk.I64Bounds {
		for _, b := range pk.I64Bounds {
			emit("i64", fmt.Sprint(a), fmt.Sprint(b), brigadier.Int64ArgumentPropertyCodec, &brigodier.Int64ArgumentType{Min: a, Max: b},
				func(d any) string { t := d.(*brigodier.Int64ArgumentType); return fmt.Sprintf("%d,%d", t.Min, t.Max) })
		}
	}
	for _, a := range pk.I32Bounds {
		for _, b := range pk.I32Bounds {
			emit("i32", fmt.Sprint(a), fmt.Sprint(b), brigadier.Int32ArgumentPropertyCodec, &brigodier.Int32ArgumentType{Min: a, Max: b},
				func(d any) string { t := d.(*brigodier.Int32ArgumentType); return fmt.Sprintf("%d,%d", t.Min, t.Max) })
		}
	}
}
