package pk

import (
	"bytes"
	"reflect"
	"sort"

	"go.minekube.com/gate/pkg/edition/java/proto/state"
	"go.minekube.com/gate/pkg/edition/java/proto/util"
	"go.minekube.com/gate/pkg/gate/proto"
)

// Registries in the order of Gate.Gen.C04.registryStates.
var Registries = []*state.Registry{state.Handshake, state.Status, state.Config, state.Login, state.Play}
var RegistryNames = []string{"Handshake", "Status", "Config", "Login", "Play"}

// Entry is one (registry, direction, protocol, id) → type row of the REAL runtime registry.
type Entry struct {
	State int // index into Registries
	Dir   proto.Direction
	Proto proto.Protocol
	ID    proto.PacketID
	Type  reflect.Type
	Name  string // reflect.Type.String(), e.g. "packet.KeepAlive"
	Reg   *state.ProtocolRegistry
}

// Enumerate dumps every registered (registry, direction, protocol, id, type), sorted.
func Enumerate() []Entry {
	var out []Entry
	for si, reg := range Registries {
		for _, pr := range []*state.PacketRegistry{reg.ServerBound, reg.ClientBound} {
			for pv, r := range pr.Protocols {
				for id, typ := range r.PacketIDs {
					out = append(out, Entry{State: si, Dir: pr.Direction, Proto: pv, ID: id, Type: typ, Name: typ.String(), Reg: r})
				}
			}
		}
	}
	sort.Slice(out, func(i, j int) bool {
		a, b := out[i], out[j]
		if a.State != b.State {
			return a.State < b.State
		}
		if a.Dir != b.Dir {
			return a.Dir > b.Dir // ServerBound (1) first
		}
		if a.Proto != b.Proto {
			return a.Proto < b.Proto
		}
		return a.ID < b.ID
	})
	return out
}

// New creates a zero packet exactly like ProtocolRegistry.CreatePacket does (including SetState).
func (e Entry) New() proto.Packet { return e.Reg.CreatePacket(e.ID) }

// Ctx is the context the real encoder/decoder pass to Encode/Decode (fresh every time: Disconnect.Encode mutates it).
func (e Entry) Ctx() *proto.PacketContext {
	return &proto.PacketContext{Direction: e.Dir, Protocol: e.Proto, PacketID: e.ID}
}

// Encode runs the packet's Encode under util.RecoverFunc, as codec.Encoder.WritePacket does.
func (e Entry) Encode(p proto.Packet) ([]byte, error) {
	var buf bytes.Buffer
	err := util.RecoverFunc(func() error { return p.Encode(e.Ctx(), &buf) })
	return buf.Bytes(), err
}

// Decode runs Decode on a bytes.Reader under util.RecoverFunc, as codec.Decoder.decodePayload does;
// returns the packet and the number of unread bytes.
func (e Entry) Decode(data []byte) (proto.Packet, int, error) {
	p := e.New()
	rd := bytes.NewReader(data)
	err := util.RecoverFunc(func() error { return p.Decode(e.Ctx(), rd) })
	return p, rd.Len(), err
}
