package pk

import (
	"encoding/binary"
	"math"
	"sort"

	"go.minekube.com/common/minecraft/key"

	"go.minekube.com/gate/pkg/edition/java/profile"
	"go.minekube.com/gate/pkg/edition/java/proto/packet"
	"go.minekube.com/gate/pkg/edition/java/proto/packet/bossbar"
	"go.minekube.com/gate/pkg/edition/java/proto/packet/chat"
	"go.minekube.com/gate/pkg/edition/java/proto/packet/config"
	"go.minekube.com/gate/pkg/edition/java/proto/packet/cookie"
	"go.minekube.com/gate/pkg/edition/java/proto/packet/plugin"
	"go.minekube.com/gate/pkg/edition/java/proto/packet/tablist/playerinfo"
	"go.minekube.com/gate/pkg/edition/java/proto/packet/title"
	"go.minekube.com/gate/pkg/edition/java/proto/util"
	"go.minekube.com/gate/pkg/edition/java/proto/version"
	"go.minekube.com/gate/pkg/edition/java/proxy/crypto"
	"go.minekube.com/gate/pkg/gate/proto"
	"go.minekube.com/gate/pkg/util/uuid"
)

// Class of a registered type: which extractor exists.  Must agree with Gate.C04.classOf (checked by `class` cases).
var classes = map[string]string{}

func init() {
	for _, n := range []string{
		"packet.Handshake", "packet.StatusRequest", "packet.StatusPing", "packet.StatusResponse",
		"packet.EncryptionRequest", "packet.EncryptionResponse", "packet.ServerLoginSuccess", "packet.SetCompression",
		"packet.LoginPluginMessage", "packet.LoginPluginResponse", "packet.LoginAcknowledged",
		"packet.KeepAlive", "packet.PingIdentify", "plugin.Message", "packet.ClientSettings",
		"packet.ResourcePackResponse", "packet.RemoveResourcePack", "packet.Transfer", "packet.CustomClickActionPacket",
		"packet.CustomReportDetails", "packet.DialogClear", "packet.BundleDelimiter",
		"config.FinishedUpdate", "config.StartUpdate", "config.CodeOfConductAcceptPacket", "config.CodeOfConductPacket",
		"config.RegistrySync", "config.KnownPacks", "config.ActiveFeatures", "config.TagsUpdate",
		"cookie.CookieRequest", "cookie.CookieStore", "cookie.CookieResponse",
		"packet.TabCompleteRequest", "packet.PlayerChatCompletion", "packet.SoundEntityPacket", "packet.StopSoundPacket",
		"title.Times", "title.Clear", "chat.LegacyChat", "chat.ChatAcknowledgement", "chat.SessionPlayerChat",
		"chat.SessionPlayerCommand", "chat.UnsignedPlayerCommand", "playerinfo.Remove"} {
		classes[n] = "full"
	}
	for _, n := range []string{
		"packet.ServerLogin", "packet.Disconnect", "packet.ResourcePackRequest", "packet.ServerLinks", "packet.DialogShow",
		"packet.TabCompleteResponse", "packet.HeaderAndFooter", "packet.ServerData", "bossbar.BossBar",
		"title.Text", "title.Subtitle", "title.Actionbar", "title.Legacy", "chat.SystemChat", "playerinfo.Upsert",
		"packet.JoinGame", "packet.Respawn"} {
		classes[n] = "opaque"
	}
}

// Class is "full", "opaque" or "unmodelled".
func Class(name string) string {
	if c, ok := classes[name]; ok {
		return c
	}
	return "unmodelled"
}

type xc struct {
	e Entry
}

func (c xc) ge(v *proto.Version) bool { return c.e.Proto >= v.Protocol }
func (c xc) lt(v *proto.Version) bool { return c.e.Proto < v.Protocol }
func (c xc) le(v *proto.Version) bool { return c.e.Proto <= v.Protocol }

func u(id uuid.UUID) V  { return X(id[:]) }
func f32(f float32) V  { return I(int64(math.Float32bits(f))) }
func kv(k key.Key) V {
	if k == nil {
		return Pair(XS(""), XS(""))
	}
	return Pair(XS(k.Namespace()), XS(k.Value()))
}

func optUUID(id uuid.UUID) V { return u(id) } // optD zeroUUID: the value itself

func propsV(ps []profile.Property) V {
	out := make([]V, len(ps))
	for i, p := range ps {
		out[i] = T(XS(p.Name), XS(p.Value), XS(p.Signature))
	}
	return L(out...)
}

// component blob: the wire bytes of the holder for the protocol (JSON text below 1.20.3, type byte + payload from 1.20.3).
func compV(h *chat.ComponentHolder, p proto.Protocol) V {
	if h == nil {
		return X(nil)
	}
	if p >= version.Minecraft_1_20_3.Protocol {
		if len(h.BinaryTag.Data) != 0 || h.BinaryTag.Type != 0 {
			return X(append([]byte{h.BinaryTag.Type}, h.BinaryTag.Data...)) // as decoded: the raw tag
		}
		bt, err := h.AsBinaryTag()
		if err != nil {
			return XS("!" + err.Error())
		}
		return X(append([]byte{bt.Type}, bt.Data...))
	}
	if h.Component == nil && len(h.BinaryTag.Data) == 0 {
		return X(h.JSON) // as decoded: the raw string (Decode does not parse it)
	}
	j, err := h.AsJson()
	if err != nil {
		return XS("!" + err.Error())
	}
	return X(j)
}

func optComp(h *chat.ComponentHolder, p proto.Protocol) V {
	if h == nil {
		return N
	}
	return S(compV(h, p))
}

func playerKeyV(k crypto.IdentifiedKey) V {
	var b []byte
	b = binary.BigEndian.AppendUint64(b, uint64(k.ExpiryTemporal().UnixMilli()))
	b = appendVarBytes(b, k.SignedPublicKeyBytes())
	b = appendVarBytes(b, k.Signature())
	return X(b)
}

func appendVarBytes(b, data []byte) []byte {
	n := uint32(len(data))
	for n >= 0x80 {
		b = append(b, byte(n)|0x80)
		n >>= 7
	}
	b = append(b, byte(n))
	return append(b, data...)
}

func lastSeenV(c xc, l *chat.LastSeenMessages) V {
	ack := make([]byte, 3)
	copy(ack, l.Acknowledged.Bytes)
	vs := []V{I(int64(l.Offset)), X(ack)}
	if c.ge(version.Minecraft_1_21_5) {
		vs = append(vs, I(int64(l.Checksum)))
	}
	return T(vs...)
}

func strs(xs []string) V {
	out := make([]V, len(xs))
	for i, s := range xs {
		out[i] = XS(s)
	}
	return L(out...)
}

func soundSourceV(s int) V { return Pair(I(int64(s)), U) }

// tagV: the wire bytes of a binary tag: type, (below 1.20.2: an empty name,) payload
func tagV(t util.BinaryTag, named bool) V {
	b := []byte{t.Type}
	if named {
		b = append(b, 0, 0)
	}
	return X(append(b, t.Data...))
}

func deathPosV(d *packet.DeathPosition) V {
	if d == nil {
		return N
	}
	return S(T(XS(d.Key), I(d.Value)))
}

// Extract returns the schema-level value of p in the entry's context (what Gate.C04.schemaOf describes), or false when
// the type has no schema.
func Extract(p proto.Packet, e Entry) (V, bool) {
	c := xc{e}
	pv := e.Proto
	switch p := p.(type) {
	case *packet.Handshake:
		return T(I(int64(p.ProtocolVersion)), XS(p.ServerAddress), I(int64(p.Port)), I(int64(p.NextStatus))), true
	case *packet.StatusRequest, *packet.LoginAcknowledged, *packet.DialogClear, *packet.BundleDelimiter,
		*config.FinishedUpdate, *config.StartUpdate, *config.CodeOfConductAcceptPacket:
		return U, true
	case *packet.StatusPing:
		return I(p.RandomID), true
	case *packet.StatusResponse:
		return XS(p.Status), true
	case *packet.ServerLogin:
		vs := []V{XS(p.Username)}
		if c.ge(version.Minecraft_1_19) && c.lt(version.Minecraft_1_19_3) {
			if p.PlayerKey != nil {
				vs = append(vs, S(playerKeyV(p.PlayerKey)))
			} else {
				vs = append(vs, N)
			}
		}
		if c.ge(version.Minecraft_1_20_2) {
			vs = append(vs, u(p.HolderID))
		} else if c.ge(version.Minecraft_1_19_1) {
			id := p.HolderID
			if p.PlayerKey != nil && p.PlayerKey.SignatureHolder() != uuid.Nil {
				id = p.PlayerKey.SignatureHolder()
			}
			vs = append(vs, optUUID(id))
		}
		return T(vs...), true
	case *packet.EncryptionRequest:
		if c.ge(version.Minecraft_1_8) {
			vs := []V{XS(p.ServerID), X(p.PublicKey), X(p.VerifyToken)}
			if c.ge(version.Minecraft_1_20_5) {
				vs = append(vs, B(!p.DisableAuthenticate))
			}
			return T(vs...), true
		}
		return T(XS(p.ServerID), X(p.PublicKey), X(p.VerifyToken)), true
	case *packet.EncryptionResponse:
		if c.ge(version.Minecraft_1_8) {
			vs := []V{X(p.SharedSecret)}
			if c.ge(version.Minecraft_1_19) && c.lt(version.Minecraft_1_19_3) {
				if p.Salt != nil {
					vs = append(vs, S(I(*p.Salt)))
				} else {
					vs = append(vs, N)
				}
			}
			return T(append(vs, X(p.VerifyToken))...), true
		}
		return T(X(p.SharedSecret), X(p.VerifyToken)), true
	case *packet.ServerLoginSuccess:
		var id V
		switch {
		case c.ge(version.Minecraft_1_16):
			id = u(p.UUID)
		case c.ge(version.Minecraft_1_7_6):
			id = XS(p.UUID.String())
		default:
			id = XS(p.UUID.Undashed())
		}
		vs := []V{id, XS(p.Username)}
		if c.ge(version.Minecraft_1_19) {
			vs = append(vs, propsV(p.Properties))
		}
		if pv == version.Minecraft_1_20_5.Protocol || pv == version.Minecraft_1_21.Protocol {
			vs = append(vs, U)
		}
		if c.ge(version.Minecraft_26_2) {
			vs = append(vs, u(p.SessionID))
		}
		return T(vs...), true
	case *packet.SetCompression:
		return I(int64(p.Threshold)), true
	case *packet.LoginPluginMessage:
		return Pair(T(I(int64(p.ID)), XS(p.Channel)), X(p.Data)), true
	case *packet.LoginPluginResponse:
		return Pair(T(I(int64(p.ID)), B(p.Success)), X(p.Data)), true
	case *packet.KeepAlive:
		return I(p.RandomID), true
	case *packet.PingIdentify:
		return I(int64(p.ID)), true
	case *packet.Disconnect:
		if e.ID == 0 && e.Dir == proto.ClientBound {
			pv = version.Minecraft_1_20_2.Protocol
		}
		return compV(p.Reason, pv), true
	case *plugin.Message:
		ch := p.Channel
		if c.ge(version.Minecraft_1_13) {
			ch = plugin.TransformLegacyToModernChannel(ch)
		}
		return Pair(XS(ch), X(p.Data)), true
	case *packet.ClientSettings:
		vs := []V{XS(p.Locale), I(int64(p.ViewDistance)), I(int64(p.ChatVisibility)), B(p.ChatColors)}
		if c.le(version.Minecraft_1_7_6) {
			vs = append(vs, I(int64(p.Difficulty)))
		}
		vs = append(vs, I(int64(p.SkinParts)))
		if c.ge(version.Minecraft_1_9) {
			vs = append(vs, I(int64(p.MainHand)))
		}
		if c.ge(version.Minecraft_1_17) {
			vs = append(vs, B(p.TextFilteringEnabled))
		}
		if c.ge(version.Minecraft_1_18) {
			vs = append(vs, B(p.ClientListingAllowed))
		}
		if c.ge(version.Minecraft_1_21_2) {
			vs = append(vs, I(int64(p.ParticleStatus)))
		}
		return T(vs...), true
	case *packet.ResourcePackRequest:
		var vs []V
		if c.ge(version.Minecraft_1_20_3) {
			vs = append(vs, u(p.ID))
		}
		vs = append(vs, XS(p.URL), XS(p.Hash))
		if c.ge(version.Minecraft_1_17) {
			vs = append(vs, B(p.Required), optComp(p.Prompt, pv))
		}
		return T(vs...), true
	case *packet.ResourcePackResponse:
		var vs []V
		if c.ge(version.Minecraft_1_20_3) {
			vs = append(vs, u(p.ID))
		}
		if c.le(version.Minecraft_1_9_4) {
			vs = append(vs, XS(p.Hash))
		}
		return T(append(vs, I(int64(p.Status)))...), true
	case *packet.RemoveResourcePack:
		return optUUID(p.ID), true
	case *packet.Transfer:
		return T(XS(p.Host), I(int64(p.Port))), true
	case *packet.CustomClickActionPacket:
		return Pair(U, X(p.Data)), true
	case *config.CodeOfConductPacket:
		return Pair(U, X(p.Data)), true
	case *config.RegistrySync:
		return Pair(U, X(p.Data)), true
	case *packet.CustomReportDetails:
		keys := make([]string, 0, len(p.Details))
		for k := range p.Details {
			keys = append(keys, k)
		}
		sort.Strings(keys)
		out := make([]V, len(keys))
		for i, k := range keys {
			out[i] = T(XS(k), XS(p.Details[k]))
		}
		return L(out...), true
	case *packet.ServerLinks:
		out := make([]V, len(p.ServerLinks))
		for i, l := range p.ServerLinks {
			if l.ID >= 0 {
				out[i] = Pair(I(1), T(I(int64(l.ID)), XS(l.URL)))
			} else {
				out[i] = Pair(I(0), T(compV(&l.DisplayName, pv), XS(l.URL)))
			}
		}
		return L(out...), true
	case *packet.DialogShow:
		tag := X(append([]byte{p.BinaryTag.Type}, p.BinaryTag.Data...))
		if e.State == 2 {
			return tag, true
		}
		if p.ID == 0 {
			return Pair(I(0), tag), true
		}
		return Pair(I(int64(p.ID)), U), true
	case *config.KnownPacks:
		out := make([]V, len(p.Packs))
		for i, k := range p.Packs {
			out[i] = T(XS(k.Namespace), XS(k.Id), XS(k.Version))
		}
		return L(out...), true
	case *config.ActiveFeatures:
		out := make([]V, len(p.ActiveFeatures))
		for i, k := range p.ActiveFeatures {
			out[i] = kv(k)
		}
		return L(out...), true
	case *config.TagsUpdate:
		outer := make([]string, 0, len(p.Tags))
		for k := range p.Tags {
			outer = append(outer, k)
		}
		sort.Strings(outer)
		out := make([]V, len(outer))
		for i, k := range outer {
			inner := make([]string, 0, len(p.Tags[k]))
			for ik := range p.Tags[k] {
				inner = append(inner, ik)
			}
			sort.Strings(inner)
			iv := make([]V, len(inner))
			for j, ik := range inner {
				ints := make([]V, len(p.Tags[k][ik]))
				for n, x := range p.Tags[k][ik] {
					ints[n] = I(int64(x))
				}
				iv[j] = T(XS(ik), L(ints...))
			}
			out[i] = T(XS(k), L(iv...))
		}
		return L(out...), true
	case *cookie.CookieRequest:
		return kv(p.Key), true
	case *cookie.CookieStore:
		return T(kv(p.Key), X(p.Payload)), true
	case *cookie.CookieResponse:
		return T(kv(p.Key), X(p.Payload)), true
	case *packet.TabCompleteRequest:
		if c.ge(version.Minecraft_1_13) {
			return T(I(int64(p.TransactionID)), XS(p.Command)), true
		}
		vs := []V{XS(p.Command)}
		if c.ge(version.Minecraft_1_9) {
			vs = append(vs, B(p.AssumeCommand))
		}
		if c.ge(version.Minecraft_1_8) {
			if p.HasPosition {
				vs = append(vs, S(I(p.Position)))
			} else {
				vs = append(vs, N)
			}
		}
		return T(vs...), true
	case *packet.TabCompleteResponse:
		out := make([]V, len(p.Offers))
		if c.ge(version.Minecraft_1_13) {
			for i, o := range p.Offers {
				out[i] = T(XS(o.Text), optComp(o.Tooltip, pv))
			}
			return T(I(int64(p.TransactionID)), I(int64(p.Start)), I(int64(p.Length)), L(out...)), true
		}
		for i, o := range p.Offers {
			out[i] = XS(o.Text)
		}
		return L(out...), true
	case *packet.JoinGame:
		b2 := func(b bool) int64 {
			if b {
				return 8
			}
			return 0
		}
		tag := func(t util.BinaryTag) V { return tagV(t, c.lt(version.Minecraft_1_20_2)) }
		di := p.DimensionInfo
		if di == nil {
			di = &packet.DimensionInfo{}
		}
		ln := ""
		if di.LevelName != nil {
			ln = *di.LevelName
		}
		if c.ge(version.Minecraft_1_20_2) {
			vs := []V{I(int64(p.EntityID)), B(p.Hardcore), strs(p.LevelNames), I(int64(p.MaxPlayers)), I(int64(p.ViewDistance)),
				I(int64(p.SimulationDistance)), B(p.ReducedDebugInfo), B(p.ShowRespawnScreen), B(p.DoLimitedCrafting)}
			if c.ge(version.Minecraft_1_20_5) {
				vs = append(vs, I(int64(p.Dimension)))
			} else {
				vs = append(vs, XS(di.RegistryIdentifier))
			}
			vs = append(vs, XS(ln), I(p.PartialHashedSeed), I(int64(byte(p.Gamemode))), I(int64(byte(p.PreviousGamemode))),
				B(di.DebugType), B(di.Flat), deathPosV(p.LastDeathPosition), I(int64(p.PortalCooldown)))
			if c.ge(version.Minecraft_1_21_2) {
				vs = append(vs, I(int64(p.SeaLevel)))
			}
			if c.ge(version.Minecraft_26_2) {
				vs = append(vs, B(p.OnlineMode))
			}
			if c.ge(version.Minecraft_1_20_5) {
				vs = append(vs, B(p.EnforcesSecureChat))
			}
			return T(vs...), true
		}
		if c.ge(version.Minecraft_1_16) {
			vs := []V{I(int64(p.EntityID))}
			if c.ge(version.Minecraft_1_16_2) {
				vs = append(vs, B(p.Hardcore), I(int64(byte(p.Gamemode))))
			} else {
				vs = append(vs, I(int64(byte(p.Gamemode))|b2(p.Hardcore)))
			}
			vs = append(vs, I(int64(byte(p.PreviousGamemode))), strs(p.LevelNames), tag(p.Registry))
			if c.ge(version.Minecraft_1_16_2) && c.lt(version.Minecraft_1_19) {
				vs = append(vs, tag(p.CurrentDimensionData), XS(di.RegistryIdentifier))
			} else {
				vs = append(vs, XS(di.RegistryIdentifier), XS(ln))
			}
			vs = append(vs, I(p.PartialHashedSeed))
			if c.ge(version.Minecraft_1_16_2) {
				vs = append(vs, I(int64(p.MaxPlayers)))
			} else {
				vs = append(vs, I(int64(byte(p.MaxPlayers))))
			}
			vs = append(vs, I(int64(p.ViewDistance)))
			if c.ge(version.Minecraft_1_18) {
				vs = append(vs, I(int64(p.SimulationDistance)))
			}
			vs = append(vs, B(p.ReducedDebugInfo), B(p.ShowRespawnScreen), B(di.DebugType), B(di.Flat))
			if c.ge(version.Minecraft_1_19) {
				vs = append(vs, deathPosV(p.LastDeathPosition))
			}
			if c.ge(version.Minecraft_1_20) {
				vs = append(vs, I(int64(p.PortalCooldown)))
			}
			return T(vs...), true
		}
		vs := []V{I(int64(p.EntityID)), I(int64(byte(p.Gamemode)) | b2(p.Hardcore))}
		if c.ge(version.Minecraft_1_9_1) {
			vs = append(vs, I(int64(p.Dimension)))
		} else {
			vs = append(vs, I(int64(byte(p.Dimension))))
		}
		if c.le(version.Minecraft_1_13_2) {
			vs = append(vs, I(int64(byte(p.Difficulty))))
		}
		if c.ge(version.Minecraft_1_15) {
			vs = append(vs, I(p.PartialHashedSeed))
		}
		lt := ""
		if p.LevelType != nil {
			lt = *p.LevelType
		}
		vs = append(vs, I(int64(byte(p.MaxPlayers))), XS(lt))
		if c.ge(version.Minecraft_1_14) {
			vs = append(vs, I(int64(p.ViewDistance)))
		}
		if c.ge(version.Minecraft_1_8) {
			vs = append(vs, B(p.ReducedDebugInfo))
		}
		if c.ge(version.Minecraft_1_15) {
			vs = append(vs, B(p.ShowRespawnScreen))
		}
		return T(vs...), true
	case *packet.Respawn:
		tag := func(t util.BinaryTag) V { return tagV(t, c.lt(version.Minecraft_1_20_2)) }
		di := p.DimensionInfo
		if di == nil {
			di = &packet.DimensionInfo{}
		}
		ln := ""
		if di.LevelName != nil {
			ln = *di.LevelName
		}
		var vs []V
		if c.ge(version.Minecraft_1_16) {
			if c.ge(version.Minecraft_1_16_2) && c.lt(version.Minecraft_1_19) {
				vs = append(vs, tag(p.CurrentDimensionData), XS(di.RegistryIdentifier))
			} else {
				if c.ge(version.Minecraft_1_20_5) {
					vs = append(vs, I(int64(p.Dimension)))
				} else {
					vs = append(vs, XS(di.RegistryIdentifier))
				}
				vs = append(vs, XS(ln))
			}
		} else {
			vs = append(vs, I(int64(p.Dimension)))
		}
		if c.le(version.Minecraft_1_13_2) {
			vs = append(vs, I(int64(byte(p.Difficulty))))
		}
		if c.ge(version.Minecraft_1_15) {
			vs = append(vs, I(p.PartialHashedSeed))
		}
		vs = append(vs, I(int64(byte(p.Gamemode))))
		if c.ge(version.Minecraft_1_16) {
			vs = append(vs, I(int64(byte(p.PreviousGamemode))), B(di.DebugType), B(di.Flat))
			if c.lt(version.Minecraft_1_19_3) {
				vs = append(vs, B(p.DataToKeep != 0))
			} else if c.lt(version.Minecraft_1_20_2) {
				vs = append(vs, I(int64(p.DataToKeep)))
			}
		} else {
			vs = append(vs, XS(p.LevelType))
		}
		if c.ge(version.Minecraft_1_19) {
			vs = append(vs, deathPosV(p.LastDeathPosition))
		}
		if c.ge(version.Minecraft_1_20) {
			vs = append(vs, I(int64(p.PortalCooldown)))
		}
		if c.ge(version.Minecraft_1_21_2) {
			vs = append(vs, I(int64(p.SeaLevel)))
		}
		if c.ge(version.Minecraft_1_20_2) {
			vs = append(vs, I(int64(p.DataToKeep)))
		}
		return T(vs...), true
	case *packet.HeaderAndFooter:
		return T(compV(&p.Header, pv), compV(&p.Footer, pv)), true
	case *packet.PlayerChatCompletion:
		return T(I(int64(p.Action)), strs(p.Completions)), true
	case *packet.ServerData:
		var vs []V
		if c.lt(version.Minecraft_1_19_4) {
			vs = append(vs, optComp(p.Description, pv))
		} else {
			vs = append(vs, compV(p.Description, pv))
		}
		if c.ge(version.Minecraft_1_19_4) {
			vs = append(vs, X(p.Favicon.Bytes()))
		} else {
			vs = append(vs, XS(string(p.Favicon)))
		}
		if c.lt(version.Minecraft_1_19_3) {
			vs = append(vs, U)
		}
		if c.ge(version.Minecraft_1_19_1) && c.lt(version.Minecraft_1_20_5) {
			vs = append(vs, B(p.SecureChatEnforced))
		}
		return T(vs...), true
	case *packet.SoundEntityPacket:
		var sound V
		if p.SoundID == 0 {
			fr := N
			if p.FixedRange != nil {
				fr = S(f32(*p.FixedRange))
			}
			sound = Pair(I(0), T(kv(p.SoundName), fr))
		} else {
			sound = Pair(I(int64(p.SoundID)), U)
		}
		return T(sound, soundSourceV(int(p.SoundSource)), I(int64(p.EntityID)), f32(p.Volume), f32(p.Pitch), I(p.Seed)), true
	case *packet.StopSoundPacket:
		flags := int64(0)
		var src, name V = U, U
		if p.Source != nil {
			flags |= 1
			src = soundSourceV(int(*p.Source))
		}
		if p.SoundName != nil {
			flags |= 2
			name = kv(p.SoundName)
		}
		return Pair(I(flags), T(src, name)), true
	case *bossbar.BossBar:
		var body V
		switch p.Action {
		case bossbar.AddAction:
			body = T(compV(p.Name, pv), f32(p.Percent), I(int64(p.Color)), I(int64(p.Overlay)), I(int64(p.Flags)))
		case bossbar.RemoveAction:
			body = U
		case bossbar.UpdatePercentAction:
			body = f32(p.Percent)
		case bossbar.UpdateNameAction:
			body = compV(p.Name, pv)
		case bossbar.UpdateStyleAction:
			body = T(I(int64(p.Color)), I(int64(p.Overlay)))
		case bossbar.UpdatePropertiesAction:
			body = I(int64(p.Flags))
		default:
			body = U
		}
		return T(u(p.ID), Pair(I(int64(p.Action)), body)), true
	case *title.Text:
		return compV(&p.Component, pv), true
	case *title.Subtitle:
		return compV(&p.Component, pv), true
	case *title.Actionbar:
		return compV(&p.Component, pv), true
	case *title.Times:
		return T(I(int64(p.FadeIn)), I(int64(p.Stay)), I(int64(p.FadeOut))), true
	case *title.Clear:
		return B(p.Action == title.Reset), true
	case *title.Legacy:
		wire := int64(title.ProtocolAction(pv, p.Action))
		var body V
		switch p.Action {
		case title.SetTitle, title.SetSubtitle, title.SetActionBar:
			body = compV(p.Component, pv)
		case title.SetTimes:
			body = T(I(int64(p.FadeIn)), I(int64(p.Stay)), I(int64(p.FadeOut)))
		default:
			body = U
		}
		return Pair(I(wire), body), true
	case *chat.LegacyChat:
		vs := []V{XS(p.Message)}
		if e.Dir == proto.ClientBound && c.ge(version.Minecraft_1_8) {
			vs = append(vs, I(int64(byte(p.Type))))
		}
		if e.Dir == proto.ClientBound && c.ge(version.Minecraft_1_16) {
			vs = append(vs, u(p.Sender))
		}
		return T(vs...), true
	case *chat.SystemChat:
		if c.ge(version.Minecraft_1_19_1) {
			return T(compV(p.Component, pv), B(p.Type == chat.GameInfoMessageType)), true
		}
		return T(compV(p.Component, pv), I(int64(p.Type))), true
	case *chat.ChatAcknowledgement:
		return I(int64(p.Offset)), true
	case *chat.SessionPlayerChat:
		sig := N
		if p.Signed {
			sig = S(X(p.Signature))
		}
		return T(XS(p.Message), I(p.Timestamp.UnixMilli()), I(p.Salt), sig, lastSeenV(c, &p.LastSeenMessages)), true
	case *chat.SessionPlayerCommand:
		out := make([]V, len(p.ArgumentSignatures.Entries))
		for i, a := range p.ArgumentSignatures.Entries {
			out[i] = T(XS(a.Name), X(a.Signature))
		}
		return T(XS(p.Command), I(p.Timestamp.UnixMilli()), I(p.Salt), L(out...), lastSeenV(c, &p.LastSeenMessages)), true
	case *chat.UnsignedPlayerCommand:
		return XS(p.Command), true
	case *playerinfo.Remove:
		out := make([]V, len(p.PlayersToRemove))
		for i, id := range p.PlayersToRemove {
			out[i] = u(id)
		}
		return L(out...), true
	case *playerinfo.Upsert:
		bits := int64(0)
		has := make([]bool, len(playerinfo.UpsertActions))
		for i, a := range playerinfo.UpsertActions {
			if playerinfo.ContainsAction(p.ActionSet, a) {
				bits |= 1 << uint(i)
				has[i] = true
			}
		}
		out := make([]V, len(p.Entries))
		for i, en := range p.Entries {
			vs := []V{u(en.ProfileID)}
			if has[0] {
				vs = append(vs, XS(en.Profile.Name), propsV(en.Profile.Properties))
			}
			if has[1] {
				if en.RemoteChatSession != nil {
					vs = append(vs, S(T(u(en.RemoteChatSession.ID), playerKeyV(en.RemoteChatSession.Key))))
				} else {
					vs = append(vs, N)
				}
			}
			if has[2] {
				vs = append(vs, I(int64(en.GameMode)))
			}
			if has[3] {
				vs = append(vs, B(en.Listed))
			}
			if has[4] {
				vs = append(vs, I(int64(en.Latency)))
			}
			if has[5] {
				vs = append(vs, optComp(en.DisplayName, pv))
			}
			if has[6] {
				vs = append(vs, I(int64(en.ListOrder)))
			}
			if has[7] {
				vs = append(vs, B(en.ShowHat))
			}
			out[i] = T(vs...)
		}
		return Pair(I(bits), L(out...)), true
	}
	return nil, false
}
