package pk

import (
	"encoding/hex"
	"fmt"
	"reflect"
	"sort"
	"strings"
	"time"

	"go.minekube.com/brigodier"
	"go.minekube.com/common/minecraft/component"
	"go.minekube.com/common/minecraft/key"

	"go.minekube.com/gate/pkg/edition/java/proto/packet/tablist/playerinfo"
	"go.minekube.com/gate/pkg/edition/java/proto/util"
	"go.minekube.com/gate/pkg/edition/java/proxy/crypto"
)

// Dump prints every exported field of a decoded packet canonically (maps sorted, interfaces by content), so that
// two decodes can be compared field by field.
func Dump(x any) string {
	var sb strings.Builder
	dump(&sb, reflect.ValueOf(x), 0)
	return sb.String()
}

func dump(sb *strings.Builder, v reflect.Value, depth int) {
	if !v.IsValid() {
		sb.WriteString("nil")
		return
	}
	if depth > 12 {
		sb.WriteString("…")
		return
	}
	if v.CanInterface() {
		switch x := v.Interface().(type) {
		case time.Time:
			fmt.Fprintf(sb, "t%d", x.UnixMilli())
			return
		case crypto.IdentifiedKey:
			if x == nil {
				sb.WriteString("nil")
				return
			}
			fmt.Fprintf(sb, "key{%d %x %x}", x.ExpiryTemporal().UnixMilli(), x.SignedPublicKeyBytes(), x.Signature())
			return
		case key.Key:
			if x == nil {
				sb.WriteString("nil")
				return
			}
			sb.WriteString(x.String())
			return
		case component.Component:
			if x == nil {
				sb.WriteString("nil")
				return
			}
			var b strings.Builder
			_ = util.LatestJsonCodec().Marshal(&b, x)
			sb.WriteString(b.String())
			return
		case playerinfo.UpsertAction:
			for i, a := range playerinfo.UpsertActions {
				if a == x {
					fmt.Fprintf(sb, "action%d", i)
					return
				}
			}
			sb.WriteString("action?")
			return
		case *brigodier.RootCommandNode:
			sb.WriteString("<commands>")
			return
		case []byte:
			sb.WriteString(hex.EncodeToString(x))
			return
		}
	}
	switch v.Kind() {
	case reflect.Ptr, reflect.Interface:
		if v.IsNil() {
			sb.WriteString("nil")
			return
		}
		sb.WriteByte('&')
		dump(sb, v.Elem(), depth+1)
	case reflect.Struct:
		sb.WriteByte('{')
		t := v.Type()
		for i := 0; i < v.NumField(); i++ {
			if !t.Field(i).IsExported() {
				continue
			}
			sb.WriteString(t.Field(i).Name)
			sb.WriteByte(':')
			dump(sb, v.Field(i), depth+1)
			sb.WriteByte(' ')
		}
		sb.WriteByte('}')
	case reflect.Slice, reflect.Array:
		sb.WriteByte('[')
		for i := 0; i < v.Len(); i++ {
			dump(sb, v.Index(i), depth+1)
			sb.WriteByte(' ')
		}
		sb.WriteByte(']')
	case reflect.Map:
		keys := v.MapKeys()
		sort.Slice(keys, func(i, j int) bool { return fmt.Sprint(keys[i]) < fmt.Sprint(keys[j]) })
		sb.WriteString("map[")
		for _, k := range keys {
			dump(sb, k, depth+1)
			sb.WriteByte('=')
			dump(sb, v.MapIndex(k), depth+1)
			sb.WriteByte(' ')
		}
		sb.WriteByte(']')
	case reflect.String:
		fmt.Fprintf(sb, "%q", v.String())
	case reflect.Float32, reflect.Float64:
		fmt.Fprintf(sb, "%x", v.Float())
	default:
		fmt.Fprintf(sb, "%v", v)
	}
}
