package pk

import (
	"encoding/hex"
	"fmt"
	"math"
	"reflect"
	"sort"
	"strings"
	"time"

	"go.minekube.com/brigodier"
	"go.minekube.com/common/minecraft/component"
	"go.minekube.com/common/minecraft/key"

	"go.minekube.com/gate/pkg/edition/java/proto/packet/tablist/playerinfo"
	"go.minekube.com/gate/pkg/edition/java/proto/util"
	"go.minekube.com/gate/pkg/edition/java/proxy/crypto"
)

// Dump prints every exported field of a decoded packet canonically (maps sorted, interfaces by content), so that
// two decodes can be compared field by field.
func Dump(x any) string {
	var sb strings.Builder
	dump(&sb, reflect.ValueOf(x), 0)
	return sb.String()
}

func dump(sb *strings.Builder, v reflect.Value, depth int) {
	if !v.IsValid() {
		sb.WriteString("nil")
		return
	}
	if depth > 12 {
		sb.WriteString("…")
		return
	}
	if v.CanInterface() {
		switch x := v.Interface().(type) {
		case time.Time:
			fmt.Fprintf(sb, "t%d", x.UnixMilli())
			return
		case crypto.IdentifiedKey:
			if x == nil {
				sb.WriteString("nil")
				return
			}
			fmt.Fprintf(sb, "key{%d %x %x}", x.ExpiryTemporal().UnixMilli(), x.SignedPublicKeyBytes(), x.Signature())
			return
		case key.Key:
			if x == nil {
				sb.WriteString("nil")
				return
			}
			sb.WriteString(x.String())
			return
		case component.Component:
			if x == nil {
				sb.WriteString("nil")
				return
			}
			var b strings.Builder
			_ = util.LatestJsonCodec().Marshal(&b, x)
			sb.WriteString(b.String())
			return
		case playerinfo.UpsertAction:
			for i, a := range playerinfo.UpsertActions {
				if a == x {
					fmt.Fprintf(sb, "action%d", i)
					return
				}
			}
			sb.WriteString("action?")
			return
		case *brigodier.RootCommandNode:
			sb.WriteString(DumpCommands(x))
			return
		case []byte:
			sb.WriteString(hex.EncodeToString(x))
			return
		}
	}
	switch v.Kind() {
	case reflect.Ptr, reflect.Interface:
		if v.IsNil() {
			sb.WriteString("nil")
			return
		}
		sb.WriteByte('&')
		dump(sb, v.Elem(), depth+1)
	case reflect.Struct:
		sb.WriteByte('{')
		t := v.Type()
		for i := 0; i < v.NumField(); i++ {
			if !t.Field(i).IsExported() {
				continue
			}
			sb.WriteString(t.Field(i).Name)
			sb.WriteByte(':')
			dump(sb, v.Field(i), depth+1)
			sb.WriteByte(' ')
		}
		sb.WriteByte('}')
	case reflect.Slice, reflect.Array:
		sb.WriteByte('[')
		for i := 0; i < v.Len(); i++ {
			dump(sb, v.Index(i), depth+1)
			sb.WriteByte(' ')
		}
		sb.WriteByte(']')
	case reflect.Map:
		keys := v.MapKeys()
		sort.Slice(keys, func(i, j int) bool { return fmt.Sprint(keys[i]) < fmt.Sprint(keys[j]) })
		sb.WriteString("map[")
		for _, k := range keys {
			dump(sb, k, depth+1)
			sb.WriteByte('=')
			dump(sb, v.MapIndex(k), depth+1)
			sb.WriteByte(' ')
		}
		sb.WriteByte(']')
	case reflect.String:
		fmt.Fprintf(sb, "%q", v.String())
	case reflect.Float32, reflect.Float64:
		fmt.Fprintf(sb, "%x", v.Float())
	default:
		fmt.Fprintf(sb, "%v", v)
	}
}

// DumpCommands prints a command tree canonically and without spaces: node kinds, names, executable/redirect flags,
// children in order, and argument types with their properties — number bounds bit-exact (floats as bit patterns).
func DumpCommands(root *brigodier.RootCommandNode) string {
	if root == nil {
		return "nil"
	}
	var sb strings.Builder
	seen := map[brigodier.CommandNode]int{}
	var walk func(n brigodier.CommandNode, depth int)
	walk = func(n brigodier.CommandNode, depth int) {
		if id, ok := seen[n]; ok {
			fmt.Fprintf(&sb, "^%d", id)
			return
		}
		seen[n] = len(seen)
		if depth > 40 {
			sb.WriteString("…")
			return
		}
		switch t := n.(type) {
		case *brigodier.RootCommandNode:
			sb.WriteString("root")
		case *brigodier.LiteralCommandNode:
			fmt.Fprintf(&sb, "lit:%x", t.Name())
		case *brigodier.ArgumentCommandNode:
			fmt.Fprintf(&sb, "arg:%x:%s", t.Name(), dumpArgType(t.Type()))
			if t.CustomSuggestions() != nil {
				sb.WriteString(":sugg")
			}
		}
		if n.Command() != nil {
			sb.WriteString("!")
		}
		if r := n.Redirect(); r != nil {
			sb.WriteString("->")
			walk(r, depth+1)
		}
		sb.WriteByte('{')
		n.ChildrenOrdered().Range(func(_ string, c brigodier.CommandNode) bool {
			walk(c, depth+1)
			sb.WriteByte(';')
			return true
		})
		sb.WriteByte('}')
	}
	walk(root, 0)
	return sb.String()
}

func dumpArgType(t brigodier.ArgumentType) string {
	switch a := t.(type) {
	case *brigodier.Float64ArgumentType:
		return fmt.Sprintf("f64[%016x,%016x]", math.Float64bits(a.Min), math.Float64bits(a.Max))
	case *brigodier.Float32ArgumentType:
		return fmt.Sprintf("f32[%08x,%08x]", math.Float32bits(a.Min), math.Float32bits(a.Max))
	case *brigodier.Int64ArgumentType:
		return fmt.Sprintf("i64[%d,%d]", a.Min, a.Max)
	case *brigodier.Int32ArgumentType:
		return fmt.Sprintf("i32[%d,%d]", a.Min, a.Max)
	case brigodier.StringType:
		return fmt.Sprintf("str%d", int(a))
	case *brigodier.BoolArgumentType:
		return "bool"
	}
	return strings.ReplaceAll(fmt.Sprintf("%T:%v", t, t), " ", "_")
}
