package pk

import (
	"encoding/base64"
	"encoding/binary"
	"encoding/hex"
	"math"
	"reflect"
	"strconv"
	"strings"
	"time"

	"github.com/Tnze/go-mc/nbt"
	"go.minekube.com/brigodier"
	"go.minekube.com/common/minecraft/color"
	"go.minekube.com/common/minecraft/component"
	"go.minekube.com/common/minecraft/key"

	"go.minekube.com/gate/pkg/edition/java/profile"
	"go.minekube.com/gate/pkg/edition/java/proto/packet"
	"go.minekube.com/gate/pkg/edition/java/proto/packet/bossbar"
	"go.minekube.com/gate/pkg/edition/java/proto/packet/chat"
	"go.minekube.com/gate/pkg/edition/java/proto/packet/config"
	"go.minekube.com/gate/pkg/edition/java/proto/packet/cookie"
	"go.minekube.com/gate/pkg/edition/java/proto/packet/plugin"
	"go.minekube.com/gate/pkg/edition/java/proto/packet/tablist/legacytablist"
	"go.minekube.com/gate/pkg/edition/java/proto/packet/tablist/playerinfo"
	"go.minekube.com/gate/pkg/edition/java/proto/packet/title"
	"go.minekube.com/gate/pkg/edition/java/proto/state/states"
	"go.minekube.com/gate/pkg/edition/java/proto/version"
	"go.minekube.com/gate/pkg/edition/java/proxy/crypto"
	"go.minekube.com/gate/pkg/edition/java/proxy/crypto/keyrevision"
	"go.minekube.com/gate/pkg/gate/proto"
	"go.minekube.com/gate/pkg/util/favicon"
	"go.minekube.com/gate/pkg/util/uuid"

	"verifharness/hx"
)

// Two fixed 1024-bit RSA public keys (PKIX DER): player keys only have to parse, not verify.
var pubKeys = [][]byte{
	mustHex("30819f300d06092a864886f70d010101050003818d0030818902818100fa42e1c3830ef546404f29b2b1a3d3923fd7ddf502afb38290c48214c2f9094f115d28c231101491d470f3208f8fbf9ddff04fa9781e381972ee64fbe9c75428d2d9087d3b96dccb5bb329c80814cfa3cd1a247c50d75f663395d9f3e2569e12c1ef4de4b5202ca7db102a7b23260f3ba66be89759f5a6bee6de83a3962888c90203010001"),
	mustHex("30819f300d06092a864886f70d010101050003818d0030818902818100e104005f003a6fe5ca22c63e47142d63d739beed72c216c39e4a33c3e885a470a2a80f1ab51aacb6a8040c1e634cb788d3076143db943b50a38290998eb8e1b232dbaf1a8b83ef4b2d71a728ef0392302958e9c56bfd06d59dc941d509aae7ccd257a3b28f73101f527cf3c013889f13d02afde85bfaa688de6f476c748e9cd90203010001"),
}

func mustHex(s string) []byte {
	b, err := hex.DecodeString(s)
	if err != nil {
		panic(err)
	}
	return b
}

// G generates packet values for one registry entry.
type G struct {
	R *hx.Rng
	E Entry
	// Valid is cleared when the generator deliberately leaves the protocol's value domain (over-long string …).
	Valid bool
	// Big > 0: give the packet's count-prefixed collection exactly Big (small) elements — collections around the
	// readers' pre-allocation cap (MaxPreAllocSize = 32768).
	Big int
}

// BigArrayTypes are the packet types for which Big is honoured.
var BigArrayTypes = []string{"packet.PlayerChatCompletion", "config.ActiveFeatures", "config.TagsUpdate", "packet.JoinGame",
	"config.KnownPacks", "playerinfo.Remove", "packet.CustomReportDetails", "packet.TabCompleteResponse",
	"packet.ServerLoginSuccess", "packet.AvailableCommands"}

func itoa36(i int) string { return strconv.FormatInt(int64(i), 36) }

func (g *G) ge(v *proto.Version) bool { return g.E.Proto >= v.Protocol }
func (g *G) lt(v *proto.Version) bool { return g.E.Proto < v.Protocol }

var intBoundaries = []int64{0, 1, -1, 2, 127, 128, 255, 256, 16383, 16384, 2097151, 2097152, 268435455, 268435456,
	math.MaxInt16, math.MinInt16, math.MaxInt32, math.MinInt32, math.MaxInt32 - 1, math.MinInt32 + 1}

func (g *G) int32ish() int64 {
	switch g.R.Intn(4) {
	case 0:
		return hx.Pick(g.R, intBoundaries)
	case 1:
		return int64(g.R.Intn(128))
	default:
		return int64(int32(g.R.U64() >> uint(g.R.Intn(33))))
	}
}

func (g *G) intBits(bits uint) int64 {
	v := int64(g.R.U64())
	if g.R.Bool() {
		v >>= uint(g.R.Intn(64))
	}
	if g.R.Chance(1, 4) {
		v = hx.Pick(g.R, []int64{0, 1, -1, math.MaxInt64, math.MinInt64, math.MaxInt32, math.MinInt32, 255, 256})
	}
	if bits < 64 {
		v = v << (64 - bits) >> (64 - bits)
	}
	return v
}

const asciiChars = "abcdefghijklmnopqrstuvwxyzABCDEFGHIJKLMNOPQRSTUVWXYZ0123456789 _-.:/"

var utfChars = []string{"é", "ß", "ж", "漢", "字", "€", "😀", "§"}

// Str returns a string of about n bytes (mostly ASCII, sometimes multi-byte UTF-8), never invalid UTF-8.
func (g *G) Str(n int) string {
	var sb strings.Builder
	for sb.Len() < n {
		if g.R.Chance(1, 12) && sb.Len()+4 <= n {
			sb.WriteString(hx.Pick(g.R, utfChars))
		} else {
			sb.WriteByte(asciiChars[g.R.Intn(len(asciiChars))])
		}
	}
	return sb.String()
}

// strLen picks a length class: empty, short, around 100–300 bytes, the given maximum.
func (g *G) strLen(max int) int {
	var n int
	switch g.R.Intn(8) {
	case 0:
		n = 0
	case 1:
		n = hx.Pick(g.R, []int{1, 2, 127, 128, 129, 255, 256, 300})
	case 2:
		n = max
	case 3:
		n = max - 1
	case 4:
		n = 100 + g.R.Intn(400)
	default:
		n = 1 + g.R.Intn(20)
	}
	if n > max {
		n = max
	}
	if n < 0 {
		n = 0
	}
	return n
}

// StrMax: a string whose BYTE length respects a ReadStringMax(max) reader (limit max*4 bytes), capped for speed.
func (g *G) StrMax(maxChars int) string {
	lim := maxChars * 4
	if lim > 5000 && !g.R.Chance(1, 40) {
		lim = 5000
	}
	return g.Str(g.strLen(lim))
}

func (g *G) NonEmpty(maxChars int) string {
	s := g.StrMax(maxChars)
	if s == "" {
		s = "x"
	}
	return s
}

func (g *G) BytesMax(max int) []byte {
	lim := max
	if lim > 5000 && !g.R.Chance(1, 40) {
		lim = 5000
	}
	return g.R.Bytes(g.strLen(lim))
}

func (g *G) UUID() (u uuid.UUID) {
	if g.R.Chance(1, 10) {
		return
	}
	copy(u[:], g.R.Bytes(16))
	return
}
func (g *G) NonZeroUUID() uuid.UUID {
	u := g.UUID()
	if u == uuid.Nil {
		u[15] = 1
	}
	return u
}

const keyChars = "abcxyz019_-."

func (g *G) keyPart(value bool) string {
	n := 1 + g.R.Intn(10)
	var sb strings.Builder
	for i := 0; i < n; i++ {
		if value && g.R.Chance(1, 6) {
			sb.WriteByte('/')
		} else {
			sb.WriteByte(keyChars[g.R.Intn(len(keyChars))])
		}
	}
	return sb.String()
}

func (g *G) Key() key.Key {
	if g.R.Chance(1, 3) {
		return key.New("minecraft", g.keyPart(true))
	}
	ns := g.keyPart(false)
	if ns == ".." {
		ns = "a"
	}
	return key.New(ns, g.keyPart(true))
}

func (g *G) PlayerKey() crypto.IdentifiedKey {
	rev := keyrevision.LinkedV2
	if g.E.Proto == version.Minecraft_1_19.Protocol {
		rev = keyrevision.GenericV1
	}
	k, err := crypto.NewIdentifiedKey(rev, hx.Pick(g.R, pubKeys), int64(g.R.U64()>>22), g.R.Bytes(hx.Pick(g.R, []int{0, 1, 128, 256, 512, 4096})))
	if err != nil {
		panic(err)
	}
	return k
}

// ---------- chat components ----------

func (g *G) Comp(depth int) component.Component {
	t := &component.Text{Content: g.Str(g.strLen(300))}
	if g.R.Chance(1, 3) {
		t.S.Color = hx.Pick(g.R, []color.Color{color.Red, color.Green, color.Blue, color.Gold})
	}
	if g.R.Chance(1, 4) {
		t.S.Bold = component.True
	}
	if depth < 3 && g.R.Chance(1, 3) {
		n := 1 + g.R.Intn(3)
		for i := 0; i < n; i++ {
			t.Extra = append(t.Extra, g.Comp(depth+1))
		}
	}
	if depth < 2 && g.R.Chance(1, 8) {
		return &component.Translation{Key: "chat.type.text", With: []component.Component{t, g.Comp(depth + 1)}}
	}
	return t
}

// Holder returns a component holder in one of the forms gate itself produces / receives for this protocol:
// a component to be serialised, or (1.20.3+) the raw binary tag a backend sent, or (below) raw JSON.
func (g *G) Holder() *chat.ComponentHolder {
	p := g.E.Proto
	if g.E.Name == "packet.Disconnect" && g.E.ID == 0 && g.E.Dir == proto.ClientBound {
		p = version.Minecraft_1_20_2.Protocol
	}
	switch g.R.Intn(4) {
	case 0:
		if p >= version.Minecraft_1_20_3.Protocol {
			return &chat.ComponentHolder{Protocol: p, BinaryTag: g.NBT(hx.Pick(g.R, []byte{nbt.TagCompound, nbt.TagString, nbt.TagCompound, nbt.TagList}))}
		}
		j, err := (&chat.ComponentHolder{Protocol: p, Component: g.Comp(0)}).AsJson()
		if err != nil {
			panic(err)
		}
		return &chat.ComponentHolder{Protocol: p, JSON: j}
	default:
		h := chat.FromComponentProtocol(g.Comp(0), p)
		if p >= version.Minecraft_1_20_3.Protocol {
			// JSON→NBT conversion iterates Go maps: render once (through the same AsBinaryTag the writer uses) so
			// that the encoding of this holder is one fixed byte string.
			bt, err := h.AsBinaryTag()
			if err != nil {
				panic(err)
			}
			h.BinaryTag = bt
		}
		return h
	}
}

// ---------- NBT ----------

func be16(n int) []byte { return []byte{byte(n >> 8), byte(n)} }
func be32(n int) []byte { var b [4]byte; binary.BigEndian.PutUint32(b[:], uint32(n)); return b[:] }

func (g *G) nbtPayload(t byte, depth int) []byte {
	switch t {
	case nbt.TagByte:
		return g.R.Bytes(1)
	case nbt.TagShort:
		return g.R.Bytes(2)
	case nbt.TagInt, nbt.TagFloat:
		return g.R.Bytes(4)
	case nbt.TagLong, nbt.TagDouble:
		return g.R.Bytes(8)
	case nbt.TagByteArray:
		n := g.R.Intn(20)
		return append(be32(n), g.R.Bytes(n)...)
	case nbt.TagString:
		s := g.Str(g.strLen(400))
		return append(be16(len(s)), s...)
	case nbt.TagIntArray:
		n := g.R.Intn(6)
		return append(be32(n), g.R.Bytes(4*n)...)
	case nbt.TagLongArray:
		n := g.R.Intn(6)
		return append(be32(n), g.R.Bytes(8*n)...)
	case nbt.TagList:
		n := g.R.Intn(4)
		et := byte(1 + g.R.Intn(12))
		if depth >= 3 && (et == nbt.TagList || et == nbt.TagCompound) {
			et = nbt.TagInt
		}
		if n == 0 && g.R.Bool() {
			et = nbt.TagEnd
		}
		out := append([]byte{et}, be32(n)...)
		for i := 0; i < n; i++ {
			out = append(out, g.nbtPayload(et, depth+1)...)
		}
		return out
	case nbt.TagCompound:
		n := g.R.Intn(5)
		if depth >= 3 {
			n = g.R.Intn(2)
		}
		var out []byte
		for i := 0; i < n; i++ {
			et := byte(1 + g.R.Intn(12))
			if depth >= 3 && (et == nbt.TagList || et == nbt.TagCompound) {
				et = nbt.TagString
			}
			name := g.Str(g.R.Intn(12))
			out = append(out, et)
			out = append(out, be16(len(name))...)
			out = append(out, name...)
			out = append(out, g.nbtPayload(et, depth+1)...)
		}
		return append(out, nbt.TagEnd)
	}
	panic("bad tag")
}

// NBT returns a random well-formed binary tag of the given root type.
func (g *G) NBT(root byte) nbt.RawMessage {
	return nbt.RawMessage{Type: root, Data: g.nbtPayload(root, 0)}
}

// ---------- brigadier ----------

func (g *G) Commands() *brigodier.RootCommandNode {
	root := &brigodier.RootCommandNode{}
	cmd := brigodier.CommandFunc(func(*brigodier.CommandContext) error { return nil })
	types := []brigodier.ArgumentType{brigodier.String, brigodier.Bool, brigodier.Int, brigodier.StringWord, brigodier.StringPhrase, brigodier.Float64, brigodier.Int64}
	for i := 0; i < 6; i++ { // number arguments with bounds at and beyond the "unbounded" sentinels
		types = append(types, g.NumberArg())
	}
	// 1. plain top-level commands (possible redirect targets), some with argument sub-trees
	n := 1 + g.R.Intn(4)
	var targets []brigodier.CommandNode
	for i := 0; i < n; i++ {
		lit := brigodier.Literal("c" + string(rune('a'+i)) + g.keyPart(false))
		if g.R.Bool() {
			lit.Executes(cmd)
		}
		if g.R.Bool() {
			a := brigodier.Argument("a"+g.keyPart(false), hx.Pick(g.R, types))
			if g.R.Bool() {
				a.Executes(cmd)
			}
			if g.R.Bool() {
				a.Then(brigodier.Argument("b"+g.keyPart(false), hx.Pick(g.R, types)).Executes(cmd))
			}
			if g.R.Chance(1, 3) {
				a.Then(brigodier.Literal("x" + g.keyPart(false)).Executes(cmd))
			}
			lit.Then(a)
		}
		targets = append(targets, lit.Build())
	}
	// 2. aliases: literals that redirect to one of the commands (or to the root)
	type entry struct {
		node brigodier.CommandNode
	}
	var order []entry
	for _, t := range targets {
		order = append(order, entry{t})
	}
	for i, m := 0, g.R.Intn(4); i < m; i++ {
		var target brigodier.CommandNode = hx.Pick(g.R, targets)
		if g.R.Chance(1, 6) {
			target = root
		}
		alias := brigodier.Literal("r" + string(rune('a'+i)) + g.keyPart(false)).Redirect(target).Build()
		// anywhere among the siblings: BEFORE its target (a forward reference on the wire) as well as after it
		k := g.R.Intn(len(order) + 1)
		order = append(order[:k:k], append([]entry{{alias}}, order[k:]...)...)
	}
	for _, e := range order {
		root.AddChild(e.node)
	}
	return root
}

// F64Bounds / F32Bounds / I64Bounds / I32Bounds: boundary values of brigadier number-argument bounds (floats as bits).
var F64Bounds = []uint64{
	math.Float64bits(-math.MaxFloat64), math.Float64bits(math.MaxFloat64), // the sentinels
	math.Float64bits(math.Inf(-1)), math.Float64bits(math.Inf(1)), 0x7ff8000000000001, 0xfff8000000000000, // ±Inf, NaNs
	0x8000000000000000, 0, 1, 0x8000000000000001, 0x000fffffffffffff, // -0, +0, subnormals
	math.Float64bits(-math.MaxFloat32), math.Float64bits(math.MaxFloat32), math.Float64bits(1), math.Float64bits(-1.5),
	math.Float64bits(math.Nextafter(math.MaxFloat64, 0)), math.Float64bits(math.Nextafter(-math.MaxFloat64, 0)),
}
var F32Bounds = []uint32{
	math.Float32bits(-math.MaxFloat32), math.Float32bits(math.MaxFloat32),
	math.Float32bits(float32(math.Inf(-1))), math.Float32bits(float32(math.Inf(1))), 0x7fc00001, 0xffc00000,
	0x80000000, 0, 1, 0x80000001, 0x007fffff, math.Float32bits(1), math.Float32bits(-2.5), 0x7f7ffffe, 0xff7ffffe,
}
var I64Bounds = []int64{
	math.MinInt32, math.MaxInt64, // brigodier's sentinels (MinInt64 is really MinInt32)
	math.MinInt64, math.MinInt64 + 1, math.MaxInt64 - 1, math.MinInt32 - 1, math.MinInt32 + 1, math.MaxInt32, math.MaxInt32 + 1,
	-5000000000, 5000000000, 0, 1, -1, 255,
}
var I32Bounds = []int32{math.MinInt32, math.MaxInt32, math.MinInt32 + 1, math.MaxInt32 - 1, 0, 1, -1, 65536}

// NumberArg returns a brigadier number argument type whose bounds are drawn from the boundary tables.
func (g *G) NumberArg() brigodier.ArgumentType {
	switch g.R.Intn(4) {
	case 0:
		return &brigodier.Float64ArgumentType{Min: math.Float64frombits(hx.Pick(g.R, F64Bounds)), Max: math.Float64frombits(hx.Pick(g.R, F64Bounds))}
	case 1:
		return &brigodier.Float32ArgumentType{Min: math.Float32frombits(hx.Pick(g.R, F32Bounds)), Max: math.Float32frombits(hx.Pick(g.R, F32Bounds))}
	case 2:
		return &brigodier.Int64ArgumentType{Min: hx.Pick(g.R, I64Bounds), Max: hx.Pick(g.R, I64Bounds)}
	default:
		return &brigodier.Int32ArgumentType{Min: hx.Pick(g.R, I32Bounds), Max: hx.Pick(g.R, I32Bounds)}
	}
}

// ---------- generic filler ----------

var (
	tUUID     = reflect.TypeOf(uuid.UUID{})
	tTime     = reflect.TypeOf(time.Time{})
	tHolder   = reflect.TypeOf(chat.ComponentHolder{})
	tRaw      = reflect.TypeOf(nbt.RawMessage{})
	tFavicon  = reflect.TypeOf(favicon.Favicon(""))
	tKey      = reflect.TypeOf((*key.Key)(nil)).Elem()
	tIDKey    = reflect.TypeOf((*crypto.IdentifiedKey)(nil)).Elem()
	tComp     = reflect.TypeOf((*component.Component)(nil)).Elem()
	tActions  = reflect.TypeOf([]playerinfo.UpsertAction(nil))
	tRootNode = reflect.TypeOf((*brigodier.RootCommandNode)(nil))
)

func (g *G) fill(v reflect.Value, depth int) {
	t := v.Type()
	switch t {
	case tUUID:
		v.Set(reflect.ValueOf(g.UUID()))
		return
	case tTime:
		v.Set(reflect.ValueOf(time.UnixMilli(int64(g.R.U64() >> 23))))
		return
	case tHolder:
		v.Set(reflect.ValueOf(*g.Holder()))
		return
	case tRaw:
		v.Set(reflect.ValueOf(g.NBT(nbt.TagCompound)))
		return
	case tFavicon:
		if g.R.Bool() {
			v.SetString("data:image/png;base64," + base64.StdEncoding.EncodeToString(g.R.Bytes(1+g.R.Intn(200))))
		}
		return
	case tKey:
		v.Set(reflect.ValueOf(g.Key()))
		return
	case tIDKey:
		if g.R.Chance(2, 3) {
			v.Set(reflect.ValueOf(g.PlayerKey()))
		}
		return
	case tComp:
		if g.R.Chance(2, 3) {
			v.Set(reflect.ValueOf(g.Comp(1)))
		}
		return
	case tActions:
		var as []playerinfo.UpsertAction
		perm := append([]playerinfo.UpsertAction(nil), playerinfo.UpsertActions...)
		for i := len(perm) - 1; i > 0; i-- { // API order is deliberately NOT the canonical order
			j := g.R.Intn(i + 1)
			perm[i], perm[j] = perm[j], perm[i]
		}
		for _, a := range perm {
			if g.R.Bool() {
				as = append(as, a)
			}
		}
		v.Set(reflect.ValueOf(as))
		return
	case tRootNode:
		v.Set(reflect.ValueOf(g.Commands()))
		return
	}
	switch v.Kind() {
	case reflect.Bool:
		v.SetBool(g.R.Bool())
	case reflect.Int:
		v.SetInt(g.int32ish())
	case reflect.Int8:
		v.SetInt(g.intBits(8))
	case reflect.Int16:
		v.SetInt(g.intBits(16))
	case reflect.Int32:
		v.SetInt(g.intBits(32))
	case reflect.Int64:
		v.SetInt(g.intBits(64))
	case reflect.Uint8:
		v.SetUint(uint64(byte(g.R.U64())))
	case reflect.Uint16, reflect.Uint32, reflect.Uint64, reflect.Uint:
		v.SetUint(g.R.U64() >> 33)
	case reflect.Float32:
		v.SetFloat(float64(math.Float32frombits(g.floatBits32())))
	case reflect.Float64:
		v.SetFloat(float64(math.Float32frombits(g.floatBits32())))
	case reflect.String:
		v.SetString(g.Str(g.strLen(600)))
	case reflect.Slice:
		if t.Elem().Kind() == reflect.Uint8 {
			v.SetBytes(g.R.Bytes(g.strLen(600)))
			return
		}
		n := hx.Pick(g.R, []int{0, 1, 1, 2, 3, 5})
		s := reflect.MakeSlice(t, n, n)
		for i := 0; i < n; i++ {
			g.fill(s.Index(i), depth+1)
		}
		v.Set(s)
	case reflect.Map:
		n := hx.Pick(g.R, []int{0, 1, 2, 3, 4})
		m := reflect.MakeMapWithSize(t, n)
		for i := 0; i < n; i++ {
			k := reflect.New(t.Key()).Elem()
			g.fill(k, depth+1)
			e := reflect.New(t.Elem()).Elem()
			g.fill(e, depth+1)
			m.SetMapIndex(k, e)
		}
		v.Set(m)
	case reflect.Ptr:
		if g.R.Chance(1, 4) {
			return
		}
		p := reflect.New(t.Elem())
		g.fill(p.Elem(), depth+1)
		v.Set(p)
	case reflect.Struct:
		for i := 0; i < v.NumField(); i++ {
			if t.Field(i).IsExported() {
				g.fill(v.Field(i), depth+1)
			}
		}
	case reflect.Array:
		for i := 0; i < v.Len(); i++ {
			g.fill(v.Index(i), depth+1)
		}
	}
}

// float bit patterns without NaNs (a NaN payload is not guaranteed to survive float32 copies)
func (g *G) floatBits32() uint32 {
	b := uint32(g.R.U64())
	if b&0x7f800000 == 0x7f800000 {
		b &^= 0x00800000
	}
	if g.R.Chance(1, 5) {
		b = hx.Pick(g.R, []uint32{0, 0x3f800000, 0xbf800000, 0x3f000000, 0x7f7fffff, 0x80000000, 1})
	}
	return b
}

func (g *G) fitInt(bits uint) int { // a value of a Go int field that is written as intN
	return int(g.intBits(bits))
}

// Packet returns a generated value of the entry's packet type that the protocol permits in this context
// (g.Valid stays true), or — for one in `invalidEvery` calls on types with a length limit — deliberately not.
func (g *G) Packet() proto.Packet {
	g.Valid = true
	p := g.E.New()
	g.fill(reflect.ValueOf(p).Elem(), 0)
	if st, ok := p.(interface{ SetState(states.State) }); ok {
		st.SetState(g.E.Reg.State) // the registry sets it in CreatePacket; the filler must not invent one
	}
	g.fix(p)
	return p
}

func (g *G) holderOrNil() *chat.ComponentHolder {
	if g.R.Chance(1, 3) {
		return nil
	}
	return g.Holder()
}

func (g *G) props() []profile.Property {
	n := g.R.Intn(4)
	ps := make([]profile.Property, n)
	for i := range ps {
		ps[i] = profile.Property{Name: g.Str(g.strLen(40)), Value: g.Str(g.strLen(700))}
		if g.R.Bool() {
			ps[i].Signature = g.Str(1 + g.strLen(700))
		}
	}
	if n == 0 && g.R.Bool() {
		return nil
	}
	return ps
}

// big fills the packet's collection with exactly g.Big small elements.
func (g *G) big(p proto.Packet) {
	n := g.Big
	switch p := p.(type) {
	case *packet.PlayerChatCompletion:
		p.Completions = make([]string, n)
		for i := range p.Completions {
			p.Completions[i] = string(rune('a' + i%26))
		}
	case *config.ActiveFeatures:
		p.ActiveFeatures = make([]key.Key, n)
		for i := range p.ActiveFeatures {
			p.ActiveFeatures[i] = key.New("minecraft", itoa36(i))
		}
	case *config.TagsUpdate:
		ids := make([]int, n)
		for i := range ids {
			ids[i] = i % 300
		}
		p.Tags = map[string]map[string][]int{"minecraft:block": {"minecraft:big": ids, "minecraft:small": {1, 2}}}
	case *packet.JoinGame:
		p.LevelNames = make([]string, n)
		for i := range p.LevelNames {
			p.LevelNames[i] = itoa36(i)
		}
	case *config.KnownPacks:
		if g.E.Dir == proto.ClientBound {
			p.Packs = make([]config.KnownPack, n)
			for i := range p.Packs {
				p.Packs[i] = config.KnownPack{Namespace: "m", Id: itoa36(i), Version: "1"}
			}
		}
	case *playerinfo.Remove:
		p.PlayersToRemove = make([]uuid.UUID, n)
		for i := range p.PlayersToRemove {
			p.PlayersToRemove[i][15], p.PlayersToRemove[i][14], p.PlayersToRemove[i][0] = byte(i), byte(i>>8), 7
		}
	case *packet.CustomReportDetails:
		p.Details = make(map[string]string, n)
		for i := 0; i < n; i++ {
			p.Details[itoa36(i)] = "v"
		}
	case *packet.TabCompleteResponse:
		p.Offers = make([]packet.TabCompleteOffer, n)
		for i := range p.Offers {
			p.Offers[i] = packet.TabCompleteOffer{Text: itoa36(i)}
		}
	case *packet.ServerLoginSuccess:
		p.Properties = make([]profile.Property, n)
		for i := range p.Properties {
			p.Properties[i] = profile.Property{Name: "n", Value: itoa36(i)}
		}
	case *packet.AvailableCommands:
		root := &brigodier.RootCommandNode{}
		for i := 0; i < n; i++ {
			root.AddChild(brigodier.Literal("l" + itoa36(i)).Build())
		}
		p.RootNode = root
	}
}

// fix adjusts the generically filled packet to the value domain the protocol permits for this type/context.
func (g *G) fix(p proto.Packet) {
	if g.Big > 0 {
		defer g.big(p)
	}
	switch p := p.(type) {
	case *packet.Handshake:
		p.Port = g.fitInt(16)
		p.ServerAddress = g.StrMax(255)
	case *packet.KeepAlive:
		if g.lt(version.Minecraft_1_12_2) {
			p.RandomID = g.intBits(32)
		}
	case *packet.PingIdentify:
		p.ID = g.fitInt(32)
	case *packet.ServerLogin:
		p.Username = g.NonEmpty(16)
		if !(g.ge(version.Minecraft_1_19) && g.lt(version.Minecraft_1_19_3)) {
			p.PlayerKey = nil
		}
		if g.lt(version.Minecraft_1_19_1) {
			p.HolderID = uuid.Nil
		}
	case *packet.ServerLoginSuccess:
		p.Username = g.NonEmpty(16)
		p.Properties = g.props()
	case *packet.EncryptionRequest:
		p.ServerID = g.StrMax(20)
		p.PublicKey = g.BytesMax(256)
		p.VerifyToken = g.BytesMax(16)
	case *packet.EncryptionResponse:
		p.SharedSecret = g.BytesMax(128)
		if g.lt(version.Minecraft_1_19) {
			p.VerifyToken = g.BytesMax(128)
		} else {
			p.VerifyToken = g.BytesMax(256)
		}
		if !(g.ge(version.Minecraft_1_19) && g.lt(version.Minecraft_1_19_3)) {
			p.Salt = nil
		}
	case *packet.LoginPluginMessage:
		p.Channel = g.StrMax(200)
	case *packet.ClientSettings:
		p.Locale = g.StrMax(16)
	case *plugin.Message:
		p.Channel = hx.Pick(g.R, []string{"minecraft:brand", "MC|Brand", "REGISTER", "BungeeCord", "FML|HS", "my:channel", g.NonEmpty(40)})
		max := 32767
		if g.E.Dir == proto.ClientBound && g.R.Chance(1, 10) {
			max = 70000
		}
		p.Data = g.BytesMax(max)
	case *packet.ResourcePackRequest:
		p.ID = g.NonZeroUUID()
		p.URL = g.NonEmpty(500)
		p.Prompt = g.holderOrNil()
	case *packet.ResourcePackResponse:
		p.Status = packet.ResponseStatus(g.int32ish())
	case *packet.TabCompleteRequest:
		p.Command = g.NonEmpty(2048)
	case *packet.TabCompleteResponse:
		for i := range p.Offers {
			p.Offers[i].Tooltip = g.holderOrNil()
		}
	case *packet.Disconnect:
		p.Reason = g.Holder()
	case *packet.ServerData:
		p.Description = g.Holder()
		if g.lt(version.Minecraft_1_19_4) && g.R.Chance(1, 3) {
			p.Description = nil
		}
	case *packet.ServerLinks:
		for _, l := range p.ServerLinks {
			if l == nil {
				continue
			}
			if l.ID < 0 {
				l.ID = -1
			}
		}
		for i, l := range p.ServerLinks {
			if l == nil {
				p.ServerLinks[i] = &packet.ServerLink{ID: g.R.Intn(10), URL: g.Str(20)}
			}
		}
	case *packet.DialogShow:
		if g.R.Bool() {
			p.ID = 0
		}
		p.BinaryTag = g.NBT(nbt.TagCompound)
	case *packet.SoundEntityPacket:
		if g.R.Bool() {
			p.SoundID = 0
		}
		p.SoundName = g.Key()
		max := 10
		if g.ge(version.Minecraft_1_21_5) {
			max = 11
		}
		p.SoundSource = packet.SoundSource(g.R.Intn(max))
		if p.Seed == 0 {
			p.Seed = 1 // a zero seed means "pick a random one" to the encoder
		}
	case *packet.StopSoundPacket:
		if p.Source != nil {
			max := 10
			if g.ge(version.Minecraft_1_21_5) {
				max = 11
			}
			s := packet.SoundSource(g.R.Intn(max))
			p.Source = &s
		}
	case *packet.JoinGame:
		p.Gamemode = int16(g.R.Intn(4))
		p.PreviousGamemode = int16(g.R.Intn(256))
		p.Difficulty = int16(g.R.Intn(256))
		if g.lt(version.Minecraft_1_16_2) {
			p.MaxPlayers = g.R.Intn(256)
		}
		if g.lt(version.Minecraft_1_9_1) {
			p.Dimension = g.R.Intn(256)
		}
		lt := g.StrMax(16)
		p.LevelType = &lt
		ln := g.Str(g.strLen(100))
		p.DimensionInfo = &packet.DimensionInfo{RegistryIdentifier: g.NonEmpty(60), LevelName: &ln, Flat: g.R.Bool(), DebugType: g.R.Bool()}
		p.Registry = g.NBT(nbt.TagCompound)
		p.CurrentDimensionData = g.NBT(nbt.TagCompound)
	case *packet.Respawn:
		p.Gamemode = int16(g.R.Intn(256))
		p.PreviousGamemode = int16(g.R.Intn(256))
		p.Difficulty = int16(g.R.Intn(256))
		ln := g.Str(g.strLen(100))
		p.DimensionInfo = &packet.DimensionInfo{RegistryIdentifier: g.NonEmpty(60), LevelName: &ln, Flat: g.R.Bool(), DebugType: g.R.Bool()}
		p.CurrentDimensionData = g.NBT(nbt.TagCompound)
		if g.lt(version.Minecraft_1_19_3) && p.DataToKeep > 1 {
			p.DataToKeep = 1
		}
		if g.lt(version.Minecraft_1_16) {
			p.LevelType = g.Str(g.strLen(100))
		}
	case *config.KnownPacks:
		// at most 64 serverbound
	case *cookie.CookieResponse:
		p.Payload = g.BytesMax(cookie.MaxPayloadSize)
	case *cookie.CookieStore:
		p.Payload = g.BytesMax(cookie.MaxPayloadSize)
	case *bossbar.BossBar:
		p.Action = bossbar.Action(g.R.Intn(6))
		p.Name = g.Holder()
		p.Color = bossbar.Color(g.int32ish())
		p.Overlay = bossbar.Overlay(g.int32ish())
	case *title.Legacy:
		p.Action = title.Action(g.R.Intn(6))
		if g.lt(version.Minecraft_1_11) && p.Action == title.SetActionBar {
			p.Action = title.SetTitle
		}
		p.Component = g.Holder()
		p.FadeIn, p.Stay, p.FadeOut = g.fitInt(32), g.fitInt(32), g.fitInt(32)
	case *title.Times:
		p.FadeIn, p.Stay, p.FadeOut = g.fitInt(32), g.fitInt(32), g.fitInt(32)
	case *title.Clear:
		p.Action = hx.Pick(g.R, []title.Action{title.Hide, title.Reset})
	case *chat.LegacyChat:
		max := 100
		if g.E.Dir == proto.ClientBound {
			max = 262144
		} else if g.ge(version.Minecraft_1_11) {
			max = 256
		}
		p.Message = g.StrMax(max)
	case *chat.SystemChat:
		p.Component = g.Holder()
		if g.ge(version.Minecraft_1_19_1) {
			p.Type = hx.Pick(g.R, []chat.MessageType{chat.SystemMessageType, chat.GameInfoMessageType})
		}
	case *chat.SessionPlayerChat:
		p.Message = g.StrMax(256)
		p.Signature = nil
		if p.Signed {
			p.Signature = g.R.Bytes(256)
		}
		g.lastSeen(&p.LastSeenMessages)
	case *chat.SessionPlayerCommand:
		g.sessionCommand(p)
	case *chat.UnsignedPlayerCommand:
		g.sessionCommand(&p.SessionPlayerCommand)
		p.Command = g.StrMax(65536)
	case *chat.KeyedPlayerChat:
		// the Unsigned form stamps time.Now() into the encoding: only the signed form has a deterministic encoding
		p.Message = g.StrMax(256)
		p.Unsigned = false
		p.SignedPreview = g.R.Bool()
		p.Salt = g.R.Bytes(8)
		if binary.BigEndian.Uint64(p.Salt) == 0 {
			p.Salt[7] = 1
		}
		p.Signature = g.R.Bytes(1 + g.R.Intn(300))
		p.PreviousMessages, p.LastMessage = g.sigPairs()
	case *chat.KeyedPlayerCommand:
		p.Command = g.StrMax(256)
		p.Unsigned = false
		if p.Salt == 0 {
			p.Salt = 1
		}
		p.SignedPreview = g.R.Bool()
		args := map[string][]byte{}
		for i, n := 0, g.R.Intn(5); i < n; i++ {
			args[g.NonEmpty(16)] = g.R.Bytes(g.R.Intn(300))
		}
		p.Arguments = args
		p.PreviousMessages, p.LastMessage = g.sigPairs()
	case *legacytablist.PlayerListItem:
		p.Action = legacytablist.PlayerListItemAction(g.R.Intn(5))
		p.PlayerKey = nil
		if len(p.Items) == 0 || g.lt(version.Minecraft_1_8) {
			p.Items = []legacytablist.PlayerListItemEntry{{}}
			g.fill(reflect.ValueOf(&p.Items[0]).Elem(), 1)
		}
		for i := range p.Items {
			it := &p.Items[i]
			it.ID = g.NonZeroUUID()
			it.Properties = g.props()
			if !g.ge(version.Minecraft_1_19) {
				it.PlayerKey = nil
			}
			if g.lt(version.Minecraft_1_8) {
				it.Name = g.NonEmpty(4)
				it.Latency = g.fitInt(16)
				it.DisplayName = nil
				if p.Action != legacytablist.RemovePlayerListItemAction {
					p.Action = legacytablist.AddPlayerListItemAction
				}
			}
		}
	case *playerinfo.Upsert:
		for i, e := range p.Entries {
			if e == nil {
				e = &playerinfo.Entry{}
				g.fill(reflect.ValueOf(e).Elem(), 1)
				p.Entries[i] = e
			}
			e.Profile.ID = e.ProfileID
			e.Profile.Name = g.StrMax(16)
			e.Profile.Properties = g.props()
			e.DisplayName = g.holderOrNil()
			if e.RemoteChatSession != nil {
				e.RemoteChatSession.Key = g.PlayerKey()
			}
		}
	case *packet.CustomReportDetails, *config.TagsUpdate, *packet.AvailableCommands:
	}
}

func (g *G) lastSeen(l *chat.LastSeenMessages) {
	l.Acknowledged.Bytes = g.R.Bytes(g.R.Intn(4))
}

func (g *G) sessionCommand(p *chat.SessionPlayerCommand) {
	max := 256
	if g.ge(version.Minecraft_1_20_5) {
		max = 65536
	}
	p.Command = g.StrMax(max)
	n := g.R.Intn(4)
	if g.R.Chance(1, 10) {
		n = 8
	}
	p.ArgumentSignatures.Entries = make([]chat.ArgumentSignature, n)
	for i := range p.ArgumentSignatures.Entries {
		p.ArgumentSignatures.Entries[i] = chat.ArgumentSignature{Name: g.StrMax(16), Signature: g.R.Bytes(256)}
	}
	g.lastSeen(&p.LastSeenMessages)
}

func (g *G) sigPairs() ([]*crypto.SignaturePair, *crypto.SignaturePair) {
	var prev []*crypto.SignaturePair
	for i, n := 0, g.R.Intn(6); i < n; i++ {
		prev = append(prev, &crypto.SignaturePair{Signer: g.UUID(), Signature: g.R.Bytes(g.R.Intn(300))})
	}
	var last *crypto.SignaturePair
	if g.R.Bool() {
		last = &crypto.SignaturePair{Signer: g.UUID(), Signature: g.R.Bytes(g.R.Intn(300))}
	}
	return prev, last
}
