package pk

import (
	"syscall"
	"time"
)

// CPUTime is the CPU time (user + system) this process has consumed so far.
func CPUTime() time.Duration {
	var ru syscall.Rusage
	if err := syscall.Getrusage(syscall.RUSAGE_SELF, &ru); err != nil {
		return 0
	}
	return time.Duration(ru.Utime.Nano() + ru.Stime.Nano())
}

// GuardCPU runs f under recover and a watchdog that measures the PROCESS CPU TIME spent since the call started, not
// wall time: on a starved machine a slow case is not a hang.  "hang" is returned when f has burnt more than cpuBudget
// of CPU time, or — for code that blocks without using the CPU — when wallCap has passed; "panic" on a panic.
// Only one guarded call runs at a time in the harnesses, so the process CPU time is that of f (plus GC on its behalf).
func GuardCPU(cpuBudget, wallCap time.Duration, f func() string) string {
	ch := make(chan string, 1)
	go func() {
		defer func() {
			if r := recover(); r != nil {
				ch <- "panic"
			}
		}()
		ch <- f()
	}()
	start, cpu0 := time.Now(), CPUTime()
	tick := time.NewTicker(200 * time.Millisecond)
	defer tick.Stop()
	for {
		select {
		case s := <-ch:
			return s
		case <-tick.C:
			if CPUTime()-cpu0 > cpuBudget || time.Since(start) > wallCap {
				return "hang"
			}
		}
	}
}
