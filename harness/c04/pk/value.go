// Package pk is shared by the C04 and C05 harnesses: enumeration of the real runtime packet registry,
// generation of packet values, extraction of the schema-level value of a Go packet (the `Val` of
// lean/GateModel/C04/Model.lean), and a canonical dump of decoded packets.
package pk

import (
	"encoding/hex"
	"strconv"
	"strings"
)

// V mirrors Gate.C04.Val. Text (no spaces): u | i<int> | T | F | x<hex> | N | S<val> | [v,…] | (v,…).
type V interface{ wr(sb *strings.Builder) }

type (
	vUnit  struct{}
	vInt   int64
	vBool  bool
	vBytes []byte
	vPair  struct{ a, b V }
	vNone  struct{}
	vSome  struct{ v V }
	vList  []V
)

var U V = vUnit{}
var N V = vNone{}

func I(i int64) V    { return vInt(i) }
func B(b bool) V     { return vBool(b) }
func X(b []byte) V   { return vBytes(b) }
func XS(s string) V  { return vBytes([]byte(s)) }
func S(v V) V        { return vSome{v} }
func L(xs ...V) V    { return vList(xs) }
func Pair(a, b V) V  { return vPair{a, b} }

// T builds the right-nested tuple of Gate.C04.seqs: [] = unit, [a] = a, a::r = pair a (T r).
func T(xs ...V) V {
	switch len(xs) {
	case 0:
		return U
	case 1:
		return xs[0]
	}
	return vPair{xs[0], T(xs[1:]...)}
}

func (vUnit) wr(sb *strings.Builder)  { sb.WriteByte('u') }
func (v vInt) wr(sb *strings.Builder) { sb.WriteByte('i'); sb.WriteString(strconv.FormatInt(int64(v), 10)) }
func (v vBool) wr(sb *strings.Builder) {
	if v {
		sb.WriteByte('T')
	} else {
		sb.WriteByte('F')
	}
}
func (v vBytes) wr(sb *strings.Builder) { sb.WriteByte('x'); sb.WriteString(hex.EncodeToString(v)) }
func (vNone) wr(sb *strings.Builder)    { sb.WriteByte('N') }
func (v vSome) wr(sb *strings.Builder)  { sb.WriteByte('S'); v.v.wr(sb) }
func (v vList) wr(sb *strings.Builder) {
	sb.WriteByte('[')
	for i, x := range v {
		if i > 0 {
			sb.WriteByte(',')
		}
		x.wr(sb)
	}
	sb.WriteByte(']')
}
func (v vPair) wr(sb *strings.Builder) {
	sb.WriteByte('(')
	var cur V = v
	for {
		p, ok := cur.(vPair)
		if !ok {
			cur.wr(sb)
			break
		}
		p.a.wr(sb)
		sb.WriteByte(',')
		cur = p.b
	}
	sb.WriteByte(')')
}

func Show(v V) string {
	var sb strings.Builder
	v.wr(&sb)
	return sb.String()
}
