// C11 correspondence harness: drives the REAL player registry of pkg/edition/java/proxy
// (canRegisterConnection / registerConnection / Disconnect → closeOnce → teardown → unregisterConnection,
// Player / PlayerByName / PlayerCount / Players) through export_verif_c11.go over real netmc connections
// on stub sockets, sequentially, and prints after every call the result, the registry dump and the
// DisconnectEvents fired.  The Lean driver runs the interleaving machine of GateModel/C11/Model.lean on the
// same op lines (one thread, run to completion) and evaluates the spec on the real dump.
//
// A concurrent stress phase (goroutines running whole login flows) is a search aid only: its single
// line is `ok` unless an invariant is broken at a quiescent point.
package main

import (
	"fmt"
	"net"
	"sort"
	"strconv"
	"strings"
	"sync"
	"time"

	"github.com/robinbraemer/event"
	"go.minekube.com/gate/pkg/edition/java/config"
	"go.minekube.com/gate/pkg/edition/java/proxy"
	"go.minekube.com/gate/pkg/util/uuid"

	"verifharness/hx"
)

// ---------- stub socket ----------

type stubConn struct {
	once   sync.Once
	closed chan struct{}
}

func newStub() *stubConn { return &stubConn{closed: make(chan struct{})} }
func (s *stubConn) Read(b []byte) (int, error) {
	<-s.closed
	return 0, net.ErrClosed
}
func (s *stubConn) Write(b []byte) (int, error) { return len(b), nil }
func (s *stubConn) Close() error {
	s.once.Do(func() { close(s.closed) })
	return nil
}
func (s *stubConn) LocalAddr() net.Addr                { return &net.TCPAddr{IP: net.IPv4(127, 0, 0, 1), Port: 25565} }
func (s *stubConn) RemoteAddr() net.Addr               { return &net.TCPAddr{IP: net.IPv4(127, 0, 0, 1), Port: 40000} }
func (s *stubConn) SetDeadline(t time.Time) error      { return nil }
func (s *stubConn) SetReadDeadline(t time.Time) error  { return nil }
func (s *stubConn) SetWriteDeadline(t time.Time) error { return nil }

func uid(n int) uuid.UUID {
	var u uuid.UUID
	u[12], u[13], u[14], u[15] = byte(n>>24), byte(n>>16), byte(n>>8), byte(n)
	return u
}
func uidNum(u uuid.UUID) int {
	return int(u[12])<<24 | int(u[13])<<16 | int(u[14])<<8 | int(u[15])
}

var statusNames = map[proxy.LoginStatus]string{
	proxy.SuccessfulLoginStatus:                   "successful",
	proxy.ConflictingLoginStatus:                  "conflicting",
	proxy.CanceledByUserLoginStatus:               "canceledByUser",
	proxy.CanceledByProxyLoginStatus:              "canceledByProxy",
	proxy.CanceledByUserBeforeCompleteLoginStatus: "canceledBeforeComplete",
}

// ---------- world ----------

type world struct {
	px      *proxy.Proxy
	online  bool
	kick    bool
	players []*proxy.C11Player
	names   []string
	ids     []int
	index   map[proxy.Player]int
	mu      sync.Mutex
	events  []string
	torn    map[int]bool
	hung    bool
}

func newWorld(online, kick bool) *world {
	cfg := config.DefaultConfig
	cfg.OnlineMode = online
	cfg.OnlineModeKickExistingPlayers = kick
	mgr := event.New()
	px, err := proxy.New(proxy.Options{Config: &cfg, EventMgr: mgr})
	if err != nil {
		panic(err)
	}
	w := &world{px: px, online: online, kick: kick, index: map[proxy.Player]int{}, torn: map[int]bool{}}
	event.Subscribe(mgr, 0, func(e *proxy.DisconnectEvent) {
		w.mu.Lock()
		defer w.mu.Unlock()
		i, ok := w.index[e.Player()]
		if !ok {
			i = 999999
		}
		st, ok := statusNames[e.LoginStatus()]
		if !ok {
			st = "unknown"
		}
		w.events = append(w.events, st+":"+strconv.Itoa(i))
		w.torn[i] = true
	})
	return w
}

func (w *world) kickMode() bool { return w.online && w.kick }

func (w *world) add(name string, id int) int {
	i, _ := w.addP(name, id, w.online)
	return i
}

// addO declares a connection whose own OnlineMode() is given (PreLoginEvent can force online or offline
// mode for a single login, whatever the proxy's mode) and records the `new` line.
func (w *world) addO(run *hx.Run, class, name string, id int, online bool) int {
	i, _ := w.addP(name, id, online)
	run.Case(class+":setup", fmt.Sprintf("new %d %s %d %s", i, name, id, b01(online)), "-")
	return i
}

func (w *world) addP(name string, id int, online bool) (int, *proxy.C11Player) {
	pl := proxy.C11NewPlayer(w.px, newStub(), name, uid(id), online)
	w.mu.Lock()
	defer w.mu.Unlock()
	i := len(w.players)
	w.players = append(w.players, pl)
	w.names = append(w.names, name)
	w.ids = append(w.ids, id)
	w.index[pl.Player()] = i
	return i, pl
}

func (w *world) idx(p proxy.Player) int {
	w.mu.Lock()
	defer w.mu.Unlock()
	if i, ok := w.index[p]; ok {
		return i
	}
	return 999999
}

func joinOr(xs []string) string {
	if len(xs) == 0 {
		return "-"
	}
	return strings.Join(xs, ",")
}

// dump prints the registry and the events since the last dump.
func (w *world) dump() string {
	names, ids := proxy.C11Snapshot(w.px)
	n := w.px.PlayerCount()
	type kv struct {
		k int
		v int
	}
	var il []kv
	for k, v := range ids {
		il = append(il, kv{uidNum(k), w.idx(v)})
	}
	sort.Slice(il, func(a, b int) bool { return il[a].k < il[b].k })
	var is []string
	for _, e := range il {
		is = append(is, fmt.Sprintf("%d:%d", e.k, e.v))
	}
	var ns []string
	for k, v := range names {
		ns = append(ns, fmt.Sprintf("%s:%d", k, w.idx(v)))
	}
	sort.Strings(ns)
	w.mu.Lock()
	ev := w.events
	w.events = nil
	w.mu.Unlock()
	return fmt.Sprintf("n=%d ids=%s names=%s ev=%s", n, joinOr(is), joinOr(ns), joinOr(ev))
}

func b01(b bool) string {
	if b {
		return "1"
	}
	return "0"
}

// apply runs one op on the real code; a call (or the dump after it) that does not return is `hang`.
func (w *world) apply(op string, arg string) string {
	if w.hung {
		return "hang"
	}
	out := hx.Guard(1500*time.Millisecond, func() string {
		var r string
		switch op {
		case "canreg":
			i, _ := strconv.Atoi(arg)
			r = b01(proxy.C11CanRegister(w.px, w.players[i]))
		case "reg":
			i, _ := strconv.Atoi(arg)
			r = b01(proxy.C11Register(w.px, w.players[i]))
		case "disc":
			i, _ := strconv.Atoi(arg)
			w.players[i].Player().Disconnect(nil)
			r = "-"
		case "racekick":
			// "i j": i's connection closes while j registers. Both are started while the harness holds muP, so
			// both are parked at the lock (a check-then-act unregisterConnection is parked at its READ section
			// and j at the write lock: on release the reader runs first, j's registration is handed the lock
			// when the reader leaves, and the stale write section comes last).
			f := strings.Fields(arg)
			i, _ := strconv.Atoi(f[0])
			j, _ := strconv.Atoi(f[1])
			unlock := proxy.C11HoldWrite(w.px)
			var wg sync.WaitGroup
			var res bool
			wg.Add(2)
			go func() { defer wg.Done(); w.players[i].Player().Disconnect(nil) }()
			time.Sleep(4 * time.Millisecond)
			go func() { defer wg.Done(); res = proxy.C11Register(w.px, w.players[j]) }()
			time.Sleep(4 * time.Millisecond)
			unlock()
			wg.Wait()
			r = b01(res)
		case "byid":
			k, _ := strconv.Atoi(arg)
			r = "-"
			if p := w.px.Player(uid(k)); p != nil {
				r = strconv.Itoa(w.idx(p))
			}
		case "byname":
			r = "-"
			if p := w.px.PlayerByName(arg); p != nil {
				r = strconv.Itoa(w.idx(p))
			}
		case "count":
			r = strconv.Itoa(w.px.PlayerCount())
		case "list":
			var l []int
			for _, p := range w.px.Players() {
				l = append(l, w.idx(p))
			}
			sort.Ints(l)
			var ls []string
			for _, x := range l {
				ls = append(ls, strconv.Itoa(x))
			}
			r = joinOr(ls)
		}
		return "r=" + r + " " + w.dump()
	})
	if out == "hang" || out == "panic" {
		w.hung = true
		hangs++
		return "hang"
	}
	return out
}

// hangs counts calls that did not return; after a few of them the run stops generating further
// sequences (each costs a watchdog timeout and the violation is already on record).
var hangs int

// regWouldSpin: in kick mode registerConnection busy-loops while the entry for the UUID is a player whose
// connection is already closed (it can only get there by registering after its own close). Liveness of
// that loop is not part of C11; the harness does not drive it.
func (w *world) regWouldSpin(i int) bool {
	if !w.kickMode() {
		return false
	}
	_, ids := proxy.C11Snapshot(w.px)
	p, ok := ids[uid(w.ids[i])]
	if !ok {
		return false
	}
	j := w.idx(p)
	return j < len(w.players) && !w.players[j].Active()
}

// ---------- sequences ----------

type seqOp struct{ op, arg string }

type decl struct {
	name string
	id   int
	mode int // the connection's own OnlineMode(): 0 = the proxy's mode, 1 = forced online, 2 = forced offline
}

func (d decl) online(proxyOnline bool) bool {
	switch d.mode {
	case 1:
		return true
	case 2:
		return false
	}
	return proxyOnline
}

func runSeq(run *hx.Run, class string, online, kick bool, decls []decl, ops []seqOp) {
	w := newWorld(online, kick)
	run.Case(class+":setup", fmt.Sprintf("reset %s %s", b01(online), b01(kick)), "-")
	for _, d := range decls {
		w.addO(run, class, d.name, d.id, d.online(online))
	}
	for _, o := range ops {
		if o.op == "reg" {
			i, _ := strconv.Atoi(o.arg)
			if !w.hung && w.regWouldSpin(i) {
				continue
			}
		}
		line := o.op
		if o.arg != "" {
			line += " " + o.arg
		}
		out := w.apply(o.op, o.arg)
		run.Case(class+":"+o.op, line, out)
		if out == "hang" {
			return
		}
	}
}

var namePool = []string{"Bob", "bob", "BOB", "bOb", "alice", "Alice", "carl", "Dave_1", "dave_1", "eve"}

func randomSeq(run *hx.Run, r *hx.Rng, nOps int) {
	online, kick := r.Bool(), r.Bool()
	np := 3 + r.Intn(6)
	nNames := 1 + r.Intn(4)
	nIDs := 1 + r.Intn(4)
	base := r.Intn(len(namePool))
	var decls []decl
	for i := 0; i < np; i++ {
		decls = append(decls, decl{namePool[(base+r.Intn(nNames+2))%len(namePool)], 1 + r.Intn(nIDs), r.Intn(4) % 3})
	}
	w := newWorld(online, kick)
	class := fmt.Sprintf("rand:o%sk%s", b01(online), b01(kick))
	run.Case(class+":setup", fmt.Sprintf("reset %s %s", b01(online), b01(kick)), "-")
	for _, d := range decls {
		w.addO(run, class, d.name, d.id, d.online(online))
	}
	freshID := 0
	do := func(op, arg string) string {
		if op == "reg" {
			i, _ := strconv.Atoi(arg)
			if w.regWouldSpin(i) {
				return ""
			}
		}
		line := op
		if arg != "" {
			line += " " + arg
		}
		out := w.apply(op, arg)
		run.Case(class+":"+op, line, out)
		return out
	}
	for k := 0; k < nOps && !w.hung; k++ {
		i := strconv.Itoa(r.Intn(np))
		switch c := r.Intn(20); {
		case c < 6: // the login flow of authSessionHandler: canRegister, then register or disconnect
			out := do("canreg", i)
			if strings.HasPrefix(out, "r=1") {
				if r.Chance(1, 8) { // somebody else logs in between the check and the registration
					j := strconv.Itoa(r.Intn(np))
					if o2 := do("canreg", j); strings.HasPrefix(o2, "r=1") {
						do("reg", j)
					}
				}
				if o := do("reg", i); strings.HasPrefix(o, "r=0") {
					do("disc", i)
				}
			} else if strings.HasPrefix(out, "r=0") {
				do("disc", i)
			}
		case c < 9:
			do("reg", i)
		case c < 10:
			do("canreg", i)
		case c < 14:
			do("disc", i)
		case c < 15:
			do("byid", strconv.Itoa(1+r.Intn(nIDs+1)))
		case c < 17:
			do("byname", namePool[(base+r.Intn(nNames+3))%len(namePool)])
		case c < 18:
			do("count", "")
		default:
			do("list", "")
		}
		if w.kickMode() && !w.hung && r.Chance(1, 6) {
			// a live registered player leaves while a fresh connection (other UUID, often the same lower-case
			// name) registers
			_, ids := proxy.C11Snapshot(w.px)
			var live []int
			for _, p := range ids {
				if j := w.idx(p); j < len(w.players) && w.players[j].Active() {
					live = append(live, j)
				}
			}
			sort.Ints(live)
			if len(live) > 0 {
				i := live[r.Intn(len(live))]
				name := w.names[i]
				if r.Chance(1, 3) {
					name = namePool[(base+r.Intn(nNames+2))%len(namePool)]
				} else if r.Bool() {
					name = strings.ToUpper(name)
				}
				freshID++
				j := w.addO(run, class, name, 1000+freshID, r.Chance(1, 3) != online)
				np++
				do("racekick", fmt.Sprintf("%d %d", i, j))
			}
		}
		if k%9 == 8 && r.Bool() { // a fresh connection joins the pool
			d := decl{namePool[(base+r.Intn(nNames+2))%len(namePool)], 1 + r.Intn(nIDs), r.Intn(4) % 3}
			w.addO(run, class, d.name, d.id, d.online(online))
			np++
		}
	}
}

// ---------- concurrent stress (search aid) ----------

func stress(run *hx.Run, r *hx.Rng, online, kick bool, workers, flows int) {
	w := newWorld(online, kick)
	seeds := make([]uint64, workers)
	for i := range seeds {
		seeds[i] = r.U64()
	}
	type rec struct {
		i       int
		reg     bool
		ownDisc bool
	}
	recs := make([][]rec, workers)
	verdict := hx.Guard(20*time.Second, func() string {
		var wg sync.WaitGroup
		for g := 0; g < workers; g++ {
			wg.Add(1)
			go func(g int) {
				defer wg.Done()
				rr := hx.NewRng(seeds[g])
				for f := 0; f < flows; f++ {
					name := namePool[rr.Intn(4)] // Bob/bob/BOB/bOb: one lower-case name
					if rr.Bool() {
						name = namePool[4+rr.Intn(6)]
					}
					i, pl := w.addP(name, 1+rr.Intn(4), rr.Chance(1, 3) != w.online)
					rc := rec{i: i}
					if proxy.C11CanRegister(w.px, pl) {
						if proxy.C11Register(w.px, pl) {
							rc.reg = true
						} else {
							pl.Player().Disconnect(nil)
							rc.ownDisc = true
						}
					} else {
						pl.Player().Disconnect(nil)
						rc.ownDisc = true
					}
					if rc.reg && rr.Chance(2, 3) {
						_ = w.px.PlayerCount()
						_ = w.px.PlayerByName(name)
						pl.Player().Disconnect(nil)
						rc.ownDisc = true
					}
					recs[g] = append(recs[g], rc)
				}
			}(g)
		}
		wg.Wait()
		names, ids := proxy.C11Snapshot(w.px)
		if w.px.PlayerCount() != len(ids) {
			return "count-mismatch"
		}
		if !w.kickMode() && len(names) != len(ids) {
			return "indices-differ"
		}
		seen := map[proxy.Player]bool{}
		for _, p := range ids {
			if seen[p] {
				return "duplicate-player"
			}
			seen[p] = true
			if !w.kickMode() && names[strings.ToLower(p.Username())] != p {
				return "indices-differ"
			}
		}
		w.mu.Lock()
		defer w.mu.Unlock()
		for _, rs := range recs {
			for _, rc := range rs {
				if rc.reg && !rc.ownDisc && !w.torn[rc.i] {
					p := w.players[rc.i].Player()
					if ids[p.ID()] != p {
						return "unregister-removes-other"
					}
					if !w.kickMode() && names[strings.ToLower(p.Username())] != p {
						return "unregister-removes-other"
					}
				}
			}
		}
		return "ok"
	})
	if verdict == "hang" {
		verdict = "lock-leak"
		hangs += 4
	}
	run.Case("stress", fmt.Sprintf("stress %s %s %d %d", b01(online), b01(kick), workers, flows), verdict)
}

func main() {
	run := hx.Start()
	defer run.Finish()
	r := run.Rng

	// ---- fixed regression cases first: the witnesses of the three defects found in the unchanged tree ----
	// (1) unregisterConnection deleted by key: a rejected duplicate login's teardown removed the original
	runSeq(run, "fixed:unreg-name", false, false, []decl{{"Bob", 1, 0}, {"bob", 2, 0}, {"BOB", 3, 0}}, []seqOp{
		{"canreg", "0"}, {"reg", "0"}, {"canreg", "1"}, {"disc", "1"}, {"byname", "BOB"}, {"byid", "1"}, {"count", ""},
		{"canreg", "2"}, {"reg", "2"}, {"list", ""}, {"disc", "0"}, {"byname", "bob"}, {"list", ""}})
	runSeq(run, "fixed:unreg-id", false, false, []decl{{"Bob", 1, 0}, {"Robert", 1, 0}}, []seqOp{
		{"reg", "0"}, {"canreg", "1"}, {"disc", "1"}, {"byid", "1"}, {"byname", "bob"}, {"count", ""}, {"disc", "0"}, {"count", ""}})
	// (2) registerConnection returned false without Unlock: the next registry call never returned
	runSeq(run, "fixed:lock-leak", false, false, []decl{{"Bob", 1, 0}, {"bob", 2, 0}, {"zed", 1, 0}}, []seqOp{
		{"reg", "0"}, {"reg", "1"}, {"count", ""}, {"reg", "2"}, {"list", ""}, {"disc", "1"}, {"disc", "2"}, {"list", ""}})
	// (3) offline mode with the kick flag: canRegister said yes to both, registerConnection used the kick branch
	runSeq(run, "fixed:kick-mismatch", false, true, []decl{{"Bob", 1, 0}, {"bob", 2, 0}, {"Zed", 1, 0}}, []seqOp{
		{"canreg", "0"}, {"canreg", "1"}, {"reg", "0"}, {"reg", "1"}, {"list", ""}, {"byname", "BOB"},
		{"canreg", "2"}, {"reg", "2"}, {"list", ""}, {"disc", "0"}, {"byname", "bob"}, {"list", ""}})
	// kick mode is a property of the proxy's configuration, never of one login: on an offline proxy with the kick
	// flag a login whose online mode was forced (PreLoginEvent) is admitted by the same name+UUID rule as any other
	runSeq(run, "fixed:forced-online", false, true, []decl{{"steve", 1, 0}, {"Steve", 2, 1}, {"STEVE", 3, 1}, {"alex", 1, 1}}, []seqOp{
		{"canreg", "0"}, {"reg", "0"}, {"canreg", "1"}, {"reg", "1"}, {"list", ""}, {"byname", "steve"},
		{"disc", "1"}, {"byname", "STEVE"}, {"canreg", "3"}, {"reg", "3"}, {"byid", "1"}, {"reg", "2"}, {"list", ""},
		{"disc", "0"}, {"reg", "2"}, {"byname", "steve"}, {"list", ""}})
	runSeq(run, "fixed:forced-offline", true, true, []decl{{"steve", 1, 2}, {"Steve", 2, 2}, {"steve", 1, 0}}, []seqOp{
		{"canreg", "0"}, {"reg", "0"}, {"canreg", "1"}, {"reg", "1"}, {"list", ""}, {"canreg", "2"}, {"reg", "2"},
		{"list", ""}, {"byname", "STEVE"}})
	// kick mode proper: the older session with the same UUID is disconnected (status conflicting) first
	runSeq(run, "fixed:kick", true, true, []decl{{"Bob", 1, 0}, {"Bob", 1, 0}, {"bob", 2, 0}, {"Bob", 1, 0}}, []seqOp{
		{"canreg", "0"}, {"reg", "0"}, {"canreg", "1"}, {"reg", "1"}, {"list", ""}, {"byname", "bob"},
		{"reg", "2"}, {"byname", "BOB"}, {"disc", "2"}, {"byname", "bob"}, {"byid", "1"}, {"reg", "3"}, {"list", ""},
		{"disc", "3"}, {"disc", "3"}, {"list", ""}})
	// kick mode, same lower-case name, different UUIDs: the older connection goes away while the newer one
	// registers — whatever the interleaving, the newer player must end up findable by name
	runSeq(run, "fixed:racekick", true, true, []decl{{"bob", 1, 0}, {"Bob", 2, 0}, {"BOB", 3, 0}, {"carl", 4, 0}, {"bOb", 5, 0}}, []seqOp{
		{"reg", "0"}, {"racekick", "0 1"}, {"byname", "bob"}, {"byid", "2"}, {"list", ""},
		{"racekick", "1 2"}, {"byname", "BoB"}, {"reg", "3"}, {"racekick", "3 4"}, {"byname", "bob"}, {"byname", "carl"},
		{"disc", "4"}, {"disc", "2"}, {"list", ""}})
	// every mode: duplicate by name only, by id only, by both, case variants
	for _, m := range [][2]bool{{false, false}, {false, true}, {true, false}, {true, true}} {
		runSeq(run, "fixed:modes", m[0], m[1], []decl{{"Ann", 1, 0}, {"ann", 2, 0}, {"Ben", 1, 0}, {"ANN", 1, 0}, {"Cy", 3, 0}}, []seqOp{
			{"canreg", "0"}, {"reg", "0"}, {"canreg", "1"}, {"reg", "1"}, {"canreg", "2"}, {"reg", "2"}, {"canreg", "3"}, {"reg", "3"},
			{"list", ""}, {"disc", "1"}, {"list", ""}, {"disc", "2"}, {"list", ""}, {"disc", "3"}, {"list", ""},
			{"byname", "aNN"}, {"byid", "1"}, {"reg", "4"}, {"disc", "0"}, {"list", ""}, {"byname", "cy"}, {"disc", "4"}, {"count", ""}})
	}

	// ---- random sequences ----
	nSeq := run.Scale(250, 1800)
	for s := 0; s < nSeq && hangs < 4; s++ {
		randomSeq(run, r, 20+r.Intn(40))
	}

	// ---- concurrent stress: search aid ----
	rounds := run.Scale(2, 8)
	for k := 0; k < rounds && hangs < 4; k++ {
		for _, m := range [][2]bool{{false, false}, {false, true}, {true, true}} {
			stress(run, r, m[0], m[1], 8, run.Scale(150, 600))
		}
	}
}
