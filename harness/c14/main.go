// C14 correspondence harness: drives the real netmc.NewMinecraftConn (protocol 1.20.2, client side) over a
// capturing net.Conn and decodes what reaches the wire.
//
// Case lines (tokens separated by one space):
//
//	seq <op>…                      one goroutine, ops in order
//	par <writers> <perWriter> <flipAt>   goroutine stress: start in CONFIG, `writers` goroutines each write
//	                               `perWriter` play-only packets, one goroutine leaves CONFIG after ~flipAt
//	                               writes were done; summary only (search aid)
//
//	op := wp<tag> WritePacket(play-only packet title.Times{tag})   | wk<tag> WritePacket(KeepAlive{tag}) (valid in CONFIG and PLAY)
//	    | rp<n>:<tag> n × WritePacket(play-only, tags tag, tag+1, …)
//	    | sc / sp   SetState(Config / Play)      | oc / op  SetOutboundState(Config / Play)
//	    | wc / wy   Writer().SetState(Config / Play) (encoder only) | eq EnablePlayPacketQueue()
//
// seq output: `res=<r>,… wire=<tag>,… closed=0|1`   r := ok | closed | full | err | - ; for rp: <nOk>/<first error or ->
// par output: `lost=N dup=N order=0|1 closed=0|1`
package main

import (
	"context"
	"encoding/binary"
	"errors"
	"fmt"
	"io"
	"net"
	"runtime"
	"strconv"
	"strings"
	"sync"
	"sync/atomic"
	"time"

	"go.minekube.com/gate/pkg/edition/java/netmc"
	"go.minekube.com/gate/pkg/edition/java/proto/packet"
	"go.minekube.com/gate/pkg/edition/java/proto/packet/title"
	"go.minekube.com/gate/pkg/edition/java/proto/state"
	"go.minekube.com/gate/pkg/edition/java/proto/util/queue"
	"go.minekube.com/gate/pkg/edition/java/proto/version"
	"go.minekube.com/gate/pkg/gate/proto"

	"verifharness/hx"
)

type capConn struct {
	mu      sync.Mutex
	out     []byte
	closeCh chan struct{}
	once    sync.Once
	closed  atomic.Bool
}
type fakeAddr struct{}

func (fakeAddr) Network() string { return "fake" }
func (fakeAddr) String() string  { return "fake:0" }

func (f *capConn) Read(p []byte) (int, error) { <-f.closeCh; return 0, io.ErrClosedPipe }
func (f *capConn) Write(p []byte) (int, error) {
	if f.closed.Load() {
		return 0, io.ErrClosedPipe
	}
	f.mu.Lock()
	f.out = append(f.out, p...)
	f.mu.Unlock()
	return len(p), nil
}
func (f *capConn) Close() error {
	f.once.Do(func() { f.closed.Store(true); close(f.closeCh) })
	return nil
}
func (f *capConn) LocalAddr() net.Addr  { return fakeAddr{} }
func (f *capConn) RemoteAddr() net.Addr { return fakeAddr{} }
func (f *capConn) dl() error {
	if f.closed.Load() {
		return io.ErrClosedPipe
	}
	return nil
}
func (f *capConn) SetDeadline(time.Time) error      { return f.dl() }
func (f *capConn) SetReadDeadline(time.Time) error  { return f.dl() }
func (f *capConn) SetWriteDeadline(time.Time) error { return f.dl() }

type nopHandler struct{}

func (nopHandler) HandlePacket(*proto.PacketContext) {}
func (nopHandler) Disconnected()                     {}
func (nopHandler) Activated()                        {}
func (nopHandler) Deactivated()                      {}

type world struct {
	conn netmc.MinecraftConn
	fc   *capConn
}

func newWorld() *world {
	fc := &capConn{closeCh: make(chan struct{})}
	conn, _ := netmc.NewMinecraftConn(context.Background(), fc, proto.ServerBound, time.Hour, time.Hour, -1, nil)
	conn.SetProtocol(version.Minecraft_1_20_2.Protocol)
	conn.SetActiveSessionHandler(state.Play, nopHandler{})
	return &world{conn: conn, fc: fc}
}

func playOnly(tag int) proto.Packet { return &title.Times{FadeIn: tag, Stay: tag, FadeOut: tag} }
func both(tag int) proto.Packet     { return &packet.KeepAlive{RandomID: int64(tag)} }

func resOf(err error) string {
	switch {
	case err == nil:
		return "ok"
	case errors.Is(err, netmc.ErrClosedConn):
		return "closed"
	case errors.Is(err, queue.ErrQueueFull):
		return "full"
	}
	return "err"
}

// wire parses the captured bytes: uncompressed frames `varint len | varint id | payload`; the payload of the two
// packet types used is 12 bytes (title.Times, tag = first int32) or 8 bytes (KeepAlive, tag = int64).
func (w *world) wire() []int {
	w.fc.mu.Lock()
	b := append([]byte(nil), w.fc.out...)
	w.fc.mu.Unlock()
	var tags []int
	for len(b) > 0 {
		n, k := binary.Uvarint(b)
		if k <= 0 || int(n) > len(b)-k {
			tags = append(tags, -1)
			break
		}
		frame := b[k : k+int(n)]
		b = b[k+int(n):]
		_, ik := binary.Uvarint(frame)
		payload := frame[ik:]
		switch len(payload) {
		case 12:
			tags = append(tags, int(int32(binary.BigEndian.Uint32(payload[:4]))))
		case 8:
			tags = append(tags, int(int64(binary.BigEndian.Uint64(payload))))
		default:
			tags = append(tags, -2)
		}
	}
	return tags
}

func regOf(s string) *state.Registry {
	if s == "c" {
		return state.Config
	}
	return state.Play
}

func (w *world) op(o string) string {
	switch {
	case strings.HasPrefix(o, "wp"):
		t, _ := strconv.Atoi(o[2:])
		return resOf(w.conn.WritePacket(playOnly(t)))
	case strings.HasPrefix(o, "wk"):
		t, _ := strconv.Atoi(o[2:])
		return resOf(w.conn.WritePacket(both(t)))
	case strings.HasPrefix(o, "rp"):
		parts := strings.Split(o[2:], ":")
		n, _ := strconv.Atoi(parts[0])
		t, _ := strconv.Atoi(parts[1])
		okN := 0
		for i := 0; i < n; i++ {
			if r := resOf(w.conn.WritePacket(playOnly(t + i))); r != "ok" {
				return fmt.Sprintf("%d/%s", okN, r)
			}
			okN++
		}
		return fmt.Sprintf("%d/-", okN)
	case o == "sc" || o == "sp":
		w.conn.SetState(regOf(o[1:]))
		return "-"
	case o == "oc" || o == "op":
		w.conn.SetOutboundState(regOf(o[1:]))
		return "-"
	case o == "wc":
		w.conn.Writer().SetState(state.Config)
		return "-"
	case o == "wy":
		w.conn.Writer().SetState(state.Play)
		return "-"
	case o == "eq":
		w.conn.EnablePlayPacketQueue()
		return "-"
	}
	panic("bad op " + o)
}

func itoas(xs []int) string {
	if len(xs) == 0 {
		return "-"
	}
	ss := make([]string, len(xs))
	for i, x := range xs {
		ss[i] = strconv.Itoa(x)
	}
	return strings.Join(ss, ",")
}

func b2i(b bool) int {
	if b {
		return 1
	}
	return 0
}

func runSeq(ops []string) string {
	return hx.Guard(10*time.Second, func() string {
		w := newWorld()
		var res []string
		for _, o := range ops {
			res = append(res, w.op(o))
		}
		_ = w.conn.Flush()
		return fmt.Sprintf("res=%s wire=%s closed=%d", strings.Join(res, ","), itoas(w.wire()), b2i(netmc.Closed(w.conn)))
	})
}

var hangs int

func runPar(writers, per, flipAt int, yield bool) string {
	out := runPar0(writers, per, flipAt, yield)
	if out == "hang" {
		hangs++
	}
	return out
}

func runPar0(writers, per, flipAt int, yield bool) string {
	return hx.Guard(3*time.Second, func() string {
		w := newWorld()
		w.conn.SetState(state.Config)
		var done atomic.Int64
		var panicked atomic.Bool
		contain := func() {
			if r := recover(); r != nil {
				panicked.Store(true)
			}
		}
		accepted := make([][]bool, writers)
		start := make(chan struct{})
		var wg sync.WaitGroup
		for i := 0; i < writers; i++ {
			accepted[i] = make([]bool, per)
			wg.Add(1)
			go func(i int) {
				defer wg.Done()
				defer contain()
				<-start
				for j := 0; j < per; j++ {
					if yield {
						runtime.Gosched()
					}
					if err := w.conn.BufferPacket(playOnly((i+1)*100000 + j)); err == nil {
						accepted[i][j] = true
					}
					done.Add(1)
				}
			}(i)
			_ = i
		}
		wg.Add(1)
		go func() {
			defer wg.Done()
			defer contain()
			<-start
			for done.Load() < int64(flipAt) {
				runtime.Gosched()
			}
			w.conn.SetState(state.Play)
		}()
		close(start)
		wg.Wait()
		if panicked.Load() {
			return "panic"
		}
		w.conn.SetState(state.Play)
		_ = w.conn.Flush()
		seen := map[int]int{}
		last := map[int]int{}
		order := 1
		for _, t := range w.wire() {
			seen[t]++
			wi := t / 100000
			if prev, ok := last[wi]; ok && prev >= t {
				order = 0
			}
			last[wi] = t
		}
		lost, dup := 0, 0
		for i := 0; i < writers; i++ {
			for j := 0; j < per; j++ {
				n := seen[(i+1)*100000+j]
				if accepted[i][j] && n == 0 {
					lost++
				}
				if n > 1 {
					dup++
				}
			}
		}
		return fmt.Sprintf("lost=%d dup=%d order=%d closed=%d", lost, dup, order, b2i(netmc.Closed(w.conn)))
	})
}

func main() {
	run := hx.Start()
	r := run.Rng

	// ---- fixed cases first ----
	fixed := []string{
		"wp1 wk2 sc wp3 wk4 wp5 wk6 sp wp7 wk8",
		"sc wp1 wp2 wp3 op wp4 sc wp5 oc wp6 sp",
		"wc eq wp1 wk2 wp3 op wp4",
		"wc wp1 wk2",                    // encoder in CONFIG, queue not yet enabled: play-only packet cannot be encoded
		"sc rp1024:1 wk7 wp5000 wk8 sp", // overflow: the 1025th held packet closes the connection
		"sc rp1023:1 wp9000 sp wp9001",
		"sc wp1 sc wp2 sp sp wp3",
		"eq wp1 wp2 sp wp3",
	}
	for _, c := range fixed {
		run.Case("seq-fixed", "seq "+c, runSeq(strings.Fields(c)))
	}
	// the lookup/enqueue window: many short stress runs with the flip in the middle of the writes
	for i := 0; i < run.Scale(400, 4000) && hangs < 5; i++ {
		wr, per := 2+r.Intn(6), 5+r.Intn(40)
		flip := r.Intn(wr*per + 1)
		run.Case("par", fmt.Sprintf("par %d %d %d", wr, per, flip), runPar(wr, per, flip, r.Bool()))
	}
	// ---- generated sequential programs ----
	tag := 0
	for i, n := 0, run.Scale(3000, 30000); i < n; i++ {
		var ops []string
		for j, m := 0, 1+r.Intn(14); j < m; j++ {
			tag++
			switch k := r.Intn(20); {
			case k < 7:
				ops = append(ops, "wp"+strconv.Itoa(tag%90000+1))
			case k < 11:
				ops = append(ops, "wk"+strconv.Itoa(tag%90000+1))
			case k < 13:
				ops = append(ops, "sc")
			case k < 15:
				ops = append(ops, "sp")
			case k == 15:
				ops = append(ops, "oc")
			case k == 16:
				ops = append(ops, "op")
			case k == 17:
				ops = append(ops, hx.Pick(r, []string{"wc", "wy"}))
			case k == 18:
				ops = append(ops, "eq")
			default:
				n := hx.Pick(r, []int{2, 3, 5})
				ops = append(ops, fmt.Sprintf("rp%d:%d", n, tag%90000+1))
				tag += n
			}
		}
		run.Case("seq", "seq "+strings.Join(ops, " "), runSeq(ops))
	}
	run.Finish()
}
