// C07 correspondence harness: builds the packets the proxy constructs itself with generated field
// values, runs the REAL Encode of every packet for the protocol versions in which it exists and
// writes `<op> <args…>\t ok <hex>|err|panic`.  The Lean driver re-encodes with the model and decodes
// the implementation's bytes with the vanilla reference decoder.
package main

import (
	"bytes"
	"crypto/rsa"
	"encoding/json"
	"fmt"
	"strconv"
	"strings"
	"time"

	"github.com/Tnze/go-mc/nbt"
	"go.minekube.com/common/minecraft/component"

	"go.minekube.com/gate/pkg/edition/java/profile"
	"go.minekube.com/gate/pkg/edition/java/proto/packet"
	"go.minekube.com/gate/pkg/edition/java/proto/packet/chat"
	"go.minekube.com/gate/pkg/edition/java/proto/packet/plugin"
	"go.minekube.com/gate/pkg/edition/java/proto/packet/tablist/playerinfo"
	"go.minekube.com/gate/pkg/edition/java/proto/state/states"
	"go.minekube.com/gate/pkg/edition/java/proto/version"
	"go.minekube.com/gate/pkg/edition/java/proxy/crypto"
	"go.minekube.com/gate/pkg/edition/java/proxy/crypto/keyrevision"
	"go.minekube.com/gate/pkg/gate/proto"
	"go.minekube.com/gate/pkg/util/uuid"

	"verifharness/hx"
)

// ---------- a crypto.IdentifiedKey with arbitrary content ----------

type fakeKey struct {
	expiry int64
	pub    []byte
	sig    []byte
	holder uuid.UUID
}

func (k *fakeKey) Signer() *rsa.PublicKey                   { return nil }
func (k *fakeKey) ExpiryTemporal() time.Time                { return time.UnixMilli(k.expiry).UTC() }
func (k *fakeKey) Expired() bool                            { return false }
func (k *fakeKey) Signature() []byte                        { return k.sig }
func (k *fakeKey) SignatureValid() bool                     { return true }
func (k *fakeKey) Salt() []byte                             { return nil }
func (k *fakeKey) SignedPublicKey() *rsa.PublicKey          { return nil }
func (k *fakeKey) SignedPublicKeyBytes() []byte             { return k.pub }
func (k *fakeKey) VerifyDataSignature([]byte, ...[]byte) bool { return true }
func (k *fakeKey) SignatureHolder() uuid.UUID               { return k.holder }
func (k *fakeKey) KeyRevision() keyrevision.Revision        { return keyrevision.GenericV1 }

var _ crypto.IdentifiedKey = (*fakeKey)(nil)

// ---------- helpers ----------

var run *hx.Run
var rng *hx.Rng

func itoa(i int64) string { return strconv.FormatInt(i, 10) }
func b01(b bool) string {
	if b {
		return "1"
	}
	return "0"
}

func encode(p proto.Packet, protocol int, dir proto.Direction, id int) string {
	return hx.Guard(10*time.Second, func() string {
		var b bytes.Buffer
		err := p.Encode(&proto.PacketContext{Protocol: proto.Protocol(protocol), Direction: dir, PacketID: proto.PacketID(id)}, &b)
		if err != nil {
			return "err"
		}
		return "ok " + hx.Hex(b.Bytes())
	})
}

// all protocol numbers of version.Versions (without Unknown/Legacy) + a few numbers between/after them
func protocols() []int {
	var ps []int
	for _, v := range version.Versions {
		if int(v.Protocol) > 0 {
			ps = append(ps, int(v.Protocol))
		}
	}
	return ps
}

var allProtos []int
var oddProtos = []int{1, 3, 6, 46, 48, 339, 341, 392, 394, 734, 758, 777, 900}

func protosFrom(min int) []int {
	var ps []int
	for _, p := range allProtos {
		if p >= min {
			ps = append(ps, p)
		}
	}
	return ps
}

// a sample of protocols: every era boundary always, the rest sampled in the quick tier
func sampleProtos(min int, always []int) []int {
	in := map[int]bool{}
	for _, a := range always {
		in[a] = true
	}
	var ps []int
	for _, p := range protosFrom(min) {
		if in[p] || run.Thorough() || rng.Chance(1, 4) {
			ps = append(ps, p)
		}
	}
	if rng.Chance(1, 3) {
		o := hx.Pick(rng, oddProtos)
		if o >= min {
			ps = append(ps, o)
		}
	}
	return ps
}

var intBoundaries = []int64{0, 1, -1, 2, 127, 128, 255, 256, 16383, 16384, 32767, 32768, 65535, 65536, 2097151, 2097152,
	268435455, 268435456, 2147483647, -2147483648, 2147483646, -2147483647, 2147483648, -2147483649, 4294967295, 4294967296,
	1 << 40, -(1 << 40), 9223372036854775807, -9223372036854775808}

func genInt32ish() int64 {
	switch rng.Intn(4) {
	case 0:
		return hx.Pick(rng, intBoundaries)
	case 1:
		return int64(rng.Intn(300)) - 20
	default:
		return int64(int32(rng.U64()))
	}
}
func genInt64() int64 {
	switch rng.Intn(3) {
	case 0:
		return hx.Pick(rng, intBoundaries)
	case 1:
		return int64(rng.U64())
	default:
		return int64(rng.U64() >> uint(rng.Intn(64)))
	}
}

const asciiName = "abcdefghijklmnopqrstuvwxyzABCDEFGHIJKLMNOPQRSTUVWXYZ0123456789_"

func genASCII(n int, alphabet string) string {
	b := make([]byte, n)
	for i := range b {
		b[i] = alphabet[rng.Intn(len(alphabet))]
	}
	return string(b)
}

// strings around a character limit `max`: mostly valid, sometimes too long, sometimes multi-byte
func genString(max int) string {
	switch rng.Intn(10) {
	case 0:
		return ""
	case 1:
		return genASCII(max, asciiName)
	case 2:
		return genASCII(max+1, asciiName)
	case 3: // multi-byte: é (2 bytes, 1 unit), € (3 bytes, 1 unit), 𝄞 (4 bytes, 2 units)
		parts := []string{"é", "€", "𝄞", "a"}
		var sb strings.Builder
		n := rng.Intn(max + 2)
		for i := 0; i < n; i++ {
			sb.WriteString(hx.Pick(rng, parts))
		}
		return sb.String()
	case 4:
		if max > 64 {
			return genASCII(rng.Intn(400), asciiName)
		}
		return genASCII(rng.Intn(max+1), asciiName)
	default:
		n := max
		if n > 24 {
			n = 24
		}
		return genASCII(1+rng.Intn(n), asciiName)
	}
}

func genBytes(limit int) []byte {
	var n int
	switch rng.Intn(8) {
	case 0:
		n = 0
	case 1:
		n = hx.Pick(rng, []int{1, 127, 128, 129, 255, 256, 257})
	case 2:
		n = limit
	case 3:
		n = limit + 1
	default:
		n = rng.Intn(40)
	}
	if n > limit+1 {
		n = limit + 1
	}
	if n < 0 {
		n = 0
	}
	return rng.Bytes(n)
}

func genUUID() uuid.UUID {
	var u uuid.UUID
	switch rng.Intn(6) {
	case 0: // Nil
	case 1:
		for i := range u {
			u[i] = 0xff
		}
	default:
		copy(u[:], rng.Bytes(16))
	}
	return u
}

func genProps() []profile.Property {
	var n int
	switch rng.Intn(8) {
	case 0, 1, 2:
		n = 0
	case 3:
		n = 16
	case 4:
		n = 17
	default:
		n = 1 + rng.Intn(3)
	}
	ps := make([]profile.Property, 0, n)
	for i := 0; i < n; i++ {
		p := profile.Property{Name: genString(64), Value: genASCII(rng.Intn(60), asciiName+"+/=")}
		if rng.Bool() {
			p.Signature = genASCII(1+rng.Intn(50), asciiName+"+/=")
		}
		if rng.Chance(1, 40) {
			p.Signature = genASCII(1025, asciiName)
		}
		ps = append(ps, p)
	}
	return ps
}
func showProps(ps []profile.Property) string {
	if len(ps) == 0 {
		return "_"
	}
	var sb []string
	for _, p := range ps {
		sb = append(sb, hx.HexS(p.Name)+","+hx.HexS(p.Value)+","+hx.HexS(p.Signature))
	}
	return strings.Join(sb, ";")
}

func genKey() *fakeKey {
	k := &fakeKey{pub: genBytes(512), sig: genBytes(600)}
	switch rng.Intn(4) {
	case 0:
		k.expiry = hx.Pick(rng, []int64{0, 1, -1, 1700000000000, 2147483647, 1 << 40, -(1 << 40)})
	default:
		k.expiry = int64(rng.U64() >> 14) // below 2^50 ms
		if rng.Chance(1, 5) {
			k.expiry = -k.expiry
		}
	}
	if rng.Bool() {
		k.holder = genUUID()
	}
	return k
}
func showKey(k *fakeKey) string {
	return itoa(k.ExpiryTemporal().UnixMilli()) + "," + hx.Hex(k.pub) + "," + hx.Hex(k.sig) + "," + hx.Hex(k.holder[:])
}

// ---------- components ----------

// nbt generator: a well-formed nameless tag
func genNbtPayload(t byte, depth int) []byte {
	var b bytes.Buffer
	be := func(n int, v uint64) {
		for i := n - 1; i >= 0; i-- {
			b.WriteByte(byte(v >> (8 * uint(i))))
		}
	}
	str := func() {
		s := genASCII(rng.Intn(12), asciiName+" ")
		be(2, uint64(len(s)))
		b.WriteString(s)
	}
	switch t {
	case 1:
		be(1, rng.U64())
	case 2:
		be(2, rng.U64())
	case 3, 5:
		be(4, rng.U64())
	case 4, 6:
		be(8, rng.U64())
	case 7:
		n := rng.Intn(5)
		be(4, uint64(n))
		b.Write(rng.Bytes(n))
	case 8:
		str()
	case 9:
		et := byte(1 + rng.Intn(12))
		n := rng.Intn(3)
		if depth <= 0 && (et == 9 || et == 10) {
			et = 8
		}
		if n == 0 && rng.Bool() {
			et = 0
		}
		b.WriteByte(et)
		be(4, uint64(n))
		for i := 0; i < n; i++ {
			b.Write(genNbtPayload(et, depth-1))
		}
	case 10:
		n := rng.Intn(4)
		for i := 0; i < n; i++ {
			et := byte(1 + rng.Intn(12))
			if depth <= 0 && (et == 9 || et == 10) {
				et = 3
			}
			b.WriteByte(et)
			str()
			b.Write(genNbtPayload(et, depth-1))
		}
		b.WriteByte(0)
	case 11:
		n := rng.Intn(4)
		be(4, uint64(n))
		b.Write(rng.Bytes(4 * n))
	case 12:
		n := rng.Intn(3)
		be(4, uint64(n))
		b.Write(rng.Bytes(8 * n))
	}
	return b.Bytes()
}

type compSpec struct {
	kind string // "json", "nbt", "text"
	json string
	typ  byte
	data []byte
	text string
}

func (c *compSpec) holder(protocol int) *chat.ComponentHolder {
	switch c.kind {
	case "json":
		return &chat.ComponentHolder{Protocol: proto.Protocol(protocol), JSON: json.RawMessage(c.json)}
	case "nbt":
		return &chat.ComponentHolder{Protocol: proto.Protocol(protocol), BinaryTag: nbt.RawMessage{Type: c.typ, Data: append([]byte(nil), c.data...)}}
	default:
		return chat.FromComponentProtocol(&component.Text{Content: c.text}, proto.Protocol(protocol))
	}
}

var jsonComps = []string{`{"text":"bye"}`, `{"text":""}`, `"plain"`, `{"color":"red","text":"Kicked"}`,
	`{"extra":[{"text":"b"},"c"],"text":"a"}`, `{"translate":"multiplayer.disconnect.kicked"}`,
	`{"bold":true,"text":"x","extra":[{"italic":false,"text":"y"}]}`}

func genComp() *compSpec {
	switch rng.Intn(5) {
	case 0:
		return &compSpec{kind: "json", json: hx.Pick(rng, jsonComps)}
	case 1:
		q, _ := json.Marshal(map[string]any{"text": genASCII(rng.Intn(40), asciiName+" <>&é")})
		return &compSpec{kind: "json", json: string(q)}
	case 2:
		t := hx.Pick(rng, []byte{8, 10, 10, 9})
		return &compSpec{kind: "nbt", typ: t, data: genNbtPayload(t, 2)}
	case 3: // {text:"…"} compound
		s := genASCII(rng.Intn(20), asciiName+" ")
		d := append([]byte{8, 0, 4, 't', 'e', 'x', 't', byte(len(s) >> 8), byte(len(s))}, s...)
		return &compSpec{kind: "nbt", typ: 10, data: append(d, 0)}
	default:
		return &compSpec{kind: "text", text: genASCII(rng.Intn(30), asciiName+" !?")}
	}
}

// prepare returns the serialisations the external converters (encoding/json, nbtconv) produce for
// the component — the oracle handed to the model — and the holder to encode.  nbtconv builds
// compounds from Go maps, so converting twice may order the fields differently; therefore in the NBT
// era the holder that is encoded carries the already converted tag, unless the component has a
// single field (kind "text"), where the proxy's own path (component → JSON → NBT inside Encode) is
// deterministic and is the one exercised.
func (c *compSpec) prepare(protocol int, login bool) (tok string, h *chat.ComponentHolder, ok bool) {
	eff := protocol
	if login {
		eff = int(version.Minecraft_1_20_2.Protocol)
	}
	useNbt := eff >= int(version.Minecraft_1_20_3.Protocol)
	jtok, ttok, dtok := "-", "0", "-"
	h = c.holder(protocol)
	res := hx.Guard(10*time.Second, func() string {
		o := c.holder(protocol)
		if useNbt {
			bt, err := o.AsBinaryTag()
			if err != nil {
				return "err"
			}
			ttok, dtok = strconv.Itoa(int(bt.Type)), hx.Hex(bt.Data)
			if c.kind != "text" {
				h = &chat.ComponentHolder{Protocol: proto.Protocol(protocol), BinaryTag: nbt.RawMessage{Type: bt.Type, Data: append([]byte(nil), bt.Data...)}}
			}
		} else {
			j, err := o.AsJson()
			if err != nil {
				return "err"
			}
			jtok = hx.Hex(j)
		}
		return "ok"
	})
	if res != "ok" {
		return "", nil, false
	}
	return jtok + "," + ttok + "," + dtok, h, true
}

// ---------- packets ----------

func doHandshake() {
	n := run.Scale(60, 600)
	for i := 0; i < n; i++ {
		h := &packet.Handshake{ProtocolVersion: int(genInt32ish()), ServerAddress: genString(255), NextStatus: 1 + rng.Intn(3)}
		switch rng.Intn(6) {
		case 0:
			h.Port = int(hx.Pick(rng, []int64{0, 1, 25565, 32767, 32768, 65535}))
		case 1:
			h.Port = int(hx.Pick(rng, []int64{-1, 65536, 70000, -32768}))
		default:
			h.Port = rng.Intn(65536)
		}
		if rng.Chance(1, 10) {
			h.NextStatus = int(hx.Pick(rng, []int64{0, 4, -1, 255}))
		}
		if rng.Chance(1, 4) {
			h.ProtocolVersion = hx.Pick(rng, allProtos)
		}
		p := hx.Pick(rng, allProtos)
		run.Case("handshake", fmt.Sprintf("hs %d %d %s %d %d", p, h.ProtocolVersion, hx.HexS(h.ServerAddress), h.Port, h.NextStatus),
			encode(h, p, proto.ServerBound, 0))
	}
}

func doStatus() {
	run.Case("status", "sreq", encode(&packet.StatusRequest{}, 767, proto.ServerBound, 0))
	n := run.Scale(40, 400)
	for i := 0; i < n; i++ {
		var s string
		switch rng.Intn(4) {
		case 0:
			s = `{"version":{"name":"1.21","protocol":767},"players":{"max":20,"online":0},"description":{"text":"` + genASCII(rng.Intn(50), asciiName+" ") + `"}}`
		case 1:
			s = genASCII(32767+rng.Intn(3)-1, "x")
		default:
			s = genString(300)
		}
		run.Case("status", "sresp "+hx.HexS(s), encode(&packet.StatusResponse{Status: s}, hx.Pick(rng, allProtos), proto.ClientBound, 0))
		id := genInt64()
		run.Case("status", "sping "+itoa(id), encode(&packet.StatusPing{RandomID: id}, hx.Pick(rng, allProtos), proto.ClientBound, 1))
	}
}

func doLoginStart() {
	n := run.Scale(60, 250)
	for i := 0; i < n; i++ {
		name := genString(16)
		var key *fakeKey
		if rng.Bool() {
			key = genKey()
		}
		holder := genUUID()
		for _, p := range sampleProtos(4, []int{4, 47, 758, 759, 760, 761, 763, 764, 767}) {
			s := &packet.ServerLogin{Username: name, HolderID: holder}
			ktok := "_"
			if key != nil {
				s.PlayerKey = key
				ktok = showKey(key)
			}
			run.Case("login-start", fmt.Sprintf("lstart %d %s %s %s", p, hx.HexS(name), ktok, hx.Hex(holder[:])),
				encode(s, p, proto.ServerBound, 0))
		}
	}
}

func doEncryption() {
	n := run.Scale(50, 200)
	for i := 0; i < n; i++ {
		sid := genString(20)
		if rng.Chance(1, 2) {
			sid = ""
		}
		pub, tok := genBytes(300), genBytes(20)
		if rng.Chance(1, 25) {
			pub = rng.Bytes(hx.Pick(rng, []int{32767, 32768, 40000}))
		}
		dis := rng.Bool()
		for _, p := range sampleProtos(4, []int{4, 5, 47, 765, 766, 767}) {
			e := &packet.EncryptionRequest{ServerID: sid, PublicKey: pub, VerifyToken: tok, DisableAuthenticate: dis}
			run.Case("encryption-request", fmt.Sprintf("ereq %d %s %s %s %s", p, hx.HexS(sid), hx.Hex(pub), hx.Hex(tok), b01(dis)),
				encode(e, p, proto.ClientBound, 1))
		}
		sec, vt := genBytes(128), genBytes(256)
		if rng.Chance(1, 25) {
			vt = rng.Bytes(hx.Pick(rng, []int{32767, 32768}))
		}
		var salt *int64
		stok := "_"
		if rng.Bool() {
			v := genInt64()
			salt = &v
			stok = itoa(v)
		}
		for _, p := range sampleProtos(4, []int{4, 5, 47, 758, 759, 760, 761, 767}) {
			e := &packet.EncryptionResponse{SharedSecret: sec, VerifyToken: vt, Salt: salt}
			run.Case("encryption-response", fmt.Sprintf("eresp %d %s %s %s", p, hx.Hex(sec), hx.Hex(vt), stok),
				encode(e, p, proto.ServerBound, 1))
		}
	}
}

func doLoginSuccess() {
	n := run.Scale(60, 250)
	for i := 0; i < n; i++ {
		id, sess := genUUID(), genUUID()
		name := genString(16)
		props := genProps()
		for _, p := range sampleProtos(4, []int{4, 5, 47, 734, 735, 758, 759, 765, 766, 767, 768, 775, 776}) {
			s := &packet.ServerLoginSuccess{UUID: id, Username: name, Properties: props, SessionID: sess}
			run.Case("login-success", fmt.Sprintf("lsucc %d %s %s %s %s", p, hx.Hex(id[:]), hx.HexS(name), showProps(props), hx.Hex(sess[:])),
				encode(s, p, proto.ClientBound, 2))
		}
	}
}

var channels = []string{"MC|Brand", "REGISTER", "UNREGISTER", "BungeeCord", "bungeecord:main", "minecraft:brand", "FML|HS", "FML",
	"velocity:player_info", "my-chan", "a]", "A\\b^c_d-e", "Foo:Bar", "WECUI", "x:y:z", ":", "legacy", "", "wdl|init", "a.b/c", "ns:pa th", "ü:x"}

func genChannel() string {
	switch rng.Intn(4) {
	case 0:
		return genASCII(1+rng.Intn(20), asciiName+"-|]^\\./ ")
	case 1:
		return genASCII(1+rng.Intn(8), "abcdefghij_-") + ":" + genASCII(1+rng.Intn(10), "abcdefghij_-/.")
	default:
		return hx.Pick(rng, channels)
	}
}

func doLoginPlugin() {
	n := run.Scale(80, 600)
	for i := 0; i < n; i++ {
		id := int(genInt32ish())
		ch := genChannel()
		data := genBytes(200)
		if rng.Chance(1, 40) {
			data = rng.Bytes(1048576 + rng.Intn(2))
		}
		p := hx.Pick(rng, protosFrom(393))
		m := &packet.LoginPluginMessage{ID: id, Channel: ch, Data: data}
		run.Case("login-plugin", fmt.Sprintf("lpm %d %s %s", id, hx.HexS(ch), hx.Hex(data)), encode(m, p, proto.ClientBound, 4))
		succ := rng.Bool()
		d2 := genBytes(100)
		if !succ && rng.Chance(3, 4) {
			d2 = nil
		}
		r := &packet.LoginPluginResponse{ID: id, Success: succ, Data: d2}
		run.Case("login-plugin", fmt.Sprintf("lpr %d %s %s", id, b01(succ), hx.Hex(d2)), encode(r, p, proto.ServerBound, 2))
		t := int(genInt32ish())
		run.Case("set-compression", fmt.Sprintf("setc %d", t), encode(&packet.SetCompression{Threshold: t}, hx.Pick(rng, protosFrom(47)), proto.ClientBound, 3))
	}
}

func doDisconnect() {
	run.Case("disconnect", "disc 767 0 _", encode(&packet.Disconnect{}, 767, proto.ClientBound, 0x1d))
	run.Case("disconnect", "disc 767 1 _", encode(&packet.Disconnect{}, 767, proto.ClientBound, 0))
	n := run.Scale(60, 200)
	for i := 0; i < n; i++ {
		c := genComp()
		for _, p := range sampleProtos(4, []int{4, 47, 763, 764, 765, 766, 776}) {
			for _, login := range []bool{false, true} {
				tok, h, ok := c.prepare(p, login)
				if !ok {
					continue
				}
				id := 0x1d
				if login {
					id = 0
				}
				d := &packet.Disconnect{Reason: h}
				run.Case("disconnect-"+c.kind, fmt.Sprintf("disc %d %s %s", p, b01(login), tok), encode(d, p, proto.ClientBound, id))
			}
		}
	}
	// through the constructor the proxy uses
	for _, p := range allProtos {
		for _, login := range []bool{false, true} {
			c := &compSpec{kind: "text", text: "You were kicked"}
			tok, _, ok := c.prepare(p, login)
			if !ok {
				continue
			}
			id := 0x1d
			if login {
				id = 0
			}
			var d *packet.Disconnect
			if login {
				d = packet.NewDisconnect(&component.Text{Content: "You were kicked"}, proto.Protocol(p), states.LoginState)
			} else {
				d = packet.NewDisconnect(&component.Text{Content: "You were kicked"}, proto.Protocol(p), states.PlayState)
			}
			run.Case("disconnect-ctor", fmt.Sprintf("disc %d %s %s", p, b01(login), tok), encode(d, p, proto.ClientBound, id))
		}
	}
}

func doKeepAliveTransfer() {
	n := run.Scale(50, 200)
	for i := 0; i < n; i++ {
		id := genInt64()
		if rng.Bool() {
			id = genInt32ish()
		}
		for _, p := range sampleProtos(4, []int{4, 5, 47, 338, 340, 393, 767}) {
			run.Case("keep-alive", fmt.Sprintf("ka %d %d", p, id), encode(&packet.KeepAlive{RandomID: id}, p, proto.ClientBound, 0x1f))
		}
		host := genString(255)
		if rng.Bool() {
			host = hx.Pick(rng, []string{"localhost", "play.example.org", "127.0.0.1", "::1", ""})
		}
		port := int(genInt32ish())
		if rng.Bool() {
			port = rng.Intn(65536)
		}
		run.Case("transfer", fmt.Sprintf("xfer %s %d", hx.HexS(host), port),
			encode(&packet.Transfer{Host: host, Port: port}, hx.Pick(rng, protosFrom(766)), proto.ClientBound, 0x0b))
	}
}

func pmCase(p int, sb bool, ch string, data []byte) {
	dir := proto.ClientBound
	if sb {
		dir = proto.ServerBound
	}
	m := &plugin.Message{Channel: ch, Data: data}
	run.Case("plugin-message", fmt.Sprintf("pm %d %s %s %s", p, b01(sb), hx.HexS(ch), hx.Hex(data)), encode(m, p, dir, 0x17))
}

// pmSeq encodes ONE *plugin.Message object for every step in turn (a packet broadcast to
// connections of different versions): each encoding must be what a fresh packet would give.
func pmSeq(ch string, data []byte, steps [][2]int) {
	m := &plugin.Message{Channel: ch, Data: data}
	var toks, outs []string
	for _, st := range steps {
		dir := proto.ClientBound
		if st[1] == 1 {
			dir = proto.ServerBound
		}
		toks = append(toks, fmt.Sprintf("%d:%d", st[0], st[1]))
		outs = append(outs, encode(m, st[0], dir, 0x17))
	}
	run.Case("plugin-message-history", fmt.Sprintf("pmseq %s %s %s", hx.HexS(ch), hx.Hex(data), strings.Join(toks, ",")),
		strings.Join(outs, ";"))
}

func doPluginHistory() {
	legacy := []string{"FML|HS", "BungeeCord", "MC|Brand", "REGISTER", "UNREGISTER", "WECUI", "my-chan", "FML", "wdl|init", "legacy"}
	// regression: modern first, then older connections (and back)
	for _, ch := range legacy {
		pmSeq(ch, []byte{1, 2}, [][2]int{{767, 0}, {340, 0}, {4, 0}})
		pmSeq(ch, nil, [][2]int{{4, 1}, {340, 1}, {393, 1}, {47, 1}, {776, 1}, {5, 1}})
	}
	old := []int{4, 5, 47, 107, 210, 335, 340}
	n := run.Scale(120, 1200)
	for i := 0; i < n; i++ {
		ch := hx.Pick(rng, legacy)
		if rng.Chance(1, 3) {
			ch = genChannel()
		}
		k := 2 + rng.Intn(4)
		var steps [][2]int
		sb := rng.Intn(2)
		for j := 0; j < k; j++ {
			p := hx.Pick(rng, allProtos)
			switch rng.Intn(3) {
			case 0:
				p = hx.Pick(rng, old)
			case 1:
				p = hx.Pick(rng, protosFrom(393))
			}
			steps = append(steps, [2]int{p, sb})
		}
		pmSeq(ch, genBytes(40), steps)
	}
}

func doPluginMessage() {
	// regression: the pre-fix identifier expression kept `]` and dropped `-`
	pmCase(767, false, "a]", nil)
	pmCase(767, true, "my-chan", []byte{1, 2, 3})
	pmCase(393, false, "A\\b^c_d-e", []byte{9})
	for _, ch := range channels {
		for _, p := range []int{4, 5, 47, 340, 393, 404, 767, 776} {
			pmCase(p, rng.Bool(), ch, genBytes(64))
		}
	}
	n := run.Scale(150, 600)
	for i := 0; i < n; i++ {
		ch := genChannel()
		var data []byte
		switch rng.Intn(12) {
		case 0:
			data = rng.Bytes(hx.Pick(rng, []int{32766, 32767, 32768, 32769, 65535, 65536, 70000}))
		case 1:
			data = rng.Bytes(hx.Pick(rng, []int{255, 256, 257, 300}))
		default:
			data = genBytes(100)
		}
		for _, p := range sampleProtos(4, []int{4, 5, 47, 392, 393}) {
			pmCase(p, rng.Bool(), ch, data)
		}
	}
	if run.Thorough() {
		for _, n := range []int{2097050, 2097051, 1048576, 1048577} {
			pmCase(4, false, "FML|MP", make([]byte, n))
			pmCase(767, false, "fml:mp", make([]byte, n))
		}
	}
}

// ---------- player info ----------

type entrySpec struct {
	e    *playerinfo.Entry
	disp *compSpec
	key  *fakeKey
}

func genEntry() *entrySpec {
	es := &entrySpec{e: &playerinfo.Entry{ProfileID: genUUID()}}
	e := es.e
	e.Profile = profile.GameProfile{ID: e.ProfileID, Name: genString(16), Properties: genProps()}
	e.Listed = rng.Bool()
	e.ShowHat = rng.Bool()
	switch rng.Intn(3) {
	case 0:
		e.Latency, e.GameMode, e.ListOrder = int(genInt32ish()), int(genInt32ish()), int(genInt32ish())
	default:
		e.Latency, e.GameMode, e.ListOrder = rng.Intn(500), rng.Intn(4), rng.Intn(100)-50
	}
	if rng.Bool() {
		es.disp = genComp()
	}
	if rng.Bool() {
		es.key = genKey()
		es.key.sig = genBytes(300)
		e.RemoteChatSession = &chat.RemoteChatSession{ID: genUUID(), Key: es.key}
	}
	return es
}

// returns false if the display name cannot be serialised for this protocol (case skipped)
func (es *entrySpec) show(p int) (string, bool) {
	e := es.e
	disp := "_"
	if es.disp != nil {
		tok, h, ok := es.disp.prepare(p, false)
		if !ok {
			return "", false
		}
		disp = tok
		e.DisplayName = h
	} else {
		e.DisplayName = nil
	}
	chatTok := "_"
	if e.RemoteChatSession != nil {
		chatTok = hx.Hex(e.RemoteChatSession.ID[:]) + "," + itoa(es.key.ExpiryTemporal().UnixMilli()) + "," + hx.Hex(es.key.pub) + "," + hx.Hex(es.key.sig)
	}
	return strings.Join([]string{hx.Hex(e.ProfileID[:]), hx.HexS(e.Profile.Name), showProps(e.Profile.Properties), b01(e.Listed),
		strconv.Itoa(e.Latency), strconv.Itoa(e.GameMode), disp, b01(e.ShowHat), strconv.Itoa(e.ListOrder), chatTok}, "|"), true
}

func upsCase(class string, p int, acts []int, ents []*entrySpec) {
	var as []playerinfo.UpsertAction
	var atok []string
	for _, a := range acts {
		as = append(as, playerinfo.UpsertActions[a])
		atok = append(atok, strconv.Itoa(a))
	}
	var etok []string
	var es []*playerinfo.Entry
	for _, x := range ents {
		t, ok := x.show(p)
		if !ok {
			return
		}
		etok = append(etok, t)
		es = append(es, x.e)
	}
	at, et := "_", "_"
	if len(atok) > 0 {
		at = strings.Join(atok, ",")
	}
	if len(etok) > 0 {
		et = strings.Join(etok, "/")
	}
	u := &playerinfo.Upsert{ActionSet: as, Entries: es}
	run.Case(class, fmt.Sprintf("ups %d %s %s", p, at, et), encode(u, p, proto.ClientBound, 0x3e))
}

func maxAction(p int) int {
	switch {
	case p >= 769:
		return 8
	case p >= 768:
		return 7
	}
	return 6
}

func perms(xs []int) [][]int {
	if len(xs) <= 1 {
		return [][]int{append([]int(nil), xs...)}
	}
	var out [][]int
	for i := range xs {
		rest := append(append([]int(nil), xs[:i]...), xs[i+1:]...)
		for _, q := range perms(rest) {
			out = append(out, append([]int{xs[i]}, q...))
		}
	}
	return out
}

func doPlayerInfo() {
	// regression: per-entry action data in API order (witness of the defect)
	w := &entrySpec{e: &playerinfo.Entry{Latency: 0, Listed: true}}
	upsCase("upsert-regression", 767, []int{4, 3}, []*entrySpec{w})
	w2 := &entrySpec{e: &playerinfo.Entry{Latency: 2, GameMode: 77}}
	upsCase("upsert-regression", 767, []int{4, 2}, []*entrySpec{w2})
	// the order internal/tablist.add builds for a new entry
	for _, p := range protosFrom(761) {
		e := genEntry()
		acts := []int{0, 4, 3, 5, 1, 2}
		if p >= 768 {
			acts = append(acts, 6)
		}
		if p >= 769 {
			acts = append(acts, 7)
		}
		upsCase("upsert-tablist-order", p, acts, []*entrySpec{e})
	}
	// every subset of the simple actions {2,3,4,6,7} in every order (≤ 4 actions), newest protocol
	simple := []int{2, 3, 4, 6, 7}
	for mask := 0; mask < 32; mask++ {
		var sub []int
		for i, a := range simple {
			if mask&(1<<uint(i)) != 0 {
				sub = append(sub, a)
			}
		}
		if len(sub) > 4 {
			continue
		}
		for _, q := range perms(sub) {
			upsCase("upsert-all-orders", 776, q, []*entrySpec{genEntry()})
		}
	}
	// random subsets (all 8 actions), random order, sometimes duplicates, 0..3 entries
	n := run.Scale(500, 4000)
	for i := 0; i < n; i++ {
		p := hx.Pick(rng, protosFrom(761))
		m := maxAction(p)
		var acts []int
		for a := 0; a < m; a++ {
			if rng.Bool() {
				acts = append(acts, a)
			}
		}
		for j := len(acts) - 1; j > 0; j-- {
			k := rng.Intn(j + 1)
			acts[j], acts[k] = acts[k], acts[j]
		}
		if len(acts) > 0 && rng.Chance(1, 8) {
			acts = append(acts, hx.Pick(rng, acts))
		}
		if rng.Chance(1, 30) && m < 8 { // an action the protocol does not have (outside the domain)
			acts = append(acts, m+rng.Intn(8-m))
		}
		ne := hx.Pick(rng, []int{0, 1, 1, 1, 2, 3})
		var ents []*entrySpec
		for k := 0; k < ne; k++ {
			ents = append(ents, genEntry())
		}
		upsCase("upsert-random", p, acts, ents)
	}
	// remove
	m := run.Scale(40, 300)
	for i := 0; i < m; i++ {
		k := hx.Pick(rng, []int{0, 1, 1, 2, 5, 130})
		var ids []uuid.UUID
		var toks []string
		for j := 0; j < k; j++ {
			u := genUUID()
			ids = append(ids, u)
			toks = append(toks, hx.Hex(u[:]))
		}
		t := "_"
		if k > 0 {
			t = strings.Join(toks, ",")
		}
		run.Case("remove", "rem "+t, encode(&playerinfo.Remove{PlayersToRemove: ids}, hx.Pick(rng, protosFrom(761)), proto.ClientBound, 0x3d))
	}
}

func main() {
	run = hx.Start()
	rng = run.Rng
	allProtos = protocols()
	doPlayerInfo()
	doPluginMessage()
	doPluginHistory()
	doHandshake()
	doStatus()
	doLoginStart()
	doEncryption()
	doLoginSuccess()
	doLoginPlugin()
	doDisconnect()
	doKeepAliveTransfer()
	run.Extra["protocols"] = len(allProtos)
	run.Finish()
}
