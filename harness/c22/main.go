// C22 correspondence harness: drives the REAL chatHandler.handleCommand (all four protocol families) of a
// connectedPlayer built by the verif hook export_verif_c22.go, with generated proxy command trees (real brigodier
// nodes with permission requirements and recording handlers), scripted CommandExecuteEvent outcomes and recording
// client/backend connections.  See lean/GateModel/C22/Driver.lean for the line format.
package main

import (
	"context"
	"crypto/rsa"
	"errors"
	"fmt"
	"net"
	"strconv"
	"strings"
	"sync"
	"time"

	"github.com/robinbraemer/event"
	"go.minekube.com/brigodier"

	"go.minekube.com/gate/pkg/command"
	"go.minekube.com/gate/pkg/edition/java/netmc"
	"go.minekube.com/gate/pkg/edition/java/proto/packet/chat"
	"go.minekube.com/gate/pkg/edition/java/proto/state"
	"go.minekube.com/gate/pkg/edition/java/proto/version"
	"go.minekube.com/gate/pkg/edition/java/proxy"
	"go.minekube.com/gate/pkg/edition/java/proxy/crypto"
	"go.minekube.com/gate/pkg/edition/java/proxy/crypto/keyrevision"
	"go.minekube.com/gate/pkg/edition/java/proxy/phase"
	"go.minekube.com/gate/pkg/gate/proto"
	"go.minekube.com/gate/pkg/util/permission"
	"go.minekube.com/gate/pkg/util/uuid"

	"verifharness/hx"
)

// ---------- fake connection ----------

type fakeConn struct {
	protocol proto.Protocol
	mu       sync.Mutex
	packets  []proto.Packet
	closes   int
}

func (c *fakeConn) Context() context.Context                                       { return context.Background() }
func (c *fakeConn) Close() error                                                   { c.mu.Lock(); c.closes++; c.mu.Unlock(); return nil }
func (c *fakeConn) State() *state.Registry                                         { return state.Play }
func (c *fakeConn) Protocol() proto.Protocol                                       { return c.protocol }
func (c *fakeConn) RemoteAddr() net.Addr                                           { return &net.TCPAddr{} }
func (c *fakeConn) LocalAddr() net.Addr                                            { return &net.TCPAddr{} }
func (c *fakeConn) Type() phase.ConnectionType                                     { return phase.Vanilla }
func (c *fakeConn) SetType(phase.ConnectionType)                                   {}
func (c *fakeConn) ActiveSessionHandler() netmc.SessionHandler                     { return nil }
func (c *fakeConn) SetActiveSessionHandler(*state.Registry, netmc.SessionHandler) {}
func (c *fakeConn) SwitchSessionHandler(*state.Registry) bool                      { return true }
func (c *fakeConn) AddSessionHandler(*state.Registry, netmc.SessionHandler)        {}
func (c *fakeConn) SetAutoReading(bool)                                            {}
func (c *fakeConn) SetOutboundState(*state.Registry)                               {}
func (c *fakeConn) SetProtocol(proto.Protocol)                                     {}
func (c *fakeConn) SetState(*state.Registry)                                       {}
func (c *fakeConn) SetCompressionThreshold(int) error                              { return nil }
func (c *fakeConn) EnableEncryption([]byte) error                                  { return nil }
func (c *fakeConn) WritePacket(p proto.Packet) error {
	c.mu.Lock()
	c.packets = append(c.packets, p)
	c.mu.Unlock()
	return nil
}
func (c *fakeConn) Write([]byte) error                { return nil }
func (c *fakeConn) BufferPacket(p proto.Packet) error { return c.WritePacket(p) }
func (c *fakeConn) BufferPayload([]byte) error        { return nil }
func (c *fakeConn) Flush() error                      { return nil }
func (c *fakeConn) Reader() netmc.Reader              { return nil }
func (c *fakeConn) Writer() netmc.Writer              { return nil }
func (c *fakeConn) EnablePlayPacketQueue()            {}

var _ netmc.MinecraftConn = (*fakeConn)(nil)

func (c *fakeConn) snapshot() ([]proto.Packet, int) {
	c.mu.Lock()
	defer c.mu.Unlock()
	return append([]proto.Packet(nil), c.packets...), c.closes
}

// ---------- fake identified key ----------

type fakeKey struct{ rev keyrevision.Revision }

func (k fakeKey) Signer() *rsa.PublicKey                    { return nil }
func (k fakeKey) ExpiryTemporal() time.Time                 { return time.Unix(1<<40, 0) }
func (k fakeKey) Expired() bool                             { return false }
func (k fakeKey) Signature() []byte                         { return nil }
func (k fakeKey) SignatureValid() bool                      { return true }
func (k fakeKey) Salt() []byte                              { return nil }
func (k fakeKey) SignedPublicKey() *rsa.PublicKey           { return nil }
func (k fakeKey) SignedPublicKeyBytes() []byte              { return nil }
func (k fakeKey) VerifyDataSignature([]byte, ...[]byte) bool { return true }
func (k fakeKey) SignatureHolder() uuid.UUID                { return uuid.UUID{} }
func (k fakeKey) KeyRevision() keyrevision.Revision         { return k.rev }

var _ crypto.IdentifiedKey = fakeKey{}

// ---------- command tree ----------

type node struct {
	parent int    // 0 = root, else 1-based index
	kind   byte   // L W G
	name   string // literal name
	req    int    // 0 = none, else permission id
	hid    int    // 0 = not executable, else handler id
	hk     byte   // o f e
}

func (n node) token() string {
	name, req, ex := "-", "-", "-"
	if n.kind == 'L' {
		name = n.name
	}
	if n.req != 0 {
		req = strconv.Itoa(n.req)
	}
	if n.hid != 0 {
		ex = strconv.Itoa(n.hid) + string(n.hk)
	}
	return fmt.Sprintf("%d:%c:%s:%s:%s", n.parent, n.kind, name, req, ex)
}

type recorder struct {
	mu  sync.Mutex
	inv []int
}

func (r *recorder) add(h int) { r.mu.Lock(); r.inv = append(r.inv, h); r.mu.Unlock() }
func (r *recorder) take() []int {
	r.mu.Lock()
	defer r.mu.Unlock()
	out := r.inv
	r.inv = nil
	return out
}

var errScripted = errors.New("scripted failure")

func buildTree(nodes []node, rec *recorder) *command.Manager {
	var mgr command.Manager
	kids := map[int][]int{}
	for i, n := range nodes {
		kids[n.parent] = append(kids[n.parent], i+1)
	}
	var build func(id int) brigodier.Builder
	build = func(id int) brigodier.Builder {
		n := nodes[id-1]
		var req brigodier.RequireFn
		if n.req != 0 {
			perm := "p" + strconv.Itoa(n.req)
			req = command.Requires(func(c *command.RequiresContext) bool { return c.Source.HasPermission(perm) })
		}
		var exec brigodier.Command
		if n.hid != 0 {
			hid, hk := n.hid, n.hk
			exec = command.Command(func(*command.Context) error {
				rec.add(hid)
				switch hk {
				case 'f':
					return command.ErrForward
				case 'e':
					return errScripted
				}
				return nil
			})
		}
		var ch []brigodier.Builder
		for _, k := range kids[id] {
			ch = append(ch, build(k))
		}
		if n.kind == 'L' {
			var b brigodier.LiteralNodeBuilder = brigodier.Literal(n.name)
			if req != nil {
				b = b.Requires(req)
			}
			if exec != nil {
				b = b.Executes(exec)
			}
			if len(ch) > 0 {
				b = b.Then(ch...)
			}
			return b
		}
		var b brigodier.ArgumentNodeBuilder
		if n.kind == 'W' {
			b = brigodier.Argument("w"+strconv.Itoa(id), brigodier.StringWord)
		} else {
			b = brigodier.Argument("g"+strconv.Itoa(id), brigodier.StringPhrase)
		}
		if req != nil {
			b = b.Requires(req)
		}
		if exec != nil {
			b = b.Executes(exec)
		}
		if len(ch) > 0 {
			b = b.Then(ch...)
		}
		return b
	}
	for _, id := range kids[0] {
		mgr.Register(build(id).(brigodier.LiteralNodeBuilder))
	}
	return &mgr
}

// mixed-case labels matter: command.Manager.Has lower-cases its argument while literals are registered and
// matched case-sensitively, so any label-based shortcut must agree with the dispatcher on "gList" vs "glist"
var litNames = []string{"a", "b", "run", "msg", "server", "x1", "go", "tp", "gList", "Hub", "sendTo"}

func genTree(r *hx.Rng) []node {
	var nodes []node
	hid := 0
	var grow func(parent, depth int)
	add := func(parent int, kind byte, name string) int {
		n := node{parent: parent, kind: kind, name: name}
		if r.Chance(3, 10) {
			n.req = 1 + r.Intn(3)
		}
		if r.Chance(6, 10) || kind == 'G' {
			hid++
			n.hid = hid
			n.hk = hx.Pick(r, []byte{'o', 'o', 'o', 'f', 'e'})
		}
		nodes = append(nodes, n)
		return len(nodes)
	}
	grow = func(parent, depth int) {
		if depth > 3 {
			return
		}
		used := map[string]bool{}
		nl := r.Intn(3)
		if parent == 0 {
			nl = 1 + r.Intn(4)
		}
		for i := 0; i < nl; i++ {
			name := hx.Pick(r, litNames)
			if used[name] {
				continue
			}
			used[name] = true
			id := add(parent, 'L', name)
			if r.Chance(1, 2) {
				grow(id, depth+1)
			}
		}
		if parent != 0 && r.Chance(1, 2) {
			if r.Chance(1, 3) {
				add(parent, 'G', "")
			} else {
				id := add(parent, 'W', "")
				if r.Chance(1, 2) {
					grow(id, depth+1)
				}
			}
		}
	}
	grow(0, 1)
	return nodes
}

var words = []string{"x", "steve", "42", "lobby", "a", "run", "hello.world", "-5", "a_b", "A"}

// a command line following a random path of the tree (ignoring requirements), then possibly mutated
func genLine(r *hx.Rng, nodes []node) string {
	kids := map[int][]int{}
	for i, n := range nodes {
		kids[n.parent] = append(kids[n.parent], i+1)
	}
	var toks []string
	cur := 0
	for len(kids[cur]) > 0 {
		id := hx.Pick(r, kids[cur])
		n := nodes[id-1]
		switch n.kind {
		case 'L':
			toks = append(toks, n.name)
		case 'W':
			toks = append(toks, hx.Pick(r, words))
		default:
			toks = append(toks, hx.Pick(r, words)+" "+hx.Pick(r, words))
		}
		cur = id
		if r.Chance(1, 3) {
			break
		}
	}
	sep := " "
	switch r.Intn(16) {
	case 0:
		toks = append(toks, hx.Pick(r, words)) // one token too many
	case 1:
		if len(toks) > 1 {
			toks = toks[:len(toks)-1] // incomplete
		}
	case 2:
		if len(toks) > 0 {
			toks[0] = hx.Pick(r, []string{"nope", "Run", "A", "serverx", "ru"}) // not a proxy command
		}
	case 3:
		sep = "  "
	case 4:
		return strings.Join(toks, sep) + " "
	case 5:
		return " " + strings.Join(toks, sep)
	case 6:
		return ""
	case 7:
		toks = append(toks, "a$b")
	case 8:
		if len(toks) > 0 {
			toks[len(toks)-1] += "$"
		}
	case 9:
		return "/" + strings.Join(toks, sep)
	case 10:
		if len(toks) > 0 { // same label, different case: a different (usually unknown) command
			if toks[0] == strings.ToLower(toks[0]) {
				toks[0] = strings.ToUpper(toks[0][:1]) + toks[0][1:]
			} else {
				toks[0] = strings.ToLower(toks[0])
			}
		}
	}
	return strings.Join(toks, sep)
}

// ---------- one case ----------

type cmdCase struct {
	fam      string
	signed   bool
	keyV2    bool
	hasKey   bool
	forceKey bool
	p1205    bool
	protocol proto.Protocol
	denied   bool
	forward  bool
	newCmd   *string
	line     string
}

func bit(b bool) string {
	if b {
		return "1"
	}
	return "0"
}

func permFunc(perms []int) permission.Func {
	set := map[string]bool{}
	for _, p := range perms {
		set["p"+strconv.Itoa(p)] = true
	}
	return func(s string) permission.TriState {
		if set[s] {
			return permission.True
		}
		return permission.Undefined
	}
}

const origSalt = 777

func runCmd(run *hx.Run, class string, nodes []node, perms []int, cc cmdCase) {
	nc := "~"
	if cc.newCmd != nil {
		nc = hx.HexS(*cc.newCmd)
	}
	opLine := fmt.Sprintf("cmd %s %s %s %s %s %s %s %s %s", cc.fam, bit(cc.signed), bit(cc.keyV2), bit(cc.forceKey),
		bit(cc.p1205), bit(cc.denied), bit(cc.forward), nc, hx.HexS(cc.line))
	out := hx.Guard(20*time.Second, func() string {
		rec := &recorder{}
		mgr := buildTree(nodes, rec)
		client := &fakeConn{protocol: cc.protocol}
		backend := &fakeConn{protocol: cc.protocol}
		evm := event.New()
		event.Subscribe(evm, 0, func(e *proxy.CommandExecuteEvent) {
			if cc.denied {
				e.SetAllowed(false)
			}
			if cc.forward {
				e.SetForward(true)
			}
			if cc.newCmd != nil {
				e.SetCommand(*cc.newCmd)
			}
		})
		var key crypto.IdentifiedKey
		if cc.hasKey {
			if cc.keyV2 {
				key = fakeKey{keyrevision.LinkedV2}
			} else {
				key = fakeKey{keyrevision.GenericV1}
			}
		}
		fx := proxy.C22NewFixture(client, backend, evm, mgr, permFunc(perms), key, cc.forceKey)
		ts := time.Unix(1700000000, 0)
		var pkt proto.Packet
		switch cc.fam {
		case "legacy":
			pkt = &chat.LegacyChat{Message: "/" + cc.line}
		case "keyed":
			pkt = &chat.KeyedPlayerCommand{Unsigned: !cc.signed, Command: cc.line, Timestamp: ts, Salt: origSalt}
		case "session":
			p := &chat.SessionPlayerCommand{Command: cc.line, Timestamp: ts, Salt: origSalt}
			if cc.signed {
				p.ArgumentSignatures.Entries = []chat.ArgumentSignature{{Name: "a", Signature: make([]byte, 256)}}
			}
			pkt = p
		default:
			pkt = &chat.UnsignedPlayerCommand{SessionPlayerCommand: chat.SessionPlayerCommand{Command: cc.line}}
		}
		if err := fx.C22HandleCommand(pkt); err != nil {
			return "err"
		}
		done := make(chan struct{})
		fx.C22OnIdle(func() { close(done) })
		select {
		case <-done:
		case <-time.After(10 * time.Second):
			return "hang"
		}
		var inv []string
		for _, h := range rec.take() {
			inv = append(inv, strconv.Itoa(h))
		}
		bps, _ := backend.snapshot()
		var be []string
		for _, p := range bps {
			switch t := p.(type) {
			case *chat.LegacyChat:
				if strings.HasPrefix(t.Message, "/") {
					be = append(be, "legacy:"+hx.HexS(t.Message[1:]))
				} else {
					be = append(be, "legacynoslash:"+hx.HexS(t.Message))
				}
			case *chat.KeyedPlayerCommand:
				be = append(be, "keyed"+bit(t.Salt == origSalt)+":"+hx.HexS(t.Command))
			case *chat.SessionPlayerCommand:
				be = append(be, "session"+bit(t.Salt == origSalt)+":"+hx.HexS(t.Command))
			case *chat.UnsignedPlayerCommand:
				be = append(be, "unsigned:"+hx.HexS(t.Command))
			default:
				be = append(be, fmt.Sprintf("other<%T>:-", p))
			}
		}
		cps, closes := client.snapshot()
		msgs := 0
		for _, p := range cps {
			switch p.(type) {
			case *chat.SystemChat, *chat.LegacyChat:
				msgs++
			}
		}
		join := func(xs []string) string {
			if len(xs) == 0 {
				return "-"
			}
			return strings.Join(xs, ",")
		}
		return fmt.Sprintf("inv=%s be=%s x=%d msg=%d", join(inv), join(be), closes, msgs)
	})
	run.Case(class, opLine, out)
}

func runDisp(run *hx.Run, nodes []node, perms []int, line string) {
	out := hx.Guard(10*time.Second, func() string {
		rec := &recorder{}
		mgr := buildTree(nodes, rec)
		c := &fakeConn{protocol: version.Minecraft_1_20_3.Protocol}
		fx := proxy.C22NewFixture(c, c, event.New(), mgr, permFunc(perms), nil, false)
		err := mgr.Do(context.Background(), fx.C22Player(), line)
		inv := rec.take()
		var sErr *brigodier.CommandSyntaxError
		switch {
		case len(inv) > 1:
			return "multi"
		case len(inv) == 1 && err == nil:
			return fmt.Sprintf("ran:%d:o", inv[0])
		case len(inv) == 1 && errors.Is(err, command.ErrForward):
			return fmt.Sprintf("ran:%d:f", inv[0])
		case len(inv) == 1:
			return fmt.Sprintf("ran:%d:e", inv[0])
		case errors.Is(err, brigodier.ErrDispatcherUnknownCommand):
			return "unknown"
		case errors.As(err, &sErr):
			return "syntax"
		case err == nil:
			return "nil-without-handler"
		}
		return "other-error"
	})
	run.Case("disp", "disp "+hx.HexS(line), out)
}

var legacyProtos = []proto.Protocol{version.Minecraft_1_8.Protocol, version.Minecraft_1_12_2.Protocol, version.Minecraft_1_18_2.Protocol}
var keyedProtos = []proto.Protocol{version.Minecraft_1_19.Protocol, version.Minecraft_1_19_1.Protocol}
var sessionOld = []proto.Protocol{version.Minecraft_1_19_3.Protocol, version.Minecraft_1_20_2.Protocol, version.Minecraft_1_20_3.Protocol}
var sessionNew = []proto.Protocol{version.Minecraft_1_20_5.Protocol, version.Minecraft_1_21_5.Protocol}

func genCase(r *hx.Rng, nodes []node) cmdCase {
	cc := cmdCase{forceKey: r.Bool(), line: genLine(r, nodes)}
	switch r.Intn(4) {
	case 0:
		cc.fam, cc.protocol = "legacy", hx.Pick(r, legacyProtos)
	case 1:
		cc.fam, cc.protocol = "keyed", hx.Pick(r, keyedProtos)
		cc.signed = r.Bool()
		cc.hasKey = r.Chance(2, 3)
		cc.keyV2 = cc.hasKey && r.Bool()
	case 2:
		cc.fam = "session"
		cc.p1205 = r.Bool()
		if cc.p1205 {
			cc.protocol = hx.Pick(r, sessionNew)
		} else {
			cc.protocol = hx.Pick(r, sessionOld)
		}
		cc.signed = r.Chance(1, 3)
	default:
		cc.fam, cc.p1205, cc.protocol = "unsigned", true, hx.Pick(r, sessionNew)
	}
	cc.denied = r.Chance(15, 100)
	cc.forward = r.Chance(25, 100)
	if r.Chance(30, 100) {
		var s string
		if r.Chance(1, 5) {
			s = cc.line // SetCommand with the same text
		} else {
			s = genLine(r, nodes)
		}
		cc.newCmd = &s
	}
	return cc
}

func emitTree(run *hx.Run, nodes []node, perms []int) {
	toks := make([]string, len(nodes))
	for i, n := range nodes {
		toks[i] = n.token()
	}
	run.Case("tree", "tree "+strings.Join(toks, " "), "ok")
	ps := "-"
	if len(perms) > 0 {
		s := make([]string, len(perms))
		for i, p := range perms {
			s[i] = strconv.Itoa(p)
		}
		ps = strings.Join(s, ",")
	}
	run.Case("tree", "perms "+ps, "ok")
}

func strp(s string) *string { return &s }

func main() {
	run := hx.Start()
	defer run.Finish()
	r := run.Rng

	// fixed regression cases: the two paths repaired by fixes/C22-command-forwarding.diff and the basic table
	fixedTree := []node{
		{0, 'L', "server", 0, 1, 'o'}, {1, 'W', "", 0, 2, 'o'},
		{0, 'L', "admin", 1, 3, 'o'},
		{0, 'L', "msg", 0, 0, 0}, {4, 'W', "", 0, 0, 0}, {5, 'G', "", 0, 4, 'o'},
		{0, 'L', "fwd", 0, 5, 'f'}, {0, 'L', "boom", 0, 6, 'e'},
	}
	emitTree(run, fixedTree, nil)
	old := version.Minecraft_1_18_2.Protocol
	k19 := version.Minecraft_1_19_1.Protocol
	s203 := version.Minecraft_1_20_3.Protocol
	for _, cc := range []cmdCase{
		{fam: "legacy", protocol: old, line: "h", newCmd: strp("home")},
		{fam: "legacy", protocol: old, line: "h", newCmd: strp("server lobby")},
		{fam: "keyed", protocol: k19, signed: true, hasKey: true, keyV2: true, forward: true, line: "h", newCmd: strp("home")},
		{fam: "keyed", protocol: k19, signed: true, hasKey: true, keyV2: true, forceKey: true, forward: true, line: "h", newCmd: strp("home")},
		{fam: "keyed", protocol: k19, signed: true, hasKey: true, keyV2: true, line: "h", newCmd: strp("home")},
		{fam: "session", protocol: s203, line: "server"}, {fam: "session", protocol: s203, line: "server lobby"},
		{fam: "session", protocol: s203, line: "server lobby extra"}, {fam: "session", protocol: s203, line: "admin"},
		{fam: "session", protocol: s203, line: "msg"}, {fam: "session", protocol: s203, line: "msg bob"},
		{fam: "session", protocol: s203, line: "msg bob hi there"}, {fam: "session", protocol: s203, line: "fwd"},
		{fam: "session", protocol: s203, line: "boom"}, {fam: "session", protocol: s203, line: "home"},
		{fam: "session", protocol: s203, line: "server", denied: true}, {fam: "session", protocol: s203, line: "server", forward: true},
		{fam: "legacy", protocol: old, line: "server", denied: true, forward: true},
	} {
		runCmd(run, "fixed/"+cc.fam, fixedTree, nil, cc)
	}
	emitTree(run, fixedTree, []int{1})
	runCmd(run, "fixed/session", fixedTree, []int{1}, cmdCase{fam: "session", protocol: s203, line: "admin"})

	for t := run.Scale(150, 1500); t > 0; t-- {
		nodes := genTree(r)
		var perms []int
		for p := 1; p <= 3; p++ {
			if r.Bool() {
				perms = append(perms, p)
			}
		}
		emitTree(run, nodes, perms)
		for i := 0; i < 12; i++ {
			runDisp(run, nodes, perms, genLine(r, nodes))
		}
		for i := 0; i < 40; i++ {
			cc := genCase(r, nodes)
			runCmd(run, cc.fam, nodes, perms, cc)
		}
	}
}
