// C01 correspondence harness: payload sequences through the real netmc writer (compression, AES/CFB8)
// into a capturing conn, then through the real netmc reader over a chunking conn.
package main

import (
	"errors"
	"runtime"
	"sync"
	"fmt"
	"strings"
	"time"

	"github.com/go-logr/logr"
	"go.minekube.com/gate/pkg/edition/java/netmc"
	"go.minekube.com/gate/pkg/gate/proto"

	"verifharness/codecx"
	"verifharness/hx"
)

type pay struct {
	spec string // line-protocol form
	data []byte
}

func mkPay(r *hx.Rng, n int, compressible bool) pay {
	if n == 0 {
		return pay{"-", nil}
	}
	if n <= 40 {
		b := r.Bytes(n)
		b[0] = 0x7f // a packet id unknown in the handshake state: the payload is passed through untouched
		return pay{hx.Hex(b), b}
	}
	seed := r.U64() >> 12
	var b []byte
	kind := "r"
	if compressible {
		kind = "z"
		pat := codecx.GenBytes(seed, 16)
		b = make([]byte, n)
		for i := range b {
			b[i] = pat[i%16]
		}
	} else {
		b = codecx.GenBytes(seed, n)
	}
	if b[0] != 0x7f {
		// keep generator-defined bytes: instead of patching, retry with another seed until byte 0 is 0x7f
		for b[0] != 0x7f {
			seed++
			if compressible {
				pat := codecx.GenBytes(seed, 16)
				for i := range b {
					b[i] = pat[i%16]
				}
			} else {
				b[0] = codecx.GenBytes(seed, 1)[0]
				if b[0] == 0x7f {
					b = codecx.GenBytes(seed, n)
				}
			}
		}
	}
	return pay{fmt.Sprintf("g%s:%d:%d", kind, seed, n), b}
}

func runCase(run *hx.Run, class string, dir string, thr, level int, secret []byte, chunks []int, ps []pay) {
	d := proto.ServerBound
	if dir == "c" {
		d = proto.ClientBound
	}
	impl := hx.Guard(60*time.Second, func() string {
		cc := &codecx.CaptureConn{}
		w := netmc.NewWriter(cc, d, time.Second, level, logr.Discard())
		if thr >= 0 {
			if err := w.SetCompressionThreshold(thr); err != nil {
				return "setup-err"
			}
		}
		if secret != nil {
			if err := w.EnableEncryption(secret); err != nil {
				return "setup-err"
			}
		}
		for _, p := range ps {
			if _, err := w.Write(p.data); err != nil {
				return "write-err"
			}
		}
		if err := w.Flush(); err != nil {
			return "flush-err"
		}
		wire := append([]byte(nil), cc.Buf.Bytes()...)
		rc := &codecx.ChunkConn{Data: wire, Sizes: chunks}
		rd := netmc.NewReader(rc, d, time.Second, logr.Discard())
		if thr >= 0 {
			rd.SetCompressionThreshold(thr)
		}
		if secret != nil {
			if err := rd.EnableEncryption(secret); err != nil {
				return "setup-err"
			}
		}
		var got [][]byte
		end := ""
		for i := 0; i < len(ps)+3; i++ {
			ctx, err := rd.ReadPacket()
			if err != nil {
				if errors.Is(err, netmc.ErrReadPacketRetry) {
					continue
				}
				end = codecx.ErrClass(err)
				break
			}
			got = append(got, ctx.Payload)
		}
		if end == "" {
			end = "no-end"
		}
		return fmt.Sprintf("wire=%s read=%s end=%s", codecx.ShowPayload(wire), codecx.ShowList(got), end)
	})
	specs := make([]string, len(ps))
	ds := make([]string, len(ps))
	for i, p := range ps {
		specs[i] = p.spec
		ds[i] = "-"
		if thr >= 0 && len(p.data) >= thr {
			ds[i] = hx.Hex(codecx.Deflate(level, p.data))
		}
	}
	psS, dsS := "_", "_"
	if len(ps) > 0 {
		psS, dsS = strings.Join(specs, ","), strings.Join(ds, ",")
	}
	sec := "-"
	if secret != nil {
		sec = hx.Hex(secret)
	}
	run.Case(class, fmt.Sprintf("rt %s %d %s %s %s", dir, thr, sec, psS, dsS), impl)
}

// runSwitch: ps1 in the clear, then BOTH sides enable encryption (as the login flow does after the encryption
// response), then ps2. The reader is fed in chunks that are free to straddle the switch point.
func runSwitch(run *hx.Run, dir string, thr, level int, secret []byte, chunks []int, ps1, ps2 []pay) {
	d := proto.ServerBound
	if dir == "c" {
		d = proto.ClientBound
	}
	impl := hx.Guard(60*time.Second, func() string {
		cc := &codecx.CaptureConn{}
		w := netmc.NewWriter(cc, d, time.Second, level, logr.Discard())
		if thr >= 0 {
			if err := w.SetCompressionThreshold(thr); err != nil {
				return "setup-err"
			}
		}
		for _, p := range ps1 {
			if _, err := w.Write(p.data); err != nil {
				return "write-err"
			}
		}
		if err := w.EnableEncryption(secret); err != nil {
			return "setup-err"
		}
		for _, p := range ps2 {
			if _, err := w.Write(p.data); err != nil {
				return "write-err"
			}
		}
		if err := w.Flush(); err != nil {
			return "flush-err"
		}
		wire := append([]byte(nil), cc.Buf.Bytes()...)
		rd := netmc.NewReader(&codecx.ChunkConn{Data: wire, Sizes: chunks}, d, time.Second, logr.Discard())
		if thr >= 0 {
			rd.SetCompressionThreshold(thr)
		}
		var got [][]byte
		end := ""
		for i := 0; i < len(ps1)+len(ps2)+3 && end == ""; i++ {
			if i == len(ps1) {
				if err := rd.EnableEncryption(secret); err != nil {
					return "setup-err"
				}
			}
			ctx, err := rd.ReadPacket()
			if err != nil {
				if errors.Is(err, netmc.ErrReadPacketRetry) {
					continue
				}
				end = codecx.ErrClass(err)
				break
			}
			got = append(got, ctx.Payload)
		}
		if end == "" {
			end = "no-end"
		}
		return fmt.Sprintf("wire=%s read=%s end=%s", codecx.ShowPayload(wire), codecx.ShowList(got), end)
	})
	enc := func(ps []pay) (string, string) {
		if len(ps) == 0 {
			return "_", "_"
		}
		specs, ds := make([]string, len(ps)), make([]string, len(ps))
		for i, p := range ps {
			specs[i], ds[i] = p.spec, "-"
			if thr >= 0 && len(p.data) >= thr {
				ds[i] = hx.Hex(codecx.Deflate(level, p.data))
			}
		}
		return strings.Join(specs, ","), strings.Join(ds, ",")
	}
	p1, d1 := enc(ps1)
	p2, d2 := enc(ps2)
	run.Case("sw", fmt.Sprintf("sw %s %d %s %s %s %s %s", dir, thr, hx.Hex(secret), p1, d1, p2, d2), impl)
}

// slowConn yields the processor on every write so that concurrently running encoders interleave.
type slowConn struct{ codecx.CaptureConn }

func (s *slowConn) Write(b []byte) (int, error) {
	runtime.Gosched()
	time.Sleep(20 * time.Microsecond)
	return s.CaptureConn.Write(b)
}

// runConcurrent: several independent writer/reader pairs write at the same time (they share nothing but the
// codec package's buffer pools). Every stream must still round-trip; each is reported as an ordinary `rt` case.
func runConcurrent(run *hx.Run, r *hx.Rng, writers int) {
	type res struct{ class, op, impl string }
	out := make([]res, writers)
	var wg sync.WaitGroup
	type job struct {
		thr, level int
		ps         []pay
	}
	jobs := make([]job, writers)
	for i := range jobs {
		n := 3 + r.Intn(4)
		ps := make([]pay, n)
		for j := range ps {
			ps[j] = mkPay(r, 5000+r.Intn(30000), r.Chance(1, 4)) // mostly incompressible: compressed bodies > 4 KiB
		}
		jobs[i] = job{256, 1 + r.Intn(9), ps}
	}
	for i, j := range jobs {
		wg.Add(1)
		go func() {
			defer wg.Done()
			impl := hx.Guard(60*time.Second, func() string {
				cc := &slowConn{}
				w := netmc.NewWriter(cc, proto.ClientBound, time.Second, j.level, logr.Discard())
				w.SetCompressionThreshold(j.thr)
				for _, p := range j.ps {
					if _, err := w.Write(p.data); err != nil {
						return "write-err"
					}
				}
				w.Flush()
				wire := append([]byte(nil), cc.Buf.Bytes()...)
				rd := netmc.NewReader(&codecx.ChunkConn{Data: wire, Sizes: []int{4096}}, proto.ClientBound, time.Second, logr.Discard())
				rd.SetCompressionThreshold(j.thr)
				var got [][]byte
				end := "no-end"
				for k := 0; k < len(j.ps)+3; k++ {
					ctx, err := rd.ReadPacket()
					if err != nil {
						end = codecx.ErrClass(err)
						break
					}
					got = append(got, ctx.Payload)
				}
				return fmt.Sprintf("wire=%s read=%s end=%s", codecx.ShowPayload(wire), codecx.ShowList(got), end)
			})
			specs, ds := make([]string, len(j.ps)), make([]string, len(j.ps))
			for k, p := range j.ps {
				specs[k] = p.spec
				ds[k] = hx.Hex(codecx.Deflate(j.level, p.data))
			}
			out[i] = res{"rt/concurrent-writers", fmt.Sprintf("rt c %d - %s %s", j.thr, strings.Join(specs, ","), strings.Join(ds, ",")), impl}
		}()
	}
	wg.Wait()
	for _, o := range out {
		run.Case(o.class, o.op, o.impl)
	}
}

var chunkPatterns = [][]int{{1}, {2}, {1, 2, 3}, {7, 1, 100}, {5}, {16}, {4096}, {1 << 20}, {3, 4096, 1}, {65536, 1}}

func main() {
	run := hx.Start()
	r := run.Rng
	thresholds := []int{-1, 0, 1, 2, 64, 256, 1000, 1 << 14, 1 << 20}

	// fixed regression cases first (witnesses of the recorded findings and past failures)
	runCase(run, "fixed/empty-thr0", "s", 0, 6, nil, []int{4096}, []pay{{"-", nil}, mkPay(r, 5, false)})
	many := make([]pay, 12)
	for i := range many {
		many[i] = pay{"-", nil}
	}
	runCase(run, "fixed/many-empty", "s", -1, 6, nil, []int{4096}, append(many, mkPay(r, 5, false)))
	runCase(run, "fixed/eleven-empty", "s", 256, 6, nil, []int{1}, append(many[:11:11], mkPay(r, 5, false)))

	n := run.Scale(700, 2500)
	for i := 0; i < n; i++ {
		if i == n/2 {
			// second half of the run (and everything after it) happens in the post-calibration regime of the
			// process-wide buffer pools: see codecx.WarmPools
			codecx.WarmPools()
		}
		thr := hx.Pick(r, thresholds)
		if r.Chance(1, 6) {
			thr = r.Intn(3000)
		}
		level := r.Intn(11) - 1
		var secret []byte
		if r.Bool() {
			secret = r.Bytes(16)
		}
		dir := hx.Pick(r, []string{"s", "c"})
		cnt := 1 + r.Intn(5)
		ps := make([]pay, cnt)
		for j := range ps {
			var sz int
			switch r.Intn(8) {
			case 0:
				sz = 1 + r.Intn(8)
			case 1, 2:
				if thr > 0 && (thr < 1<<16 || (secret == nil && r.Chance(1, 6))) {
					sz = max(1, thr+r.Intn(5)-2) // around the threshold
				} else {
					sz = 1 + r.Intn(300)
				}
			case 3:
				sz = hx.Pick(r, []int{1, 2, 127, 128, 129, 255, 256, 16383, 16384, 16385})
			case 4:
				if secret != nil && !r.Chance(1, 12) {
					sz = 1 + r.Intn(3000) // ciphertext is recomputed byte by byte in Lean: keep most encrypted cases small
				} else {
					sz = 1 + r.Intn(70000)
				}
			default:
				sz = 1 + r.Intn(600)
			}
			if r.Chance(1, 40) {
				sz = 0
			}
			ps[j] = mkPay(r, sz, r.Chance(2, 3))
		}
		class := "rt/thr<0"
		if thr == 0 {
			class = "rt/thr=0"
		} else if thr > 0 {
			class = "rt/thr>0"
		}
		if secret != nil {
			class += "+enc"
		}
		runCase(run, class, dir, thr, level, secret, hx.Pick(r, chunkPatterns), ps)
	}
	// encryption switched on in mid-stream, chunk boundaries free to straddle the switch
	for i := 0; i < run.Scale(150, 800); i++ {
		thr := hx.Pick(r, []int{-1, 0, 1, 64, 256})
		mkN := func(n int) []pay {
			ps := make([]pay, n)
			for j := range ps {
				ps[j] = mkPay(r, 1+r.Intn(400), r.Bool())
			}
			return ps
		}
		runSwitch(run, hx.Pick(r, []string{"s", "c"}), thr, r.Intn(11)-1, r.Bytes(16),
			hx.Pick(r, chunkPatterns), mkN(r.Intn(4)), mkN(1+r.Intn(4)))
	}
	// independent encoders running at the same time (shared buffer pools must not leak between them)
	for i := 0; i < run.Scale(4, 20); i++ {
		runConcurrent(run, r, 6)
	}
	// large frames around the 2^21-1 cap (few: they are expensive)
	big := []int{1<<21 - 1, 1<<21 - 2, 1<<21 - 4, 1 << 20, 1<<21 - 1 - 3}
	for i := 0; i < run.Scale(4, 12); i++ {
		sz := hx.Pick(r, big)
		thr := hx.Pick(r, []int{-1, 256, 1 << 20, 1<<21 - 1})
		var secret []byte
		if r.Chance(1, 4) {
			secret = r.Bytes(16)
		}
		comp := r.Chance(3, 4) || !run.Thorough()
		runCase(run, "rt/large", hx.Pick(r, []string{"s", "c"}), thr, 1+r.Intn(9), secret,
			hx.Pick(r, [][]int{{4096}, {65536, 1}, {1 << 20}}), []pay{mkPay(r, sz, comp), mkPay(r, 3, false)})
	}
	run.Finish()
}
