// C39 correspondence harness: drives the real floodgate.{ReadHostname,WriteHostname,Decrypt,ReadBedrockData}
// against data produced by an independent Go twin of Floodgate's own (Java) encoder/decoder.  AES-GCM results
// are computed here with crypto/aes + crypto/cipher directly and handed to the Lean model as an oracle table.
package main

import (
	"bytes"
	"crypto/aes"
	"crypto/cipher"
	"encoding/base64"
	"fmt"
	"runtime"
	"strconv"
	"strings"
	"sync"
	"time"

	"go.minekube.com/gate/pkg/edition/bedrock/geyser/floodgate"

	"verifharness/hx"
)

// ---------- twin of Floodgate's Java classes (kept independent of gate's code) ----------

const fgHeader = "^Floodgate^>"
const fgIdentifier = "^Floodgate^"

type fgData struct {
	version, username, xuid string
	deviceOs                int32
	lang                    string
	ui, im                  int32
	ip, linked              string
	proxy                   bool
	sub                     int32
	verify                  string
}

func b01(b bool) string {
	if b {
		return "1"
	}
	return "0"
}

// BedrockData.toString()
func (d fgData) String() string {
	return d.version + "\x00" + d.username + "\x00" + d.xuid + "\x00" + strconv.Itoa(int(d.deviceOs)) + "\x00" + d.lang + "\x00" +
		strconv.Itoa(int(d.ui)) + "\x00" + strconv.Itoa(int(d.im)) + "\x00" + d.ip + "\x00" + d.linked + "\x00" + b01(d.proxy) + "\x00" +
		strconv.Itoa(int(d.sub)) + "\x00" + d.verify
}

const b64abc = "ABCDEFGHIJKLMNOPQRSTUVWXYZabcdefghijklmnopqrstuvwxyz0123456789+/"

// Base64Topping.encode = java.util.Base64.getEncoder().encode: own implementation
func jB64Enc(b []byte) string {
	var sb strings.Builder
	for len(b) >= 3 {
		n := uint(b[0])<<16 | uint(b[1])<<8 | uint(b[2])
		sb.WriteByte(b64abc[n>>18])
		sb.WriteByte(b64abc[n>>12&63])
		sb.WriteByte(b64abc[n>>6&63])
		sb.WriteByte(b64abc[n&63])
		b = b[3:]
	}
	switch len(b) {
	case 2:
		n := uint(b[0])<<10 | uint(b[1])<<2
		sb.WriteByte(b64abc[n>>12])
		sb.WriteByte(b64abc[n>>6&63])
		sb.WriteByte(b64abc[n&63])
		sb.WriteByte('=')
	case 1:
		n := uint(b[0]) << 4
		sb.WriteByte(b64abc[n>>6])
		sb.WriteByte(b64abc[n&63])
		sb.WriteString("==")
	}
	return sb.String()
}

// java.util.Base64.getDecoder().decode (basic): optional but exact padding, no foreign characters
func jB64Dec(s string) ([]byte, bool) {
	var out []byte
	val := func(c byte) int { return strings.IndexByte(b64abc, c) }
	for len(s) > 0 {
		if len(s) == 1 {
			return nil, false
		}
		x, y := val(s[0]), val(s[1])
		if x < 0 || y < 0 {
			return nil, false
		}
		if len(s) == 2 || (len(s) == 4 && s[2] == '=' && s[3] == '=') {
			return append(out, byte(x<<2|y>>4)), true
		}
		if s[2] == '=' {
			return nil, false
		}
		z := val(s[2])
		if z < 0 {
			return nil, false
		}
		if len(s) == 3 || (len(s) == 4 && s[3] == '=') {
			return append(out, byte(x<<2|y>>4), byte(y<<4|z>>2)), true
		}
		if s[3] == '=' {
			return nil, false
		}
		w := val(s[3])
		if w < 0 {
			return nil, false
		}
		out = append(out, byte(x<<2|y>>4), byte(y<<4|z>>2), byte(z<<6|w))
		s = s[4:]
	}
	return out, true
}

func newGCM(key []byte, nonceSize int) cipher.AEAD {
	block, err := aes.NewCipher(key)
	if err != nil {
		panic(err)
	}
	var g cipher.AEAD
	if nonceSize == 12 {
		g, err = cipher.NewGCM(block)
	} else {
		g, err = cipher.NewGCMWithNonceSize(block, nonceSize)
	}
	if err != nil {
		panic(err)
	}
	return g
}

// AesCipher.encrypt with Base64Topping, IV chosen by the caller
func fgEncrypt(key, iv []byte, data string) string {
	ct := newGCM(key, len(iv)).Seal(nil, iv, []byte(data), nil)
	return fgHeader + jB64Enc(iv) + "!" + jB64Enc(ct)
}

// String.split("\0")
func javaSplit(s string) []string {
	ps := strings.Split(s, "\x00")
	if len(ps) == 1 {
		return ps
	}
	for len(ps) > 0 && ps[len(ps)-1] == "" {
		ps = ps[:len(ps)-1]
	}
	return ps
}

// Integer.parseInt (ASCII digits)
func javaParseInt(s string) (int32, bool) {
	if s == "" {
		return 0, false
	}
	neg := false
	ds := s
	if s[0] == '+' || s[0] == '-' {
		neg = s[0] == '-'
		ds = s[1:]
	}
	if ds == "" {
		return 0, false
	}
	var n int64
	for i := 0; i < len(ds); i++ {
		if ds[i] < '0' || ds[i] > '9' {
			return 0, false
		}
		n = n*10 + int64(ds[i]-'0')
		if n > 1<<31 {
			return 0, false
		}
	}
	if neg {
		return int32(-n), true
	}
	if n >= 1<<31 {
		return 0, false
	}
	return int32(n), true
}

func carriesData(item string) bool { return len(item) > len(fgHeader) && strings.HasPrefix(item, fgIdentifier) }

// handshake split + AesCipher.decrypt + BedrockData.fromString
func fgRead(key []byte, hostname string) (host string, d fgData, ivLen int, errc string) {
	items := javaSplit(hostname)
	var rest []string
	data := ""
	found := false
	for _, it := range items {
		if carriesData(it) {
			data, found = it, true
		}
	}
	for _, it := range items {
		if !carriesData(it) {
			rest = append(rest, it)
		}
	}
	if !found {
		return "", d, 0, "no-data"
	}
	host = strings.Join(rest, "\x00")
	if data[len(fgIdentifier)] != 0x3E {
		return "", d, 0, "version"
	}
	body := data[len(fgHeader):]
	i := strings.IndexByte(body, '!')
	if i < 0 {
		return "", d, 0, "format"
	}
	iv, ok1 := jB64Dec(body[:i])
	ct, ok2 := jB64Dec(body[i+1:])
	if !ok1 || !ok2 || len(iv) == 0 {
		return "", d, 0, "format"
	}
	plain, err := newGCM(key, len(iv)).Open(nil, iv, ct, nil)
	if err != nil {
		return "", d, 0, "open"
	}
	sp := javaSplit(string(plain))
	if len(sp) != 12 {
		return "", d, 0, "length"
	}
	dev, o1 := javaParseInt(sp[3])
	ui, o2 := javaParseInt(sp[5])
	im, o3 := javaParseInt(sp[6])
	sub, o4 := javaParseInt(sp[10])
	if !o1 || !o2 || !o3 || !o4 {
		return "", d, 0, "number"
	}
	return host, fgData{sp[0], sp[1], sp[2], dev, sp[4], ui, im, sp[7], sp[8], sp[9] == "1", sub, sp[11]}, len(iv), ""
}

// ---------- observing the implementation ----------

func rerrClass(err error) string {
	m := err.Error()
	switch {
	case strings.Contains(m, "invalid hostname format"):
		return "host-parts"
	case strings.Contains(m, "invalid ciphertext length"):
		return "decrypt-len"
	case strings.Contains(m, "invalid Floodgate header"):
		return "decrypt-header"
	case strings.Contains(m, "missing splitter"):
		return "decrypt-splitter"
	case strings.Contains(m, "failed to decode IV"):
		return "decrypt-iv-b64"
	case strings.Contains(m, "failed to decode ciphertext"):
		return "decrypt-ct-b64"
	case strings.Contains(m, "invalid IV length"):
		return "decrypt-noncelen"
	case strings.Contains(m, "failed to decrypt:"), strings.Contains(m, "message authentication failed"):
		return "decrypt-open"
	case strings.Contains(m, "expected 12 parts"):
		return "fields"
	case strings.Contains(m, "invalid username"):
		return "username"
	case strings.Contains(m, "invalid xuid: cannot be 0"):
		return "xuid-zero"
	case strings.Contains(m, "invalid xuid"):
		return "xuid"
	case strings.Contains(m, "invalid device OS"):
		return "device-os"
	case strings.Contains(m, "invalid UI profile"):
		return "ui-profile"
	case strings.Contains(m, "invalid input mode"):
		return "input-mode"
	}
	return "other"
}

func showData(d *floodgate.BedrockData) string {
	return fmt.Sprintf("v=%s u=%s x=%d d=%d l=%s ui=%d im=%d ip=%s lp=%s px=%s sub=%s vc=%s", hx.HexS(d.Version), hx.HexS(d.Username), d.Xuid,
		d.DeviceOS.ID, hx.HexS(d.Language), d.UIProfile, d.InputMode, hx.HexS(d.IP), hx.HexS(d.LinkedPlayer), b01(d.Proxy), hx.HexS(d.SubscribeID), hx.HexS(d.VerifyCode))
}

func showFg(d fgData) string {
	return fmt.Sprintf("v=%s u=%s x=%s d=%d l=%s ui=%d im=%d ip=%s lp=%s px=%s sub=%d vc=%s", hx.HexS(d.version), hx.HexS(d.username), hx.HexS(d.xuid),
		d.deviceOs, hx.HexS(d.lang), d.ui, d.im, hx.HexS(d.ip), hx.HexS(d.linked), b01(d.proxy), d.sub, hx.HexS(d.verify))
}

func readHostname(fg *floodgate.Floodgate, hn string) string {
	return hx.Guard(5*time.Second, func() string {
		host, d, err := fg.ReadHostname(hn)
		if err != nil {
			if d != nil || host != "" {
				return "err-with-value"
			}
			return "err " + rerrClass(err)
		}
		return "ok host=" + hx.HexS(host) + " " + showData(d)
	})
}

// the AEAD answers the model may need for hostname hn under key: every NUL part, port cut, header dropped,
// split at the first '!', both halves Base64-decoded with the standard library
func oracleFor(key []byte, hns ...string) string {
	var es []string
	seen := map[string]bool{}
	for _, hn := range hns {
		for _, p := range strings.Split(hn, "\x00") {
			if i := strings.IndexByte(p, ':'); i >= 0 {
				p = p[:i]
			}
			if len(p) < len(fgHeader) {
				continue
			}
			rest := p[len(fgHeader):]
			i := strings.IndexByte(rest, '!')
			if i < 0 {
				continue
			}
			iv, e1 := base64.StdEncoding.DecodeString(rest[:i])
			ct, e2 := base64.StdEncoding.DecodeString(rest[i+1:])
			if e1 != nil || e2 != nil || len(iv) != 12 {
				continue
			}
			k := hx.Hex(iv) + "/" + hx.Hex(ct)
			if seen[k] {
				continue
			}
			seen[k] = true
			pt, err := newGCM(key, 12).Open(nil, iv, ct, nil)
			if err != nil {
				es = append(es, k+"/!")
			} else {
				es = append(es, k+"/"+hx.Hex(pt))
			}
		}
	}
	if len(es) == 0 {
		return "_"
	}
	return strings.Join(es, ";")
}

// ---------- generators ----------

var usernames = []string{"Steve", "Alex_123", "xX Pro Gamer Xx", "a", "ÜberSpieler", "玩家一号", ".dot", "name with spaces and more than sixteen", "‮gnol", "Tab\there"}
var versions = []string{"1.21.50", "1.20.0", "", "v"}
var langs = []string{"en_US", "de_DE", "", "zh_CN"}
var ips = []string{"127.0.0.1", "203.0.113.7", "2001:db8::1", "::1", ""}
var linkeds = []string{"null", "Steve;853c80ef-3c37-49fd-aa49-938b674adae6;00000000-0000-0000-0009-01f0a2b3c4d5", "", "x;y"}
var verifies = []string{"code", "null", "aB3dE5", "x", "0"}
var hosts = []string{"play.example.org", "localhost", "mc.example.org.", "203.0.113.9", "a", "xn--bcher-kva.example"}

func genFg(r *hx.Rng) fgData {
	d := fgData{
		version: hx.Pick(r, versions), username: hx.Pick(r, usernames), lang: hx.Pick(r, langs), ip: hx.Pick(r, ips),
		linked: hx.Pick(r, linkeds), proxy: r.Bool(), verify: hx.Pick(r, verifies),
		deviceOs: int32(r.Intn(16)), ui: int32(r.Intn(2)), im: int32(r.Intn(4)), sub: int32(r.Intn(100000)),
	}
	switch r.Intn(6) {
	case 0:
		d.xuid = hx.Pick(r, []string{"1", "281474976710655", "9223372036854775807", "2535405290981234", "-1", "-9223372036854775808"})
	default:
		d.xuid = strconv.FormatUint(1+r.U64()%(1<<52), 10)
	}
	if r.Chance(1, 6) {
		d.deviceOs = hx.Pick(r, []int32{-1, 16, 99, 2147483647, -2147483648, 15, 0})
	}
	if r.Chance(1, 8) {
		d.sub = hx.Pick(r, []int32{0, -1, 2147483647, -2147483648})
	}
	if r.Chance(1, 8) {
		d.ui, d.im = hx.Pick(r, []int32{-5, 7, 2147483647}), hx.Pick(r, []int32{-1, 9, -2147483648})
	}
	if r.Chance(1, 4) { // random printable-ish strings
		d.username = string(printable(r, 1+r.Intn(20)))
		d.verify = string(printable(r, 1+r.Intn(8)))
	}
	return d
}

func printable(r *hx.Rng, n int) []byte {
	b := make([]byte, n)
	for i := range b {
		b[i] = byte(0x20 + r.Intn(0x5f))
	}
	return b
}

// records outside gate's acceptance domain (or outside Floodgate's own well-formedness)
func spoilFg(r *hx.Rng, d fgData) fgData {
	switch r.Intn(9) {
	case 0:
		d.username = ""
	case 1:
		d.xuid = hx.Pick(r, []string{"", "0", "abc", "+5", "007", "12 ", "9223372036854775808", "-0", "1_000", "１２"})
	case 2:
		d.verify = ""
	case 3:
		d.username = "a\x00b"
	case 4:
		d.verify = "x\x00"
	case 5:
		d.ip = "\x00"
	case 6:
		d.xuid = "00"
	case 7:
		d.version = "\x00\x00"
	case 8:
		d.linked = "a\x00b\x00c"
	}
	return d
}

func fgTokens(d fgData) string {
	return fmt.Sprintf("%s %s %s %d %s %d %d %s %s %s %d %s", hx.HexS(d.version), hx.HexS(d.username), hx.HexS(d.xuid), d.deviceOs, hx.HexS(d.lang),
		d.ui, d.im, hx.HexS(d.ip), hx.HexS(d.linked), b01(d.proxy), d.sub, hx.HexS(d.verify))
}

type ctx struct {
	run *hx.Run
	key []byte
	fg  *floodgate.Floodgate
}

func newCtx(run *hx.Run, key []byte) *ctx {
	fg, err := floodgate.NewFloodgate(key)
	if err != nil {
		panic(err)
	}
	return &ctx{run, key, fg}
}

// direction (a): Floodgate-encoded → gate
func (c *ctx) caseFg(class, host string, iv []byte, d fgData) (hostname, implOut string) {
	hostname = host + "\x00" + fgEncrypt(c.key, iv, d.String())
	implOut = readHostname(c.fg, hostname)
	c.run.Case(class, fmt.Sprintf("fg %s %s %s %s %s", hx.HexS(host), hx.Hex(iv), fgTokens(d), hx.HexS(hostname), oracleFor(c.key, hostname)), implOut)
	return
}

// direction (b): a hostname that is not a genuine encoding under this key; orig = record line of the genuine one
func (c *ctx) caseRd(class, hostname, orig string) string {
	out := readHostname(c.fg, hostname)
	if strings.HasPrefix(out, "ok ") && class != "" {
		class += "-same" // accepted: must be the identical record (the verdict checks it)
	}
	o := "-"
	if orig != "" {
		o = strings.ReplaceAll(orig, " ", ",")
	}
	c.run.Case(class, fmt.Sprintf("rd %s %s %s", hx.HexS(hostname), oracleFor(c.key, hostname), o), out)
	return out
}

// direction (c): gate-written → Floodgate's decoder
func (c *ctx) caseWr(class, host string, d *floodgate.BedrockData) {
	out := hx.Guard(5*time.Second, func() string {
		hn, err := c.fg.WriteHostname(host, d)
		if err != nil {
			switch {
			case strings.Contains(err.Error(), "original hostname must not contain NUL"):
				return "werr host-nul"
			case strings.Contains(err.Error(), "fields must not contain NUL"):
				return "werr field-nul"
			}
			return "werr other"
		}
		h, f, ivLen, ec := fgRead(c.key, hn)
		if ec != "" {
			return "fgerr " + ec
		}
		return fmt.Sprintf("ok iv=%d host=%s %s", ivLen, hx.HexS(h), showFg(f))
	})
	c.run.Case(class, fmt.Sprintf("wr %s %s %s %d %d %s %d %d %s %s %s %s %s", hx.HexS(host), hx.HexS(d.Version), hx.HexS(d.Username), d.Xuid, d.DeviceOS.ID,
		hx.HexS(d.Language), d.UIProfile, d.InputMode, hx.HexS(d.IP), hx.HexS(d.LinkedPlayer), b01(d.Proxy), hx.HexS(d.SubscribeID), hx.HexS(d.VerifyCode)), out)
}

func genGate(r *hx.Rng) *floodgate.BedrockData {
	d := &floodgate.BedrockData{
		Version: hx.Pick(r, versions), Username: hx.Pick(r, usernames), Xuid: int64(1 + r.U64()%(1<<52)), DeviceOS: floodgate.DeviceOSFromID(r.Intn(16)),
		Language: hx.Pick(r, langs), UIProfile: r.Intn(2), InputMode: r.Intn(4), IP: hx.Pick(r, ips), LinkedPlayer: hx.Pick(r, linkeds), Proxy: r.Bool(),
		SubscribeID: strconv.Itoa(r.Intn(100000)), VerifyCode: hx.Pick(r, verifies),
	}
	if r.Chance(1, 6) {
		d.Xuid = hx.Pick(r, []int64{1, -1, 1<<63 - 1, -1 << 63, 0, 281474976710655})
	}
	if r.Chance(1, 8) {
		d.SubscribeID = hx.Pick(r, []string{"0", "-1", "2147483647", "-2147483648"})
	}
	if r.Chance(1, 8) {
		d.DeviceOS = floodgate.DeviceOS{ID: hx.Pick(r, []int{-1, 16, 2147483647, -2147483648}), Name: "x"}
	}
	return d
}

func spoilGate(r *hx.Rng, d *floodgate.BedrockData) {
	switch r.Intn(8) {
	case 0:
		d.VerifyCode = ""
	case 1:
		d.SubscribeID = hx.Pick(r, []string{"sub", "", "2147483648", "+7", "007", "1 "})
	case 2:
		d.VerifyCode, d.SubscribeID = "", ""
	case 3:
		d.Username = "a\x00b"
	case 4:
		d.DeviceOS = floodgate.DeviceOS{ID: 1 << 40}
	case 5:
		d.UIProfile = -1 << 40
	case 6:
		d.VerifyCode = "\x00"
	case 7:
		d.IP = "1.2.3.4\x00"
	}
}

// all/selected single-byte substitutions of a genuine hostname
func (c *ctx) substitutions(hostname, orig string, every bool) {
	r := c.run.Rng
	hlen := strings.IndexByte(hostname, 0)
	for pos := 0; pos < len(hostname); pos++ {
		structural := pos >= hlen && pos < hlen+1+len(fgHeader)+16+1+4 || pos >= len(hostname)-4
		var vals []int
		if every || structural {
			for v := 0; v < 256; v++ {
				vals = append(vals, v)
			}
		} else {
			vals = []int{r.Intn(256), r.Intn(256), int(hostname[pos]) ^ 1, '\n', '=', '!', ':', 0}
		}
		for _, v := range vals {
			if byte(v) == hostname[pos] {
				continue
			}
			b := []byte(hostname)
			b[pos] = byte(v)
			cl := "sub-data"
			if pos < hlen {
				cl = "sub-hostpart"
			}
			c.caseRd(cl, string(b), orig)
		}
	}
}

func (c *ctx) structural(hostname, orig string, other *ctx, d fgData, host string) {
	r := c.run.Rng
	hlen := strings.IndexByte(hostname, 0)
	data := hostname[hlen+1:]
	body := data[len(fgHeader):]
	bang := strings.IndexByte(body, '!')
	ivb, ctb := body[:bang], body[bang+1:]
	iv, _ := base64.StdEncoding.DecodeString(ivb)
	ct, _ := base64.StdEncoding.DecodeString(ctb)
	b64 := base64.StdEncoding.EncodeToString
	muts := []string{
		hostname + ":25565", hostname + ":", hostname + ":x:y", // port suffix (accepted, same record)
		host + "\x00" + fgHeader + ivb + "\n!" + ctb,           // CR/LF inside Base64 (accepted, same record)
		host + "\x00" + fgHeader + ivb[:4] + "\r\n" + ivb[4:] + "!" + ctb[:7] + "\n" + ctb[7:],
		hostname + "\x00", "\x00" + hostname, hostname + "\x00extra", host + "\x00\x00" + data, data, host, host + "\x00", "",
		host + "\x00" + fgHeader + ivb + "!!" + ctb, host + "\x00" + fgHeader + ivb + ctb, host + "\x00" + fgHeader + "!" + ivb + "!" + ctb,
		host + "\x00" + fgHeader + ctb + "!" + ivb,                                             // swapped
		host + "\x00" + "^Floodgate^?" + body, host + "\x00" + "^floodgate^>" + body, host + "\x00" + body, // header
		host + "\x00" + fgHeader + ivb + "!", host + "\x00" + fgHeader + ivb + "!" + b64(ct[:len(ct)-1]), host + "\x00" + fgHeader + ivb + "!" + b64(ct[:15]),
		host + "\x00" + fgHeader + ivb + "!" + b64(append(append([]byte{}, ct...), 0)),
		host + "\x00" + fgHeader + ivb + "!" + strings.TrimRight(ctb, "="),                     // padding stripped (Java accepts, Go not)
		host + "\x00" + fgHeader + ivb + "!" + ctb + "=", host + "\x00" + fgHeader + ivb + "!" + ctb + "AAAA",
		host + "\x00" + fgHeader + strings.ToLower(ivb) + "!" + ctb,
		host + "\x00" + data[:len(data)/2], host + "\x00" + data[:len(fgHeader)+16], host + "\x00" + data[:24], host + "\x00" + data[:13],
	}
	// IVs of other lengths (the stored witnesses of the nonce-length panic come first in main)
	for _, n := range []int{0, 1, 8, 9, 11, 13, 15, 16, 24} {
		niv := make([]byte, n)
		copy(niv, iv)
		muts = append(muts, host+"\x00"+fgHeader+b64(niv)+"!"+ctb, host+"\x00"+fgHeader+b64(niv)+"!")
	}
	// trailing unused Base64 bits changed (same decoded bytes)
	if strings.HasSuffix(ctb, "=") {
		k := strings.IndexByte(ctb, '=') - 1
		i := strings.IndexByte(b64abc, ctb[k])
		alt := ctb[:k] + string(b64abc[i^1]) + ctb[k+1:]
		muts = append(muts, host+"\x00"+fgHeader+ivb+"!"+alt)
	}
	for _, m := range muts {
		c.caseRd("struct", m, orig)
	}
	// genuine data of ANOTHER key, and this key's data read under the other key
	foreign := host + "\x00" + fgEncrypt(other.key, iv, d.String())
	c.caseRd("other-key", foreign, "")
	other.caseRd("other-key", hostname, "")
	// a valid encryption (this key) of a malformed record: must be a parse error, never a partial record
	for _, plain := range []string{strings.Join(strings.Split(d.String(), "\x00")[:11], "\x00"), d.String() + "\x00x", "", "\x00\x00\x00\x00\x00\x00\x00\x00\x00\x00\x00"} {
		niv := r.Bytes(12)
		c.caseRd("valid-ct-bad-record", host+"\x00"+fgEncrypt(c.key, niv, plain), "")
	}
}

// ---------- concurrent probe ----------

// splitBlob is the harness's own framing reader (independent of gate's Decrypt): header, first '!', Base64.
func splitBlob(enc []byte) (iv, ct []byte, ok bool) {
	if len(enc) < len(fgHeader) || string(enc[:len(fgHeader)]) != fgHeader {
		return nil, nil, false
	}
	body := enc[len(fgHeader):]
	i := bytes.IndexByte(body, '!')
	if i < 0 {
		return nil, nil, false
	}
	iv, e1 := base64.StdEncoding.DecodeString(string(body[:i]))
	ct, e2 := base64.StdEncoding.DecodeString(string(body[i+1:]))
	return iv, ct, e1 == nil && e2 == nil && len(iv) == 12
}

// concurrentProbe: G goroutines share ONE *Floodgate (as the proxy shares it between Bedrock connections); each
// Encrypts its own distinct plaintexts, keeps the returned slice without copying, yields, and opens it with the
// harness's own AES-GCM.  A blob that does not open to ITS plaintext, or two calls that return the same nonce,
// cannot occur on correct code whatever the schedule; each such event becomes a case line with a viol verdict.
func concurrentProbe(run *hx.Run, c *ctx) {
	const G = 8
	R := run.Scale(1500, 15000)
	mkPlain := func(g, j int) []byte {
		p := []byte(fmt.Sprintf("probe|g%02d|j%06d|", g, j))
		return append(p, bytes.Repeat([]byte{byte('a' + g)}, g*7+j%13)...)
	}
	// one sequential sample: the relation machinery on the real code, deterministic verdict
	if enc, err := c.fg.Encrypt(mkPlain(0, 0)); err == nil {
		run.Case("conc-sample", fmt.Sprintf("cenc %s %s", hx.Hex(mkPlain(0, 0)), oracleFor(c.key, string(enc))), "ok "+hx.Hex(enc))
	} else {
		run.Case("conc-sample", fmt.Sprintf("cenc %s _", hx.Hex(mkPlain(0, 0))), "err")
	}
	type failure struct {
		plain []byte
		out   string // "ok <hex>", "err", "panic"
		raw   string
	}
	type seen struct {
		iv  string
		enc string
	}
	var mu sync.Mutex
	var fails []failure
	nfail, npanic := 0, 0
	perG := make([][]seen, G)
	gcm := newGCM(c.key, 12)
	var wg sync.WaitGroup
	start := make(chan struct{})
	for g := 0; g < G; g++ {
		wg.Add(1)
		go func(g int) {
			defer wg.Done()
			<-start
			for j := 0; j < R; j++ {
				plain := mkPlain(g, j)
				var enc []byte
				var err error
				panicked := false
				func() {
					defer func() {
						if r := recover(); r != nil {
							panicked = true
						}
					}()
					enc, err = c.fg.Encrypt(plain)
				}()
				runtime.Gosched()
				good := false
				out := ""
				switch {
				case panicked:
					out = "panic"
				case err != nil:
					out = "err"
				default:
					iv, ct, ok := splitBlob(enc)
					if ok {
						perG[g] = append(perG[g], seen{string(iv), string(enc)})
						pt, e := gcm.Open(nil, iv, ct, nil)
						good = e == nil && bytes.Equal(pt, plain)
					}
					out = "ok " + hx.Hex(enc)
				}
				if !good {
					mu.Lock()
					nfail++
					if panicked {
						npanic++
					}
					if len(fails) < 6 {
						fails = append(fails, failure{plain, out, string(enc)})
					}
					mu.Unlock()
				}
			}
		}(g)
	}
	close(start)
	wg.Wait()
	// nonces of all produced blobs must be pairwise distinct
	first := map[string]string{}
	ndup := 0
	var dups [][2]string
	for g := 0; g < G; g++ {
		for _, s := range perG[g] {
			if prev, ok := first[s.iv]; ok {
				ndup++
				if len(dups) < 3 {
					dups = append(dups, [2]string{prev, s.enc})
				}
			} else {
				first[s.iv] = s.enc
			}
		}
	}
	for _, f := range fails {
		run.Case("conc-fail", fmt.Sprintf("cenc %s %s", hx.Hex(f.plain), oracleFor(c.key, f.raw)), f.out)
	}
	for _, d := range dups {
		run.Case("conc-dup", fmt.Sprintf("cnonce %s %s", hx.HexS(d[0]), hx.HexS(d[1])), "same-nonce")
	}
	run.Case("conc", fmt.Sprintf("csum %d %d %d", len(c.key), G, R), fmt.Sprintf("total=%d fail=%d dup=%d panic=%d", G*R, nfail-npanic, ndup, npanic))
}

func main() {
	run := hx.Start()
	r := run.Rng
	keys := [][]byte{bytes.Repeat([]byte{0x13}, 16), r.Bytes(24), r.Bytes(32), r.Bytes(16)}
	var cs []*ctx
	for _, k := range keys {
		cs = append(cs, newCtx(run, k))
	}
	run.Case("fact", "hdr", hx.HexS(floodgate.HEADER))

	// ---- fixed regression cases first: the nonce-length witnesses ----
	c0 := cs[0]
	d0 := fgData{"1.21.50", "Steve", "281474976710655", 2, "en_US", 1, 1, "127.0.0.1", "null", false, 7, "code"}
	iv0 := []byte("0123456789ab")
	hn0, orig0 := c0.caseFg("fixed", "play.example.org", iv0, d0)
	for _, n := range []int{9, 11, 13, 16, 0} {
		c0.caseRd("fixed-noncelen", "h\x00"+fgHeader+base64.StdEncoding.EncodeToString(make([]byte, n))+"!", "")
		c0.caseRd("fixed-noncelen", "h\x00"+fgHeader+base64.StdEncoding.EncodeToString(make([]byte, n))+"!"+base64.StdEncoding.EncodeToString(make([]byte, 32)), "")
	}
	c0.structural(hn0, orig0, cs[3], d0, "play.example.org")
	c0.substitutions(hn0, orig0, run.Thorough())

	// ---- library models: Base64, strconv, record parser ----
	nLib := run.Scale(1500, 30000)
	for i := 0; i < nLib; i++ {
		b := r.Bytes(r.Intn(20))
		run.Case("b64e", "b64e "+hx.Hex(b), "ok "+hx.HexS(base64.StdEncoding.EncodeToString(b)))
		s := base64.StdEncoding.EncodeToString(r.Bytes(r.Intn(12)))
		switch r.Intn(6) {
		case 0:
		case 1:
			s = strings.TrimRight(s, "=")
		case 2:
			if len(s) > 0 {
				p := r.Intn(len(s))
				s = s[:p] + string(hx.Pick(r, []byte{'\n', '\r', '=', '!', ' ', '-', '_', 'A', '/', 0})) + s[p:]
			}
		case 3:
			if len(s) > 0 {
				bb := []byte(s)
				bb[r.Intn(len(bb))] = byte(r.U64())
				s = string(bb)
			}
		case 4:
			s = s + hx.Pick(r, []string{"=", "==", "A", "AA", "AA=", "A=", "\n", "\r\n"})
		case 5:
			s = string(r.Bytes(r.Intn(9)))
		}
		out := "err"
		if dec, err := base64.StdEncoding.DecodeString(s); err == nil {
			out = "ok " + hx.Hex(dec)
		}
		run.Case("b64d", "b64d "+hx.HexS(s), out)

		var a string
		switch r.Intn(6) {
		case 0:
			a = hx.Pick(r, []string{"", "+", "-", "0", "-0", "+0", "007", "9223372036854775807", "9223372036854775808", "-9223372036854775808", "-9223372036854775809",
				"18446744073709551616", "1_000", "0x10", " 1", "1 ", "１", "1e3", "99999999999999999999999999", "+9223372036854775807", "--1", "+-1"})
		case 1:
			a = strconv.FormatInt(int64(r.U64()), 10)
		case 2:
			a = string(printable(r, r.Intn(4)))
		default:
			a = strconv.FormatInt(int64(r.U64()>>uint(r.Intn(64))), 10)
			if r.Chance(1, 4) {
				a = "+" + a
			}
		}
		v, err := strconv.ParseInt(a, 10, 64)
		v2, err2 := strconv.Atoi(a)
		out = "err"
		if err == nil {
			out = "ok " + strconv.FormatInt(v, 10)
		}
		if (err == nil) != (err2 == nil) || int64(v2) != v {
			out = "atoi-parseint-differ"
		}
		run.Case("atoi", "atoi "+hx.HexS(a), out)
		iv := int64(r.U64() >> uint(r.Intn(64)))
		if r.Bool() {
			iv = -iv
		}
		if r.Chance(1, 10) {
			iv = hx.Pick(r, []int64{0, 1, -1, 9, 10, 99, 100, 1<<63 - 1, -1 << 63, 1 << 31, -1 << 31})
		}
		run.Case("itoa", "itoa "+strconv.FormatInt(iv, 10), "ok "+hx.HexS(strconv.FormatInt(iv, 10)))
	}
	nRec := run.Scale(1500, 30000)
	for i := 0; i < nRec; i++ {
		d := genFg(r)
		if r.Chance(1, 2) {
			d = spoilFg(r, d)
		}
		plain := d.String()
		switch r.Intn(8) {
		case 0:
			plain = strings.Join(strings.Split(plain, "\x00")[:r.Intn(12)], "\x00")
		case 1:
			plain += "\x00" + string(printable(r, r.Intn(3)))
		case 2:
			bb := []byte(plain)
			if len(bb) > 0 {
				bb[r.Intn(len(bb))] = byte(r.U64())
			}
			plain = string(bb)
		}
		out := hx.Guard(5*time.Second, func() string {
			bd, err := floodgate.ReadBedrockData(plain)
			if err != nil {
				return "err " + rerrClass(err)
			}
			return "ok " + showData(bd)
		})
		run.Case("pbd", "pbd "+hx.HexS(plain), out)
	}

	// ---- direction (a) and (b): Floodgate-encoded data, all key sizes ----
	nFg := run.Scale(600, 12000)
	for i := 0; i < nFg; i++ {
		c := cs[i%len(cs)]
		d := genFg(r)
		class := "fg-valid"
		if r.Chance(1, 4) {
			d = spoilFg(r, d)
			class = "fg-outside-domain"
		}
		host := hx.Pick(r, hosts)
		if r.Chance(1, 12) {
			host = hx.Pick(r, []string{"", "a\x00b", "host:25565", "^Floodgate^>zz"})
			class = "fg-odd-host"
		}
		hn, out := c.caseFg(class, host, r.Bytes(12), d)
		if class != "fg-valid" || !strings.HasPrefix(out, "ok ") {
			continue
		}
		// mutations of a genuine hostname
		for k := 0; k < 6; k++ {
			b := []byte(hn)
			switch r.Intn(5) {
			case 0:
				b[r.Intn(len(b))] ^= byte(1 << uint(r.Intn(8)))
			case 1:
				b[r.Intn(len(b))] = byte(r.U64())
			case 2:
				p := r.Intn(len(b) + 1)
				b = append(b[:p:p], append([]byte{byte(r.U64())}, b[p:]...)...)
			case 3:
				p := r.Intn(len(b))
				b = append(b[:p:p], b[p+1:]...)
			case 4:
				b = b[:r.Intn(len(b))]
			}
			c.caseRd("mut", string(b), out)
		}
		if i%40 == 0 {
			c.structural(hn, out, cs[(i+1)%len(cs)], d, host)
		}
		if i%run.Scale(300, 600) == 7 {
			c.substitutions(hn, out, run.Thorough())
		}
	}
	// raw Decrypt on junk around the length / header / splitter checks
	nDec := run.Scale(600, 12000)
	for i := 0; i < nDec; i++ {
		c := cs[i%len(cs)]
		var data string
		switch r.Intn(4) {
		case 0:
			data = string(r.Bytes(r.Intn(40)))
		case 1:
			data = fgHeader + string(printable(r, r.Intn(40)))
		case 2:
			data = fgHeader + base64.StdEncoding.EncodeToString(r.Bytes(hx.Pick(r, []int{0, 3, 9, 11, 12, 12, 12, 13, 16}))) + "!" + base64.StdEncoding.EncodeToString(r.Bytes(r.Intn(40)))
		case 3:
			data = fgEncrypt(c.key, r.Bytes(12), string(printable(r, r.Intn(30))))
			if r.Bool() {
				data = data[:r.Intn(len(data))]
			}
		}
		out := hx.Guard(5*time.Second, func() string {
			p, err := c.fg.Decrypt([]byte(data))
			if err != nil {
				return "err " + strings.TrimPrefix(rerrClass(err), "decrypt-")
			}
			return "ok " + hx.Hex(p)
		})
		run.Case("dec", fmt.Sprintf("dec %s %s", hx.HexS(data), oracleFor(c.key, data)), out)
	}

	// ---- direction (c): gate-written → Floodgate's decoder ----
	nWr := run.Scale(1200, 20000)
	for i := 0; i < nWr; i++ {
		c := cs[i%len(cs)]
		d := genGate(r)
		class := "wr-valid"
		if r.Chance(1, 4) {
			spoilGate(r, d)
			class = "wr-outside-domain"
		}
		host := hx.Pick(r, hosts)
		if r.Chance(1, 15) {
			host = hx.Pick(r, []string{"", "a\x00b", "^Floodgate^>zzz", "h:1"})
			class = "wr-odd-host"
		}
		c.caseWr(class, host, d)
	}
	// ---- concurrent use of one shared Floodgate instance ----
	for _, c := range cs[:3] {
		concurrentProbe(run, c)
	}
	run.Finish()
}
