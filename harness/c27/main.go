// C27 correspondence harness: drives the real resource-pack handlers (pkg/edition/java/proxy/internal/resourcepack,
// reached through export_verif_c27.go) with sequences of queue / response / clear / remove operations for
// legacy (<1.17), 1.17–1.20.2 and 1.20.3+ clients, over a recording player, backend and event manager.
//
// Trace lines:
//
//	reset <protocol>                          new handler for a client of that protocol
//	q <seq> <id> <hash> <force> <proxy>       QueueResourcePack
//	r <status> <id> <hash>                    OnResourcePackResponse
//	c                                         ClearAppliedResourcePacks
//	x <id>                                    Remove
//	b <0|1>                                   the in-flight backend connection appears / disappears
//
// Output per op: `<ret> <P…/B… in write order> ev=<sorted events> k=<kicks> p=<pending seqs> a=<applied seqs>`
// with ret = ok:<0|1> | err | hang | panic.  Each op runs under a watchdog: a call that does not return is `hang`.
package main

import (
	"fmt"
	"sort"
	"strconv"
	"strings"
	"sync"
	"time"

	"github.com/robinbraemer/event"
	"go.minekube.com/common/minecraft/component"
	"go.minekube.com/gate/pkg/edition/java/proto/packet"
	"go.minekube.com/gate/pkg/edition/java/proto/state"
	"go.minekube.com/gate/pkg/edition/java/proxy"
	"go.minekube.com/gate/pkg/gate/proto"
	"go.minekube.com/gate/pkg/util/uuid"

	"verifharness/hx"
)

type recorder struct {
	mu     sync.Mutex
	sync_  []string
	events []string
	kicks  int
}

func (r *recorder) add(s string) { r.mu.Lock(); r.sync_ = append(r.sync_, s); r.mu.Unlock() }
func (r *recorder) take() (sy, ev []string, k int) {
	r.mu.Lock()
	defer r.mu.Unlock()
	sy, ev, k = r.sync_, r.events, r.kicks
	r.sync_, r.events, r.kicks = nil, nil, 0
	sort.Strings(ev)
	return
}

func idOf(n int) (u uuid.UUID) {
	if n != 0 {
		u[0], u[15] = 0xc2, byte(n)
	}
	return
}
func idTag(u uuid.UUID) int {
	if u == uuid.Nil {
		return 0
	}
	return int(u[15])
}
func hashOf(n int) []byte {
	if n == 0 {
		return nil
	}
	b := make([]byte, 20)
	for i := range b {
		b[i] = byte(n)
	}
	return b
}
func hashTag(b []byte) int {
	if len(b) == 0 {
		return 0
	}
	return int(b[0])
}
func seqOfURL(u string) string {
	i := strings.LastIndexByte(u, '/')
	if i < 0 || u == "" {
		return "_"
	}
	return u[i+1:]
}

type backendW struct{ rec *recorder }

func (b *backendW) WritePacket(p proto.Packet) error {
	if r, ok := p.(*packet.ResourcePackResponse); ok {
		b.rec.add(fmt.Sprintf("B%d:%d:%d", int(r.Status), idTag(r.ID), hashTag([]byte(r.Hash))))
	} else {
		b.rec.add(fmt.Sprintf("B?%T", p))
	}
	return nil
}
func (b *backendW) BufferPacket(p proto.Packet) error { return b.WritePacket(p) }
func (b *backendW) Write([]byte) error                { return nil }
func (b *backendW) BufferPayload([]byte) error        { return nil }
func (b *backendW) Flush() error                      { return nil }

type player struct {
	rec      *recorder
	protocol proto.Protocol
	mu       sync.Mutex
	backend  bool
	bw       *backendW
}

func (p *player) ID() uuid.UUID { return idOf(200) }
func (p *player) WritePacket(pk proto.Packet) error {
	if r, ok := pk.(*packet.ResourcePackRequest); ok {
		p.rec.add("P" + seqOfURL(r.URL))
	} else {
		p.rec.add(fmt.Sprintf("P?%T", pk))
	}
	return nil
}
func (p *player) BufferPacket(pk proto.Packet) error              { return p.WritePacket(pk) }
func (p *player) Write([]byte) error                              { return nil }
func (p *player) BufferPayload([]byte) error                      { return nil }
func (p *player) Flush() error                                    { return nil }
func (p *player) BundleHandler() *proxy.C27BundleDelimiterHandler { return nil }
func (p *player) State() *state.Registry                          { return state.Play }
func (p *player) Protocol() proto.Protocol                        { return p.protocol }
func (p *player) BackendInFlight() proto.PacketWriter {
	p.mu.Lock()
	defer p.mu.Unlock()
	if !p.backend {
		return nil
	}
	return p.bw
}
func (p *player) Disconnect(component.Component) {
	p.rec.mu.Lock()
	p.rec.kicks++
	p.rec.mu.Unlock()
}

type session struct {
	rec *recorder
	pl  *player
	mgr event.Manager
	h   proxy.C27Handler
}

func newSession(protocol int) *session {
	rec := &recorder{}
	pl := &player{rec: rec, protocol: proto.Protocol(protocol), bw: &backendW{rec: rec}}
	mgr := event.New()
	event.Subscribe(mgr, 0, func(e *proxy.C27StatusEvent) {
		info := e.PackInfo()
		rec.mu.Lock()
		rec.events = append(rec.events, fmt.Sprintf("E%d:%s", int(e.Status()), seqOfURL(info.URL)))
		rec.mu.Unlock()
	})
	return &session{rec: rec, pl: pl, mgr: mgr, h: proxy.C27NewHandler(pl, mgr)}
}

type op struct {
	kind               string
	seq, id, hash      int
	force, proxyOrigin bool
	status             int
	on                 bool
}

func (o op) line() string {
	b := func(x bool) string {
		if x {
			return "1"
		}
		return "0"
	}
	switch o.kind {
	case "q":
		return fmt.Sprintf("q %d %d %d %s %s", o.seq, o.id, o.hash, b(o.force), b(o.proxyOrigin))
	case "r":
		return fmt.Sprintf("r %d %d %d", o.status, o.id, o.hash)
	case "x":
		return fmt.Sprintf("x %d", o.id)
	case "b":
		return "b " + b(o.on)
	}
	return o.kind
}

// apply runs one op under the watchdog; dead reports that the handler must not be used any more.
func (s *session) apply(o op) (out string, dead bool) {
	res := hx.Guard(400*time.Millisecond, func() string {
		switch o.kind {
		case "q":
			origin := proxy.C27DownstreamServerOrigin
			if o.proxyOrigin {
				origin = proxy.C27PluginOnProxyOrigin
			}
			err := s.h.QueueResourcePack(&proxy.C27Info{ID: idOf(o.id), URL: "http://packs/" + strconv.Itoa(o.seq),
				Hash: hashOf(o.hash), ShouldForce: o.force, Origin: origin})
			if err != nil {
				return "err"
			}
			return "ok:0"
		case "r":
			handled, err := s.h.OnResourcePackResponse(&proxy.C27ResponseBundle{ID: idOf(o.id), Hash: hashOf(o.hash),
				Status: packet.ResponseStatus(o.status)})
			if err != nil {
				return "err"
			}
			if handled {
				return "ok:1"
			}
			return "ok:0"
		case "c":
			s.h.ClearAppliedResourcePacks()
			return "ok:0"
		case "x":
			if s.h.Remove(idOf(o.id)) {
				return "ok:1"
			}
			return "ok:0"
		case "b":
			s.pl.mu.Lock()
			s.pl.backend = o.on
			s.pl.mu.Unlock()
			return "ok:0"
		}
		return "bad"
	})
	snapshot := "p=? a=?"
	if res != "hang" {
		s.mgr.Wait()
		// a panic inside a locked section may leave the mutex held: read the snapshots under the watchdog too
		snapshot = hx.Guard(400*time.Millisecond, func() string {
			seqs := func(is []*proxy.C27Info) string {
				var xs []int
				for _, i := range is {
					if i != nil {
						n, _ := strconv.Atoi(seqOfURL(i.URL))
						xs = append(xs, n)
					}
				}
				sort.Ints(xs)
				if len(xs) == 0 {
					return "-"
				}
				ss := make([]string, len(xs))
				for i, x := range xs {
					ss[i] = strconv.Itoa(x)
				}
				return strings.Join(ss, ",")
			}
			return "p=" + seqs(s.h.PendingResourcePacks()) + " a=" + seqs(s.h.AppliedResourcePacks())
		})
		if snapshot == "hang" || snapshot == "panic" {
			dead = true
			snapshot = "p=? a=?"
		}
	} else {
		time.Sleep(20 * time.Millisecond) // let already fired events land
		dead = true
	}
	sy, ev, k := s.rec.take()
	j := func(xs []string) string {
		if len(xs) == 0 {
			return "-"
		}
		return strings.Join(xs, ",")
	}
	return fmt.Sprintf("%s %s ev=%s k=%d %s", res, j(sy), j(ev), k, snapshot), dead
}

// ---------------------------------------------------------------- generators

var protocols = []int{47, 340, 754 /*1.16.4*/, 755 /*1.17*/, 759, 763, 764 /*1.20.2*/, 765 /*1.20.3*/, 767, 770}

func isModern(p int) bool { return p >= 765 }

type gen struct {
	r    *hx.Rng
	next int
}

func (g *gen) queueOp(protocol int) op {
	g.next++
	o := op{kind: "q", seq: g.next, force: g.r.Chance(1, 3), proxyOrigin: g.r.Chance(1, 3)}
	if isModern(protocol) {
		o.id = 1 + g.r.Intn(3)
	} else if g.r.Bool() {
		o.id = 1 + g.r.Intn(2) // repeated non-nil ids: a queued pack may carry the id of the applied one
	}
	if g.r.Bool() {
		o.hash = 1 + g.r.Intn(5)
	}
	return o
}
func (g *gen) responseOp(protocol int) op {
	o := op{kind: "r"}
	switch g.r.Intn(10) {
	case 0, 1, 2:
		o.status = 3 // accepted
	case 3, 4:
		o.status = 0 // successful
	case 5, 6:
		o.status = 1 // declined
	case 7:
		o.status = 7 // discarded
	default:
		o.status = g.r.Intn(8)
	}
	if isModern(protocol) {
		o.id = 1 + g.r.Intn(3)
		if g.r.Chance(1, 10) {
			o.id = hx.Pick(g.r, []int{0, 4})
		}
	} else if g.r.Chance(1, 6) {
		o.id = 1 + g.r.Intn(3)
	}
	if g.r.Chance(1, 3) {
		o.hash = 1 + g.r.Intn(5)
	}
	return o
}
func (g *gen) sequence(protocol, n int) []op {
	ops := []op{}
	if g.r.Chance(2, 3) {
		ops = append(ops, op{kind: "b", on: true})
	}
	for len(ops) < n {
		switch x := g.r.Intn(20); {
		case x < 7:
			ops = append(ops, g.queueOp(protocol))
		case x < 16:
			ops = append(ops, g.responseOp(protocol))
		case x == 16 && g.r.Bool():
			// a pack gets applied, the same id is queued again and answered with an arbitrary status
			a := g.queueOp(protocol)
			if a.id == 0 {
				a.id = 1 + g.r.Intn(2)
			}
			b := g.queueOp(protocol)
			b.id = a.id
			fin := op{kind: "r", status: hx.Pick(g.r, []int{7, 7, 0, 1, 2, 5, 6}), id: hx.Pick(g.r, []int{0, a.id})}
			if isModern(protocol) {
				fin.id = a.id
			}
			acc := op{kind: "r", status: 0, id: fin.id}
			ops = append(ops, a, acc, b, fin)
		case x == 16:
			ops = append(ops, op{kind: "c"})
		case x == 17:
			ops = append(ops, op{kind: "x", id: 1 + g.r.Intn(3)})
		default:
			ops = append(ops, op{kind: "b", on: g.r.Bool()})
		}
	}
	return ops
}

func q(seq, id, hash int, force, px bool) op {
	return op{kind: "q", seq: seq, id: id, hash: hash, force: force, proxyOrigin: px}
}
func r(status, id, hash int) op { return op{kind: "r", status: status, id: id, hash: hash} }

type fixedSeq struct {
	protocol int
	ops      []op
}

func fixed() []fixedSeq {
	bOn := op{kind: "b", on: true}
	return []fixedSeq{
		// the 1-op witness: queueing a pack for a 1.16.4 client must return and prompt it
		{754, []op{q(1, 0, 1, false, false)}},
		{763, []op{q(1, 0, 1, false, false)}},
		{765, []op{q(1, 1, 1, false, false)}},
		// the first pack is prompted, not auto-declined; a later decline flushes the non-forced rest
		{754, []op{bOn, q(1, 0, 1, false, false), q(2, 0, 2, false, false), q(3, 0, 3, false, true), r(1, 0, 0)}},
		// 1.17+: after a decline, non-forced packs are auto-declined and the forced one is prompted exactly once
		{763, []op{bOn, q(1, 0, 1, false, false), q(2, 0, 2, false, false), q(3, 0, 3, true, false), q(4, 0, 4, false, false),
			r(1, 0, 0), r(3, 0, 0), r(0, 0, 0)}},
		// < 1.17: a forced pack is auto-declined too (and the player kicked)
		{340, []op{bOn, q(1, 0, 0, false, false), r(1, 0, 0), q(2, 0, 0, true, false), q(3, 0, 0, false, true)}},
		// accept / download / success flow, one prompt at a time, in order
		{759, []op{bOn, q(1, 0, 1, false, false), q(2, 0, 2, false, true), r(3, 0, 0), r(4, 0, 0), r(0, 0, 0), r(3, 0, 0), r(0, 0, 0)}},
		// a response nobody asked for: reported to the backend, no crash
		{754, []op{bOn, r(0, 0, 0), r(3, 0, 0), r(1, 0, 0)}},
		{764, []op{r(0, 0, 0)}},
		{767, []op{bOn, r(0, 2, 0)}},
		// remove on a legacy client is refused by design; clear works
		{754, []op{q(1, 0, 1, false, false), {kind: "x", id: 1}, r(3, 0, 0), r(0, 0, 0), {kind: "c"}}},
		// a pack id that is applied is queued again and then DISCARDED: the applied pack is forgotten, the call returns
		{754, []op{bOn, q(1, 1, 1, false, false), r(0, 0, 0), q(2, 1, 1, false, false), r(7, 0, 0), q(3, 2, 0, false, true), r(0, 0, 0)}},
		{764, []op{q(1, 1, 1, false, false), r(3, 0, 0), r(0, 0, 0), q(2, 1, 1, true, false), r(7, 1, 0), r(7, 0, 0)}},
		{340, []op{bOn, q(1, 2, 0, false, true), r(0, 0, 0), q(2, 3, 0, false, false), r(7, 0, 0), q(3, 2, 0, false, false), r(7, 0, 0)}},
		{767, []op{bOn, q(1, 1, 1, false, false), r(0, 1, 0), q(2, 1, 1, false, false), r(7, 1, 0), r(7, 1, 0)}},
		// every status against a queued pack, with and without an applied pack of the same id
		{763, []op{bOn, q(1, 1, 0, false, false), r(0, 0, 0), q(2, 1, 0, false, false), r(2, 0, 0), q(3, 1, 0, false, false), r(5, 0, 0),
			q(4, 1, 0, false, false), r(6, 0, 0), q(5, 1, 0, false, false), r(4, 0, 0), r(7, 0, 0)}},
		// modern: per id
		{765, []op{bOn, q(1, 1, 1, false, false), q(2, 2, 2, false, true), q(3, 1, 3, true, false), r(3, 1, 0), r(0, 1, 0),
			r(1, 2, 0), r(1, 1, 0), r(0, 1, 0), {kind: "x", id: 1}, {kind: "c"}}},
		{770, []op{bOn, q(1, 1, 0, false, false), q(2, 1, 0, false, false), q(3, 1, 0, false, false), r(0, 1, 0), r(0, 1, 0), r(0, 1, 0), r(0, 1, 0)}},
	}
}

func main() {
	run := hx.Start()
	defer run.Finish()
	g := &gen{r: run.Rng}
	hangs := 0

	play := func(class string, protocol int, ops []op) {
		run.Case("reset", "reset "+strconv.Itoa(protocol), "-")
		s := newSession(protocol)
		for _, o := range ops {
			out, dead := s.apply(o)
			run.Case(class+"-"+o.kind, o.line(), out)
			if dead {
				hangs++
				return
			}
		}
	}
	kind := func(p int) string {
		switch {
		case p >= 765:
			return "modern"
		case p >= 755:
			return "legacy117"
		}
		return "legacy"
	}
	for _, f := range fixed() {
		play("fixed-"+kind(f.protocol), f.protocol, f.ops)
	}
	n := run.Scale(400, 6000)
	for i := 0; i < n && hangs < 60; i++ {
		p := hx.Pick(run.Rng, protocols)
		g.next = 0
		play(kind(p), p, g.sequence(p, 4+run.Rng.Intn(36)))
	}
	run.Extra["hangs_or_dead_handlers"] = hangs
}
