package main

import (
	"bytes"
	"fmt"
	"os"
	"runtime"
	"time"

	"go.minekube.com/gate/pkg/edition/java/proto/packet/config"
	"go.minekube.com/gate/pkg/edition/java/proto/util"
	"go.minekube.com/gate/pkg/gate/proto"
)

func main() {
	var buf bytes.Buffer
	which := os.Args[1]
	switch which {
	case "outer":
		util.WriteVarInt(&buf, 2147483647)
	case "inner":
		util.WriteVarInt(&buf, 1)
		util.WriteString(&buf, "k")
		util.WriteVarInt(&buf, 2147483647)
	case "neg":
		util.WriteVarInt(&buf, -1)
	}
	var m0, m1 runtime.MemStats
	runtime.ReadMemStats(&m0)
	t0 := time.Now()
	p := &config.TagsUpdate{}
	err := util.RecoverFunc(func() error { return p.Decode(&proto.PacketContext{Protocol: 767}, bytes.NewReader(buf.Bytes())) })
	runtime.ReadMemStats(&m1)
	fmt.Println(which, "payload", buf.Len(), "err", err, "alloc", (m1.TotalAlloc-m0.TotalAlloc)>>20, "MiB", time.Since(t0))
}
