// C05 harness: every (registry, direction, protocol, packet id) of the REAL runtime registry is fed valid,
// mutated-valid, random and length-bomb packet bodies through the real decoder — `Packet.Decode` under
// util.RecoverFunc (as decodePayload does) and, framed, through the public `codec.Decoder.Decode` — under recover, a
// watchdog and allocation measurement.  The decoding runs in a CHILD process with an address-space limit, so that
// an unrecoverable runtime failure (out of memory, stack overflow) is an observed outcome (`crash`), not the end of
// the check.
package main

import (
	"bufio"
	"bytes"
	"errors"
	"fmt"
	"os"
	"os/exec"
	"runtime"
	"runtime/debug"
	"strconv"
	"strings"
	"sync"
	"sync/atomic"
	"syscall"
	"time"

	"github.com/go-logr/logr"

	"go.minekube.com/brigodier"
	"go.minekube.com/gate/pkg/edition/java/proto/codec"
	"go.minekube.com/gate/pkg/edition/java/proto/packet"
	"go.minekube.com/gate/pkg/edition/java/proto/util"
	"go.minekube.com/gate/pkg/gate/proto"

	"verifharness/c04/pk"
	"verifharness/hx"
)

const (
	// A case is a hang candidate when the decoding has used more than cpuBudget of PROCESS CPU TIME (the child decodes one
	// case at a time, so this is the decode's own CPU time; wall time says nothing on a loaded machine).  A candidate is
	// then re-run ALONE in a fresh child with confirmFactor times the budget; only a confirmed overrun is reported as
	// `hang`.  wallCap only catches code that blocks without using the CPU.
	cpuBudget     = 10 * time.Second
	confirmFactor = 20
	wallCap       = 30 * time.Minute
	addrLimit   = 6 << 30 // child address space limit
	propFactor  = 128     // allocation counted as "in proportion": ≤ propFactor·|payload| + propConst
	propConst   = 8 << 20
	maxFrameLen = codec.MaximumFrameLength
)

func ctxStr(e pk.Entry) string {
	return fmt.Sprintf("%s %d %d %d %d", e.Name, int(e.Proto), int(e.Dir), e.State, int(e.ID))
}

// ---------------------------------------------------------------------------------------------------------
// child: decodes one body per input line

func child() {
	budget := time.Duration(cpuBudget)
	if len(os.Args) > 2 {
		if f, err := strconv.Atoi(os.Args[2]); err == nil && f > 0 {
			budget *= time.Duration(f)
		}
	}
	_ = syscall.Setrlimit(syscall.RLIMIT_AS, &syscall.Rlimit{Cur: addrLimit, Max: addrLimit})
	debug.SetGCPercent(400)
	entries := pk.Enumerate()
	in := bufio.NewReaderSize(os.Stdin, 1<<22)
	out := bufio.NewWriter(os.Stdout)
	for {
		line, err := in.ReadString('\n')
		if line == "" && err != nil {
			return
		}
		f := strings.Fields(line)
		if len(f) >= 2 && f[0] == "C" {
			fmt.Fprintln(out, concurrentDecode(entries, f[1:]))
			out.Flush()
			continue
		}
		if len(f) != 2 {
			continue
		}
		idx, _ := strconv.Atoi(f[0])
		data := hx.UnHex(f[1])
		e := entries[idx]
		res := pk.GuardCPU(budget, wallCap, func() string { return decodeOne(e, data) })
		fmt.Fprintln(out, res)
		out.Flush()
		if res == "hang" {
			os.Exit(3) // the decoding goroutine cannot be stopped: the parent starts a fresh child
		}
	}
}

// concurrentDecode: every item `<entry>:<hex>` is decoded by concGoroutines goroutines at the same time, all released
// together — as many connections' read goroutines decode at once.  This is the first decode of
// each protocol in this (fresh) process, so any state a decoder initialises lazily and shares is initialised here, under
// contention.  The runtime turns unsynchronised map access into `fatal error: concurrent map …`, which kills the process.
const concGoroutines = 6

func concurrentDecode(entries []pk.Entry, items []string) string {
	type job struct {
		e    pk.Entry
		data []byte
	}
	var jobs []job
	for _, it := range items {
		k := strings.IndexByte(it, ':')
		if k < 0 {
			return "bad-item"
		}
		idx, _ := strconv.Atoi(it[:k])
		jobs = append(jobs, job{entries[idx], hx.UnHex(it[k+1:])})
	}
	start := make(chan struct{})
	var ready, bad atomic.Int64
	var wg sync.WaitGroup
	total := len(jobs) * concGoroutines
	for _, j := range jobs {
		for g := 0; g < concGoroutines; g++ {
			wg.Add(1)
			go func(j job) {
				defer wg.Done()
				ready.Add(1)
				<-start
				if _, left, err := j.e.Decode(j.data); err != nil || left != 0 {
					bad.Add(1)
				}
			}(j)
		}
	}
	for ready.Load() < int64(total) {
		runtime.Gosched()
	}
	close(start)
	wg.Wait()
	return fmt.Sprintf("ok decoded=%d rejected=%d", total, bad.Load())
}

func varint(n int) []byte {
	var b bytes.Buffer
	_ = util.WriteVarInt(&b, n)
	return b.Bytes()
}

func decodeOne(e pk.Entry, data []byte) string {
	// 1. the packet decoder itself, as decodePayload calls it (RecoverFunc around Decode on a bytes.Reader)
	p, left, derr := e.Decode(data)
	direct := "err"
	if derr == nil {
		direct = fmt.Sprintf("ok left=%d", left)
	}
	// 2. the public path: a framed stream through codec.Decoder
	payload := append(varint(int(e.ID)), data...)
	bucket := "prop"
	if len(payload) <= maxFrameLen {
		frame := append(varint(len(payload)), payload...)
		dec := codec.NewDecoder(bytes.NewReader(frame), e.Dir, logr.Discard())
		dec.SetProtocol(e.Proto)
		dec.SetState(pk.Registries[e.State])
		var m0, m1 runtime.MemStats
		runtime.ReadMemStats(&m0)
		ctx, err := dec.Decode()
		runtime.ReadMemStats(&m1)
		grown := int64(m1.TotalAlloc-m0.TotalAlloc) + int64(m1.StackInuse) - int64(m0.StackInuse)
		if grown > int64(propFactor*len(payload)+propConst) {
			bucket = fmt.Sprintf("big:%dMiB", grown>>20)
		}
		var framed string
		switch {
		case err == nil && ctx != nil && ctx.KnownPacket():
			framed = "ok left=0"
		case err != nil && errors.Is(err, proto.ErrDecoderLeftBytes):
			framed = "ok left>0"
		case err != nil:
			framed = "err"
		default:
			framed = "unknown-packet"
		}
		consistent := (direct == "err" && framed == "err") || (direct == "ok left=0" && framed == "ok left=0") ||
			(strings.HasPrefix(direct, "ok left=") && direct != "ok left=0" && framed == "ok left>0")
		if !consistent {
			return "incons direct=" + strings.ReplaceAll(direct, " ", "_") + " framed=" + strings.ReplaceAll(framed, " ", "_")
		}
	}
	res := direct + " alloc=" + bucket
	if derr == nil && pk.Class(e.Name) != "unmodelled" {
		if v, ok := pk.Extract(p, e); ok {
			res += " " + pk.Show(v)
		}
	}
	return res
}

// ---------------------------------------------------------------------------------------------------------
// parent

type proc struct {
	cmd    *exec.Cmd
	in     *bufio.Writer
	out    *bufio.Reader
	stderr *tailBuf
}

// tailBuf keeps the first 4 KiB a child wrote to stderr (the runtime's `fatal error: …` line comes first).
type tailBuf struct {
	mu sync.Mutex
	b  []byte
}

func (t *tailBuf) Write(p []byte) (int, error) {
	t.mu.Lock()
	if len(t.b) < 4096 {
		t.b = append(t.b, p[:min(len(p), 4096-len(t.b))]...)
	}
	t.mu.Unlock()
	return len(p), nil
}
func (t *tailBuf) String() string { t.mu.Lock(); defer t.mu.Unlock(); return string(t.b) }

func startChild(budgetFactor int) *proc {
	cmd := exec.Command(os.Args[0], "--child", strconv.Itoa(budgetFactor))
	cmd.Env = append(os.Environ(), "GOMEMLIMIT=4GiB")
	stdin, _ := cmd.StdinPipe()
	stdout, _ := cmd.StdoutPipe()
	errBuf := &tailBuf{}
	cmd.Stderr = errBuf
	if err := cmd.Start(); err != nil {
		panic(err)
	}
	return &proc{cmd: cmd, in: bufio.NewWriterSize(stdin, 1<<22), out: bufio.NewReaderSize(stdout, 1<<22), stderr: errBuf}
}

func (p *proc) kill() {
	_ = p.cmd.Process.Kill()
	_, _ = p.cmd.Process.Wait()
}

type tcase struct {
	idx   int
	class string
	data  []byte
	nomod bool
}

func main() {
	if len(os.Args) > 1 && os.Args[1] == "--child" {
		child()
		return
	}
	run := hx.Start()
	entries := pk.Enumerate()
	cases := buildCases(run, entries)

	// ask sends one case to a child and waits for its answer; the child's own watchdog (CPU time) decides about hangs,
	// the wall-clock wait here only covers a child that is itself stuck.
	ask := func(p *proc, c tcase) string {
		fmt.Fprintf(p.in, "%d %s\n", c.idx, hx.Hex(c.data))
		p.in.Flush()
		type rd struct {
			s   string
			err error
		}
		ch := make(chan rd, 1)
		go func() { s, err := p.out.ReadString('\n'); ch <- rd{s, err} }()
		select {
		case r := <-ch:
			res := strings.TrimSpace(r.s)
			if r.err != nil || res == "" {
				return "crash"
			}
			return res
		case <-time.After(wallCap + time.Minute):
			return "hang"
		}
	}
	p := startChild(1)
	crashes, hangs, hangCandidates := 0, 0, 0
	confirmedHang := map[string]bool{}
	classCount := map[string]int{}
	for _, c := range cases {
		e := entries[c.idx]
		res := ask(p, c)
		if res == "hang" && !confirmedHang[e.Name] {
			// candidate only: confirm it ALONE in a fresh child with confirmFactor times the CPU budget
			// (once a type has a confirmed hang, further overruns of that type are not re-confirmed: 200 s each)
			hangCandidates++
			p.kill()
			q := startChild(confirmFactor)
			res = ask(q, c)
			q.kill()
			p = startChild(1)
			if res == "hang" {
				confirmedHang[e.Name] = true
			}
		} else if res == "crash" {
			// a dead child can also be the machine's doing (memory pressure): it must die again, alone
			p.kill()
			q := startChild(1)
			res = ask(q, c)
			q.kill()
			p = startChild(1)
		}
		if res == "crash" || res == "hang" {
			if res == "crash" {
				crashes++
			} else {
				hangs++
			}
			p.kill()
			p = startChild(1)
		}
		op := "dec"
		if c.nomod {
			op = "decx"
		}
		classCount[c.class]++
		run.Case(pk.Class(e.Name)+"/"+c.class, op+" "+ctxStr(e)+" "+hx.Hex(c.data), res)
	}
	p.in.Flush()
	p.kill()
	concChildren, concDeaths := concurrentProbe(run, entries)
	run.Extra["concurrent_decode_children"] = concChildren
	run.Extra["concurrent_decode_deaths"] = concDeaths
	run.Extra["registered_rows"] = len(entries)
	run.Extra["cases_by_payload_class"] = classCount
	run.Extra["child_crashes"] = crashes
	run.Extra["child_hangs"] = hangs
	run.Extra["hang_candidates"] = hangCandidates
	run.Finish()
}

// ---------------------------------------------------------------------------------------------------------
// payload generation

var bombVarints = [][]byte{
	{0xff, 0xff, 0xff, 0xff, 0x07}, // 2^31-1
	{0xff, 0xff, 0xff, 0xff, 0x0f}, // -1
	{0x80, 0x80, 0x80, 0x80, 0x08}, // -2^31
	{0xff, 0xff, 0x7f},             // 2097151
	{0x80, 0x80, 0x40},             // 1048576
	{0xff, 0xff, 0x03},             // 65535
	{0x81, 0x80, 0x02},             // 32769
	{0xff, 0xff, 0xff, 0xff, 0xff}, // too long
	{0xff, 0x7f},                   // 16383
}

var countBombs = [][]byte{
	{0x80, 0x80, 0x80, 0x02},       // 4 194 304
	{0x80, 0x80, 0x80, 0x08},       // 16 777 216
	{0xff, 0xff, 0x7f},             // 2 097 151
	{0x80, 0x80, 0x10},             // 262 144
	{0x80, 0x80, 0x80, 0x80, 0x01}, // 268 435 456
}

func nbtNest(depth int, named bool) []byte {
	b := []byte{9} // root: TAG_List
	if named {
		b = append(b, 0, 0)
	}
	for i := 0; i < depth; i++ {
		b = append(b, 9, 0, 0, 0, 1) // list of 1 list
	}
	return append(b, 1, 0, 0, 0, 0) // list of 0 bytes
}

func nbtCompoundNest(depth int, named bool) []byte {
	b := []byte{10}
	if named {
		b = append(b, 0, 0)
	}
	for i := 0; i < depth; i++ {
		b = append(b, 10, 0, 0) // compound child with empty name
	}
	for i := 0; i <= depth; i++ {
		b = append(b, 0)
	}
	return b
}

func nbtBombs(named bool) [][]byte {
	hdr := func(t byte) []byte {
		if named {
			return []byte{t, 0, 0}
		}
		return []byte{t}
	}
	return [][]byte{
		append(hdr(7), 0x7f, 0xff, 0xff, 0xff),       // byte array of 2^31-1
		append(hdr(12), 0x7f, 0xff, 0xff, 0xff),      // long array of 2^31-1
		append(hdr(11), 0x7f, 0xff, 0xff, 0xff, 1),   // int array of 2^31-1
		append(hdr(9), 10, 0x7f, 0xff, 0xff, 0xff),   // list of 2^31-1 compounds
		append(hdr(9), 0, 0x7f, 0xff, 0xff, 0xff),    // list of 2^31-1 END
		append(hdr(8), 0xff, 0xff),                   // string of 65535 (negative as int16)
		append(hdr(8), 0x7f, 0xff),                   // string of 32767, nothing follows
		append(hdr(7), 0xff, 0xff, 0xff, 0xff, 1, 2), // negative byte array length
		append(hdr(10), 10, 0x7f, 0xff),              // compound child with a 32767-byte name
	}
}

// commandChain: AvailableCommands with n nodes where node i has the single child i+1 (the decoder's graph builder
// resolves one node per pass).
func commandChain(n int) []byte {
	var b bytes.Buffer
	_ = util.WriteVarInt(&b, n)
	for i := 0; i < n; i++ {
		if i == 0 {
			b.WriteByte(0) // root
		} else {
			b.WriteByte(1) // literal
		}
		if i+1 < n {
			_ = util.WriteVarInt(&b, 1)
			_ = util.WriteVarInt(&b, i+1)
		} else {
			_ = util.WriteVarInt(&b, 0)
		}
		if i != 0 {
			_ = util.WriteString(&b, "a")
		}
	}
	_ = util.WriteVarInt(&b, 0)
	return b.Bytes()
}

// regressions: concrete inputs that once broke the property.
var regressions = []struct {
	typ  string
	data []byte
}{
	// AvailableCommands: root [1,2]; literal "a" whose only child is itself; a second literal "a" whose only child is
	// itself; root index 0.  brigodier's Node.AddChild merges same-named children recursively: unbounded recursion,
	// `fatal error: stack overflow`.
	{"packet.AvailableCommands", []byte{3, 0x00, 2, 1, 2, 0x01, 1, 1, 1, 'a', 0x01, 1, 2, 1, 'a', 0}},
	// AvailableCommands: literal "a" -> [2], literal "a" -> [root, itself]: the graph builder spun forever
	{"packet.AvailableCommands", []byte{3, 0x00, 2, 1, 2, 0x01, 1, 2, 1, 'a', 0x01, 2, 0, 2, 1, 'a', 0}},
	// AvailableCommands, acyclic on the wire: root -> [literal "a", argument "a", argument "a"], argument "a" -> [literal "a"]:
	// merging the same-named siblings made the literal its own child, then recursed forever (stack overflow)
	{"packet.AvailableCommands", []byte{3, 0x04, 3, 1, 2, 2, 0x05, 0, 1, 'a', 0x06, 1, 1, 1, 'a', 0, 0}},
	// TagsUpdate: 2^31-1 tags claimed in 5 bytes (uncapped make(map, n))
	{"config.TagsUpdate", []byte{0xff, 0xff, 0xff, 0xff, 0x07}},
}

// wire-level command graphs (AvailableCommands bodies) -----------------------------------------------------

type wnode struct {
	flags    byte
	children []int
	redirect int
	name     string
	suggest  bool
}

func encodeGraph(nodes []wnode, root int, pv int) []byte {
	var b bytes.Buffer
	_ = util.WriteVarInt(&b, len(nodes))
	for _, n := range nodes {
		b.WriteByte(n.flags)
		_ = util.WriteVarInt(&b, len(n.children))
		for _, c := range n.children {
			_ = util.WriteVarInt(&b, c)
		}
		if n.flags&0x08 != 0 {
			_ = util.WriteVarInt(&b, n.redirect)
		}
		switch n.flags & 0x03 {
		case 1:
			_ = util.WriteString(&b, n.name)
		case 2:
			_ = util.WriteString(&b, n.name)
			if pv >= 759 { // 1.19+: numeric parser ids, 0 = brigadier:bool
				_ = util.WriteVarInt(&b, 0)
			} else {
				_ = util.WriteString(&b, "brigadier:bool")
			}
			if n.flags&0x10 != 0 {
				_ = util.WriteString(&b, "minecraft:ask_server")
			}
		}
	}
	_ = util.WriteVarInt(&b, root)
	return b.Bytes()
}

// smallGraphs: every graph of a root with children [1,2] and two literals whose child lists range over all subsets of
// {0,1,2} — self loops, mutual cycles, forward and backward references — with equal or different names.
func smallGraphs(pv int) [][]byte {
	var out [][]byte
	subsets := func(m int) []int {
		var cs []int
		for i := 0; i < 3; i++ {
			if m&(1<<i) != 0 {
				cs = append(cs, i)
			}
		}
		return cs
	}
	for _, names := range [][2]string{{"a", "a"}, {"a", "b"}} {
		for m1 := 0; m1 < 8; m1++ {
			for m2 := 0; m2 < 8; m2++ {
				out = append(out, encodeGraph([]wnode{
					{flags: 0, children: []int{1, 2}},
					{flags: 1, children: subsets(m1), name: names[0]},
					{flags: 1, children: subsets(m2), name: names[1]},
				}, 0, pv))
			}
		}
	}
	return out
}

// randomGraph: cycles, self loops, duplicate sibling names, forward references, redirects (also cyclic), several
// roots, out-of-range indices.
func randomGraph(r *hx.Rng, pv int) []byte {
	n := 1 + r.Intn(9)
	names := []string{"a", "a", "b", "tp", "teleport", "", "zzz"}
	idx := func(i int) int {
		switch r.Intn(10) {
		case 0:
			return i // self
		case 1:
			return i + 1 // forward (possibly out of range)
		case 2:
			return hx.Pick(r, []int{-1, n, n + 5, 1 << 20})
		default:
			return r.Intn(n)
		}
	}
	nodes := make([]wnode, n)
	for i := range nodes {
		typ := byte(1)
		switch {
		case i == 0 && !r.Chance(1, 8):
			typ = 0
		case r.Chance(1, 5):
			typ = 2
		case r.Chance(1, 12):
			typ = 0
		case r.Chance(1, 40):
			typ = 3
		}
		w := wnode{flags: typ, name: hx.Pick(r, names)}
		if r.Bool() {
			w.flags |= 0x04
		}
		if r.Chance(1, 4) {
			w.flags |= 0x08
			w.redirect = idx(i)
		}
		if typ == 2 && r.Chance(1, 3) {
			w.flags |= 0x10
		}
		if r.Chance(1, 8) {
			w.flags |= 0x20
		}
		for k, m := 0, r.Intn(4); k < m; k++ {
			w.children = append(w.children, idx(i))
		}
		if r.Chance(1, 10) && len(w.children) > 0 { // the same child twice
			w.children = append(w.children, w.children[0])
		}
		nodes[i] = w
	}
	root := 0
	if r.Chance(1, 6) {
		root = idx(0)
	}
	return encodeGraph(nodes, root, pv)
}

// redirectChain: n literals, literal i redirects to literal i+1 (a node can only be built after its redirect target).
func redirectChain(n int, pv int) []byte {
	nodes := make([]wnode, n)
	nodes[0] = wnode{flags: 0, children: []int{1}}
	for i := 1; i < n; i++ {
		nodes[i] = wnode{flags: 1, name: "a"}
		if i+1 < n {
			nodes[i].flags |= 0x08
			nodes[i].redirect = i + 1
		}
	}
	return encodeGraph(nodes, 0, pv)
}

func buildCases(run *hx.Run, entries []pk.Entry) []tcase {
	r := run.Rng
	var cases []tcase
	add := func(idx int, class string, data []byte) {
		cases = append(cases, tcase{idx: idx, class: class, data: data})
	}
	addX := func(idx int, class string, data []byte) {
		cases = append(cases, tcase{idx: idx, class: class, data: data, nomod: true})
	}
	// fixed regression cases first (witnesses of past defects): always run, on the first and last registered protocol
	for _, fx := range regressions {
		var first, last = -1, -1
		for idx, e := range entries {
			if e.Name == fx.typ {
				if first < 0 {
					first = idx
				}
				last = idx
			}
		}
		if first >= 0 {
			addX(first, "regression", fx.data)
			if last != first {
				addX(last, "regression", fx.data)
			}
		}
	}
	nValid := run.Scale(1, 3)
	nMut := run.Scale(5, 16)
	nRand := run.Scale(2, 8)
	nBomb := run.Scale(4, 12)
	bigDone := map[string]bool{}
	for idx, e := range entries {
		g := &pk.G{R: r, E: e}
		var valids [][]byte
		for k := 0; k < nValid+1 && len(valids) < nValid; k++ {
			enc, err := e.Encode(g.Packet())
			if err == nil {
				valids = append(valids, append([]byte(nil), enc...))
			}
		}
		for _, v := range valids {
			add(idx, "valid", v)
		}
		base := []byte{}
		if len(valids) > 0 {
			base = valids[0]
		}
		// mutated-valid
		for k := 0; k < nMut; k++ {
			src := base
			if len(valids) > 1 && r.Bool() {
				src = valids[r.Intn(len(valids))]
			}
			m := append([]byte(nil), src...)
			switch r.Intn(7) {
			case 0: // truncate
				if len(m) > 0 {
					m = m[:r.Intn(len(m))]
				}
			case 1: // drop the last byte
				if len(m) > 0 {
					m = m[:len(m)-1]
				}
			case 2: // flip a bit (biased to the front, where lengths and tags live)
				if len(m) > 0 {
					m[r.Intn(min(len(m), 1+r.Intn(24)))] ^= 1 << uint(r.Intn(8))
				}
			case 3: // overwrite a byte
				if len(m) > 0 {
					m[r.Intn(min(len(m), 1+r.Intn(24)))] = hx.Pick(r, []byte{0, 1, 0x7f, 0x80, 0xff})
				}
			case 4: // append junk
				m = append(m, r.Bytes(1+r.Intn(4))...)
			case 5: // insert a byte
				k := r.Intn(len(m) + 1)
				m = append(m[:k:k], append([]byte{byte(r.U64())}, m[k:]...)...)
			case 6: // splice a length bomb over a random position
				k := r.Intn(min(len(m), 24) + 1)
				m = append(m[:k:k], append(append([]byte(nil), hx.Pick(r, bombVarints)...), m[min(len(m), k+1):]...)...)
			}
			add(idx, "mutated", m)
		}
		// random
		for k := 0; k < nRand; k++ {
			add(idx, "random", r.Bytes(hx.Pick(r, []int{0, 1, 2, 3, 5, 8, 17, 40, 200})))
		}
		// length bombs right after the id and after the first field
		for k := 0; k < nBomb; k++ {
			b := append([]byte(nil), hx.Pick(r, bombVarints)...)
			switch r.Intn(4) {
			case 0:
			case 1:
				b = append(b, r.Bytes(r.Intn(6))...)
			case 2:
				b = append(append([]byte{byte(r.Intn(3))}, b...), r.Bytes(r.Intn(4))...)
			case 3:
				pre := base[:min(len(base), r.Intn(12))]
				b = append(append(append([]byte(nil), pre...), b...), hx.Pick(r, bombVarints)...)
			}
			add(idx, "bomb", b)
		}
		// every plausible element count right after the id (most count-prefixed packets start with their count): values
		// that `make` accepts but that are far beyond what the payload can back
		for _, cnt := range countBombs {
			add(idx, "count-bomb", cnt)
		}
		if len(base) > 1 {
			k := 1 + r.Intn(min(len(base)-1, 3))
			add(idx, "count-bomb", append(append([]byte(nil), base[:k]...), hx.Pick(r, countBombs)...))
		}
		// blob bombs for the types that read binary tags; once per (type, protocol class) to keep the volume down
		named := int(e.Proto) < 764
		if cl := pk.Class(e.Name); cl == "opaque" || e.Name == "packet.JoinGame" || e.Name == "packet.Respawn" {
			key := fmt.Sprintf("%s/%v/%v", e.Name, int(e.Proto) >= 765, named)
			if !bigDone[key] || r.Chance(1, 6) {
				bigDone[key] = true
				pre := base[:min(len(base), r.Intn(6))]
				for _, nb := range nbtBombs(named) {
					add(idx, "nbt-bomb", nb)
					add(idx, "nbt-bomb", append(append([]byte(nil), pre...), nb...))
				}
				add(idx, "nbt-deep", nbtNest(run.Scale(2000, 4000), named))
				add(idx, "nbt-deep", nbtCompoundNest(run.Scale(2000, 4000), named))
				addX(idx, "nbt-very-deep", nbtNest(run.Scale(60000, 400000), named))
				addX(idx, "nbt-very-deep", nbtCompoundNest(run.Scale(60000, 500000), named))
			}
		}
		if e.Name == "packet.AvailableCommands" {
			for k, m := 0, run.Scale(24, 120); k < m; k++ {
				addX(idx, "command-graph", randomGraph(r, int(e.Proto)))
			}
			if gk := fmt.Sprintf("graphs/%v", int(e.Proto) >= 759); !bigDone[gk] {
				bigDone[gk] = true
				for _, g := range smallGraphs(int(e.Proto)) {
					addX(idx, "command-graph-small", g)
				}
			}
			key := "cmd"
			if run.Thorough() {
				key = fmt.Sprintf("cmd/%d", int(e.Proto)/100)
			}
			if !bigDone[key] {
				bigDone[key] = true
				addX(idx, "command-chain", commandChain(run.Scale(60000, 100000)))
				addX(idx, "command-redirect-chain", redirectChain(run.Scale(60000, 100000), int(e.Proto)))
			}
		}
		// large bodies (raw remainder packets, strings): a few per run
		if !bigDone["large/"+e.Name] && (r.Chance(1, 3) || run.Thorough()) {
			bigDone["large/"+e.Name] = true
			n := run.Scale(70000, 2000000)
			addX(idx, "large", r.Bytes(n))
			if len(base) > 0 && len(base) < n {
				addX(idx, "large", append(append([]byte(nil), base...), r.Bytes(n-len(base))...))
			}
		}
	}
	return cases
}

// concurrentProbe: valid AvailableCommands bodies (generated trees with argument nodes) for every protocol the packet is
// registered for are decoded CONCURRENTLY in a fresh child — repeated for a number of children, because each process
// has only one "first decode" per protocol.  A child that dies with the runtime's `fatal error: concurrent map …` on
// stderr is a fact that cannot occur when decoders share no mutable state (independent of timing and machine load):
// `crash concurrent-map`.  Any other death is confirmed by a second fresh child before it is reported as `crash`.
func concurrentProbe(run *hx.Run, entries []pk.Entry) (children, deaths int) {
	var items []string
	for idx, e := range entries {
		if e.Name != "packet.AvailableCommands" {
			continue
		}
		g := &pk.G{R: run.Rng, E: e}
		for k := 0; k < 1; k++ {
			ac := g.Packet().(*packet.AvailableCommands)
			// plenty of argument nodes: every one looks its argument type up in the shared registry
			for i := 0; i < 24; i++ {
				ac.RootNode.AddChild(brigodier.Literal("q" + strconv.Itoa(i)).Then(brigodier.Argument("v", g.NumberArg())).Build())
			}
			enc, err := e.Encode(ac)
			if err != nil {
				continue
			}
			items = append(items, fmt.Sprintf("%d:%s", idx, hx.Hex(enc)))
		}
	}
	line := "C " + strings.Join(items, " ")
	n := run.Scale(20, 60)
	for c := 0; c < n; c++ {
		once := func() string {
			p := startChild(1)
			defer p.kill()
			fmt.Fprintln(p.in, line)
			p.in.Flush()
			ch := make(chan string, 1)
			go func() { s, _ := p.out.ReadString('\n'); ch <- strings.TrimSpace(s) }()
			var res string
			select {
			case res = <-ch:
			case <-time.After(wallCap):
				res = ""
			}
			if res != "" {
				return res
			}
			time.Sleep(50 * time.Millisecond) // let the stderr copier finish
			if strings.Contains(p.stderr.String(), "concurrent map") {
				return "crash concurrent-map"
			}
			return "crash"
		}
		res := once()
		if res == "crash" { // not the unmistakable runtime message: must die again
			if second := once(); !strings.HasPrefix(second, "crash") {
				res = second
			}
		}
		children++
		if strings.HasPrefix(res, "crash") {
			deaths++
		}
		run.Case("concurrent", fmt.Sprintf("conc %d %d %s", c, concGoroutines, strings.Join(items, ",")), res)
		if deaths >= 3 {
			break
		}
	}
	return
}
