// C41 correspondence harness: drives the real connectutil.ExtractSessionPrincipalWire on protobuf byte
// strings built from records with any field numbers, wire types, orders, repetitions, truncations.
package main

import (
	"errors"
	"fmt"
	"io"
	"strings"
	"time"

	"go.minekube.com/connect"
	"go.minekube.com/connect/bedrockprincipal"
	"go.minekube.com/gate/pkg/util/connectutil"
	"google.golang.org/protobuf/encoding/protowire"
	"google.golang.org/protobuf/proto"
	"google.golang.org/protobuf/reflect/protoreflect"

	"verifharness/hx"
)

// ---------- observing the implementation ----------

func errClass(err error) string {
	m := err.Error()
	switch {
	case strings.Contains(m, "unexpected wire type"):
		return "wiretype"
	case strings.Contains(m, "more than one signed principal envelope"):
		return "dup-envelope"
	case strings.Contains(m, "envelope has invalid size"):
		return "envelope-size"
	case strings.Contains(m, "nonce has invalid size"):
		return "nonce-size"
	case strings.Contains(m, "invalid session field encoding"):
		switch {
		case errors.Is(err, io.ErrUnexpectedEOF):
			return "enc-truncated"
		case strings.Contains(m, "invalid field number"):
			return "enc-fieldnumber"
		case strings.Contains(m, "overflow"):
			return "enc-overflow"
		case strings.Contains(m, "reserved wire type"):
			return "enc-reserved"
		case strings.Contains(m, "end group"):
			return "enc-endgroup"
		case strings.HasSuffix(m, "parse error"): // errCodeRecursionDepth has no message of its own (prefix "proto: " varies)
			return "enc-recursion"
		}
		return "enc-other"
	}
	return "other"
}

func extract(s *connect.Session) string {
	return hx.Guard(5*time.Second, func() string {
		w, err := connectutil.ExtractSessionPrincipalWire(s)
		if err != nil {
			if w != nil {
				return "err-with-value"
			}
			return "err " + errClass(err)
		}
		if w == nil {
			return "nil"
		}
		// HasEnvelope/IsBedrock are derived accessors; cross-check them here so that a change shows up
		if w.HasEnvelope() != (len(w.Envelope) > 0) || w.IsBedrock() != (w.Protocol == connectutil.SessionProtocolBedrock) {
			return "accessor-mismatch"
		}
		return fmt.Sprintf("ok p=%d e=%s o=%s n=%s s=%d r=%d v=%s", w.Protocol, hx.HexS(w.EndpointID), hx.HexS(w.OrganizationID),
			hx.Hex(w.ConnectSessionNonce[:]), w.SourceProtocolVersion, w.PolicyRevision, hx.Hex(w.Envelope))
	})
}

func runRaw(run *hx.Run, class string, raw []byte) {
	s := &connect.Session{Id: "sess-1"}
	s.ProtoReflect().SetUnknown(protoreflect.RawFields(append([]byte(nil), raw...)))
	run.Case(class, "raw "+hx.Hex(raw), extract(s))
}

func runMsg(run *hx.Run, class string, msg []byte) {
	s := new(connect.Session)
	out := hx.Guard(5*time.Second, func() string {
		if err := proto.Unmarshal(msg, s); err != nil {
			return "unmarshal-err"
		}
		return "unk=" + hx.Hex(s.ProtoReflect().GetUnknown()) + " " + extract(s)
	})
	run.Case(class, "msg "+hx.Hex(msg), out)
}

// ---------- building wire data ----------

// varint with `pad` extra continuation bytes (non-minimal encoding); pad is clipped so the result stays ≤ 10 bytes
// unless over is set (then it may exceed 10 bytes: overflow).
func varint(v uint64, pad int, over bool) []byte {
	b := protowire.AppendVarint(nil, v)
	if pad <= 0 {
		return b
	}
	if !over && len(b)+pad > 10 {
		pad = 10 - len(b)
	}
	if pad <= 0 {
		return b
	}
	b[len(b)-1] |= 0x80
	for i := 0; i < pad-1; i++ {
		b = append(b, 0x80)
	}
	return append(b, 0x00)
}

func tag(num uint64, typ int) []byte { return protowire.AppendVarint(nil, num<<3|uint64(typ&7)) }

func rec(num uint64, typ int, payload []byte) []byte { return append(tag(num, typ), payload...) }
func recVarint(num uint64, v uint64) []byte          { return rec(num, 0, protowire.AppendVarint(nil, v)) }
func recBytes(num uint64, b []byte) []byte {
	return rec(num, 2, append(protowire.AppendVarint(nil, uint64(len(b))), b...))
}
func recGroup(num uint64, body []byte) []byte { return append(rec(num, 3, body), tag(num, 4)...) }

var varintBoundaries = []uint64{0, 1, 2, 3, 127, 128, 255, 256, 16383, 16384, 1<<31 - 1, 1 << 31, 1<<31 + 2, 1<<32 - 1, 1 << 32, 1<<32 + 2,
	1<<63 - 1, 1 << 63, 1<<63 + 7, 1<<64 - 1, 1<<64 - 2}

func genVarintVal(r *hx.Rng) uint64 {
	switch r.Intn(4) {
	case 0:
		return hx.Pick(r, varintBoundaries)
	case 1:
		return uint64(r.Intn(8))
	default:
		return r.U64() >> uint(r.Intn(64))
	}
}

func genSmallBytes(r *hx.Rng) []byte {
	switch r.Intn(5) {
	case 0:
		return nil
	case 1:
		return r.Bytes(hx.Pick(r, []int{1, 15, 16, 17, 32, 127, 128, 129}))
	default:
		return r.Bytes(r.Intn(12))
	}
}

// a random record value of the given wire type for field num (well-formed)
func genValue(r *hx.Rng, num uint64, typ int, depth int) []byte {
	switch typ {
	case 0:
		return varint(genVarintVal(r), pick01(r, 6)*r.Intn(4), false)
	case 1:
		return r.Bytes(8)
	case 5:
		return r.Bytes(4)
	case 2:
		b := genSmallBytes(r)
		return append(varint(uint64(len(b)), pick01(r, 8)*r.Intn(3), false), b...)
	case 3:
		var body []byte
		n := r.Intn(3)
		for i := 0; i < n; i++ {
			body = append(body, genForeign(r, depth+1, true)...)
		}
		return append(body, tag(num, 4)...)
	}
	return nil
}

func pick01(r *hx.Rng, oneIn int) int {
	if r.Intn(oneIn) == 0 {
		return 1
	}
	return 0
}

var foreignNums = []uint64{5, 13, 14, 15, 5, 13, 14, 15, 16, 100, 2047, 2048, 18999, 19000, 19999, 20000, 1<<29 - 1}
var bigNums = []uint64{1 << 29, 1<<31 - 1}

// a well-formed record that is not a principal field at top level. inGroup allows principal numbers too
// (inside a group they must be skipped, never extracted).
func genForeign(r *hx.Rng, depth int, inGroup bool) []byte {
	num := hx.Pick(r, foreignNums)
	if inGroup && r.Chance(1, 2) {
		num = uint64(1 + r.Intn(15))
	}
	typ := hx.Pick(r, []int{0, 1, 2, 5, 3, 0, 2})
	if depth > 3 && typ == 3 {
		typ = 0
	}
	return append(tag(num, typ), genValue(r, num, typ, depth)...)
}

var nonce16 = []byte("0123456789abcdef")

type proposal struct {
	recs [][]byte // well-formed records, in order
}

func (p *proposal) bytes() []byte {
	var b []byte
	for _, x := range p.recs {
		b = append(b, x...)
	}
	return b
}

// structured, mostly valid proposal; `defect` selects an injected reject condition (or none)
func genProposal(r *hx.Rng, defect string) *proposal {
	p := &proposal{}
	add := func(b []byte) { p.recs = append(p.recs, b) }
	withEnv := r.Chance(2, 3)
	if defect != "" && defect != "wiretype" {
		withEnv = true
	}
	// scalars, possibly repeated (last wins)
	for _, num := range []uint64{6, 10, 11} {
		for k := r.Intn(3); k > 0; k-- {
			add(rec(num, 0, varint(genVarintVal(r), pick01(r, 6)*r.Intn(5), false)))
		}
	}
	for _, num := range []uint64{7, 8} {
		for k := r.Intn(3); k > 0; k-- {
			add(recBytes(num, genSmallBytes(r)))
		}
	}
	nonceLen := 16
	switch defect {
	case "nonce":
		nonceLen = hx.Pick(r, []int{0, 1, 15, 17, 32, -1})
	}
	if withEnv || r.Chance(1, 3) {
		if nonceLen >= 0 {
			if r.Chance(1, 4) { // an earlier nonce that must lose
				add(recBytes(9, r.Bytes(hx.Pick(r, []int{0, 5, 16, 20}))))
			}
			if !withEnv && r.Chance(1, 2) {
				nonceLen = hx.Pick(r, []int{0, 3, 16, 16, 17})
			}
			add(recBytes(9, r.Bytes(nonceLen)))
		}
	}
	if withEnv {
		envLen := 1 + r.Intn(40)
		if r.Chance(1, 12) {
			envLen = hx.Pick(r, []int{1, 16383, 16384})
		}
		switch defect {
		case "envsize":
			envLen = hx.Pick(r, []int{0, 0, 16385, 16386, 20000})
		}
		add(recBytes(12, r.Bytes(envLen)))
		if defect == "dup" {
			add(recBytes(12, r.Bytes(hx.Pick(r, []int{0, 1, 5, 16385}))))
		}
	}
	if defect == "wiretype" {
		num := uint64(6 + r.Intn(7))
		want := 0
		if num == 7 || num == 8 || num == 9 || num == 12 {
			want = 2
		}
		typ := hx.Pick(r, []int{0, 1, 2, 3, 5})
		for typ == want {
			typ = hx.Pick(r, []int{0, 1, 2, 3, 5})
		}
		add(append(tag(num, typ), genValue(r, num, typ, 0)...))
	}
	// foreign fields
	for k := r.Intn(4); k > 0; k-- {
		add(genForeign(r, 0, false))
	}
	// shuffle
	for i := len(p.recs) - 1; i > 0; i-- {
		j := r.Intn(i + 1)
		p.recs[i], p.recs[j] = p.recs[j], p.recs[i]
	}
	return p
}

// known fields 1..4 with VALID contents (the model treats their payload as opaque)
func genKnown(r *hx.Rng) []byte {
	switch r.Intn(4) {
	case 0:
		return recBytes(1, []byte(fmt.Sprintf("sess-%d", r.Intn(1000))))
	case 1:
		return recBytes(2, []byte("wss://tunnel.example/x"))
	case 2:
		b, _ := proto.Marshal(&connect.Player{Addr: "1.2.3.4:5", Profile: &connect.GameProfile{Id: "x", Name: "Steve"}})
		if r.Chance(1, 3) {
			b = nil
		}
		return recBytes(3, b)
	default:
		b, _ := proto.Marshal(&connect.Authentication{Passthrough: r.Bool()})
		return recBytes(4, b)
	}
}

// hostile byte-level mutation of a well-formed encoding
func mutate(r *hx.Rng, b []byte) []byte {
	b = append([]byte(nil), b...)
	switch r.Intn(6) {
	case 0: // truncate
		if len(b) > 0 {
			b = b[:r.Intn(len(b))]
		}
	case 1: // flip a byte
		if len(b) > 0 {
			b[r.Intn(len(b))] ^= byte(1 << uint(r.Intn(8)))
		}
	case 2: // overwrite a byte
		if len(b) > 0 {
			b[r.Intn(len(b))] = byte(r.U64())
		}
	case 3: // insert random bytes
		i := r.Intn(len(b) + 1)
		ins := r.Bytes(1 + r.Intn(3))
		b = append(b[:i:i], append(ins, b[i:]...)...)
	case 4: // delete a byte
		if len(b) > 0 {
			i := r.Intn(len(b))
			b = append(b[:i:i], b[i+1:]...)
		}
	case 5: // append a dangling tag / junk
		b = append(b, hx.Pick(r, [][]byte{{0x62}, {0x30}, {0x80}, {0x7c}, {0x00}, {0x07}, {0x06}, {0x62, 0x05, 0x01}, {0xff, 0xff, 0xff, 0xff, 0xff, 0xff, 0xff, 0xff, 0xff, 0x02}})...)
	}
	return b
}

func nested(num uint64, depth int, inner []byte) []byte {
	var b []byte
	for i := 0; i < depth; i++ {
		b = append(b, tag(num, 3)...)
	}
	b = append(b, inner...)
	for i := 0; i < depth; i++ {
		b = append(b, tag(num, 4)...)
	}
	return b
}

func cat(bs ...[]byte) []byte {
	var out []byte
	for _, b := range bs {
		out = append(out, b...)
	}
	return out
}

func main() {
	run := hx.Start()
	r := run.Rng

	// ---- dynamic facts the model assumes ----
	{
		fields := (&connect.Session{}).ProtoReflect().Descriptor().Fields()
		var known []string
		for n := 6; n <= 12; n++ {
			if fields.ByNumber(protoreflect.FieldNumber(n)) != nil {
				known = append(known, fmt.Sprint(n))
			}
		}
		out := "-"
		if len(known) > 0 {
			out = strings.Join(known, ",")
		}
		run.Case("fact", "desc", out)
		run.Case("fact", "const maxenv", fmt.Sprint(bedrockprincipal.MaxEnvelopeBytes))
		run.Case("fact", "const noncelen", fmt.Sprint(len(connectutil.SessionPrincipalWire{}.ConnectSessionNonce)))
		run.Case("fact", "nil", extract(nil))
	}

	// ---- fixed regression / boundary cases (always run) ----
	env := []byte("header.payload.signature")
	full := cat(recVarint(6, 2), recBytes(7, []byte("endpoint-1")), recBytes(8, []byte("org-1")), recBytes(9, nonce16),
		recVarint(10, 3), recVarint(11, 7), recBytes(12, env))
	fixed := [][]byte{
		nil,
		full,
		recVarint(6, 2),                       // protocol only
		cat(full, recBytes(12, env)),          // duplicate envelope
		cat(recBytes(12, env), recBytes(9, nonce16), recBytes(12, nil)), // second, empty envelope
		cat(recBytes(9, nonce16), recBytes(12, nil)),                    // empty envelope
		cat(recBytes(9, nonce16), recBytes(12, make([]byte, 16384))),    // max size: ok
		cat(recBytes(9, nonce16), recBytes(12, make([]byte, 16385))),    // oversized
		cat(recVarint(6, 2), recVarint(12, 1)),                          // envelope as varint
		cat(recVarint(6, 2), recBytes(12, env)),                         // envelope without nonce
		cat(recBytes(9, nonce16[:15]), recBytes(12, env)),               // short nonce
		cat(recBytes(9, append(append([]byte{}, nonce16...), 1)), recBytes(12, env)),
		cat(recBytes(9, nonce16[:3]), recBytes(9, nonce16), recBytes(12, env)), // last nonce wins: ok
		cat(recBytes(9, nonce16), recBytes(9, nonce16[:3]), recBytes(12, env)), // last nonce wins: bad
		recBytes(9, nonce16),                                                   // nonce only, no envelope
		recBytes(9, nonce16[:5]),                                               // odd nonce, no envelope
		recBytes(9, nil),                                                       // empty nonce only
		recBytes(7, nil),                                                       // empty endpoint: found
		cat(recVarint(6, 1), recVarint(6, 2), recVarint(6, 1<<32+2), recVarint(11, 1<<63), recVarint(10, 1<<31)),
		rec(6, 0, varint(2, 9, false)),  // 10-byte non-minimal varint
		rec(6, 0, varint(2, 10, true)),  // 11 bytes: overflow
		rec(6, 0, []byte{0xff, 0xff, 0xff, 0xff, 0xff, 0xff, 0xff, 0xff, 0xff, 0x01}),
		rec(6, 0, []byte{0xff, 0xff, 0xff, 0xff, 0xff, 0xff, 0xff, 0xff, 0xff, 0x02}),
		rec(6, 0, []byte{0x80, 0x80, 0x80, 0x80, 0x80, 0x80, 0x80, 0x80, 0x80, 0x81}),
		{0x30},                             // dangling tag
		{0x62, 0x05, 0x41},                 // truncated envelope
		{0x00},                             // field number 0
		{0x07},                             // field 0 type 7
		{0x80},                             // truncated tag
		cat(recVarint(6, 2), []byte{0x6e}), // field 13 reserved wire type 6
		cat(recVarint(6, 2), []byte{0x6f}), // field 13 reserved wire type 7
		{0x36}, {0x37}, {0x34}, {0x33}, {0x31}, {0x35}, // principal field 6 with types 6,7,4,3,1,5 and no value
		{0x6c},                                          // end group 13 at top level
		recGroup(13, recBytes(12, env)),                 // envelope hidden in a foreign group: not extracted
		cat(recGroup(13, recBytes(12, env)), recVarint(6, 2)),
		cat(tag(13, 3), recBytes(12, env)),              // unterminated group
		cat(tag(13, 3), tag(14, 4)),                     // mismatched end
		cat(tag(13, 3), tag(14, 3), tag(13, 4), tag(14, 4)),
		recGroup(12, nil),                               // envelope as group
		recGroup(6, nil),
		nested(13, 200, recVarint(6, 2)),
		cat(nested(15, 50, nil), recVarint(6, 2)),
		tag(1<<29-1, 0), cat(tag(1<<29-1, 0), []byte{1}), cat(tag(1<<29, 0), []byte{1}), cat(tag(1<<31-1, 0), []byte{1}),
		cat(protowire.AppendVarint(nil, uint64(1)<<34), []byte{1}),                  // number 2^31: invalid
		cat(protowire.AppendVarint(nil, uint64(1)<<63|0), []byte{1}),                // huge number
		cat(varint(6<<3, 3, false), []byte{2}),                                      // non-minimal tag for field 6
		cat(recBytes(5, []byte("x")), recVarint(5, 9), rec(5, 1, make([]byte, 8))), // field 5 is unknown to the descriptor
		cat(recVarint(1, 7), recVarint(2, 7), rec(3, 5, make([]byte, 4)), recVarint(4, 1)), // known numbers, wrong types
		cat(rec(12, 2, varint(3, 2, false)), []byte("JWS"), recBytes(9, nonce16)),          // non-minimal length prefix
		cat(rec(12, 2, []byte{0xff, 0xff, 0xff, 0xff, 0xff, 0xff, 0xff, 0xff, 0xff, 0x01})), // length 2^64-1
	}
	for _, b := range fixed {
		runRaw(run, "fixed", b)
		runMsg(run, "fixed-msg", b)
	}
	// every prefix of the full proposal and of a proposal with groups (truncations)
	withGroup := cat(recGroup(13, cat(recVarint(1, 5), recGroup(14, recBytes(2, []byte("ab"))))), full, rec(15, 1, make([]byte, 8)))
	for _, base := range [][]byte{full, withGroup} {
		for k := 0; k <= len(base); k++ {
			runRaw(run, "prefix", base[:k])
			if k%3 == 0 {
				runMsg(run, "prefix-msg", base[:k])
			}
		}
	}
	// every single-byte change of the tag/length bytes region of `full` is covered by the random stream; here: each
	// wire type × each principal number with a well-formed value
	for num := uint64(5); num <= 13; num++ {
		for typ := 0; typ <= 7; typ++ {
			var v []byte
			switch typ {
			case 0:
				v = []byte{0x05}
			case 1:
				v = make([]byte, 8)
			case 2:
				v = append([]byte{16}, nonce16...)
			case 3:
				v = tag(num, 4)
			case 5:
				v = make([]byte, 4)
			}
			runRaw(run, "typematrix", append(tag(num, typ), v...))
			runRaw(run, "typematrix", cat(recBytes(9, nonce16), recBytes(12, env), append(tag(num, typ), v...)))
		}
	}

	// ---- generated streams ----
	nStruct := run.Scale(2500, 40000)
	defects := []string{"", "", "", "", "wiretype", "dup", "envsize", "nonce"}
	for i := 0; i < nStruct; i++ {
		d := hx.Pick(r, defects)
		p := genProposal(r, d)
		b := p.bytes()
		cl := "struct-" + d
		if d == "" {
			cl = "struct-valid"
		}
		switch r.Intn(4) {
		case 0: // through proto.Unmarshal, with known fields interleaved
			recs := append([][]byte(nil), p.recs...)
			for k := 1 + r.Intn(3); k > 0; k-- {
				j := r.Intn(len(recs) + 1)
				recs = append(recs[:j:j], append([][]byte{genKnown(r)}, recs[j:]...)...)
			}
			runMsg(run, cl+"-msg", cat(recs...))
		case 1:
			runMsg(run, cl+"-msg", b)
		default:
			runRaw(run, cl, b)
		}
		if r.Chance(1, 3) { // hostile neighbour
			m := mutate(r, b)
			if r.Chance(1, 2) {
				m = mutate(r, m)
			}
			runRaw(run, "mutated", m)
		}
		if r.Chance(1, 10) { // truncation through Unmarshal
			if len(b) > 0 {
				runMsg(run, "truncated-msg", b[:r.Intn(len(b))])
			}
		}
	}
	// free-form: random records with any number 1..15 and any wire type 0..7, values sometimes missing
	nFree := run.Scale(2500, 40000)
	for i := 0; i < nFree; i++ {
		var b []byte
		for k := 1 + r.Intn(5); k > 0; k-- {
			num := uint64(1 + r.Intn(15))
			if r.Chance(1, 20) {
				num = hx.Pick(r, append(append([]uint64{0}, foreignNums...), bigNums...))
			}
			typ := r.Intn(8)
			if r.Chance(3, 5) { // bias towards the contract's wire type so that scans get past the first record
				typ = 0
				if num == 7 || num == 8 || num == 9 || num == 12 || num < 5 {
					typ = 2
				}
			}
			b = append(b, varint(num<<3|uint64(typ), pick01(r, 10)*r.Intn(3), false)...)
			if r.Chance(9, 10) {
				b = append(b, genValue(r, num, typ, 0)...)
			}
		}
		if r.Chance(1, 4) {
			b = mutate(r, b)
		}
		runRaw(run, "free", b)
	}
	// pure noise, short
	nNoise := run.Scale(1000, 20000)
	for i := 0; i < nNoise; i++ {
		runRaw(run, "noise", r.Bytes(r.Intn(10)))
	}
	// deep nesting (recursion in ConsumeFieldValue)
	// protowire.DefaultRecursionLimit = 10000: 10001 nested groups are the deepest accepted
	for _, d := range []int{1000, 10000, 10001, 10002, 10003, run.Scale(10500, 20000)} {
		runRaw(run, "deep", cat(nested(13, d, nil), recVarint(6, 2)))
		runRaw(run, "deep", nested(13, d, nil)[:2*d-1])
		runMsg(run, "deep-msg", cat(nested(13, d, nil), recVarint(6, 2)))
	}
	run.Finish()
}
