package main

import (
	"fmt"
	"net"
	"time"

	"go.minekube.com/gate/pkg/gate/proto"
	"verifharness/e2e"
)

func main() {
	for _, p := range []proto.Protocol{340, 47, 5, 765, 767, 774} {
		got := make(chan []byte, 10)
		b := &e2e.Backend{Name: "s1"}
		b.Accept = e2e.BackendScript(p, 64, func(ep *e2e.Endpoint) {
			ep.Pump(func(c *proto.PacketContext) {
				if c.Packet == nil {
					got <- c.Payload
				}
			})
		})
		rig, err := e2e.NewRig(nil, b)
		if err != nil {
			panic(err)
		}
		cl := rig.Connect(net.IPv4(1, 2, 3, 4))
		if err := e2e.ClientLogin(cl, p, "example.com", "Tester"); err != nil {
			fmt.Println(p, "login failed:", err)
			continue
		}
		cl.SendRaw([]byte{0x7d, 1, 2, 3})
		select {
		case x := <-got:
			fmt.Println(p, "relayed", x)
		case <-time.After(3 * time.Second):
			fmt.Println(p, "timeout")
		}
		cl.Conn.Close()
	}
}
