// C06 correspondence harness: observes the REAL packet registries of gate at run time
// (state.<State>.<Dir>.Protocols, ProtocolRegistry(p), PacketID, CreatePacket) for every registry,
// direction, protocol (all of version.Versions plus unknown numbers) and packet type, and the go-mc
// packet-id constants for protocol 764 as an independent artefact.
package main

import (
	"fmt"
	"reflect"
	"sort"
	"strconv"
	"strings"
	"time"

	"github.com/Tnze/go-mc/data/packetid"
	"go.minekube.com/gate/pkg/edition/java/proto/state"
	"go.minekube.com/gate/pkg/edition/java/proto/version"
	"go.minekube.com/gate/pkg/gate/proto"

	"verifharness/hx"
)

type regT struct {
	name string
	r    *state.Registry
}

var regs = []regT{{"Handshake", state.Handshake}, {"Status", state.Status}, {"Config", state.Config},
	{"Login", state.Login}, {"Play", state.Play}}

func dirReg(r *state.Registry, dir string) *state.PacketRegistry {
	if dir == "sb" {
		return r.ServerBound
	}
	return r.ClientBound
}

// go-mc's constants for protocol 764 (1.20.2), keyed by "<Registry> <dir> <gate type>".
var gomc = map[string]int{
	"Login cb packet.Disconnect":            int(packetid.ClientboundLoginDisconnect),
	"Login cb packet.EncryptionRequest":     int(packetid.ClientboundLoginEncryptionRequest),
	"Login cb packet.ServerLoginSuccess":    int(packetid.ClientboundLoginSuccess),
	"Login cb packet.SetCompression":        int(packetid.ClientboundLoginCompression),
	"Login cb packet.LoginPluginMessage":    int(packetid.ClientboundLoginPluginRequest),
	"Login sb packet.ServerLogin":           int(packetid.ServerboundLoginStart),
	"Login sb packet.EncryptionResponse":    int(packetid.ServerboundLoginEncryptionResponse),
	"Login sb packet.LoginPluginResponse":   int(packetid.ServerboundLoginPluginResponse),
	"Login sb packet.LoginAcknowledged":     int(packetid.ServerboundLoginAcknowledged),
	"Status cb packet.StatusResponse":       int(packetid.ClientboundStatusResponse),
	"Status cb packet.StatusPing":           int(packetid.ClientboundStatusPongResponse),
	"Status sb packet.StatusRequest":        int(packetid.ServerboundStatusRequest),
	"Status sb packet.StatusPing":           int(packetid.ServerboundStatusPingRequest),
	"Config cb plugin.Message":              int(packetid.ClientboundConfigCustomPayload),
	"Config cb packet.Disconnect":           int(packetid.ClientboundConfigDisconnect),
	"Config cb config.FinishedUpdate":       int(packetid.ClientboundConfigFinishConfiguration),
	"Config cb packet.KeepAlive":            int(packetid.ClientboundConfigKeepAlive),
	"Config cb packet.PingIdentify":         int(packetid.ClientboundConfigPing),
	"Config cb config.RegistrySync":         int(packetid.ClientboundConfigRegistryData),
	"Config cb packet.ResourcePackRequest":  int(packetid.ClientboundConfigResourcePack),
	"Config cb config.ActiveFeatures":       int(packetid.ClientboundConfigUpdateEnabledFeatures),
	"Config cb config.TagsUpdate":           int(packetid.ClientboundConfigUpdateTags),
	"Config sb packet.ClientSettings":       int(packetid.ServerboundConfigClientInformation),
	"Config sb plugin.Message":              int(packetid.ServerboundConfigCustomPayload),
	"Config sb config.FinishedUpdate":       int(packetid.ServerboundConfigFinishConfiguration),
	"Config sb packet.KeepAlive":            int(packetid.ServerboundConfigKeepAlive),
	"Config sb packet.PingIdentify":         int(packetid.ServerboundConfigPong),
	"Config sb packet.ResourcePackResponse": int(packetid.ServerboundConfigResourcePack),
	"Play cb packet.BundleDelimiter":        int(packetid.BundleDelimiter),
	"Play cb bossbar.BossBar":               int(packetid.ClientboundBossEvent),
	"Play cb title.Clear":                   int(packetid.ClientboundClearTitles),
	"Play cb packet.TabCompleteResponse":    int(packetid.ClientboundCommandSuggestions),
	"Play cb packet.AvailableCommands":      int(packetid.ClientboundCommands),
	"Play cb packet.PlayerChatCompletion":   int(packetid.ClientboundCustomChatCompletions),
	"Play cb plugin.Message":                int(packetid.ClientboundCustomPayload),
	"Play cb packet.Disconnect":             int(packetid.ClientboundDisconnect),
	"Play cb packet.KeepAlive":              int(packetid.ClientboundKeepAlive),
	"Play cb packet.JoinGame":               int(packetid.ClientboundLogin),
	"Play cb playerinfo.Remove":             int(packetid.ClientboundPlayerInfoRemove),
	"Play cb playerinfo.Upsert":             int(packetid.ClientboundPlayerInfoUpdate),
	"Play cb packet.ResourcePackRequest":    int(packetid.ClientboundResourcePack),
	"Play cb packet.Respawn":                int(packetid.ClientboundRespawn),
	"Play cb packet.ServerData":             int(packetid.ClientboundServerData),
	"Play cb title.Actionbar":               int(packetid.ClientboundSetActionBarText),
	"Play cb title.Subtitle":                int(packetid.ClientboundSetSubtitleText),
	"Play cb title.Text":                    int(packetid.ClientboundSetTitleText),
	"Play cb title.Times":                   int(packetid.ClientboundSetTitlesAnimation),
	"Play cb packet.SoundEntityPacket":      int(packetid.ClientboundSoundEntity),
	"Play cb config.StartUpdate":            int(packetid.ClientboundStartConfiguration),
	"Play cb packet.StopSoundPacket":        int(packetid.ClientboundStopSound),
	"Play cb chat.SystemChat":               int(packetid.ClientboundSystemChat),
	"Play cb packet.HeaderAndFooter":        int(packetid.ClientboundTabList),
	"Play sb chat.ChatAcknowledgement":      int(packetid.ServerboundChatAck),
	"Play sb chat.SessionPlayerCommand":     int(packetid.ServerboundChatCommand),
	"Play sb chat.SessionPlayerChat":        int(packetid.ServerboundChat),
	"Play sb packet.ClientSettings":         int(packetid.ServerboundClientInformation),
	"Play sb packet.TabCompleteRequest":     int(packetid.ServerboundCommandSuggestion),
	"Play sb config.FinishedUpdate":         int(packetid.ServerboundConfigurationAcknowledged),
	"Play sb plugin.Message":                int(packetid.ServerboundCustomPayload),
	"Play sb packet.KeepAlive":              int(packetid.ServerboundKeepAlive),
	"Play sb packet.ResourcePackResponse":   int(packetid.ServerboundResourcePack),
}

func main() {
	run := hx.Start()
	r := run.Rng

	// ---- version table
	var all []string
	for _, v := range version.Versions {
		all = append(all, strconv.Itoa(int(v.Protocol)))
	}
	run.Case("versions", "versions", fmt.Sprintf("all=%s min=%d max=%d", strings.Join(all, ","),
		version.MinimumVersion.Protocol, version.MaximumVersion.Protocol))

	// ---- every packet type registered anywhere, by reflect name
	types := map[string]reflect.Type{}
	for _, rg := range regs {
		for _, dir := range []string{"sb", "cb"} {
			for _, pr := range dirReg(rg.r, dir).Protocols {
				for t := range pr.PacketTypes {
					types[t.String()] = t
				}
			}
		}
	}
	var typeNames []string
	for n := range types {
		typeNames = append(typeNames, n)
	}
	sort.Strings(typeNames)
	run.Extra["packet_types"] = len(typeNames)

	// ---- protocols: every entry of version.Versions plus numbers the proxy does not know
	var known []int
	for _, v := range version.Versions {
		known = append(known, int(v.Protocol))
	}
	unknown := []int{0, 1, 2, 3, 6, 46, 48, 106, 109, 111, 401, 498, 578, 734, 752, 777, 778, 1000, 9999, -3, -100,
		1<<31 - 1, -(1 << 31)}
	isKnown := map[int]bool{}
	for _, k := range known {
		isKnown[k] = true
	}
	for i := 0; i < run.Scale(6, 40); i++ {
		var p int
		switch r.Intn(3) {
		case 0:
			p = r.Intn(800)
		case 1:
			p = -r.Intn(50)
		default:
			p = int(int32(r.U64()))
		}
		if !isKnown[p] {
			unknown = append(unknown, p)
		}
	}

	total, pairs := 0, 0
	for _, rg := range regs {
		for _, dir := range []string{"sb", "cb"} {
			pr := dirReg(rg.r, dir)
			tag := rg.name + " " + dir
			run.Case("flag", "flag "+tag, strconv.FormatBool(pr.Fallback))
			// protocol keys
			var keys []int
			for p := range pr.Protocols {
				keys = append(keys, int(p))
			}
			sort.Ints(keys)
			ks := make([]string, len(keys))
			for i, k := range keys {
				ks[i] = strconv.Itoa(k)
			}
			run.Case("keys", "keys "+tag, strings.Join(ks, ","))
			// full dump of both maps per protocol
			n := 0
			maxID := 0
			for _, k := range keys {
				reg := pr.Protocols[proto.Protocol(k)]
				type pair struct {
					id int
					ty string
				}
				var a, b []pair
				for id, t := range reg.PacketIDs {
					a = append(a, pair{int(id), t.String()})
					if int(id) > maxID {
						maxID = int(id)
					}
				}
				for t, id := range reg.PacketTypes {
					b = append(b, pair{int(id), t.String()})
				}
				sort.Slice(a, func(i, j int) bool { return a[i].id < a[j].id })
				sort.Slice(b, func(i, j int) bool { return b[i].ty < b[j].ty })
				var sa, sb []string
				for _, x := range a {
					sa = append(sa, fmt.Sprintf("%d:%s", x.id, x.ty))
				}
				for _, x := range b {
					sb = append(sb, fmt.Sprintf("%s:%d", x.ty, x.id))
				}
				n += len(a)
				run.Case("dump", fmt.Sprintf("dump %s %d", tag, k),
					fmt.Sprintf("proto=%d ids=%s types=%s", reg.Protocol, orDash(strings.Join(sa, ",")), orDash(strings.Join(sb, ","))))
			}
			run.Case("count", "count "+tag, strconv.Itoa(n))
			pairs += n
			// the public lookup path, known and unknown protocols
			protos := append(append([]int(nil), known...), unknown...)
			for _, p := range protos {
				class := "known"
				if !isKnown[p] || p < 0 {
					class = "unknown"
				}
				out := hx.Guard(5*time.Second, func() string {
					reg := pr.ProtocolRegistry(proto.Protocol(p))
					if reg == nil {
						return "nil"
					}
					return fmt.Sprintf("%d %d", reg.Protocol, len(reg.PacketIDs))
				})
				run.Case("reg/"+class, fmt.Sprintf("reg %s %d", tag, p), out)
				for _, tn := range typeNames {
					t := types[tn]
					out := hx.Guard(5*time.Second, func() string {
						reg := pr.ProtocolRegistry(proto.Protocol(p))
						pk := reflect.New(t).Interface().(proto.Packet)
						id, ok := reg.PacketID(pk) // nil registry ⇒ nil dereference, as any caller would get
						if !ok {
							return "none"
						}
						return strconv.Itoa(int(id))
					})
					run.Case("pid/"+class, fmt.Sprintf("pid %s %d %s", tag, p, tn), out)
					total++
				}
				for id := 0; id <= maxID+2; id++ {
					out := hx.Guard(5*time.Second, func() string {
						reg := pr.ProtocolRegistry(proto.Protocol(p))
						pk := reg.CreatePacket(proto.PacketID(id))
						if pk == nil {
							return "nil"
						}
						return reflect.TypeOf(pk).Elem().String()
					})
					run.Case("create/"+class, fmt.Sprintf("create %s %d %d", tag, p, id), out)
				}
			}
			// go-mc cross-check, protocol 764
			for _, tn := range typeNames {
				want, ok := gomc[tag+" "+tn]
				if !ok {
					continue
				}
				out := hx.Guard(5*time.Second, func() string {
					reg := pr.Protocols[proto.Protocol(764)]
					if reg == nil {
						return "nil"
					}
					id, ok := reg.PacketTypes[types[tn]]
					if !ok {
						return "none"
					}
					return strconv.Itoa(int(id))
				})
				run.Case("gomc", fmt.Sprintf("gomc %s %s %d", tag, tn, want), out)
			}
		}
	}
	run.Extra["registered_pairs"] = pairs
	run.Extra["pid_lookups"] = total
	run.Extra["gomc_constants"] = len(gomc)
	run.Finish()
}

func orDash(s string) string {
	if s == "" {
		return "-"
	}
	return s
}
