// C28 correspondence harness: drives the real 1.19.3+ tab list (pkg/internal/tablist via the
// verifexport shim) with API calls and backend player-info packets, records every packet handed to
// the viewer as structured data and the entries the proxy reports after every op.
//
// Backend packets are built, encoded with gate's encoder, decoded with gate's decoder (what the
// proxy does with a packet from the backend), given to ProcessUpdate/ProcessRemove and then
// "forwarded": the decoded packet is appended to the viewer's stream.
//
// Every op is an op line executed by exec(); fixed regression histories come first.
package main

import (
	"bytes"
	"encoding/binary"
	"fmt"
	"sort"
	"strconv"
	"strings"
	"time"

	"go.minekube.com/common/minecraft/component"
	"go.minekube.com/gate/pkg/edition/java/profile"
	"go.minekube.com/gate/pkg/edition/java/proto/packet/chat"
	"go.minekube.com/gate/pkg/edition/java/proto/packet/tablist/playerinfo"
	"go.minekube.com/gate/pkg/edition/java/proto/version"
	"go.minekube.com/gate/pkg/edition/java/proxy/crypto"
	apitl "go.minekube.com/gate/pkg/edition/java/proxy/tablist"
	"go.minekube.com/gate/pkg/gate/proto"
	"go.minekube.com/gate/pkg/util/uuid"
	vx "go.minekube.com/gate/pkg/verifexport"

	"verifharness/hx"
)

// ---------- canonical forms ----------

func uidOf(n uint64) uuid.UUID {
	var u uuid.UUID
	binary.BigEndian.PutUint64(u[8:], n)
	return u
}
func numOf(u uuid.UUID) string {
	if binary.BigEndian.Uint64(u[:8]) != 0 {
		return "999999999"
	}
	return strconv.FormatUint(binary.BigEndian.Uint64(u[8:]), 10)
}

var actNames = []struct {
	a playerinfo.UpsertAction
	n string
}{
	{playerinfo.AddPlayerAction, "add"}, {playerinfo.InitializeChatAction, "chat"},
	{playerinfo.UpdateGameModeAction, "gm"}, {playerinfo.UpdateListedAction, "li"},
	{playerinfo.UpdateLatencyAction, "lat"}, {playerinfo.UpdateDisplayNameAction, "dn"},
	{playerinfo.UpdateListOrderAction, "ord"}, {playerinfo.UpdateHatAction, "hat"},
}

func actName(a playerinfo.UpsertAction) string {
	for _, x := range actNames {
		if x.a == a {
			return x.n
		}
	}
	return "?"
}
func actByName(n string) playerinfo.UpsertAction {
	for _, x := range actNames {
		if x.n == n {
			return x.a
		}
	}
	panic("bad action " + n)
}

func b01(b bool) string {
	if b {
		return "1"
	}
	return "0"
}

func compTok(c component.Component) string {
	if c == nil {
		return "~"
	}
	if t, ok := c.(*component.Text); ok && t != nil && len(t.Extra) == 0 && t.Content != "" {
		return t.Content
	}
	return fmt.Sprintf("?%T", c)
}
func holderTok(h *chat.ComponentHolder) string {
	if h == nil {
		return "~"
	}
	c, err := h.AsComponent()
	if err != nil {
		return "?err"
	}
	return compTok(c)
}
func tokComp(t string) component.Component {
	if t == "~" || t == "_" {
		return nil
	}
	return &component.Text{Content: t}
}
func propsTok(ps []profile.Property) string {
	switch {
	case len(ps) == 0:
		return "-"
	case len(ps) == 1 && ps[0].Name == "textures" && ps[0].Signature == "" && ps[0].Value != "":
		return ps[0].Value
	}
	return "?props"
}
func tokProps(t string) []profile.Property {
	if t == "-" || t == "_" {
		return nil
	}
	return []profile.Property{{Name: "textures", Value: t}}
}
func nameTok(n string) string {
	if n == "" {
		return "?empty"
	}
	return n
}

func showList(sep string, xs []string) string {
	if len(xs) == 0 {
		return "-"
	}
	return strings.Join(xs, sep)
}

func showPacket(p proto.Packet) string {
	switch x := p.(type) {
	case *playerinfo.Upsert:
		has := func(n string) bool { return playerinfo.ContainsAction(x.ActionSet, actByName(n)) }
		f := func(n, s string) string {
			if has(n) {
				return s
			}
			return "_"
		}
		var as []string
		for _, a := range x.ActionSet {
			as = append(as, actName(a))
		}
		parts := []string{"U", showList(",", as)}
		for _, e := range x.Entries {
			if has("add") && e.Profile.ID != e.ProfileID {
				parts = append(parts, "?profile-id-differs")
				continue
			}
			parts = append(parts, strings.Join([]string{numOf(e.ProfileID), f("add", nameTok(e.Profile.Name)),
				f("add", propsTok(e.Profile.Properties)), f("li", b01(e.Listed)), f("lat", strconv.Itoa(e.Latency)),
				f("gm", strconv.Itoa(e.GameMode)), f("dn", holderTok(e.DisplayName)), f("hat", b01(e.ShowHat)),
				f("ord", strconv.Itoa(e.ListOrder))}, ":"))
			if has("chat") && e.RemoteChatSession != nil {
				parts = append(parts, "?chat-session")
			}
		}
		return strings.Join(parts, "/")
	case *playerinfo.Remove:
		var ids []string
		for _, id := range x.PlayersToRemove {
			ids = append(ids, numOf(id))
		}
		return "R/" + showList(",", ids)
	}
	return fmt.Sprintf("X/%T", p)
}

// ---------- the recording viewer ----------

type viewer struct {
	p    proto.Protocol
	pkts []string
}

func (v *viewer) WritePacket(p proto.Packet) error {
	v.pkts = append(v.pkts, showPacket(p))
	return nil
}
func (v *viewer) BufferPacket(p proto.Packet) error {
	v.pkts = append(v.pkts, showPacket(p))
	return nil
}
func (v *viewer) Flush() error                        { return nil }
func (v *viewer) Protocol() proto.Protocol            { return v.p }
func (v *viewer) IdentifiedKey() crypto.IdentifiedKey { return nil }

// ---------- the system under test ----------

type sut struct {
	v       *viewer
	tl      vx.C28InternalTabList
	handles map[int]*vx.C28Entry
}

var S *sut

func (s *sut) entries() string {
	m := s.tl.Entries()
	keys := make([]uuid.UUID, 0, len(m))
	for k := range m {
		keys = append(keys, k)
	}
	sort.Slice(keys, func(i, j int) bool { return bytes.Compare(keys[i][:], keys[j][:]) < 0 })
	var out []string
	for _, k := range keys {
		e := m[k]
		p := e.Profile()
		out = append(out, strings.Join([]string{numOf(k), numOf(p.ID), nameTok(p.Name), propsTok(p.Properties),
			compTok(e.DisplayName()), strconv.FormatInt(int64(e.Latency()), 10), strconv.Itoa(e.GameMode()),
			b01(e.Listed()), strconv.Itoa(e.ListOrder()), b01(e.ShowHat())}, ":"))
	}
	return showList(",", out)
}

func atoi(s string) int {
	v, err := strconv.ParseInt(s, 10, 64)
	if err != nil {
		panic("bad int " + s)
	}
	return int(v)
}

func errRes(err error) string {
	if err != nil {
		return "err"
	}
	return "ok"
}

func setField(e interface {
	SetDisplayName(component.Component) error
	SetLatency(time.Duration) error
	SetGameMode(int) error
	SetListed(bool) error
	SetListOrder(int) error
	SetShowHat(bool) error
}, f, v string) error {
	switch f {
	case "dn":
		return e.SetDisplayName(tokComp(v))
	case "lat":
		return e.SetLatency(time.Duration(atoi(v)))
	case "gm":
		return e.SetGameMode(atoi(v))
	case "li":
		return e.SetListed(v == "1")
	case "ord":
		return e.SetListOrder(atoi(v))
	case "hat":
		return e.SetShowHat(v == "1")
	}
	panic("bad field " + f)
}

func parseEntry(tok string) *playerinfo.Entry {
	p := strings.Split(tok, ":")
	if len(p) != 9 {
		panic("bad entry " + tok)
	}
	z := func(s string) string {
		if s == "_" {
			return "0"
		}
		return s
	}
	id := uidOf(uint64(atoi(p[0])))
	e := &playerinfo.Entry{ProfileID: id, Listed: p[3] == "1", Latency: atoi(z(p[4])), GameMode: atoi(z(p[5])),
		ShowHat: p[7] == "1", ListOrder: atoi(z(p[8]))}
	if p[1] != "_" {
		e.Profile = profile.GameProfile{ID: id, Name: p[1], Properties: tokProps(p[2])}
	}
	if c := tokComp(p[6]); c != nil {
		e.DisplayName = chat.FromComponentProtocol(c, S.v.p)
	}
	return e
}

// exec runs one op line against the real code and returns the canonical outcome.
func exec(line string) string {
	t := strings.Split(line, " ")
	op, args := t[0], t[1:]
	if op == "reset" {
		v := &viewer{p: proto.Protocol(atoi(args[0]))}
		S = &sut{v: v, tl: vx.C28New(v), handles: map[int]*vx.C28Entry{}}
		return "ok - -"
	}
	s := S
	s.v.pkts = nil
	res := hx.Guard(10*time.Second, func() string {
		switch op {
		case "new":
			h := atoi(args[0])
			if _, dup := s.handles[h]; dup {
				return "ok"
			}
			s.handles[h] = &vx.C28Entry{OwningTabList: s.tl, EntryAttributes: vx.C28EntryAttributes{
				Profile:     profile.GameProfile{ID: uidOf(uint64(atoi(args[1]))), Name: args[2], Properties: tokProps(args[3])},
				DisplayName: tokComp(args[4]), Latency: time.Duration(atoi(args[5])), GameMode: atoi(args[6]),
				Listed: args[7] == "1", ListOrder: atoi(args[8]), ShowsHat: args[9] == "1"}}
			return "ok"
		case "add":
			es := make([]tablistEntry, 0, len(args))
			for _, a := range args {
				es = append(es, s.handles[atoi(a)])
			}
			return errRes(s.tl.Add(es...))
		case "set":
			return errRes(setField(s.handles[atoi(args[0])], args[1], args[2]))
		case "setcur":
			e, ok := s.tl.Entries()[uidOf(uint64(atoi(args[0])))]
			if !ok {
				return "ok"
			}
			return errRes(setField(e, args[1], args[2]))
		case "rm":
			ids := make([]uuid.UUID, 0, len(args))
			for _, a := range args {
				ids = append(ids, uidOf(uint64(atoi(a))))
			}
			return errRes(s.tl.RemoveAll(ids...))
		case "bup":
			u := &playerinfo.Upsert{}
			if args[0] != "-" {
				for _, n := range strings.Split(args[0], ",") {
					u.ActionSet = append(u.ActionSet, actByName(n))
				}
			}
			for _, e := range args[1:] {
				u.Entries = append(u.Entries, parseEntry(e))
			}
			ctx := &proto.PacketContext{Direction: proto.ClientBound, Protocol: s.v.p}
			var buf bytes.Buffer
			if err := u.Encode(ctx, &buf); err != nil {
				return "encode-err"
			}
			dec := &playerinfo.Upsert{}
			if err := dec.Decode(ctx, &buf); err != nil || buf.Len() != 0 {
				return "decode-err"
			}
			r := errRes(s.tl.ProcessUpdate(dec))
			_ = s.v.WritePacket(dec) // forwardToPlayer: the packet reaches the client unchanged
			return r
		case "brm":
			rm := &playerinfo.Remove{}
			for _, a := range args {
				rm.PlayersToRemove = append(rm.PlayersToRemove, uidOf(uint64(atoi(a))))
			}
			ctx := &proto.PacketContext{Direction: proto.ClientBound, Protocol: s.v.p}
			var buf bytes.Buffer
			if err := rm.Encode(ctx, &buf); err != nil {
				return "encode-err"
			}
			dec := &playerinfo.Remove{}
			if err := dec.Decode(ctx, &buf); err != nil || buf.Len() != 0 {
				return "decode-err"
			}
			s.tl.ProcessRemove(dec)
			_ = s.v.WritePacket(dec)
			return "ok"
		}
		panic("bad op " + op)
	})
	pk := append([]string(nil), s.v.pkts...)
	if op == "rm" && len(args) == 0 && len(pk) == 1 && strings.HasPrefix(pk[0], "R/") && pk[0] != "R/-" {
		// ids collected by iterating a Go map: no defined order, canonical = sorted
		ids := strings.Split(pk[0][2:], ",")
		sort.Slice(ids, func(i, j int) bool { return atoi(ids[i]) < atoi(ids[j]) })
		pk[0] = "R/" + strings.Join(ids, ",")
	}
	return res + " " + showList(";", pk) + " " + s.entries()
}

// ---------- histories ----------

var run *hx.Run

func do(class, line string) string {
	out := exec(line)
	run.Case(class, line, out)
	return out
}

func history(class string, protoNum int, lines ...string) {
	do(class, "reset "+strconv.Itoa(protoNum))
	for _, l := range lines {
		do(class, l)
	}
}

var protos = []int{761, 762, 763, 764, 765, 766, 767, 768, 769, 770, 771, 772, 773, 774}

func regressions() {
	for _, p := range []int{761, 767, 768, 769, 774} {
		// DESIGN §11 row 16a: add returns a nil packet for an unchanged entry (same object added again)
		history("reg-readd-same-object", p,
			"new 1 1 alice - ~ 5000000 1 1 0 1", "add 1", "add 1", "set 1 lat 7000000", "add 1", "add 1 1")
		// an equal but distinct object: no packet, no crash
		history("reg-readd-equal-object", p,
			"new 1 1 alice - a1 5000000 1 1 0 1", "new 2 1 alice - a1 5000000 1 1 0 1", "add 1", "add 2", "add 1")
		// DESIGN §11 row 16b: backend UpdateHat
		history("reg-backend-hat", p,
			"bup add,chat,gm,li,lat,dn,hat 2:carl:p1:1:30:1:b1:0:_", "bup hat 2:_:_:_:_:_:_:1:_", "bup hat 2:_:_:_:_:_:_:0:_")
		// backend INITIALIZE_CHAT without a session, entry object re-added later (typed-nil chat session)
		history("reg-typed-nil-chat", p,
			"new 1 1 alice - ~ 0 0 1 0 1", "add 1", "bup chat,lat 1:_:_:_:9:_:_:_:_", "rm 1", "add 1",
			"new 2 1 alice - ~ 1000000 0 1 0 1", "add 2", "bup chat 1:_:_:_:_:_:_:_:_", "add 1")
		// a new API entry whose hat flag is false
		history("reg-new-entry-hat-false", p,
			"new 1 1 alice - ~ 0 0 1 0 0", "add 1", "new 2 2 bob - ~ 0 0 1 0 1", "add 2", "setcur 1 hat 1", "setcur 2 hat 0")
		// recorded: Add replaces an entry with a different profile (no ADD_PLAYER is sent)
		history("reg-profile-replaced", p,
			"new 1 1 alice - ~ 0 0 1 0 1", "add 1", "new 2 1 bob p1 ~ 0 0 1 0 1", "add 2", "setcur 1 lat 3000000", "rm 1",
			"add 2")
		// recorded: setter on a handle that is no longer the entry the list holds
		history("reg-stale-handle", p,
			"new 1 1 alice - ~ 1000000 0 1 0 1", "add 1", "new 2 1 alice - ~ 2000000 0 1 0 1", "add 2",
			"set 1 lat 9000000", "setcur 1 lat 4000000", "set 1 gm 3", "rm 1", "set 1 li 0", "set 2 li 0")
		// client-side corner cases: duplicates in one packet, add for an existing entry, update for an unknown one
		history("reg-backend-corners", p,
			"bup lat 3:_:_:_:5:_:_:_:_",
			"bup add,lat,li 3:carl:-:1:5:_:_:_:_ 3:dave:p1:0:6:_:_:_:_ 4:erin:-:1:7:_:_:_:_",
			"bup add,gm 3:zed:p2:_:_:7:_:_:_", "bup gm 3:_:_:_:_:-1:_:_:_", "bup li,add,add,lat 5:f:-:1:-1:_:_:_:_",
			"bup - 3:_:_:_:_:_:_:_:_", "bup add", "brm 4 9", "brm", "rm", "rm", "rm 7", "bup add 0:nil:-:_:_:_:_:_:_",
			"new 1 0 nil - ~ 0 0 0 0 0", "add 1", "set 1 lat 5", "set 1 ord 5", "setcur 0 lat 8000000", "rm 0")
		// API over backend entries and back
		history("reg-mixed", p,
			"bup add,lat,li,gm,dn 1:alice:-:1:10:2:b1:_:_", "new 1 1 alice - a1 10000000 2 1 0 1", "add 1",
			"bup lat,dn 1:_:_:_:20:_:~:_:_", "set 1 gm 1", "new 2 1 alice - ~ 20999999 1 0 3 0", "add 2",
			"set 2 ord -4", "set 2 hat 1", "setcur 1 ord 9", "brm 1", "set 2 lat 1", "add 2 1", "rm")
		// sub-millisecond and negative latencies, odd game modes
		history("reg-values", p,
			"new 1 1 a - ~ 1999999 -1 0 0 1", "add 1", "new 2 2 b - ~ -1999999 256 0 0 1", "add 2",
			"new 3 3 c - ~ -1 4 1 0 1", "add 3", "setcur 1 lat 999999", "setcur 1 gm 7", "setcur 2 gm -5",
			"setcur 3 lat -1000000", "new 4 3 c - ~ -999999 3 1 2147483647 1", "add 4", "new 5 3 c - ~ 0 0 1 -2147483648 1", "add 5")
	}
}

type tablistEntry = apitl.Entry

var latPool = []int64{0, 1, -1, 999999, 1000000, 1000001, 1500000, 1999999, -999999, -1000000, -1500000, 5000000, 42000000,
	150000000, 2147483647000000, -2147483648000000, 2147483647999999}
var gmPool = []int{-1, 0, 1, 2, 3, 4, 7, 256, -2, 2147483647, -2147483648}
var ordPool = []int{0, 1, -1, 5, 100, 2147483647, -2147483648}
var i32Pool = []int{0, 1, -1, 2, 127, 128, 300, 70000, 2147483647, -2147483648}

type gen struct {
	r       *hx.Rng
	p       int
	nextH   int
	hUID    map[int]int
	handles []int
}

func (g *gen) uid() int {
	if g.r.Chance(1, 40) {
		return 0
	}
	return 1 + g.r.Intn(5)
}
func (g *gen) lat() int64 {
	if g.r.Chance(2, 3) {
		return hx.Pick(g.r, latPool)
	}
	return int64(g.r.Intn(4000)) * 250000
}
func (g *gen) dn(prefix string) string {
	if g.r.Chance(1, 2) {
		return "~"
	}
	return prefix + strconv.Itoa(1+g.r.Intn(3))
}
func (g *gen) name(u int) string {
	if g.r.Chance(30, 31) {
		return "n" + strconv.Itoa(u)
	}
	return "m" + strconv.Itoa(u) + "x" + strconv.Itoa(g.r.Intn(2))
}
func (g *gen) props() string {
	if g.r.Chance(30, 31) {
		return "-"
	}
	return "p" + strconv.Itoa(1+g.r.Intn(2))
}
func (g *gen) field(prefix string) (string, string) {
	switch g.r.Intn(6) {
	case 0:
		return "dn", g.dn(prefix)
	case 1:
		return "lat", strconv.FormatInt(g.lat(), 10)
	case 2:
		return "gm", strconv.Itoa(hx.Pick(g.r, gmPool))
	case 3:
		return "li", b01(g.r.Bool())
	case 4:
		return "ord", strconv.Itoa(hx.Pick(g.r, ordPool))
	}
	return "hat", b01(g.r.Bool())
}

// stale reports, from the REAL state, whether handle h is not the object the list holds under its uuid.
func (g *gen) stale(h int) bool {
	e := S.handles[h]
	cur, ok := S.tl.Entries()[e.EntryAttributes.Profile.ID]
	return ok && cur != tablistEntry(e)
}

func (g *gen) op() (string, string) {
	r := g.r
	k := r.Intn(100)
	switch {
	case k < 14 || len(g.handles) == 0:
		h := g.nextH
		g.nextH++
		u := g.uid()
		g.hUID[h] = u
		g.handles = append(g.handles, h)
		return "new", fmt.Sprintf("new %d %d %s %s %s %d %d %s %d %s", h, u, g.name(u), g.props(), g.dn("a"), g.lat(),
			hx.Pick(r, gmPool), b01(r.Bool()), hx.Pick(r, ordPool), b01(r.Chance(2, 3)))
	case k < 34:
		n := 1
		if r.Chance(1, 4) {
			n = 2 + r.Intn(2)
		}
		var hs []string
		for i := 0; i < n; i++ {
			hs = append(hs, strconv.Itoa(hx.Pick(r, g.handles)))
		}
		return "add", "add " + strings.Join(hs, " ")
	case k < 46:
		h := hx.Pick(r, g.handles)
		for try := 0; try < 4 && g.stale(h) && !r.Chance(1, 8); try++ {
			h = hx.Pick(r, g.handles)
		}
		f, v := g.field("a")
		return "set", fmt.Sprintf("set %d %s %s", h, f, v)
	case k < 60:
		f, v := g.field("a")
		return "setcur", fmt.Sprintf("setcur %d %s %s", g.uid(), f, v)
	case k < 68:
		var ids []string
		switch r.Intn(4) {
		case 0: // all
		default:
			for i, n := 0, 1+r.Intn(2); i < n; i++ {
				ids = append(ids, strconv.Itoa(g.uid()))
			}
		}
		return "rm", strings.TrimSpace("rm " + strings.Join(ids, " "))
	case k < 90:
		return "bup", g.bup()
	default:
		var ids []string
		for i, n := 0, r.Intn(3); i < n; i++ {
			ids = append(ids, strconv.Itoa(g.uid()))
		}
		return "brm", strings.TrimSpace("brm " + strings.Join(ids, " "))
	}
}

func (g *gen) bup() string {
	r := g.r
	names := []string{"add", "chat", "gm", "li", "lat", "dn", "ord", "hat"}
	var acts []string
	for _, n := range names {
		if (n == "ord" && g.p < 768) || (n == "hat" && g.p < 769) {
			continue
		}
		pr := 3
		if n == "add" {
			pr = 5
		}
		if r.Chance(pr, 10) {
			acts = append(acts, n)
		}
	}
	// ActionSet order is arbitrary and may contain duplicates
	for i := len(acts) - 1; i > 0; i-- {
		j := r.Intn(i + 1)
		acts[i], acts[j] = acts[j], acts[i]
	}
	if len(acts) > 0 && r.Chance(1, 10) {
		acts = append(acts, hx.Pick(r, acts))
	}
	has := func(n string) bool {
		for _, a := range acts {
			if a == n {
				return true
			}
		}
		return false
	}
	f := func(n, s string) string {
		if has(n) {
			return s
		}
		return "_"
	}
	ne := 1
	switch r.Intn(6) {
	case 0:
		ne = 0
	case 1, 2:
		ne = 2 + r.Intn(2)
	}
	parts := []string{"bup", showList(",", acts)}
	prev := 0
	for i := 0; i < ne; i++ {
		u := g.uid()
		if i > 0 && r.Chance(1, 4) {
			u = prev // the same uuid twice in one packet
		}
		prev = u
		parts = append(parts, strings.Join([]string{strconv.Itoa(u), f("add", g.name(u)), f("add", g.props()),
			f("li", b01(r.Bool())), f("lat", strconv.Itoa(hx.Pick(r, i32Pool))), f("gm", strconv.Itoa(hx.Pick(r, gmPool))),
			f("dn", g.dn("b")), f("hat", b01(r.Bool())), f("ord", strconv.Itoa(hx.Pick(r, ordPool)))}, ":"))
	}
	return strings.Join(parts, " ")
}

func randomHistories() {
	nseq := run.Scale(260, 2500)
	for i := 0; i < nseq; i++ {
		p := hx.Pick(run.Rng, protos)
		if run.Rng.Chance(1, 3) {
			p = hx.Pick(run.Rng, []int{767, 768, 769})
		}
		g := &gen{r: run.Rng, p: p, hUID: map[int]int{}}
		do("reset", "reset "+strconv.Itoa(p))
		n := 10 + run.Rng.Intn(run.Scale(50, 90))
		for j := 0; j < n; j++ {
			class, line := g.op()
			do(class, line)
		}
	}
}

func main() {
	run = hx.Start()
	run.Extra["max_protocol"] = int(version.MaximumVersion.Protocol)
	regressions()
	randomHistories()
	run.Finish()
}
