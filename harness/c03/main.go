// C03 correspondence harness: drives the real util.Read*/Write* primitives.
package main

import (
	"bytes"
	"fmt"
	"io"
	"math"
	"strconv"
	"strings"
	"testing/iotest"
	"time"

	"go.minekube.com/common/minecraft/key"
	"go.minekube.com/gate/pkg/edition/java/profile"
	"go.minekube.com/gate/pkg/edition/java/proto/util"
	"go.minekube.com/gate/pkg/util/uuid"

	"verifharness/hx"
)

type plainReader struct{ r io.Reader }

func (p plainReader) Read(b []byte) (int, error) { return p.r.Read(b) }

func mkReader(kind string, b []byte) (io.Reader, func() int) {
	switch kind {
	case "r":
		r := bytes.NewReader(b)
		return r, r.Len
	case "b":
		r := bytes.NewBuffer(append([]byte(nil), b...))
		return r, r.Len
	case "p":
		r := bytes.NewReader(b)
		return plainReader{r}, r.Len
	default: // "o": delivers one byte per Read call
		r := bytes.NewReader(b)
		return iotest.OneByteReader(plainReader{r}), r.Len
	}
}

// prim describes one primitive for the harness.
type prim struct {
	name  string
	gen   func(r *hx.Rng) string                 // value in line-protocol form (may be several tokens)
	write func(w io.Writer, val []string) error  // parse val tokens and call the real writer
	read  func(rd io.Reader, extra []string) (string, error)
	ntok  int
}

func itoa(i int64) string { return strconv.FormatInt(i, 10) }

var intBoundaries = []int64{0, 1, -1, 2, 127, 128, 129, 255, 256, 16383, 16384, 2097151, 2097152, 268435455, 268435456,
	math.MaxInt8, math.MinInt8, math.MaxInt16, math.MinInt16, math.MaxInt32, math.MinInt32, math.MaxInt32 - 1, math.MinInt32 + 1}

func genInt(bits uint) func(r *hx.Rng) string {
	return func(r *hx.Rng) string {
		lo, hi := -(int64(1) << (bits - 1)), (int64(1)<<(bits-1))-1
		if r.Chance(1, 2) {
			for {
				v := hx.Pick(r, intBoundaries)
				if v >= lo && v <= hi {
					return itoa(v)
				}
			}
		}
		if bits == 64 {
			return itoa(int64(r.U64()))
		}
		// random magnitude
		sh := uint(r.Intn(int(bits)))
		v := int64(r.U64()>>(64-bits)) >> sh
		if bits < 64 {
			v = v<<(64-bits)>>(64-bits)
		}
		if r.Bool() {
			v = int64(r.U64()) % (hi + 1)
		}
		return itoa(v)
	}
}
func genUint(bits uint) func(r *hx.Rng) string {
	return func(r *hx.Rng) string {
		var v uint64
		switch r.Intn(4) {
		case 0:
			v = uint64(hx.Pick(r, []uint64{0, 1, 127, 128, 255, 256, 65535, 65536, 1<<32 - 1, 1 << 32, math.MaxUint64}))
		default:
			v = r.U64() >> uint(r.Intn(64))
		}
		if bits < 64 {
			v &= (1 << bits) - 1
		}
		return strconv.FormatUint(v, 10)
	}
}

func genBytes(r *hx.Rng, maxLen int) []byte {
	var n int
	switch r.Intn(6) {
	case 0:
		n = 0
	case 1:
		n = hx.Pick(r, []int{1, 2, 127, 128, 129, 255, 256, 257})
	case 2:
		n = r.Intn(maxLen + 1)
	default:
		n = r.Intn(24)
	}
	if n > maxLen {
		n = maxLen
	}
	return r.Bytes(n)
}

func showProps(ps []profile.Property) string {
	if len(ps) == 0 {
		return "_"
	}
	var sb []string
	for _, p := range ps {
		sb = append(sb, hx.HexS(p.Name)+","+hx.HexS(p.Value)+","+hx.HexS(p.Signature))
	}
	return strings.Join(sb, ";")
}
func parseProps(s string) []profile.Property {
	if s == "_" {
		return []profile.Property{}
	}
	var ps []profile.Property
	for _, e := range strings.Split(s, ";") {
		f := strings.Split(e, ",")
		ps = append(ps, profile.Property{Name: string(hx.UnHex(f[0])), Value: string(hx.UnHex(f[1])), Signature: string(hx.UnHex(f[2]))})
	}
	return ps
}
func showList(xs []string) string {
	if len(xs) == 0 {
		return "_"
	}
	return strings.Join(xs, ",")
}
func parseList(s string) []string {
	if s == "_" {
		return nil
	}
	return strings.Split(s, ",")
}

const keyChars = "abcxyz019_-."

func genKeyPart(r *hx.Rng, value bool) string {
	n := r.Intn(8)
	if r.Chance(1, 10) {
		n = 0
	}
	var sb strings.Builder
	for i := 0; i < n; i++ {
		switch {
		case r.Chance(1, 25):
			sb.WriteByte(hx.Pick(r, []byte{':', 'A', ' ', 0xc3, '/'}))
		case value && r.Chance(1, 6):
			sb.WriteByte('/')
		default:
			sb.WriteByte(keyChars[r.Intn(len(keyChars))])
		}
	}
	if r.Chance(1, 30) {
		return ".."
	}
	return sb.String()
}

func bytesPrim(name string, maxLen int, wr func(io.Writer, []byte) error, rd func(io.Reader) ([]byte, error)) prim {
	return prim{name: name, ntok: 1,
		gen:   func(r *hx.Rng) string { return hx.Hex(genBytes(r, maxLen)) },
		write: func(w io.Writer, v []string) error { return wr(w, hx.UnHex(v[0])) },
		read: func(r io.Reader, _ []string) (string, error) {
			b, err := rd(r)
			return hx.Hex(b), err
		}}
}

func prims() []prim {
	fixedU := func(name string, bits uint, wr func(io.Writer, uint64) error, rd func(io.Reader) (uint64, error)) prim {
		return prim{name: name, ntok: 1, gen: genUint(bits),
			write: func(w io.Writer, v []string) error { u, _ := strconv.ParseUint(v[0], 10, 64); return wr(w, u) },
			read: func(r io.Reader, _ []string) (string, error) {
				u, err := rd(r)
				return strconv.FormatUint(u, 10), err
			}}
	}
	fixedI := func(name string, bits uint, wr func(io.Writer, int64) error, rd func(io.Reader) (int64, error)) prim {
		return prim{name: name, ntok: 1, gen: genInt(bits),
			write: func(w io.Writer, v []string) error { u, _ := strconv.ParseInt(v[0], 10, 64); return wr(w, u) },
			read: func(r io.Reader, _ []string) (string, error) {
				u, err := rd(r)
				return itoa(u), err
			}}
	}
	return []prim{
		fixedI("varint", 32, func(w io.Writer, v int64) error { return util.WriteVarInt(w, int(v)) },
			func(r io.Reader) (int64, error) { v, err := util.ReadVarInt(r); return int64(v), err }),
		fixedU("u8", 8, func(w io.Writer, v uint64) error { return util.WriteUint8(w, uint8(v)) },
			func(r io.Reader) (uint64, error) { v, err := util.ReadUint8(r); return uint64(v), err }),
		fixedU("u16", 16, func(w io.Writer, v uint64) error { return util.WriteUint16(w, uint16(v)) },
			func(r io.Reader) (uint64, error) { v, err := util.ReadUint16(r); return uint64(v), err }),
		fixedU("u32", 32, func(w io.Writer, v uint64) error { return util.WriteUint32(w, uint32(v)) },
			func(r io.Reader) (uint64, error) { v, err := util.ReadUint32(r); return uint64(v), err }),
		fixedU("u64", 64, func(w io.Writer, v uint64) error { return util.WriteUint64(w, v) },
			func(r io.Reader) (uint64, error) { return util.ReadUint64(r) }),
		// float32/64 are compared as bit patterns: write Float32frombits(v), read back Float32bits
		fixedU("u32", 32, func(w io.Writer, v uint64) error { return util.WriteFloat32(w, math.Float32frombits(uint32(v))) },
			func(r io.Reader) (uint64, error) { v, err := util.ReadFloat32(r); return uint64(math.Float32bits(v)), err }),
		fixedU("u64", 64, func(w io.Writer, v uint64) error { return util.WriteFloat64(w, math.Float64frombits(v)) },
			func(r io.Reader) (uint64, error) { v, err := util.ReadFloat64(r); return math.Float64bits(v), err }),
		fixedI("i8", 8, func(w io.Writer, v int64) error { return util.WriteInt8(w, int8(v)) },
			func(r io.Reader) (int64, error) { v, err := util.ReadInt8(r); return int64(v), err }),
		fixedI("i16", 16, func(w io.Writer, v int64) error { return util.WriteInt16(w, int16(v)) },
			func(r io.Reader) (int64, error) { v, err := util.ReadInt16(r); return int64(v), err }),
		fixedI("i32", 32, func(w io.Writer, v int64) error { return util.WriteInt32(w, int32(v)) },
			func(r io.Reader) (int64, error) { v, err := util.ReadInt32(r); return int64(v), err }),
		fixedI("i32", 32, func(w io.Writer, v int64) error { return util.WriteInt(w, int(v)) },
			func(r io.Reader) (int64, error) { v, err := util.ReadInt(r); return int64(v), err }),
		fixedI("i64", 64, func(w io.Writer, v int64) error { return util.WriteInt64(w, v) },
			func(r io.Reader) (int64, error) { return util.ReadInt64(r) }),
		fixedI("i64", 64, func(w io.Writer, v int64) error { return util.WriteInt64(w, v) },
			func(r io.Reader) (int64, error) { t, err := util.ReadUnixMilli(r); return t.UnixMilli(), err }),
		{name: "bool", ntok: 1, gen: func(r *hx.Rng) string { return strconv.Itoa(r.Intn(2)) },
			write: func(w io.Writer, v []string) error { return util.WriteBool(w, v[0] == "1") },
			read: func(r io.Reader, _ []string) (string, error) {
				b, err := util.ReadBool(r)
				if b {
					return "1", err
				}
				return "0", err
			}},
		{name: "uuid", ntok: 1, gen: func(r *hx.Rng) string { return hx.Hex(r.Bytes(16)) },
			write: func(w io.Writer, v []string) error { var u uuid.UUID; copy(u[:], hx.UnHex(v[0])); return util.WriteUUID(w, u) },
			read: func(r io.Reader, _ []string) (string, error) { u, err := util.ReadUUID(r); return hx.Hex(u[:]), err }},
		{name: "uuidints", ntok: 1, gen: func(r *hx.Rng) string { return hx.Hex(r.Bytes(16)) },
			write: func(w io.Writer, v []string) error { var u uuid.UUID; copy(u[:], hx.UnHex(v[0])); return util.WriteUUIDIntArray(w, u) },
			read: func(r io.Reader, _ []string) (string, error) { u, err := util.ReadUUIDIntArray(r); return hx.Hex(u[:]), err }},
		bytesPrim("string", 400, func(w io.Writer, b []byte) error { return util.WriteString(w, string(b)) },
			func(r io.Reader) ([]byte, error) { s, err := util.ReadString(r); return []byte(s), err }),
		bytesPrim("bytes", 400, util.WriteBytes, util.ReadBytes),
		bytesPrim("utf", 400, func(w io.Writer, b []byte) error { return util.WriteUTF(w, string(b)) },
			func(r io.Reader) ([]byte, error) { s, err := util.ReadUTF(r); return []byte(s), err }),
		{name: "extshort", ntok: 1, gen: func(r *hx.Rng) string {
			if r.Bool() {
				return strconv.Itoa(hx.Pick(r, []int{0, 1, 127, 128, 255, 256, 300, 32767, 32768, 32769, 65535, 65536, 2097050, 8388607}))
			}
			return strconv.Itoa(r.Intn(1 << 23))
		},
			write: func(w io.Writer, v []string) error { n, _ := strconv.Atoi(v[0]); return util.WriteExtendedForgeShort(w, n) },
			read: func(r io.Reader, _ []string) (string, error) { n, err := util.ReadExtendedForgeShort(r); return strconv.Itoa(n), err }},
		{name: "bytes17", ntok: 2, gen: func(r *hx.Rng) string {
			ext := strconv.Itoa(r.Intn(2))
			if r.Chance(1, 12) {
				return ext + " " + hx.Hex(r.Bytes(hx.Pick(r, []int{32767, 32768, 32769, 40000})))
			}
			return ext + " " + hx.Hex(genBytes(r, 700))
		},
			write: func(w io.Writer, v []string) error { return util.WriteBytes17(w, hx.UnHex(v[1]), v[0] == "1") },
			read: func(r io.Reader, _ []string) (string, error) { b, err := util.ReadBytes17(r); return hx.Hex(b), err }},
		{name: "props", ntok: 1, gen: func(r *hx.Rng) string {
			n := r.Intn(4)
			ps := make([]profile.Property, n)
			for i := range ps {
				ps[i] = profile.Property{Name: string(genBytes(r, 40)), Value: string(genBytes(r, 300))}
				if r.Bool() {
					ps[i].Signature = string(genBytes(r, 300))
				}
			}
			return showProps(ps)
		},
			write: func(w io.Writer, v []string) error { return util.WriteProperties(w, parseProps(v[0])) },
			read: func(r io.Reader, _ []string) (string, error) {
				ps, err := util.ReadProperties(r)
				if err != nil {
					return "", err
				}
				return showProps(ps), nil
			}},
		{name: "strings", ntok: 1, gen: func(r *hx.Rng) string {
			n := r.Intn(5)
			if r.Chance(1, 40) { // around util.MaxPreAllocSize: the pre-allocation cap must not cap the element count
				n = hx.Pick(r, []int{32767, 32768, 32769, 40000})
				xs := make([]string, n)
				for i := range xs {
					xs[i] = hx.Hex([]byte{byte('a' + i%26)})
				}
				return showList(xs)
			}
			xs := make([]string, n)
			for i := range xs {
				xs[i] = hx.Hex(genBytes(r, 100))
			}
			return showList(xs)
		},
			write: func(w io.Writer, v []string) error {
				var xs []string
				for _, h := range parseList(v[0]) {
					xs = append(xs, string(hx.UnHex(h)))
				}
				return util.WriteStrings(w, xs)
			},
			read: func(r io.Reader, _ []string) (string, error) {
				xs, err := util.ReadStringArray(r)
				if err != nil {
					return "", err
				}
				var hs []string
				for _, s := range xs {
					hs = append(hs, hx.HexS(s))
				}
				return showList(hs), nil
			}},
		{name: "varints", ntok: 1, gen: func(r *hx.Rng) string {
			n := r.Intn(6)
			if r.Chance(1, 40) {
				n = hx.Pick(r, []int{32767, 32768, 32769, 40000})
				xs := make([]string, n)
				for i := range xs {
					xs[i] = strconv.Itoa(i % 300)
				}
				return showList(xs)
			}
			xs := make([]string, n)
			g := genInt(32)
			for i := range xs {
				xs[i] = g(r)
			}
			return showList(xs)
		},
			write: func(w io.Writer, v []string) error {
				var xs []int
				for _, s := range parseList(v[0]) {
					i, _ := strconv.Atoi(s)
					xs = append(xs, i)
				}
				return util.WriteVarIntArray(w, xs)
			},
			read: func(r io.Reader, _ []string) (string, error) {
				xs, err := util.ReadVarIntArray(r)
				if err != nil {
					return "", err
				}
				var hs []string
				for _, i := range xs {
					hs = append(hs, strconv.Itoa(i))
				}
				return showList(hs), nil
			}},
		{name: "key", ntok: 2, gen: func(r *hx.Rng) string {
			if r.Chance(1, 6) {
				return hx.HexS("minecraft") + " " + hx.HexS(genKeyPart(r, true))
			}
			return hx.HexS(genKeyPart(r, false)) + " " + hx.HexS(genKeyPart(r, true))
		},
			write: func(w io.Writer, v []string) error {
				return util.WriteKey(w, key.New(string(hx.UnHex(v[0])), string(hx.UnHex(v[1]))))
			},
			read: func(r io.Reader, _ []string) (string, error) {
				k, err := util.ReadKey(r)
				if err != nil {
					return "", err
				}
				return hx.HexS(k.Namespace()) + ":" + hx.HexS(k.Value()), nil
			}},
	}
}

func readOut(p prim, kind string, data []byte, extra []string) string {
	return hx.Guard(5*time.Second, func() string {
		rd, left := mkReader(kind, data)
		v, err := p.read(rd, extra)
		if err != nil {
			return "err " + hx.ErrClass(err)
		}
		return fmt.Sprintf("ok %s rest=%d", v, left())
	})
}

var kinds = []string{"r", "b", "p", "o"}

func main() {
	run := hx.Start()
	r := run.Rng
	ps := prims()
	perPrim := run.Scale(150, 600)
	// fixed regression cases: arrays longer than the pre-allocation cap round-trip completely
	for _, p := range ps {
		if p.name != "strings" && p.name != "varints" {
			continue
		}
		for _, n := range []int{32768, 32769} {
			xs := make([]string, n)
			for i := range xs {
				if p.name == "strings" {
					xs[i] = "78"
				} else {
					xs[i] = strconv.Itoa(i % 128)
				}
			}
			val := showList(xs)
			var buf bytes.Buffer
			if err := p.write(&buf, []string{val}); err != nil {
				continue
			}
			run.Case(p.name+"/rt-big", fmt.Sprintf("%s rt r %s -", p.name, val), readOut(p, "r", buf.Bytes(), nil))
		}
	}
	for _, p := range ps {
		for i := 0; i < perPrim; i++ {
			val := p.gen(r)
			toks := strings.Split(val, " ")
			var buf bytes.Buffer
			werr := p.write(&buf, toks)
			enc := append([]byte(nil), buf.Bytes()...)
			kind := hx.Pick(r, kinds)
			// w
			if werr != nil {
				run.Case(p.name+"/w-err", fmt.Sprintf("%s w %s %s", p.name, kind, val), "err "+hx.ErrClass(werr))
				continue
			}
			run.Case(p.name+"/w", fmt.Sprintf("%s w %s %s", p.name, kind, val), "ok "+hx.Hex(enc))
			// rt with random rest
			rest := r.Bytes(r.Intn(4))
			run.Case(p.name+"/rt", fmt.Sprintf("%s rt %s %s %s", p.name, kind, val, hx.Hex(rest)),
				readOut(p, kind, append(append([]byte(nil), enc...), rest...), nil))
			// every strict prefix (sampled when long), on every reader kind in turn
			n := len(enc)
			step := 1
			if n > 24 {
				step = n / 12
			}
			for k := 0; k < n; k += step {
				kd := kinds[(k+i)%len(kinds)]
				run.Case(p.name+"/pf", fmt.Sprintf("%s pf %s %s %d", p.name, kd, val, k), readOut(p, kd, enc[:k], nil))
			}
			if n > 1 {
				kd := hx.Pick(r, kinds)
				run.Case(p.name+"/pf", fmt.Sprintf("%s pf %s %s %d", p.name, kd, val, n-1), readOut(p, kd, enc[:n-1], nil))
			}
			// hostile bytes: mutate the encoding / random bytes
			mut := append([]byte(nil), enc...)
			switch r.Intn(4) {
			case 0:
				mut = r.Bytes(r.Intn(12))
			case 1:
				if len(mut) > 0 {
					mut[r.Intn(min(len(mut), 5))] ^= byte(1 << uint(r.Intn(8)))
				}
			case 2:
				mut = append(hx.Pick(r, [][]byte{{0xff, 0xff, 0xff, 0xff, 0x0f}, {0xff, 0xff, 0xff, 0xff, 0x07}, {0x80, 0x80, 0x80, 0x80, 0x80, 0x01}, {0xff, 0xff, 0x7f}, {0x81, 0x80, 0x10}}), mut...)
			default:
				mut = append(mut, r.Bytes(r.Intn(3))...)
			}
			run.Case(p.name+"/r", fmt.Sprintf("%s r %s %s", p.name, kind, hx.Hex(mut)), readOut(p, kind, mut, nil))
		}
	}
	// explicit maxima: stringmax / byteslen
	for i := 0; i < run.Scale(300, 1500); i++ {
		max := hx.Pick(r, []int{0, 1, 2, 16, 20, 255, 256, 32767})
		b := genBytes(r, 300)
		if r.Chance(1, 3) {
			b = r.Bytes(hx.Pick(r, []int{max, max + 1, max * 4, max*4 + 1}) % 70000)
		}
		var buf bytes.Buffer
		util.WriteBytes(&buf, b)
		data := buf.Bytes()
		if r.Chance(1, 4) && len(data) > 0 {
			data = data[:r.Intn(len(data))]
		}
		kind := hx.Pick(r, kinds)
		sm := prim{read: func(rd io.Reader, _ []string) (string, error) { s, err := util.ReadStringMax(rd, max); return hx.HexS(s), err }}
		bl := prim{read: func(rd io.Reader, _ []string) (string, error) { s, err := util.ReadBytesLen(rd, max); return hx.Hex(s), err }}
		run.Case("stringmax/r", fmt.Sprintf("stringmax r %s %d %s", kind, max, hx.Hex(data)), readOut(sm, kind, data, nil))
		run.Case("byteslen/r", fmt.Sprintf("byteslen r %s %d %s", kind, max, hx.Hex(data)), readOut(bl, kind, data, nil))
	}
	run.Finish()
}
