// C33 correspondence harness: drives the real netutil.ParseTrustedNetworks / TrustedNetworks.Contains /
// netutil.HostStr and proxy.proxyProtocol.wrapConnTimeout (verif-tagged hook) on generated peers,
// trusted lists and first bytes. PROXY headers are crafted by hand (not with go-proxyproto).
package main

import (
	"bytes"
	"encoding/binary"
	"errors"
	"fmt"
	"io"
	"math/big"
	"net"
	"net/netip"
	"os"
	"strings"
	"time"

	proxyproto "github.com/pires/go-proxyproto"

	"go.minekube.com/gate/pkg/edition/java/config"
	"go.minekube.com/gate/pkg/edition/java/proxy"
	"go.minekube.com/gate/pkg/util/netutil"

	"verifharness/hx"
)

const guardT = 5 * time.Second

var run *hx.Run

func scramble(z uint64) uint64 {
	z = (z ^ (z >> 30)) * 0xBF58476D1CE4E5B9
	z = (z ^ (z >> 27)) * 0x94D049BB133111EB
	return z ^ (z >> 31) ^ 0xC33
}

// ---------- wire tokens ----------

func addrTok(a netip.Addr, err error) string {
	if err != nil {
		return "err"
	}
	if a.Is4() {
		b := a.As4()
		return "4:" + hx.Hex(b[:])
	}
	b := a.As16()
	return "6:" + hx.Hex(b[:]) + ":" + hx.HexS(a.Zone())
}

func pfxTok(p netip.Prefix, err error) string {
	if err != nil {
		return "err"
	}
	a := p.Addr()
	if a.Is4() {
		b := a.As4()
		return fmt.Sprintf("4:%s/%d", hx.Hex(b[:]), p.Bits())
	}
	b := a.As16()
	return fmt.Sprintf("6:%s:-/%d", hx.Hex(b[:]), p.Bits())
}

func showPrefix(p netip.Prefix) string {
	a := p.Addr()
	if a.Is4() {
		b := a.As4()
		return fmt.Sprintf("4:%s/%d", hx.Hex(b[:]), p.Bits())
	}
	b := a.As16()
	return fmt.Sprintf("6:%s/%d", hx.Hex(b[:]), p.Bits())
}

// entryTok = rawhex|trimmedhex|pfxres|addrres for one configured network string
func entryTok(raw string, sep string) string {
	t := strings.TrimSpace(raw)
	pr, ar := "-", "-"
	if strings.Contains(t, "/") {
		pr = pfxTok(netip.ParsePrefix(t))
	} else {
		ar = addrTok(netip.ParseAddr(t))
	}
	return strings.Join([]string{hx.HexS(raw), hx.HexS(t), pr, ar}, sep)
}

// ---------- generators ----------

func randV4(r *hx.Rng) netip.Addr {
	var b [4]byte
	copy(b[:], r.Bytes(4))
	if r.Chance(1, 5) {
		b = hx.Pick(r, [][4]byte{{127, 0, 0, 1}, {10, 0, 0, 1}, {10, 255, 255, 255}, {11, 0, 0, 0}, {9, 255, 255, 255}, {192, 168, 1, 1}, {172, 16, 0, 0}, {172, 31, 255, 255}, {172, 32, 0, 0}, {0, 0, 0, 0}, {255, 255, 255, 255}, {169, 254, 3, 4}})
	}
	return netip.AddrFrom4(b)
}

func randV6(r *hx.Rng) netip.Addr {
	var b [16]byte
	copy(b[:], r.Bytes(16))
	switch r.Intn(8) {
	case 0:
		b = [16]byte{15: 1}
	case 1:
		b[0], b[1] = 0xfe, 0x80
		for i := 2; i < 8; i++ {
			b[i] = 0
		}
	case 2:
		b[0] = 0xfc | byte(r.Intn(2))
	case 3:
		for i := 4; i < 16; i++ {
			if r.Bool() {
				b[i] = 0
			}
		}
	}
	if b[10] == 0xff && b[11] == 0xff && bytes.Equal(b[:10], make([]byte, 10)) {
		b[0] = 0x20
	}
	return netip.AddrFrom16(b)
}

func addrToBig(a netip.Addr) *big.Int { return new(big.Int).SetBytes(a.AsSlice()) }
func bigToAddr(v *big.Int, v6 bool) netip.Addr {
	n := 4
	if v6 {
		n = 16
	}
	mod := new(big.Int).Lsh(big.NewInt(1), uint(8*n))
	v = new(big.Int).Mod(v, mod)
	b := make([]byte, n)
	v.FillBytes(b)
	a, _ := netip.AddrFromSlice(b)
	return a
}

// validEntry returns a network string that ParseTrustedNetworks accepts.
func validEntry(r *hx.Rng) string {
	var s string
	switch r.Intn(6) {
	case 0:
		s = randV4(r).String()
	case 1:
		s = randV6(r).String()
	case 2:
		a := randV6(r)
		s = a.String() + "%" + hx.Pick(r, []string{"eth0", "1", "en0"})
	case 3:
		a := randV6(r)
		bits := hx.Pick(r, []int{0, 1, 7, 8, 10, 32, 48, 63, 64, 65, 96, 127, 128, r.Intn(129)})
		s = fmt.Sprintf("%s/%d", a, bits) // host bits usually non-zero: Masked() must clear them
	default:
		a := randV4(r)
		bits := hx.Pick(r, []int{0, 1, 7, 8, 9, 12, 16, 23, 24, 25, 30, 31, 32, r.Intn(33)})
		s = fmt.Sprintf("%s/%d", a, bits)
	}
	if r.Chance(1, 4) {
		ws := []string{" ", "\t", "\n", "\r\n", "  ", " ", " ", "　", "\v\f", "\u0085"}
		s = hx.Pick(r, ws) + s + hx.Pick(r, ws)
	}
	return s
}

var invalidEntries = []string{
	"", " ", "not-an-ip", "10.0.0.0/33", "10.0.0.0/", "10.0.0.256", "::ffff:10.0.0.0/104", "::ffff:10.0.0.1", "::ffff:a00:1",
	"::ffff:10.0.0.0/8", "0:0:0:0:0:ffff:1.2.3.4", "::ffff:1.2.3.4%eth0", "fe80::1%eth0/64", "1.2.3.4/8/9", "/8", "1.2.3.4/-1", "1.2.3.4/08",
	"1.2.3.4/+8", "1.2.3.4/ 8", "1.2.3.4 /8", "1.2.3/8", "::/129", "1.2.3.4:80", "[::1]", "[::1]/128", "localhost", "10.0.0.1\x00",
	"10.0.0.1,10.0.0.2", "10.0.0.0/8 10.0.0.0/8", "01.2.3.4", "1.2.3.4.", "::1::", "1.2.3.4/", "​10.0.0.1", "10.0.0.1​", "::ffff:0:0/96",
}

func randEntry(r *hx.Rng) string {
	if r.Chance(1, 3) {
		return hx.Pick(r, invalidEntries)
	}
	if r.Chance(1, 8) {
		// mutate a valid entry
		s := []byte(validEntry(r))
		if len(s) > 0 {
			i := r.Intn(len(s))
			switch r.Intn(3) {
			case 0:
				s[i] = hx.Pick(r, []byte{'/', ':', '.', '%', 'g', ' ', '0'})
			case 1:
				s = append(s[:i], s[i+1:]...)
			default:
				s = append(s[:i], append([]byte{hx.Pick(r, []byte{'/', ':', '.', '1'})}, s[i:]...)...)
			}
		}
		return string(s)
	}
	return validEntry(r)
}

// peerNear builds a peer host (as netip.Addr) inside / at the edge of / outside one of the prefixes.
func peerNear(r *hx.Rng, t netutil.TrustedNetworks) netip.Addr {
	if len(t) == 0 || r.Chance(1, 5) {
		if r.Bool() {
			return randV4(r)
		}
		return randV6(r)
	}
	p := t[r.Intn(len(t))]
	v6 := p.Addr().Is6()
	n := 32
	if v6 {
		n = 128
	}
	base := addrToBig(p.Addr())
	size := new(big.Int).Lsh(big.NewInt(1), uint(n-p.Bits()))
	var v *big.Int
	switch r.Intn(6) {
	case 0:
		v = base
	case 1:
		v = new(big.Int).Sub(new(big.Int).Add(base, size), big.NewInt(1))
	case 2:
		v = new(big.Int).Sub(base, big.NewInt(1))
	case 3:
		v = new(big.Int).Add(base, size)
	default:
		off := new(big.Int).SetBytes(r.Bytes(16))
		v = new(big.Int).Add(base, off.Mod(off, size))
	}
	return bigToAddr(v, v6)
}

// peerString renders a peer address the way a net.Addr prints it (plus odd shapes).
func peerString(r *hx.Rng, a netip.Addr) string {
	port := hx.Pick(r, []string{"25565", "1", "65535", "0"})
	if a.Is4() {
		switch r.Intn(10) {
		case 0:
			return a.String() // no port
		case 1:
			return "[::ffff:" + a.String() + "]:" + port // IPv4-mapped
		case 2:
			b := a.As4()
			return fmt.Sprintf("[::ffff:%x:%x]:%s", uint16(b[0])<<8|uint16(b[1]), uint16(b[2])<<8|uint16(b[3]), port)
		case 3:
			return "[::ffff:" + a.String() + "%eth0]:" + port // mapped and zoned
		case 4:
			return "[" + a.String() + "]:" + port
		}
		return a.String() + ":" + port
	}
	switch r.Intn(10) {
	case 0:
		return a.String() // bare IPv6: "too many colons" → whole string is the host
	case 1, 2:
		return "[" + a.String() + "%" + hx.Pick(r, []string{"eth0", "1", "wlan0"}) + "]:" + port
	case 3:
		return "[" + a.StringExpanded() + "]:" + port
	case 4:
		return "[" + a.String() + "]" // missing port: host keeps the brackets → not an IP
	}
	return "[" + a.String() + "]:" + port
}

var oddPeers = []string{
	"pipe", "/tmp/gate.sock", "@", "", ":", "::", ":25565", "host:80", "example.com:25565", "1.2.3.4:notaport", "1.2.3.4:80:90",
	"[::1]x:80", "::1]:80", "[[::1]]:80", "[::1", "[]:80", "[:80", "]:80", "[1.2.3.4]", "1.2.3.4%eth0:80", "[fe80::1%]:80", "127.0.0.1:",
	"127.0.0.1 :80", " 127.0.0.1:80", "127.1:80", "0x7f.0.0.1:80", "[::ffff:127.0.0.1]:80", "[0:0:0:0:0:ffff:7f00:1]:80", "[::127.0.0.1]:80",
	"[::fffe:127.0.0.1]:80", "[64:ff9b::127.0.0.1]:80", "127.0.0.1", "::1", "[::1]:25565", "[fe80::1%eth0]:25565", "10.0.0.1:25565",
}

// ---------- fake connection ----------

type strAddr struct{ s string }

func (a strAddr) Network() string { return "tcp" }
func (a strAddr) String() string  { return a.s }

type fakeConn struct {
	r      *bytes.Reader
	remote net.Addr
	idle   bool
}

func (c *fakeConn) Read(b []byte) (int, error) {
	if c.r.Len() == 0 {
		if c.idle {
			return 0, os.ErrDeadlineExceeded
		}
		return 0, io.EOF
	}
	return c.r.Read(b)
}
func (c *fakeConn) Write(b []byte) (int, error)        { return len(b), nil }
func (c *fakeConn) Close() error                       { return nil }
func (c *fakeConn) LocalAddr() net.Addr                { return &net.TCPAddr{IP: net.IPv4(192, 0, 2, 1), Port: 25565} }
func (c *fakeConn) RemoteAddr() net.Addr               { return c.remote }
func (c *fakeConn) SetDeadline(t time.Time) error      { return nil }
func (c *fakeConn) SetReadDeadline(t time.Time) error  { return nil }
func (c *fakeConn) SetWriteDeadline(t time.Time) error { return nil }

// ---------- PROXY headers, crafted by hand ----------

var sigV2 = []byte{0x0D, 0x0A, 0x0D, 0x0A, 0x00, 0x0D, 0x0A, 0x51, 0x55, 0x49, 0x54, 0x0A}

// header returns (kind, bytes, printed source address)
func header(r *hx.Rng, kind string) ([]byte, string) {
	src4, dst4 := randV4(r), randV4(r)
	src6, dst6 := randV6(r), randV6(r)
	sp, dp := uint16(1+r.Intn(65535)), uint16(1+r.Intn(65535))
	switch kind {
	case "proxy":
		switch r.Intn(4) {
		case 0:
			return []byte(fmt.Sprintf("PROXY TCP4 %s %s %d %d\r\n", src4, dst4, sp, dp)), (&net.TCPAddr{IP: src4.AsSlice(), Port: int(sp)}).String()
		case 1:
			return []byte(fmt.Sprintf("PROXY TCP6 %s %s %d %d\r\n", src6, dst6, sp, dp)), (&net.TCPAddr{IP: src6.AsSlice(), Port: int(sp)}).String()
		case 2:
			b := append([]byte{}, sigV2...)
			b = append(b, 0x21, 0x11, 0, 12)
			b = append(b, src4.AsSlice()...)
			b = append(b, dst4.AsSlice()...)
			b = binary.BigEndian.AppendUint16(b, sp)
			b = binary.BigEndian.AppendUint16(b, dp)
			return b, (&net.TCPAddr{IP: src4.AsSlice(), Port: int(sp)}).String()
		default:
			b := append([]byte{}, sigV2...)
			b = append(b, 0x21, 0x21, 0, 36)
			b = append(b, src6.AsSlice()...)
			b = append(b, dst6.AsSlice()...)
			b = binary.BigEndian.AppendUint16(b, sp)
			b = binary.BigEndian.AppendUint16(b, dp)
			return b, (&net.TCPAddr{IP: src6.AsSlice(), Port: int(sp)}).String()
		}
	case "local":
		if r.Bool() {
			return []byte("PROXY UNKNOWN\r\n"), ""
		}
		b := append([]byte{}, sigV2...)
		return append(b, 0x20, 0x00, 0, 0), ""
	case "bad":
		return hx.Pick(r, [][]byte{
			[]byte("PROXY TCP4 1.2.3.4\r\n"), []byte("PROXY FOO 1.2.3.4 5.6.7.8 1 2\r\n"), []byte("PROXY TCP4 1.2.3.4 5.6.7.8 1 2\n"),
			[]byte("PROXY TCP4 999.2.3.4 5.6.7.8 1 2\r\n"), []byte("PROXY TCP4 1.2.3.4 5.6.7.8 70000 2\r\n"),
			append(append([]byte{}, sigV2...), 0x31, 0x11, 0, 12, 1, 2, 3, 4, 5, 6, 7, 8, 0, 1, 0, 2), // version 3
			append(append([]byte{}, sigV2...), 0x21, 0x11, 0, 4, 1, 2, 3, 4),                          // short address block
			append(append([]byte{}, sigV2...), 0x2f, 0x11, 0, 12, 1, 2, 3, 4, 5, 6, 7, 8, 0, 1, 0, 2), // bad command
		}), ""
	}
	return nil, ""
}

// payload that is not a PROXY signature (what a Minecraft client sends first)
func payload(r *hx.Rng) []byte {
	switch r.Intn(6) {
	case 0:
		return nil
	case 1:
		return []byte{0x10, 0x00, 0xff, 0x05, 0x09, 'l', 'o', 'c', 'a', 'l', 'h', 'o', 's', 't', 0x63, 0xdd, 0x01}
	case 2:
		return []byte("PROX") // a strict prefix of the v1 signature, then EOF
	case 3:
		return []byte("PROXX TCP4 1.2.3.4 5.6.7.8 1 2\r\n")
	case 4:
		return append([]byte{0x0D, 0x0A, 0x0D, 0x0A, 0x00, 0x0D, 0x0A, 0x51, 0x55, 0x49, 0x54, 0x0B}, r.Bytes(8)...)
	}
	b := r.Bytes(1 + r.Intn(40))
	if b[0] == 'P' || b[0] == 0x0D {
		b[0] = 0xFE // legacy ping
	}
	return b
}

// ---------- ops ----------

func opHost(class, addr string) {
	out := hx.Guard(guardT, func() string { return hx.HexS(netutil.HostStr(addr)) })
	run.Case(class, "host "+hx.HexS(addr), out)
}

func opParseOne(class, raw string) {
	out := hx.Guard(guardT, func() string {
		t, err := netutil.ParseTrustedNetworks([]string{raw})
		if err != nil || len(t) != 1 {
			return "err"
		}
		return "ok " + showPrefix(t[0])
	})
	run.Case(class, "pn "+entryTok(raw, " "), out)
}

// setList parses a list through the real newProxyProtocol and returns the wrapper (nil on error).
func setList(class string, entries []string) (*proxy.C33ProxyProtocol, netutil.TrustedNetworks) {
	var pp *proxy.C33ProxyProtocol
	var tn netutil.TrustedNetworks
	out := hx.Guard(guardT, func() string {
		p, err := proxy.C33NewProxyProtocol(&config.Config{ProxyProtocol: true, ProxyProtocolTrustedProxies: entries})
		t2, err2 := netutil.ParseTrustedNetworks(entries)
		if (err == nil) != (err2 == nil) {
			return "inconsistent"
		}
		if err != nil {
			return "err"
		}
		pp, tn = p, p.C33Trusted()
		if tn.String() != t2.String() {
			return "inconsistent"
		}
		if len(tn) == 0 {
			return "ok -"
		}
		var ps []string
		for _, p := range tn {
			ps = append(ps, showPrefix(p))
		}
		return "ok " + strings.Join(ps, ",")
	})
	toks := []string{fmt.Sprint(len(entries))}
	for _, e := range entries {
		toks = append(toks, entryTok(e, "|"))
	}
	run.Case(class, "tl "+strings.Join(toks, " "), out)
	return pp, tn
}

func parsedHostTok(addr string) (string, string) {
	h := netutil.HostStr(addr)
	return hx.HexS(h), addrTok(netip.ParseAddr(h))
}

func opContains(class string, t netutil.TrustedNetworks, addr *string) {
	if addr == nil {
		out := hx.Guard(guardT, func() string {
			if t.Contains(nil) {
				return "- 1"
			}
			return "- 0"
		})
		run.Case(class, "ct nil - err", out)
		return
	}
	hh, ph := parsedHostTok(*addr)
	out := hx.Guard(guardT, func() string {
		r := "0"
		if t.Contains(netutil.NewAddr(*addr, "tcp")) {
			r = "1"
		}
		return hx.HexS(netutil.Host(netutil.NewAddr(*addr, "tcp"))) + " " + r
	})
	run.Case(class, "ct "+hx.HexS(*addr)+" "+hh+" "+ph, out)
}

func opWrap(class string, pp *proxy.C33ProxyProtocol, addr *string, kind string) {
	if addr == nil {
		opWrapAddr(class, pp, nil, kind)
		return
	}
	opWrapAddr(class, pp, strAddr{*addr}, kind)
}

// opWrapAddr wraps a fake conn whose RemoteAddr() is the given net.Addr implementation (nil allowed).
func opWrapAddr(class string, pp *proxy.C33ProxyProtocol, remote net.Addr, kind string) {
	r := run.Rng
	var hdr []byte
	var src string
	k := kind
	if kind == "proxy" || kind == "local" || kind == "bad" {
		hdr, src = header(r, kind)
	}
	pl := payload(r)
	if kind == "idle" {
		pl = nil
	}
	if kind == "bad" {
		pl = nil
	}
	addrHex, hh, ph := "nil", "-", "err"
	if remote != nil {
		addrHex = hx.HexS(remote.String())
		hh, ph = parsedHostTok(remote.String())
	}
	out := hx.Guard(guardT, func() string {
		fc := &fakeConn{r: bytes.NewReader(append(append([]byte{}, hdr...), pl...)), remote: remote, idle: kind == "idle"}
		var w net.Conn
		if r.Chance(1, 8) {
			w = pp.C33WrapConn(fc)
		} else {
			w = pp.C33WrapConnTimeout(fc, time.Duration(hx.Pick(r, []int{0, 1, 50, 10000}))*time.Millisecond)
		}
		readFirst := r.Bool()
		var data []byte
		var rerr error
		readAll := func() {
			buf := make([]byte, 64)
			for {
				n, err := w.Read(buf)
				data = append(data, buf[:n]...)
				if err != nil {
					rerr = err
					return
				}
			}
		}
		if readFirst {
			readAll()
		}
		ra := w.RemoteAddr()
		if !readFirst {
			readAll()
		}
		a := "other"
		switch {
		case ra == remote:
			a = "own"
		case ra != nil && src != "" && ra.String() == src:
			a = "src"
		case ra != nil:
			a = "other:" + hx.HexS(ra.String())
		}
		e := "parse"
		switch {
		case errors.Is(rerr, io.EOF) || errors.Is(rerr, os.ErrDeadlineExceeded):
			e = "none"
		case errors.Is(rerr, proxyproto.ErrSuperfluousProxyHeader):
			e = "superfluous"
		}
		d := hx.Hex(data)
		if e != "none" {
			if len(data) != 0 {
				d = "leak:" + d
			} else {
				d = "-"
			}
		}
		return "a=" + a + " e=" + e + " d=" + d
	})
	srcHex := "-"
	if src != "" {
		srcHex = hx.HexS(src)
	}
	run.Case(class+"-"+k, fmt.Sprintf("wr %s %s %s %s %s %s", addrHex, hh, ph, k, srcHex, hx.Hex(pl)), out)
}

// ---------- socket-address probe: every net.Addr implementation the proxy can see ----------

// sockAddr builds one net.Addr of the given kind from raw IP bytes (4 or 16, or none) and a zone.
func sockAddr(kind string, ip []byte, zone string, port int) net.Addr {
	switch kind {
	case "tcp":
		return &net.TCPAddr{IP: net.IP(ip), Port: port, Zone: zone}
	case "udp":
		return &net.UDPAddr{IP: net.IP(ip), Port: port, Zone: zone}
	case "ip":
		return &net.IPAddr{IP: net.IP(ip), Zone: zone}
	}
	return strAddr{(&net.TCPAddr{IP: net.IP(ip), Port: port, Zone: zone}).String()} // only String()
}

// opContainsAddr calls the real Contains with a concrete net.Addr implementation.  The op line carries the
// raw IP bytes + zone the address denotes (the spec judges membership of THAT address, normalised) and the
// printed form with its parsed host (the model follows the code's own route through the string).
func opContainsAddr(class string, t netutil.TrustedNetworks, kind string, ip []byte, zone string, port int) {
	a := sockAddr(kind, ip, zone, port)
	str := a.String()
	hh, ph := parsedHostTok(str)
	out := hx.Guard(guardT, func() string {
		if t.Contains(a) {
			return "1"
		}
		return "0"
	})
	run.Case(class, fmt.Sprintf("cta %s %s %s %s %s %s", kind, hx.Hex(ip), hx.HexS(zone), hx.HexS(str), hh, ph), out)
}

func mapped16(b4 []byte) []byte {
	return append([]byte{0, 0, 0, 0, 0, 0, 0, 0, 0, 0, 0xff, 0xff}, b4...)
}

// ipForms returns the byte forms a socket address of this netip.Addr can carry:
// IPv4 → 4-byte and 16-byte IPv4-mapped; IPv6 → 16-byte.
func ipForms(a netip.Addr) [][]byte {
	if a.Is4() {
		b := a.As4()
		return [][]byte{b[:], mapped16(b[:])}
	}
	b := a.As16()
	return [][]byte{b[:]}
}

func sockProbe(class string, pp *proxy.C33ProxyProtocol, tn netutil.TrustedNetworks, a netip.Addr, wrapKinds []string) {
	r := run.Rng
	port := 1 + r.Intn(65535)
	for _, ip := range ipForms(a) {
		zone := ""
		if a.Is6() && !a.Is4In6() && r.Chance(1, 2) {
			zone = hx.Pick(r, []string{"eth0", "1", "wlan0"}) // zones only occur on native IPv6 (link-local) peers
		}
		for _, kind := range []string{"tcp", "udp", "ip", "str"} {
			opContainsAddr(class, tn, kind, ip, zone, port)
		}
		for _, wk := range wrapKinds {
			opWrapAddr(class+"-wrap", pp, sockAddr(hx.Pick(r, []string{"tcp", "udp"}), ip, zone, port), wk)
		}
	}
}

func sockSection() {
	r := run.Rng
	// fixed regression lists and peers first (deterministic): trusted IPv4 upstream seen through a dual-stack
	// socket (16-byte IPv4-mapped TCPAddr), IPv6 ranges covering ::ffff:0:0/96, zoned link-local peers
	fixedLists := [][]string{
		{"127.0.0.0/8", "10.0.0.0/8", "192.0.2.7"},
		{"::/64"},
		{"::/0"},
		{"fe80::/10", "::1"},
		config.ResolveProxyProtocolTrustedProxies(nil),
	}
	fixedPeers := []string{"127.0.0.1", "10.9.8.7", "192.0.2.7", "192.0.2.8", "1.2.3.4", "::1", "fe80::1", "::2", "2001:db8::1", "0.0.0.0", "255.255.255.255"}
	for _, l := range fixedLists {
		pp, tn := setList("sock-list", l)
		if pp == nil {
			continue
		}
		for _, ps := range fixedPeers {
			sockProbe("sock-fixed", pp, tn, netip.MustParseAddr(ps), []string{"proxy", "none"})
		}
		// addresses without an IP
		opContainsAddr("sock-fixed", tn, "tcp", nil, "", 25565)
		opContainsAddr("sock-fixed", tn, "udp", nil, "", 0)
		opContainsAddr("sock-fixed", tn, "ip", nil, "", 0)
	}
	// generated lists, peers inside / at the edge of / outside each network, all forms
	for li := 0; li < run.Scale(60, 600); li++ {
		var entries []string
		for j := 0; j < 1+r.Intn(4); j++ {
			entries = append(entries, validEntry(r))
		}
		if r.Chance(1, 4) {
			entries = append(entries, hx.Pick(r, []string{"::/0", "::/64", "::/80", "::/95", "::/96", "0.0.0.0/0", "::fffe:0:0/96"}))
		}
		pp, tn := setList("sock-list", entries)
		if pp == nil {
			continue
		}
		for j := 0; j < run.Scale(8, 16); j++ {
			sockProbe("sock-random", pp, tn, peerNear(r, tn), []string{hx.Pick(r, []string{"proxy", "proxy", "none", "local"})})
		}
	}
}

func main() {
	run = hx.Start()
	run.Rng = hx.NewRng(scramble(run.Seed))
	r := run.Rng

	sockSection()

	// Host extraction
	for _, a := range oddPeers {
		opHost("host-fixed", a)
	}
	for i := 0; i < run.Scale(4000, 30000); i++ {
		switch r.Intn(4) {
		case 0:
			opHost("host-random", hx.Pick(r, oddPeers))
		case 1:
			// random punctuation soup around the split characters
			n := r.Intn(10)
			var sb strings.Builder
			for j := 0; j < n; j++ {
				sb.WriteByte(hx.Pick(r, []byte{'[', ']', ':', ':', '1', 'a', '.', '%', '0'}))
			}
			opHost("host-soup", sb.String())
		case 2:
			opHost("host-random", peerString(r, randV4(r)))
		default:
			opHost("host-random", peerString(r, randV6(r)))
		}
	}

	// parsing single entries
	for _, e := range invalidEntries {
		opParseOne("parse-invalid-fixed", e)
	}
	for _, e := range []string{"127.0.0.0/8", "10.1.2.3", "fc00::/7", " 2001:db8::1 ", "0.0.0.0/0", "::/0", "fe80::1%eth0", "10.9.8.7/8", "::1/128", "1.2.3.4/32"} {
		opParseOne("parse-valid-fixed", e)
	}
	for i := 0; i < run.Scale(6000, 50000); i++ {
		opParseOne("parse-random", randEntry(r))
	}

	// nil wrapper (no configuration): trusts nothing
	{
		// a list that fails to parse yields no wrapper; production then holds a nil *proxyProtocol
		nilpp, _ := setList("list", []string{"10.0.0.0/8", "not-an-ip"})
		for _, kind := range []string{"none", "proxy", "local", "bad", "idle"} {
			for _, a := range []string{"127.0.0.1:25565", "[::1]:1", "pipe"} {
				a := a
				opWrap("wrap-nilwrapper", nilpp, &a, kind)
			}
			opWrap("wrap-nilwrapper", nilpp, nil, kind)
		}
	}

	// default list and generated lists
	nlists := run.Scale(400, 3000)
	for li := 0; li < nlists; li++ {
		var entries []string
		switch {
		case li == 0:
			entries = nil // empty configuration → DefaultProxyProtocolTrustedProxies
		case li == 1:
			entries = []string{"127.0.0.0/8", "10.0.0.0/8", "fc00::/7", "192.0.2.7", "fe80::/10"}
		case li == 2:
			entries = []string{"192.0.2.0/24"}
		case r.Chance(1, 6):
			for j := 0; j < 1+r.Intn(3); j++ {
				entries = append(entries, validEntry(r))
			}
			entries = append(entries, hx.Pick(r, invalidEntries))
		default:
			for j := 0; j < 1+r.Intn(5); j++ {
				entries = append(entries, validEntry(r))
			}
		}
		var pp *proxy.C33ProxyProtocol
		var tn netutil.TrustedNetworks
		if li == 0 {
			// the driver needs the entries that were really parsed: the defaults
			entries = config.ResolveProxyProtocolTrustedProxies(nil)
			pp, tn = setList("list", entries)
		} else {
			pp, tn = setList("list", entries)
		}
		if pp == nil {
			continue
		}
		for j := 0; j < run.Scale(24, 60); j++ {
			var addr string
			if r.Chance(1, 6) {
				addr = hx.Pick(r, oddPeers)
			} else {
				addr = peerString(r, peerNear(r, tn))
			}
			class := "contains"
			opContains(class, tn, &addr)
			kind := hx.Pick(r, []string{"none", "none", "proxy", "proxy", "proxy", "local", "bad", "idle"})
			opWrap("wrap", pp, &addr, kind)
		}
		opContains("contains", tn, nil)
		opWrap("wrap", pp, nil, hx.Pick(r, []string{"none", "proxy", "local"}))
	}
	run.Finish()
}
