// C43 correspondence harness: server list pings end to end through the public Proxy.HandleConn over
// net.Pipe.  A fake client sends a handshake (any protocol number, next state) and a sequence of
// status-phase frames and records every frame the proxy sends back until the proxy closes the
// connection.  Fake offline-mode players (real logins through HandleConn, held open by a backend
// that never answers) provide the online count.
package main

import (
	"bufio"
	"encoding/json"
	"fmt"
	"io"
	"net"
	"os"
	"strconv"
	"strings"
	"time"

	jconfig "go.minekube.com/gate/pkg/edition/java/config"
	"go.minekube.com/gate/pkg/edition/java/proto/version"
	"go.minekube.com/gate/pkg/edition/java/proxy"

	"verifharness/hx"
)

type pipeConn struct{ net.Conn }

func (p pipeConn) RemoteAddr() net.Addr { return &net.TCPAddr{IP: net.IPv4(127, 0, 0, 1), Port: 40000} }
func (p pipeConn) LocalAddr() net.Addr  { return &net.TCPAddr{IP: net.IPv4(127, 0, 0, 1), Port: 25565} }

func varint(v int) []byte {
	var out []byte
	u := uint32(int32(v))
	for {
		if u&^0x7f == 0 {
			return append(out, byte(u))
		}
		out = append(out, byte(u&0x7f|0x80))
		u >>= 7
	}
}
func frame(body []byte) []byte { return append(varint(len(body)), body...) }
func mcString(s string) []byte { return append(varint(len(s)), s...) }

func handshake(protocol, next int) []byte {
	hs := append([]byte{0x00}, varint(protocol)...)
	hs = append(hs, mcString("localhost")...)
	hs = append(hs, 0x63, 0xdd)
	hs = append(hs, varint(next)...)
	return frame(hs)
}

// readFrame reads one uncompressed frame: (packet id, data).
func readFrame(rd *bufio.Reader) (int, []byte, error) {
	readVar := func(r io.ByteReader) (int, error) {
		var v uint32
		for i := 0; i < 5; i++ {
			b, err := r.ReadByte()
			if err != nil {
				return 0, err
			}
			v |= uint32(b&0x7f) << (7 * i)
			if b&0x80 == 0 {
				return int(int32(v)), nil
			}
		}
		return 0, fmt.Errorf("varint too long")
	}
	n, err := readVar(rd)
	if err != nil {
		return 0, nil, err
	}
	if n <= 0 || n > 1<<22 {
		return 0, nil, fmt.Errorf("bad frame length %d", n)
	}
	buf := make([]byte, n)
	if _, err := io.ReadFull(rd, buf); err != nil {
		return 0, nil, err
	}
	br := strings.NewReader(string(buf))
	id, err := readVar(br)
	if err != nil {
		return 0, nil, err
	}
	return id, buf[len(buf)-br.Len():], nil
}

type env struct {
	p       *proxy.Proxy
	backend net.Listener
	held    []net.Conn // client ends of logged-in fake players
	maxShow int
}

func newEnv(maxShow int) *env {
	ln, err := net.Listen("tcp", "127.0.0.1:0")
	if err != nil {
		panic(err)
	}
	go func() { // a backend that accepts and never answers: logged-in players stay "connecting"
		for {
			c, err := ln.Accept()
			if err != nil {
				return
			}
			go func() { _, _ = io.Copy(io.Discard, c) }()
		}
	}()
	cfg := jconfig.DefaultConfig
	cfg.OnlineMode = false
	cfg.ForceKeyAuthentication = false
	cfg.Compression.Threshold = -1
	cfg.Quota.Connections.Enabled = false
	cfg.Quota.Logins.Enabled = false
	cfg.Forwarding.Mode = jconfig.NoneForwardingMode
	cfg.Servers = map[string]string{"s": ln.Addr().String()}
	cfg.Try = []string{"s"}
	cfg.Status.ShowMaxPlayers = maxShow
	p, err := proxy.New(proxy.Options{Config: &cfg})
	if err != nil {
		panic(err)
	}
	if _, err := p.Register(proxy.NewServerInfo("s", ln.Addr())); err != nil {
		panic(err)
	}
	return &env{p: p, backend: ln, maxShow: maxShow}
}

// setOnline logs fake players in until exactly n are online (observed through the public PlayerCount).
// The count only grows during a run: a player whose backend never answers cannot be logged out from the
// client side (its read loop is inside the blocking backend connect).
func (e *env) setOnline(n int) bool {
	if len(e.held) > n {
		return false
	}
	for len(e.held) < n {
		name := fmt.Sprintf("fake%04d", len(e.held))
		cli, srv := net.Pipe()
		go e.p.HandleConn(pipeConn{srv})
		hello := append(handshake(47, 2), frame(append([]byte{0x00}, mcString(name)...))...)
		go func() { _, _ = cli.Write(hello) }()
		_ = cli.SetReadDeadline(time.Now().Add(10 * time.Second))
		rd := bufio.NewReader(cli)
		id, _, err := readFrame(rd)
		if err != nil || id != 0x02 { // ServerLoginSuccess
			fmt.Fprintln(os.Stderr, "fake login failed:", id, err)
			return false
		}
		_ = cli.SetReadDeadline(time.Time{})
		go func() { _, _ = io.Copy(io.Discard, rd) }()
		e.held = append(e.held, cli)
	}
	deadline := time.Now().Add(10 * time.Second)
	for e.p.PlayerCount() != n {
		if time.Now().After(deadline) {
			fmt.Fprintln(os.Stderr, "player count", e.p.PlayerCount(), "want", n)
			return false
		}
		time.Sleep(2 * time.Millisecond)
	}
	return true
}

// one client packet of a status-phase sequence, in line-protocol form:
//
//	R            status request                        R<hex>  request followed by junk bytes
//	P<hex>       ping, <hex> = the bytes after the id  (8 = well-formed, >8 = junk tail, <8 = truncated)
//	U<id>:<hex>  a packet id that is not registered in the status state
//	E            an empty frame (length 0)
func encodeOp(op string) []byte {
	switch op[0] {
	case 'R':
		return frame(append([]byte{0x00}, hx.UnHex(orDash(op[1:]))...))
	case 'P':
		return frame(append([]byte{0x01}, hx.UnHex(orDash(op[1:]))...))
	case 'U':
		parts := strings.SplitN(op[1:], ":", 2)
		id, _ := strconv.Atoi(parts[0])
		return frame(append(varint(id), hx.UnHex(parts[1])...))
	case 'E':
		return []byte{0x00}
	}
	panic("bad op " + op)
}

func orDash(s string) string {
	if s == "" {
		return "-"
	}
	return s
}

// session runs one connection and returns what the client observed: the frames received, then how the
// connection ended.
func (e *env) session(protocol, next int, ops []string, oneWrite bool) string {
	cli, srv := net.Pipe()
	done := make(chan struct{})
	go func() { defer close(done); e.p.HandleConn(pipeConn{srv}) }()
	_ = cli.SetDeadline(time.Now().Add(4 * time.Second))
	go func() {
		if oneWrite { // everything in one segment: the proxy's bufio sees all frames at once
			buf := handshake(protocol, next)
			for _, op := range ops {
				buf = append(buf, encodeOp(op)...)
			}
			_, _ = cli.Write(buf)
			return
		}
		if _, err := cli.Write(handshake(protocol, next)); err != nil {
			return
		}
		for _, op := range ops {
			if _, err := cli.Write(encodeOp(op)); err != nil {
				return
			}
		}
	}()
	var out []string
	rd := bufio.NewReader(cli)
	end := "closed"
	for {
		id, data, err := readFrame(rd)
		if err != nil {
			if ne, ok := err.(net.Error); ok && ne.Timeout() {
				end = "hang"
			} else if err != io.EOF && err != io.ErrClosedPipe && !strings.Contains(err.Error(), "closed") {
				end = "garbage"
			}
			break
		}
		switch id {
		case 0x00:
			out = append(out, parseResponse(data))
		case 0x01:
			out = append(out, "echo:"+hx.Hex(data))
		default:
			out = append(out, fmt.Sprintf("packet:%d", id))
		}
		if len(out) > 64 {
			end = "flood"
			break
		}
	}
	_ = cli.Close()
	select {
	case <-done:
	case <-time.After(10 * time.Second):
		end += "+handler-hang"
	}
	return strings.Join(append(out, end), " ")
}

// parseResponse: StatusResponse data = one string holding the JSON.
func parseResponse(data []byte) string {
	rd := bufio.NewReader(strings.NewReader(string(data)))
	var n uint32
	for i := 0; i < 5; i++ {
		b, err := rd.ReadByte()
		if err != nil {
			return "resp:bad-string"
		}
		n |= uint32(b&0x7f) << (7 * i)
		if b&0x80 == 0 {
			break
		}
	}
	js := make([]byte, n)
	if _, err := io.ReadFull(rd, js); err != nil || rd.Buffered() != 0 {
		return "resp:bad-string"
	}
	var v struct {
		Version *struct {
			Protocol *int    `json:"protocol"`
			Name     *string `json:"name"`
		} `json:"version"`
		Players *struct {
			Online *int `json:"online"`
			Max    *int `json:"max"`
		} `json:"players"`
		Description json.RawMessage `json:"description"`
	}
	if err := json.Unmarshal(js, &v); err != nil {
		return "resp:bad-json"
	}
	if v.Version == nil || v.Version.Protocol == nil || v.Version.Name == nil || v.Players == nil ||
		v.Players.Online == nil || v.Players.Max == nil || len(v.Description) == 0 {
		return "resp:missing-field"
	}
	return fmt.Sprintf("resp:proto=%d,online=%d,max=%d", *v.Version.Protocol, *v.Players.Online, *v.Players.Max)
}

func hex8(r *hx.Rng) string { return hx.Hex(r.Bytes(8)) }

func genOp(r *hx.Rng) string {
	switch r.Intn(16) {
	case 0, 1, 2, 3, 4:
		return "R"
	case 5, 6, 7, 8, 9:
		return "P" + hex8(r)
	case 10:
		return "P" + hx.Hex(r.Bytes(9+r.Intn(12))) // junk tail
	case 11:
		return "P" + strings.TrimPrefix(hx.Hex(r.Bytes(r.Intn(8))), "-") // truncated
	case 12:
		return fmt.Sprintf("U%d:%s", hx.Pick(r, []int{2, 3, 5, 16, 122, 127, 128, 255, 300, 1 << 20, -1}), hx.Hex(r.Bytes(r.Intn(6))))
	case 13:
		return "E"
	case 14:
		return "R" + hx.Hex(r.Bytes(1+r.Intn(5)))
	default:
		return hx.Pick(r, []string{"P0000000000000000", "Pffffffffffffffff", "P8000000000000000", "P7fffffffffffffff"})
	}
}

func main() {
	run := hx.Start()
	defer run.Finish()
	r := run.Rng

	var known []int
	for _, v := range version.SupportedVersions {
		known = append(known, int(v.Protocol))
	}
	unknown := []int{0, 1, 2, 3, 6, 46, 48, 106, 109, 401, 498, 578, 734, 777, 778, 1000, 9999, 1<<31 - 1}
	negative := []int{-1, -2, -3, -5, -100, -(1 << 31)}
	maxShow := 1000 + int(run.Seed%7)
	e := newEnv(maxShow)
	online := 0
	if !e.setOnline(0) {
		panic("cannot reach 0 players")
	}
	run.Extra["supported_versions"] = len(known)

	hangs := 0
	do := func(class string, protocol, next int, ops []string, oneWrite bool) {
		w := "s"
		if oneWrite {
			w = "1"
		}
		// every sequence ends with a probe ping: it is echoed iff the connection is still open, and it always
		// makes the proxy close, so "still open" is observed without waiting for a timeout
		ops = append(append([]string(nil), ops...), "Pfeedfacecafebeef")
		line := fmt.Sprintf("conn %d %d %d %d %s %s", protocol, next, online, maxShow, w, strings.Join(ops, ","))
		if hangs >= 6 { // the proxy stopped closing connections: a few witnesses are enough, do not wait out thousands
			return
		}
		out := hx.Guard(40*time.Second, func() string { return e.session(protocol, next, ops, oneWrite) })
		if strings.Contains(out, "hang") {
			hangs++
		}
		run.Case(class, line, out)
	}

	// ---- fixed regression cases first
	fixed := [][]string{
		{"R", "P0102030405060708"}, {"R"}, {"P0102030405060708"}, {"R", "R"}, {"R", "R", "P0102030405060708"},
		{"R", "P0102030405060708", "R"}, {"R", "P0102030405060708", "P1112131415161718"}, {"U2:00"}, {"R", "U2:"},
		{"E", "R", "E", "P0102030405060708"}, {"R", "P01020304"}, {"R", "P010203040506070809"}, {"Rff", "P0102030405060708"}, {},
		{"E", "E", "E", "E", "E", "E", "E", "E", "E", "E", "E", "E", "R"},
	}
	for _, p := range []int{776, 47, 4, 764, 9999, 109, 0, -1, -5, -2} {
		for _, seq := range fixed {
			do("fixed", p, 1, seq, false)
		}
	}
	// next-state values of the handshake
	for _, nx := range []int{0, 4, 5, -1, 99, 1} {
		do("next-state", 764, nx, []string{"R", "P0102030405060708"}, false)
	}
	// ---- every supported protocol, plus unknown and negative numbers, with the canonical exchange
	for _, k := range []int{0, 1, 3} {
		if !e.setOnline(k) {
			panic("cannot set online players")
		}
		online = k
		for _, p := range known {
			do("supported", p, 1, []string{"R", "P" + hex8(r)}, r.Bool())
		}
		for _, p := range unknown {
			do("unknown", p, 1, []string{"R", "P" + hex8(r)}, r.Bool())
		}
		for _, p := range negative {
			do("negative", p, 1, []string{"R", "P" + hex8(r)}, r.Bool())
		}
	}
	// ---- random sequences × random protocol × varying player count
	n := run.Scale(3000, 30000)
	for i := 0; i < n; i++ {
		if i%run.Scale(500, 3000) == 0 {
			k := online + r.Intn(3)
			if !e.setOnline(k) {
				panic("cannot set online players")
			}
			online = k
		}
		var p int
		switch r.Intn(4) {
		case 0, 1:
			p = hx.Pick(r, known)
		case 2:
			p = hx.Pick(r, unknown)
		default:
			p = hx.Pick(r, negative)
		}
		if r.Chance(1, 20) {
			p = int(int32(r.U64()))
		}
		ln := r.Intn(6)
		if r.Chance(1, 15) {
			ln = 6 + r.Intn(10)
		}
		ops := make([]string, ln)
		for j := range ops {
			ops[j] = genOp(r)
		}
		do("random", p, 1, ops, r.Chance(1, 3))
	}
	_ = e.backend.Close()
}

func orUnderscore(s string) string {
	if s == "" {
		return "_"
	}
	return s
}
